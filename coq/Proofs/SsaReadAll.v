(* SSA/ASS reader on rendered documents, every line the format tolerates: lines before the first section header
   (comments, which count, and anything else, which does not), script info sections with unknown "key: value" lines
   and unintelligible lines between the known keys, styles and events sections with comment lines, unintelligible
   lines, several Format lines (each overwriting the first columns of the one in force) and rows under any header,
   unknown sections -- in any order and number.  [read_sections] (Proofs/SsaReadAny.v) is the special case without
   these lines. *)
From Coq Require Import Strings.String Strings.Ascii.
From Coq Require Import List ZArith NArith Bool Lia.
From Astisub Require Import Kit.Base Kit.Str Kit.Scan Model.Dur Model.Ssa.
From Astisub Require Import Proofs.VttBase Proofs.SsaFields Proofs.SsaTrim Proofs.SsaRows Proofs.SsaLines
  Proofs.SsaInfo Proofs.SsaInfoOrder Proofs.SsaStyles Proofs.SsaEvents Proofs.SsaIgnore Proofs.SsaRead Proofs.SsaReadAny.
Import ListNotations.
Local Close Scope string_scope.      (* left open by Proofs/SsaReadAny.v *)
Open Scope N_scope.

(* ---------------------------------------------------------------- one line, after trimming *)
(* the line the reader looks at: trimmed, and without the byte-order mark when it is the first line of the input *)
Definition eff (first : bool) (l : str) : str := if first then trim_prefix bom3 (trim_space l) else trim_space l.
Lemma ssa_step_eff s first l : ssa_step s first l = match eff first l with [] => Ok s | t => ssa_line s t end.
Proof. unfold ssa_step, eff. destruct first; [destruct (trim_prefix bom3 (trim_space l)) | destruct (trim_space l)]; reflexivity. Qed.

(* a comment line: ';' then the comment, with any white space around it *)
Definition comment_line (first : bool) (l c : str) : Prop := exists r, eff first l = 59 :: r /\ trim_space r = c.
Lemma comment_line_step s first l c : comment_line first l c -> rs_sect s <> SUnknown ->
  ssa_step s first l = Ok (mkRstate (rs_sect s) (rs_fmt s) (add_comment c (rs_info s)) (rs_styles s) (rs_events s)).
Proof.
  intros (r & El & Hr) Hs. rewrite ssa_step_eff, El, ssa_line_cases.
  rewrite (bracketed_other 59 r) by discriminate.
  destruct (rs_sect s); cbn [is_unknown]; try contradiction; rewrite N.eqb_refl, Hr; reflexivity.
Qed.
(* the spelling of the writer and of [IC]: "; " then a trimmed comment *)
Lemma comment_line_std first c : trim_space c = c -> comment_line first ([59; 32] ++ c) c.
Proof.
  intros Hc. unfold comment_line, eff. cbn [app]. destruct c as [|c0 c'].
  - exists []. change (trim_space [59; 32]) with [59]. destruct first; split; reflexivity.
  - assert (Et : trim_space (59 :: 32 :: c0 :: c') = 59 :: 32 :: c0 :: c').
    { change (59 :: 32 :: c0 :: c') with ([59] ++ 32 :: c0 :: c').
      apply trim_space_shielded; [discriminate | reflexivity | reflexivity | discriminate | exact Hc]. }
    exists (32 :: c0 :: c'). rewrite Et. split; [destruct first; reflexivity|]. rewrite trim_space_sp_head. exact Hc.
Qed.

(* an unintelligible line (no colon, or a colon first), also as first line of the input *)
Definition junk_f (first : bool) (l : str) : Prop := junk_trimmed (eff first l).
Lemma junk_f_false l : junk_f false l <-> junk l. Proof. reflexivity. Qed.

(* a "key: value" line: not a section header, not a comment, a colon somewhere but not in front *)
Definition kv_trimmed (t : str) : Prop := bracketed t = None /\ hd 0 t <> 59 /\ hd 0 t <> 58 /\ In 58 t.
Definition kv_header (t : str) : str := trim_space (hd [] (split_byte 58 t)).
Definition kv_content (t : str) : str := trim_space (join [58] (tl (split_byte 58 t))).
Lemma split_byte_in c t : In c t -> exists h r0 rr, split_byte c t = h :: r0 :: rr.
Proof.
  induction t as [|x r IH]; intros Hin; [destruct Hin|]. cbn [split_byte].
  pose proof (split_byte_nonnil c r) as Hn. destruct (split_byte c r) as [|h t'] eqn:E; [contradiction|].
  destruct (x =? c) eqn:Ex; [exists [], h, t'; reflexivity|].
  apply N.eqb_neq in Ex. destruct Hin as [Hx|Hr]; [congruence|].
  destruct (IH Hr) as (h' & r0 & rr & E'). injection E' as -> ->. exists (x :: h'), r0, rr. reflexivity.
Qed.
Lemma split_byte_hd c x r : x <> c -> exists h t, split_byte c (x :: r) = (x :: h) :: t.
Proof.
  intros Hx. cbn [split_byte]. pose proof (split_byte_nonnil c r) as Hn. destruct (split_byte c r) as [|h t]; [contradiction|].
  apply N.eqb_neq in Hx. rewrite Hx. exists h, t. reflexivity.
Qed.
Lemma ssa_line_kv_line s t : kv_trimmed t -> ssa_line s t = kv_dispatch s (kv_header t) (kv_content t).
Proof.
  intros (Hb & H59 & H58 & Hin). rewrite ssa_line_cases, Hb. destruct t as [|c r]; [destruct Hin|]. cbn [hd] in *.
  destruct (is_unknown (rs_sect s)) eqn:Eu.
  { destruct s as [sect fmt info sts evs]. cbn [rs_sect] in Eu. destruct sect; try discriminate. reflexivity. }
  apply N.eqb_neq in H59. rewrite H59. unfold ssa_line_kv, kv_header, kv_content.
  destruct (split_byte_in 58 (c :: r) Hin) as (h & r0 & rr & E).
  destruct (split_byte_hd 58 c r H58) as (h' & t' & E'). rewrite E in E'. injection E' as -> <-.
  rewrite E. reflexivity.
Qed.

(* a line the reader skips before the first section header: anything but a section header or a comment *)
Definition skipped_f (first : bool) (l : str) : Prop := bracketed (eff first l) = None /\ hd 0 (eff first l) <> 59.
Lemma junk_skipped first l : junk_f first l -> skipped_f first l.
Proof. unfold junk_f, junk_trimmed, skipped_f. intros [->|(Hb & H59 & _)]; [split; [reflexivity | discriminate] | split; assumption]. Qed.
Lemma kv_skipped first l : kv_trimmed (eff first l) -> skipped_f first l.
Proof. intros (Hb & H59 & _). split; assumption. Qed.
Lemma skipped_step s first l : rs_sect s = SNone -> skipped_f first l -> ssa_step s first l = Ok s.
Proof.
  intros Hs (Hb & H59). rewrite ssa_step_eff. destruct (eff first l) as [|c r]; [reflexivity|]. cbn [hd] in H59.
  rewrite ssa_line_cases, Hb, Hs. cbn [is_unknown]. apply N.eqb_neq in H59. rewrite H59. unfold ssa_line_kv.
  destruct (split_byte 58 (c :: r)) as [|h [|r0 rr]]; try reflexivity. destruct h; [reflexivity|].
  unfold kv_dispatch. destruct s as [sect fmt info sts evs]. cbn [rs_sect] in Hs. subst sect. reflexivity.
Qed.
Lemma junk_f_step s first l : junk_f first l -> ssa_step s first l = Ok s.
Proof.
  unfold junk_f, junk_trimmed. rewrite ssa_step_eff. intros [->|(Hb & H59 & Hc)]; [reflexivity|].
  destruct (eff first l) as [|c r]; [reflexivity|]. cbn [hd] in *.
  rewrite ssa_line_cases, Hb. destruct (is_unknown (rs_sect s)); [reflexivity|].
  apply N.eqb_neq in H59. rewrite H59. unfold ssa_line_kv. destruct Hc as [Hc| ->].
  - rewrite (split_byte_none 58 (c :: r) Hc). reflexivity.
  - cbn [split_byte]. rewrite N.eqb_refl. pose proof (split_byte_nonnil 58 r) as Hn.
    destruct (split_byte 58 r); [contradiction | reflexivity].
Qed.

(* ---------------------------------------------------------------- unknown script info keys *)
(* the names the switch of ssaScriptInfo.parse knows *)
Definition info_key_names : list str := map ikey_name ikeys_all ++ map nkey_name nkeys_all ++ [n_timer].
Lemma find_ikey_none l h : ~ In h (map ikey_name l) -> find_ikey l h = None.
Proof.
  induction l as [|k r IH]; intros Hn; [reflexivity|]. cbn [find_ikey map In] in *.
  destruct (str_eqb h (ikey_name k)) eqn:E; [apply str_eqb_eq in E; exfalso; apply Hn; left; symmetry; exact E|].
  apply IH. intros Hi. apply Hn. right. exact Hi.
Qed.
Lemma find_nkey_none l h : ~ In h (map nkey_name l) -> find_nkey l h = None.
Proof.
  induction l as [|k r IH]; intros Hn; [reflexivity|]. cbn [find_nkey map In] in *.
  destruct (str_eqb h (nkey_name k)) eqn:E; [apply str_eqb_eq in E; exfalso; apply Hn; left; symmetry; exact E|].
  apply IH. intros Hi. apply Hn. right. exact Hi.
Qed.
(* a header that is none of the known names leaves the script info as it is, whatever the value *)
Lemma info_parse_unknown i h c : ~ In h info_key_names -> info_parse i h c = Ok i.
Proof.
  unfold info_key_names. intros Hn. unfold info_parse.
  rewrite find_ikey_none by (intros Hi; apply Hn; apply in_or_app; left; exact Hi).
  rewrite find_nkey_none by (intros Hi; apply Hn; apply in_or_app; right; apply in_or_app; left; exact Hi).
  destruct (str_eqb h n_timer) eqn:E; [|reflexivity]. apply str_eqb_eq in E. exfalso. apply Hn.
  apply in_or_app. right. apply in_or_app. right. left. symmetry. exact E.
Qed.
(* the converse, so that the syntactic condition is exact: a known name is looked at *)
Lemma info_key_names_known h : In h info_key_names ->
  (exists k, h = ikey_name k) \/ (exists k, h = nkey_name k) \/ h = n_timer.
Proof.
  unfold info_key_names. intros Hi. apply in_app_or in Hi. destruct Hi as [Hi|Hi].
  - apply in_map_iff in Hi. destruct Hi as (k & <- & _). left. exists k. reflexivity.
  - apply in_app_or in Hi. destruct Hi as [Hi|[<-|[]]].
    + apply in_map_iff in Hi. destruct Hi as (k & <- & _). right. left. exists k. reflexivity.
    + right. right. reflexivity.
Qed.

(* an ignorable line of a script info section: "key: value" (any spacing, the value may be empty or contain colons)
   whose trimmed key is none of the known names *)
Definition unknown_key_line (l : str) : Prop := kv_trimmed (trim_space l) /\ ~ In (kv_header (trim_space l)) info_key_names.
(* UNKNOWN SCRIPT INFO KEYS ARE IGNORED *)
Theorem unknown_key_step s l : rs_sect s = SInfo -> unknown_key_line l -> ssa_step s false l = Ok s.
Proof.
  intros Hs (Hkv & Hn). rewrite ssa_step_eff. unfold eff.
  destruct (trim_space l) as [|c r] eqn:Et; [reflexivity|]. rewrite (ssa_line_kv_line s (c :: r) Hkv).
  unfold kv_dispatch. destruct s as [sect fmt info sts evs]. cbn [rs_sect] in Hs. subst sect.
  rewrite (info_parse_unknown info _ _ Hn). reflexivity.
Qed.

(* ---------------------------------------------------------------- Format lines and rows, whatever came before *)
(* a Format line inside a styles or events section overwrites the first columns of the list in force *)
Lemma format_step_any s v cols : (rs_sect s = SStyles \/ rs_sect s = SEvents) -> format_value v cols ->
  ssa_step s false (n_format_pfx ++ v) = Ok (mkRstate (rs_sect s) (overlay cols (rs_fmt s)) (rs_info s) (rs_styles s) (rs_events s)).
Proof.
  intros Hs (Hn & Ht & Hc). rewrite format_pfx_eq, <- app_assoc.
  rewrite (kv_step s n_format _ format_hdr_ok Hn Ht) by (destruct Hs as [-> | ->]; discriminate).
  unfold kv_dispatch. destruct s as [sect fmt info sts evs]. cbn [rs_sect rs_fmt rs_info rs_styles rs_events] in *.
  destruct Hs as [-> | ->]; change (str_eqb n_format n_format) with true; cbv iota; unfold comma; rewrite Hc; reflexivity.
Qed.
Lemma overlay_nil cols : overlay cols [] = cols.
Proof. unfold overlay. rewrite skipn_nil. apply app_nil_r. Qed.
Lemma overlay_nonnil v cols old : format_value v cols -> overlay cols old <> [].
Proof.
  intros (_ & _ & <-). pose proof (split_byte_nonnil 44 v) as Hn. destruct (split_byte 44 v); [contradiction|]. discriminate.
Qed.
Lemma str_neq_eqb a b : a <> b -> str_eqb a b = false.
Proof. intros H. destruct (str_eqb a b) eqn:E; [apply str_eqb_eq in E; contradiction | reflexivity]. Qed.

(* a row of a styles section: ANY header but Format (the reader does not look at it) *)
Lemma style_row_step_h s h cols cells st : hdr_ok h -> h <> n_format -> style_row cols cells st ->
  rs_sect s = SStyles -> rs_fmt s = cols -> cols <> [] ->
  ssa_step s false (h ++ colon_sp ++ join [44] cells) =
  Ok (mkRstate SStyles cols (rs_info s) (rs_styles s ++ [st]) (rs_events s)).
Proof.
  intros Hh Hnf (Hne & Hnc & HF & Hcov & Hvn & Hvt) Hs Hf Hcn.
  rewrite (kv_step s h _ Hh Hvn Hvt) by (rewrite Hs; discriminate).
  unfold kv_dispatch. destruct s as [sect fmt info sts evs]. cbn [rs_sect rs_fmt rs_info rs_styles rs_events] in *. subst sect fmt.
  rewrite (str_neq_eqb _ _ Hnf). destruct cols as [|c0 cr]; [contradiction|].
  rewrite (style_row_read_full (c0 :: cr) cells st Hne Hnc HF Hcov). reflexivity.
Qed.
(* a row of an events section under the header [h]: an event of category [h] *)
Definition event_row_h (h : str) (cols : list str) (init : list str) (last : str) (ev : aevent) : Prop :=
  Forall (fun c => ~ In 44 c) init /\ Forall2 (ecol_ok ev) cols (init ++ [last]) /\
  av_category ev = h /\ (forall a, ~ in_ecols a cols -> eget a ev = eget a (aevent0 h)) /\
  join [44] (init ++ [last]) <> [] /\ trim_space (join [44] (init ++ [last])) = join [44] (init ++ [last]).
Lemma event_row_dialogue cols init last ev : event_row cols init last ev <-> event_row_h n_dialogue cols init last ev.
Proof. reflexivity. Qed.
Lemma event_row_step_h s h cols init last ev : hdr_ok h -> h <> n_format -> event_row_h h cols init last ev ->
  rs_sect s = SEvents -> rs_fmt s = cols -> cols <> [] ->
  ssa_step s false (h ++ colon_sp ++ join [44] (init ++ [last])) =
  Ok (mkRstate SEvents cols (rs_info s) (rs_styles s) (rs_events s ++ [ev])).
Proof.
  intros Hh Hnf (Hnc & HF & Hcat & Hdef & Hvn & Hvt) Hs Hf Hcn.
  rewrite (kv_step s h _ Hh Hvn Hvt) by (rewrite Hs; discriminate).
  unfold kv_dispatch. destruct s as [sect fmt info sts evs]. cbn [rs_sect rs_fmt rs_info rs_styles rs_events] in *. subst sect fmt.
  rewrite (str_neq_eqb _ _ Hnf). destruct cols as [|c0 cr]; [contradiction|].
  destruct (event_row_read h (c0 :: cr) init last ev Hnc HF) as (r & Er & Hc & Hin & Hout). rewrite Er.
  assert (E : r = ev).
  { apply aevent_ext; [congruence|]. intros a. destruct (in_ecols_dec a (c0 :: cr)) as [Hi|Hn]; [apply Hin; exact Hi|].
    rewrite (Hout a Hn), (Hdef a Hn). reflexivity. }
  rewrite E. reflexivity.
Qed.

(* ---------------------------------------------------------------- the body of a styles or events section *)
Inductive bline :=
  | LFormat (v : str) (cols : list str)                                 (* "Format: v", v denoting the columns [cols] *)
  | LStyle (h : str) (cells : list str) (st : astyle)                   (* "h: cells": a style row *)
  | LEvent (h : str) (init : list str) (last : str) (ev : aevent)       (* "h: cells": an event of category [h] *)
  | LComment (l c : str)                                                (* the comment line [l] with text [c] *)
  | LJunk (l : str).                                                    (* an unintelligible line *)
Definition bline_line (x : bline) : str :=
  match x with
  | LFormat v _ => n_format_pfx ++ v
  | LStyle h cells _ => h ++ colon_sp ++ join [44] cells
  | LEvent h init last _ => h ++ colon_sp ++ join [44] (init ++ [last])
  | LComment l _ => l
  | LJunk l => l
  end.
(* the lines are valid for the section [sect] when the columns in force are [cols] *)
Fixpoint blines_ok (sect : asect) (cols : list str) (ls : list bline) : Prop :=
  match ls with
  | [] => True
  | LFormat v new :: r => format_value v new /\ blines_ok sect (overlay new cols) r
  | LStyle h cells st :: r => sect = SStyles /\ cols <> [] /\ hdr_ok h /\ h <> n_format /\ style_row cols cells st /\ blines_ok sect cols r
  | LEvent h init last ev :: r => sect = SEvents /\ cols <> [] /\ hdr_ok h /\ h <> n_format /\ event_row_h h cols init last ev /\ blines_ok sect cols r
  | LComment l c :: r => comment_line false l c /\ blines_ok sect cols r
  | LJunk l :: r => junk l /\ blines_ok sect cols r
  end.
Fixpoint blines_cols (cols : list str) (ls : list bline) : list str :=
  match ls with
  | [] => cols
  | LFormat _ new :: r => blines_cols (overlay new cols) r
  | _ :: r => blines_cols cols r
  end.
Definition bline_comments (x : bline) : list str := match x with LComment _ c => [c] | _ => [] end.
Definition bline_styles (x : bline) : list astyle := match x with LStyle _ _ st => [st] | _ => [] end.
Definition bline_events (x : bline) : list aevent := match x with LEvent _ _ _ ev => [ev] | _ => [] end.

Section WithInfo.
Variable b : ainfo.

Lemma blines_run ls : forall s cols, (rs_sect s = SStyles \/ rs_sect s = SEvents) -> rs_fmt s = cols -> blines_ok (rs_sect s) cols ls ->
  ssa_run s false (map bline_line ls) =
  Ok (mkRstate (rs_sect s) (blines_cols cols ls)
               (fold_left (ientry_apply b) (map IC (flat_map bline_comments ls)) (rs_info s))
               (rs_styles s ++ flat_map bline_styles ls) (rs_events s ++ flat_map bline_events ls)).
Proof.
  induction ls as [|x r IH]; intros s cols Hs Hf Hok.
  - cbn [map ssa_run flat_map fold_left blines_cols]. rewrite !app_nil_r. destruct s; cbn in *; subst; reflexivity.
  - assert (Hnu : rs_sect s <> SUnknown) by (destruct Hs as [-> | ->]; discriminate).
    destruct x as [v new|h cells st|h init last ev|l c|l]; cbn [map bline_line ssa_run blines_ok blines_cols flat_map
      bline_comments bline_styles bline_events app fold_left ientry_apply] in *.
    + destruct Hok as (Hv & Hr). rewrite (format_step_any s v new Hs Hv), Hf.
      rewrite (IH _ (overlay new cols)); [reflexivity | exact Hs | reflexivity | exact Hr].
    + destruct Hok as (Hsec & Hcn & Hh & Hnf & Hrow & Hr). rewrite (style_row_step_h s h cols cells st Hh Hnf Hrow Hsec Hf Hcn).
      rewrite (IH _ cols); [|left; reflexivity | reflexivity | rewrite <- Hsec; exact Hr].
      cbn [rs_sect rs_info rs_styles rs_events]. rewrite <- app_assoc, Hsec. reflexivity.
    + destruct Hok as (Hsec & Hcn & Hh & Hnf & Hrow & Hr). rewrite (event_row_step_h s h cols init last ev Hh Hnf Hrow Hsec Hf Hcn).
      rewrite (IH _ cols); [|right; reflexivity | reflexivity | rewrite <- Hsec; exact Hr].
      cbn [rs_sect rs_info rs_styles rs_events]. rewrite <- app_assoc, Hsec. reflexivity.
    + destruct Hok as (Hc & Hr). rewrite (comment_line_step s false l c Hc Hnu).
      rewrite (IH _ cols); [reflexivity | exact Hs | exact Hf | exact Hr].
    + destruct Hok as (Hj & Hr). rewrite (junk_step s l Hj). apply (IH s cols Hs Hf Hr).
Qed.

(* ---------------------------------------------------------------- script info entries *)
Inductive aentry :=
  | IE (e : ientry)          (* a comment "; c" or the line of a known key, as before *)
  | IU (line : str)          (* "key: value" with an unknown key *)
  | IJ (line : str)          (* an unintelligible line *)
  | IG (line c : str).       (* a comment line in any spelling, with text [c] *)
Definition aentry_lines (e : aentry) : list str :=
  match e with IE e => ientry_lines b e | IU l => [l] | IJ l => [l] | IG l _ => [l] end.
Definition aentry_entries (e : aentry) : list ientry :=
  match e with IE e => [e] | IG _ c => [IC c] | _ => [] end.
Definition aentry_ok (e : aentry) : Prop :=
  match e with IE e => ientry_ok e | IU l => unknown_key_line l | IJ l => junk l | IG l c => comment_line false l c end.
Lemma aentries_run es : forall s, info_ok b -> rs_sect s = SInfo -> Forall aentry_ok es ->
  ssa_run s false (flat_map aentry_lines es) = Ok (set_info (fold_left (ientry_apply b) (flat_map aentry_entries es) (rs_info s)) s).
Proof.
  induction es as [|e r IH]; intros s Hb Hs HF; [cbn [flat_map ssa_run fold_left]; rewrite set_info_id; reflexivity|].
  inversion HF as [|? ? He Hr]; subst. cbn [flat_map]. rewrite ssa_run_app, fold_left_app.
  assert (H1 : ssa_run s false (aentry_lines e) = Ok (set_info (fold_left (ientry_apply b) (aentry_entries e) (rs_info s)) s)).
  { destruct e as [e|l|l|l c]; cbn [aentry_lines aentry_entries aentry_ok fold_left ssa_run] in *.
    - apply (ientry_run b e s Hb Hs He).
    - rewrite (unknown_key_step s l Hs He), set_info_id. reflexivity.
    - rewrite (junk_step s l He), set_info_id. reflexivity.
    - rewrite (comment_line_step s false l c He) by (rewrite Hs; discriminate). destruct s; reflexivity. }
  rewrite H1. rewrite IH; [destruct s; reflexivity | exact Hb | destruct s; exact Hs | exact Hr].
Qed.

(* ---------------------------------------------------------------- sections *)
Inductive asec :=
  | AInfo (h : str) (es : list aentry)
  | AStyles (h : str) (ls : list bline)
  | AEvents (h : str) (ls : list bline)
  | AUnknown (h : str) (body : list str).        (* a section of another name: every line up to the next header *)
Definition asec_lines (sec : asec) : list str :=
  match sec with
  | AInfo h es => h :: flat_map aentry_lines es
  | AStyles h ls | AEvents h ls => h :: map bline_line ls
  | AUnknown h body => h :: body
  end.
Definition asec_ok (first : bool) (sec : asec) : Prop :=
  match sec with
  | AInfo h es => section_hdr first h SInfo /\ Forall aentry_ok es
  | AStyles h ls => section_hdr first h SStyles /\ blines_ok SStyles [] ls
  | AEvents h ls => section_hdr first h SEvents /\ blines_ok SEvents [] ls
  | AUnknown h body => section_hdr first h SUnknown /\ Forall not_hdr body
  end.
(* what a section contributes, in document order *)
Definition asec_entries (sec : asec) : list ientry :=
  match sec with
  | AInfo _ es => flat_map aentry_entries es
  | AStyles _ ls | AEvents _ ls => map IC (flat_map bline_comments ls)
  | AUnknown _ _ => []
  end.
Definition asec_styles (sec : asec) : list astyle := match sec with AStyles _ ls => flat_map bline_styles ls | _ => [] end.
Definition asec_events (sec : asec) : list aevent := match sec with AEvents _ ls => flat_map bline_events ls | _ => [] end.
Definition asec_apply (s : rstate) (sec : asec) : rstate :=
  mkRstate (match sec with AInfo _ _ => SInfo | AStyles _ _ => SStyles | AEvents _ _ => SEvents | AUnknown _ _ => SUnknown end)
           (match sec with AStyles _ ls | AEvents _ ls => blines_cols [] ls | _ => rs_fmt s end)
           (fold_left (ientry_apply b) (asec_entries sec) (rs_info s))
           (rs_styles s ++ asec_styles sec) (rs_events s ++ asec_events sec).

Lemma blines_ok_styles_events cols ls : blines_ok SStyles cols ls -> flat_map bline_events ls = [].
Proof.
  revert cols. induction ls as [|x r IH]; intros cols Hok; [reflexivity|].
  destruct x; cbn [blines_ok flat_map bline_events app] in *; try (destruct Hok as (Hsec & _); discriminate);
    [destruct Hok as (_ & Hr) | destruct Hok as (_ & _ & _ & _ & _ & Hr) | destruct Hok as (_ & Hr) | destruct Hok as (_ & Hr)];
    exact (IH _ Hr).
Qed.
Lemma blines_ok_events_styles cols ls : blines_ok SEvents cols ls -> flat_map bline_styles ls = [].
Proof.
  revert cols. induction ls as [|x r IH]; intros cols Hok; [reflexivity|].
  destruct x; cbn [blines_ok flat_map bline_styles app] in *; try (destruct Hok as (Hsec & _); discriminate);
    [destruct Hok as (_ & Hr) | destruct Hok as (_ & _ & _ & _ & _ & Hr) | destruct Hok as (_ & Hr) | destruct Hok as (_ & Hr)];
    exact (IH _ Hr).
Qed.

Lemma asec_run first sec s : info_ok b -> asec_ok first sec -> ssa_run s first (asec_lines sec) = Ok (asec_apply s sec).
Proof.
  intros Hb Hok. unfold asec_apply. destruct sec as [h es|h ls|h ls|h body]; cbn [asec_lines asec_ok asec_entries asec_styles asec_events ssa_run] in *.
  - destruct Hok as (Hh & Hes). rewrite (section_hdr_step s first h SInfo Hh).
    rewrite aentries_run; [|exact Hb | reflexivity | exact Hes]. rewrite !app_nil_r. reflexivity.
  - destruct Hok as (Hh & Hls). rewrite (section_hdr_step s first h SStyles Hh).
    rewrite (blines_run ls _ []); [|left; reflexivity | reflexivity | exact Hls].
    cbn [rs_sect rs_info rs_styles rs_events]. rewrite (blines_ok_styles_events _ _ Hls), !app_nil_r. reflexivity.
  - destruct Hok as (Hh & Hls). rewrite (section_hdr_step s first h SEvents Hh).
    rewrite (blines_run ls _ []); [|right; reflexivity | reflexivity | exact Hls].
    cbn [rs_sect rs_info rs_styles rs_events]. rewrite (blines_ok_events_styles _ _ Hls), !app_nil_r. reflexivity.
  - destruct Hok as (Hh & Hbody). rewrite (section_hdr_step s first h SUnknown Hh). cbv iota.
    rewrite (unknown_body_run body (mkRstate SUnknown (rs_fmt s) (rs_info s) (rs_styles s) (rs_events s)) eq_refl Hbody). cbn [fold_left]. rewrite !app_nil_r. reflexivity.
Qed.
Lemma asec_lines_nonnil sec : asec_lines sec <> [].
Proof. destruct sec; discriminate. Qed.
Lemma asecs_run secs : forall first s, info_ok b ->
  match secs with [] => True | x :: r => asec_ok first x /\ Forall (asec_ok false) r end ->
  ssa_run s first (flat_map asec_lines secs) = Ok (fold_left asec_apply secs s).
Proof.
  induction secs as [|x r IH]; intros first s Hb Hok; [reflexivity|]. destruct Hok as [Hx Hr].
  cbn [flat_map fold_left]. rewrite (ssa_run_app_gen _ _ _ _ (asec_lines_nonnil x)), (asec_run first x s Hb Hx).
  apply IH; [exact Hb|]. destruct r as [|y r']; [exact I|]. inversion Hr; subst. split; assumption.
Qed.
Lemma asecs_fold secs : forall s,
  let r := fold_left asec_apply secs s in
  rs_info r = fold_left (ientry_apply b) (flat_map asec_entries secs) (rs_info s) /\
  rs_styles r = rs_styles s ++ flat_map asec_styles secs /\
  rs_events r = rs_events s ++ flat_map asec_events secs.
Proof.
  induction secs as [|x r IH]; intros s; cbn zeta; cbn [fold_left flat_map].
  - rewrite !app_nil_r. repeat split.
  - specialize (IH (asec_apply s x)). cbn zeta in IH. destruct IH as (Hi & Hs & He). rewrite Hi, Hs, He.
    unfold asec_apply. cbn [rs_info rs_styles rs_events]. rewrite fold_left_app, <- !app_assoc. repeat split; reflexivity.
Qed.

(* ---------------------------------------------------------------- the lines before the first section header *)
Inductive pline :=
  | PC (l c : str)        (* a comment line: it counts as a script info comment *)
  | PS (l : str).         (* any other line that is not a section header: skipped *)
Definition pline_line (p : pline) : str := match p with PC l _ => l | PS l => l end.
Definition pline_ok (first : bool) (p : pline) : Prop :=
  match p with PC l c => comment_line first l c | PS l => skipped_f first l end.
Definition pline_comments (p : pline) : list str := match p with PC _ c => [c] | PS _ => [] end.
Lemma plines_run pre : forall first s, rs_sect s = SNone ->
  match pre with [] => True | x :: r => pline_ok first x /\ Forall (pline_ok false) r end ->
  ssa_run s first (map pline_line pre) = Ok (set_info (fold_left (ientry_apply b) (map IC (flat_map pline_comments pre)) (rs_info s)) s).
Proof.
  induction pre as [|x r IH]; intros first s Hs Hok; [cbn [map ssa_run flat_map fold_left]; rewrite set_info_id; reflexivity|].
  destruct Hok as [Hx Hr]. cbn [map ssa_run flat_map].
  assert (Hr' : match r with [] => True | y :: r' => pline_ok false y /\ Forall (pline_ok false) r' end).
  { destruct r as [|y r']; [exact I|]. inversion Hr; subst. split; assumption. }
  destruct x as [l c|l]; cbn [pline_line pline_ok pline_comments app map fold_left ientry_apply] in *.
  - rewrite (comment_line_step s first l c Hx) by (rewrite Hs; discriminate).
    rewrite IH; [destruct s; reflexivity | exact Hs | exact Hr'].
  - rewrite (skipped_step s first l Hs Hx). apply IH; [exact Hs | exact Hr'].
Qed.

(* ---------------------------------------------------------------- the document *)
Definition adoc_lines (pre : list pline) (secs : list asec) : list str := map pline_line pre ++ flat_map asec_lines secs.
(* the first line of the input is looked at without its byte-order mark *)
Definition adoc_ok (pre : list pline) (secs : list asec) : Prop :=
  match pre with
  | [] => match secs with [] => True | x :: r => asec_ok true x /\ Forall (asec_ok false) r end
  | p :: pr => pline_ok true p /\ Forall (pline_ok false) pr /\ Forall (asec_ok false) secs
  end.
Definition adoc_entries (pre : list pline) (secs : list asec) : list ientry :=
  map IC (flat_map pline_comments pre) ++ flat_map asec_entries secs.

(* READING A DOCUMENT WITH EVERY TOLERATED LINE: comment lines anywhere outside unknown sections (before the first
   section header too), skipped lines before the first header, unknown keys and unintelligible lines in the script
   info sections, several Format lines, rows under any header, comments and unintelligible lines in the styles and
   events sections, unknown sections, the sections in any order and number: the reader returns [b] -- provided the
   comment lines of the whole document are [b]'s comments in order and every key occurs --, the styles of all styles
   sections and the items of all rows whose category is Dialogue, each resolved against the final styles map *)
Theorem read_sections_all pre secs e : info_ok b -> adoc_ok pre secs ->
  comments_of (adoc_entries pre secs) = an_comments b -> (forall f, In (IK f) (adoc_entries pre secs)) ->
  let sts := flat_map asec_styles secs in
  read_ssa_lines (adoc_lines pre secs) e =
  if e then Err EIO
  else Ok (mkAdoc (Some b) (styles_map sts)
                  (map (fun ev => event_item ev (styles_map sts)) (filter is_dialogue (flat_map asec_events secs)))).
Proof.
  intros Hb Hok Hcm Hkeys sts. unfold read_ssa_lines, adoc_lines.
  assert (Hrun : ssa_run rstate0 true (map pline_line pre ++ flat_map asec_lines secs) =
                 Ok (fold_left asec_apply secs
                       (set_info (fold_left (ientry_apply b) (map IC (flat_map pline_comments pre)) ainfo0) rstate0))).
  { destruct pre as [|p pr].
    - cbn [map app flat_map fold_left]. rewrite (asecs_run secs true rstate0 Hb Hok). reflexivity.
    - destruct Hok as (Hp & Hpr & Hsecs).
      rewrite (ssa_run_app_gen (map pline_line (p :: pr))) by discriminate.
      rewrite (plines_run (p :: pr) true rstate0 eq_refl (conj Hp Hpr)).
      apply asecs_run; [exact Hb|]. destruct secs as [|x r]; [exact I|]. inversion Hsecs; subst. split; assumption. }
  rewrite Hrun. destruct e; [reflexivity|].
  destruct (asecs_fold secs (set_info (fold_left (ientry_apply b) (map IC (flat_map pline_comments pre)) ainfo0) rstate0)) as (Hi & Hs & He).
  cbn zeta in *. unfold finish. rewrite Hi, Hs, He. cbn [set_info rstate0 rs_info rs_styles rs_events app].
  rewrite <- fold_left_app. fold (adoc_entries pre secs). rewrite (ientries_final b _ Hcm Hkeys). reflexivity.
Qed.
End WithInfo.

(* ---------------------------------------------------------------- [read_sections] is the special case *)
Definition embed (sec : rsec) : asec :=
  match sec with
  | RInfo h es => AInfo h (map IE es)
  | RStyles h fs cols rows => AStyles h (LFormat fs cols :: map (fun p : list str * astyle => LStyle n_style (fst p) (snd p)) rows)
  | REvents h fe cols rows =>
    AEvents h (LFormat fe cols :: map (fun p : (list str * str) * aevent => LEvent n_dialogue (fst (fst p)) (snd (fst p)) (snd p)) rows)
  end.
Lemma fm_map {A B C} (f : B -> list C) (g : A -> B) l : flat_map f (map g l) = flat_map (fun x => f (g x)) l.
Proof. induction l as [|x r IH]; [reflexivity|]. cbn [map flat_map]. rewrite IH. reflexivity. Qed.
Lemma fm_single {A B} (f : A -> B) l : flat_map (fun x => [f x]) l = map f l.
Proof. induction l as [|x r IH]; [reflexivity|]. cbn [map flat_map app]. rewrite IH. reflexivity. Qed.
Lemma fm_nil {A B} (l : list A) : flat_map (fun _ => @nil B) l = [].
Proof. induction l as [|x r IH]; [reflexivity|]. exact IH. Qed.
Lemma n_style_not_format : n_style <> n_format. Proof. discriminate. Qed.
Lemma n_dialogue_not_format : n_dialogue <> n_format. Proof. discriminate. Qed.

Lemma embed_lines b sec : asec_lines b (embed sec) = rsec_lines b sec.
Proof.
  destruct sec as [h es|h fs cols rows|h fe cols rows]; cbn [embed asec_lines rsec_lines map bline_line].
  - rewrite fm_map. reflexivity.
  - rewrite map_map. reflexivity.
  - rewrite map_map. reflexivity.
Qed.
Lemma embed_ok first sec : rsec_ok first sec -> asec_ok first (embed sec).
Proof.
  destruct sec as [h es|h fs cols rows|h fe cols rows]; cbn [embed asec_ok rsec_ok blines_ok].
  - intros (Hh & Hes). split; [exact Hh|]. apply Forall_map. exact Hes.
  - intros (Hh & Hf & Hcn & Hrows). split; [exact Hh|]. split; [exact Hf|]. rewrite overlay_nil.
    induction rows as [|[cells st] r IH]; [exact I|]. inversion Hrows as [|? ? Hrow Hr]; subst. cbn [map blines_ok fst snd].
    split; [reflexivity|]. split; [exact Hcn|]. split; [exact style_hdr_ok|]. split; [exact n_style_not_format|].
    split; [exact Hrow | apply IH; exact Hr].
  - intros (Hh & Hf & Hcn & Hrows). split; [exact Hh|]. split; [exact Hf|]. rewrite overlay_nil.
    induction rows as [|[[init last] ev] r IH]; [exact I|]. inversion Hrows as [|? ? Hrow Hr]; subst. cbn [map blines_ok fst snd] in *.
    split; [reflexivity|]. split; [exact Hcn|]. split; [exact dialogue_hdr_ok|]. split; [exact n_dialogue_not_format|].
    split; [apply event_row_dialogue; exact Hrow | apply IH; exact Hr].
Qed.
Lemma embed_entries sec : asec_entries (embed sec) = entries_of sec.
Proof.
  destruct sec as [h es|h fs cols rows|h fe cols rows]; cbn [embed asec_entries entries_of flat_map bline_comments app].
  - rewrite fm_map. cbn [aentry_entries]. rewrite fm_single. apply map_id.
  - rewrite fm_map. cbn [bline_comments]. rewrite fm_nil. reflexivity.
  - rewrite fm_map. cbn [bline_comments]. rewrite fm_nil. reflexivity.
Qed.
Lemma embed_styles sec : asec_styles (embed sec) = styles_of sec.
Proof.
  destruct sec as [h es|h fs cols rows|h fe cols rows]; cbn [embed asec_styles styles_of flat_map bline_styles app]; try reflexivity.
  rewrite fm_map. cbn [bline_styles]. apply fm_single.
Qed.
Lemma embed_events sec : asec_events (embed sec) = events_of sec.
Proof.
  destruct sec as [h es|h fs cols rows|h fe cols rows]; cbn [embed asec_events events_of flat_map bline_events app]; try reflexivity.
  rewrite fm_map. cbn [bline_events]. apply fm_single.
Qed.
Lemma flat_map_embed {C} (f : asec -> list C) (g : rsec -> list C) secs : (forall x, f (embed x) = g x) ->
  flat_map f (map embed secs) = flat_map g secs.
Proof. intros H. rewrite fm_map. apply flat_map_ext. exact H. Qed.

(* [read_sections], derived from [read_sections_all]: no line before the first header, every section embedded *)
Corollary read_sections_again b secs e : info_ok b ->
  match secs with [] => True | x :: r => rsec_ok true x /\ Forall (rsec_ok false) r end ->
  comments_of (flat_map entries_of secs) = an_comments b -> (forall f, In (IK f) (flat_map entries_of secs)) ->
  let sts := flat_map styles_of secs in
  read_ssa_lines (flat_map (rsec_lines b) secs) e =
  if e then Err EIO
  else Ok (mkAdoc (Some b) (styles_map sts) (map (fun ev => event_item ev (styles_map sts)) (flat_map events_of secs))).
Proof.
  intros Hb Hok Hcm Hkeys sts.
  assert (Hl : flat_map (rsec_lines b) secs = adoc_lines b [] (map embed secs)).
  { unfold adoc_lines. cbn [map app]. symmetry. apply flat_map_embed. apply embed_lines. }
  assert (He : adoc_entries [] (map embed secs) = flat_map entries_of secs).
  { unfold adoc_entries. cbn [flat_map map app]. apply flat_map_embed. exact embed_entries. }
  rewrite Hl, (read_sections_all b [] (map embed secs) e Hb).
  - destruct e; [reflexivity|]. rewrite (flat_map_embed asec_styles styles_of secs embed_styles).
    rewrite (flat_map_embed asec_events events_of secs embed_events). fold sts. do 3 f_equal.
    apply filter_all. apply forallb_forall. intros ev Hev. apply in_flat_map in Hev. destruct Hev as (sec & Hsec & Hev).
    assert (Hsok : exists first, rsec_ok first sec).
    { destruct secs as [|x r]; [destruct Hsec|]. destruct Hok as [Hx Hr]. destruct Hsec as [<-|Hsec]; [exists true; exact Hx|].
      exists false. rewrite Forall_forall in Hr. apply Hr. exact Hsec. }
    destruct Hsok as (first & Hsok). pose proof (rsec_ok_events first sec Hsok) as Hd. rewrite Forall_forall in Hd.
    unfold is_dialogue. rewrite (Hd ev Hev). apply str_eqb_refl.
  - unfold adoc_ok. destruct secs as [|x r]; [exact I|]. destruct Hok as [Hx Hr]. cbn [map]. split; [apply embed_ok; exact Hx|].
    apply Forall_map. revert Hr. apply Forall_impl. intros a. apply embed_ok.
  - rewrite He. exact Hcm.
  - rewrite He. exact Hkeys.
Qed.

(* ---------------------------------------------------------------- non-vacuity *)
(* a comment and a skipped line before [Script Info]; unknown keys, an unintelligible line and a comment without a
   space between the known keys; the events section before the styles section, with a second (shorter) Format line
   that swaps the first two columns, a row in the new order and a Comment row; a [Fonts] section; a styles section
   with a comment between two rows, the second under the header Foo, and an unintelligible line *)
Definition z_info : ainfo :=
  kset KWrapStyle (s2l "1") (kset KTitle (s2l "t: x")
    (add_comment (s2l "between") (add_comment (s2l "d") (add_comment (s2l "c") (add_comment (s2l "top") ainfo0))))).
Definition z_pre : list pline := [PC (s2l "; top") (s2l "top"); PS (s2l "some junk")].
Definition z_cols2 := [s2l "Style"; s2l "End"].
Definition z_init2 := [s2l "Main"; s2l "0:00:05.00"; s2l "0:00:04.00"; s2l "?"].
Definition z_ev2 : aevent := mkAevent n_dialogue [] 5000000000%Z None None None None None [] 4000000000%Z (s2l "Main") (s2l "second, line").
Definition z_ev3 : aevent := mkAevent (s2l "Comment") [] 5000000000%Z None None None None None [] 4000000000%Z (s2l "Main") (s2l "note").
Definition z_cells2 := [s2l "0"; s2l "Alt"; s2l "x"; s2l ""; s2l "12"].
Definition z_st2 : astyle := fset FFontSize (Some 12000%Z) (bset BBold (Some false) (set_name (s2l "Alt") astyle0)).
Definition z_secs : list asec :=
  [AInfo (s2l "[Script Info]")
         [IE (IK (FK KTitle)); IU (s2l "ScaledBorderAndShadow: yes"); IE (IC (s2l "c")); IU (s2l "YCbCr Matrix: TV.601");
          IU (s2l "Video Zoom:"); IU (s2l "Audio URI: a:b: c"); IJ (s2l "what is this"); IG (s2l ";d") (s2l "d");
          IE (IK (FK KWrapStyle)); IE (IK (FK KCollisions)); IE (IK (FK KOriginalEditing)); IE (IK (FK KOriginalScript));
          IE (IK (FK KOriginalTiming)); IE (IK (FK KOriginalTranslation)); IE (IK (FN KPlayDepth)); IE (IK (FN KPlayResX));
          IE (IK (FN KPlayResY)); IE (IK (FK KScriptType)); IE (IK (FK KScriptUpdatedBy)); IE (IK (FK KSynchPoint));
          IE (IK FT); IE (IK (FK KUpdateDetails))];
   AEvents (s2l "[EVENTS]")
           [LFormat (s2l "End,Style , Start,Nonsense,Text") x_ecols; LEvent n_dialogue x_init x_last x_ev;
            LFormat (s2l "Style, End") z_cols2; LEvent n_dialogue z_init2 (s2l "second, line") z_ev2;
            LEvent (s2l "Comment") z_init2 (s2l "note") z_ev3];
   AUnknown (s2l "[Fonts]") [s2l "fontname: x.ttf"; s2l "; no comment here"];
   AStyles (s2l "[v4+ styles]")
           [LFormat (s2l "Bold ,Name,Whatever,  TertiaryColour, Fontsize") x_scols; LStyle n_style x_cells x_st;
            LComment (s2l "; between") (s2l "between"); LStyle (s2l "Foo") z_cells2 z_st2; LJunk (s2l "no colon here")]].

Ltac not_in := vm_compute; intros H; repeat (destruct H as [H|H]; [discriminate|]); exact H.
Ltac in58 := vm_compute; tauto.
Ltac kv_ok := split; [reflexivity | split; [discriminate | split; [discriminate | in58]]].
Ltac unk := split; [kv_ok | not_in].
Definition z_ecols2 : list str := Eval vm_compute in overlay z_cols2 x_ecols.
Example z_event_row2 : event_row_h n_dialogue z_ecols2 z_init2 (s2l "second, line") z_ev2.
Proof.
  unfold event_row_h. split.
  { repeat constructor; not_in. }
  split. { unfold z_ecols2, z_init2. cbn [app]. repeat (apply Forall2_cons || apply Forall2_nil); vm_compute; first [reflexivity | exact I]. }
  split; [reflexivity|]. split.
  { intros a Ha. destruct a; try reflexivity; exfalso; apply Ha; unfold in_ecols.
    - exists (s2l "End"). split; [vm_compute; tauto | reflexivity].
    - exists (s2l "Start"). split; [vm_compute; tauto | reflexivity].
    - exists (s2l "Style"). split; [vm_compute; tauto | reflexivity].
    - exists (s2l "Text"). split; [vm_compute; tauto | reflexivity]. }
  split; [discriminate | reflexivity].
Qed.
Example z_event_row3 : event_row_h (s2l "Comment") z_ecols2 z_init2 (s2l "note") z_ev3.
Proof.
  unfold event_row_h. split.
  { repeat constructor; not_in. }
  split. { unfold z_ecols2, z_init2. cbn [app]. repeat (apply Forall2_cons || apply Forall2_nil); vm_compute; first [reflexivity | exact I]. }
  split; [reflexivity|]. split.
  { intros a Ha. destruct a; try reflexivity; exfalso; apply Ha; unfold in_ecols.
    - exists (s2l "End"). split; [vm_compute; tauto | reflexivity].
    - exists (s2l "Start"). split; [vm_compute; tauto | reflexivity].
    - exists (s2l "Style"). split; [vm_compute; tauto | reflexivity].
    - exists (s2l "Text"). split; [vm_compute; tauto | reflexivity]. }
  split; [discriminate | reflexivity].
Qed.
Example z_style_row2 : style_row x_scols z_cells2 z_st2.
Proof.
  unfold style_row. split; [discriminate|]. split.
  { repeat constructor; not_in. }
  split. { unfold x_scols, z_cells2. repeat (apply Forall2_cons || apply Forall2_nil); vm_compute; first [reflexivity | exact I | split; [discriminate | reflexivity] ]. }
  split. { intros a Ha. destruct a as [y|y|y|y| |]; try destruct y; try (exfalso; apply Ha; reflexivity).
           all: unfold in_cols.
           - exists (s2l "Bold"). split; [vm_compute; tauto | reflexivity].
           - exists (s2l "Fontsize"). split; [vm_compute; tauto | reflexivity].
           - exists (s2l "Name"). split; [vm_compute; tauto | reflexivity]. }
  split; [discriminate | reflexivity].
Qed.
Lemma hdr_ok_compute name : match name with c :: _ => plain_byte c = true /\ c <> 91 /\ c <> 59 | [] => False end ->
  forallb (fun c => negb (c =? 58)) name = true -> trim_space name = name -> hdr_ok name.
Proof.
  intros H1 H2 H3. split; [exact H1|]. split; [|exact H3]. intros Hin. rewrite forallb_forall in H2. specialize (H2 _ Hin).
  rewrite N.eqb_refl in H2. discriminate.
Qed.

Definition z_expected : adoc :=
  mkAdoc (Some z_info) [(s2l "Main", Some x_st); (s2l "Alt", Some z_st2)]
         [mkAitem 1500000000%Z 3000000000%Z (Some (s2l "Main")) (Some (mkAevattr [] None None None None None))
                  [mkAline [] [mkArun (s2l "Hello, world") None]; mkAline [] [mkArun (s2l "x") (Some (s2l "{\i1}"))]];
          mkAitem 4000000000%Z 5000000000%Z (Some (s2l "Main")) (Some (mkAevattr [] None None None None None))
                  [mkAline [] [mkArun (s2l "second, line") None]]].
Example z_read : read_ssa_lines (adoc_lines z_info z_pre z_secs) false = Ok z_expected.
Proof.
  rewrite (read_sections_all z_info z_pre z_secs false).
  - reflexivity.
  - unfold z_info, info_ok. split; [repeat constructor; reflexivity|]. split; [intros k; destruct k; split; reflexivity|].
    split; [intros k v; destruct k; discriminate | discriminate].
  - unfold adoc_ok, z_pre, z_secs. split.
    { exists (s2l " top"). split; reflexivity. }
    split. { constructor; [|constructor]. split; [reflexivity | discriminate]. }
    constructor; [|constructor; [|constructor; [|constructor; [|constructor]]]].
    + split; [exists (s2l "Script Info"); split; reflexivity|].
      repeat (apply Forall_cons || apply Forall_nil); cbn [aentry_ok ientry_ok]; try exact I; try (split; reflexivity).
      * unk.
      * unk.
      * unk.
      * unk.
      * right. split; [reflexivity | split; [discriminate | left; not_in]].
      * exists (s2l "d"). split; reflexivity.
    + split; [exists (s2l "EVENTS"); split; reflexivity|]. cbn [blines_ok].
      split; [split; [discriminate | split; reflexivity]|]. rewrite overlay_nil.
      split; [reflexivity|]. split; [discriminate|]. split; [exact dialogue_hdr_ok|]. split; [exact n_dialogue_not_format|].
      split; [apply event_row_dialogue; exact x_event_row|].
      split; [split; [discriminate | split; reflexivity]|].
      split; [reflexivity|]. split; [discriminate|]. split; [exact dialogue_hdr_ok|]. split; [exact n_dialogue_not_format|].
      change (overlay z_cols2 x_ecols) with z_ecols2. split; [exact z_event_row2|].
      split; [reflexivity|]. split; [discriminate|].
      split; [apply hdr_ok_compute; [repeat split; discriminate | reflexivity | reflexivity]|]. split; [discriminate|].
      split; [exact z_event_row3 | exact I].
    + split; [exists (s2l "Fonts"); split; reflexivity|]. repeat constructor.
    + split; [exists (s2l "v4+ styles"); split; reflexivity|]. cbn [blines_ok].
      split; [split; [discriminate | split; reflexivity]|]. rewrite overlay_nil.
      split; [reflexivity|]. split; [discriminate|]. split; [exact style_hdr_ok|]. split; [exact n_style_not_format|].
      split; [exact x_style_row|].
      split; [exists (s2l " between"); split; reflexivity|].
      split; [reflexivity|]. split; [discriminate|].
      split; [apply hdr_ok_compute; [repeat split; discriminate | reflexivity | reflexivity]|]. split; [discriminate|].
      split; [exact z_style_row2|].
      split; [|exact I]. right. split; [reflexivity | split; [discriminate | left; not_in]].
  - reflexivity.
  - intros f. destruct f as [k|k|]; try destruct k; vm_compute; tauto.
Qed.

(* ---------------------------------------------------------------- the rows that become items *)
(* the events kept at the end are those of the rows whose header is Dialogue *)
Definition bline_dialogues (x : bline) : list aevent :=
  match x with LEvent h _ _ ev => if str_eqb h n_dialogue then [ev] else [] | _ => [] end.
Definition asec_dialogues (sec : asec) : list aevent := match sec with AEvents _ ls => flat_map bline_dialogues ls | _ => [] end.
Lemma blines_dialogues ls : forall sect cols, blines_ok sect cols ls ->
  filter is_dialogue (flat_map bline_events ls) = flat_map bline_dialogues ls.
Proof.
  induction ls as [|x r IH]; intros sect cols Hok; [reflexivity|].
  destruct x as [v new|h cells st|h init last ev|l c|l]; cbn [blines_ok flat_map bline_events bline_dialogues app filter] in *.
  - destruct Hok as (_ & Hr). exact (IH _ _ Hr).
  - destruct Hok as (_ & _ & _ & _ & _ & Hr). exact (IH _ _ Hr).
  - destruct Hok as (_ & _ & _ & _ & (_ & _ & Hcat & _) & Hr). unfold is_dialogue at 1. rewrite Hcat, (IH _ _ Hr).
    destruct (str_eqb h n_dialogue); reflexivity.
  - destruct Hok as (_ & Hr). exact (IH _ _ Hr).
  - destruct Hok as (_ & Hr). exact (IH _ _ Hr).
Qed.
Lemma filter_flat_map {A B} (p : B -> bool) (f g : A -> list B) l : (forall x, In x l -> filter p (f x) = g x) ->
  filter p (flat_map f l) = flat_map g l.
Proof.
  induction l as [|x r IH]; intros H; [reflexivity|]. cbn [flat_map]. rewrite filter_app, (H x (or_introl eq_refl)), IH; [reflexivity|].
  intros y Hy. apply H. right. exact Hy.
Qed.
Theorem dialogue_rows pre secs : adoc_ok pre secs ->
  filter is_dialogue (flat_map asec_events secs) = flat_map asec_dialogues secs.
Proof.
  intros Hok. apply filter_flat_map. intros sec Hsec.
  assert (Hs : exists first, asec_ok first sec).
  { unfold adoc_ok in Hok. destruct pre as [|p pr].
    - destruct secs as [|x r]; [destruct Hsec|]. destruct Hok as [Hx Hr]. destruct Hsec as [<-|Hsec]; [exists true; exact Hx|].
      exists false. rewrite Forall_forall in Hr. apply Hr. exact Hsec.
    - destruct Hok as (_ & _ & Hr). exists false. rewrite Forall_forall in Hr. apply Hr. exact Hsec. }
  destruct Hs as (first & Hs). destruct sec as [h es|h ls|h ls|h body]; cbn [asec_events asec_dialogues asec_ok] in *; try reflexivity.
  destruct Hs as (_ & Hls). exact (blines_dialogues ls _ _ Hls).
Qed.
