(* C05: the ignore-programme-start option after a write, and "reading then writing again changes no timecode" at document
   level: write d, read it (with or without the option), write what was read: the in and out timecode bytes of every TTI
   block are those of the first file.  Also styled instances of the write->read theorems under display standards 1 and 2. *)
From Coq Require Import List ZArith NArith Bool Lia ZifyBool ZifyN ZifyNat.
From Astisub Require Import Kit.Base Kit.Str Kit.Utf8 Kit.Scan Kit.IOW Model.Dur Model.Stl Model.StlIO Gen.StlTables
  Proofs.DurProofs Proofs.ScanProofs Proofs.StlBlocks Proofs.StlCodec Proofs.StlTti Proofs.StlGsi Proofs.StlRows Proofs.StlRowsTtx
  Proofs.StlDoc Proofs.StlWriteRead Proofs.StlReadSpec Proofs.StlIOProofs.
Import ListNotations.
Open Scope Z_scope.

(* ================= the ignore option ================= *)
(* reading with another value subtracted from the timecodes only moves the times *)
Definition shift_item (d : Z) (x : ritem) : ritem :=
  mkRitem (ri_st x + d) (ri_en x + d) (ri_just x) (ri_vp x) (ri_maxrows x) (ri_rows x) (ri_align x) (ri_line x) (ri_lines x).
Lemma item_of_shift g tcp1 tcp2 t n lines : item_of g tcp2 t n lines = shift_item (tcp1 - tcp2) (item_of g tcp1 t n lines).
Proof. unfold item_of, shift_item. cbn [ri_st ri_en ri_just ri_vp ri_maxrows ri_rows ri_align ri_line ri_lines]. f_equal; lia. Qed.

Lemma blocks_spec_shift g tcp1 tcp2 : forall blocks acc,
  blocks_spec g tcp2 acc blocks =
  match blocks_spec g tcp1 acc blocks with Ok l => Ok (map (shift_item (tcp1 - tcp2)) l) | Err k => Err k | Panic s => Panic s end.
Proof.
  induction blocks as [|p r IH]; intros acc; [reflexivity|]. cbn [blocks_spec].
  destruct (is_user_data p); [apply IH|]. destruct (str_eqb (g_dsc g) stl_s_dscOpen).
  - destruct (rows_open _ acc []) as [[lines acc']|k|s]; cbn [bind]; try reflexivity.
    rewrite IH. destruct (blocks_spec g tcp1 acc' r); cbn [bind map]; try reflexivity. rewrite (item_of_shift g tcp1 tcp2). reflexivity.
  - destruct (rows_ttx _ acc []) as [lines acc'].
    rewrite IH. destruct (blocks_spec g tcp1 acc' r); cbn [bind map]; try reflexivity. rewrite (item_of_shift g tcp1 tcp2). reflexivity.
Qed.

(* the document read with the option = the document read without it, the programme start set to zero and added back to
   every time: for EVERY file made of a GSI block and whole TTI blocks *)
Definition unshift_doc (d : rdoc) : rdoc :=
  mkRdoc (rd_fps d) (rd_co d) (rd_cd d) (rd_dsc d) (rd_ecd d) (rd_en d) (rd_mnc d) (rd_mnr d) (rd_oet d) (rd_pub d) (rd_rd d) (rd_rn d)
         (rd_slr d) (rd_tet d) (rd_tpt d) (rd_tcd d) (rd_tn d) (rd_title d) 0 (rd_lang d) (map (shift_item (rd_tcp d)) (rd_items d)).
Theorem read_ignore_is_unshift (gb : str) (blocks : list str) (g : gsi) d :
  length gb = 1024%nat -> Forall (fun p => length p = 128%nat) blocks ->
  parse_gsi gb = Ok g -> nmem (g_cct g) stl_tables_existing = true ->
  read_stl false (gb ++ concat blocks) = Ok d -> read_stl true (gb ++ concat blocks) = Ok (unshift_doc d).
Proof.
  intros Hgb Hall Hg Hc. rewrite (read_spec false gb blocks g Hgb Hall Hg Hc), (read_spec true gb blocks g Hgb Hall Hg Hc). cbv zeta.
  rewrite (blocks_spec_shift g (g_tcp g) 0 blocks None).
  destruct (blocks_spec g (g_tcp g) None blocks) as [l|k|s]; try discriminate. intros [= <-].
  unfold unshift_doc, rdoc_with. cbn [rd_fps rd_co rd_cd rd_dsc rd_ecd rd_en rd_mnc rd_mnr rd_oet rd_pub rd_rd rd_rn rd_slr rd_tet rd_tpt rd_tcd rd_tn rd_title rd_tcp rd_lang rd_items].
  rewrite Z.sub_0_r. reflexivity.
Qed.

(* a written file is a GSI block and whole TTI blocks *)
Lemma written_blocks now md items :
  written now md items = gsi_bytes (new_gsi now md items) ++
    concat (tti_block_list (g_fps (new_gsi now md items)) (g_dsc (new_gsi now md items)) (g_tcp (new_gsi now md items)) items 1).
Proof. unfold written. rewrite tti_block_list_concat. reflexivity. Qed.
Lemma tti_block_list_128 fps dsc tcp items : forall idx, Forall (fun p => length p = 128%nat) (tti_block_list fps dsc tcp items idx).
Proof. induction items as [|i r IH]; intros idx; cbn [tti_block_list]; constructor; [apply tti_bytes_length | apply IH]. Qed.

Lemma read_written_ignore now md items d :
  parse_gsi (gsi_bytes (new_gsi now md items)) = Ok (new_gsi now md items) ->
  read_stl false (written now md items) = Ok d -> read_stl true (written now md items) = Ok (unshift_doc d).
Proof.
  intros Hg. rewrite written_blocks. apply (read_ignore_is_unshift _ _ (new_gsi now md items)).
  - apply gsi_bytes_length.
  - apply tti_block_list_128.
  - exact Hg.
  - unfold new_gsi. destruct md; reflexivity.
Qed.

(* write then read with the option: the times are the cue times plus the programme start, the programme start reads 0 *)
Theorem write_read_open_ignore now md items : doc_repr_open now md items ->
  exists out, write_stl now md items = Ok out /\
              read_stl true out = Ok (unshift_doc (read_back (new_gsi now md items) expected_line items)).
Proof.
  intros H. destruct (write_read_open now md items H) as (out & W & R). exists out. split; [exact W|].
  destruct H as (Hne & _ & Hg & _). rewrite (write_stl_eq _ _ _ Hne) in W. assert (E : out = written now md items) by congruence. subst out.
  exact (read_written_ignore now md items _ (gsi_roundtrip _ Hg) R).
Qed.
Theorem write_read_ttx_ignore now md items : doc_repr_ttx now md items ->
  exists out, write_stl now md items = Ok out /\
              read_stl true out = Ok (unshift_doc (read_back (new_gsi now md items) expected_ttx_line items)).
Proof.
  intros H. destruct (write_read_ttx now md items H) as (out & W & R). exists out. split; [exact W|].
  destruct H as (Hne & _ & Hg & _). rewrite (write_stl_eq _ _ _ Hne) in W. assert (E : out = written now md items) by congruence. subst out.
  exact (read_written_ignore now md items _ (gsi_roundtrip _ Hg) R).
Qed.

(* ================= writing what was read ================= *)
(* the cue list and metadata the library holds after ReadFromSTL, as the writer's input: every STL metadata field is set
   (dates are non-nil pointers: the zero time when the field was blank), every item carries justification and position *)
Definition zero_date : str := [48; 49; 48; 49; 48; 49]%N.   (* time.Time{}.Format("060102") *)
Definition wrun_of (x : erun) : wrun :=
  mkWrun (ru_text x) (match a_it (ru_at x) with Some true => true | _ => false end)
         (match a_un (ru_at x) with Some true => true | _ => false end) (match a_bx (ru_at x) with Some true => true | _ => false end).
Definition witem_of (x : ritem) : witem :=
  mkWitem (ri_st x) (ri_en x) (Some (ri_just x)) (Some (ri_vp x)) (map (map wrun_of) (ri_lines x)).
Definition wmeta_of (d : rdoc) : wmeta :=
  mkWmeta (rd_fps d) (rd_lang d) (rd_title d) (rd_co d) (Some (match rd_cd d with [] => zero_date | c => c end)) (rd_dsc d) (rd_ecd d) (rd_en d)
          (Some (rd_mnc d)) (Some (rd_mnr d)) (rd_oet d) (rd_pub d) (Some (match rd_rd d with [] => zero_date | c => c end)) (rd_rn d) (rd_slr d)
          (rd_tcp d) (rd_tet d) (rd_tpt d) (rd_tcd d) (rd_tn d).

(* the in and out timecode bytes of a TTI block *)
Definition block_timecodes (p : str) : str := stl_sl 5 8 p.
Lemma tti_bytes_timecodes fps dsc tcp t :
  block_timecodes (tti_bytes fps dsc tcp t) = format_stl_bytes (t_in t + tcp) fps ++ format_stl_bytes (t_out t + tcp) fps.
Proof.
  unfold block_timecodes, tti_bytes, format_stl_bytes.
  destruct (stl_fields (t_in t + tcp) fps) as [[[h1 m1] s1] f1]. destruct (stl_fields (t_out t + tcp) fps) as [[[h2 m2] s2] f2]. reflexivity.
Qed.
Lemma block_list_timecodes fps dsc tcp items : forall idx,
  map block_timecodes (tti_block_list fps dsc tcp items idx) =
  map (fun i => format_stl_bytes (wi_st i + tcp) fps ++ format_stl_bytes (wi_en i + tcp) fps) items.
Proof.
  induction items as [|i r IH]; intros idx; [reflexivity|]. cbn [tti_block_list map]. rewrite tti_bytes_timecodes, IH. reflexivity.
Qed.

(* what the second write's GSI block takes from a document that was read *)
Lemma regsi_fields now' d its : (rd_fps d = 25 \/ rd_fps d = 30) ->
  g_fps (new_gsi now' (Some (wmeta_of d)) its) = rd_fps d /\ g_tcp (new_gsi now' (Some (wmeta_of d)) its) = rd_tcp d.
Proof.
  intros Hf. unfold new_gsi, wmeta_of. cbn [wm_fps wm_tcp g_fps g_tcp]. split; [|reflexivity].
  destruct Hf as [-> | ->]; reflexivity.
Qed.

Definition timecode_bytes (ws : list str) : list str := map block_timecodes (tl ws).

(* the first write's Write calls, and the Write calls of writing again what [d] holds: same timecodes, provided d's
   times plus d's programme start are the first document's times plus its programme start *)
Lemma stl_writes_ne now md items : items <> [] ->
  stl_writes now md items = Ok (gsi_bytes (new_gsi now md items) ::
    tti_block_list (g_fps (new_gsi now md items)) (g_dsc (new_gsi now md items)) (g_tcp (new_gsi now md items)) items 1).
Proof. intros H. unfold stl_writes. destruct items; [contradiction | reflexivity]. Qed.

Lemma timecodes_ext : forall (l1 : list ritem) (l2 : list witem) a b fps,
  map (fun x => (ri_st x + a, ri_en x + a)) l1 = map (fun i => (wi_st i + b, wi_en i + b)) l2 ->
  map (fun x => format_stl_bytes (ri_st x + a) fps ++ format_stl_bytes (ri_en x + a) fps) l1 =
  map (fun i => format_stl_bytes (wi_st i + b) fps ++ format_stl_bytes (wi_en i + b) fps) l2.
Proof.
  induction l1 as [|x l1 IH]; intros [|y l2] a b fps H; try discriminate; [reflexivity|]. cbn [map] in *. inversion H as [[H1 H2 H3]].
  rewrite H1, H2, (IH l2 a b fps H3). reflexivity.
Qed.

Lemma rewrite_timecodes_gen now now' md items d :
  items <> [] -> (rd_fps d = 25 \/ rd_fps d = 30) -> rd_fps d = g_fps (new_gsi now md items) ->
  map (fun x => (ri_st x + rd_tcp d, ri_en x + rd_tcp d)) (rd_items d) =
  map (fun i => (wi_st i + g_tcp (new_gsi now md items), wi_en i + g_tcp (new_gsi now md items))) items ->
  exists ws ws', stl_writes now md items = Ok ws /\ stl_writes now' (Some (wmeta_of d)) (map witem_of (rd_items d)) = Ok ws' /\
                 length ws' = length ws /\ timecode_bytes ws' = timecode_bytes ws.
Proof.
  intros Hne Hf Hfps Ht.
  assert (Hlen : length (rd_items d) = length items).
  { rewrite <- (map_length (fun x => (ri_st x + rd_tcp d, ri_en x + rd_tcp d)) (rd_items d)), Ht, map_length. reflexivity. }
  assert (Hne' : map witem_of (rd_items d) <> []).
  { destruct (rd_items d); [destruct items; [contradiction | discriminate Hlen] | discriminate]. }
  eexists. eexists. split; [apply stl_writes_ne; exact Hne|]. split; [apply stl_writes_ne; exact Hne'|].
  destruct (regsi_fields now' d (map witem_of (rd_items d)) Hf) as [F T]. unfold timecode_bytes. cbn [tl length].
  rewrite !tti_block_list_length, map_length, Hlen. split; [reflexivity|].
  rewrite !block_list_timecodes, F, T, Hfps, map_map. cbn [witem_of wi_st wi_en]. apply timecodes_ext. exact Ht.
Qed.

Lemma read_back_times g line items :
  map (fun x => (ri_st x, ri_en x)) (rd_items (read_back g line items)) = map (fun i => (wi_st i, wi_en i)) items.
Proof. unfold read_back, rdoc_of. cbn [rd_items]. rewrite map_map. reflexivity. Qed.

(* write d; read it with either value of the option; write what was read (any clock): every TTI block carries the in and
   out timecode bytes of the first file - for every representable document, open subtitling and teletext standards *)
Theorem rewrite_keeps_timecodes ign now now' md items line :
  items <> [] -> gsi_repr (new_gsi now md items) ->
  read_stl false (written now md items) = Ok (read_back (new_gsi now md items) line items) ->
  exists d ws ws', read_stl ign (written now md items) = Ok d /\
    stl_writes now md items = Ok ws /\ stl_writes now' (Some (wmeta_of d)) (map witem_of (rd_items d)) = Ok ws' /\
    length ws' = length ws /\ timecode_bytes ws' = timecode_bytes ws.
Proof.
  intros Hne Hg R. set (g := new_gsi now md items) in *.
  assert (Hf : g_fps g = 25 \/ g_fps g = 30) by exact (r_fps _ Hg).
  destruct ign.
  - pose proof (read_written_ignore now md items _ (gsi_roundtrip _ Hg) R) as R'. fold g in R'.
    destruct (rewrite_timecodes_gen now now' md items (unshift_doc (read_back g line items)) Hne) as (ws & ws' & W1 & W2 & L & T).
    + exact Hf.
    + reflexivity.
    + unfold unshift_doc. cbn [rd_items rd_tcp]. rewrite map_map. unfold shift_item. cbn [ri_st ri_en].
      unfold read_back, rdoc_of. cbn [rd_items rd_tcp]. rewrite map_map. cbn [expected_item ri_st ri_en]. fold g.
      apply map_ext. intros i. f_equal; lia.
    + exists (unshift_doc (read_back g line items)), ws, ws'. repeat split; assumption.
  - destruct (rewrite_timecodes_gen now now' md items (read_back g line items) Hne) as (ws & ws' & W1 & W2 & L & T).
    + exact Hf.
    + reflexivity.
    + unfold read_back, rdoc_of. cbn [rd_items rd_tcp]. rewrite map_map. cbn [expected_item ri_st ri_en]. fold g. reflexivity.
    + exists (read_back g line items), ws, ws'. repeat split; assumption.
Qed.
Corollary rewrite_keeps_timecodes_open ign now now' md items : doc_repr_open now md items ->
  exists d ws ws', read_stl ign (written now md items) = Ok d /\
    stl_writes now md items = Ok ws /\ stl_writes now' (Some (wmeta_of d)) (map witem_of (rd_items d)) = Ok ws' /\
    length ws' = length ws /\ timecode_bytes ws' = timecode_bytes ws.
Proof.
  intros H. destruct (write_read_open now md items H) as (out & W & R). destruct H as (Hne & _ & Hg & _).
  rewrite (write_stl_eq _ _ _ Hne) in W. assert (E : out = written now md items) by congruence. subst out.
  exact (rewrite_keeps_timecodes ign now now' md items expected_line Hne Hg R).
Qed.
Corollary rewrite_keeps_timecodes_ttx ign now now' md items : doc_repr_ttx now md items ->
  exists d ws ws', read_stl ign (written now md items) = Ok d /\
    stl_writes now md items = Ok ws /\ stl_writes now' (Some (wmeta_of d)) (map witem_of (rd_items d)) = Ok ws' /\
    length ws' = length ws /\ timecode_bytes ws' = timecode_bytes ws.
Proof.
  intros H. destruct (write_read_ttx now md items H) as (out & W & R). destruct H as (Hne & _ & Hg & _).
  rewrite (write_stl_eq _ _ _ Hne) in W. assert (E : out = written now md items) by congruence. subst out.
  exact (rewrite_keeps_timecodes ign now now' md items expected_ttx_line Hne Hg R).
Qed.

(* ================= styled instances under display standards 1 and 2 ================= *)
Definition ex_md_dsc (dsc : str) : wmeta :=
  mkWmeta 30 [101;110;103;108;105;115;104]%N [84;105;116;108;101]%N [71;66;82]%N (Some [50;52;48;50;50;57]%N) dsc [] [69;100]%N
          (Some 38) (Some 23) [69;112]%N [80]%N None 7 [82;69;70]%N (10 * hour_ns) [] [] [] [].
Lemma ex_doc_repr_ttx dsc : dsc = stl_s_dscLevel1 \/ dsc = stl_s_dscLevel2 -> doc_repr_ttx ex_now (Some (ex_md_dsc dsc)) ex_items.
Proof.
  intros Hd. destruct ex_doc_repr as (Hne & Hlen & _ & _ & Hall).
  unfold doc_repr_ttx. cbv zeta. split; [exact Hne|]. split; [exact Hlen|].
  split; [apply gsi_reprb_sound; destruct Hd as [-> | ->]; vm_compute; reflexivity|].
  split; [destruct Hd as [-> | ->]; reflexivity|].
  assert (F : g_fps (new_gsi ex_now (Some (ex_md_dsc dsc)) ex_items) = 30) by reflexivity.
  assert (T : g_tcp (new_gsi ex_now (Some (ex_md_dsc dsc)) ex_items) = 10 * hour_ns) by reflexivity.
  rewrite F, T. change (g_fps (new_gsi ex_now (Some ex_md) ex_items)) with 30 in Hall. change (g_tcp (new_gsi ex_now (Some ex_md) ex_items)) with (10 * hour_ns) in Hall.
  unfold ex_items in *. inversion Hall as [|? ? H1 Hall']; subst. inversion Hall' as [|? ? H2 _]; subst.
  destruct H1 as (Hr1 & Hi1 & Ho1 & _). destruct H2 as (Hr2 & Hi2 & Ho2 & _).
  constructor; [|constructor; [|constructor]].
  - split; [exact Hr1|]. split; [exact Hi1|]. split; [exact Ho1|]. cbn [wi_vp]. split; [lia | intros _; lia].
  - split; [exact Hr2|]. split; [exact Hi2|]. split; [exact Ho2|]. exact I.
Qed.
(* styled runs (italics + underline, boxing, italics) come back under the teletext standards, with both option values *)
Example ex_doc_ttx_roundtrip : forall dsc, dsc = stl_s_dscLevel1 \/ dsc = stl_s_dscLevel2 ->
  exists out, write_stl ex_now (Some (ex_md_dsc dsc)) ex_items = Ok out /\
    (exists d, read_stl false out = Ok d /\ rd_dsc d = dsc /\
       map (fun x => (ri_st x, ri_en x, map (map eff) (ri_lines x))) (rd_items d) =
       map (fun i => (wi_st i, wi_en i, map (map wflags) (wi_lines i))) ex_items) /\
    (exists d, read_stl true out = Ok d /\ rd_tcp d = 0 /\
       map (fun x => (ri_st x, ri_en x)) (rd_items d) = map (fun i => (wi_st i + 10 * hour_ns, wi_en i + 10 * hour_ns)) ex_items).
Proof.
  intros dsc Hd. pose proof (ex_doc_repr_ttx dsc Hd) as H.
  destruct (write_read_ttx _ _ _ H) as (out & W & R). destruct (write_read_ttx_ignore _ _ _ H) as (out' & W' & R').
  assert (out' = out) by congruence. subst out'. exists out. split; [exact W|]. split.
  - eexists. split; [exact R|]. split; [destruct Hd as [-> | ->]; reflexivity|].
    unfold read_back, rdoc_of. cbn [rd_items]. rewrite map_map. apply map_ext. intros i.
    cbn [expected_item ri_st ri_en ri_lines]. f_equal. rewrite map_map. apply map_ext. intros l. apply eff_ttx_line.
  - eexists. split; [exact R'|]. split; [reflexivity|].
    unfold unshift_doc, read_back, rdoc_of. cbn [rd_items rd_tcp]. rewrite !map_map. apply map_ext. intros i. reflexivity.
Qed.
