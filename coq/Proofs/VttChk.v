(* webvtt.go: the checked transcription (Model/VttC.v) never reaches a panic site, and agrees with the
   pattern-matching transcription (Model/Vtt.v) on which the fidelity theorems are stated.  The content of each
   equation is that the guard the Go code tests implies that the access behind it is in range / non-nil -- e.g.
   left[1] after strings.Contains(line, "-->"). *)
From Coq Require Import List ZArith NArith Bool Arith Lia.
From Astisub Require Import Kit.Base Kit.Str Kit.Html Kit.Scan Kit.GoMap Kit.Chk Model.Dur Model.Srt Model.Vtt Model.VttC.
Import ListNotations.
Open Scope N_scope.

Definition of_opt {A} (o : option A) : res A := match o with Some x => Ok x | None => Err EParse end.

(* ---- the timestamp map ---- *)
Lemma tsmap_parts_ok parts : forall l m, tsmap_parts_c parts l m = of_opt (tsmap_parts parts l m).
Proof.
  induction parts as [|p r IH]; intros l m; [reflexivity|]. cbn [tsmap_parts_c tsmap_parts].
  destruct (cut [58] p) as [[k v]|]; [|reflexivity].
  cbn [length Nat.leb]. unfold index. cbn [nth_error bind].
  destruct (str_eqb _ k_local); [destruct (parse_vtt v); [apply IH | reflexivity]|].
  destruct (str_eqb _ k_mpegts); [destruct (atoi v); [apply IH | reflexivity]|]. apply IH.
Qed.
Lemma parse_tsmap_ok line : parse_tsmap_c line = of_opt (parse_tsmap line).
Proof.
  unfold parse_tsmap_c, parse_tsmap. destruct (Str.split [61] line) as [|a [|rhs rest]]; try reflexivity.
  cbn [length Nat.leb]. unfold index. cbn [nth_error bind]. apply tsmap_parts_ok.
Qed.

(* ---- region lines ---- *)
Lemma region_parts_ok parts : forall id a, region_parts_c parts id a = region_parts parts id a.
Proof.
  induction parts as [|p r IH]; intros id a; [reflexivity|]. cbn [region_parts_c region_parts].
  destruct (Str.split [61] p) as [|k [|v rest]]; try reflexivity.
  cbn [length Nat.leb]. unfold index. cbn [nth_error bind].
  destruct (str_eqb k k_id); [apply IH|]. destruct (str_eqb k k_lines); [destruct (atoi v); [apply IH | reflexivity]|].
  destruct (str_eqb k k_anchor); [apply IH|]. destruct (str_eqb k k_scroll); [apply IH|].
  destruct (str_eqb k k_vanchor); [apply IH|]. destruct (str_eqb k k_width); apply IH.
Qed.

(* ---- cue settings: the index loop is the iteration over right[1:] ---- *)
Lemma skipn_nth {A} (l : list A) i x : nth_error l i = Some x -> skipn i l = x :: skipn (S i) l.
Proof.
  revert i. induction l as [|y l IH]; intros i H; [destruct i; discriminate|]. destruct i as [|i].
  - cbn in H. injection H as ->. reflexivity.
  - cbn [nth_error] in H. cbn [skipn]. apply IH. exact H.
Qed.
Lemma settings_loop_ok fuel : forall i right regs s reg, (length right - i <= fuel)%nat ->
  settings_loop_c fuel i right regs s reg = cue_settings (skipn i right) regs s reg.
Proof.
  induction fuel as [|fuel IH]; intros i right regs s reg Hf.
  - cbn [settings_loop_c]. rewrite skipn_all2 by lia. reflexivity.
  - cbn [settings_loop_c]. destruct (Nat.ltb i (length right)) eqn:E.
    + apply Nat.ltb_lt in E. unfold index at 1. destruct (nth_error right i) as [f|] eqn:En; [|apply nth_error_None in En; lia].
      cbn [bind]. rewrite (skipn_nth right i f En). cbn [cue_settings].
      destruct (Str.split [58] f) as [|k [|v rest]]; try reflexivity.
      cbn [length Nat.leb]. unfold index. cbn [nth_error bind].
      destruct (str_eqb k k_align); [apply IH; lia|]. destruct (str_eqb k k_line); [apply IH; lia|].
      destruct (str_eqb k k_position); [apply IH; lia|].
      destruct (str_eqb k k_regionk); [destruct (aget v regs); [apply IH; lia | reflexivity]|].
      destruct (str_eqb k k_size); [apply IH; lia|]. destruct (str_eqb k k_vertical); apply IH; lia.
    + apply Nat.ltb_ge in E. rewrite skipn_all2 by lia. reflexivity.
Qed.

(* ---- the guard of left[1]: a line that contains the separator splits into at least two parts ---- *)
Lemma split_fuel_nonnil f sep s : split_fuel f sep s <> [].
Proof. destruct f; cbn [split_fuel]; [discriminate|]. destruct (cut sep s) as [[a b]|]; discriminate. Qed.
Lemma split_contains sep s : contains sep s = true -> exists a b rest, Str.split sep s = a :: b :: rest.
Proof.
  unfold contains, Str.split. cbn [split_fuel]. destruct (cut sep s) as [[a b]|]; [|discriminate]. intros _.
  pose proof (split_fuel_nonnil (length s) sep b) as Hn. destruct (split_fuel (length s) sep b) as [|x r]; [contradiction|].
  exists a, x, r. reflexivity.
Qed.

Definition step_cue_spec (s : vstate) (line : str) : res vstate :=
    match Str.split arrow line with
    | l :: r :: _ =>
      match fields r with
      | [] => Err EParse
      | e :: settings =>
        match parse_vtt l with
        | None => Err EParse
        | Some d0 =>
          match parse_vtt e with
          | None => Err EParse
          | Some d1 =>
            match cue_settings settings (v_regions s) vset0 None with
            | Ok (st, reg) =>
              Ok (mkVst (close_vcur s) (Some (mkVitem (v_index s) d0 d1 (v_comments s) reg (Some st) None [])) (v_pre_lines s)
                        BText [] 0%Z (v_tags s) (v_styles s) (v_regions s) (v_tsmap s))
            | Err k => Err k
            | Panic p => Panic p
            end
          end
        end
      end
    | _ => Err EParse
    end.
Lemma step_cue_ok s line : contains arrow line = true -> step_cue_c s line = step_cue_spec s line.
Proof.
  intros Hc. destruct (split_contains arrow line Hc) as (l & r & rest & E).
  unfold step_cue_c, step_cue_spec. rewrite E. unfold index at 1. cbn [nth_error bind].
  destruct (fields r) as [|e settings] eqn:Ef; [reflexivity|]. change (Nat.eqb (length (e :: settings)) 0) with false. cbv iota.
  unfold index at 1. cbn [nth_error bind]. destruct (parse_vtt l) as [d0|]; [|reflexivity].
  unfold index at 1. cbn [nth_error bind]. destruct (parse_vtt e) as [d1|]; [|reflexivity].
  assert (Es : (if Nat.ltb 1 (length (e :: settings)) then settings_loop_c (length (e :: settings)) 1 (e :: settings) (v_regions s) vset0 None
                else Ok (vset0, None)) = cue_settings settings (v_regions s) vset0 None).
  { destruct settings as [|x xs]; [reflexivity|]. change (Nat.ltb 1 (length (e :: x :: xs))) with true. cbv iota.
    rewrite settings_loop_ok by lia. reflexivity. }
  rewrite Es. destruct (cue_settings settings (v_regions s) vset0 None) as [[st reg]|k|p]; reflexivity.
Qed.

(* ---- the STYLE block test ---- *)
Lemma last_ends_brace_ok l : last_ends_brace_c l = Ok (last_ends_brace l).
Proof.
  unfold last_ends_brace_c, last_ends_brace. destruct l as [|x0 l0] using rev_ind; [reflexivity|]. clear IHl0.
  rewrite app_length. cbn [length]. rewrite Nat.add_1_r. cbn [Nat.eqb].
  replace (S (length l0) - 1)%nat with (length l0) by lia. unfold index. rewrite nth_error_app2 by lia. rewrite Nat.sub_diag.
  cbn [nth_error bind]. rewrite rev_app_distr. reflexivity.
Qed.

(* ---- cue text: the end tag pops the stack ---- *)
Lemma vtt_toks_ok ts : forall tags voice acc, vtt_toks_c ts tags voice acc = Ok (vtt_toks ts tags voice acc).
Proof.
  induction ts as [|t r IH]; intros tags voice acc; [reflexivity|]. destruct t as [raw|n a raw|n a raw|n raw|raw]; cbn [vtt_toks_c vtt_toks]; try apply IH.
  - destruct (vtt_match_tag raw) as [[name cls] annot]. destruct (str_eqb name n_v); apply IH.
  - destruct tags as [|t0 tr]; [cbn [length Nat.ltb Nat.leb removelast]; apply IH|].
    change (Nat.ltb 0 (length (t0 :: tr))) with true. cbv iota.
    rewrite (slice_to_pred_removelast (t0 :: tr) 364) by discriminate. cbn [bind]. apply IH.
Qed.
Lemma parse_text_vtt_ok line tags : parse_text_vtt_c line tags = Ok (parse_text_vtt line tags).
Proof.
  unfold parse_text_vtt_c, parse_text_vtt. rewrite vtt_toks_ok. cbn [bind].
  destruct (vtt_toks (tokenize line) tags [] []) as [[runs voice] tags']. reflexivity.
Qed.

(* ---- the reader ---- *)
Lemma vtt_step_ok s raw : vtt_step_c s raw = vtt_step s raw.
Proof.
  unfold vtt_step_c, vtt_step. destruct (negb (utf8_valid (trim_space raw))); [reflexivity|].
  destruct (has_prefix p_note _); [reflexivity|]. destruct (trim_space raw) as [|c L] eqn:El.
  - destruct (v_block s); try reflexivity. destruct (v_styles s) as [l|]; [|reflexivity]. rewrite last_ends_brace_ok. reflexivity.
  - destruct (has_prefix p_region _); [rewrite region_parts_ok; reflexivity|].
    destruct (has_prefix p_style _); [reflexivity|].
    destruct (contains arrow (c :: L)) eqn:Ec; [apply (step_cue_ok s (c :: L) Ec)|].
    destruct (has_prefix p_tsmap _).
    + destruct (cur_has_lines s); [reflexivity|]. rewrite parse_tsmap_ok. destruct (parse_tsmap _); reflexivity.
    + destruct (v_block s); try reflexivity. rewrite parse_text_vtt_ok. cbn [bind].
      destruct (parse_text_vtt _ _) as [ln tags']. reflexivity.
Qed.
Lemma vtt_run_ok ls : forall s, vtt_run_c s ls = vtt_run s ls.
Proof.
  induction ls as [|l r IH]; intros s; [reflexivity|]. cbn [vtt_run_c vtt_run]. rewrite vtt_step_ok.
  destruct (vtt_step s l); [apply IH | reflexivity | reflexivity].
Qed.
Lemma vtt_header_ok ls : vtt_header_c ls = vtt_header ls.
Proof.
  induction ls as [|l r IH]; [reflexivity|]. cbn [vtt_header_c vtt_header].
  destruct (negb (utf8_valid _)); [reflexivity|]. destruct (fields _) as [|f fs]; [exact IH|].
  change (Nat.ltb 0 (length (f :: fs))) with true. cbv iota. unfold index. cbn [nth_error bind].
  destruct (str_eqb f p_webvtt); [reflexivity | exact IH].
Qed.
(* THE CHECKED READER AGREES WITH THE READER OF THE FIDELITY THEOREMS *)
Theorem read_vtt_lines_c_ok ls e : read_vtt_lines_c ls e = read_vtt_lines ls e.
Proof. unfold read_vtt_lines_c, read_vtt_lines. rewrite vtt_header_ok. destruct (vtt_header ls); try reflexivity. rewrite vtt_run_ok. reflexivity. Qed.
Theorem read_vtt_c_ok data : read_vtt_c data = read_vtt data.
Proof. apply read_vtt_lines_c_ok. Qed.

(* ---- the writer ---- *)
(* the index loops of the writer are the structural iterations of Model/Vtt.v *)
Lemma common_prefix_nil_r a : common_prefix a [] = O.
Proof. destruct a; reflexivity. Qed.
Lemma common_prefix_loop_ok fuel : forall n a b, (length a - n <= fuel)%nat ->
  common_prefix_loop_c fuel n a b = Ok (n + common_prefix (skipn n a) (skipn n b))%nat.
Proof.
  induction fuel as [|fuel IH]; intros n a b Hf.
  - cbn [common_prefix_loop_c]. rewrite (skipn_all2 a) by lia. cbn [common_prefix]. f_equal; lia.
  - cbn [common_prefix_loop_c]. destruct (Nat.ltb n (length a)) eqn:Ea; cbn [andb].
    + destruct (Nat.ltb n (length b)) eqn:Eb.
      * apply Nat.ltb_lt in Ea, Eb.
        destruct (nth_error a n) as [x|] eqn:Ex; [|apply nth_error_None in Ex; lia].
        destruct (nth_error b n) as [y|] eqn:Ey; [|apply nth_error_None in Ey; lia].
        unfold index. rewrite Ex, Ey. cbn [bind]. rewrite (skipn_nth a n x Ex), (skipn_nth b n y Ey). cbn [common_prefix].
        destruct (str_eqb (tag_start x) (tag_start y)); [rewrite IH by lia; f_equal; lia | f_equal; lia].
      * apply Nat.ltb_ge in Eb. rewrite (skipn_all2 b) by lia. rewrite common_prefix_nil_r. f_equal; lia.
    + apply Nat.ltb_ge in Ea. rewrite (skipn_all2 a) by lia. cbn [common_prefix]. f_equal; lia.
Qed.
Lemma common_prefix_c_ok a b : common_prefix_c a b = Ok (common_prefix a b).
Proof. unfold common_prefix_c. rewrite common_prefix_loop_ok by lia. reflexivity. Qed.
Lemma tags_open_ok fuel : forall idx tags, (length tags - idx <= fuel)%nat ->
  tags_open_c fuel idx tags = Ok (concat (map tag_start (skipn idx tags))).
Proof.
  induction fuel as [|fuel IH]; intros idx tags Hf.
  - cbn [tags_open_c]. rewrite skipn_all2 by lia. reflexivity.
  - cbn [tags_open_c]. destruct (Nat.ltb idx (length tags)) eqn:E.
    + apply Nat.ltb_lt in E. destruct (nth_error tags idx) as [t|] eqn:Et; [|apply nth_error_None in Et; lia].
      unfold index. rewrite Et. cbn [bind]. rewrite IH by lia. cbn [bind]. rewrite (skipn_nth tags idx t Et). reflexivity.
    + apply Nat.ltb_ge in E. rewrite skipn_all2 by lia. reflexivity.
Qed.
Lemma firstn_S_nth {A} (l : list A) i x : nth_error l i = Some x -> firstn (S i) l = firstn i l ++ [x].
Proof.
  revert i. induction l as [|y l IH]; intros i H; [destruct i; discriminate|]. destruct i as [|i].
  - cbn in H. injection H as ->. reflexivity.
  - cbn [nth_error] in H. change (firstn (S (S i)) (y :: l)) with (y :: firstn (S i) l). rewrite (IH i H). reflexivity.
Qed.
Lemma tags_close_ok k : forall left tags, (k <= length tags)%nat ->
  tags_close_c k left tags = Ok (concat (map tag_end (rev (skipn left (firstn k tags))))).
Proof.
  induction k as [|idx IH]; intros left tags Hk.
  - cbn [tags_close_c firstn]. rewrite skipn_nil. reflexivity.
  - cbn [tags_close_c]. destruct (nth_error tags idx) as [t|] eqn:Et; [|apply nth_error_None in Et; lia].
    rewrite (firstn_S_nth tags idx t Et). destruct (Nat.leb left idx) eqn:E.
    + apply Nat.leb_le in E. unfold index. rewrite Et. cbn [bind]. rewrite IH by lia. cbn [bind].
      rewrite skipn_app, firstn_length, Nat.min_l by lia. replace (left - idx)%nat with O by lia. cbn [skipn].
      rewrite rev_app_distr. reflexivity.
    + apply Nat.leb_gt in E. rewrite skipn_all2; [reflexivity|]. rewrite app_length, firstn_length, Nat.min_l by lia. cbn [length]. lia.
Qed.
Lemma vrun_bytes_ok prev next r : vrun_bytes_c prev next r = Ok (vrun_bytes prev next r).
Proof.
  unfold vrun_bytes_c, vrun_bytes, run_tags.
  assert (Ec : (if is_some (vr_color r) then do c <- deref (vr_color r) 674; Ok (css_color c) else Ok []) =
               Ok (match vr_color r with Some c => css_color c | None => [] end)) by (destruct (vr_color r); reflexivity).
  assert (Et : (if is_some (vr_tags r) then deref (vr_tags r) 685 else Ok []) =
               Ok (match vr_tags r with Some t => t | None => [] end)) by (destruct (vr_tags r); reflexivity).
  rewrite Ec, Et. cbn [bind]. set (tags := match vr_tags r with Some t => t | None => [] end).
  assert (Eo : (if is_some prev then do p <- deref prev 688;
                  if is_some (vr_tags p) then do pt <- deref (vr_tags p) 689; common_prefix_c pt tags else Ok O else Ok O) =
               Ok (match prev with Some p => match vr_tags p with Some pt => common_prefix pt tags | None => O end | None => O end)).
  { destruct prev as [p|]; cbn [is_some deref bind]; [|reflexivity].
    destruct (vr_tags p) as [pt|]; cbn [is_some deref bind]; [apply common_prefix_c_ok | reflexivity]. }
  assert (El : (if is_some next then do n <- deref next 691;
                  if is_some (vr_tags n) then do nt <- deref (vr_tags n) 692; common_prefix_c tags nt else Ok O else Ok O) =
               Ok (match next with Some n => match vr_tags n with Some nt => common_prefix tags nt | None => O end | None => O end)).
  { destruct next as [n|]; cbn [is_some deref bind]; [|reflexivity].
    destruct (vr_tags n) as [nt|]; cbn [is_some deref bind]; [apply common_prefix_c_ok | reflexivity]. }
  rewrite Eo, El. cbn [bind]. rewrite tags_open_ok by lia. cbn [bind]. rewrite tags_close_ok by lia. cbn [bind].
  rewrite firstn_all. reflexivity.
Qed.
Definition prev_at (items : list vrun) (idx : nat) : option vrun := match idx with O => None | S k => nth_error items k end.
Lemma vruns_loop_ok fuel : forall idx items, (length items - idx <= fuel)%nat ->
  vruns_loop_c fuel idx items = Ok (vruns_bytes (prev_at items idx) (skipn idx items)).
Proof.
  induction fuel as [|fuel IH]; intros idx items Hf.
  - cbn [vruns_loop_c]. rewrite skipn_all2 by lia. reflexivity.
  - cbn [vruns_loop_c]. destruct (Nat.ltb idx (length items)) eqn:E.
    + apply Nat.ltb_lt in E. destruct (nth_error items idx) as [cur|] eqn:Ecur; [|apply nth_error_None in Ecur; lia].
      assert (Ep : (if Nat.ltb 0 idx then do k <- idx_pred idx 659; do p <- index items k 659; Ok (Some p) else Ok None) =
                   Ok (prev_at items idx)).
      { destruct idx as [|k]; [reflexivity|]. cbn [Nat.ltb Nat.leb idx_pred bind prev_at].
        destruct (nth_error items k) as [p|] eqn:Ek; [|apply nth_error_None in Ek; lia]. unfold index. rewrite Ek. reflexivity. }
      assert (En : (if Nat.ltb idx (length items - 1) then do n <- index items (S idx) 662; Ok (Some n) else Ok None) =
                   Ok (match skipn (S idx) items with n :: _ => Some n | [] => None end)).
      { destruct (Nat.ltb idx (length items - 1)) eqn:E1.
        - apply Nat.ltb_lt in E1. destruct (nth_error items (S idx)) as [n|] eqn:Es; [|apply nth_error_None in Es; lia].
          unfold index. rewrite Es. cbn [bind]. rewrite (skipn_nth items (S idx) n Es). reflexivity.
        - apply Nat.ltb_ge in E1. rewrite skipn_all2 by lia. reflexivity. }
      rewrite Ep, En. cbn [bind]. unfold index. rewrite Ecur. cbn [bind]. rewrite vrun_bytes_ok. cbn [bind].
      rewrite IH by lia. cbn [bind]. rewrite (skipn_nth items idx cur Ecur). cbn [vruns_bytes prev_at]. rewrite Ecur. reflexivity.
    + apply Nat.ltb_ge in E. rewrite skipn_all2 by lia. reflexivity.
Qed.
Lemma vline_bytes_ok l : vline_bytes_c l = Ok (vline_bytes l).
Proof. unfold vline_bytes_c, vline_bytes. rewrite vruns_loop_ok by lia. reflexivity. Qed.
Lemma vlines_bytes_ok ls : vlines_bytes_c ls = Ok (concat (map vline_bytes ls)).
Proof. induction ls as [|l t IH]; [reflexivity|]. cbn [vlines_bytes_c map concat]. rewrite vline_bytes_ok, IH. reflexivity. Qed.
Lemma vitem_settings_ok it : vitem_settings_c it = Ok (vitem_settings it).
Proof.
  unfold vitem_settings_c, vitem_settings. destruct (vi_set it) as [s|]; cbn [is_some deref bind]; [|reflexivity].
  destruct (vi_fb it) as [fb|]; destruct (vi_region it) as [id|]; cbn [is_some deref bind]; reflexivity.
Qed.
Lemma vregion_bytes_ok rg : vregion_bytes_c rg = Ok (vregion_bytes rg).
Proof.
  unfold vregion_bytes_c, vregion_bytes. destruct (rg_attr rg) as [a|]; destruct (rg_fb rg) as [fb|]; cbn [is_some deref bind]; reflexivity.
Qed.
Lemma vitems_bytes_ok l : forall k, vitems_bytes_c k l = Ok (vitems_bytes k l).
Proof.
  induction l as [|it r IH]; intros k; [reflexivity|]. cbn [vitems_bytes_c vitems_bytes].
  rewrite vitem_settings_ok, vlines_bytes_ok, IH. reflexivity.
Qed.
Lemma regions_bytes_ok d ids : regions_bytes_c d ids =
  Ok (concat (map (fun id => match aget id (vd_regions d) with Some rg => vregion_bytes rg | None => [] end) ids)).
Proof.
  induction ids as [|id r IH]; [reflexivity|]. cbn [regions_bytes_c map concat]. rewrite IH.
  destruct (aget id (vd_regions d)) as [rg|]; [rewrite vregion_bytes_ok|]; reflexivity.
Qed.
Lemma styles_ok d ids : styles_c d ids =
  Ok (flat_map (fun id => match aget id (vd_styles d) with Some (Some l) => l | _ => [] end) ids).
Proof.
  induction ids as [|id r IH]; [reflexivity|]. cbn [styles_c flat_map]. rewrite IH.
  destruct (aget id (vd_styles d)) as [[l|]|]; reflexivity.
Qed.
Lemma vitems_bytes_nonnil k it r : vitems_bytes k (it :: r) <> [].
Proof.
  cbn [vitems_bytes]. intros E. apply app_eq_nil in E. destruct E as [_ E]. apply app_eq_nil in E. destruct E as [E _].
  exact (itoa_nonnil _ E).
Qed.
(* THE CHECKED WRITER AGREES WITH THE WRITER OF THE FIDELITY THEOREMS *)
Theorem write_vtt_c_ok d so ro : write_vtt_c d so ro = write_vtt d so ro.
Proof.
  unfold write_vtt_c, write_vtt. destruct (vd_items d) as [|it r] eqn:Ei; [reflexivity|]. cbn [length Nat.eqb].
  assert (Ets : (if is_some (vd_tsmap d) then do m <- deref (vd_tsmap d) 483; Ok ([10] ++ tsmap_string m) else Ok []) =
                Ok (match vd_tsmap d with Some m => [10] ++ tsmap_string m | None => [] end)).
  { destruct (vd_tsmap d); reflexivity. }
  rewrite Ets, styles_ok, regions_bytes_ok, vitems_bytes_ok. cbn [bind].
  apply slice_to_pred_removelast. unfold p_webvtt. discriminate.
Qed.

(* ---- totality, now with content: no panic site of webvtt.go is reachable ---- *)
Lemma region_parts_no_panic parts : forall id a p, region_parts parts id a <> Panic p.
Proof.
  induction parts as [|x r IH]; intros id a p; [discriminate|]. cbn [region_parts].
  destruct (Str.split [61] x) as [|k [|v rest]]; try discriminate.
  destruct (str_eqb k k_id); [apply IH|]. destruct (str_eqb k k_lines); [destruct (atoi v); [apply IH | discriminate]|].
  destruct (str_eqb k k_anchor); [apply IH|]. destruct (str_eqb k k_scroll); [apply IH|].
  destruct (str_eqb k k_vanchor); [apply IH|]. destruct (str_eqb k k_width); apply IH.
Qed.
Lemma cue_settings_no_panic fs : forall regs s reg p, cue_settings fs regs s reg <> Panic p.
Proof.
  induction fs as [|f r IH]; intros regs s reg p; [discriminate|]. cbn [cue_settings].
  destruct (Str.split [58] f) as [|k [|v rest]]; try discriminate.
  destruct (str_eqb k k_align); [apply IH|]. destruct (str_eqb k k_line); [apply IH|]. destruct (str_eqb k k_position); [apply IH|].
  destruct (str_eqb k k_regionk); [destruct (aget v regs); [apply IH | discriminate]|].
  destruct (str_eqb k k_size); [apply IH|]. destruct (str_eqb k k_vertical); apply IH.
Qed.
Lemma vtt_step_c_no_panic s raw p : vtt_step_c s raw <> Panic p.
Proof.
  rewrite vtt_step_ok. unfold vtt_step. destruct (negb (utf8_valid _)); [discriminate|]. destruct (has_prefix p_note _); [discriminate|].
  destruct (trim_space raw) as [|c L]; [discriminate|].
  destruct (has_prefix p_region _).
  { destruct (region_parts _ _ _) as [[id a]|k|q] eqn:E; try discriminate. exfalso. exact (region_parts_no_panic _ _ _ _ E). }
  destruct (has_prefix p_style _); [destruct (v_styles s); discriminate|].
  destruct (contains arrow _).
  { destruct (Str.split arrow _) as [|l [|r rest]]; try discriminate. destruct (fields r); [discriminate|].
    destruct (parse_vtt l); [|discriminate]. destruct (parse_vtt _); [|discriminate].
    destruct (cue_settings _ _ _ _) as [[st reg]|k|q] eqn:E; try discriminate. exfalso. exact (cue_settings_no_panic _ _ _ _ _ E). }
  destruct (has_prefix p_tsmap _); [destruct (cur_has_lines s); [discriminate|]; destruct (parse_tsmap _); discriminate|].
  destruct (v_block s); try discriminate. destruct (parse_text_vtt _ _) as [ln tags']. destruct (vl_runs ln); [discriminate|].
  destruct (v_cur s); discriminate.
Qed.
Theorem read_vtt_lines_c_no_panic ls e p : read_vtt_lines_c ls e <> Panic p.
Proof.
  unfold read_vtt_lines_c.
  assert (Hh : forall l q, vtt_header_c l <> Panic q).
  { induction l as [|x r IH]; intros q; [discriminate|]. cbn [vtt_header_c]. destruct (negb _); [discriminate|].
    destruct (fields _) as [|f fs]; [apply IH|]. change (Nat.ltb 0 (length (f :: fs))) with true. cbv iota.
    unfold index. cbn [nth_error bind]. destruct (str_eqb f p_webvtt); [discriminate | apply IH]. }
  assert (Hr : forall l s q, vtt_run_c s l <> Panic q).
  { induction l as [|x r IH]; intros s q; [discriminate|]. cbn [vtt_run_c].
    destruct (vtt_step_c s x) eqn:E; [apply IH | discriminate | exfalso; exact (vtt_step_c_no_panic _ _ _ E)]. }
  destruct (vtt_header_c ls) as [body|k|q] eqn:E1; [|discriminate | exfalso; exact (Hh _ _ E1)].
  destruct (vtt_run_c vstate0 body) as [s|k|q] eqn:E2; [destruct e; discriminate | discriminate | exfalso; exact (Hr _ _ _ E2)].
Qed.
Theorem write_vtt_c_no_panic d so ro p : write_vtt_c d so ro <> Panic p.
Proof. rewrite write_vtt_c_ok. unfold write_vtt. destruct (vd_items d); discriminate. Qed.

(* ---- nil elements inside Items: skipped (nonNilItems) ---- *)
Theorem write_vtt_items_c_no_panic items d so ro p : write_vtt_items_c items d so ro <> Panic p.
Proof. apply write_vtt_c_no_panic. Qed.

(* ---- second audit, N6: the guards are load-bearing ----
   Each function below is the checked function of Model/VttC.v with ONE guard removed and nothing else changed.  On the
   input shown it returns Panic at the site the guard stands in front of, while the guarded function returns Ok / Err on
   the same input.  (Go side: the index / slice expressions on these operand lengths do panic, checked with a throw-away
   program, and sites 364, 659, 662, 688, 695, 704, 714 replayed on the library with the guard deleted: notes/C02.md N6.) *)
(* emptiness test before [:len-1]: "if len(sa.WebVTTTags) > 0" removed (webvtt.go:363) *)
Fixpoint vtt_toks_c_noguard (ts : list htok) (tags : list vtag) (voice : str) (acc : list vrun) : res (list vrun * str * list vtag) :=
  match ts with
  | [] => Ok (acc, voice, tags)
  | HEnd _ _ :: r =>
    do tags' <- slice_to_pred tags 364; vtt_toks_c_noguard r tags' voice acc
  | HStart _ _ raw :: r =>
    let '(name, cls, annot) := vtt_match_tag raw in
    let classes := match cls with [] => [] | _ => Str.split [46] (trim_byte 46 cls) end in
    let annotation := match annot with [] => [] | _ => trim_space annot end in
    if str_eqb name n_v then
      vtt_toks_c_noguard r tags (match voice with [] => annotation | _ => voice end) acc
    else vtt_toks_c_noguard r (tags ++ [mkVtag name annotation classes]) voice acc
  | HText raw :: r =>
    vtt_toks_c_noguard r tags voice (acc ++ parse_text_token (match tags with [] => None | _ => Some tags end) raw)
  | _ :: r => vtt_toks_c_noguard r tags voice acc
  end.
Definition parse_text_vtt_c_noguard (line : str) (tags : list vtag) : res (vline * list vtag) :=
  do x <- vtt_toks_c_noguard (tokenize line) tags [] [];
  let '(runs, voice, tags') := x in
  Ok (mkVline runs voice, tags').
(* length test before index: "if len(right) == 0" removed (webvtt.go:241) *)
Definition step_cue_c_noguard (s : vstate) (line : str) : res vstate :=
  let left := Str.split arrow line in
  do r <- index left 1 240;
  let right := fields r in
  do l <- index left 0 247;
  match parse_vtt l with
  | None => Err EParse
  | Some d0 =>
    do e <- index right 0 251;
    match parse_vtt e with
    | None => Err EParse
    | Some d1 =>
      do sr <- (if Nat.ltb 1 (length right) then settings_loop_c (length right) 1 right (v_regions s) vset0 None else Ok (vset0, None));
      let '(st, reg) := sr in
      Ok (mkVst (close_vcur s) (Some (mkVitem (v_index s) d0 d1 (v_comments s) reg (Some st) None [])) (v_pre_lines s)
                BText [] 0%Z (v_tags s) (v_styles s) (v_regions s) (v_tsmap s))
    end
  end.
(* loop bound: "index < len(right)" removed from the cue settings loop (webvtt.go:259) *)
Fixpoint settings_loop_c_noguard (fuel i : nat) (right : list str) (regions : list (str * vregion)) (s : vset) (reg : option str)
  : res (vset * option str) :=
  match fuel with
  | O => Ok (s, reg)
  | S fuel' =>
      do f <- index right i 261;
      let split := Str.split [58] f in
      if Nat.leb (length split) 1 then Err EParse else
      do k <- index split 0 273;
      do v <- index split 1 275;
      if str_eqb k k_align then settings_loop_c_noguard fuel' (S i) right regions (mkVset v (vs_line s) (vs_position s) (vs_size s) (vs_vertical s)) reg
      else if str_eqb k k_line then settings_loop_c_noguard fuel' (S i) right regions (mkVset (vs_align s) v (vs_position s) (vs_size s) (vs_vertical s)) reg
      else if str_eqb k k_position then settings_loop_c_noguard fuel' (S i) right regions (mkVset (vs_align s) (vs_line s) v (vs_size s) (vs_vertical s)) reg
      else if str_eqb k k_regionk then
        match aget v regions with
        | Some rg => settings_loop_c_noguard fuel' (S i) right regions s (Some (rg_id rg))
        | None => Err EUnknownRef
        end
      else if str_eqb k k_size then settings_loop_c_noguard fuel' (S i) right regions (mkVset (vs_align s) (vs_line s) (vs_position s) v (vs_vertical s)) reg
      else if str_eqb k k_vertical then settings_loop_c_noguard fuel' (S i) right regions (mkVset (vs_align s) (vs_line s) (vs_position s) (vs_size s) v) reg
      else settings_loop_c_noguard fuel' (S i) right regions s reg
  end.
(* length test before index: "if len(split) <= 1" removed inside the same loop (webvtt.go:267) *)
Fixpoint settings_loop_c_noguard_split (fuel i : nat) (right : list str) (regions : list (str * vregion)) (s : vset) (reg : option str)
  : res (vset * option str) :=
  match fuel with
  | O => Ok (s, reg)
  | S fuel' =>
    if Nat.ltb i (length right) then
      do f <- index right i 261;
      let split := Str.split [58] f in
      do k <- index split 0 273;
      do v <- index split 1 275;
      if str_eqb k k_align then settings_loop_c_noguard_split fuel' (S i) right regions (mkVset v (vs_line s) (vs_position s) (vs_size s) (vs_vertical s)) reg
      else if str_eqb k k_line then settings_loop_c_noguard_split fuel' (S i) right regions (mkVset (vs_align s) v (vs_position s) (vs_size s) (vs_vertical s)) reg
      else if str_eqb k k_position then settings_loop_c_noguard_split fuel' (S i) right regions (mkVset (vs_align s) (vs_line s) v (vs_size s) (vs_vertical s)) reg
      else if str_eqb k k_regionk then
        match aget v regions with
        | Some rg => settings_loop_c_noguard_split fuel' (S i) right regions s (Some (rg_id rg))
        | None => Err EUnknownRef
        end
      else if str_eqb k k_size then settings_loop_c_noguard_split fuel' (S i) right regions (mkVset (vs_align s) (vs_line s) (vs_position s) v (vs_vertical s)) reg
      else if str_eqb k k_vertical then settings_loop_c_noguard_split fuel' (S i) right regions (mkVset (vs_align s) (vs_line s) (vs_position s) (vs_size s) v) reg
      else settings_loop_c_noguard_split fuel' (S i) right regions s reg
    else Ok (s, reg)
  end.
(* emptiness test before [len-1]: "len(sa.WebVTTStyles) == 0 ||" removed (webvtt.go:167) *)
Definition last_ends_brace_c_noguard (l : list str) : res bool :=
  do x <- index l (length l - 1) 167; Ok (match rev x with 125 :: _ => true | _ => false end).
(* nil test before dereference: "previous != nil &&" removed (webvtt.go:688) *)
Definition vrun_bytes_c_noguard_prev (prev next : option vrun) (r : vrun) : res str :=
  do color <- (if is_some (vr_color r) then do c <- deref (vr_color r) 674; Ok (css_color c) else Ok []);
  do tags <- (if is_some (vr_tags r) then deref (vr_tags r) 685 else Ok []);
  do opened <- (do p <- deref prev 688;
                if is_some (vr_tags p) then do pt <- deref (vr_tags p) 689; common_prefix_c pt tags else Ok O);
  do left <- (if is_some next then
                do n <- deref next 691;
                if is_some (vr_tags n) then do nt <- deref (vr_tags n) 692; common_prefix_c tags nt else Ok O
              else Ok O);
  do starts <- tags_open_c (length tags) opened tags;
  do ends <- tags_close_c (length tags) left tags;
  Ok ((match color with [] => [] | _ => [60;99;46] ++ color ++ [62] end) ++
      starts ++
      (if (0 <? vr_time r)%Z then [60] ++ format_vtt (vr_time r) ++ [62] else []) ++
      escape_html (vr_text r) ++
      ends ++
      (match color with [] => [] | _ => [60;47;99;62] end)).
(* nil test before dereference: "item.InlineStyle != nil" removed (webvtt.go:587) *)
Definition vitem_settings_c_noguard (it : vitem) : res str :=
    do s <- deref (vi_set it) 588;
    do fb <- (if is_some (vi_fb it) then deref (vi_fb it) 591 else Ok vset0);
    do rg <- (if is_some (vi_region it) then do id <- deref (vi_region it) 611; Ok ([32] ++ k_regionk ++ [58] ++ id) else Ok []);
    Ok (setting k_align (vs_align s) (vs_align fb) ++ setting k_line (vs_line s) (vs_line fb) ++
        setting k_position (vs_position s) (vs_position fb) ++ rg ++
        setting k_size (vs_size s) (vs_size fb) ++ setting k_vertical (vs_vertical s) (vs_vertical fb)).
(* Line.webVTTBytes: "if idx > 0" removed (webvtt.go:658) *)
Fixpoint vruns_loop_c_noguard_prev (fuel idx : nat) (items : list vrun) : res str :=
  match fuel with
  | O => Ok []
  | S fuel' =>
    if Nat.ltb idx (length items) then
      do prev <- (do k <- idx_pred idx 659; do p <- index items k 659; Ok (Some p));
      do next <- (if Nat.ltb idx (length items - 1) then do n <- index items (S idx) 662; Ok (Some n) else Ok None);
      do cur <- index items idx 664;
      do x <- vrun_bytes_c prev next cur;
      do y <- vruns_loop_c_noguard_prev fuel' (S idx) items;
      Ok (x ++ y)
    else Ok []
  end.
(* Line.webVTTBytes: "if idx < len(l.Items)-1" removed (webvtt.go:661) *)
Fixpoint vruns_loop_c_noguard_next (fuel idx : nat) (items : list vrun) : res str :=
  match fuel with
  | O => Ok []
  | S fuel' =>
    if Nat.ltb idx (length items) then
      do prev <- (if Nat.ltb 0 idx then do k <- idx_pred idx 659; do p <- index items k 659; Ok (Some p) else Ok None);
      do next <- (do n <- index items (S idx) 662; Ok (Some n));
      do cur <- index items idx 664;
      do x <- vrun_bytes_c prev next cur;
      do y <- vruns_loop_c_noguard_next fuel' (S idx) items;
      Ok (x ++ y)
    else Ok []
  end.
(* Line.webVTTBytes: the loop bound "idx < len(l.Items)" removed (webvtt.go:656) *)
Fixpoint vruns_loop_c_noguard_bound (fuel idx : nat) (items : list vrun) : res str :=
  match fuel with
  | O => Ok []
  | S fuel' =>
      do prev <- (if Nat.ltb 0 idx then do k <- idx_pred idx 659; do p <- index items k 659; Ok (Some p) else Ok None);
      do next <- (if Nat.ltb idx (length items - 1) then do n <- index items (S idx) 662; Ok (Some n) else Ok None);
      do cur <- index items idx 664;
      do x <- vrun_bytes_c prev next cur;
      do y <- vruns_loop_c_noguard_bound fuel' (S idx) items;
      Ok (x ++ y)
  end.
(* the opening-tags loop: the bound "idx < len(tags)" removed (webvtt.go:694) *)
Fixpoint tags_open_c_noguard (fuel idx : nat) (tags : list vtag) : res str :=
  match fuel with
  | O => Ok []
  | S fuel' =>
      do t <- index tags idx 695;
      do rest <- tags_open_c_noguard fuel' (S idx) tags;
      Ok (tag_start t ++ rest)
  end.
(* the closing-tags loop: the bound "idx >= leftOpened" removed (webvtt.go:703); k = O is the Go int idx = -1, where the
   bound stopped the loop: without it the body runs with tags[-1] *)
Fixpoint tags_close_c_noguard (k left : nat) (tags : list vtag) : res str :=
  match k with
  | O => do i <- idx_pred O 704; do t <- index tags i 704; Ok (tag_end t)
  | S idx =>
      do t <- index tags idx 704;
      do rest <- tags_close_c_noguard idx left tags;
      Ok (tag_end t ++ rest)
  end.
(* webVTTTagsCommonPrefix: "n < len(a) &&" removed, "n < len(b) &&" removed (webvtt.go:714) *)
Fixpoint common_prefix_loop_c_noguard_a (fuel n : nat) (a b : list vtag) : res nat :=
  match fuel with
  | O => Ok n
  | S fuel' =>
    if Nat.ltb n (length b) then
      do x <- index a n 714;
      do y <- index b n 714;
      if str_eqb (tag_start x) (tag_start y) then common_prefix_loop_c_noguard_a fuel' (S n) a b else Ok n
    else Ok n
  end.
Fixpoint common_prefix_loop_c_noguard_b (fuel n : nat) (a b : list vtag) : res nat :=
  match fuel with
  | O => Ok n
  | S fuel' =>
    if Nat.ltb n (length a) then
      do x <- index a n 714;
      do y <- index b n 714;
      if str_eqb (tag_start x) (tag_start y) then common_prefix_loop_c_noguard_b fuel' (S n) a b else Ok n
    else Ok n
  end.

Definition ex_end_tag : str := [60;47;99;62].                                               (* </c> *)
Definition ex_cue_no_end : str := [48;48;58;48;48;58;48;49;46;48;48;48;32;45;45;62].        (* 00:00:01.000 --> *)
Definition ex_tag_b : vtag := mkVtag [98] [] [].
Definition ex_run : vrun := mkVrun [97] None 0%Z None.
Definition ex_run_b : vrun := mkVrun [97] (Some [ex_tag_b]) 0%Z None.
Definition ex_item_nil_style : vitem := mkVitem 0%Z 0%Z 0%Z [] None None None [].
Definition is_ok {A} (r : res A) : bool := match r with Ok _ => true | _ => false end.
Lemma vtt_reader_guards_load_bearing :
  (parse_text_vtt_c_noguard ex_end_tag [] = Panic 364 /\ parse_text_vtt_c ex_end_tag [] = Ok (mkVline [] [], [])) /\
  (step_cue_c_noguard vstate0 ex_cue_no_end = Panic 251 /\ step_cue_c vstate0 ex_cue_no_end = Err EParse) /\
  (* left[1] behind the caller's strings.Contains(line, "-->"): the function entered without it *)
  (step_cue_c vstate0 [97] = Panic 240 /\ is_ok (vtt_step_c vstate0 [97]) = true) /\
  (settings_loop_c_noguard 2 1 [[97]; [97;58;98]] [] vset0 None = Panic 261 /\
   settings_loop_c 2 1 [[97]; [97;58;98]] [] vset0 None = Ok (vset0, None)) /\
  (settings_loop_c_noguard_split 2 1 [[97]; [97]] [] vset0 None = Panic 275 /\ settings_loop_c 2 1 [[97]; [97]] [] vset0 None = Err EParse) /\
  (last_ends_brace_c_noguard [] = Panic 167 /\ last_ends_brace_c [] = Ok true).
Proof. vm_compute. repeat split. Qed.
Lemma vtt_writer_guards_load_bearing :
  (vrun_bytes_c_noguard_prev None None ex_run = Panic 688 /\ vrun_bytes_c None None ex_run = Ok [97]) /\
  (vitem_settings_c_noguard ex_item_nil_style = Panic 588 /\ vitem_settings_c ex_item_nil_style = Ok []) /\
  (vruns_loop_c_noguard_prev 1 0 [ex_run] = Panic 659 /\ vruns_loop_c_noguard_next 1 0 [ex_run] = Panic 662 /\
   vruns_loop_c 1 0 [ex_run] = Ok [97]) /\
  (vruns_loop_c_noguard_bound 2 0 [ex_run] = Panic 664 /\ vruns_loop_c 2 0 [ex_run] = Ok [97]) /\
  (tags_open_c_noguard 2 0 [ex_tag_b] = Panic 695 /\ tags_open_c 2 0 [ex_tag_b] = Ok [60;98;62]) /\
  (tags_close_c_noguard 1 0 [ex_tag_b] = Panic 704 /\ tags_close_c 1 0 [ex_tag_b] = Ok [60;47;98;62]) /\
  (common_prefix_loop_c_noguard_a 2 0 [ex_tag_b] [ex_tag_b; ex_tag_b] = Panic 714 /\
   common_prefix_loop_c_noguard_b 2 0 [ex_tag_b; ex_tag_b] [ex_tag_b] = Panic 714 /\
   common_prefix_loop_c 2 0 [ex_tag_b] [ex_tag_b; ex_tag_b] = Ok 1%nat /\
   common_prefix_loop_c 2 0 [ex_tag_b; ex_tag_b] [ex_tag_b] = Ok 1%nat) /\
  (* the whole line through the loops *)
  vline_bytes_c (mkVline [ex_run_b; ex_run_b; ex_run] []) = Ok [60;98;62;97;97;60;47;98;62;97;10].
Proof. vm_compute. repeat split. Qed.
