(* webvtt.go: the checked transcription (Model/VttC.v) never reaches a panic site, and agrees with the
   pattern-matching transcription (Model/Vtt.v) on which the fidelity theorems are stated.  The content of each
   equation is that the guard the Go code tests implies that the access behind it is in range / non-nil -- e.g.
   left[1] after strings.Contains(line, "-->"). *)
From Coq Require Import List ZArith NArith Bool Arith Lia.
From Astisub Require Import Kit.Base Kit.Str Kit.Html Kit.Scan Kit.GoMap Kit.Chk Model.Dur Model.Srt Model.Vtt Model.VttC.
Import ListNotations.
Open Scope N_scope.

Definition of_opt {A} (o : option A) : res A := match o with Some x => Ok x | None => Err EParse end.

(* ---- the timestamp map ---- *)
Lemma tsmap_parts_ok parts : forall l m, tsmap_parts_c parts l m = of_opt (tsmap_parts parts l m).
Proof.
  induction parts as [|p r IH]; intros l m; [reflexivity|]. cbn [tsmap_parts_c tsmap_parts].
  destruct (cut [58] p) as [[k v]|]; [|reflexivity].
  cbn [length Nat.leb]. unfold index. cbn [nth_error bind].
  destruct (str_eqb _ k_local); [destruct (parse_vtt v); [apply IH | reflexivity]|].
  destruct (str_eqb _ k_mpegts); [destruct (atoi v); [apply IH | reflexivity]|]. apply IH.
Qed.
Lemma parse_tsmap_ok line : parse_tsmap_c line = of_opt (parse_tsmap line).
Proof.
  unfold parse_tsmap_c, parse_tsmap. destruct (Str.split [61] line) as [|a [|rhs rest]]; try reflexivity.
  cbn [length Nat.leb]. unfold index. cbn [nth_error bind]. apply tsmap_parts_ok.
Qed.

(* ---- region lines ---- *)
Lemma region_parts_ok parts : forall id a, region_parts_c parts id a = region_parts parts id a.
Proof.
  induction parts as [|p r IH]; intros id a; [reflexivity|]. cbn [region_parts_c region_parts].
  destruct (Str.split [61] p) as [|k [|v rest]]; try reflexivity.
  cbn [length Nat.leb]. unfold index. cbn [nth_error bind].
  destruct (str_eqb k k_id); [apply IH|]. destruct (str_eqb k k_lines); [destruct (atoi v); [apply IH | reflexivity]|].
  destruct (str_eqb k k_anchor); [apply IH|]. destruct (str_eqb k k_scroll); [apply IH|].
  destruct (str_eqb k k_vanchor); [apply IH|]. destruct (str_eqb k k_width); apply IH.
Qed.

(* ---- cue settings: the index loop is the iteration over right[1:] ---- *)
Lemma skipn_nth {A} (l : list A) i x : nth_error l i = Some x -> skipn i l = x :: skipn (S i) l.
Proof.
  revert i. induction l as [|y l IH]; intros i H; [destruct i; discriminate|]. destruct i as [|i].
  - cbn in H. injection H as ->. reflexivity.
  - cbn [nth_error] in H. cbn [skipn]. apply IH. exact H.
Qed.
Lemma settings_loop_ok fuel : forall i right regs s reg, (length right - i <= fuel)%nat ->
  settings_loop_c fuel i right regs s reg = cue_settings (skipn i right) regs s reg.
Proof.
  induction fuel as [|fuel IH]; intros i right regs s reg Hf.
  - cbn [settings_loop_c]. rewrite skipn_all2 by lia. reflexivity.
  - cbn [settings_loop_c]. destruct (Nat.ltb i (length right)) eqn:E.
    + apply Nat.ltb_lt in E. unfold index at 1. destruct (nth_error right i) as [f|] eqn:En; [|apply nth_error_None in En; lia].
      cbn [bind]. rewrite (skipn_nth right i f En). cbn [cue_settings].
      destruct (Str.split [58] f) as [|k [|v rest]]; try reflexivity.
      cbn [length Nat.leb]. unfold index. cbn [nth_error bind].
      destruct (str_eqb k k_align); [apply IH; lia|]. destruct (str_eqb k k_line); [apply IH; lia|].
      destruct (str_eqb k k_position); [apply IH; lia|].
      destruct (str_eqb k k_regionk); [destruct (aget v regs); [apply IH; lia | reflexivity]|].
      destruct (str_eqb k k_size); [apply IH; lia|]. destruct (str_eqb k k_vertical); apply IH; lia.
    + apply Nat.ltb_ge in E. rewrite skipn_all2 by lia. reflexivity.
Qed.

(* ---- the guard of left[1]: a line that contains the separator splits into at least two parts ---- *)
Lemma split_fuel_nonnil f sep s : split_fuel f sep s <> [].
Proof. destruct f; cbn [split_fuel]; [discriminate|]. destruct (cut sep s) as [[a b]|]; discriminate. Qed.
Lemma split_contains sep s : contains sep s = true -> exists a b rest, Str.split sep s = a :: b :: rest.
Proof.
  unfold contains, Str.split. cbn [split_fuel]. destruct (cut sep s) as [[a b]|]; [|discriminate]. intros _.
  pose proof (split_fuel_nonnil (length s) sep b) as Hn. destruct (split_fuel (length s) sep b) as [|x r]; [contradiction|].
  exists a, x, r. reflexivity.
Qed.

Definition step_cue_spec (s : vstate) (line : str) : res vstate :=
    match Str.split arrow line with
    | l :: r :: _ =>
      match fields r with
      | [] => Err EParse
      | e :: settings =>
        match parse_vtt l with
        | None => Err EParse
        | Some d0 =>
          match parse_vtt e with
          | None => Err EParse
          | Some d1 =>
            match cue_settings settings (v_regions s) vset0 None with
            | Ok (st, reg) =>
              Ok (mkVst (close_vcur s) (Some (mkVitem (v_index s) d0 d1 (v_comments s) reg (Some st) None [])) (v_pre_lines s)
                        BText [] 0%Z (v_tags s) (v_styles s) (v_regions s) (v_tsmap s))
            | Err k => Err k
            | Panic p => Panic p
            end
          end
        end
      end
    | _ => Err EParse
    end.
Lemma step_cue_ok s line : contains arrow line = true -> step_cue_c s line = step_cue_spec s line.
Proof.
  intros Hc. destruct (split_contains arrow line Hc) as (l & r & rest & E).
  unfold step_cue_c, step_cue_spec. rewrite E. unfold index at 1. cbn [nth_error bind].
  destruct (fields r) as [|e settings] eqn:Ef; [reflexivity|]. change (Nat.eqb (length (e :: settings)) 0) with false. cbv iota.
  unfold index at 1. cbn [nth_error bind]. destruct (parse_vtt l) as [d0|]; [|reflexivity].
  unfold index at 1. cbn [nth_error bind]. destruct (parse_vtt e) as [d1|]; [|reflexivity].
  assert (Es : (if Nat.ltb 1 (length (e :: settings)) then settings_loop_c (length (e :: settings)) 1 (e :: settings) (v_regions s) vset0 None
                else Ok (vset0, None)) = cue_settings settings (v_regions s) vset0 None).
  { destruct settings as [|x xs]; [reflexivity|]. change (Nat.ltb 1 (length (e :: x :: xs))) with true. cbv iota.
    rewrite settings_loop_ok by lia. reflexivity. }
  rewrite Es. destruct (cue_settings settings (v_regions s) vset0 None) as [[st reg]|k|p]; reflexivity.
Qed.

(* ---- the STYLE block test ---- *)
Lemma last_ends_brace_ok l : last_ends_brace_c l = Ok (last_ends_brace l).
Proof.
  unfold last_ends_brace_c, last_ends_brace. destruct l as [|x0 l0] using rev_ind; [reflexivity|]. clear IHl0.
  rewrite app_length. cbn [length]. rewrite Nat.add_1_r. cbn [Nat.eqb].
  replace (S (length l0) - 1)%nat with (length l0) by lia. unfold index. rewrite nth_error_app2 by lia. rewrite Nat.sub_diag.
  cbn [nth_error bind]. rewrite rev_app_distr. reflexivity.
Qed.

(* ---- cue text: the end tag pops the stack ---- *)
Lemma vtt_toks_ok ts : forall tags voice acc, vtt_toks_c ts tags voice acc = Ok (vtt_toks ts tags voice acc).
Proof.
  induction ts as [|t r IH]; intros tags voice acc; [reflexivity|]. destruct t as [raw|n a raw|n a raw|n raw|raw]; cbn [vtt_toks_c vtt_toks]; try apply IH.
  - destruct (vtt_match_tag raw) as [[name cls] annot]. destruct (str_eqb name n_v); apply IH.
  - destruct tags as [|t0 tr]; [cbn [length Nat.ltb Nat.leb removelast]; apply IH|].
    change (Nat.ltb 0 (length (t0 :: tr))) with true. cbv iota.
    rewrite (slice_to_pred_removelast (t0 :: tr) 364) by discriminate. cbn [bind]. apply IH.
Qed.
Lemma parse_text_vtt_ok line tags : parse_text_vtt_c line tags = Ok (parse_text_vtt line tags).
Proof.
  unfold parse_text_vtt_c, parse_text_vtt. rewrite vtt_toks_ok. cbn [bind].
  destruct (vtt_toks (tokenize line) tags [] []) as [[runs voice] tags']. reflexivity.
Qed.

(* ---- the reader ---- *)
Lemma vtt_step_ok s raw : vtt_step_c s raw = vtt_step s raw.
Proof.
  unfold vtt_step_c, vtt_step. destruct (negb (utf8_valid (trim_space raw))); [reflexivity|].
  destruct (has_prefix p_note _); [reflexivity|]. destruct (trim_space raw) as [|c L] eqn:El.
  - destruct (v_block s); try reflexivity. destruct (v_styles s) as [l|]; [|reflexivity]. rewrite last_ends_brace_ok. reflexivity.
  - destruct (has_prefix p_region _); [rewrite region_parts_ok; reflexivity|].
    destruct (has_prefix p_style _); [reflexivity|].
    destruct (contains arrow (c :: L)) eqn:Ec; [apply (step_cue_ok s (c :: L) Ec)|].
    destruct (has_prefix p_tsmap _).
    + destruct (cur_has_lines s); [reflexivity|]. rewrite parse_tsmap_ok. destruct (parse_tsmap _); reflexivity.
    + destruct (v_block s); try reflexivity. rewrite parse_text_vtt_ok. cbn [bind].
      destruct (parse_text_vtt _ _) as [ln tags']. reflexivity.
Qed.
Lemma vtt_run_ok ls : forall s, vtt_run_c s ls = vtt_run s ls.
Proof.
  induction ls as [|l r IH]; intros s; [reflexivity|]. cbn [vtt_run_c vtt_run]. rewrite vtt_step_ok.
  destruct (vtt_step s l); [apply IH | reflexivity | reflexivity].
Qed.
Lemma vtt_header_ok ls : vtt_header_c ls = vtt_header ls.
Proof.
  induction ls as [|l r IH]; [reflexivity|]. cbn [vtt_header_c vtt_header].
  destruct (negb (utf8_valid _)); [reflexivity|]. destruct (fields _) as [|f fs]; [exact IH|].
  change (Nat.ltb 0 (length (f :: fs))) with true. cbv iota. unfold index. cbn [nth_error bind].
  destruct (str_eqb f p_webvtt); [reflexivity | exact IH].
Qed.
(* THE CHECKED READER AGREES WITH THE READER OF THE FIDELITY THEOREMS *)
Theorem read_vtt_lines_c_ok ls e : read_vtt_lines_c ls e = read_vtt_lines ls e.
Proof. unfold read_vtt_lines_c, read_vtt_lines. rewrite vtt_header_ok. destruct (vtt_header ls); try reflexivity. rewrite vtt_run_ok. reflexivity. Qed.
Theorem read_vtt_c_ok data : read_vtt_c data = read_vtt data.
Proof. apply read_vtt_lines_c_ok. Qed.

(* ---- the writer ---- *)
(* the index loops of the writer are the structural iterations of Model/Vtt.v *)
Lemma common_prefix_nil_r a : common_prefix a [] = O.
Proof. destruct a; reflexivity. Qed.
Lemma common_prefix_loop_ok fuel : forall n a b, (length a - n <= fuel)%nat ->
  common_prefix_loop_c fuel n a b = Ok (n + common_prefix (skipn n a) (skipn n b))%nat.
Proof.
  induction fuel as [|fuel IH]; intros n a b Hf.
  - cbn [common_prefix_loop_c]. rewrite (skipn_all2 a) by lia. cbn [common_prefix]. f_equal; lia.
  - cbn [common_prefix_loop_c]. destruct (Nat.ltb n (length a)) eqn:Ea; cbn [andb].
    + destruct (Nat.ltb n (length b)) eqn:Eb.
      * apply Nat.ltb_lt in Ea, Eb.
        destruct (nth_error a n) as [x|] eqn:Ex; [|apply nth_error_None in Ex; lia].
        destruct (nth_error b n) as [y|] eqn:Ey; [|apply nth_error_None in Ey; lia].
        unfold index. rewrite Ex, Ey. cbn [bind]. rewrite (skipn_nth a n x Ex), (skipn_nth b n y Ey). cbn [common_prefix].
        destruct (str_eqb (tag_start x) (tag_start y)); [rewrite IH by lia; f_equal; lia | f_equal; lia].
      * apply Nat.ltb_ge in Eb. rewrite (skipn_all2 b) by lia. rewrite common_prefix_nil_r. f_equal; lia.
    + apply Nat.ltb_ge in Ea. rewrite (skipn_all2 a) by lia. cbn [common_prefix]. f_equal; lia.
Qed.
Lemma common_prefix_c_ok a b : common_prefix_c a b = Ok (common_prefix a b).
Proof. unfold common_prefix_c. rewrite common_prefix_loop_ok by lia. reflexivity. Qed.
Lemma tags_open_ok fuel : forall idx tags, (length tags - idx <= fuel)%nat ->
  tags_open_c fuel idx tags = Ok (concat (map tag_start (skipn idx tags))).
Proof.
  induction fuel as [|fuel IH]; intros idx tags Hf.
  - cbn [tags_open_c]. rewrite skipn_all2 by lia. reflexivity.
  - cbn [tags_open_c]. destruct (Nat.ltb idx (length tags)) eqn:E.
    + apply Nat.ltb_lt in E. destruct (nth_error tags idx) as [t|] eqn:Et; [|apply nth_error_None in Et; lia].
      unfold index. rewrite Et. cbn [bind]. rewrite IH by lia. cbn [bind]. rewrite (skipn_nth tags idx t Et). reflexivity.
    + apply Nat.ltb_ge in E. rewrite skipn_all2 by lia. reflexivity.
Qed.
Lemma firstn_S_nth {A} (l : list A) i x : nth_error l i = Some x -> firstn (S i) l = firstn i l ++ [x].
Proof.
  revert i. induction l as [|y l IH]; intros i H; [destruct i; discriminate|]. destruct i as [|i].
  - cbn in H. injection H as ->. reflexivity.
  - cbn [nth_error] in H. change (firstn (S (S i)) (y :: l)) with (y :: firstn (S i) l). rewrite (IH i H). reflexivity.
Qed.
Lemma tags_close_ok k : forall left tags, (k <= length tags)%nat ->
  tags_close_c k left tags = Ok (concat (map tag_end (rev (skipn left (firstn k tags))))).
Proof.
  induction k as [|idx IH]; intros left tags Hk.
  - cbn [tags_close_c firstn]. rewrite skipn_nil. reflexivity.
  - cbn [tags_close_c]. destruct (nth_error tags idx) as [t|] eqn:Et; [|apply nth_error_None in Et; lia].
    rewrite (firstn_S_nth tags idx t Et). destruct (Nat.leb left idx) eqn:E.
    + apply Nat.leb_le in E. unfold index. rewrite Et. cbn [bind]. rewrite IH by lia. cbn [bind].
      rewrite skipn_app, firstn_length, Nat.min_l by lia. replace (left - idx)%nat with O by lia. cbn [skipn].
      rewrite rev_app_distr. reflexivity.
    + apply Nat.leb_gt in E. rewrite skipn_all2; [reflexivity|]. rewrite app_length, firstn_length, Nat.min_l by lia. cbn [length]. lia.
Qed.
Lemma vrun_bytes_ok prev next r : vrun_bytes_c prev next r = Ok (vrun_bytes prev next r).
Proof.
  unfold vrun_bytes_c, vrun_bytes, run_tags.
  assert (Ec : (if is_some (vr_color r) then do c <- deref (vr_color r) 674; Ok (css_color c) else Ok []) =
               Ok (match vr_color r with Some c => css_color c | None => [] end)) by (destruct (vr_color r); reflexivity).
  assert (Et : (if is_some (vr_tags r) then deref (vr_tags r) 685 else Ok []) =
               Ok (match vr_tags r with Some t => t | None => [] end)) by (destruct (vr_tags r); reflexivity).
  rewrite Ec, Et. cbn [bind]. set (tags := match vr_tags r with Some t => t | None => [] end).
  assert (Eo : (if is_some prev then do p <- deref prev 688;
                  if is_some (vr_tags p) then do pt <- deref (vr_tags p) 689; common_prefix_c pt tags else Ok O else Ok O) =
               Ok (match prev with Some p => match vr_tags p with Some pt => common_prefix pt tags | None => O end | None => O end)).
  { destruct prev as [p|]; cbn [is_some deref bind]; [|reflexivity].
    destruct (vr_tags p) as [pt|]; cbn [is_some deref bind]; [apply common_prefix_c_ok | reflexivity]. }
  assert (El : (if is_some next then do n <- deref next 691;
                  if is_some (vr_tags n) then do nt <- deref (vr_tags n) 692; common_prefix_c tags nt else Ok O else Ok O) =
               Ok (match next with Some n => match vr_tags n with Some nt => common_prefix tags nt | None => O end | None => O end)).
  { destruct next as [n|]; cbn [is_some deref bind]; [|reflexivity].
    destruct (vr_tags n) as [nt|]; cbn [is_some deref bind]; [apply common_prefix_c_ok | reflexivity]. }
  rewrite Eo, El. cbn [bind]. rewrite tags_open_ok by lia. cbn [bind]. rewrite tags_close_ok by lia. cbn [bind].
  rewrite firstn_all. reflexivity.
Qed.
Definition prev_at (items : list vrun) (idx : nat) : option vrun := match idx with O => None | S k => nth_error items k end.
Lemma vruns_loop_ok fuel : forall idx items, (length items - idx <= fuel)%nat ->
  vruns_loop_c fuel idx items = Ok (vruns_bytes (prev_at items idx) (skipn idx items)).
Proof.
  induction fuel as [|fuel IH]; intros idx items Hf.
  - cbn [vruns_loop_c]. rewrite skipn_all2 by lia. reflexivity.
  - cbn [vruns_loop_c]. destruct (Nat.ltb idx (length items)) eqn:E.
    + apply Nat.ltb_lt in E. destruct (nth_error items idx) as [cur|] eqn:Ecur; [|apply nth_error_None in Ecur; lia].
      assert (Ep : (if Nat.ltb 0 idx then do k <- idx_pred idx 659; do p <- index items k 659; Ok (Some p) else Ok None) =
                   Ok (prev_at items idx)).
      { destruct idx as [|k]; [reflexivity|]. cbn [Nat.ltb Nat.leb idx_pred bind prev_at].
        destruct (nth_error items k) as [p|] eqn:Ek; [|apply nth_error_None in Ek; lia]. unfold index. rewrite Ek. reflexivity. }
      assert (En : (if Nat.ltb idx (length items - 1) then do n <- index items (S idx) 662; Ok (Some n) else Ok None) =
                   Ok (match skipn (S idx) items with n :: _ => Some n | [] => None end)).
      { destruct (Nat.ltb idx (length items - 1)) eqn:E1.
        - apply Nat.ltb_lt in E1. destruct (nth_error items (S idx)) as [n|] eqn:Es; [|apply nth_error_None in Es; lia].
          unfold index. rewrite Es. cbn [bind]. rewrite (skipn_nth items (S idx) n Es). reflexivity.
        - apply Nat.ltb_ge in E1. rewrite skipn_all2 by lia. reflexivity. }
      rewrite Ep, En. cbn [bind]. unfold index. rewrite Ecur. cbn [bind]. rewrite vrun_bytes_ok. cbn [bind].
      rewrite IH by lia. cbn [bind]. rewrite (skipn_nth items idx cur Ecur). cbn [vruns_bytes prev_at]. rewrite Ecur. reflexivity.
    + apply Nat.ltb_ge in E. rewrite skipn_all2 by lia. reflexivity.
Qed.
Lemma vline_bytes_ok l : vline_bytes_c l = Ok (vline_bytes l).
Proof. unfold vline_bytes_c, vline_bytes. rewrite vruns_loop_ok by lia. reflexivity. Qed.
Lemma vlines_bytes_ok ls : vlines_bytes_c ls = Ok (concat (map vline_bytes ls)).
Proof. induction ls as [|l t IH]; [reflexivity|]. cbn [vlines_bytes_c map concat]. rewrite vline_bytes_ok, IH. reflexivity. Qed.
Lemma vitem_settings_ok it : vitem_settings_c it = Ok (vitem_settings it).
Proof.
  unfold vitem_settings_c, vitem_settings. destruct (vi_set it) as [s|]; cbn [is_some deref bind]; [|reflexivity].
  destruct (vi_fb it) as [fb|]; destruct (vi_region it) as [id|]; cbn [is_some deref bind]; reflexivity.
Qed.
Lemma vregion_bytes_ok rg : vregion_bytes_c rg = Ok (vregion_bytes rg).
Proof.
  unfold vregion_bytes_c, vregion_bytes. destruct (rg_attr rg) as [a|]; destruct (rg_fb rg) as [fb|]; cbn [is_some deref bind]; reflexivity.
Qed.
Lemma vitems_bytes_ok l : forall k, vitems_bytes_c k l = Ok (vitems_bytes k l).
Proof.
  induction l as [|it r IH]; intros k; [reflexivity|]. cbn [vitems_bytes_c vitems_bytes].
  rewrite vitem_settings_ok, vlines_bytes_ok, IH. reflexivity.
Qed.
Lemma regions_bytes_ok d ids : regions_bytes_c d ids =
  Ok (concat (map (fun id => match aget id (vd_regions d) with Some rg => vregion_bytes rg | None => [] end) ids)).
Proof.
  induction ids as [|id r IH]; [reflexivity|]. cbn [regions_bytes_c map concat]. rewrite IH.
  destruct (aget id (vd_regions d)) as [rg|]; [rewrite vregion_bytes_ok|]; reflexivity.
Qed.
Lemma styles_ok d ids : styles_c d ids =
  Ok (flat_map (fun id => match aget id (vd_styles d) with Some (Some l) => l | _ => [] end) ids).
Proof.
  induction ids as [|id r IH]; [reflexivity|]. cbn [styles_c flat_map]. rewrite IH.
  destruct (aget id (vd_styles d)) as [[l|]|]; reflexivity.
Qed.
Lemma vitems_bytes_nonnil k it r : vitems_bytes k (it :: r) <> [].
Proof.
  cbn [vitems_bytes]. intros E. apply app_eq_nil in E. destruct E as [_ E]. apply app_eq_nil in E. destruct E as [E _].
  exact (itoa_nonnil _ E).
Qed.
(* THE CHECKED WRITER AGREES WITH THE WRITER OF THE FIDELITY THEOREMS *)
Theorem write_vtt_c_ok d so ro : write_vtt_c d so ro = write_vtt d so ro.
Proof.
  unfold write_vtt_c, write_vtt. destruct (vd_items d) as [|it r] eqn:Ei; [reflexivity|]. cbn [length Nat.eqb].
  assert (Ets : (if is_some (vd_tsmap d) then do m <- deref (vd_tsmap d) 483; Ok ([10] ++ tsmap_string m) else Ok []) =
                Ok (match vd_tsmap d with Some m => [10] ++ tsmap_string m | None => [] end)).
  { destruct (vd_tsmap d); reflexivity. }
  rewrite Ets, styles_ok, regions_bytes_ok, vitems_bytes_ok. cbn [bind].
  apply slice_to_pred_removelast. unfold p_webvtt. discriminate.
Qed.

(* ---- totality, now with content: no panic site of webvtt.go is reachable ---- *)
Lemma region_parts_no_panic parts : forall id a p, region_parts parts id a <> Panic p.
Proof.
  induction parts as [|x r IH]; intros id a p; [discriminate|]. cbn [region_parts].
  destruct (Str.split [61] x) as [|k [|v rest]]; try discriminate.
  destruct (str_eqb k k_id); [apply IH|]. destruct (str_eqb k k_lines); [destruct (atoi v); [apply IH | discriminate]|].
  destruct (str_eqb k k_anchor); [apply IH|]. destruct (str_eqb k k_scroll); [apply IH|].
  destruct (str_eqb k k_vanchor); [apply IH|]. destruct (str_eqb k k_width); apply IH.
Qed.
Lemma cue_settings_no_panic fs : forall regs s reg p, cue_settings fs regs s reg <> Panic p.
Proof.
  induction fs as [|f r IH]; intros regs s reg p; [discriminate|]. cbn [cue_settings].
  destruct (Str.split [58] f) as [|k [|v rest]]; try discriminate.
  destruct (str_eqb k k_align); [apply IH|]. destruct (str_eqb k k_line); [apply IH|]. destruct (str_eqb k k_position); [apply IH|].
  destruct (str_eqb k k_regionk); [destruct (aget v regs); [apply IH | discriminate]|].
  destruct (str_eqb k k_size); [apply IH|]. destruct (str_eqb k k_vertical); apply IH.
Qed.
Lemma vtt_step_c_no_panic s raw p : vtt_step_c s raw <> Panic p.
Proof.
  rewrite vtt_step_ok. unfold vtt_step. destruct (negb (utf8_valid _)); [discriminate|]. destruct (has_prefix p_note _); [discriminate|].
  destruct (trim_space raw) as [|c L]; [discriminate|].
  destruct (has_prefix p_region _).
  { destruct (region_parts _ _ _) as [[id a]|k|q] eqn:E; try discriminate. exfalso. exact (region_parts_no_panic _ _ _ _ E). }
  destruct (has_prefix p_style _); [destruct (v_styles s); discriminate|].
  destruct (contains arrow _).
  { destruct (Str.split arrow _) as [|l [|r rest]]; try discriminate. destruct (fields r); [discriminate|].
    destruct (parse_vtt l); [|discriminate]. destruct (parse_vtt _); [|discriminate].
    destruct (cue_settings _ _ _ _) as [[st reg]|k|q] eqn:E; try discriminate. exfalso. exact (cue_settings_no_panic _ _ _ _ _ E). }
  destruct (has_prefix p_tsmap _); [destruct (cur_has_lines s); [discriminate|]; destruct (parse_tsmap _); discriminate|].
  destruct (v_block s); try discriminate. destruct (parse_text_vtt _ _) as [ln tags']. destruct (vl_runs ln); [discriminate|].
  destruct (v_cur s); discriminate.
Qed.
Theorem read_vtt_lines_c_no_panic ls e p : read_vtt_lines_c ls e <> Panic p.
Proof.
  unfold read_vtt_lines_c.
  assert (Hh : forall l q, vtt_header_c l <> Panic q).
  { induction l as [|x r IH]; intros q; [discriminate|]. cbn [vtt_header_c]. destruct (negb _); [discriminate|].
    destruct (fields _) as [|f fs]; [apply IH|]. change (Nat.ltb 0 (length (f :: fs))) with true. cbv iota.
    unfold index. cbn [nth_error bind]. destruct (str_eqb f p_webvtt); [discriminate | apply IH]. }
  assert (Hr : forall l s q, vtt_run_c s l <> Panic q).
  { induction l as [|x r IH]; intros s q; [discriminate|]. cbn [vtt_run_c].
    destruct (vtt_step_c s x) eqn:E; [apply IH | discriminate | exfalso; exact (vtt_step_c_no_panic _ _ _ E)]. }
  destruct (vtt_header_c ls) as [body|k|q] eqn:E1; [|discriminate | exfalso; exact (Hh _ _ E1)].
  destruct (vtt_run_c vstate0 body) as [s|k|q] eqn:E2; [destruct e; discriminate | discriminate | exfalso; exact (Hr _ _ _ E2)].
Qed.
Theorem write_vtt_c_no_panic d so ro p : write_vtt_c d so ro <> Panic p.
Proof. rewrite write_vtt_c_ok. unfold write_vtt. destruct (vd_items d); discriminate. Qed.

(* ---- nil elements inside Items: skipped (nonNilItems) ---- *)
Theorem write_vtt_items_c_no_panic items d so ro p : write_vtt_items_c items d so ro <> Panic p.
Proof. apply write_vtt_c_no_panic. Qed.
