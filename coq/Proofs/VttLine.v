(* WebVTT proofs, part 2: a written cue-text line is read back (statement 2). *)
From Coq Require Import List ZArith NArith Bool Lia Arith.
From Astisub Require Import Kit.Base Kit.Str Kit.Html Kit.Scan Model.Dur Model.Srt Model.Vtt
  Proofs.DurProofs Proofs.ScanProofs Proofs.SrtEscProofs Proofs.VttBase.
Import ListNotations.
Open Scope N_scope.

(* ================= character classes ================= *)
(* bytes allowed in a tag name (after its first letter) and in a class: no '.', no tag white space, no '/', no '>' *)
Definition name_char (c : N) : bool := negb ((c =? 46) || is_tag_ws c || (c =? 47) || (c =? 62)).
(* bytes allowed in an annotation / a voice name: no '/', '>', and no quote (the HTML tokenizer would read a quoted attribute value) *)
Definition annot_char (c : N) : bool := negb ((c =? 47) || (c =? 62) || (c =? 34) || (c =? 39)).
(* an annotation / voice name: allowed bytes only, and no surrounding white space (the reader trims it) *)
Definition annot_ok (a : str) : bool := forallb annot_char a && str_eqb (trim_space a) a.
Definition tag_ok (t : vtag) : bool :=
  match vt_name t with c :: r => is_letter c && forallb name_char r | [] => false end &&
  forallb (fun w => match w with [] => false | _ => forallb name_char w end) (vt_classes t) &&
  annot_ok (vt_annot t).

Lemma re_ws_tag_ws c : re_ws c = is_tag_ws c.
Proof. unfold re_ws, is_tag_ws. destruct (c =? 32), (c =? 9), (c =? 10), (c =? 12), (c =? 13); reflexivity. Qed.

Lemma tag_ws_ascii_space c : is_tag_ws c = true -> is_ascii_space c = true.
Proof.
  unfold is_tag_ws, is_ascii_space. intros H.
  repeat (apply orb_true_iff in H; destruct H as [H|H]); apply N.eqb_eq in H; subst c; reflexivity.
Qed.

Lemma annot_ok_parts a : annot_ok a = true ->
  forallb annot_char a = true /\ trim_space a = a /\ match a with c :: _ => is_tag_ws c = false | [] => True end.
Proof.
  unfold annot_ok. intros H. apply andb_true_iff in H. destruct H as [H1 H2]. apply str_eqb_eq in H2.
  split; [exact H1|]. split; [exact H2|]. destruct a as [|c r]; [exact I|].
  pose proof (trim_space_fixed_hd c r H2) as E. destruct (is_tag_ws c) eqn:Ew; [|reflexivity].
  apply tag_ws_ascii_space in Ew. congruence.
Qed.

Lemma is_letter_range c : is_letter c = true -> (65 <= c <= 90) \/ (97 <= c <= 122).
Proof.
  unfold is_letter. intros H. apply orb_true_iff in H. destruct H as [H|H]; apply andb_true_iff in H; destruct H as [H1 H2];
    apply N.leb_le in H1; apply N.leb_le in H2; [left | right]; split; assumption.
Qed.

Lemma eqb_false_of_neq (c k : N) : c <> k -> (c =? k) = false.
Proof. intros H. apply N.eqb_neq. exact H. Qed.

Lemma is_letter_name_char c : is_letter c = true -> name_char c = true.
Proof.
  intros H. apply is_letter_range in H. unfold name_char, is_tag_ws.
  rewrite !eqb_false_of_neq by lia. reflexivity.
Qed.

Lemma is_letter_not c k : is_letter c = true -> is_letter k = false -> (c =? k) = false.
Proof. intros H Hk. apply N.eqb_neq. intros E. subst k. rewrite H in Hk. discriminate. Qed.

(* a name byte is none of the stop bytes of [read_name] *)
Definition rn_char (c : N) : bool := negb (is_tag_ws c || (c =? 47) || (c =? 62)).
Lemma name_char_rn c : name_char c = true -> rn_char c = true.
Proof.
  unfold name_char, rn_char. intros H. apply negb_true_iff in H. apply negb_true_iff.
  apply orb_false_iff in H. destruct H as [H H3]. apply orb_false_iff in H. destruct H as [H H2].
  apply orb_false_iff in H. destruct H as [H0 H1]. rewrite H1, H2, H3. reflexivity.
Qed.

(* ================= suffixes ================= *)
Definition sfx (a a1 : str) : Prop := exists p, a = p ++ a1.
Lemma sfx_refl a : sfx a a. Proof. exists []. reflexivity. Qed.
Lemma sfx_trans a b c : sfx a b -> sfx b c -> sfx a c.
Proof. intros [p ->] [q ->]. exists (p ++ q). rewrite app_assoc. reflexivity. Qed.
Lemma sfx_cons x a b : sfx a b -> sfx (x :: a) b.
Proof. intros [p ->]. exists (x :: p). reflexivity. Qed.
Lemma sfx_len a b : sfx a b -> (length b <= length a)%nat.
Proof. intros [p ->]. rewrite app_length. lia. Qed.
Lemma sfx_forallb (f : N -> bool) a b : sfx a b -> forallb f a = true -> forallb f b = true.
Proof. intros [p ->] H. rewrite forallb_app in H. apply andb_true_iff in H. tauto. Qed.

(* ================= the HTML tag reader on a well-formed tag ================= *)
Lemma gt_not_ws : is_tag_ws 62 = false. Proof. reflexivity. Qed.

Lemma read_name_gt x rest acc : forallb rn_char x = true ->
  read_name (x ++ 62 :: rest) acc = Some (rev acc ++ x, 62 :: rest).
Proof.
  revert acc. induction x as [|c x IH]; intros acc H.
  - cbn [app read_name]. rewrite gt_not_ws. change ((62 =? SLASH) || (62 =? GT)) with true. cbv iota. rewrite app_nil_r. reflexivity.
  - cbn [forallb] in H. apply andb_true_iff in H. destruct H as [Hc Hx]. unfold rn_char in Hc. apply negb_true_iff in Hc.
    apply orb_false_iff in Hc. destruct Hc as [Hc H3]. apply orb_false_iff in Hc. destruct Hc as [H1 H2].
    cbn [app read_name]. rewrite H1. unfold SLASH, GT. rewrite H2, H3. cbn [orb]. rewrite (IH (c :: acc) Hx).
    cbn [rev]. rewrite <- app_assoc. reflexivity.
Qed.

Lemma read_name_ws x w rest acc : forallb rn_char x = true -> is_tag_ws w = true ->
  read_name (x ++ w :: rest) acc = Some (rev acc ++ x, rest).
Proof.
  revert acc. induction x as [|c x IH]; intros acc H Hw.
  - cbn [app read_name]. rewrite Hw. rewrite app_nil_r. reflexivity.
  - cbn [forallb] in H. apply andb_true_iff in H. destruct H as [Hc Hx]. unfold rn_char in Hc. apply negb_true_iff in Hc.
    apply orb_false_iff in Hc. destruct Hc as [Hc H3]. apply orb_false_iff in Hc. destruct Hc as [H1 H2].
    cbn [app read_name]. rewrite H1. unfold SLASH, GT. rewrite H2, H3. cbn [orb]. rewrite (IH (c :: acc) Hx Hw).
    cbn [rev]. rewrite <- app_assoc. reflexivity.
Qed.

Lemma annot_char_facts c : annot_char c = true -> (c =? 47) = false /\ (c =? 62) = false /\ (c =? 34) = false /\ (c =? 39) = false.
Proof.
  unfold annot_char. intros H. apply negb_true_iff in H. apply orb_false_iff in H. destruct H as [H H4].
  apply orb_false_iff in H. destruct H as [H H3]. apply orb_false_iff in H. destruct H as [H1 H2]. auto.
Qed.

Lemma skip_ws_spec a rest : exists a1, skip_ws (a ++ 62 :: rest) = a1 ++ 62 :: rest /\ sfx a a1.
Proof.
  induction a as [|c a IH].
  - exists []. split; [reflexivity | apply sfx_refl].
  - cbn [app skip_ws]. destruct (is_tag_ws c).
    + destruct IH as (a1 & E & S). exists a1. split; [exact E | apply sfx_cons; exact S].
    + exists (c :: a). split; [reflexivity | apply sfx_refl].
Qed.

Lemma read_key_spec a rest acc : forallb annot_char a = true ->
  exists k a1, read_key (a ++ 62 :: rest) acc = Some (k, a1 ++ 62 :: rest) /\ sfx a a1.
Proof.
  revert acc. induction a as [|c a IH]; intros acc H.
  - exists (rev acc), []. split; [reflexivity | apply sfx_refl].
  - cbn [forallb] in H. apply andb_true_iff in H. destruct H as [Hc Ha].
    cbn [app read_key]. destruct (is_tag_ws c || (c =? SLASH)).
    + exists (rev acc), a. split; [reflexivity | apply sfx_cons, sfx_refl].
    + destruct ((c =? EQ) || (c =? GT)).
      * exists (rev acc), (c :: a). split; [reflexivity | apply sfx_refl].
      * destruct (IH (c :: acc) Ha) as (k & a1 & E & S). exists k, a1. split; [exact E | apply sfx_cons; exact S].
Qed.

Lemma read_bare_spec a rest acc : forallb annot_char a = true ->
  exists k a1, read_bare (a ++ 62 :: rest) acc = Some (k, a1 ++ 62 :: rest) /\ sfx a a1.
Proof.
  revert acc. induction a as [|c a IH]; intros acc H.
  - exists (rev acc), []. split; [reflexivity | apply sfx_refl].
  - cbn [forallb] in H. apply andb_true_iff in H. destruct H as [Hc Ha].
    cbn [app read_bare]. destruct (is_tag_ws c).
    + exists (rev acc), a. split; [reflexivity | apply sfx_cons, sfx_refl].
    + destruct (c =? GT).
      * exists (rev acc), (c :: a). split; [reflexivity | apply sfx_refl].
      * destruct (IH (c :: acc) Ha) as (k & a1 & E & S). exists k, a1. split; [exact E | apply sfx_cons; exact S].
Qed.

(* [read_val]: the rest is a suffix; if the input starts with '=' the '=' is consumed *)
Lemma read_val_spec a rest : forallb annot_char a = true ->
  exists v a1, read_val (a ++ 62 :: rest) = Some (v, a1 ++ 62 :: rest) /\ sfx a a1 /\
               (forall a', a = 61 :: a' -> sfx a' a1).
Proof.
  intros H. unfold read_val.
  destruct (skip_ws_spec a rest) as (a0 & E0 & S0). rewrite E0.
  pose proof (sfx_forallb _ _ _ S0 H) as H0.
  destruct a0 as [|c a0'].
  - cbn [app]. change (negb (62 =? EQ)) with true. cbv iota. exists [], []. split; [reflexivity|]. split; [exact S0|].
    intros a' Ea. subst a. destruct S0 as [p Ep]. rewrite app_nil_r in Ep. subst p.
    (* skip_ws (61 :: ...) does not skip *) cbn [app skip_ws] in E0. change (is_tag_ws 61) with false in E0. cbv iota in E0. discriminate.
  - cbn [app]. destruct (c =? EQ) eqn:Ec; cbn [negb].
    + cbn [forallb] in H0. apply andb_true_iff in H0. destruct H0 as [_ H0'].
      destruct (skip_ws_spec a0' rest) as (a2 & E2 & S2). rewrite E2.
      pose proof (sfx_forallb _ _ _ S2 H0') as H2.
      assert (Sa : sfx a a2). { eapply sfx_trans; [exact S0|]. apply sfx_cons. exact S2. }
      assert (Sp : forall a', a = 61 :: a' -> sfx a' a2).
      { intros a' Ea. subst a. cbn [app skip_ws] in E0. change (is_tag_ws 61) with false in E0. cbv iota in E0.
        injection E0 as E0a E0b. apply app_inv_tail in E0b. subst a0'. exact S2. }
      destruct a2 as [|q a2'].
      * cbn [app]. change (62 =? GT) with true. cbv iota. exists [], []. split; [reflexivity|]. split; assumption.
      * cbn [app]. cbn [forallb] in H2. apply andb_true_iff in H2. destruct H2 as [Hq H2'].
        destruct (annot_char_facts q Hq) as (_ & Q2 & Q3 & Q4). unfold GT. rewrite Q2, Q3, Q4. cbn [orb].
        change (q :: a2' ++ 62 :: rest) with ((q :: a2') ++ 62 :: rest).
        destruct (read_bare_spec (q :: a2') rest []) as (k & a3 & E3 & S3); [cbn [forallb]; rewrite Hq, H2'; reflexivity|].
        exists k, a3. split; [exact E3|]. split; [eapply sfx_trans; eassumption|].
        intros a' Ea. eapply sfx_trans; [apply Sp; exact Ea | exact S3].
    + exists [], (c :: a0'). split; [reflexivity|]. split; [exact S0|].
      intros a' Ea. subst a. cbn [app skip_ws] in E0. change (is_tag_ws 61) with false in E0. cbv iota in E0.
      injection E0 as E0a E0b. subst c. discriminate.
Qed.

Lemma read_attrs_spec : forall n a rest acc fuel, (length a <= n)%nat -> (n < fuel)%nat -> forallb annot_char a = true ->
  exists attrs, read_attrs fuel (a ++ 62 :: rest) acc = Some (attrs, rest).
Proof.
  induction n as [|n IH]; intros a rest acc fuel Hn Hf Ha.
  - destruct a; [|cbn [length] in Hn; lia]. destruct fuel; [lia|]. cbn [app read_attrs]. change (62 =? GT) with true. cbv iota.
    eexists. reflexivity.
  - destruct fuel as [|fuel]; [lia|]. destruct a as [|c a'].
    + cbn [app read_attrs]. change (62 =? GT) with true. cbv iota. eexists. reflexivity.
    + pose proof Ha as Ha0. cbn [forallb] in Ha. apply andb_true_iff in Ha. destruct Ha as [Hc Ha'].
      destruct (annot_char_facts c Hc) as (C1 & C2 & _ & _).
      cbn [app read_attrs]. unfold GT at 1. rewrite C2.
      change (c :: a' ++ 62 :: rest) with ((c :: a') ++ 62 :: rest).
      (* progress: the remaining annotation after key and value is a suffix of a' *)
      assert (P : exists k v a2, read_key ((c :: a') ++ 62 :: rest) [] = Some (k, a2 ++ 62 :: rest) /\
                                 exists a3, read_val (a2 ++ 62 :: rest) = Some (v, a3 ++ 62 :: rest) /\ sfx a' a3).
      { cbn [app read_key]. unfold SLASH. rewrite C1. rewrite orb_false_r.
        destruct (is_tag_ws c) eqn:Ews.
        - destruct (read_val_spec a' rest Ha') as (v & a3 & E3 & S3 & _).
          exists [], v, a'. split; [reflexivity|]. exists a3. split; [exact E3 | exact S3].
        - unfold GT. rewrite C2. rewrite orb_false_r. destruct (c =? EQ) eqn:Eeq.
          + apply N.eqb_eq in Eeq. unfold EQ in Eeq. subst c.
            destruct (read_val_spec (61 :: a') rest Ha0) as (v & a3 & E3 & _ & S3).
            exists [], v, (61 :: a'). split; [reflexivity|]. exists a3. split; [exact E3 | apply S3; reflexivity].
          + destruct (read_key_spec a' rest [c] Ha') as (k & a2 & E2 & S2).
            destruct (read_val_spec a2 rest (sfx_forallb _ _ _ S2 Ha')) as (v & a3 & E3 & S3 & _).
            exists k, v, a2. split; [exact E2|]. exists a3. split; [exact E3 | eapply sfx_trans; eassumption]. }
      destruct P as (k & v & a2 & E2 & a3 & E3 & S3). rewrite E2, E3.
      destruct (skip_ws_spec a3 rest) as (a4 & E4 & S4). rewrite E4.
      assert (S : sfx a' a4) by (eapply sfx_trans; eassumption).
      pose proof (sfx_len _ _ S) as L. pose proof (sfx_forallb _ _ _ S Ha') as Ha4.
      destruct (IH a4 rest (match k with [] => acc | _ :: _ => (to_lower k, v) :: acc end) fuel) as (attrs & E);
        [cbn [length] in Hn; lia | lia | exact Ha4 |].
      exists attrs. destruct a4; cbn [app] in *; exact E.
Qed.

(* the tag reader on  nm [ ' ' annot ] '>' rest *)
Definition ann_part (a : str) : str := match a with [] => [] | _ => 32 :: a end.

Lemma read_tag_spec nm a rest : forallb rn_char nm = true -> annot_ok a = true ->
  exists attrs, read_tag (nm ++ ann_part a ++ 62 :: rest) = Some (to_lower nm, attrs, rest).
Proof.
  intros Hn Ha. destruct (annot_ok_parts a Ha) as (Hac & _ & Hhd).
  unfold read_tag. destruct a as [|c a'].
  - cbn [ann_part app]. rewrite (read_name_gt nm rest [] Hn). cbn [rev app skip_ws]. rewrite gt_not_ws.
    destruct (read_attrs_spec 0 [] rest [] (S (length (62 :: rest)))) as (attrs & E); [cbn [length]; lia | lia | reflexivity |].
    cbn [app] in E. rewrite E. exists attrs. reflexivity.
  - cbn [ann_part]. change ((32 :: c :: a') ++ 62 :: rest) with (32 :: ((c :: a') ++ 62 :: rest)).
    rewrite (read_name_ws nm 32 _ [] Hn eq_refl). cbn [rev app skip_ws].
    rewrite Hhd.
    change (c :: a' ++ 62 :: rest) with ((c :: a') ++ 62 :: rest).
    destruct (read_attrs_spec (length (c :: a')) (c :: a') rest [] (S (length ((c :: a') ++ 62 :: rest)))) as (attrs & E);
      [lia | rewrite app_length; cbn [length]; lia | exact Hac |].
    rewrite E. exists attrs. reflexivity.
Qed.

Lemma consumed_app raw rest : consumed (raw ++ rest) rest = raw.
Proof.
  unfold consumed. rewrite app_length. replace (length raw + length rest - length rest)%nat with (length raw + 0)%nat by lia.
  rewrite firstn_app_2. cbn [firstn]. apply app_nil_r.
Qed.

(* ================= the tokenizer + reader in continuation style ================= *)
Definition sty (tags : list vtag) : option (list vtag) := match tags with [] => None | _ => Some tags end.
Definition flush_runs (cur : str) (tags : list vtag) (acc : list vrun) : list vrun :=
  match cur with [] => acc | _ => acc ++ parse_text_token (sty tags) (rev cur) end.
(* [Run s cur tags voice acc res]: tokenizing [s] with pending text [cur] (reversed), then reading the tokens from the
   reader state (tags, voice, acc), gives [res] -- for every sufficient fuel *)
Definition Run (s cur : str) (tags : list vtag) (voice : str) (acc : list vrun) (res : list vrun * str * list vtag) : Prop :=
  forall f, (length s < f)%nat -> vtt_toks (tokenize_fuel f s cur) tags voice acc = res.

Lemma vtt_toks_flush cur b tags voice acc :
  vtt_toks (flush cur ++ b) tags voice acc = vtt_toks b tags voice (flush_runs cur tags acc).
Proof. unfold flush, flush_runs, sty. destruct cur; reflexivity. Qed.

Lemma Run_nil cur tags voice acc : Run [] cur tags voice acc (flush_runs cur tags acc, voice, tags).
Proof.
  intros f Hf. destruct f; [cbn [length] in Hf; lia|]. cbn [tokenize_fuel].
  rewrite <- (app_nil_r (flush cur)). rewrite vtt_toks_flush. reflexivity.
Qed.

Lemma Run_char c s cur tags voice acc res : (c =? 60) = false ->
  Run s (c :: cur) tags voice acc res -> Run (c :: s) cur tags voice acc res.
Proof.
  intros Hc H f Hf. destruct f; [lia|]. cbn [tokenize_fuel]. unfold LT. rewrite Hc. cbn [negb].
  apply H. cbn [length] in Hf. lia.
Qed.

Definition nolt (x : str) : bool := forallb (fun c => negb (c =? 60)) x.

Lemma Run_text x s cur tags voice acc res : nolt x = true ->
  Run s (rev x ++ cur) tags voice acc res -> Run (x ++ s) cur tags voice acc res.
Proof.
  revert cur. induction x as [|c x IH]; intros cur Hx H; [exact H|].
  unfold nolt in Hx. cbn [forallb] in Hx. apply andb_true_iff in Hx. destruct Hx as [Hc Hx]. apply negb_true_iff in Hc.
  cbn [app]. apply Run_char; [exact Hc|]. apply IH; [exact Hx|]. cbn [rev] in H. rewrite <- app_assoc in H. exact H.
Qed.

Lemma is_digit_range d : is_digit d = true -> 48 <= d <= 57.
Proof. unfold is_digit. intros H. apply andb_true_iff in H. destruct H as [H1 H2]. apply N.leb_le in H1. apply N.leb_le in H2. lia. Qed.

Lemma Run_lt_digit d s cur tags voice acc res : is_digit d = true ->
  Run (d :: s) (60 :: cur) tags voice acc res -> Run (60 :: d :: s) cur tags voice acc res.
Proof.
  intros Hd H f Hf. destruct f; [lia|]. cbn [tokenize_fuel]. change (negb (60 =? LT)) with false. cbv iota.
  apply is_digit_range in Hd.
  assert (E1 : is_letter d = false).
  { unfold is_letter. apply orb_false_iff. split; apply andb_false_iff; left; apply N.leb_gt; lia. }
  rewrite E1. unfold SLASH. rewrite !eqb_false_of_neq by lia. cbn [orb].
  apply H. cbn [length] in *. lia.
Qed.

(* a start tag: '<' nm [' ' annot] '>' *)
Lemma rev_last_in (b : str) : b <> [] -> exists x r, rev b = x :: r /\ In x b.
Proof.
  intros H. destruct (@exists_last _ b H) as (b' & z & ->). exists z, (rev b'). split.
  - rewrite rev_app_distr. reflexivity.
  - apply in_or_app. right. left. reflexivity.
Qed.

Lemma tok_start d nm' a rest cur f :
  is_letter d = true -> forallb rn_char (d :: nm') = true -> annot_ok a = true ->
  exists name attrs,
    tokenize_fuel (S f) (60 :: (d :: nm') ++ ann_part a ++ 62 :: rest) cur =
    flush cur ++ HStart name attrs (60 :: (d :: nm') ++ ann_part a ++ [62]) :: tokenize_fuel f rest [].
Proof.
  intros Hd Hn Ha. destruct (read_tag_spec (d :: nm') a rest Hn Ha) as (attrs & E).
  exists (to_lower (d :: nm')), attrs.
  cbn [tokenize_fuel]. change (negb (60 =? LT)) with false. cbv iota.
  change ((d :: nm') ++ ann_part a ++ 62 :: rest) with (d :: (nm' ++ ann_part a ++ 62 :: rest)) at 1. cbv iota. rewrite Hd.
  change (d :: nm' ++ ann_part a ++ 62 :: rest) with ((d :: nm') ++ ann_part a ++ 62 :: rest). rewrite E.
  f_equal.
  replace (60 :: (d :: nm') ++ ann_part a ++ 62 :: rest) with ((60 :: (d :: nm') ++ ann_part a ++ [62]) ++ rest)
    by (cbn [app]; rewrite <- !app_assoc; reflexivity).
  rewrite consumed_app.
  (* not self-closing *)
  assert (Hs : match rev (60 :: (d :: nm') ++ ann_part a ++ [62]) with _ :: x :: _ => x =? SLASH | _ => false end = false).
  { destruct (rev_last_in ((d :: nm') ++ ann_part a)) as (x & r & Er & Hin); [discriminate|].
    replace (60 :: (d :: nm') ++ ann_part a ++ [62]) with ([60] ++ ((d :: nm') ++ ann_part a) ++ [62])
      by (cbn [app]; rewrite <- !app_assoc; reflexivity).
    remember ((d :: nm') ++ ann_part a) as B eqn:EB. rewrite !rev_app_distr. rewrite Er. cbn [rev app]. subst B.
    apply in_app_or in Hin. destruct Hin as [Hin|Hin].
    - rewrite forallb_forall in Hn. specialize (Hn x Hin). unfold rn_char in Hn. apply negb_true_iff in Hn.
      apply orb_false_iff in Hn. destruct Hn as [Hn _]. apply orb_false_iff in Hn. destruct Hn as [_ Hn]. exact Hn.
    - apply annot_ok_parts in Ha. destruct Ha as [Ha _].
      destruct a as [|c a']; [destruct Hin|]. cbn [ann_part] in Hin. destruct Hin as [Hin|Hin]; [subst x; reflexivity|].
      rewrite forallb_forall in Ha. specialize (Ha x Hin). apply annot_char_facts in Ha. tauto. }
  rewrite Hs. reflexivity.
Qed.

(* an end tag: '<' '/' nm '>' *)
Lemma tok_end d nm' rest cur f :
  is_letter d = true -> forallb rn_char (d :: nm') = true ->
  exists name,
    tokenize_fuel (S f) (60 :: 47 :: (d :: nm') ++ 62 :: rest) cur =
    flush cur ++ HEnd name (60 :: 47 :: (d :: nm') ++ [62]) :: tokenize_fuel f rest [].
Proof.
  intros Hd Hn. destruct (read_tag_spec (d :: nm') [] rest Hn eq_refl) as (attrs & E). cbn [ann_part app] in E.
  exists (to_lower (d :: nm')).
  cbn [tokenize_fuel]. change (negb (60 =? LT)) with false. cbv iota.
  change (is_letter 47) with false. cbv iota. change (47 =? SLASH) with true. cbv iota.
  change ((d :: nm') ++ 62 :: rest) with (d :: (nm' ++ 62 :: rest)) at 1. cbv iota.
  unfold GT. rewrite (is_letter_not d 62 Hd eq_refl). rewrite Hd.
  cbn [app]. rewrite E.
  f_equal.
  replace (60 :: 47 :: d :: nm' ++ 62 :: rest) with ((60 :: 47 :: d :: nm' ++ [62]) ++ rest)
    by (cbn [app]; rewrite <- !app_assoc; reflexivity).
  rewrite consumed_app. reflexivity.
Qed.

(* ================= webVTTRegexpTag on a written start tag ================= *)
Lemma span_app_stop (p : N -> bool) x y : forallb p x = true ->
  match y with c :: _ => p c = false | [] => True end -> span p (x ++ y) = (x, y).
Proof.
  intros Hx Hy. induction x as [|c x IH].
  - cbn [app]. destruct y as [|c r]; [reflexivity|]. cbn [span]. rewrite Hy. reflexivity.
  - cbn [forallb] in Hx. apply andb_true_iff in Hx. destruct Hx as [Hc Hx]. cbn [app span]. rewrite Hc, (IH Hx). reflexivity.
Qed.

Definition cls_part (cs : list str) : str := match cs with [] => [] | _ => 46 :: join [46] cs end.

Lemma tag_start_eq t : vt_name t <> [] ->
  tag_start t = 60 :: vt_name t ++ cls_part (vt_classes t) ++ ann_part (vt_annot t) ++ [62].
Proof. unfold tag_start, cls_part, ann_part. destruct (vt_name t); [contradiction|]. intros _. destruct (vt_classes t), (vt_annot t); reflexivity. Qed.

Lemma tag_end_eq t : vt_name t <> [] -> tag_end t = 60 :: 47 :: vt_name t ++ [62].
Proof. unfold tag_end. destruct (vt_name t); [contradiction|]. reflexivity. Qed.

Lemma join_cons sep x r : r <> [] -> join sep (x :: r) = x ++ sep ++ join sep r.
Proof. destruct r; [contradiction | reflexivity]. Qed.

Lemma join_last sep l w : exists y, join sep (l ++ [w]) = y ++ w.
Proof.
  induction l as [|x l IH]; [exists []; reflexivity|]. destruct IH as (y & E).
  cbn [app]. rewrite join_cons by (destruct l; discriminate). rewrite E. exists (x ++ sep ++ y). rewrite <- !app_assoc. reflexivity.
Qed.

Lemma trim_left_byte_keep c x r : x <> c -> trim_left_byte c (x :: r) = x :: r.
Proof. intros H. cbn [trim_left_byte]. rewrite eqb_false_of_neq by exact H. reflexivity. Qed.

Lemma trim_byte_dot c J' J'' z : c <> 46 -> z <> 46 -> c :: J' = J'' ++ [z] -> trim_byte 46 (46 :: c :: J') = c :: J'.
Proof.
  intros Hc Hz E. unfold trim_byte. cbn [trim_left_byte]. change (46 =? 46) with true. cbv iota.
  rewrite eqb_false_of_neq by exact Hc. rewrite E. rewrite rev_app_distr. cbn [rev app].
  rewrite trim_left_byte_keep by exact Hz.
  replace (z :: rev J'') with (rev (J'' ++ [z])) by (rewrite rev_app_distr; reflexivity). apply rev_involutive.
Qed.

Definition word_ok (w : str) : bool := match w with [] => false | _ => forallb name_char w end.

Lemma name_char_not_dot c : name_char c = true -> c <> 46.
Proof.
  unfold name_char. intros H E. subst c. discriminate.
Qed.

Lemma word_ok_no_dot w : word_ok w = true -> ~ In 46 w.
Proof.
  unfold word_ok. destruct w; [discriminate|]. intros H Hin. rewrite forallb_forall in H. specialize (H 46 Hin). discriminate.
Qed.

Lemma classes_roundtrip cs : cs <> [] -> forallb word_ok cs = true ->
  Str.split [46] (trim_byte 46 (46 :: join [46] cs)) = cs.
Proof.
  intros Hne Hok.
  assert (HJ : trim_byte 46 (46 :: join [46] cs) = join [46] cs).
  { destruct (@exists_last _ cs Hne) as (l & w & El).
    assert (Hw : word_ok w = true). { rewrite forallb_forall in Hok. apply Hok. rewrite El. apply in_or_app. right. left. reflexivity. }
    assert (Hwne : w <> []) by (destruct w; [discriminate | discriminate]).
    destruct (@exists_last _ w Hwne) as (w' & z & Ew).
    assert (Hz : z <> 46).
    { intros Ez. apply (word_ok_no_dot w Hw). rewrite Ew, Ez. apply in_or_app. right. left. reflexivity. }
    destruct (join_last [46] l w) as (y & Ey). rewrite <- El in Ey.
    destruct cs as [|w1 r]; [contradiction|].
    assert (Hw1 : word_ok w1 = true) by (cbn [forallb] in Hok; apply andb_true_iff in Hok; tauto).
    destruct w1 as [|c w1']; [discriminate|].
    assert (Hc : c <> 46). { intros Ec. apply (word_ok_no_dot _ Hw1). left. exact Ec. }
    assert (Eh : exists J', join [46] ((c :: w1') :: r) = c :: J').
    { destruct r; [exists w1'; reflexivity|]. rewrite join_cons by discriminate. eexists. reflexivity. }
    destruct Eh as (J' & EJ). rewrite EJ in *.
    apply (trim_byte_dot c J' (y ++ w') z Hc Hz). rewrite Ey, Ew, app_assoc. reflexivity. }
  rewrite HJ, split1. apply split_byte_join; [exact Hne|].
  apply Forall_forall. intros w Hw. apply word_ok_no_dot. rewrite forallb_forall in Hok. apply Hok. exact Hw.
Qed.

Definition p_name (c : N) : bool := negb ((c =? 46) || re_ws c).
Definition p_cls (c : N) : bool := negb (re_ws c).

Lemma name_char_p_name c : name_char c = true -> p_name c = true.
Proof.
  unfold name_char, p_name. rewrite re_ws_tag_ws. intros H. apply negb_true_iff in H. apply negb_true_iff.
  apply orb_false_iff in H. destruct H as [H _]. apply orb_false_iff in H. destruct H as [H _]. exact H.
Qed.
Lemma name_char_p_cls c : name_char c = true -> p_cls c = true.
Proof.
  unfold name_char, p_cls. rewrite re_ws_tag_ws. intros H. apply negb_true_iff in H. apply negb_true_iff.
  apply orb_false_iff in H. destruct H as [H _]. apply orb_false_iff in H. destruct H as [H _]. apply orb_false_iff in H. tauto.
Qed.

Lemma forallb_impl (p q : N -> bool) s : (forall c, p c = true -> q c = true) -> forallb p s = true -> forallb q s = true.
Proof. intros I H. rewrite forallb_forall in *. intros c Hc. apply I, H, Hc. Qed.

Lemma cls_part_p_cls cs : forallb word_ok cs = true -> forallb p_cls (cls_part cs) = true.
Proof.
  intros H. unfold cls_part. destruct cs as [|w r]; [reflexivity|]. set (l := w :: r) in *.
  cbn [forallb]. change (p_cls 46) with true. cbn [andb].
  rewrite forallb_forall. intros c Hc. apply in_join in Hc. destruct Hc as [Hc|(w' & Hw' & Hc)].
  - destruct Hc as [<-|[]]. reflexivity.
  - rewrite forallb_forall in H. specialize (H w' Hw'). unfold word_ok in H. destruct w'; [destruct Hc|].
    rewrite forallb_forall in H. apply name_char_p_cls, H, Hc.
Qed.

Definition tag_name_ok (n : str) : bool := match n with c :: r => is_letter c && forallb name_char r | [] => false end.
Lemma tag_name_ok_chars n : tag_name_ok n = true -> forallb name_char n = true /\ exists d r, n = d :: r /\ is_letter d = true.
Proof.
  unfold tag_name_ok. destruct n as [|c r]; [discriminate|]. intros H. apply andb_true_iff in H. destruct H as [H1 H2].
  split; [cbn [forallb]; rewrite (is_letter_name_char c H1), H2; reflexivity | exists c, r; auto].
Qed.

Lemma tag_ok_parts t : tag_ok t = true ->
  tag_name_ok (vt_name t) = true /\ forallb word_ok (vt_classes t) = true /\ annot_ok (vt_annot t) = true.
Proof.
  unfold tag_ok. intros H. apply andb_true_iff in H. destruct H as [H H3]. apply andb_true_iff in H. destruct H as [H1 H2].
  repeat split; assumption.
Qed.

Lemma annot_ok_hd a : annot_ok a = true -> match a with c :: _ => re_ws c = false | [] => True end.
Proof.
  intros H. apply annot_ok_parts in H. destruct H as (_ & _ & H). destruct a as [|c r]; [exact I|].
  rewrite re_ws_tag_ws. exact H.
Qed.
Lemma annot_ok_trim a : annot_ok a = true -> trim_space a = a.
Proof.
  intros H. apply annot_ok_parts in H. tauto.
Qed.

Lemma vtt_match_tag_start t : tag_ok t = true ->
  vtt_match_tag (tag_start t) = (vt_name t, cls_part (vt_classes t), vt_annot t).
Proof.
  intros H. destruct (tag_ok_parts t H) as (Hn & Hc & Ha).
  destruct (tag_name_ok_chars _ Hn) as (Hnc & d & r & En & Hd).
  rewrite tag_start_eq by (rewrite En; discriminate).
  unfold vtt_match_tag. cbn [tl].
  replace (vt_name t ++ cls_part (vt_classes t) ++ ann_part (vt_annot t) ++ [62])
    with ((vt_name t ++ cls_part (vt_classes t) ++ ann_part (vt_annot t)) ++ [62]) by (rewrite <- !app_assoc; reflexivity).
  rewrite removelast_last.
  pose proof (annot_ok_hd _ Ha) as Hhd. pose proof (cls_part_p_cls _ Hc) as Hpc.
  fold p_name. fold p_cls.
  rewrite (span_app_stop p_name (vt_name t) (cls_part (vt_classes t) ++ ann_part (vt_annot t))).
  2:{ exact (forallb_impl _ _ _ name_char_p_name Hnc). }
  2:{ unfold cls_part, ann_part. destruct (vt_classes t); [destruct (vt_annot t); [exact I | reflexivity] | reflexivity]. }
  destruct (vt_classes t) as [|w cs] eqn:Ecs.
  - cbn [cls_part app]. destruct (vt_annot t) as [|c a'] eqn:Ea.
    + reflexivity.
    + cbn [ann_part]. change (match 32 :: c :: a' with 46 :: _ => span p_cls (32 :: c :: a') | _ => ([], 32 :: c :: a') end)
        with (@nil N, 32 :: c :: a'). cbv iota.
      change (32 :: c :: a') with ([32] ++ c :: a'). rewrite (span_app_stop re_ws [32] (c :: a') eq_refl Hhd). reflexivity.
  - set (l := w :: cs) in *.
    assert (Ecp : cls_part l = 46 :: join [46] l) by reflexivity.
    assert (Em : forall y, match cls_part l ++ y with 46 :: _ => span p_cls (cls_part l ++ y) | _ => ([], cls_part l ++ y) end
                           = span p_cls (cls_part l ++ y)) by (intros y; rewrite Ecp; reflexivity).
    rewrite Em.
    rewrite (span_app_stop p_cls (cls_part l) (ann_part (vt_annot t)) Hpc).
    2:{ unfold ann_part. destruct (vt_annot t); [exact I | reflexivity]. }
    destruct (vt_annot t) as [|c a'] eqn:Ea.
    + reflexivity.
    + cbn [ann_part]. change (32 :: c :: a') with ([32] ++ c :: a'). rewrite (span_app_stop re_ws [32] (c :: a') eq_refl Hhd). reflexivity.
Qed.

Definition parse_tag (raw : str) : vtag :=
  let '(name, cls, annot) := vtt_match_tag raw in
  mkVtag name (match annot with [] => [] | _ => trim_space annot end)
         (match cls with [] => [] | _ => Str.split [46] (trim_byte 46 cls) end).

Lemma parse_tag_start t : tag_ok t = true -> parse_tag (tag_start t) = t.
Proof.
  intros H. unfold parse_tag. rewrite (vtt_match_tag_start t H).
  destruct (tag_ok_parts t H) as (Hn & Hc & Ha). destruct t as [n a cs]. cbn [vt_name vt_annot vt_classes] in *. f_equal.
  - destruct a; [reflexivity|]. apply annot_ok_trim. exact Ha.
  - destruct cs as [|w r]; [reflexivity|]. unfold cls_part. apply classes_roundtrip; [discriminate | exact Hc].
Qed.

Lemma tag_start_inj x y : tag_ok x = true -> tag_ok y = true -> tag_start x = tag_start y -> x = y.
Proof. intros Hx Hy E. rewrite <- (parse_tag_start x Hx), <- (parse_tag_start y Hy), E. reflexivity. Qed.

Lemma vtt_toks_start n at_ raw r tags voice acc :
  vtt_toks (HStart n at_ raw :: r) tags voice acc =
  if str_eqb (vt_name (parse_tag raw)) n_v
  then vtt_toks r tags (match voice with [] => vt_annot (parse_tag raw) | _ => voice end) acc
  else vtt_toks r (tags ++ [parse_tag raw]) voice acc.
Proof.
  cbn [vtt_toks]. unfold parse_tag. destruct (vtt_match_tag raw) as [[name cls] annot]. cbn [vt_name vt_annot]. reflexivity.
Qed.

(* ================= tags in continuation style ================= *)
Lemma cls_part_forall (q : N -> bool) cs : q 46 = true -> (forall c, name_char c = true -> q c = true) ->
  forallb word_ok cs = true -> forallb q (cls_part cs) = true.
Proof.
  intros Hdot Hq H. unfold cls_part. destruct cs as [|w r]; [reflexivity|]. set (l := w :: r) in *.
  cbn [forallb]. rewrite Hdot. cbn [andb].
  rewrite forallb_forall. intros c Hc. apply in_join in Hc. destruct Hc as [Hc|(w' & Hw' & Hc)].
  - destruct Hc as [<-|[]]. exact Hdot.
  - rewrite forallb_forall in H. specialize (H w' Hw'). unfold word_ok in H. destruct w'; [destruct Hc|].
    rewrite forallb_forall in H. apply Hq, H, Hc.
Qed.

Lemma tag_start_nonnil t : tag_ok t = true -> tag_start t <> [].
Proof.
  intros H. destruct (tag_ok_parts t H) as (Hn & _). destruct (tag_name_ok_chars _ Hn) as (_ & d & r & En & _).
  rewrite tag_start_eq by (rewrite En; discriminate). discriminate.
Qed.

Lemma Run_tag t s cur tags voice acc res : tag_ok t = true ->
  Run s [] (if str_eqb (vt_name t) n_v then tags else tags ++ [t])
        (if str_eqb (vt_name t) n_v then match voice with [] => vt_annot t | _ => voice end else voice)
        (flush_runs cur tags acc) res ->
  Run (tag_start t ++ s) cur tags voice acc res.
Proof.
  intros Ht H f Hf. destruct (tag_ok_parts t Ht) as (Hn & Hc & Ha).
  destruct (tag_name_ok_chars _ Hn) as (Hnc & d & r & En & Hd).
  pose proof (parse_tag_start t Ht) as Ept.
  assert (Hlen : (length s < length (tag_start t ++ s))%nat).
  { rewrite app_length. pose proof (tag_start_nonnil t Ht). destruct (tag_start t); [contradiction | cbn [length]; lia]. }
  rewrite tag_start_eq in * by (rewrite En; discriminate).
  destruct f as [|f]; [lia|].
  assert (Hrn : forallb rn_char (d :: (r ++ cls_part (vt_classes t))) = true).
  { change (d :: r ++ cls_part (vt_classes t)) with ((d :: r) ++ cls_part (vt_classes t)). rewrite <- En.
    rewrite forallb_app. rewrite (forallb_impl _ _ _ name_char_rn Hnc).
    rewrite (cls_part_forall rn_char _ eq_refl name_char_rn Hc). reflexivity. }
  destruct (tok_start d (r ++ cls_part (vt_classes t)) (vt_annot t) s cur f Hd Hrn Ha) as (name & attrs & E).
  replace ((60 :: vt_name t ++ cls_part (vt_classes t) ++ ann_part (vt_annot t) ++ [62]) ++ s)
    with (60 :: (d :: r ++ cls_part (vt_classes t)) ++ ann_part (vt_annot t) ++ 62 :: s)
    by (rewrite En; cbn [app]; rewrite <- !app_assoc; reflexivity).
  rewrite E. rewrite vtt_toks_flush, vtt_toks_start.
  replace (60 :: (d :: r ++ cls_part (vt_classes t)) ++ ann_part (vt_annot t) ++ [62])
    with (60 :: vt_name t ++ cls_part (vt_classes t) ++ ann_part (vt_annot t) ++ [62])
    by (rewrite En; cbn [app]; rewrite <- !app_assoc; reflexivity).
  rewrite Ept.
  destruct (str_eqb (vt_name t) n_v); apply H; lia.
Qed.

Lemma Run_endtag t s cur tags voice acc res : tag_name_ok (vt_name t) = true ->
  Run s [] (removelast tags) voice (flush_runs cur tags acc) res ->
  Run (tag_end t ++ s) cur tags voice acc res.
Proof.
  intros Hn H f Hf. destruct (tag_name_ok_chars _ Hn) as (Hnc & d & r & En & Hd).
  rewrite tag_end_eq in * by (rewrite En; discriminate).
  destruct f as [|f]; [lia|].
  assert (Hrn : forallb rn_char (d :: r) = true) by (rewrite <- En; exact (forallb_impl _ _ _ name_char_rn Hnc)).
  destruct (tok_end d r s cur f Hd Hrn) as (name & E).
  replace ((60 :: 47 :: vt_name t ++ [62]) ++ s) with (60 :: 47 :: (d :: r) ++ 62 :: s)
    by (rewrite En; cbn [app]; rewrite <- !app_assoc; reflexivity).
  rewrite E. rewrite vtt_toks_flush. cbn [vtt_toks]. apply H.
  rewrite app_length in Hf. cbn [length] in Hf. lia.
Qed.

Lemma flush_runs_nil tags acc : flush_runs [] tags acc = acc. Proof. reflexivity. Qed.

(* ---- the domain on which the tokenizer model is faithful to golang.org/x/net/html, as conditions on the value written
   (Kit/Html.v [html_simple], Model/Vtt.v [vtt_line_simple]): the element name the HTML tokenizer sees (tag name with
   its dotted classes, lower-cased) is not one of its raw-text elements (script, style, title, textarea, xmp, iframe,
   noembed, noframes, noscript, plaintext: after such a start tag the real tokenizer reads everything up to the
   matching end tag -- for plaintext, up to the end of the line -- as ONE text token, the model does not); an annotation
   has no '&' (the real tokenizer decodes character references inside attribute values) and no CR; no NUL byte. ---- *)
Definition okc (c : N) : bool := negb (c =? 38) && negb (c =? 13).
Definition nonul (s : str) : bool := negb (existsb (N.eqb 0) s).
Definition tag_html_ok (t : vtag) : bool :=
  negb (existsb (str_eqb (to_lower (vt_name t ++ cls_part (vt_classes t)))) raw_text_tags) && forallb okc (vt_annot t).
Definition tag_nonul (t : vtag) : bool := nonul (vt_name t) && forallb nonul (vt_classes t) && nonul (vt_annot t).
(* a tag of a run: well-formed, not the voice tag, inside the faithful domain *)
Definition rtag_ok (t : vtag) : bool := tag_ok t && negb (str_eqb (vt_name t) n_v) && tag_html_ok t && tag_nonul t.

Lemma Run_opens ts : forall s cur tags voice acc res, ts <> [] -> forallb rtag_ok ts = true ->
  Run s [] (tags ++ ts) voice (flush_runs cur tags acc) res ->
  Run (concat (map tag_start ts) ++ s) cur tags voice acc res.
Proof.
  induction ts as [|t ts IH]; intros s cur tags voice acc res Hne Hok H; [contradiction|].
  cbn [forallb] in Hok. apply andb_true_iff in Hok. destruct Hok as [Ht Hts].
  unfold rtag_ok in Ht. apply andb_true_iff in Ht. destruct Ht as [Ht _]. apply andb_true_iff in Ht. destruct Ht as [Ht _].
  apply andb_true_iff in Ht. destruct Ht as [Ht Hv]. apply negb_true_iff in Hv.
  cbn [map concat]. rewrite <- app_assoc. apply Run_tag; [exact Ht|]. rewrite Hv.
  destruct ts as [|t2 ts2].
  - exact H.
  - apply IH; [discriminate | exact Hts|]. rewrite flush_runs_nil. rewrite <- app_assoc. exact H.
Qed.

Lemma Run_closes ts : forall s cur tags voice acc res, ts <> [] ->
  forallb (fun t => tag_name_ok (vt_name t)) ts = true ->
  Run s [] (firstn (length tags - length ts) tags) voice (flush_runs cur tags acc) res ->
  Run (concat (map tag_end ts) ++ s) cur tags voice acc res.
Proof.
  induction ts as [|t ts IH]; intros s cur tags voice acc res Hne Hok H; [contradiction|].
  cbn [forallb] in Hok. apply andb_true_iff in Hok. destruct Hok as [Ht Hts].
  cbn [map concat]. rewrite <- app_assoc. apply Run_endtag; [exact Ht|].
  destruct ts as [|t2 ts2].
  - cbn [length] in H. rewrite removelast_firstn_len. rewrite <- Nat.sub_1_r. exact H.
  - apply IH; [discriminate | exact Hts|]. rewrite flush_runs_nil.
    rewrite removelast_firstn_len. rewrite firstn_length, firstn_firstn.
    replace (Nat.min (Nat.min (Nat.pred (length tags)) (length tags) - length (t2 :: ts2)) (Nat.pred (length tags)))
      with (length tags - length (t :: t2 :: ts2))%nat by (cbn [length]; lia).
    exact H.
Qed.

(* ================= inline timestamps ================= *)
Lemma match_ts_format t rest : (0 <= t)%Z -> match_ts (format_vtt t ++ 62 :: rest) = Some (format_vtt t, rest).
Proof.
  intros Ht. unfold format_vtt.
  destruct (format_grammar dot 3 t ltac:(lia) Ht) as (E & Dh & Lh & Dm & Lm & _ & Ds & Ls & _ & Df & Lf).
  rewrite E. set (H := two (f_h t)) in *. set (M := two (f_m t)) in *. set (S := two (f_s t)) in *.
  set (F := pad_left 48 3 (itoa_z (f_fr 3 t))) in *.
  unfold match_ts, take_digits. unfold colon, dot.
  replace ((H ++ [58] ++ M ++ [58] ++ S ++ [46] ++ F) ++ 62 :: rest)
    with (H ++ 58 :: (M ++ 58 :: (S ++ 46 :: (F ++ 62 :: rest)))) by (rewrite <- !app_assoc; reflexivity).
  rewrite (span_app_stop is_digit H _ Dh) by reflexivity.
  rewrite (span_app_stop is_digit M _ Dm) by reflexivity.
  rewrite (span_app_stop is_digit S _ Ds) by reflexivity.
  rewrite (span_app_stop is_digit F _ Df) by reflexivity.
  rewrite Lm, Ls, Lf. apply Nat.leb_le in Lh. rewrite Lh. reflexivity.
Qed.

Lemma split_ts_step f c r cur :
  split_ts (S f) (c :: r) cur =
  if c =? 60 then match match_ts r with
                  | Some (ts, rest) => let '(seg, more) := split_ts f rest [] in (rev cur, (ts, seg) :: more)
                  | None => split_ts f r (60 :: cur)
                  end
  else split_ts f r (c :: cur).
Proof.
  destruct c as [|p]; [reflexivity|].
  do 6 (destruct p as [p|p|]; try reflexivity).
Qed.

Definition seg_bytes (p : str * str) : str := 60 :: fst p ++ 62 :: snd p.
Definition seg_ok (p : str * str) : Prop := nolt (snd p) = true /\ forall rest, match_ts (fst p ++ 62 :: rest) = Some (fst p, rest).

Lemma split_ts_plain x : forall cur fuel, nolt x = true -> (length x < fuel)%nat -> split_ts fuel x cur = (rev cur ++ x, []).
Proof.
  induction x as [|c x IH]; intros cur fuel Hx Hf; (destruct fuel as [|fuel]; [lia|]).
  - cbn [split_ts]. rewrite app_nil_r. reflexivity.
  - unfold nolt in Hx. cbn [forallb] in Hx. apply andb_true_iff in Hx. destruct Hx as [Hc Hx]. apply negb_true_iff in Hc.
    rewrite split_ts_step, Hc. rewrite IH; [|exact Hx | cbn [length] in Hf; lia]. cbn [rev]. rewrite <- app_assoc. reflexivity.
Qed.

Lemma split_ts_spec segs : forall x cur fuel, nolt x = true -> Forall seg_ok segs ->
  (length (x ++ concat (map seg_bytes segs)) < fuel)%nat ->
  split_ts fuel (x ++ concat (map seg_bytes segs)) cur = (rev cur ++ x, segs).
Proof.
  induction segs as [|p segs IH]; intros x cur fuel Hx Hs Hf.
  - cbn [map concat] in *. rewrite app_nil_r in *. apply split_ts_plain; assumption.
  - inversion Hs as [|? ? [Hp1 Hp2] Hs']; subst. revert cur fuel Hf. induction x as [|c x IHx]; intros cur fuel Hf.
    + destruct fuel as [|fuel]; [lia|]. cbn [app map concat]. unfold seg_bytes at 1. cbn [app].
      rewrite split_ts_step. change (60 =? 60) with true. cbv iota. rewrite <- app_assoc. cbn [app]. rewrite Hp2.
      rewrite (IH (snd p) [] fuel Hp1 Hs').
      2:{ cbn [app map concat] in Hf. unfold seg_bytes at 1 in Hf.
          repeat first [rewrite app_length in Hf | progress cbn [length] in Hf]. rewrite app_length. lia. }
      cbn [rev app]. rewrite app_nil_r. destruct p; reflexivity.
    + destruct fuel as [|fuel]; [lia|].
      unfold nolt in Hx. cbn [forallb] in Hx. apply andb_true_iff in Hx. destruct Hx as [Hc Hx]. apply negb_true_iff in Hc.
      cbn [app]. rewrite split_ts_step, Hc. rewrite (IHx Hx); [|cbn [app length] in Hf; lia].
      cbn [rev]. rewrite <- app_assoc. reflexivity.
Qed.

Lemma parse_text_token_spec style x segs : nolt x = true -> Forall seg_ok segs ->
  parse_text_token style (x ++ concat (map seg_bytes segs)) =
  match segs with
  | [] => [mkVrun (unescape_html x) style 0%Z None]
  | _ => (if is_blank x then [] else [mkVrun (unescape_html x) style 0%Z None]) ++
         flat_map (fun p : str * str =>
                     let (ts, seg) := p in
                     if is_blank seg then []
                     else [mkVrun (unescape_html seg) style (match parse_vtt ts with Some v => v | None => 0%Z end) None]) segs
  end.
Proof.
  intros Hx Hs. unfold parse_text_token.
  rewrite (split_ts_spec segs x [] _ Hx Hs) by lia. cbn [rev app].
  destruct segs; [cbn [map concat]; rewrite app_nil_r|]; reflexivity.
Qed.

(* ================= representable runs and lines ================= *)
Definition timed (r : vrun) : bool := (0 <? vr_time r)%Z.
Definition nonblank (r : vrun) : bool := negb (is_blank (escape_html (vr_text r))).
Definition run_ok (r : vrun) : bool :=
  match vr_color r with None => true | Some _ => false end &&
  match vr_text r with [] => false | _ => true end &&
  (0 <=? vr_time r)%Z && (vr_time r <=? max_int64)%Z &&
  (negb (timed r) || nonblank r) &&
  forallb rtag_ok (run_tags r) &&
  nonul (vr_text r).
(* no tag is written between two adjacent runs: both end up in one text token *)
Definition same_stack (a b : vrun) : bool :=
  Nat.eqb (common_prefix (run_tags a) (run_tags b)) (length (run_tags a)) &&
  Nat.eqb (length (run_tags a)) (length (run_tags b)).
Definition pair_ok (a b : vrun) : bool := negb (same_stack a b) || (timed b && nonblank a).
Fixpoint chain_ok (prev : option vrun) (rs : list vrun) : bool :=
  match rs with
  | [] => true
  | r :: rest => run_ok r && (match prev with Some p => pair_ok p r | None => true end) && chain_ok (Some r) rest
  end.
(* a voice name: an annotation (of the <v> tag) inside the faithful domain of the tokenizer model: no '&', CR, NUL *)
Definition voice_ok (v : str) : bool := annot_ok v && forallb okc v && nonul v.
Definition repr_vline (l : vline) : bool := voice_ok (vl_voice l) && chain_ok None (vl_runs l).

(* what the reader returns for a run *)
Definition nrun (r : vrun) : vrun := mkVrun (vr_text r) (sty (run_tags r)) (trunc_ms (vr_time r)) None.
Definition nline (l : vline) : vline := mkVline (map nrun (vl_runs l)) (vl_voice l).

Definition ts_bytes (r : vrun) : str := if (0 <? vr_time r)%Z then [60] ++ format_vtt (vr_time r) ++ [62] else [].
Definition body (r : vrun) : str := ts_bytes r ++ escape_html (vr_text r).
Definition bodies (l : list vrun) : str := concat (map body l).
Definition otags (o : option vrun) : list vtag := match o with Some p => run_tags p | None => [] end.

Lemma common_prefix_nil_l b : common_prefix [] b = O. Proof. destruct b; reflexivity. Qed.
Lemma common_prefix_nil_r a : common_prefix a [] = O. Proof. destruct a; reflexivity. Qed.

Lemma vrun_bytes_eq prev next r : vr_color r = None ->
  vrun_bytes prev next r =
  concat (map tag_start (skipn (common_prefix (otags prev) (run_tags r)) (run_tags r))) ++ body r ++
  concat (map tag_end (rev (skipn (common_prefix (run_tags r) (otags next)) (run_tags r)))).
Proof.
  intros Hc. unfold vrun_bytes. rewrite Hc. cbn [app]. rewrite app_nil_r.
  assert (E1 : match prev with Some p => match vr_tags p with Some pt => common_prefix pt (run_tags r) | None => O end | None => O end
               = common_prefix (otags prev) (run_tags r)).
  { destruct prev as [p|]; [|symmetry; apply common_prefix_nil_l]. unfold otags, run_tags at 2. destruct (vr_tags p); [reflexivity|].
    symmetry; apply common_prefix_nil_l. }
  assert (E2 : match next with Some n => match vr_tags n with Some nt => common_prefix (run_tags r) nt | None => O end | None => O end
               = common_prefix (run_tags r) (otags next)).
  { destruct next as [p|]; [|symmetry; apply common_prefix_nil_r]. unfold otags, run_tags at 3. destruct (vr_tags p); [reflexivity|].
    symmetry; apply common_prefix_nil_r. }
  rewrite E1, E2. unfold body, ts_bytes. rewrite <- !app_assoc. reflexivity.
Qed.

Lemma run_ok_parts r : run_ok r = true ->
  vr_color r = None /\ vr_text r <> [] /\ (0 <= vr_time r <= max_int64)%Z /\
  (timed r = true -> nonblank r = true) /\ forallb rtag_ok (run_tags r) = true.
Proof.
  unfold run_ok. intros H. repeat (apply andb_true_iff in H; destruct H as [H ?]).
  repeat split.
  - destruct (vr_color r); [discriminate | reflexivity].
  - destruct (vr_text r); [discriminate | discriminate].
  - apply Z.leb_le. assumption.
  - apply Z.leb_le. assumption.
  - intros Ht. rewrite Ht in *. cbn [negb orb] in *. assumption.
  - assumption.
Qed.

Lemma nolt_of_not_in x : ~ In 60 x -> nolt x = true.
Proof.
  unfold nolt. intros H. apply forallb_forall. intros c Hc. apply negb_true_iff. apply N.eqb_neq. intros E. subst c. exact (H Hc).
Qed.
Lemma nolt_escape s : nolt (escape_html s) = true.
Proof. apply nolt_of_not_in, escape_no_lt. Qed.
Lemma nolt_app a b : nolt a = true -> nolt b = true -> nolt (a ++ b) = true.
Proof. unfold nolt. intros Ha Hb. rewrite forallb_app, Ha, Hb. reflexivity. Qed.

Definition seg_of (q : vrun) : str * str := (format_vtt (vr_time q), escape_html (vr_text q)).

Lemma body_timed q : timed q = true -> body q = seg_bytes (seg_of q).
Proof.
  unfold timed, body, ts_bytes, seg_bytes, seg_of. intros H. rewrite H. cbn [fst snd app]. rewrite <- app_assoc. reflexivity.
Qed.
Lemma body_untimed q : timed q = false -> body q = escape_html (vr_text q).
Proof. unfold timed, body, ts_bytes. intros H. rewrite H. reflexivity. Qed.

Lemma seg_of_ok q : run_ok q = true -> seg_ok (seg_of q).
Proof.
  intros H. destruct (run_ok_parts q H) as (_ & _ & Ht & _). split; cbn [fst snd seg_of].
  - apply nolt_escape.
  - intros rest. apply match_ts_format. lia.
Qed.

Lemma bodies_timed qs : Forall (fun q => timed q = true) qs -> bodies qs = concat (map seg_bytes (map seg_of qs)).
Proof.
  unfold bodies. induction qs as [|q qs IH]; intros H; [reflexivity|]. inversion H as [|? ? H1 H2]; subst.
  cbn [map concat]. rewrite (body_timed q H1), (IH H2). reflexivity.
Qed.

Lemma flush_runs_nonnil B T acc : B <> [] -> flush_runs (rev B) T acc = acc ++ parse_text_token (sty T) B.
Proof.
  intros H. unfold flush_runs. destruct (rev B) eqn:E.
  - exfalso. apply H. rewrite <- (rev_involutive B), E. reflexivity.
  - rewrite <- E, rev_involutive. reflexivity.
Qed.

Lemma segs_flat_map T qs :
  Forall (fun q => run_ok q = true) qs -> Forall (fun q => timed q = true) qs -> Forall (fun q => run_tags q = T) qs ->
  flat_map (fun p : str * str =>
              let (ts, seg) := p in
              if is_blank seg then []
              else [mkVrun (unescape_html seg) (sty T) (match parse_vtt ts with Some v => v | None => 0%Z end) None])
           (map seg_of qs) = map nrun qs.
Proof.
  induction qs as [|q qs IH]; intros H1 H2 H3; [reflexivity|].
  inversion H1 as [|? ? Hq1 Hqs1]; subst. inversion H2 as [|? ? Hq2 Hqs2]; subst. inversion H3 as [|? ? Hq3 Hqs3]; subst.
  cbn [map flat_map]. rewrite (IH Hqs1 Hqs2 Hqs3).
  destruct (run_ok_parts q Hq1) as (_ & _ & Ht & Hnb & _). specialize (Hnb Hq2). unfold nonblank in Hnb. apply negb_true_iff in Hnb.
  unfold seg_of at 1. rewrite Hnb. rewrite unescape_escape, (parse_format_vtt _ Ht). reflexivity.
Qed.

Lemma body_nonnil q : run_ok q = true -> body q <> [].
Proof.
  intros H. destruct (run_ok_parts q H) as (_ & Hne & _). unfold body. intros E. apply app_eq_nil in E. destruct E as [_ E].
  apply escape_nil_inv in E. contradiction.
Qed.

(* one text token: a first run (with or without timestamp) followed by timestamped runs *)
Lemma group_flush pend T acc :
  pend <> [] -> Forall (fun q => run_ok q = true) pend -> Forall (fun q => run_tags q = T) pend ->
  Forall (fun q => timed q = true) (tl pend) ->
  (tl pend <> [] -> forall d, nonblank (hd d pend) = true) ->
  flush_runs (rev (bodies pend)) T acc = acc ++ map nrun pend.
Proof.
  intros Hne Hok Htags Htl Hhd. destruct pend as [|p1 ps]; [contradiction|]. cbn [tl hd] in *.
  inversion Hok as [|? ? Hok1 Hoks]; subst. inversion Htags as [|? ? Ht1 Hts]; subst.
  rewrite flush_runs_nonnil.
  2:{ unfold bodies. cbn [map concat]. intros E. apply app_eq_nil in E. destruct E as [E _]. exact (body_nonnil p1 Hok1 E). }
  f_equal.
  assert (Hsegs : Forall seg_ok (map seg_of ps)).
  { apply Forall_forall. intros p Hp. apply in_map_iff in Hp. destruct Hp as (q & <- & Hq). apply seg_of_ok.
    rewrite Forall_forall in Hoks. apply Hoks, Hq. }
  destruct (timed p1) eqn:Et1.
  - assert (Hall : Forall (fun q => timed q = true) (p1 :: ps)) by (constructor; assumption).
    rewrite (bodies_timed _ Hall).
    rewrite <- (app_nil_l (concat _)).
    rewrite parse_text_token_spec; [|reflexivity|].
    2:{ cbn [map]. constructor; [apply seg_of_ok; exact Hok1 | exact Hsegs]. }
    cbn [map]. change (is_blank []) with true. cbv iota. cbn [app].
    exact (segs_flat_map (run_tags p1) (p1 :: ps) Hok Hall Htags).
  - unfold bodies. cbn [map concat]. fold (bodies ps). rewrite (bodies_timed _ Htl), (body_untimed p1 Et1).
    rewrite parse_text_token_spec; [|apply nolt_escape | exact Hsegs].
    destruct (run_ok_parts p1 Hok1) as (_ & _ & Htm & _ & _).
    assert (E0 : vr_time p1 = 0%Z). { unfold timed in Et1. apply Z.ltb_ge in Et1. lia. }
    assert (En : mkVrun (unescape_html (escape_html (vr_text p1))) (sty (run_tags p1)) 0%Z None = nrun p1).
    { unfold nrun. rewrite unescape_escape, E0. reflexivity. }
    destruct ps as [|p2 ps'].
    + cbn [map]. rewrite En. reflexivity.
    + set (qs := p2 :: ps') in *. assert (Hqne : qs <> []) by discriminate.
      specialize (Hhd Hqne p1). unfold nonblank in Hhd. apply negb_true_iff in Hhd.
      assert (Em : forall (X Y : list vrun), match map seg_of qs with [] => X | _ :: _ => Y end = Y) by (intros; reflexivity).
      rewrite Em. rewrite Hhd. rewrite En. cbn [app map]. f_equal.
      exact (segs_flat_map (run_tags p1) qs Hoks Htl Hts).
Qed.

(* ================= common prefixes ================= *)
Lemma forallb_impl' {A} (p q : A -> bool) s : (forall c, p c = true -> q c = true) -> forallb p s = true -> forallb q s = true.
Proof. intros I H. rewrite forallb_forall in *. intros c Hc. apply I, H, Hc. Qed.

Lemma rtag_ok_tag_ok t : rtag_ok t = true -> tag_ok t = true.
Proof. unfold rtag_ok. intros H. rewrite !andb_true_iff in H. tauto. Qed.
Lemma rtag_ok_html t : rtag_ok t = true -> tag_html_ok t = true /\ tag_nonul t = true.
Proof. unfold rtag_ok. intros H. rewrite !andb_true_iff in H. tauto. Qed.
Lemma rtag_ok_name t : rtag_ok t = true -> tag_name_ok (vt_name t) = true.
Proof. intros H. apply rtag_ok_tag_ok in H. apply tag_ok_parts in H. tauto. Qed.

Lemma cp_le_l a : forall b, (common_prefix a b <= length a)%nat.
Proof. induction a as [|x a IH]; intros [|y b]; cbn [common_prefix length]; try lia. destruct (str_eqb _ _); [specialize (IH b); lia | lia]. Qed.
Lemma cp_le_r a : forall b, (common_prefix a b <= length b)%nat.
Proof. induction a as [|x a IH]; intros [|y b]; cbn [common_prefix length]; try lia. destruct (str_eqb _ _); [specialize (IH b); lia | lia]. Qed.

Lemma firstn_cp a : forall b, forallb tag_ok a = true -> forallb tag_ok b = true ->
  firstn (common_prefix a b) a = firstn (common_prefix a b) b.
Proof.
  induction a as [|x a IH]; intros [|y b] Ha Hb; cbn [common_prefix firstn]; try reflexivity.
  cbn [forallb] in Ha, Hb. apply andb_true_iff in Ha. apply andb_true_iff in Hb. destruct Ha as [Hx Ha]. destruct Hb as [Hy Hb].
  destruct (str_eqb (tag_start x) (tag_start y)) eqn:E; [|reflexivity].
  apply str_eqb_eq in E. apply (tag_start_inj x y Hx Hy) in E. subst y. cbn [firstn]. f_equal. apply IH; assumption.
Qed.

Lemma skipn_nil_firstn {A} n (l : list A) : skipn n l = [] -> firstn n l = l.
Proof. intros H. rewrite <- (firstn_skipn n l) at 2. rewrite H, app_nil_r. reflexivity. Qed.

Lemma skipn_nil_len {A} n (l : list A) : skipn n l = [] -> (length l <= n)%nat.
Proof. intros H. pose proof (skipn_length n l) as L. rewrite H in L. cbn [length] in L. lia. Qed.

(* ================= the runs of a line ================= *)
Definition onext (rs : list vrun) : option vrun := match rs with n :: _ => Some n | [] => None end.

Lemma vruns_bytes_cons prev r rest :
  vruns_bytes prev (r :: rest) = vrun_bytes prev (onext rest) r ++ vruns_bytes (Some r) rest.
Proof. reflexivity. Qed.

Lemma format_vtt_hd t : (0 <= t)%Z -> exists d F', format_vtt t = d :: F' /\ is_digit d = true.
Proof.
  intros Ht. unfold format_vtt. destruct (format_grammar dot 3 t ltac:(lia) Ht) as (E & Dh & Lh & _).
  rewrite E. destruct (two (f_h t)) as [|d r]; [cbn [length] in Lh; lia|]. exists d. eexists. split; [reflexivity|].
  apply (digits_in _ d Dh). left. reflexivity.
Qed.

Lemma nolt_format_vtt t : (0 <= t)%Z -> nolt (format_vtt t) = true.
Proof. intros Ht. apply nolt_of_not_in. apply format_vtt_not_in; [exact Ht | reflexivity]. Qed.

Lemma Run_body r X cur tags voice acc res : run_ok r = true ->
  Run X (rev (body r) ++ cur) tags voice acc res -> Run (body r ++ X) cur tags voice acc res.
Proof.
  intros Hok H. destruct (run_ok_parts r Hok) as (_ & _ & Ht & _).
  destruct (timed r) eqn:Et.
  - unfold body, ts_bytes in *. unfold timed in Et. rewrite Et in *.
    destruct (format_vtt_hd (vr_time r) ltac:(lia)) as (d & F' & EF & Hd).
    pose proof (nolt_format_vtt (vr_time r) ltac:(lia)) as HF. rewrite EF in *.
    replace ((([60] ++ (d :: F') ++ [62]) ++ escape_html (vr_text r)) ++ X)
      with (60 :: d :: (F' ++ 62 :: escape_html (vr_text r)) ++ X) by (cbn [app]; rewrite <- !app_assoc; reflexivity).
    apply Run_lt_digit; [exact Hd|].
    change (d :: (F' ++ 62 :: escape_html (vr_text r)) ++ X) with ((d :: F' ++ 62 :: escape_html (vr_text r)) ++ X).
    apply Run_text.
    + change (d :: F' ++ 62 :: escape_html (vr_text r)) with ((d :: F') ++ [62] ++ escape_html (vr_text r)).
      apply nolt_app; [exact HF|]. apply nolt_app; [reflexivity | apply nolt_escape].
    + replace (rev (([60] ++ (d :: F') ++ [62]) ++ escape_html (vr_text r)) ++ cur)
        with (rev (d :: F' ++ 62 :: escape_html (vr_text r)) ++ 60 :: cur) in H; [exact H|].
      replace (([60] ++ (d :: F') ++ [62]) ++ escape_html (vr_text r)) with ([60] ++ (d :: F' ++ 62 :: escape_html (vr_text r)))
        by (cbn [app]; rewrite <- !app_assoc; reflexivity).
      rewrite (rev_app_distr [60]). cbn [rev app]. rewrite <- !app_assoc. reflexivity.
  - rewrite (body_untimed r Et) in *. apply Run_text; [apply nolt_escape | exact H].
Qed.

Lemma bodies_snoc l r : bodies (l ++ [r]) = bodies l ++ body r.
Proof. unfold bodies. rewrite map_app, concat_app. cbn [map concat]. rewrite app_nil_r. reflexivity. Qed.

(* the pending text token: runs already consumed by the tokenizer but not yet flushed *)
Definition pend_ok (pend0 : list vrun) (p : vrun) : Prop :=
  Forall (fun q => run_ok q = true) (pend0 ++ [p]) /\ Forall (fun q => run_tags q = run_tags p) (pend0 ++ [p]) /\
  Forall (fun q => timed q = true) (tl (pend0 ++ [p])) /\ Forall (fun q => nonblank q = true) pend0.
Definition pend_inv (prev : option vrun) (pend : list vrun) (nt : list vtag) : Prop :=
  pend = [] \/
  exists p pend0, prev = Some p /\ pend = pend0 ++ [p] /\ pend_ok pend0 p /\
                  common_prefix (run_tags p) nt = length (run_tags p).

Lemma pend_group pend0 p acc : pend_ok pend0 p ->
  flush_runs (rev (bodies (pend0 ++ [p]))) (run_tags p) acc = acc ++ map nrun (pend0 ++ [p]).
Proof.
  intros (H1 & H2 & H3 & H4). apply group_flush; try assumption.
  - destruct pend0; discriminate.
  - intros Hne d. destruct pend0 as [|q pend0']; [cbn [app tl] in Hne; contradiction|].
    cbn [app hd]. inversion H4; assumption.
Qed.

Lemma Run_nil' cur tags voice acc res : res = (flush_runs cur tags acc, voice, tags) -> Run [] cur tags voice acc res.
Proof. intros ->. apply Run_nil. Qed.

Lemma same_stack_eq a b : forallb tag_ok (run_tags a) = true -> forallb tag_ok (run_tags b) = true ->
  common_prefix (run_tags a) (run_tags b) = length (run_tags a) -> (length (run_tags b) <= length (run_tags a))%nat ->
  run_tags a = run_tags b.
Proof.
  intros Ha Hb E L. pose proof (firstn_cp _ _ Ha Hb) as F. rewrite E in F.
  rewrite firstn_all in F. rewrite firstn_all2 in F by exact L. exact F.
Qed.

Lemma run_tags_ok r : run_ok r = true -> forallb tag_ok (run_tags r) = true.
Proof. intros H. destruct (run_ok_parts r H) as (_ & _ & _ & _ & Ht). exact (forallb_impl' _ _ _ rtag_ok_tag_ok Ht). Qed.

Lemma otags_ok prev : match prev with Some p => run_ok p = true | None => True end -> forallb tag_ok (otags prev) = true.
Proof. destruct prev as [p|]; [apply run_tags_ok | reflexivity]. Qed.

Theorem runs_sem : forall rs prev pend acc voice,
  match prev with Some p => run_ok p = true | None => True end ->
  chain_ok prev rs = true ->
  pend_inv prev pend (otags (onext rs)) ->
  Run (vruns_bytes prev rs) (rev (bodies pend))
      (firstn (common_prefix (otags prev) (otags (onext rs))) (otags (onext rs))) voice acc
      (acc ++ map nrun (pend ++ rs), voice, []).
Proof.
  induction rs as [|r rest IH]; intros prev pend acc voice Hprev Hchain Hpend.
  - cbn [vruns_bytes onext otags]. rewrite firstn_nil. apply Run_nil'. rewrite app_nil_r. f_equal. f_equal.
    destruct Hpend as [->|(p & pend0 & -> & -> & Hok & Hcp)]; [cbn; rewrite app_nil_r; reflexivity|].
    cbn [onext otags] in Hcp. rewrite common_prefix_nil_r in Hcp.
    assert (Et : run_tags p = []) by (destruct (run_tags p); [reflexivity | discriminate]).
    rewrite <- Et at 1. symmetry. apply pend_group. exact Hok.
  - cbn [chain_ok] in Hchain. apply andb_true_iff in Hchain. destruct Hchain as [Hchain Hrest].
    apply andb_true_iff in Hchain. destruct Hchain as [Hr Hpair].
    destruct (run_ok_parts r Hr) as (Hcol & _ & _ & _ & Hrt).
    pose proof (run_tags_ok r Hr) as HrT. pose proof (otags_ok prev Hprev) as HpT.
    cbn [onext otags] in *. set (T := run_tags r) in *.
    rewrite vruns_bytes_cons, (vrun_bytes_eq prev (onext rest) r Hcol). fold T.
    set (o := common_prefix (otags prev) T) in *. set (l := common_prefix T (otags (onext rest))).
    set (tail := vruns_bytes (Some r) rest).
    rewrite <- !app_assoc.
    assert (Efc : firstn l T = firstn l (otags (onext rest))).
    { unfold l. apply firstn_cp; [exact HrT|]. destruct rest as [|r2 rest2]; [reflexivity|]. cbn [onext otags]. apply run_tags_ok.
      cbn [chain_ok] in Hrest. apply andb_true_iff in Hrest. destruct Hrest as [Hrest _]. apply andb_true_iff in Hrest. tauto. }
    (* after the opening tags *)
    assert (Hafter : forall pend1 acc1, (pend1 = [] \/ exists pend0 p, pend1 = pend0 ++ [p] /\ pend_ok pend0 p /\ run_tags p = T /\ timed r = true /\ nonblank p = true) ->
              Run (body r ++ concat (map tag_end (rev (skipn l T))) ++ tail) (rev (bodies pend1)) T voice acc1
                  (acc1 ++ map nrun (pend1 ++ r :: rest), voice, [])).
    { intros pend1 acc1 Hp1.
      assert (Q : pend_ok pend1 r).
      { destruct Hp1 as [->|(pend0 & p & -> & (Q1 & Q2 & Q3 & Q4) & Etp & Htr & Hnp)].
        - repeat split; cbn [app tl]; repeat constructor. exact Hr.
        - repeat split.
          + apply Forall_app. split; [exact Q1 | repeat constructor; exact Hr].
          + apply Forall_app. split; [|repeat constructor]. fold T. rewrite <- Etp. exact Q2.
          + replace (tl ((pend0 ++ [p]) ++ [r])) with (tl (pend0 ++ [p]) ++ [r]) by (destruct pend0; reflexivity).
            apply Forall_app. split; [exact Q3 | repeat constructor; exact Htr].
          + apply Forall_app. split; [exact Q4 | repeat constructor; exact Hnp]. }
      apply Run_body; [exact Hr|].
      rewrite <- rev_app_distr, <- bodies_snoc.
      destruct (rev (skipn l T)) as [|ct cts] eqn:Ects.
      + (* no closing tag: the run stays pending *)
        cbn [map concat app].
        assert (Esk : skipn l T = []). { rewrite <- (rev_involutive (skipn l T)), Ects. reflexivity. }
        pose proof (skipn_nil_len _ _ Esk) as Ll. pose proof (cp_le_l T (otags (onext rest))) as Ll2. fold l in Ll2.
        assert (El : l = length T) by lia.
        specialize (IH (Some r) (pend1 ++ [r]) acc1 voice Hr Hrest).
        cbn [otags] in IH. fold T in IH. fold l in IH.
        rewrite <- Efc in IH. rewrite El, firstn_all in IH. rewrite <- app_assoc in IH. apply IH.
        right. exists r, pend1. repeat split; try apply Q. fold T. fold l. exact El.
      + (* closing tags flush the token *)
        set (cl := ct :: cts) in *.
        assert (Lcl : length cl = (length T - l)%nat). { rewrite <- Ects, rev_length, skipn_length. reflexivity. }
        pose proof (cp_le_l T (otags (onext rest))) as Ll2. fold l in Ll2.
        apply Run_closes; [discriminate | |].
        * rewrite <- Ects. apply forallb_forall. intros t Ht. apply in_rev in Ht.
          assert (Hin : In t T). { rewrite <- (firstn_skipn l T). apply in_or_app. right. exact Ht. }
          rewrite forallb_forall in Hrt. apply rtag_ok_name, Hrt, Hin.
        * rewrite Lcl. replace (length T - (length T - l))%nat with l by lia.
          replace T with (run_tags r) at 2 by reflexivity. rewrite (pend_group pend1 r acc1 Q).
          specialize (IH (Some r) [] (acc1 ++ map nrun (pend1 ++ [r])) voice Hr Hrest (or_introl eq_refl)).
          cbn [otags bodies map concat rev app] in IH. fold T in IH. fold l in IH.
          rewrite <- Efc in IH. rewrite <- app_assoc in IH. rewrite !map_app in IH. rewrite !map_app. cbn [map app] in IH. cbn [map app].
          rewrite <- !app_assoc in IH. exact IH. }
    (* the opening tags *)
    destruct (skipn o T) as [|ot ots] eqn:Eop.
    + cbn [map concat app].
      pose proof (skipn_nil_len _ _ Eop) as Lo. pose proof (cp_le_r (otags prev) T) as Lo2. fold o in Lo2.
      rewrite (skipn_nil_firstn _ _ Eop).
      apply Hafter.
      destruct Hpend as [->|(p & pend0 & -> & -> & Hok & Hcp)]; [left; reflexivity|].
      right. exists pend0, p. cbn [otags] in *. fold o in Hcp.
      assert (Etp : run_tags p = T).
      { apply same_stack_eq; [exact HpT | exact HrT | exact Hcp | fold T; lia]. }
      assert (Hss : same_stack p r = true).
      { unfold same_stack. fold T. fold o. rewrite Hcp, Nat.eqb_refl. rewrite Etp, Nat.eqb_refl. reflexivity. }
      unfold pair_ok in Hpair. rewrite Hss in Hpair. cbn [negb orb] in Hpair. apply andb_true_iff in Hpair.
      repeat split; try apply Hok; tauto.
    + set (op := ot :: ots) in *.
      apply Run_opens; [discriminate | |].
      * apply forallb_forall. intros t Ht.
        assert (Hin : In t T). { rewrite <- (firstn_skipn o T). apply in_or_app. right. rewrite Eop. exact Ht. }
        rewrite forallb_forall in Hrt. apply Hrt, Hin.
      * rewrite <- Eop, firstn_skipn.
        assert (Efl : flush_runs (rev (bodies pend)) (firstn o T) acc = acc ++ map nrun pend).
        { destruct Hpend as [->|(p & pend0 & -> & -> & Hok & Hcp)]; [cbn; rewrite app_nil_r; reflexivity|].
          cbn [otags] in *. fold o in Hcp.
          unfold o. rewrite <- (firstn_cp (run_tags p) T HpT HrT). fold o. rewrite Hcp, firstn_all.
          apply pend_group. exact Hok. }
        rewrite Efl.
        specialize (Hafter [] (acc ++ map nrun pend) (or_introl eq_refl)).
        cbn [bodies map concat rev app] in Hafter. rewrite map_app. rewrite <- app_assoc in Hafter. exact Hafter.
Qed.

(* ================= statement 2: a written line is read back ================= *)
(* the voice tag: the writer replaces a '>' of the name by its character reference; an admissible name has none *)
Lemma voice_esc_id v : ~ In 62 v -> voice_esc v = v.
Proof.
  unfold voice_esc. induction v as [|c r IH]; intros H; [reflexivity|]. cbn [flat_map].
  destruct (c =? 62) eqn:E; [apply N.eqb_eq in E; subst c; exfalso; apply H; left; reflexivity|].
  cbn [app]. rewrite IH; [reflexivity | intros Hi; apply H; right; exact Hi].
Qed.
Lemma annot_ok_no_gt v : annot_ok v = true -> ~ In 62 v.
Proof.
  unfold annot_ok. intros H Hin. apply andb_true_iff in H. destruct H as [H _]. rewrite forallb_forall in H.
  specialize (H 62 Hin). discriminate H.
Qed.
Definition voice_part (l : vline) : str := match vl_voice l with [] => [] | v => [60;118;32] ++ voice_esc v ++ [62] end.
Lemma voice_part_ok l : annot_ok (vl_voice l) = true ->
  voice_part l = match vl_voice l with [] => [] | v => [60;118;32] ++ v ++ [62] end.
Proof.
  intros H. unfold voice_part. destruct (vl_voice l) as [|c r] eqn:E; [reflexivity|].
  rewrite (voice_esc_id (c :: r) (annot_ok_no_gt _ H)). reflexivity.
Qed.
Lemma vline_bytes_removelast l : removelast (vline_bytes l) = voice_part l ++ vruns_bytes None (vl_runs l).
Proof. unfold vline_bytes, voice_part. rewrite app_assoc. apply removelast_last. Qed.

Lemma voice_ok_annot v : voice_ok v = true -> annot_ok v = true.
Proof. unfold voice_ok. intros H. rewrite !andb_true_iff in H. tauto. Qed.

Theorem parse_vline l : repr_vline l = true ->
  parse_text_vtt (removelast (vline_bytes l)) [] = (nline l, []).
Proof.
  intros H. unfold repr_vline in H. apply andb_true_iff in H. destruct H as [Hv Hc]. apply voice_ok_annot in Hv.
  rewrite vline_bytes_removelast, (voice_part_ok l Hv). unfold parse_text_vtt, tokenize, nline.
  pose proof (runs_sem (vl_runs l) None [] [] (vl_voice l) I Hc (or_introl eq_refl)) as R.
  cbn [otags bodies map concat rev app] in R. rewrite common_prefix_nil_l in R. cbn [firstn] in R.
  destruct (vl_voice l) as [|c v'] eqn:Ev.
  - cbn [app]. rewrite (R _ (Nat.lt_succ_diag_r _)). reflexivity.
  - set (v := c :: v') in *.
    assert (Ht : tag_ok (mkVtag n_v v []) = true).
    { unfold tag_ok. cbn [vt_name vt_classes vt_annot n_v forallb]. rewrite Hv. reflexivity. }
    pose proof (Run_tag (mkVtag n_v v []) (vruns_bytes None (vl_runs l)) [] [] [] [] (map nrun (vl_runs l), v, []) Ht) as R2.
    cbn [vt_name vt_annot] in R2. change (str_eqb n_v n_v) with true in R2. cbv iota in R2. rewrite flush_runs_nil in R2.
    specialize (R2 R).
    change (tag_start (mkVtag n_v v [])) with ([60; 118; 32] ++ v ++ [62]) in R2.
    rewrite (R2 _ (Nat.lt_succ_diag_r _)). reflexivity.
Qed.

(* runs the reader returns unchanged: tag list normalised, time a whole number of milliseconds *)
Definition run_canon (r : vrun) : bool :=
  match vr_tags r with Some [] => false | _ => true end && ((vr_time r mod 1000000 =? 0)%Z).

Lemma nrun_canon r : run_ok r = true -> run_canon r = true -> nrun r = r.
Proof.
  intros Hok Hc. destruct (run_ok_parts r Hok) as (Hcol & _). unfold run_canon in Hc. apply andb_true_iff in Hc. destruct Hc as [H1 H2].
  apply Z.eqb_eq in H2. unfold nrun, trunc_ms. rewrite H2, Z.sub_0_r. destruct r as [tx tg tm co]. cbn [vr_text vr_tags vr_time vr_color run_tags] in *.
  subst co. f_equal. unfold run_tags, sty. cbn [vr_tags]. destruct tg as [[|t ts]|]; [discriminate | reflexivity | reflexivity].
Qed.

Lemma chain_ok_all prev rs : chain_ok prev rs = true -> Forall (fun r => run_ok r = true) rs.
Proof.
  revert prev. induction rs as [|r rs IH]; intros prev H; [constructor|]. cbn [chain_ok] in H.
  apply andb_true_iff in H. destruct H as [H H2]. apply andb_true_iff in H. destruct H as [H1 _].
  constructor; [exact H1 | exact (IH _ H2)].
Qed.

Corollary parse_vline_exact l : repr_vline l = true -> forallb run_canon (vl_runs l) = true ->
  parse_text_vtt (removelast (vline_bytes l)) [] = (l, []).
Proof.
  intros H Hc. rewrite (parse_vline l H). f_equal. unfold nline. destruct l as [rs v]. cbn [vl_runs vl_voice] in *. f_equal.
  unfold repr_vline in H. apply andb_true_iff in H. destruct H as [_ H]. cbn [vl_runs] in H. apply chain_ok_all in H.
  rewrite <- (map_id rs) at 2. apply map_ext_in. intros r Hr. rewrite Forall_forall in H. rewrite forallb_forall in Hc.
  apply nrun_canon; auto.
Qed.

(* "<v Bob Smith><c.red.big>Hello <i><00:00:01.500>wor&lt;ld<00:00:02.500>x&amp;y</i><lang.k en-GB x> tail</lang></c>end<100:00:00.000>e2" *)
Definition ex_c : vtag := mkVtag [99] [] [[114;101;100]; [98;105;103]].
Definition ex_i : vtag := mkVtag [105] [] [].
Definition ex_lang : vtag := mkVtag [108;97;110;103] [101;110;45;71;66;32;120] [[107]].
Definition ex_line : vline :=
  mkVline [mkVrun [72;101;108;108;111;32] (Some [ex_c]) 0%Z None;
           mkVrun [119;111;114;60;108;100] (Some [ex_c; ex_i]) 1500000000%Z None;
           mkVrun [120;38;121] (Some [ex_c; ex_i]) 2500000000%Z None;
           mkVrun [32;116;97;105;108] (Some [ex_c; ex_lang]) 0%Z None;
           mkVrun [101;110;100] None 0%Z None;
           mkVrun [101;50] None 360000000000000%Z None]
          [66;111;98;32;83;109;105;116;104].
Example ex_line_repr : repr_vline ex_line = true /\ forallb run_canon (vl_runs ex_line) = true.
Proof. split; vm_compute; reflexivity. Qed.
Example ex_line_roundtrip : parse_text_vtt (removelast (vline_bytes ex_line)) [] = (ex_line, []).
Proof. apply parse_vline_exact; apply ex_line_repr. Qed.
