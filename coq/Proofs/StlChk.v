(* stl.go: the checked transcription (Model/StlC.v) never reaches a panic site, and agrees with the pattern-matching
   transcription (Model/Stl.v) on which the fidelity theorems are stated.  The content of each equation is that the guard
   the Go code tests implies that the access behind it is in range / non-nil / non-zero / of the asserted type.
   The last section shows that the guards matter: with one dropped, [Panic] is reachable. *)
From Coq Require Import List ZArith NArith Bool Arith Lia.
From Astisub Require Import Kit.Base Kit.Str Kit.Utf8 Kit.Scan Kit.Chk Model.Dur Model.Stl Model.StlIO Model.StlC Gen.StlTables
  Proofs.ScanProofs Proofs.StlBlocks Proofs.StlIOProofs.
Import ListNotations.
Open Scope N_scope.

(* ================= the generated tables ================= *)
(* every value the code type-asserts has the asserted dynamic type *)
Theorem stl_table_tags_string : forallb (fun kt => snd kt =? tag_string) stl_table_tags = true.
Proof. vm_compute. reflexivity. Qed.
Theorem stl_unicode_mapping_inv_tags_byte : forallb (fun kt => snd kt =? tag_byte) stl_unicode_mapping_inv_tags = true.
Proof. vm_compute. reflexivity. Qed.
Theorem stl_unicode_diacritic_inv_tags_byte : forallb (fun kt => snd kt =? tag_byte) stl_unicode_diacritic_inv_tags = true.
Proof. vm_compute. reflexivity. Qed.
Theorem stl_framerate_tags_int : forallb (fun kt => snd kt =? tag_int) stl_framerate_tags = true.
Proof. vm_compute. reflexivity. Qed.
Theorem stl_framerate_inv_tags_string : forallb (fun kt => snd kt =? tag_string) stl_framerate_inv_tags = true.
Proof. vm_compute. reflexivity. Qed.
Theorem stl_language_tags_string : forallb (fun kt => snd kt =? tag_string) stl_language_tags = true.
Proof. vm_compute. reflexivity. Qed.
Theorem stl_language_inv_tags_string : forallb (fun kt => snd kt =? tag_string) stl_language_inv_tags = true.
Proof. vm_compute. reflexivity. Qed.
(* the tag tables have an entry for every key of the corresponding value table *)
Theorem stl_table_tags_cover : forallb (fun kv => o_some (alookup (fst kv) stl_table_tags)) stl_table = true.
Proof. vm_compute. reflexivity. Qed.
Theorem stl_unicode_mapping_inv_tags_cover :
  forallb (fun kv => o_some (alookup (fst kv) stl_unicode_mapping_inv_tags)) stl_unicode_mapping_inv = true.
Proof. vm_compute. reflexivity. Qed.
Theorem stl_unicode_diacritic_inv_tags_cover :
  forallb (fun kv => o_some (alookup (fst kv) stl_unicode_diacritic_inv_tags)) stl_unicode_diacritic_inv = true.
Proof. vm_compute. reflexivity. Qed.
Theorem stl_framerate_tags_cover : forallb (fun kv => o_some (slookup (fst kv) stl_framerate_tags)) stl_framerate = true.
Proof. vm_compute. reflexivity. Qed.
Theorem stl_framerate_inv_tags_cover : forallb (fun kv => o_some (zlookup (fst kv) stl_framerate_inv_tags)) stl_framerate_inv = true.
Proof. vm_compute. reflexivity. Qed.
Theorem stl_language_tags_cover : forallb (fun kv => o_some (slookup (fst kv) stl_language_tags)) stl_language = true.
Proof. vm_compute. reflexivity. Qed.
Theorem stl_language_inv_tags_cover : forallb (fun kv => o_some (slookup (fst kv) stl_language_inv_tags)) stl_language_inv = true.
Proof. vm_compute. reflexivity. Qed.
(* every frame rate of stlFramerateMapping is non-zero *)
Theorem stl_framerate_nonzero : forallb (fun kv => negb (snd kv =? 0)%Z) stl_framerate = true.
Proof. vm_compute. reflexivity. Qed.

(* ---- from the table theorems to the type assertions: one generic lookup, three key types ---- *)
Section Lookup.
  Context {K : Type} (eqb : K -> K -> bool) (eqb_eq : forall a b, eqb a b = true -> a = b).
  Fixpoint glookup {V} (k : K) (m : list (K * V)) : option V :=
    match m with
    | [] => None
    | (k', v) :: r => if eqb k k' then Some v else glookup k r
    end.
  Lemma glookup_in {V} k (m : list (K * V)) v : glookup k m = Some v -> In (k, v) m.
  Proof.
    induction m as [|[k' v'] r IH]; cbn [glookup]; [discriminate|]. intros H.
    destruct (eqb k k') eqn:E.
    - apply eqb_eq in E. subst k'. injection H as ->. left. reflexivity.
    - right. apply IH. exact H.
  Qed.
  Lemma gtag_ok {V} (vals : list (K * V)) (tags : list (K * N)) want :
    forallb (fun kt => snd kt =? want) tags = true ->
    forallb (fun kv => o_some (glookup (fst kv) tags)) vals = true ->
    forall k v site, glookup k vals = Some v -> assert_tag (glookup k tags) want site = Ok tt.
  Proof.
    intros Ht Hc k v site Hk. apply glookup_in in Hk.
    rewrite forallb_forall in Hc. specialize (Hc _ Hk). cbn [fst] in Hc.
    destruct (glookup k tags) as [t|] eqn:E; [|discriminate]. apply glookup_in in E.
    rewrite forallb_forall in Ht. specialize (Ht _ E). cbn [snd] in Ht.
    unfold assert_tag. rewrite Ht. reflexivity.
  Qed.
End Lookup.
Lemma alookup_g {V} k (m : list (N * V)) : alookup k m = glookup N.eqb k m.
Proof. induction m as [|[k' v'] r IH]; [reflexivity|]. cbn [alookup glookup]. rewrite IH. reflexivity. Qed.
Lemma slookup_g {V} k (m : list (str * V)) : slookup k m = glookup str_eqb k m.
Proof. induction m as [|[k' v'] r IH]; [reflexivity|]. cbn [slookup glookup]. rewrite IH. reflexivity. Qed.
Lemma zlookup_g {V} k (m : list (Z * V)) : zlookup k m = glookup Z.eqb k m.
Proof. induction m as [|[k' v'] r IH]; [reflexivity|]. cbn [zlookup glookup]. rewrite IH. reflexivity. Qed.
Lemma forallb_same {A} (f g : A -> bool) l : (forall x, f x = g x) -> forallb f l = forallb g l.
Proof. intros H. induction l as [|a r IH]; [reflexivity|]. cbn [forallb]. rewrite H, IH. reflexivity. Qed.
Lemma N_eqb_true a b : N.eqb a b = true -> a = b.
Proof. apply N.eqb_eq. Qed.
Lemma str_eqb_true a b : str_eqb a b = true -> a = b.
Proof. apply str_eqb_eq. Qed.
Lemma Z_eqb_true a b : Z.eqb a b = true -> a = b.
Proof. apply Z.eqb_eq. Qed.

Lemma atag_ok {V} (vals : list (N * V)) tags want :
  forallb (fun kt => snd kt =? want) tags = true ->
  forallb (fun kv => o_some (alookup (fst kv) tags)) vals = true ->
  forall k v site, alookup k vals = Some v -> assert_tag (alookup k tags) want site = Ok tt.
Proof.
  intros Ht Hc k v site Hk. rewrite (alookup_g k tags). apply (gtag_ok N.eqb N_eqb_true vals tags want Ht) with (v := v).
  - rewrite <- Hc. apply forallb_same. intros kv. apply f_equal. symmetry. apply alookup_g.
  - rewrite <- alookup_g. exact Hk.
Qed.
Lemma stag_ok {V} (vals : list (str * V)) tags want :
  forallb (fun kt => snd kt =? want) tags = true ->
  forallb (fun kv => o_some (slookup (fst kv) tags)) vals = true ->
  forall k v site, slookup k vals = Some v -> assert_tag (slookup k tags) want site = Ok tt.
Proof.
  intros Ht Hc k v site Hk. rewrite (slookup_g k tags). apply (gtag_ok str_eqb str_eqb_true vals tags want Ht) with (v := v).
  - rewrite <- Hc. apply forallb_same. intros kv. apply f_equal. symmetry. apply slookup_g.
  - rewrite <- slookup_g. exact Hk.
Qed.
Lemma ztag_ok {V} (vals : list (Z * V)) tags want :
  forallb (fun kt => snd kt =? want) tags = true ->
  forallb (fun kv => o_some (zlookup (fst kv) tags)) vals = true ->
  forall k v site, zlookup k vals = Some v -> assert_tag (zlookup k tags) want site = Ok tt.
Proof.
  intros Ht Hc k v site Hk. rewrite (zlookup_g k tags). apply (gtag_ok Z.eqb Z_eqb_true vals tags want Ht) with (v := v).
  - rewrite <- Hc. apply forallb_same. intros kv. apply f_equal. symmetry. apply zlookup_g.
  - rewrite <- zlookup_g. exact Hk.
Qed.

(* the seven type assertions of stl.go, each behind its "ok" *)
Lemma tag_877 k v site : alookup k stl_table = Some v -> assert_tag (alookup k stl_table_tags) tag_string site = Ok tt.
Proof. apply (atag_ok _ _ _ stl_table_tags_string stl_table_tags_cover). Qed.
Lemma tag_1053 k v site : alookup k stl_unicode_mapping_inv = Some v -> assert_tag (alookup k stl_unicode_mapping_inv_tags) tag_byte site = Ok tt.
Proof. apply (atag_ok _ _ _ stl_unicode_mapping_inv_tags_byte stl_unicode_mapping_inv_tags_cover). Qed.
Lemma tag_1057 k v site : alookup k stl_unicode_diacritic_inv = Some v -> assert_tag (alookup k stl_unicode_diacritic_inv_tags) tag_byte site = Ok tt.
Proof. apply (atag_ok _ _ _ stl_unicode_diacritic_inv_tags_byte stl_unicode_diacritic_inv_tags_cover). Qed.
Lemma tag_452 k v site : slookup k stl_framerate = Some v -> assert_tag (slookup k stl_framerate_tags) tag_int site = Ok tt.
Proof. apply (stag_ok _ _ _ stl_framerate_tags_int stl_framerate_tags_cover). Qed.
Lemma tag_564 k v site : zlookup k stl_framerate_inv = Some v -> assert_tag (zlookup k stl_framerate_inv_tags) tag_string site = Ok tt.
Proof. apply (ztag_ok _ _ _ stl_framerate_inv_tags_string stl_framerate_inv_tags_cover). Qed.
Lemma tag_236 k v site : slookup k stl_language = Some v -> assert_tag (slookup k stl_language_tags) tag_string site = Ok tt.
Proof. apply (stag_ok _ _ _ stl_language_tags_string stl_language_tags_cover). Qed.
Lemma tag_397 k v site : slookup k stl_language_inv = Some v -> assert_tag (slookup k stl_language_inv_tags) tag_string site = Ok tt.
Proof. apply (stag_ok _ _ _ stl_language_inv_tags_string stl_language_inv_tags_cover). Qed.
Lemma framerate_nz k fps : slookup k stl_framerate = Some fps -> fps <> 0%Z.
Proof.
  intros Hk. rewrite slookup_g in Hk. apply (glookup_in str_eqb str_eqb_true) in Hk.
  pose proof stl_framerate_nonzero as Hn. rewrite forallb_forall in Hn. specialize (Hn _ Hk). cbn [snd] in Hn.
  apply negb_true_iff in Hn. apply Z.eqb_neq in Hn. exact Hn.
Qed.

(* ================= checked accesses in range ================= *)
Lemma nth_error_skipn_add {A} (l : list A) : forall off i, nth_error (skipn off l) i = nth_error l (off + i).
Proof.
  induction l as [|a l IH]; intros off i.
  - rewrite skipn_nil. destruct i, off; reflexivity.
  - destruct off as [|off]; [reflexivity|]. cbn [skipn Nat.add nth_error]. apply IH.
Qed.
Lemma nth_error_firstn_lt {A} (l : list A) : forall n i, (i < n)%nat -> nth_error (firstn n l) i = nth_error l i.
Proof.
  induction l as [|a l IH]; intros n i Hi.
  - rewrite firstn_nil. reflexivity.
  - destruct n as [|n]; [lia|]. destruct i as [|i]; [reflexivity|]. cbn [firstn nth_error]. apply IH. lia.
Qed.
(* b[i] behind i < len(b) *)
Lemma index_in_range (b : str) i site : (i < length b)%nat -> index b i site = Ok (stl_byte_at i b).
Proof. intros Hi. unfold index, stl_byte_at. rewrite (nth_error_nth' b 0 Hi). reflexivity. Qed.
(* b[lo:hi] behind lo <= hi <= len(b) *)
Lemma slice_ok (b : str) lo hi site : (lo <= hi)%nat -> (hi <= length b)%nat -> slice b lo hi site = Ok (stl_sl lo (hi - lo) b).
Proof.
  intros H1 H2. unfold slice. apply Nat.leb_le in H1, H2. rewrite H1, H2. reflexivity.
Qed.
Lemma slice_from_ok (b : str) n site : (n <= length b)%nat -> slice_from b n site = Ok (skipn n b).
Proof. intros H. unfold slice_from. apply Nat.leb_le in H. rewrite H. reflexivity. Qed.
(* (b[off:off+len])[i] behind i < len, off + len <= len(b) *)
Lemma index_sl (b : str) off len i site :
  (i < len)%nat -> (off + i < length b)%nat -> index (stl_sl off len b) i site = Ok (stl_byte_at (off + i) b).
Proof.
  intros H1 H2. unfold index, stl_sl, stl_byte_at.
  rewrite nth_error_firstn_lt by exact H1. rewrite nth_error_skipn_add. rewrite (nth_error_nth' b 0 H2). reflexivity.
Qed.
Lemma stl_sl_length (b : str) off len : (off + len <= length b)%nat -> length (stl_sl off len b) = len.
Proof. intros H. unfold stl_sl. rewrite firstn_length, skipn_length. lia. Qed.
Lemma stl_sl_one (b : str) : forall i, (i < length b)%nat -> stl_sl i 1 b = [stl_byte_at i b].
Proof.
  unfold stl_sl, stl_byte_at. induction b as [|a b IH]; intros i Hi; [cbn [length] in Hi; lia|].
  destruct i as [|i]; [reflexivity|]. cbn [skipn nth]. apply IH. cbn [length] in Hi. lia.
Qed.
(* a / b behind b != 0 *)
Lemma div_c_ok a b site : b <> 0%Z -> div_c a b site = Ok (Z.quot a b).
Proof. intros H. unfold div_c. apply Z.eqb_neq in H. rewrite H. reflexivity. Qed.

(* ================= READER ================= *)

(* ---- 877: v := vi.(string) behind "ok" ---- *)
Lemma decode1_c_ok acc v : decode1_c acc v = Ok (decode1 acc v).
Proof.
  unfold decode1_c, decode1. destruct (alookup v stl_table) as [s|] eqn:E; [|reflexivity].
  rewrite (tag_877 v s 877 E). reflexivity.
Qed.

(* ---- 643: the division behind a frame rate of the table ---- *)
Lemma frames_ns_c_ok frames fps : fps <> 0%Z -> frames_ns_c frames fps = Ok (frames_ns frames fps).
Proof. intros H. unfold frames_ns_c, frames_ns. apply div_c_ok. exact H. Qed.

(* ---- 846: b[0] .. b[3] on a 4-byte slice ---- *)
Lemma parse_stl_bytes_c_ok b fps : length b = 4%nat -> fps <> 0%Z -> parse_stl_bytes_c b fps = Ok (parse_stl_bytes b fps).
Proof.
  intros L Hf. destruct b as [|h [|m [|s [|f [|x r]]]]]; try discriminate L.
  unfold parse_stl_bytes_c, parse_stl_bytes, index. cbn [nth_error bind]. rewrite (frames_ns_c_ok _ _ Hf). reflexivity.
Qed.

(* ---- 608, 615, 622, 629 behind "len(i) < 8" (602) ---- *)
Lemma parse_stl_c_ok s fps : fps <> 0%Z ->
  parse_stl_c s fps = if Nat.ltb (length s) 8 then Err EParse else match parse_stl s fps with Some d => Ok d | None => Err EParse end.
Proof.
  intros Hf. unfold parse_stl_c. destruct (Nat.ltb (length s) 8) eqn:E; [reflexivity|]. apply Nat.ltb_ge in E.
  unfold parse_stl, sub2.
  rewrite (slice_ok s 0 2), (slice_ok s 2 4), (slice_ok s 4 6), (slice_ok s 6 8) by lia.
  cbn [bind Nat.sub]. unfold stl_sl.
  destruct (atoi (firstn 2 (skipn 0 s))) as [h|]; [|reflexivity].
  destruct (atoi (firstn 2 (skipn 2 s))) as [m|]; [|reflexivity].
  destruct (atoi (firstn 2 (skipn 4 s))) as [sec|]; [|reflexivity].
  destruct (atoi (firstn 2 (skipn 6 s))) as [f|]; [|reflexivity].
  rewrite (frames_ns_c_ok _ _ Hf). reflexivity.
Qed.
Lemma tc_field_c_ok v fps : fps <> 0%Z -> tc_field_c v fps = tc_field v fps.
Proof.
  intros Hf. unfold tc_field_c, tc_field. destruct (trim_space v) as [|c t]; [reflexivity|]. apply parse_stl_c_ok. exact Hf.
Qed.

(* ---- 768-777 behind readNBytes(i, 128) ---- *)
Lemma parse_tti_c_ok p fps : length p = 128%nat -> fps <> 0%Z -> parse_tti_c p fps = Ok (parse_tti p fps).
Proof.
  intros L Hf. unfold parse_tti_c, parse_tti.
  rewrite !index_in_range by lia. cbn [bind].
  rewrite (slice_ok p 1 3), (slice_ok p 16 128), (slice_ok p 5 9), (slice_ok p 9 13) by lia. cbn [bind Nat.sub].
  rewrite !index_sl by lia. cbn [bind Nat.add].
  rewrite !parse_stl_bytes_c_ok by (try exact Hf; apply stl_sl_length; lia). cbn [bind]. reflexivity.
Qed.

(* ---- 431-547 behind readNBytes(i, 1024); 452 behind "ok"; the divisions of the two timecodes behind the table ---- *)
Lemma parse_gsi_c_ok b : length b = 1024%nat -> parse_gsi_c b = parse_gsi b.
Proof.
  intros L. unfold parse_gsi_c, parse_gsi.
  rewrite (stl_sl_one b 11), (stl_sl_one b 255) by lia.
  repeat (first [rewrite (slice_ok b) by lia | rewrite (index_sl b) by lia | rewrite (index_in_range b) by lia
                | rewrite (slice_from_ok b) by lia]; cbn [bind Nat.sub Nat.add]).
  destruct (slookup (stl_sl 3 8 b) stl_framerate) as [fps|] eqn:E; [|reflexivity].
  rewrite (tag_452 _ fps 452 E). cbn [bind]. pose proof (framerate_nz _ _ E) as Hf.
  rewrite !(tc_field_c_ok _ fps Hf). reflexivity.
Qed.

(* ---- subtitles.go 354 behind 353; 366, 372 behind "!= nil && MaxRows > 0" (364) ---- *)
Lemma vtt_align_c_ok j : vtt_align_c (Some j) = Ok (vtt_align j).
Proof. reflexivity. Qed.
Lemma vtt_line_c_ok vp maxrows : vtt_line_c (Some (vp, maxrows)) = Ok (vtt_line vp maxrows).
Proof.
  unfold vtt_line_c, vtt_line. cbn [is_some deref bind]. destruct (0 <? maxrows)%Z eqn:E; [|reflexivity].
  apply Z.ltb_lt in E. rewrite !div_c_ok by lia. cbn [bind].
  destruct ((maxrows =? 23)%Z && (0 <? vp)%Z); reflexivity.
Qed.

(* ---- 1108, 1115, 1118: li.InlineStyle is non-nil from 1090 on; 1139 makes it non-nil anyway ---- *)
Lemma append_open_c_ok items text a : append_open_c items text (Some a) = Ok (append_open items text a).
Proof. unfold append_open_c, append_open. destruct (trim_space text); reflexivity. Qed.
Lemma append_open_c_nil items a : append_open items [] a = items.
Proof. reflexivity. Qed.
Lemma open_row_c_ok row : forall items text a acc, open_row_c row items text (Some a) acc = open_row row items text a acc.
Proof.
  induction row as [|v r IH]; intros items text a acc.
  - cbn [open_row_c open_row]. rewrite append_open_c_ok. reflexivity.
  - cbn [open_row_c open_row]. destruct (v <=? 31); [reflexivity|]. destruct (sty_code v) as [c|].
    + cbn [deref bind]. destruct text as [|t0 text'].
      * cbn [length Nat.ltb Nat.leb bind deref]. rewrite IH, append_open_c_nil. reflexivity.
      * change (Nat.ltb 0 (length (t0 :: text'))) with true. cbv iota. rewrite append_open_c_ok. cbn [bind deref]. apply IH.
    + rewrite decode1_c_ok. cbn [bind]. destruct (decode1 acc v) as [o acc']. apply IH.
Qed.
Lemma rows_open_c_ok rows : forall acc lines, rows_open_c rows acc lines = rows_open rows acc lines.
Proof.
  induction rows as [|row r IH]; intros acc lines; [reflexivity|]. cbn [rows_open_c rows_open]. rewrite open_row_c_ok.
  destruct (open_row row [] [] sattr0_stl acc) as [[l acc']|k|s]; cbn [bind]; [apply IH | reflexivity | reflexivity].
Qed.

(* ---- the teletext rows of an STL file: the character decoding through the checked decoder ---- *)
Lemma stl_ttx_row_c_ok row : forall items text a started acc,
  stl_ttx_row_c row items text a started acc = Ok (stl_ttx_row row items text a started acc).
Proof.
  induction row as [|v r IH]; intros items text a started acc; [reflexivity|].
  cbn [stl_ttx_row_c stl_ttx_row]. cbv zeta.
  destruct (o_some _ || o_some _ || o_some _ || o_some _ || o_some _).
  - match goal with |- (if ?c then _ else _) = _ => destruct c end; apply IH.
  - match goal with |- (if ?c then _ else _) = _ => destruct c end; [|apply IH].
    rewrite decode1_c_ok. cbn [bind]. destruct (decode1 acc v) as [o acc']. apply IH.
Qed.
Lemma rows_ttx_c_ok rows : forall acc lines, rows_ttx_c rows acc lines = Ok (rows_ttx rows acc lines).
Proof.
  induction rows as [|row r IH]; intros acc lines; [reflexivity|]. cbn [rows_ttx_c rows_ttx]. cbv zeta. rewrite stl_ttx_row_c_ok.
  cbn [bind]. destruct (stl_ttx_row _ [] [] sattr0_stl false acc) as [l acc']. apply IH.
Qed.

(* ---- one TTI block ---- *)
Lemma tti_step_c_ok g tcp acc items p : length p = 128%nat -> g_fps g <> 0%Z -> tti_step_c g tcp acc items p = tti_step g tcp acc items p.
Proof.
  intros L Hf. unfold tti_step_c, tti_step. rewrite (parse_tti_c_ok p _ L Hf). cbn [bind].
  destruct (t_ebn _ =? 254)%Z; [reflexivity|]. rewrite vtt_align_c_ok, vtt_line_c_ok. cbn [bind]. cbv zeta.
  destruct (str_eqb (g_dsc g) stl_s_dscOpen).
  - rewrite rows_open_c_ok. destruct (rows_open _ acc []) as [[lines acc']|k|s]; reflexivity.
  - rewrite rows_ttx_c_ok. cbn [bind]. destruct (rows_ttx _ acc []) as [lines acc']. reflexivity.
Qed.

(* ---- readNBytes: a block that was returned has the requested length (305-320) ---- *)
Lemma read_n_len n data p rest cs : read_n n data [] = RnOk p rest cs -> length p = n.
Proof.
  intros H. destruct (Nat.le_gt_cases n (length data)) as [Hl|Hl].
  - destruct (read_n_full n data [] Hl) as (cs' & R). rewrite R in H. injection H as <- _ _. apply firstn_length_le. exact Hl.
  - rewrite (read_n_short_any n data [] Hl) in H. destruct data; discriminate H.
Qed.

Lemma tti_loop_chk_ok fuel : forall data g tcp acc items, g_fps g <> 0%Z ->
  tti_loop_chk fuel data g tcp acc items = tti_loop fuel data g tcp acc items.
Proof.
  induction fuel as [|f IH]; intros data g tcp acc items Hf; [reflexivity|].
  rewrite tti_loop_unfold. cbn [tti_loop_chk]. destruct (read_n 128 data []) as [p rest cs| |] eqn:R; try reflexivity.
  rewrite (tti_step_c_ok g tcp acc items p (read_n_len _ _ _ _ _ R) Hf).
  destruct (tti_step g tcp acc items p) as [[acc' items']|k|s]; cbn [bind]; [apply IH; exact Hf | reflexivity | reflexivity].
Qed.

(* the frame rate of a parsed GSI block is one of the table *)
Lemma bind_ok_inv {A B} (r : res A) (f : A -> res B) y : bind r f = Ok y -> exists x, r = Ok x /\ f x = Ok y.
Proof. destruct r as [x|k|s]; cbn [bind]; intros H; [exists x; split; [reflexivity | exact H] | discriminate H | discriminate H]. Qed.
Lemma parse_gsi_fps_nz b g : parse_gsi b = Ok g -> g_fps g <> 0%Z.
Proof.
  unfold parse_gsi. destruct (slookup (stl_sl 3 8 b) stl_framerate) as [fps|] eqn:E; [|discriminate].
  intros H. pose proof (framerate_nz _ _ E) as Hf.
  repeat (apply bind_ok_inv in H; destruct H as (? & _ & H)).
  injection H as <-. exact Hf.
Qed.

(* THE CHECKED READER AGREES WITH THE READER OF THE FIDELITY THEOREMS *)
Theorem read_stl_c_ok ign data : read_stl_c ign data = read_stl ign data.
Proof.
  unfold read_stl_c, read_stl. destruct (read_n 1024 data []) as [b rest cs| |] eqn:R; try reflexivity.
  rewrite (parse_gsi_c_ok b (read_n_len _ _ _ _ _ R)).
  destruct (parse_gsi b) as [g|k|s] eqn:G; cbn [bind]; try reflexivity.
  destruct (negb _); [reflexivity|]. cbv zeta.
  rewrite (tti_loop_chk_ok _ _ g _ None [] (parse_gsi_fps_nz b g G)).
  destruct (slookup (g_lc g) stl_language) as [l|] eqn:E; [rewrite (tag_236 _ l 236 E)|]; reflexivity.
Qed.
Theorem read_stl_c_no_panic ign data site : read_stl_c ign data <> Panic site.
Proof. rewrite read_stl_c_ok. apply read_total. Qed.

(* ================= WRITER ================= *)

(* ---- 383, 401, 404, 409 behind "!= nil"; 397 behind "ok"; 382 behind "s.Metadata != nil" (381); 422 behind
   "len(s.Items) > 0" (421) ---- *)
Lemma gsi_add_meta_c_ok now n m : exists g, gsi_add_meta_c now n m = Ok g /\
  g = mkGsi stl_c_cctLatin stl_c_codePageMultilingual
          (match wm_co m with [] => stl_s_countryFrance | c => c end)
          (match wm_cd m with Some d => d | None => now end) 1
          (match wm_dsc m with [] => stl_s_dscLevel1 | c => c end)
          (wm_ecd m) (wm_en m)
          (if o_some (zlookup (wm_fps m) stl_framerate_inv) then wm_fps m else 25%Z)
          (match slookup (wm_lang m) stl_language_inv with Some c => c | None => stl_s_languageFrench end)
          (match wm_mnc m with Some v => v | None => 40%Z end)
          (match wm_mnr m with Some v => v | None => 23%Z end)
          (wm_oet m) (wm_title m) (wm_pub m)
          (match wm_rd m with Some d => d | None => now end)
          (wm_rn m) (wm_slr m) 0%Z (wm_tcp m) stl_s_timecodeStatus1 1 1 n n
          (wm_tet m) (wm_tpt m) (wm_tcd m) (wm_tn m) [].
Proof.
  unfold gsi_add_meta_c.
  destruct (wm_cd m) as [cd|]; cbn [is_some deref bind];
  (destruct (slookup (wm_lang m) stl_language_inv) as [c|] eqn:E; [rewrite (tag_397 _ c 397 E)|]); cbn [bind];
  destruct (wm_mnc m) as [mnc|]; cbn [is_some deref bind];
  destruct (wm_mnr m) as [mnr|]; cbn [is_some deref bind];
  destruct (wm_rd m) as [rd|]; cbn [is_some deref bind]; eexists; split; reflexivity.
Qed.
Theorem new_gsi_c_ok now md items : new_gsi_c now md items = Ok (new_gsi now md items).
Proof.
  unfold new_gsi_c, new_gsi. cbv zeta. destruct md as [m|]; cbn [is_some deref bind].
  - destruct (gsi_add_meta_c_ok now (Z.of_nat (length items)) m) as (g & R & Hg). rewrite R. cbn [bind].
    destruct items as [|i0 r]; [cbn [length Nat.ltb Nat.leb]; rewrite Hg; reflexivity|].
    change (Nat.ltb 0 (length (i0 :: r))) with true. cbv iota. unfold index. cbn [nth_error bind]. rewrite Hg. reflexivity.
  - destruct items as [|i0 r]; [reflexivity|].
    change (Nat.ltb 0 (length (i0 :: r))) with true. cbv iota. unfold index. cbn [nth_error bind]. reflexivity.
Qed.

(* ---- 560, 569: constant slices of the 4-byte buffer; 564 behind "ok" ---- *)
Theorem gsi_bytes_c_ok g : gsi_bytes_c g = Ok (gsi_bytes g).
Proof.
  unfold gsi_bytes_c, gsi_bytes. cbv zeta. unfold slice_from, slice_to. cbn [length Nat.leb skipn firstn set_nth bind].
  destruct (zlookup (g_fps g) stl_framerate_inv) as [f|] eqn:E; [rewrite (tag_564 _ f 564 E)|]; cbn [bind]; reflexivity.
Qed.

(* ---- 727 behind 724; 743 behind 742 ---- *)
Lemma jc_of_c_ok j : jc_of_c j = Ok (jc_of j).
Proof. destruct j; reflexivity. Qed.
Lemma vp_of_c_ok vp : vp_of_c vp = Ok (match vp with Some v => v | None => 20%Z end).
Proof. destruct vp; reflexivity. Qed.

(* ---- 1053, 1057, 1060 behind their "ok"; o[:len(o)-1], o[len(o)-1] behind "len(o) == 0" (1056) ---- *)
Lemma enc_step_c_ok o c : enc_step_c o c = Ok (enc_step o c).
Proof.
  unfold enc_step_c, enc_step. destruct (alookup c stl_unicode_mapping_inv) as [b|] eqn:E1; [rewrite (tag_1053 _ b 1053 E1); reflexivity|].
  destruct (alookup c stl_unicode_diacritic_inv) as [d|] eqn:E2; [|reflexivity].
  destruct o as [|l o']; cbn [length Nat.eqb].
  - rewrite (tag_1057 _ d 1057 E2). reflexivity.
  - unfold slice_from, index. cbn [length Nat.leb skipn nth_error bind]. rewrite (tag_1057 _ d 1060 E2). reflexivity.
Qed.
Lemma enc_fold_c_ok rs : forall o, enc_fold_c rs o = Ok (fold_left enc_step rs o).
Proof. induction rs as [|c r IH]; intros o; [reflexivity|]. cbn [enc_fold_c fold_left]. rewrite enc_step_c_ok. cbn [bind]. apply IH. Qed.
Lemma encode_text_stl_c_ok s : encode_text_stl_c s = Ok (encode_text_stl s).
Proof.
  unfold encode_text_stl_c, encode_text_stl, enc_runes. destruct (utf8_decode s) as [rs|]; [|reflexivity].
  rewrite enc_fold_c_ok. reflexivity.
Qed.

Lemma tti_bytes_c_ok fps dsc tcp t : tti_bytes_c fps dsc tcp t = Ok (tti_bytes fps dsc tcp t).
Proof. unfold tti_bytes_c, tti_bytes. rewrite encode_text_stl_c_ok. reflexivity. Qed.
Lemma new_tti_c_ok i idx : new_tti_c i idx = Ok (new_tti i idx).
Proof. unfold new_tti_c, new_tti. rewrite jc_of_c_ok, vp_of_c_ok. reflexivity. Qed.
Lemma tti_blocks_c_ok fps dsc tcp items : forall idx, tti_blocks_c fps dsc tcp items idx = Ok (tti_blocks fps dsc tcp items idx).
Proof.
  induction items as [|i r IH]; intros idx; [reflexivity|]. cbn [tti_blocks_c tti_blocks].
  rewrite new_tti_c_ok. cbn [bind]. rewrite tti_bytes_c_ok. cbn [bind]. rewrite IH. reflexivity.
Qed.

(* THE CHECKED WRITER AGREES WITH THE WRITER OF THE FIDELITY THEOREMS *)
Theorem write_stl_c_ok now md items : write_stl_c now md items = write_stl now md items.
Proof.
  unfold write_stl_c, write_stl. destruct items as [|i r]; [reflexivity|]. cbn [length Nat.eqb].
  rewrite new_gsi_c_ok. cbn [bind]. rewrite gsi_bytes_c_ok. cbn [bind]. rewrite tti_blocks_c_ok. reflexivity.
Qed.
Theorem write_stl_c_no_panic now md items site : write_stl_c now md items <> Panic site.
Proof. rewrite write_stl_c_ok. apply write_total. Qed.

(* ---- per-function corollaries: under the guard of the caller, no site of the function is reachable ---- *)
Corollary parse_gsi_c_no_panic b site : length b = 1024%nat -> parse_gsi_c b <> Panic site.
Proof. intros L. rewrite (parse_gsi_c_ok b L). apply parse_gsi_no_panic. Qed.
Corollary parse_tti_c_no_panic p fps site : length p = 128%nat -> fps <> 0%Z -> parse_tti_c p fps <> Panic site.
Proof. intros L Hf. rewrite (parse_tti_c_ok p fps L Hf). discriminate. Qed.
Corollary tti_step_c_no_panic g tcp acc items p site :
  length p = 128%nat -> g_fps g <> 0%Z -> tti_step_c g tcp acc items p <> Panic site.
Proof. intros L Hf. rewrite (tti_step_c_ok g tcp acc items p L Hf). apply tti_step_no_panic. Qed.
Corollary new_gsi_c_no_panic now md items site : new_gsi_c now md items <> Panic site.
Proof. rewrite new_gsi_c_ok. discriminate. Qed.
Corollary enc_step_c_no_panic o c site : enc_step_c o c <> Panic site.
Proof. rewrite enc_step_c_ok. discriminate. Qed.

(* ================= THE GUARDS MATTER: with one dropped, [Panic] is reachable ================= *)
(* (i) parseGSIBlock on a block that is not 1024 bytes long (the guard is readNBytes' length check): the first slice *)
Example gsi_short_block_panics : parse_gsi_c (repeat 32 10%nat) = Panic 431.
Proof. vm_compute. reflexivity. Qed.
(* on 100 bytes b[12:14] (431) is in range: the first access out of range is b[274:277] *)
Example gsi_100_byte_block_panics : parse_gsi_c (repeat 32 100%nat) = Panic 432.
Proof. vm_compute. reflexivity. Qed.
Example gsi_short_block_panics_later : parse_gsi_c (repeat 32 300%nat) = Panic 435.
Proof. vm_compute. reflexivity. Qed.
Example tti_short_block_panics : parse_tti_c (repeat 32 100%nat) 25 = Panic 774.
Proof. vm_compute. reflexivity. Qed.
Example tti_empty_block_panics : parse_tti_c [] 25 = Panic 768.
Proof. vm_compute. reflexivity. Qed.
(* (ii) newGSIBlock without "if s.Metadata != nil" (381), on a nil Metadata: the first s.Metadata.X *)
Example gsi_unguarded_metadata_panics now items : new_gsi_unguarded now None items = Panic 382.
Proof. reflexivity. Qed.
(* ... and without "if len(s.Items) > 0" (421), on no items *)
Example gsi_unguarded_items_panics now md : new_gsi_unguarded_items now md [] = Panic 422.
Proof.
  unfold new_gsi_unguarded_items. destruct md as [m|]; cbn [is_some deref bind]; [|reflexivity].
  destruct (gsi_add_meta_c_ok now (Z.of_nat (length (@nil witem))) m) as (g & R & _). rewrite R. reflexivity.
Qed.
(* (iii) stlFramesToNanoseconds with a zero frame rate (the guard is the frame rate table: 25 and 30 only) *)
Example frames_zero_rate_panics f : frames_ns_c f 0 = Panic 643.
Proof. reflexivity. Qed.
Example tti_zero_rate_panics : parse_tti_c (repeat 0 128%nat) 0 = Panic 643.
Proof. vm_compute. reflexivity. Qed.
(* (iv) encodeTextSTL without "if len(o) == 0" (1056), on a leading combining mark (U+0300 with nothing written) *)
Example enc_unguarded_leading_mark_panics : enc_step_unguarded [] 768 = Panic 1060.
Proof. vm_compute. reflexivity. Qed.
(* ... with the guard: the mark alone *)
Example enc_guarded_leading_mark : enc_step_c [] 768 = Ok [193].
Proof. vm_compute. reflexivity. Qed.
(* (v) parseDurationSTL without "if len(i) < 8" (602), on "123" *)
Example stl_duration_unguarded_panics : parse_stl_unguarded [49; 50; 51] 25 = Panic 615.
Proof. vm_compute. reflexivity. Qed.
Example stl_duration_guarded : parse_stl_c [49; 50; 51] 25 = Err EParse.
Proof. vm_compute. reflexivity. Qed.
(* (vi) propagateSTLAttributes without "MaxRows > 0" (subtitles.go 364), on MaxRows = 0 (a GSI block may say "00") *)
Example vtt_line_unguarded_panics vp : vtt_line_unguarded (Some (vp, 0%Z)) = Panic 10366.
Proof. reflexivity. Qed.
Example vtt_line_guarded vp : vtt_line_c (Some (vp, 0%Z)) = Ok [].
Proof. reflexivity. Qed.
(* (vii) parseOpenSubtitleRow with a nil li.InlineStyle (without the initialisation of 1090), on a style code *)
Example open_row_nil_style_panics : open_row_c [128] [] [] None None = Panic 1108.
Proof. vm_compute. reflexivity. Qed.
(* (viii) a type assertion without its "ok": a byte that is not in the character table (0x05), a value of another type *)
Example assert_missing_key_panics : assert_tag (alookup 5 stl_table_tags) tag_string 877 = Panic 877.
Proof. vm_compute. reflexivity. Qed.
Example assert_wrong_type_panics : assert_tag (Some tag_int) tag_string 877 = Panic 877.
Proof. reflexivity. Qed.

(* ================= site -> guard =================
   site    operation                                         guard (line)                                        lemma
   ------  ------------------------------------------------  --------------------------------------------------  -----------------
   236     v.(string)  stlLanguageMapping.Get                "ok" (235) + tag table                              read_stl_c_ok
   431-447 b[12:14] ... b[448:], b[11], b[255]               readNBytes(i, 1024) returned no error (192, 305)    parse_gsi_c_ok
   451,454 b[3:11]                                           same                                                parse_gsi_c_ok
   452     v.(int)     stlFramerateMapping.Get               "ok" (451) + tag table                              parse_gsi_c_ok
   459-547 b[224:230] ... b[264:272], b[272], b[273]         readNBytes(i, 1024)                                 parse_gsi_c_ok
   608-629 i[0:2] i[2:4] i[4:6] i[6:8]                       "len(i) < 8" returns (602)                          parse_stl_c_ok
   643     / framerate                                       framerate is a value of stlFramerateMapping (452):  frames_ns_c_ok,
                                                             25 or 30, never 0 (stl_framerate_nonzero)           parse_gsi_fps_nz
   768-777 p[15] p[4] p[3] p[14] p[0] p[1:3] p[16:128]       readNBytes(i, 128) returned no error (242, 305)     parse_tti_c_ok
           p[5:9] p[9:13] p[13]
   846     b[0] b[1] b[2] b[3]                               b = p[5:9] / p[9:13]: four bytes (775, 776)         parse_stl_bytes_c_ok
   877     vi.(string) h.m.Get                               "!ok" returns (874) + tag table                     decode1_c_ok
   1108    s.hasChanged(li.InlineStyle)   (reads *sa, 921)   li.InlineStyle = &StyleAttributes{} (1090, 1114)    open_row_c_ok
   1115    *sa = *li.InlineStyle                             same                                                open_row_c_ok
   1118    s.update(li.InlineStyle)       (reads *sa, 929)   same                                                open_row_c_ok
   10353   sa.STLJustification in propagateSTLAttributes     "li.InlineStyle == nil" re-creates it (1139)        append_open_c_ok
           called through 1145 on li.InlineStyle
   10354   *sa.STLJustification                              "!= nil" (subtitles.go 353); &justification (268)   vtt_align_c_ok
   10364   sa.STLPosition.MaxRows                            "!= nil &&" (364); &position (269)                  vtt_line_c_ok
   10366   / sa.STLPosition.MaxRows                          "MaxRows > 0" (364)                                 vtt_line_c_ok
   10372   / sa.STLPosition.MaxRows                          same                                                vtt_line_c_ok
   382     s.Metadata.STLCreationDate (and every             "s.Metadata != nil" (381)                           new_gsi_c_ok
           s.Metadata.X up to 418)
   383     *s.Metadata.STLCreationDate                       "!= nil" (382)                                      gsi_add_meta_c_ok
   397     v.(string)  stlLanguageMapping.GetInverse         "ok" (396) + tag table                              gsi_add_meta_c_ok
   401     *...DisplayableCharactersInAnyTextRow             "!= nil" (400)                                      gsi_add_meta_c_ok
   404     *...DisplayableRows                               "!= nil" (403)                                      gsi_add_meta_c_ok
   409     *s.Metadata.STLRevisionDate                       "!= nil" (408)                                      gsi_add_meta_c_ok
   422     s.Items[0]                                        "len(s.Items) > 0" (421)                            new_gsi_c_ok
   560     bs[1:]                                            bs = make([]byte, 4) (558)                          gsi_bytes_c_ok
   564     v.(string)  stlFramerateMapping.GetInverse        "ok" (563) + tag table                              gsi_bytes_c_ok
   569     bs[:2]                                            bs = make([]byte, 4) (558)                          gsi_bytes_c_ok
   727     *sa.STLJustification                              "sa == nil || sa.STLJustification == nil" returns   jc_of_c_ok
                                                             (724)
   743     sa.STLPosition.VerticalPosition                   "sa != nil && sa.STLPosition != nil" (742)          vp_of_c_ok
   1053    v.(byte)    stlUnicodeMapping.GetInverse          "ok" (1052) + tag table                             enc_step_c_ok
   1057    v.(byte)    stlUnicodeDiacritic.GetInverse        "ok" (1054) + tag table                             enc_step_c_ok
   1060    o[:len(o)-1], v.(byte), o[len(o)-1]               "len(o) == 0" continues (1056); "ok" (1054)         enc_step_c_ok
   943     (no access) "len(s.Items) == 0" returns ErrNoSubtitlesToWrite                                         write_stl_c_ok
*)
