(* SSA/ASS reader: what it ignores (blank and unintelligible lines, unknown sections, events other than Dialogue),
   totality of reader and writer, '*'-prefixed style references. *)
From Coq Require Import List ZArith NArith Bool Lia.
From Astisub Require Import Kit.Base Kit.Str Kit.Scan Model.Dur Model.Ssa.
From Astisub Require Import Proofs.VttBase Proofs.ScanProofs Proofs.EolProofs Proofs.SsaFields Proofs.SsaTrim Proofs.SsaRows Proofs.SsaLines Proofs.SsaInfo Proofs.SsaStyles Proofs.SsaEvents.
Import ListNotations.
Open Scope N_scope.

(* ---- [ssa_line] by cases, the literal patterns turned into tests ---- *)
Definition hdr_result (s : rstate) (inner : str) : rstate :=
  match section_of inner with
  | SEvents => mkRstate SEvents [] (rs_info s) (rs_styles s) (rs_events s)
  | SInfo => mkRstate SInfo (rs_fmt s) (rs_info s) (rs_styles s) (rs_events s)
  | SStyles => mkRstate SStyles [] (rs_info s) (rs_styles s) (rs_events s)
  | _ => mkRstate SUnknown (rs_fmt s) (rs_info s) (rs_styles s) (rs_events s)
  end.
Definition is_unknown (x : asect) : bool := match x with SUnknown => true | _ => false end.
Lemma ssa_line_cases s line :
  ssa_line s line =
  match bracketed line with
  | Some inner => Ok (hdr_result s inner)
  | None =>
    if is_unknown (rs_sect s) then Ok s
    else match line with
         | [] => Ok s
         | c :: r => if c =? 59 then Ok (mkRstate (rs_sect s) (rs_fmt s) (add_comment (trim_space r) (rs_info s)) (rs_styles s) (rs_events s))
                     else ssa_line_kv s line
         end
  end.
Proof.
  unfold ssa_line, hdr_result. destruct s as [sect fmt info sts evs]. cbn [rs_sect rs_fmt rs_info rs_styles rs_events].
  destruct (bracketed line) as [inner|] eqn:Eb; [destruct (section_of inner); reflexivity|].
  destruct sect; cbn [is_unknown]; try reflexivity;
    (destruct line as [|c r]; [reflexivity|];
     destruct (c =? 59) eqn:E59;
     [apply N.eqb_eq in E59; subst c; reflexivity|];
     apply N.eqb_neq in E59;
     unfold ssa_line_kv, kv_dispatch;
     (destruct c as [|p]; [reflexivity|]; do 6 (destruct p as [p|p|]; try reflexivity); contradiction)).
Qed.

(* ---------------------------------------------------------------- totality *)
Lemma style_cell_no_panic a i s p : style_cell a i s <> Panic p.
Proof.
  unfold style_cell. destruct (sattr_of_name a) as [[x|x|x|x| |]|]; try discriminate.
  - destruct i; discriminate.
  - destruct (parse_color i) eqn:E; try discriminate. intros H. injection H as <-. exact (parse_color_no_panic i _ E).
  - destruct i; [discriminate|]. destruct (parse_float3 _); discriminate.
  - destruct i; [discriminate|]. destruct (atoi _); discriminate.
Qed.
Lemma style_cells_no_panic fmt : forall items s p, style_cells fmt items s <> Panic p.
Proof.
  induction fmt as [|a fr IH]; intros items s p; [discriminate|]. destruct items as [|it ir]; [discriminate|].
  cbn [style_cells]. destruct (style_cell a it s) eqn:E; [apply IH | discriminate | exfalso; exact (style_cell_no_panic _ _ _ _ E)].
Qed.
Lemma style_from_string_no_panic c fmt p : style_from_string c fmt <> Panic p.
Proof. unfold style_from_string. destruct (Nat.eqb _ _); [apply style_cells_no_panic | discriminate]. Qed.
Lemma event_cell_no_panic a i e p : event_cell a i e <> Panic p.
Proof.
  unfold event_cell. destruct e. destruct (eattr_of_name a) as [[]|]; try discriminate;
    try (destruct (parse_time i); discriminate); destruct (atoi i); discriminate.
Qed.
Lemma event_cells_no_panic fmt : forall items e p, event_cells fmt items e <> Panic p.
Proof.
  induction fmt as [|a fr IH]; intros items e p; [discriminate|]. destruct items as [|it ir]; [discriminate|].
  cbn [event_cells]. destruct (event_cell a it e) eqn:E; [apply IH | discriminate | exfalso; exact (event_cell_no_panic _ _ _ _ E)].
Qed.
Lemma event_from_string_no_panic h c fmt p : fmt <> [] -> event_from_string h c fmt <> Panic p.
Proof.
  intros Hne. unfold event_from_string. destruct (Nat.ltb _ _); [discriminate|].
  destruct fmt as [|a fr]; [contradiction|]. cbn [length]. apply event_cells_no_panic.
Qed.
Lemma info_parse_no_panic b h c p : info_parse b h c <> Panic p.
Proof.
  unfold info_parse. destruct (find_ikey _ _); [discriminate|]. destruct (find_nkey _ _); [destruct (atoi c); discriminate|].
  destruct (str_eqb _ _); [|discriminate]. destruct (parse_float3 _); discriminate.
Qed.
Lemma kv_dispatch_no_panic s h c p : kv_dispatch s h c <> Panic p.
Proof.
  unfold kv_dispatch. destruct s as [sect fmt info sts evs]. destruct sect; try discriminate.
  - destruct (str_eqb h n_format); [discriminate|]. destruct fmt as [|f0 fr]; [discriminate|].
    destruct (event_from_string h c (f0 :: fr)) eqn:E; try discriminate. intros H. injection H as <-.
    exact (event_from_string_no_panic h c (f0 :: fr) _ ltac:(discriminate) E).
  - destruct (info_parse info h c) eqn:E; try discriminate. intros H. injection H as <-. exact (info_parse_no_panic _ _ _ _ E).
  - destruct (str_eqb h n_format); [discriminate|]. destruct fmt as [|f0 fr]; [discriminate|].
    destruct (style_from_string c (f0 :: fr)) eqn:E; try discriminate. intros H. injection H as <-.
    exact (style_from_string_no_panic _ _ _ E).
Qed.
Lemma ssa_line_no_panic s line p : ssa_line s line <> Panic p.
Proof.
  rewrite ssa_line_cases. destruct (bracketed line); [discriminate|]. destruct (is_unknown _); [discriminate|].
  destruct line as [|c r]; [discriminate|]. destruct (c =? 59); [discriminate|].
  unfold ssa_line_kv. destruct (split_byte 58 (c :: r)) as [|h [|r0 rr]]; try discriminate.
  destruct h; [discriminate|]. apply kv_dispatch_no_panic.
Qed.
Lemma ssa_step_no_panic s f raw p : ssa_step s f raw <> Panic p.
Proof. unfold ssa_step. destruct (if f then _ else _); [discriminate | apply ssa_line_no_panic]. Qed.
Lemma ssa_run_no_panic ls : forall s f p, ssa_run s f ls <> Panic p.
Proof.
  induction ls as [|l r IH]; intros s f p; [discriminate|]. cbn [ssa_run].
  destruct (ssa_step s f l) eqn:E; [apply IH | discriminate | exfalso; exact (ssa_step_no_panic _ _ _ _ E)].
Qed.
(* READER TOTALITY: whatever the lines, the reader returns a document or an error *)
Theorem read_no_panic ls e p : read_ssa_lines ls e <> Panic p.
Proof.
  unfold read_ssa_lines. destruct (ssa_run rstate0 true ls) eqn:E; [destruct e; discriminate | discriminate|].
  exfalso. exact (ssa_run_no_panic _ _ _ _ E).
Qed.
(* WRITER TOTALITY: whatever the document (nil metadata, nil styles, nil inline attributes, no lines, ...) and the map order *)
Theorem write_no_panic d order p : write_ssa d order <> Panic p.
Proof. unfold write_ssa, write_ssa_chunks. destruct (ad_items d); discriminate. Qed.
Theorem write_empty d order : ad_items d = [] -> write_ssa d order = Err ENothingToWrite.
Proof. intros H. unfold write_ssa, write_ssa_chunks. rewrite H. reflexivity. Qed.

(* ---------------------------------------------------------------- lines that are ignored *)
Lemma ssa_run_app_gen l1 : forall s f l2, l1 <> [] ->
  ssa_run s f (l1 ++ l2) = match ssa_run s f l1 with Ok s' => ssa_run s' false l2 | Err k => Err k | Panic p => Panic p end.
Proof.
  destruct l1 as [|x r]; intros s f l2 Hne; [contradiction|]. cbn [app ssa_run].
  destruct (ssa_step s f x); [apply ssa_run_app | reflexivity | reflexivity].
Qed.

(* blank lines, lines without a colon, lines starting with a colon -- outside section headers and comments *)
Definition junk_trimmed (t : str) : Prop :=
  t = [] \/ (bracketed t = None /\ hd 0 t <> 59 /\ (~ In 58 t \/ hd 0 t = 58)).
Definition junk (line : str) : Prop := junk_trimmed (trim_space line).
Lemma junk_step s line : junk line -> ssa_step s false line = Ok s.
Proof.
  unfold junk, junk_trimmed, ssa_step. intros [->|(Hb & H59 & Hc)]; [reflexivity|].
  destruct (trim_space line) as [|c r] eqn:Et; [reflexivity|]. cbn [hd] in *.
  rewrite ssa_line_cases, Hb. destruct (is_unknown (rs_sect s)); [reflexivity|].
  apply N.eqb_neq in H59. rewrite H59. unfold ssa_line_kv. destruct Hc as [Hc| ->].
  - rewrite (split_byte_none 58 (c :: r) Hc). reflexivity.
  - cbn [split_byte]. rewrite N.eqb_refl. pose proof (split_byte_nonnil 58 r) as Hn.
    destruct (split_byte 58 r); [contradiction | reflexivity].
Qed.
Lemma junk_run l1 : forall s j l2, junk j -> ssa_run s false (l1 ++ j :: l2) = ssa_run s false (l1 ++ l2).
Proof.
  induction l1 as [|x r IH]; intros s j l2 Hj; cbn [app ssa_run].
  - rewrite (junk_step s j Hj). reflexivity.
  - destruct (ssa_step s false x); [apply IH; exact Hj | reflexivity | reflexivity].
Qed.
(* UNINTELLIGIBLE LINES ARE IGNORED: inserting such a line anywhere after the first line changes nothing *)
Theorem read_ignores_junk l1 j l2 e : l1 <> [] -> junk j ->
  read_ssa_lines (l1 ++ j :: l2) e = read_ssa_lines (l1 ++ l2) e.
Proof.
  intros Hne Hj. unfold read_ssa_lines. destruct l1 as [|x r]; [contradiction|]. cbn [app ssa_run].
  destruct (ssa_step rstate0 true x); [rewrite (junk_run r _ j l2 Hj); reflexivity | reflexivity | reflexivity].
Qed.

(* ---------------------------------------------------------------- unknown sections *)
Definition set_sect (x : asect) (s : rstate) : rstate := mkRstate x (rs_fmt s) (rs_info s) (rs_styles s) (rs_events s).
Definition is_hdr (line : str) : Prop := exists inner, bracketed (trim_space line) = Some inner.
Definition unknown_hdr (line : str) : Prop := exists inner, bracketed (trim_space line) = Some inner /\ section_of inner = SUnknown.
Definition not_hdr (line : str) : Prop := bracketed (trim_space line) = None.

Lemma bracketed_nonnil t inner : bracketed t = Some inner -> t <> [].
Proof. intros H ->. discriminate. Qed.
Lemma unknown_hdr_step s u : unknown_hdr u -> ssa_step s false u = Ok (set_sect SUnknown s).
Proof.
  intros (inner & Hb & Hs). unfold ssa_step. destruct (trim_space u) as [|c r] eqn:Et; [discriminate|].
  rewrite ssa_line_cases, Hb. unfold hdr_result. rewrite Hs. reflexivity.
Qed.
Lemma unknown_body_step s b : rs_sect s = SUnknown -> not_hdr b -> ssa_step s false b = Ok s.
Proof.
  intros Hs Hb. unfold not_hdr in Hb. unfold ssa_step. destruct (trim_space b) as [|c r] eqn:Et; [reflexivity|].
  rewrite ssa_line_cases, Hb, Hs. reflexivity.
Qed.
Lemma hdr_step_sect s x h : is_hdr h -> ssa_step (set_sect x s) false h = ssa_step s false h.
Proof.
  intros (inner & Hb). unfold ssa_step. destruct (trim_space h) as [|c r] eqn:Et; [discriminate|].
  rewrite !ssa_line_cases, Hb. reflexivity.
Qed.
Lemma unknown_body_run body : forall s, rs_sect s = SUnknown -> Forall not_hdr body -> ssa_run s false body = Ok s.
Proof.
  induction body as [|b r IH]; intros s Hs HF; [reflexivity|]. inversion HF as [|? ? Hb Hr]; subst. cbn [ssa_run].
  rewrite (unknown_body_step s b Hs Hb). apply IH; assumption.
Qed.
Lemma finish_set_sect x s : finish (set_sect x s) = finish s. Proof. reflexivity. Qed.

(* UNKNOWN SECTIONS ARE IGNORED: a header that names no known section, with any lines that are not section headers,
   inserted before a section header or at the end of the document, changes nothing *)
Theorem read_ignores_unknown_section l1 u body l2 e : l1 <> [] -> unknown_hdr u -> Forall not_hdr body ->
  (l2 = [] \/ exists h r, l2 = h :: r /\ is_hdr h) ->
  read_ssa_lines (l1 ++ u :: body ++ l2) e = read_ssa_lines (l1 ++ l2) e.
Proof.
  intros Hne Hu Hbody Hl2. unfold read_ssa_lines. rewrite !(ssa_run_app_gen l1) by exact Hne.
  destruct (ssa_run rstate0 true l1) as [s| |]; [|reflexivity|reflexivity].
  cbn [ssa_run]. rewrite (unknown_hdr_step s u Hu), ssa_run_app.
  rewrite (unknown_body_run body (set_sect SUnknown s) eq_refl Hbody).
  destruct Hl2 as [->|(h & r & -> & Hh)].
  - cbn [ssa_run]. rewrite finish_set_sect. reflexivity.
  - cbn [ssa_run]. rewrite (hdr_step_sect s SUnknown h Hh). reflexivity.
Qed.

(* ---------------------------------------------------------------- events other than Dialogue *)
(* two states that differ by one extra event [ev] somewhere in the event list *)
Definition extra_event (ev : aevent) (a b : rstate) : Prop :=
  rs_sect a = rs_sect b /\ rs_fmt a = rs_fmt b /\ rs_info a = rs_info b /\ rs_styles a = rs_styles b /\
  exists pre post, rs_events a = pre ++ ev :: post /\ rs_events b = pre ++ post.
Definition res_extra (ev : aevent) (ra rb : res rstate) : Prop :=
  match ra, rb with
  | Ok a, Ok b => extra_event ev a b
  | Err k, Err k' => k = k'
  | Panic p, Panic p' => p = p'
  | _, _ => False
  end.
Lemma extra_step ev a b f line : extra_event ev a b -> res_extra ev (ssa_step a f line) (ssa_step b f line).
Proof.
  intros (Hs & Hf & Hi & Hst & pre & post & Ha & Hb).
  destruct a as [sa fa ia sta ea], b as [sb fb ib stb eb]. cbn [rs_sect rs_fmt rs_info rs_styles rs_events] in *. subst sb fb ib stb ea eb.
  assert (Hsame : extra_event ev (mkRstate sa fa ia sta (pre ++ ev :: post)) (mkRstate sa fa ia sta (pre ++ post))).
  { repeat split. exists pre, post. split; reflexivity. }
  unfold ssa_step. destruct (if f then _ else _) as [|c r] eqn:El; [exact Hsame|].
  rewrite !ssa_line_cases. cbn [rs_sect rs_fmt rs_info rs_styles rs_events].
  destruct (bracketed (c :: r)) as [inner|].
  - unfold hdr_result. cbn [rs_fmt rs_info rs_styles rs_events]. destruct (section_of inner); cbn [res_extra];
      (repeat split; exists pre, post; split; reflexivity).
  - destruct (is_unknown sa); [exact Hsame|]. destruct (c =? 59).
    + cbn [res_extra]. repeat split. exists pre, post. split; reflexivity.
    + unfold ssa_line_kv. destruct (split_byte 58 (c :: r)) as [|h [|r0 rr]]; try exact Hsame.
      destruct h as [|h0 h']; [exact Hsame|]. unfold kv_dispatch. destruct sa; try exact Hsame.
      * destruct (str_eqb _ n_format); [cbn [res_extra]; repeat split; exists pre, post; split; reflexivity|].
        destruct fa as [|f0 fr]; [reflexivity|].
        destruct (event_from_string _ _ (f0 :: fr)) as [e| |]; cbn [res_extra]; try reflexivity.
        repeat split. exists pre, (post ++ [e]). split; [rewrite <- app_assoc; reflexivity | rewrite <- app_assoc; reflexivity].
      * destruct (info_parse ia _ _); cbn [res_extra]; try reflexivity. repeat split. exists pre, post. split; reflexivity.
      * destruct (str_eqb _ n_format); [cbn [res_extra]; repeat split; exists pre, post; split; reflexivity|].
        destruct fa as [|f0 fr]; [reflexivity|].
        destruct (style_from_string _ (f0 :: fr)); cbn [res_extra]; try reflexivity.
        repeat split. exists pre, post. split; reflexivity.
Qed.
Lemma extra_run ev ls : forall a b f, extra_event ev a b -> res_extra ev (ssa_run a f ls) (ssa_run b f ls).
Proof.
  induction ls as [|l r IH]; intros a b f H; [exact H|]. cbn [ssa_run].
  pose proof (extra_step ev a b f l H) as Hs. destruct (ssa_step a f l), (ssa_step b f l); cbn [res_extra] in Hs; try contradiction.
  - apply IH. exact Hs.
  - cbn [res_extra]. exact Hs.
  - cbn [res_extra]. exact Hs.
Qed.
Lemma finish_extra ev a b : is_dialogue ev = false -> extra_event ev a b -> finish a = finish b.
Proof.
  intros Hd (_ & _ & Hi & Hst & pre & post & Ha & Hb). unfold finish. rewrite Hi, Hst, Ha, Hb.
  rewrite !filter_app. cbn [filter]. rewrite Hd. reflexivity.
Qed.

(* EVENTS OTHER THAN DIALOGUE ARE IGNORED: a line that the reader takes for an event of another kind (Comment,
   Picture, Sound, Movie, Command, anything) can be removed without changing the result *)
Theorem read_ignores_other_events l1 row l2 e ev : l1 <> [] -> is_dialogue ev = false ->
  (forall s, ssa_run rstate0 true l1 = Ok s ->
             ssa_step s false row = Ok (mkRstate (rs_sect s) (rs_fmt s) (rs_info s) (rs_styles s) (rs_events s ++ [ev]))) ->
  read_ssa_lines (l1 ++ row :: l2) e = read_ssa_lines (l1 ++ l2) e.
Proof.
  intros Hne Hd Hrow. unfold read_ssa_lines. rewrite !(ssa_run_app_gen l1) by exact Hne.
  destruct (ssa_run rstate0 true l1) as [s| |] eqn:E1; [|reflexivity|reflexivity].
  cbn [ssa_run]. rewrite (Hrow s eq_refl).
  assert (Hx : extra_event ev (mkRstate (rs_sect s) (rs_fmt s) (rs_info s) (rs_styles s) (rs_events s ++ [ev])) s).
  { repeat split. exists (rs_events s), []. split; [reflexivity | symmetry; apply app_nil_r]. }
  pose proof (extra_run ev l2 _ _ false Hx) as Hr.
  destruct (ssa_run _ false l2) as [a| |], (ssa_run s false l2) as [b| |]; cbn [res_extra] in Hr; try contradiction.
  - rewrite (finish_extra ev a b Hd Hr). reflexivity.
  - subst. reflexivity.
  - subst. reflexivity.
Qed.

(* ---------------------------------------------------------------- '*'-prefixed style names *)
Theorem star_style_resolves e styles n : av_style e = star ++ n -> n <> [] ->
  sm_mem (star ++ n) styles = false -> sm_mem n styles = true ->
  ai_style (event_item e styles) = Some n.
Proof.
  intros Hs Hn Hno Hyes. unfold event_item. rewrite Hs. cbn [ai_style app star]. fold star.
  change (42 :: n) with (star ++ n). rewrite Hno. unfold trim_prefix. rewrite (prefix_app star n), Hyes. reflexivity.
Qed.
Theorem plain_style_resolves e styles n : av_style e = n -> n <> [] -> sm_mem n styles = true ->
  ai_style (event_item e styles) = Some n.
Proof. intros Hs Hn Hyes. unfold event_item. rewrite Hs. destruct n; [contradiction|]. cbn [ai_style]. rewrite Hyes. reflexivity. Qed.
(* the reserved spelling of the event rows *)
Theorem star_default_cell e : exists e', event_cell (eattr_name EStyle) n_star_default e = Ok e' /\ av_style e' = n_default.
Proof. destruct e. eexists. split; reflexivity. Qed.

(* a row the writer would emit, under another event kind: it is read as an event of that kind, hence ignored *)
Lemma other_event_row s v4p e h : hdr_ok h -> str_eqb h n_format = false -> str_eqb h n_dialogue = false ->
  event_repr e -> rs_sect s = SEvents -> rs_fmt s = map eattr_name (event_format v4p) ->
  exists ev, ssa_step s false (h ++ colon_sp ++ event_string e (event_format v4p)) =
             Ok (mkRstate (rs_sect s) (rs_fmt s) (rs_info s) (rs_styles s) (rs_events s ++ [ev])) /\ is_dialogue ev = false.
Proof.
  intros Hh Hnf Hnd Hr Hs Hf. destruct (event_row_value v4p e Hr) as (Hne & Ht & _).
  rewrite (kv_step s h _ Hh Hne Ht) by (rewrite Hs; discriminate).
  unfold kv_dispatch. destruct s as [sect fmt info sts evs]. cbn [rs_sect rs_fmt rs_info rs_styles rs_events] in *. subst sect fmt.
  rewrite Hnf.
  pose (init := [if v4p then ELayer else EMarked; EStart; EEnd; EStyle; EName; EMarginL; EMarginR; EMarginV; EEffect]).
  assert (Hfmt : event_format v4p = init ++ [EText]) by reflexivity.
  assert (Hnt : ~ In EText init) by (unfold init; destruct v4p; cbn; intuition discriminate).
  destruct Hr as (Hok & _).
  destruct (event_row_roundtrip h e init EText Hok Hnt) as (r & Er & Hc & _). cbn zeta in Er. rewrite <- Hfmt in Er.
  exists r. split.
  - destruct v4p; cbn [event_format map] in *; rewrite Er; reflexivity.
  - unfold is_dialogue. rewrite Hc. exact Hnd.
Qed.

(* ---------------------------------------------------------------- line endings and byte-order mark *)
(* LF, CR LF and lone CR denote the same document *)
Theorem read_eol e ls : eol_ok e -> Forall brkfree ls -> read_ssa (render_eol e ls) = read_ssa_lines ls false.
Proof. intros He HF. unfold read_ssa. rewrite (lines_render e ls He HF). reflexivity. Qed.
(* a byte-order mark in front of the first line is dropped *)
Theorem read_bom l ls e : l <> [] -> trim_space l = l -> prefix bom3 l = None ->
  read_ssa_lines ((bom3 ++ l) :: ls) e = read_ssa_lines (l :: ls) e.
Proof.
  intros Hne Ht Hp. unfold read_ssa_lines. cbn [ssa_run]. unfold ssa_step.
  change (bom3 ++ l) with ([239; 187; 191] ++ l). rewrite (trim_space_bom l Hne Ht), Ht. change [239; 187; 191] with bom3.
  unfold trim_prefix. rewrite (prefix_app bom3 l), Hp. reflexivity.
Qed.
