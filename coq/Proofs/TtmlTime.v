(* C03: the time-expression parser on every syntactic form (structure; the binary64 arithmetic of the
   offset, frame and tick terms is in TtmlFloat.v). *)
From Coq Require Import List ZArith NArith Bool Lia.
From Astisub Require Import Kit.Base Kit.Str Kit.Float64 Kit.Float64x Kit.Xml Model.Dur Model.Ttml
  Proofs.DurProofs Proofs.TtmlSpec.
Import ListNotations.
Open Scope Z_scope.

(* ---- digit strings ---- *)
Lemma str_to_uint_digits s : digits s -> exists u, str_to_uint s = Some u.
Proof.
  induction s as [|c r IH]; intros Hd; [exists Decimal.Nil; reflexivity|].
  unfold digits in Hd. cbn [forallb] in Hd. apply andb_true_iff in Hd. destruct Hd as [Hc Hr].
  destruct (IH Hr) as (u & Hu). cbn [str_to_uint]. rewrite Hu.
  unfold is_digit in Hc. apply andb_true_iff in Hc. destruct Hc as [H1 H2]. apply N.leb_le in H1. apply N.leb_le in H2.
  unfold digit_cons.
  assert (c = 48 \/ c = 49 \/ c = 50 \/ c = 51 \/ c = 52 \/ c = 53 \/ c = 54 \/ c = 55 \/ c = 56 \/ c = 57)%N as Hcase by lia.
  destruct Hcase as [->|[->|[->|[->|[->|[->|[->|[->|[->| ->]]]]]]]]]; eexists; reflexivity.
Qed.

Lemma atoi_dval s : digits s -> s <> [] -> dval s <= max_int64 -> atoi s = Some (dval s).
Proof.
  intros Hd Hne Hm. rewrite (atoi_no_sign s Hd Hne). unfold dval in *. unfold atoi_digits in *.
  destruct s as [|c r]; [contradiction|]. destruct (str_to_uint_digits (c :: r) Hd) as (u & Hu). rewrite Hu in *.
  destruct ((Z.of_N (N.of_uint u) <? - max_int64 - 1) || (max_int64 <? Z.of_N (N.of_uint u))) eqn:B; [|reflexivity].
  apply orb_true_iff in B. unfold max_int64 in *. destruct B as [B|B]; apply Z.ltb_lt in B; lia.
Qed.
Lemma dval_nonneg s : 0 <= dval s.
Proof. unfold dval. destruct (atoi_digits s); lia. Qed.

Lemma span_digits_app a r : digits a -> match r with c :: _ => is_digit c = false | [] => True end ->
  span_digits (a ++ r) = (a, r).
Proof.
  intros Ha Hr. induction a as [|c a IH]; cbn [app].
  - destruct r as [|c r]; [reflexivity|]. cbn [span_digits]. rewrite Hr. reflexivity.
  - unfold digits in Ha. cbn [forallb] in Ha. apply andb_true_iff in Ha. destruct Ha as [Hc Ha].
    cbn [span_digits]. rewrite Hc, (IH Ha). reflexivity.
Qed.

(* ---- the offset form is recognised with its three parts ---- *)
Lemma metric_of_unit m : metric_of (unit_str m) = Some m.
Proof. destruct m; reflexivity. Qed.
Lemma unit_head m : match unit_str m with c :: _ => is_digit c = false /\ c <> 46%N | [] => False end.
Proof. destruct m; cbn; split; try reflexivity; discriminate. Qed.

Theorem match_offset_expr ip fp m : digits ip -> digits fp -> ip <> [] ->
  match_offset (offset_expr ip fp m) = Some (ip, fp, m).
Proof.
  intros Hi Hf Hne. unfold match_offset, offset_expr.
  pose proof (unit_head m) as Hu.
  destruct fp as [|f0 fp'].
  - cbn [app]. rewrite span_digits_app; [|exact Hi|destruct (unit_str m); [contradiction|tauto]].
    destruct ip as [|i0 ip']; [contradiction|].
    destruct (unit_str m) as [|c r] eqn:E; [contradiction|]. destruct Hu as [_ Hc].
    assert (Hm : match c :: r with 46%N :: r0 => let '(fp, r') := span_digits r0 in match fp with [] => (@nil N, c :: r) | _ => (fp, r') end | _ => ([], c :: r) end = ([], c :: r)).
    { destruct c as [|p]; [reflexivity|]. do 7 (try (destruct p as [p|p|]; try reflexivity; try contradiction)). }
    rewrite Hm, <- E, metric_of_unit. reflexivity.
  - rewrite span_digits_app; [|exact Hi|reflexivity].
    destruct ip as [|i0 ip']; [contradiction|]. unfold dot. cbn [app]. cbv iota beta.
    change (f0 :: fp' ++ unit_str m) with ((f0 :: fp') ++ unit_str m).
    rewrite span_digits_app; [|exact Hf|destruct (unit_str m); [contradiction|tauto]].
    cbv iota beta. rewrite metric_of_unit. reflexivity.
Qed.

(* ---- clock times are not offsets, and are frame forms only with a fourth field ---- *)
Lemma match_offset_clock hs r : digits hs -> hs <> [] -> match_offset (hs ++ colon :: r) = None.
Proof.
  intros Hd Hne. unfold match_offset. rewrite span_digits_app; [|exact Hd|reflexivity].
  destruct hs as [|h0 hs']; [contradiction|]. reflexivity.
Qed.

Lemma no_colon_digits s : digits s -> ~ In colon s.
Proof. intros H. apply digits_not_in; [exact H | reflexivity]. Qed.

Lemma match_clock_frames_3 a b c : ~ In colon a -> ~ In colon b -> ~ In colon c ->
  match_clock_frames (a ++ [colon] ++ b ++ [colon] ++ c) = None.
Proof.
  intros Ha Hb Hc. unfold match_clock_frames. cbn [app].
  rewrite (split_byte_app colon a) by exact Ha. rewrite (split_byte_app colon b) by exact Hb.
  rewrite (split_byte_none colon c) by exact Hc. reflexivity.
Qed.

Lemma match_clock_frames_4 a b c d : ~ In colon a -> ~ In colon b -> ~ In colon c -> digits d -> d <> [] ->
  match_clock_frames (a ++ [colon] ++ b ++ [colon] ++ c ++ [colon] ++ d) = Some (a ++ [colon] ++ b ++ [colon] ++ c, d).
Proof.
  intros Ha Hb Hc Hd Hne. unfold match_clock_frames. cbn [app].
  rewrite (split_byte_app colon a) by exact Ha. rewrite (split_byte_app colon b) by exact Hb.
  rewrite (split_byte_app colon c) by exact Hc. rewrite (split_byte_none colon d) by (apply no_colon_digits; exact Hd).
  destruct d as [|d0 d']; [contradiction|]. unfold digits in Hd. rewrite Hd. reflexivity.
Qed.

(* ---- parseDuration on hours:minutes:seconds[.fraction] over digit strings ---- *)
Lemma parse_hms_digits a b c : digits a -> digits b -> digits c -> a <> [] -> b <> [] -> c <> [] ->
  dval a <= max_int64 -> dval b <= max_int64 -> dval c <= max_int64 ->
  parse_hms (a ++ [colon] ++ b ++ [colon] ++ c) = Some (dval a, dval b, dval c).
Proof.
  intros Da Db Dc Na Nb Nc Ma Mb Mc. unfold parse_hms.
  assert (Htrim : trim_space (a ++ [colon] ++ b ++ [colon] ++ c) = a ++ [colon] ++ b ++ [colon] ++ c).
  { apply trim_space_plain.
    - intros E. apply app_eq_nil in E. tauto.
    - destruct a as [|x r] eqn:E; [contradiction|]. cbn [app hd]. apply is_digit_plain. apply (digits_in _ x Da). left. reflexivity.
    - rewrite !app_assoc. destruct (@exists_last _ c Nc) as (s' & z & E). rewrite E, app_assoc, last_last.
      apply is_digit_plain. apply (digits_in _ z Dc). rewrite E. apply in_or_app. right. left. reflexivity. }
  rewrite Htrim, (split_hms _ _ _ Da Db Dc).
  rewrite (digits_trim c Dc Nc), (digits_trim b Db Nb), (digits_trim a Da Na).
  rewrite (atoi_dval c Dc Nc Mc), (atoi_dval b Db Nb Mb), (atoi_dval a Da Na Ma).
  destruct a; [contradiction | reflexivity].
Qed.

Definition frac_ns (fs : str) : Z := dval fs * 10 ^ (9 - Z.of_nat (length fs)).

Lemma dot_sep_ok : sep_ok dot. Proof. split; [reflexivity | discriminate]. Qed.

Theorem parse_duration_clock hs ms ss fs : digits hs -> digits ms -> digits ss -> digits fs ->
  hs <> [] -> ms <> [] -> ss <> [] -> (length fs <= 3)%nat ->
  dval hs <= max_int64 -> dval ms <= max_int64 -> dval ss <= max_int64 -> dval fs <= max_int64 ->
  parse_duration (clock_expr hs ms ss fs) dot 3 = Some (hms_ns hs ms ss + frac_ns fs).
Proof.
  intros Dh Dm Ds Df Nh Nm Ns Lf Mh Mm Mss Mf. unfold parse_duration, clock_expr, hms_ns, frac_ns.
  set (HMS := hs ++ [colon] ++ ms ++ [colon] ++ ss).
  destruct fs as [|f0 fs'].
  - replace (hs ++ [colon] ++ ms ++ [colon] ++ ss ++ []) with HMS by (unfold HMS; rewrite app_nil_r; reflexivity).
    rewrite split_byte_none by (apply hms_no_sep; [exact dot_sep_ok | assumption..]).
    cbn [rev app]. unfold HMS. rewrite parse_hms_digits by assumption.
    f_equal. change (dval []) with 0. unfold second_ns, minute_ns, hour_ns. lia.
  - set (F := f0 :: fs') in *.
    replace (hs ++ [colon] ++ ms ++ [colon] ++ ss ++ dot :: F) with (HMS ++ dot :: F)
      by (unfold HMS; rewrite <- !app_assoc; reflexivity).
    rewrite split_byte_app by (apply hms_no_sep; [exact dot_sep_ok | assumption..]).
    rewrite split_byte_none by (apply digits_not_in; [exact Df | reflexivity]).
    cbn [rev app].
    assert (NF : F <> []) by discriminate.
    rewrite (digits_trim F Df NF).
    destruct (Nat.ltb 3 (length F)) eqn:E3; [apply Nat.ltb_lt in E3; lia|].
    rewrite (atoi_dval F Df NF Mf). cbn [join]. unfold HMS. rewrite parse_hms_digits by assumption.
    f_equal. pose proof (dval_nonneg F) as H0. unfold pow10_int, ms_ns, second_ns, minute_ns, hour_ns.
    assert (length F = 1 \/ length F = 2 \/ length F = 3)%nat as [-> | [-> | ->]] by (unfold F in *; cbn [length] in *; lia); cbn; lia.
Qed.

Lemma fpos_zero : fpos fzero = false.
Proof. vm_compute. reflexivity. Qed.
Lemma duration_plain d fr tr : ttml_duration (mkDur d 0 0) fr tr = d.
Proof.
  unfold ttml_duration, mkDur. cbn [td_ticks td_frames td_d td_fval td_tval]. rewrite fpos_zero.
  cbn [Z.ltb Z.compare andb orb]. lia.
Qed.

(* clock time with or without a 1-3 digit fraction: the instant it means, exactly, for any rates *)
Theorem clock_time hs ms ss fs fr tr : digits hs -> digits ms -> digits ss -> digits fs ->
  hs <> [] -> ms <> [] -> ss <> [] -> (length fs <= 3)%nat ->
  dval hs <= max_int64 -> dval ms <= max_int64 -> dval ss <= max_int64 -> dval fs <= max_int64 ->
  ttml_time (clock_expr hs ms ss fs) fr tr = Some (hms_ns hs ms ss + frac_ns fs).
Proof.
  intros Dh Dm Ds Df Nh Nm Ns Lf Mh Mm Mss Mf. unfold ttml_time, ttml_unmarshal.
  assert (E1 : match_offset (clock_expr hs ms ss fs) = None) by (unfold clock_expr; apply match_offset_clock; assumption).
  assert (E2 : match_clock_frames (clock_expr hs ms ss fs) = None).
  { unfold clock_expr. apply match_clock_frames_3; try (apply no_colon_digits; assumption).
    destruct fs as [|f0 fs']; [rewrite app_nil_r; apply no_colon_digits; exact Ds|].
    intros Hin. apply in_app_or in Hin. destruct Hin as [Hin|[Hin|Hin]].
    - exact (no_colon_digits ss Ds Hin).
    - discriminate.
    - exact (no_colon_digits _ Df Hin). }
  rewrite E1, E2, parse_duration_clock by assumption. rewrite duration_plain. reflexivity.
Qed.

(* clock time with frames: base instant plus the frames term at the document's frame rate *)
Theorem clock_frames_time hs ms ss fds fr tr : digits hs -> digits ms -> digits ss -> digits fds ->
  hs <> [] -> ms <> [] -> ss <> [] -> fds <> [] ->
  dval hs <= max_int64 -> dval ms <= max_int64 -> dval ss <= max_int64 -> dval fds <= max_int64 ->
  ttml_time (clock_frames_expr hs ms ss fds) fr tr =
  Some (hms_ns hs ms ss + if (0 <? dval fds) && (0 <? fr) then frames_term (dval fds) fr else 0).
Proof.
  intros Dh Dm Ds Df Nh Nm Ns Nf Mh Mm Mss Mf. unfold ttml_time, ttml_unmarshal.
  assert (E1 : match_offset (clock_frames_expr hs ms ss fds) = None) by (unfold clock_frames_expr; apply match_offset_clock; assumption).
  rewrite E1. unfold clock_frames_expr.
  rewrite match_clock_frames_4 by (try (apply no_colon_digits; assumption); assumption).
  rewrite (atoi_dval fds Df Nf Mf).
  assert (E3 : parse_duration ((hs ++ [colon] ++ ms ++ [colon] ++ ss) ++ s_dot000) dot 3 = Some (hms_ns hs ms ss + frac_ns [48; 48; 48]%N)).
  { rewrite <- (parse_duration_clock hs ms ss [48; 48; 48]%N); try assumption; try reflexivity; try (cbn; lia).
    unfold clock_expr. rewrite <- !app_assoc. reflexivity. vm_compute. discriminate. }
  rewrite E3. unfold ttml_duration, mkDur. cbn [td_ticks td_frames td_d td_fval td_tval]. rewrite fpos_zero.
  cbn [Z.ltb Z.compare andb orb]. rewrite orb_false_r.
  f_equal. unfold frames_term. change (frac_ns [48; 48; 48]%N) with 0. lia.
Qed.

(* offset times: the parsed value, then one multiplication (h, m, s, ms) or the frames / ticks term on the value
   itself (fraction included); a count that parses to 0 contributes nothing *)
Theorem offset_time ip fp m fr tr : digits ip -> digits fp -> ip <> [] ->
  ttml_time (offset_expr ip fp m) fr tr =
  Some (let v := parse_dec ip fp in
        match m with
        | Mt => if ((0 <? to_Z v) || fpos v) && (0 <? tr)
                then (if fpos v then ticks_val_term v tr else ticks_term (to_Z v) tr) else 0
        | Mf => if ((0 <? to_Z v) || fpos v) && (0 <? fr)
                then (if fpos v then frames_val_term v fr else frames_term (to_Z v) fr) else 0
        | _ => offset_term ip fp m
        end).
Proof.
  intros Hi Hf Hne. unfold ttml_time, ttml_unmarshal. rewrite match_offset_expr by assumption.
  unfold ttml_duration, offset_term, ticks_term, frames_term, ticks_val_term, frames_val_term, mkDur.
  destruct m; cbn [td_ticks td_frames td_d td_fval td_tval]; rewrite ?fpos_zero; cbn [Z.ltb Z.compare andb orb]; cbv zeta;
    f_equal; try lia.
  - destruct (((0 <? to_Z (parse_dec ip fp)) || fpos (parse_dec ip fp)) && (0 <? fr)); [|reflexivity].
    destruct (fpos (parse_dec ip fp)); reflexivity.
  - destruct (((0 <? to_Z (parse_dec ip fp)) || fpos (parse_dec ip fp)) && (0 <? tr)); [|reflexivity].
    destruct (fpos (parse_dec ip fp)); reflexivity.
Qed.

(* reading what the writer prints: truncation to the millisecond, for every non-negative instant *)
Theorem unmarshal_format t : 0 <= t <= max_int64 ->
  ttml_unmarshal (format_ttml t) = Some (mkDur (t - t mod 1000000) 0 0).
Proof.
  intros Ht. unfold ttml_unmarshal, format_ttml.
  destruct (format_grammar dot 3 t) as (E & Dh & Lh & Dm & _ & _ & Ds & _ & _ & Df & Lf); [lia | lia |].
  assert (Nh : two (f_h t) <> []) by (intros E0; rewrite E0 in Lh; cbn in Lh; lia).
  assert (E1 : match_offset (format_duration t [dot] 3) = None).
  { rewrite E. apply match_offset_clock; assumption. }
  assert (E2 : match_clock_frames (format_duration t [dot] 3) = None).
  { rewrite E. apply match_clock_frames_3; try (apply no_colon_digits; assumption).
    intros Hin. apply in_app_or in Hin. destruct Hin as [Hin|Hin]; [exact (no_colon_digits _ Ds Hin)|].
    apply in_app_or in Hin. destruct Hin as [[Hin|[]]|Hin]; [discriminate | exact (no_colon_digits _ Df Hin)]. }
  rewrite E1, E2, (parse_format dot 3 t dot_sep_ok) by lia. reflexivity.
Qed.
Theorem time_format_roundtrip t fr tr : 0 <= t <= max_int64 ->
  ttml_time (format_ttml t) fr tr = Some (t - t mod 1000000).
Proof. intros Ht. unfold ttml_time. rewrite (unmarshal_format t Ht), duration_plain. reflexivity. Qed.
