(* C05, reading half for all renderings: the file.
   A rendering is: a GSI value g with the forms of its fields (Proofs/StlReadGsi.v: numbers zero-padded / blank-padded on
   either side / left blank when zero, text fields with leading blanks, blank timecodes, arbitrary spare bytes) and a list
   of blocks (Proofs/StlReadDoc.v: user-data blocks anywhere; subtitle blocks with arbitrary number / status / flag /
   timecode / position / justification bytes and a text field of open-subtitling rows - display standard 0 - or of
   teletext rows, each with its start box written or omitted - any other display standard code).  [render_stl] gives the bytes, [denote_stl] the meaning; the reader
   returns the meaning for every rendering that passes the decidable check, for both values of the option. *)
From Coq Require Import List ZArith NArith Bool Lia.
From Astisub Require Import Kit.Base Kit.Str Kit.Scan Model.Dur Model.Stl Model.TtxRow Model.TtxRowStl Gen.StlTables
  Proofs.StlBlocks Proofs.StlCodec Proofs.StlGsi Proofs.StlReadSpec Proofs.StlReadGsi Proofs.StlReadRows Proofs.StlReadTtx Proofs.StlReadDoc.
Import ListNotations.

Definition render_stl (f : gsi_forms) (g : gsi) (blocks : list rblock) : str :=
  render_gsi f g ++ concat (map render_block blocks).
(* the GSI forms fit the values; the character code table is the Latin one (the only one the library has); every block
   is well formed for the file's display standard *)
Definition rendering_okb (f : gsi_forms) (g : gsi) (blocks : list rblock) : bool :=
  gsi_forms_okb f g && (g_cct g =? stl_c_cctLatin)%N && forallb (block_okb (is_open g) (g_fps g)) blocks.

Theorem read_rendered_stl ign f g blocks : rendering_okb f g blocks = true ->
  read_stl ign (render_stl f g blocks) = Ok (denote_stl ign g blocks).
Proof.
  unfold rendering_okb. intros H. apply andb_true_iff in H. destruct H as [H Hb]. apply andb_true_iff in H. destruct H as [Hf Hc].
  apply N.eqb_eq in Hc. destruct (parse_rendered_gsi f g (gsi_forms_okb_sound f g Hf)) as [L P].
  exact (read_rendered_blocks ign (render_gsi f g) g blocks L P Hc Hb).
Qed.

(* what the meaning contains *)
Lemma denote_stl_metadata ign g blocks :
  let d := denote_stl ign g blocks in
  rd_fps d = g_fps g /\ rd_dsc d = g_dsc g /\ rd_title d = g_opt g /\ rd_oet d = g_oet g /\ rd_tpt d = g_tpt g /\ rd_tet d = g_tet g /\
  rd_tn d = g_tn g /\ rd_tcd d = g_tcd g /\ rd_slr d = g_slr g /\ rd_cd d = g_cd g /\ rd_rd d = g_rd g /\ rd_rn d = g_rn g /\
  rd_mnc d = g_mnc g /\ rd_mnr d = g_mnr g /\ rd_co d = g_co g /\ rd_pub d = g_pub g /\ rd_en d = g_en g /\ rd_ecd d = g_ecd g /\
  rd_tcp d = (if ign then 0%Z else g_tcp g) /\
  rd_lang d = match slookup (g_lc g) stl_language with Some l => l | None => [] end.
Proof. cbn zeta. unfold denote_stl, rdoc_with. cbn. repeat split. Qed.
Lemma denote_stl_items ign g blocks :
  rd_items (denote_stl ign g blocks) = denote_blocks g (if ign then 0%Z else g_tcp g) blocks.
Proof. reflexivity. Qed.

(* ================= a worked instance using every freedom at once (display standard 0, 30 frames per second) ========= *)
Definition b (s : list Z) : str := map Z.to_N s.
Definition x_g : gsi :=
  mkGsi stl_c_cctLatin 3683632 [70;82;65]%N [50;52;48;49;51;49]%N 1 [48]%N [] [69;100]%N 30 [48;57]%N 38 23
        [69;112;32;49]%N [84;105;116;108;101]%N [80]%N [] 7 [82;69;70]%N (10 * hour_ns + frames_ns 3 30) (10 * hour_ns) [49]%N 0 12 3 5
        [] [] [] [] [110;111;116;101;115]%N.
Definition x_f : gsi_forms :=
  mkGsiForms NSpaceLeft NSpaceRight NZeroPad NSpaceLeft NZeroPad NSpaceRight true false false false
    (fun i => match i with 5 => 2 | 25 => 0 | 29 => 3 | _ => 0 end)%nat (repeat 0%N 70 ++ [255;1;2;32;65]%N).
Definition pad (n : nat) : list relem := repeat (RSkip 143) n.
Definition c (k : N) := RChar (U1 k).
(* row 1: italics on before any text, "Hi", italics on again (redundant), " ¤" with the currency sign at 0x24, padding in the
   middle of the text, "e-acute" as acute + e, italics off twice, trailing blanks, boxing on and never closed.
   row 2: only undefined bytes: no line.  row 3: "x" underlined with the code at the end of the row closing it, then
   the currency sign at 0xA8, an unused code 0x86, padding up to 112 bytes *)
Definition x_rows1 : list (list relem) :=
  [ [RCode 128; c 72; c 105; RCode 128; c 32; c 36; RSkip 143; RChar (U2 194 101); RCode 129; RCode 129; c 32; c 32; RCode 132];
    [RSkip 143; RSkip 134];
    [RCode 130; c 120; RCode 131; c 168; RSkip 134; RCode 131] ++ pad 88 ].
Definition x_rows2 : list (list relem) := [ [c 79; c 107; c 32] ++ pad 109 ].
Definition x_user : str := [1; 2; 3; 254]%N ++ repeat 7%N 124.
Definition x_blocks : list rblock :=
  [ BUser x_user;
    BCue (mkRcue 3 1 0 255 2  10 0 1 29  10 0 3 0  200 2 1 (TOpen x_rows1));
    BUser x_user;
    BCue (mkRcue 0 2 0 5 0  10 59 59 7  11 0 0 0  0 7 0 (TOpen x_rows2)) ].

Example x_ok : rendering_okb x_f x_g x_blocks = true.
Proof. vm_compute. reflexivity. Qed.
Example x_read : forall ign, read_stl ign (render_stl x_f x_g x_blocks) = Ok (denote_stl ign x_g x_blocks).
Proof. intros ign. apply read_rendered_stl. exact x_ok. Qed.
Example x_length : length (render_stl x_f x_g x_blocks) = 1536%nat.
Proof. vm_compute. reflexivity. Qed.
Local Open Scope Z_scope.
(* its meaning: two cues; times minus the programme start 10:00:00:00; the runs with their effective flags *)
Example x_denotes :
  map (fun it => (ri_st it, ri_en it, ri_just it, ri_vp it, ri_rows it, map (map run_flags) (ri_lines it))) (rd_items (denote_stl false x_g x_blocks)) =
  [ (1966666667, 3000000000, stl_c_justificationCentered, 200, 3%N,
       [ [ (b [72;105], true, false, false); (b [194;164;195;169], true, false, false) ];
         [ (b [120], false, true, false); (b [194;164], false, false, false) ] ]);
    (3599233333334, 3600000000000, stl_c_justificationUnchanged, 0, 1%N, [ [ (b [79;107], false, false, false) ] ]) ]%Z
  /\ map (fun it => ri_st it) (rd_items (denote_stl true x_g x_blocks)) = [36001966666667; 39599233333334]%Z
  /\ rd_title (denote_stl false x_g x_blocks) = b [84;105;116;108;101] /\ rd_rn (denote_stl false x_g x_blocks) = 7%Z
  /\ rd_lang (denote_stl false x_g x_blocks) = b [101;110;103;108;105;115;104].
Proof. vm_compute. repeat split; reflexivity. Qed.

Local Close Scope Z_scope.
(* ---- the same under a teletext display standard (1): start box, colour and double height in front of it, attribute
   groups and text cells, end box, a second row without end box ---- *)
Definition y_g : gsi :=
  mkGsi stl_c_cctLatin 3683632 [] [] 1 [49]%N [] [] 25 [] 40 23 [] [] [] [] 0 [] 0 0 [49]%N 1 1 1 1 [] [] [] [] [].
Definition y_rows : list brow :=
  [ mkBrow true (mkSrow [6; 13] [mkSseg [] [11; 72; 105; 32]; mkSseg [128; 3] [194; 101]; mkSseg [129] [32; 33]] (Some [10; 32]));
    mkBrow true (mkSrow [] [mkSseg [] ([79; 107] ++ repeat 143 91)] None) ]%N.
Definition y_blocks : list rblock := [ BCue (mkRcue 0 1 0 255 0  0 0 1 0  0 0 2 12  22 1 0 (TTtx y_rows)) ].
Example y_ok : rendering_okb writer_forms y_g y_blocks = true.
Proof. vm_compute. reflexivity. Qed.
Example y_read : forall ign, read_stl ign (render_stl writer_forms y_g y_blocks) = Ok (denote_stl ign y_g y_blocks).
Proof. intros ign. apply read_rendered_stl. exact y_ok. Qed.
Local Open Scope Z_scope.
Example y_denotes :
  map (fun it => (ri_st it, ri_en it, map (map (fun x => (run_flags x, a_col (ru_at x), a_dh (ru_at x)))) (ri_lines it))) (rd_items (denote_stl false y_g y_blocks)) =
  [ (1000000000, 2480000000,
       [ [ ((b [72;105], false, false, false), Some 6%N, Some true); ((b [195;169], true, false, false), Some 3%N, Some true);
           ((b [33], false, false, false), Some 3%N, Some true) ];
         [ ((b [79;107], false, false, false), None, None) ] ]) ]%Z.
Proof. vm_compute. reflexivity. Qed.

Local Close Scope Z_scope.
(* ---- the same with the start box omitted, as the library's own writer leaves it (display standard 2): row 1 without
   start box: italics on, "Hi", italics off and colour 7, " " + acute + "e", end box, a blank; row 2 with its start box
   and a colour in front of it; row 3 without start box, padded.  The reader reads a row without any start box as if one
   stood in front of it ---- *)
Definition z_g : gsi :=
  mkGsi stl_c_cctLatin 3683632 [] [] 1 [50]%N [] [] 25 [] 40 23 [] [] [] [] 0 [] 0 0 [49]%N 1 1 1 1 [] [] [] [] [].
Definition z_rows : list brow :=
  [ mkBrow false (mkSrow [] [mkSseg [128] [72; 105]; mkSseg [129; 7] [32; 194; 101]] (Some [32]));
    mkBrow true (mkSrow [2] [mkSseg [] [79; 107]] None);
    mkBrow false (mkSrow [] [mkSseg [] ([33] ++ repeat 143 95)] None) ]%N.
Definition z_blocks : list rblock := [ BCue (mkRcue 0 1 0 255 0  0 0 1 0  0 0 2 12  22 1 0 (TTtx z_rows)) ].
Example z_ok : rendering_okb writer_forms z_g z_blocks = true.
Proof. vm_compute. reflexivity. Qed.
Example z_read : forall ign, read_stl ign (render_stl writer_forms z_g z_blocks) = Ok (denote_stl ign z_g z_blocks).
Proof. intros ign. apply read_rendered_stl. exact z_ok. Qed.
(* no byte 0x0B in the first and third row of the text field *)
Example z_field : firstn 20 (text_bytes (TTtx z_rows)) = [128; 72; 105; 129; 7; 32; 194; 101; 10; 32; 138; 2; 11; 79; 107; 138; 33; 143; 143; 143]%N.
Proof. vm_compute. reflexivity. Qed.
Local Open Scope Z_scope.
Example z_denotes :
  map (fun it => (ri_st it, ri_en it, map (map (fun x => (run_flags x, a_col (ru_at x), ru_sb x, ru_sa x))) (ri_lines it))) (rd_items (denote_stl false z_g z_blocks)) =
  [ (1000000000, 2480000000,
       [ [ ((b [72;105], true, false, false), None, Some 0%N, Some 0%N); ((b [195;169], false, false, false), Some 7%N, Some 1%N, Some 0%N) ];
         [ ((b [79;107], false, false, false), Some 2%N, Some 0%N, Some 0%N) ];
         [ ((b [33], false, false, false), None, Some 0%N, Some 0%N) ] ]) ]%Z.
Proof. vm_compute. reflexivity. Qed.
(* the start box may be omitted only when nothing stands in front of it (the cells of a box-less row are those after the
   box) and no other cell is a start box (the reader puts one in front only of a row that has none): the check refuses
   both *)
Example z_needs_no_pre :
  trow_okb (mkBrow false (mkSrow [2]%N [mkSseg [] [79; 107]%N] None)) = false /\
  trow_okb (mkBrow false (mkSrow [] [mkSseg [] [79; 11; 107]%N] None)) = false.
Proof. vm_compute. split; reflexivity. Qed.

Local Close Scope Z_scope.
(* ================= side conditions the proof forced, shown necessary on computed instances ================= *)
(* (1) a floating diacritic must be followed by its character in the same row: left at the end of a row it is held by the
   reader and lands on the first character of the next row (here "a" + acute / "e" reads as "a" / "e-acute") *)
Example needs_pair_in_row :
  rows_open [[97; 194]; [101]]%N None [] = Ok ([[mkErun [97]%N sattr0_stl None None]; [mkErun [195; 169]%N sattr0_stl None None]], None).
Proof. vm_compute. reflexivity. Qed.
Example needs_pair_in_row_teletext :
  fst (rows_ttx [[11; 97; 194]; [11; 101]]%N None []) =
  [[mkErun [97]%N sattr0_stl (Some 0%N) (Some 0%N)]; [mkErun [195; 169]%N sattr0_stl (Some 0%N) (Some 0%N)]].
Proof. vm_compute. reflexivity. Qed.
(* (2) bytes below 0x20 are not undefined bytes of an open-subtitling row: the reader rejects the file *)
Example needs_no_control_code_in_open_text : rows_open [[97; 11; 98]]%N None [] = Err EParse.
Proof. vm_compute. reflexivity. Qed.
(* (3) the character code table must be the Latin one *)
Example needs_latin_table :
  let g := mkGsi 12337 3683632 [] [] 1 [48]%N [] [] 25 [] 40 23 [] [] [] [] 0 [] 0 0 [49]%N 1 1 0 0 [] [] [] [] [] in
  gsi_forms_okb writer_forms g = true /\ read_stl false (render_stl writer_forms g []) = Err EParse.
Proof. vm_compute. split; reflexivity. Qed.
