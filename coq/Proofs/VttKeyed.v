(* WriteToWebVTT over keyed maps (second audit, N5): the styles and regions maps are ranged over by KEY; a key may differ
   from the ID field of the value under it, and a value may be nil.  [so], [ro] list ALL the keys of s.Styles, s.Regions;
   a key whose look-up in [vd_styles], [vd_regions] is [None] stands for a nil value.  What the writer writes, for every
   document and all key lists (no key = id hypothesis, no NoDup hypothesis): the header, the STYLE block made of the
   WebVTTStyles of the non-nil styles that have inline attributes in the order of the sorted keys, one Region line per
   non-nil value in the order of the sorted keys -- showing the value's own ID --, one empty line when the regions map
   has a key at all (nil values included), then the cues. *)
From Coq Require Import List ZArith NArith Bool Lia.
From Astisub Require Import Kit.Base Kit.Str Kit.Scan Model.Dur Model.Srt Model.Vtt Proofs.VttDoc.
Import ListNotations.

(* the non-nil values of the regions map in the order of the sorted keys *)
Definition keyed_regions (d : vdoc) (ro : list str) : list vregion :=
  flat_map (fun k => match aget k (vd_regions d) with Some rg => [rg] | None => [] end) (ssort ro).
Definition keyed_hdr_lines (d : vdoc) (so ro : list str) : list str :=
  [p_webvtt] ++ (match vd_tsmap d with Some m => [tsmap_string m] | None => [] end) ++ [[]] ++
  (match style_list d so with [] => [] | ss => [p_style] ++ ss ++ [[]] end) ++
  map region_line (keyed_regions d ro) ++ (match ro with [] => [] | _ => [[]] end).

Lemma keyed_region_bytes d ids :
  concat (map (fun k => match aget k (vd_regions d) with Some rg => vregion_bytes rg | None => [] end) ids) =
  unlines (map region_line (flat_map (fun k => match aget k (vd_regions d) with Some rg => [rg] | None => [] end) ids)).
Proof.
  induction ids as [|k ids IH]; [reflexivity|]. cbn [map concat flat_map]. rewrite IH.
  destruct (aget k (vd_regions d)) as [rg|]; [|reflexivity].
  cbn [app map]. rewrite unlines_cons, vregion_bytes_eq, <- app_assoc. reflexivity.
Qed.

Theorem write_vtt_keyed d so ro : vd_items d <> [] ->
  write_vtt d so ro = Ok (removelast (unlines (keyed_hdr_lines d so ro ++ items_lines 0 (vd_items d)))).
Proof.
  intros Hne. unfold write_vtt. destruct (vd_items d) as [|it0 r0] eqn:Ei; [contradiction|]. rewrite <- Ei.
  f_equal. f_equal. unfold keyed_hdr_lines. rewrite !unlines_app.
  fold (style_list d so). rewrite (keyed_region_bytes d (ssort ro)). fold (keyed_regions d ro). rewrite vitems_bytes_lines.
  assert (E1 : forall X, p_webvtt ++ (match vd_tsmap d with Some m => [10] ++ tsmap_string m | None => [] end) ++ [10; 10] ++ X =
                         unlines [p_webvtt] ++ unlines (match vd_tsmap d with Some m => [tsmap_string m] | None => [] end) ++ unlines [[]] ++ X).
  { intros X. destruct (vd_tsmap d); unfold unlines; cbn [map concat app]; rewrite <- ?app_assoc; cbn [app]; rewrite ?app_nil_r; reflexivity. }
  rewrite E1. rewrite <- !app_assoc. f_equal. f_equal. f_equal. f_equal; [|f_equal; f_equal; destruct ro; reflexivity].
  destruct (style_list d so) as [|s0 ss0]; [reflexivity|].
  rewrite !unlines_app. rewrite <- (join_unlines (s0 :: ss0)) by discriminate.
  unfold unlines. cbn [map concat app]. rewrite <- !app_assoc. reflexivity.
Qed.

(* when every listed key has a value whose ID is the key (the maps the readers build; [regions_keyed], [repr_vdoc]) the
   keyed reading is the reading by identifier of Proofs/VttDoc.v *)
Lemma keyed_regions_keyed d ro : regions_keyed d ro -> keyed_regions d ro = region_list d ro.
Proof.
  intros Hk. unfold keyed_regions, region_list.
  assert (H : forall ids, (forall k, In k ids -> exists rg, aget k (vd_regions d) = Some rg /\ rg_id rg = k) ->
              flat_map (fun k => match aget k (vd_regions d) with Some rg => [rg] | None => [] end) ids = map (rget d) ids).
  { induction ids as [|k ids IH]; intros H; [reflexivity|]. cbn [flat_map map].
    destruct (H k ltac:(left; reflexivity)) as (rg & E & _). unfold rget at 1. rewrite E.
    rewrite IH by (intros k' Hk'; apply H; right; exact Hk'). reflexivity. }
  apply H. intros k Hin. apply Hk. apply ssort_in. exact Hin.
Qed.
Lemma keyed_hdr_lines_keyed d so ro : regions_keyed d ro -> keyed_hdr_lines d so ro = hdr_lines d so ro.
Proof. intros Hk. unfold keyed_hdr_lines, hdr_lines. rewrite (keyed_regions_keyed d ro Hk). reflexivity. Qed.


(* ---- the audit's witness and its neighbours, as observed on the library (notes/C02.md, N5) ---- *)
From Coq Require String Ascii.
Import String.StringSyntax.
Local Open Scope string_scope.
Definition kx_item : vitem := mkVitem 0 1000000000%Z 2000000000%Z [] None None None [mkVline [mkVrun (b "a") None 0%Z None] []].
Definition kx_rg (id w : String.string) : vregion :=
  mkVregion (b id) (match w with "" => None | _ => Some (mkVregattr 0 [] [] [] (b w)) end) None.
Arguments kx_rg (id w)%string_scope.
Definition kx_doc (rs : list (str * vregion)) (ss : list (str * option (list str))) : vdoc := mkVdoc [kx_item] rs ss None.
Definition kx_lines (l : list String.string) : str := removelast (unlines (map b l)).
Definition kx_cue : list String.string := ["1"; "00:00:01.000 --> 00:00:02.000"; "a"; ""].

(* Regions{b:{ID:x}, a:{ID:y}}: the lines follow the sorted keys a, b and show the IDs y, x *)
Example keyed_witness : forall ro, In ro [[b "b"; b "a"]; [b "a"; b "b"]] ->
  write_vtt (kx_doc [(b "b", kx_rg "x" ""); (b "a", kx_rg "y" "")] []) [] ro =
  Ok (kx_lines (["WEBVTT"; ""; "Region: id=y"; "Region: id=x"; ""] ++ kx_cue)).
Proof. intros ro [<-|[<-|[]]]; vm_compute; reflexivity. Qed.
(* Regions{b:nil, a:nil}: no region line, but the empty line is written (len(s.Regions) > 0) *)
Example keyed_only_nil :
  write_vtt (kx_doc [] []) [] [b "b"; b "a"] = Ok (kx_lines (["WEBVTT"; ""; ""] ++ kx_cue))
  /\ write_vtt (kx_doc [] []) [] [] = Ok (kx_lines (["WEBVTT"; ""] ++ kx_cue)).
Proof. split; vm_compute; reflexivity. Qed.
(* Regions{b:nil, a:{ID:q, lines=3}} *)
Example keyed_nil_and_value :
  write_vtt (kx_doc [(b "a", mkVregion (b "q") (Some (mkVregattr 3 [] [] [] [])) None)] []) [] [b "b"; b "a"] =
  Ok (kx_lines (["WEBVTT"; ""; "Region: id=q lines=3"; ""] ++ kx_cue)).
Proof. vm_compute. reflexivity. Qed.
(* two keys, one ID: both lines are written, in key order *)
Example keyed_duplicate_id :
  write_vtt (kx_doc [(b "b", kx_rg "x" "10%"); (b "a", kx_rg "x" "20%")] []) [] [b "b"; b "a"] =
  Ok (kx_lines (["WEBVTT"; ""; "Region: id=x width=20%"; "Region: id=x width=10%"; ""] ++ kx_cue)).
Proof. vm_compute. reflexivity. Qed.
(* the ID of one value is the key of the other: Regions{a:{ID:b}, b:{ID:a}} *)
Example keyed_crossed :
  write_vtt (kx_doc [(b "a", kx_rg "b" "10%"); (b "b", kx_rg "a" "20%")] []) [] [b "b"; b "a"] =
  Ok (kx_lines (["WEBVTT"; ""; "Region: id=b width=10%"; "Region: id=a width=20%"; ""] ++ kx_cue)).
Proof. vm_compute. reflexivity. Qed.
(* Styles{b:{ID:x, [sb1 sb2]}, a:{ID:y, [sa]}}; Styles{b:nil, a:{InlineStyle nil}, c:{InlineStyle without styles}} *)
Example keyed_styles :
  write_vtt (kx_doc [] [(b "b", Some [b "sb1"; b "sb2"]); (b "a", Some [b "sa"])]) [b "b"; b "a"] [] =
  Ok (kx_lines (["WEBVTT"; ""; "STYLE"; "sa"; "sb1"; "sb2"; ""] ++ kx_cue))
  /\ write_vtt (kx_doc [] [(b "a", None); (b "c", Some [])]) [b "b"; b "a"; b "c"] [] =
  Ok (kx_lines (["WEBVTT"; ""] ++ kx_cue)).
Proof. split; vm_compute; reflexivity. Qed.
