(* C05: timecodes of TTI blocks, block lengths and file layout, totality of reader and writer, and the table
   theorems re-proved against the generated tables on every run. *)
From Coq Require Import List ZArith NArith Bool Lia ZifyBool ZifyN ZifyNat.
From Astisub Require Import Kit.Base Kit.Str Kit.Utf8 Kit.Scan Model.Dur Model.Stl Gen.StlTables Proofs.DurProofs.
Import ListNotations.
Open Scope Z_scope.

(* ================= table theorems (generated tables, checked by computation) ================= *)
Theorem tables_only_latin : stl_tables_existing = [stl_c_cctLatin].
Proof. reflexivity. Qed.
Theorem table_strings_nonempty : forallb (fun e => negb (match snd e with [] => true | _ => false end)) stl_table = true.
Proof. vm_compute. reflexivity. Qed.
(* decode1 never misses the composition table: an entry for every accent byte of the table and every table byte *)
Theorem nfc_table_complete :
  forallb (fun e => negb (is_accent_byte (fst e)) ||
     match alookup (fst e) stl_nfc with
     | Some row => forallb (fun e' => o_some (alookup (fst e') row)) stl_table
     | None => false
     end) stl_table = true.
Proof. vm_compute. reflexivity. Qed.
Theorem framerates : stl_framerate = [([83;84;76;50;53;46;48;49]%N, 25); ([83;84;76;51;48;46;48;49]%N, 30)]
  /\ stl_framerate_inv = [(25, [83;84;76;50;53;46;48;49]%N); (30, [83;84;76;51;48;46;48;49]%N)].
Proof. split; reflexivity. Qed.

(* the byte offsets the model's parser and writer use are those probed from the code, and they are those of
   EBU Tech 3264; fields numbered in the declaration order of gsiBlock / ttiBlock (0 = disk format code) *)
Definition ebu_gsi_layout : list (N * N * N) :=
  [(1, 12, 2); (2, 0, 3); (3, 274, 3); (4, 224, 6); (5, 273, 1); (6, 11, 1); (7, 341, 32); (8, 309, 32); (9, 3, 8); (10, 14, 2);
   (11, 251, 2); (12, 253, 2); (13, 48, 32); (14, 16, 32); (15, 277, 32); (16, 230, 6); (17, 236, 2); (18, 208, 16);
   (19, 264, 8); (20, 256, 8); (21, 255, 1); (22, 272, 1); (23, 248, 3); (24, 243, 5); (25, 238, 5); (26, 112, 32);
   (27, 80, 32); (28, 176, 32); (29, 144, 32)]%N.
Theorem gsi_write_layout_is_ebu : stl_gsi_write_layout = ebu_gsi_layout.
Proof. reflexivity. Qed.
Theorem gsi_parse_layout_is_ebu :
  stl_gsi_parse_layout = ((0, 3, 8) :: filter (fun e => negb (fst (fst e) =? 9)%N) ebu_gsi_layout ++ [(30, 448, 576)])%N.
Proof. reflexivity. Qed.
Definition ebu_tti_layout : list (N * N * N) :=
  [(1, 15, 1); (2, 4, 1); (3, 3, 1); (4, 14, 1); (5, 0, 1); (6, 1, 2); (7, 16, 112); (8, 5, 4); (9, 9, 4); (10, 13, 1)]%N.
Theorem tti_layouts_are_ebu : stl_tti_parse_layout = ebu_tti_layout /\ stl_tti_write_layout = ebu_tti_layout.
Proof. split; reflexivity. Qed.
Theorem generated_block_lengths : stl_gsi_written_length = 1024%N /\ stl_tti_written_length = 128%N
  /\ stl_c_blockSizeGSI = 1024%N /\ stl_c_blockSizeTTI = 128%N.
Proof. repeat split; reflexivity. Qed.

(* ================= timecodes ================= *)
Definition tc_ok (h m s f fps : Z) : Prop := 0 <= h < 256 /\ 0 <= m < 60 /\ 0 <= s < 60 /\ 0 <= f < fps.
Definition tc_bytes (h m s f : Z) : list N := [Z.to_N h; Z.to_N m; Z.to_N s; Z.to_N f].
(* the exact instant of a timecode, times fps (so that it is an integer) *)
Definition tc_exact_fps (h m s f fps : Z) : Z := (h * hour_ns + m * minute_ns + s * second_ns) * fps + f * second_ns.

Lemma parse_tc_value h m s f fps : tc_ok h m s f fps ->
  parse_stl_bytes (tc_bytes h m s f) fps = h * hour_ns + m * minute_ns + s * second_ns + frames_ns f fps.
Proof. intros (Hh & Hm & Hs & Hf). unfold parse_stl_bytes, tc_bytes. rewrite !Z2N.id by lia. reflexivity. Qed.

Lemma frames_ns_bounds f fps : (fps = 25 \/ fps = 30) -> 0 <= f < fps ->
  second_ns * f <= frames_ns f fps * fps < second_ns * f + fps /\ 0 <= frames_ns f fps < second_ns.
Proof.
  intros Hfps Hf. unfold frames_ns, second_ns. destruct Hfps; subst fps;
  rewrite Z.quot_div_nonneg by lia; split; try (apply Z.div_pos; lia); Z.div_mod_to_equations; lia.
Qed.

(* the reader's instant for a timecode is within 1 ns of the exact frame instant (never before it) *)
Theorem tti_timecode_exact h m s f fps : (fps = 25 \/ fps = 30) -> tc_ok h m s f fps ->
  tc_exact_fps h m s f fps <= parse_stl_bytes (tc_bytes h m s f) fps * fps < tc_exact_fps h m s f fps + fps.
Proof.
  intros Hfps Hok. rewrite (parse_tc_value _ _ _ _ _ Hok). destruct Hok as (Hh & Hm & Hs & Hf).
  pose proof (frames_ns_bounds f fps Hfps Hf) as [B _]. unfold tc_exact_fps. nia.
Qed.

(* writing the reader's instant gives the timecode back: every h:m:s:f at 25 and 30 frames per second *)
Theorem tti_timecode_roundtrip h m s f fps : (fps = 25 \/ fps = 30) -> tc_ok h m s f fps ->
  format_stl_bytes (parse_stl_bytes (tc_bytes h m s f) fps) fps = tc_bytes h m s f.
Proof.
  intros Hfps Hok. rewrite (parse_tc_value _ _ _ _ _ Hok). destruct Hok as (Hh & Hm & Hs & Hf).
  pose proof (frames_ns_bounds f fps Hfps Hf) as [B C]. set (c := frames_ns f fps) in *.
  unfold format_stl_bytes, stl_fields, hour_ns, minute_ns, second_ns in *.
  assert (E1 : Z.quot (h * 3600000000000 + m * 60000000000 + s * 1000000000 + c) 3600000000000 = h).
  { rewrite Z.quot_div_nonneg by lia. Z.div_mod_to_equations. lia. }
  rewrite E1.
  replace (h * 3600000000000 + m * 60000000000 + s * 1000000000 + c - h * 3600000000000) with (m * 60000000000 + s * 1000000000 + c) by lia.
  assert (E2 : Z.quot (m * 60000000000 + s * 1000000000 + c) 60000000000 = m).
  { rewrite Z.quot_div_nonneg by lia. Z.div_mod_to_equations. lia. }
  rewrite E2.
  replace (m * 60000000000 + s * 1000000000 + c - m * 60000000000) with (s * 1000000000 + c) by lia.
  assert (E3 : Z.quot (s * 1000000000 + c) 1000000000 = s).
  { rewrite Z.quot_div_nonneg by lia. Z.div_mod_to_equations. lia. }
  rewrite E3.
  replace (s * 1000000000 + c - s * 1000000000) with c by lia.
  assert (E4 : Z.quot (c * fps) 1000000000 = f).
  { rewrite Z.quot_div_nonneg by nia. destruct Hfps; subst fps; Z.div_mod_to_equations; lia. }
  rewrite E4. unfold tc_bytes. cbn [map]. rewrite !Z.mod_small by lia. reflexivity.
Qed.

(* the reader subtracts the programme start, the writer adds the programme start it declares: the timecode is kept *)
Theorem rewrite_keeps_timecode h m s f fps tcp : (fps = 25 \/ fps = 30) -> tc_ok h m s f fps ->
  let cue_time := parse_stl_bytes (tc_bytes h m s f) fps - tcp in
  format_stl_bytes (cue_time + tcp) fps = tc_bytes h m s f.
Proof.
  intros Hfps Hok. cbn zeta. replace (parse_stl_bytes (tc_bytes h m s f) fps - tcp + tcp) with (parse_stl_bytes (tc_bytes h m s f) fps) by lia.
  apply tti_timecode_roundtrip; assumption.
Qed.

(* ================= block lengths and file layout ================= *)
Lemma pad_right_cut_length c n s : length (pad_right_cut c n s) = n.
Proof.
  unfold pad_right_cut, pad_right. rewrite firstn_length, app_length, repeat_length. lia.
Qed.
Lemma pad_left_cut_length c n s : length (pad_left_cut c n s) = n.
Proof.
  unfold pad_left_cut, pad_left. destruct (Nat.ltb n (length s)) eqn:E.
  - apply Nat.ltb_lt in E. rewrite firstn_length. lia.
  - apply Nat.ltb_ge in E. rewrite app_length, repeat_length. lia.
Qed.
Lemma format_stl_bytes_length t fps : length (format_stl_bytes t fps) = 4%nat.
Proof. unfold format_stl_bytes. destruct (stl_fields t fps) as [[[h m] s] f]. reflexivity. Qed.

Theorem gsi_bytes_length g : length (gsi_bytes g) = 1024%nat.
Proof.
  unfold gsi_bytes. repeat (rewrite app_length). repeat rewrite pad_right_cut_length. repeat rewrite pad_left_cut_length.
  rewrite repeat_length. reflexivity.
Qed.
Theorem tti_bytes_length fps dsc tcp t : length (tti_bytes fps dsc tcp t) = 128%nat.
Proof.
  unfold tti_bytes. repeat (rewrite app_length). rewrite pad_right_cut_length, !format_stl_bytes_length. reflexivity.
Qed.
Lemma tti_blocks_length fps dsc tcp items : forall idx, length (tti_blocks fps dsc tcp items idx) = (128 * length items)%nat.
Proof.
  induction items as [|i r IH]; intros idx; cbn [tti_blocks length]; [reflexivity|].
  rewrite app_length, tti_bytes_length, IH. lia.
Qed.

(* one 1024-byte GSI block plus one 128-byte TTI block per cue *)
Definition written (now : str) (md : option wmeta) (items : list witem) : str :=
  gsi_bytes (new_gsi now md items) ++ tti_blocks (g_fps (new_gsi now md items)) (g_dsc (new_gsi now md items)) (g_tcp (new_gsi now md items)) items 1.
Lemma write_stl_eq now md items : items <> [] -> write_stl now md items = Ok (written now md items).
Proof. unfold write_stl. destruct items; [contradiction|]. intros _. reflexivity. Qed.
Lemma written_length now md items : length (written now md items) = (1024 + 128 * length items)%nat.
Proof. unfold written. rewrite app_length, gsi_bytes_length, tti_blocks_length. reflexivity. Qed.
Theorem write_layout now md items out : write_stl now md items = Ok out ->
  length out = (1024 + 128 * length items)%nat.
Proof.
  intros H. assert (Hne : items <> []) by (intros ->; discriminate H).
  rewrite (write_stl_eq now md items Hne) in H. assert (E : out = written now md items) by congruence.
  rewrite E. apply written_length.
Qed.
Theorem write_ok_iff now md items : (exists out, write_stl now md items = Ok out) <-> items <> [].
Proof.
  unfold write_stl. destruct items as [|i r]; split; intros H.
  - destruct H as [o H]. discriminate.
  - contradiction.
  - discriminate.
  - eexists. reflexivity.
Qed.

(* ================= totality ================= *)
Theorem write_total now md items : forall site, write_stl now md items <> Panic site.
Proof. intros site. unfold write_stl. destruct items; discriminate. Qed.

Lemma bind_no_panic {A B} (r : res A) (f : A -> res B) :
  (forall s, r <> Panic s) -> (forall a s, f a <> Panic s) -> forall s, bind r f <> Panic s.
Proof. intros Hr Hf s. destruct r as [a|k|s']; cbn [bind]; [apply Hf | discriminate | exfalso; exact (Hr s' eq_refl)]. Qed.

Lemma num_field_no_panic v s : num_field v <> Panic s.
Proof. unfold num_field. destruct (trim_space v); [discriminate|]. destruct (atoi _); discriminate. Qed.
Lemma date_field_no_panic v s : date_field v <> Panic s.
Proof. unfold date_field. destruct (trim_space v); [discriminate|]. destruct (date_valid _); discriminate. Qed.
Lemma tc_field_no_panic v fps s : tc_field v fps <> Panic s.
Proof. unfold tc_field. destruct (trim_space v); [discriminate|]. destruct (Nat.ltb _ _); [discriminate|]. destruct (parse_stl _ _); discriminate. Qed.

Lemma parse_gsi_no_panic b s : parse_gsi b <> Panic s.
Proof.
  unfold parse_gsi. destruct (slookup _ _); [|discriminate]. revert s.
  repeat (apply bind_no_panic; [intros s; first [apply date_field_no_panic | apply num_field_no_panic | apply tc_field_no_panic] | intros ?]).
  intros s. discriminate.
Qed.

Lemma open_row_no_panic row : forall items text a acc s, open_row row items text a acc <> Panic s.
Proof.
  induction row as [|v r IH]; intros items text a acc s; cbn [open_row]; [discriminate|].
  destruct (Z.of_N v <=? 31)%Z eqn:E; destruct (v <=? 31)%N eqn:E'; try discriminate; try lia;
  (destruct (sty_code v); [apply IH | destruct (decode1 acc v); apply IH]).
Qed.
Lemma rows_open_no_panic rows : forall acc lines s, rows_open rows acc lines <> Panic s.
Proof.
  induction rows as [|row r IH]; intros acc lines s; cbn [rows_open]; [discriminate|].
  apply bind_no_panic; [intros s'; apply open_row_no_panic|]. intros [l acc'] s'. apply IH.
Qed.
Lemma tti_loop_no_panic fuel : forall data g tcp acc items s, tti_loop fuel data g tcp acc items <> Panic s.
Proof.
  induction fuel as [|f IH]; intros data g tcp acc items s; cbn [tti_loop]; [discriminate|].
  destruct (read_n 128 data []) as [p rest cs| |]; [|discriminate|discriminate].
  destruct (t_ebn _ =? 254); [apply IH|].
  destruct (str_eqb (g_dsc g) stl_s_dscOpen).
  - apply bind_no_panic; [intros s'; apply rows_open_no_panic|]. intros [lines acc'] s'. apply IH.
  - destruct (rows_ttx _ acc []) as [lines acc']. apply IH.
Qed.

(* the reader returns a value or an error on every byte string *)
Theorem read_total ign data : forall site, read_stl ign data <> Panic site.
Proof.
  intros site. unfold read_stl. destruct (read_n 1024 data []) as [b rest cs| |]; [|discriminate|discriminate].
  revert site. apply bind_no_panic; [intros s; apply parse_gsi_no_panic|]. intros g s.
  destruct (negb _); [discriminate|]. revert s. apply bind_no_panic; [intros s; apply tti_loop_no_panic|]. intros items s. discriminate.
Qed.
