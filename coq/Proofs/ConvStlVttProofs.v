(* EBU STL -> WebVTT (Model/ConvStlVtt.v): the WebVTT document WriteToWebVTT produces from the cue list ReadFromSTL
   filled reads back (ReadFromWebVTT) to the same cues in the same order, times truncated to the millisecond, and per
   line the text of the STL runs put together - exactly [stl_to_plain], which also concatenates the run texts.
   The space the STL FILE may have had between two runs of a row is already gone in the reader's runs (the reader
   trims every run, Stl.append_open / Stl.stl_append_ttx): this is why the comparison of the conversion property is
   "white space between runs disregarded"; nothing more is lost between the cue list and the WebVTT text.

   Route: [conv_stl_vtt d] itself is outside the domain of VttDoc.write_read_vtt as soon as a line has two runs
   (adjacent runs with the same tag stack and no timestamp are written into one text token: VttLine.pair_ok) or a
   run has a colour (VttLine.run_ok wants TTMLColor nil).  [stlvtt_norm d] (adjacent class-less runs merged, the
   colour class turned into the tag c.CLASS) is written to the SAME BYTES ([stlvtt_norm_bytes]) and is in that
   domain under the decidable condition [stlvtt_okb]. *)
From Coq Require Import List ZArith NArith Bool Lia Arith.
From Astisub Require Import Kit.Base Kit.Str Kit.Scan Model.Dur Model.Srt Model.Vtt Model.Conv Model.Plain Model.Stl
  Model.PlainStl Model.ConvStlVtt.
From Astisub Require Import Proofs.SrtEscProofs Proofs.VttBase Proofs.VttLine Proofs.VttDoc.
Import ListNotations.
Open Scope N_scope.

(* ================= escapeHTML over a concatenation ================= *)
Lemma stlvtt_esc_amp t : escape_html (38 :: t) = e_amp ++ escape_html t.
Proof.
  unfold escape_html. rewrite (replace_cons_match _ _ _ e_amp t); [reflexivity | exact esc_pairs_ne | reflexivity].
Qed.
Lemma stlvtt_esc_lt t : escape_html (60 :: t) = e_lt ++ escape_html t.
Proof.
  unfold escape_html. rewrite (replace_cons_match _ _ _ e_lt t); [reflexivity | exact esc_pairs_ne | reflexivity].
Qed.
Lemma stlvtt_esc_nbsp t : escape_html (194 :: 160 :: t) = e_nbsp ++ escape_html t.
Proof.
  unfold escape_html. rewrite (replace_cons_match _ _ _ e_nbsp t); [reflexivity | exact esc_pairs_ne | reflexivity].
Qed.
Lemma stlvtt_esc_other c t : c <> 38 -> c <> 60 -> (c = 194 -> forall t', t <> 160 :: t') ->
  escape_html (c :: t) = c :: escape_html t.
Proof.
  intros H1 H2 H3. unfold escape_html. apply replace_cons_nomatch.
  cbv beta iota delta [esc_pairs first_match prefix nbsp].
  destruct (38 =? c) eqn:E1; [apply N.eqb_eq in E1; congruence|].
  destruct (60 =? c) eqn:E2; [apply N.eqb_eq in E2; congruence|].
  destruct (194 =? c) eqn:E3; [|reflexivity]. apply N.eqb_eq in E3. symmetry in E3. specialize (H3 E3).
  destruct t as [|d t']; [reflexivity|]. destruct (160 =? d) eqn:E4; [|reflexivity].
  apply N.eqb_eq in E4. subst d. contradiction (H3 t' eq_refl).
Qed.

Lemma stlvtt_ends_c2_tl c t : stlvtt_ends_c2 (c :: t) = false -> stlvtt_ends_c2 t = false.
Proof.
  unfold stlvtt_ends_c2. cbn [rev]. destruct (rev t) as [|x r] eqn:E; [reflexivity|]. cbn [app]. intros H. exact H.
Qed.

Lemma stlvtt_escape_app : forall n a b, (length a <= n)%nat -> stlvtt_ends_c2 a = false ->
  escape_html (a ++ b) = escape_html a ++ escape_html b.
Proof.
  induction n as [|n IH]; intros a b Hn Ha.
  - destruct a; [reflexivity | cbn [length] in Hn; lia].
  - destruct a as [|c t]; [reflexivity|]. cbn [length] in Hn. pose proof (stlvtt_ends_c2_tl _ _ Ha) as Ht.
    cbn [app]. destruct (N.eq_dec c 38) as [->|N1].
    { rewrite !stlvtt_esc_amp, <- app_assoc. f_equal. apply IH; [lia | exact Ht]. }
    destruct (N.eq_dec c 60) as [->|N2].
    { rewrite !stlvtt_esc_lt, <- app_assoc. f_equal. apply IH; [lia | exact Ht]. }
    destruct (N.eq_dec c 194) as [->|N3].
    + destruct t as [|d t']; [discriminate Ha|]. destruct (N.eq_dec d 160) as [->|N4].
      * cbn [app]. rewrite !stlvtt_esc_nbsp, <- app_assoc. f_equal. cbn [length] in Hn.
        apply IH; [lia | exact (stlvtt_ends_c2_tl _ _ Ht)].
      * cbn [app]. rewrite (stlvtt_esc_other 194 (d :: t' ++ b)), (stlvtt_esc_other 194 (d :: t')); try discriminate.
        -- cbn [app]. f_equal. apply (IH (d :: t') b); [lia | exact Ht].
        -- intros _ t2 E. injection E as E _. contradiction.
        -- intros _ t2 E. injection E as E _. contradiction.
    + rewrite (stlvtt_esc_other c (t ++ b) N1 N2), (stlvtt_esc_other c t N1 N2); try (intros E; contradiction).
      cbn [app]. f_equal. apply IH; [lia | exact Ht].
Qed.

(* ================= the written bytes ================= *)
(* a run of [conv_stl_vtt d], whatever its neighbours: [<c.CLASS>] escaped text [</c>] *)
Definition stlvtt_seg_bytes (s : str * str) : str :=
  (match fst s with [] => [] | c => [60;99;46] ++ c ++ [62] end) ++ escape_html (snd s) ++
  (match fst s with [] => [] | _ => [60;47;99;62] end).

Lemma stlvtt_run_bytes prev next r : vrun_bytes prev next (stlvtt_run r) = stlvtt_seg_bytes (stlvtt_seg r).
Proof.
  unfold vrun_bytes, stlvtt_run, run_tags, stlvtt_seg_bytes, stlvtt_seg, stlvtt_class.
  cbn [vr_color vr_tags vr_time vr_text fst snd]. cbv zeta. rewrite !skipn_nil. cbn [map concat rev].
  change (0 <? 0)%Z with false. cbv iota.
  destruct (match stlvtt_color (ru_at r) with Some c => css_color c | None => [] end) as [|x c]; cbn [app]; reflexivity.
Qed.

Lemma stlvtt_runs_bytes : forall l prev,
  vruns_bytes prev (map stlvtt_run l) = concat (map stlvtt_seg_bytes (map stlvtt_seg l)).
Proof.
  induction l as [|r l IH]; intros prev; [reflexivity|]. cbn [map vruns_bytes concat].
  rewrite stlvtt_run_bytes, IH. reflexivity.
Qed.

(* merging adjacent class-less runs does not change the bytes *)
Lemma stlvtt_merge_bytes : forall l prev, stlvtt_sep_segs prev l = true ->
  concat (map stlvtt_seg_bytes (stlvtt_merge l)) = concat (map stlvtt_seg_bytes l).
Proof.
  induction l as [|[c t] rest IH]; intros prev H; [reflexivity|]. cbn [stlvtt_sep_segs] in H.
  apply andb_true_iff in H. destruct H as [H H3]. apply andb_true_iff in H. destruct H as [H1 _].
  apply negb_true_iff in H1. cbn [stlvtt_merge map concat]. rewrite <- (IH _ H3).
  destruct c as [|x c']; [|reflexivity].
  destruct (stlvtt_merge rest) as [|[c2 t2] rest']; [reflexivity|]. destruct c2 as [|y c2']; [|reflexivity].
  cbn [map concat]. unfold stlvtt_seg_bytes. cbn [fst snd app]. rewrite !app_nil_r.
  rewrite (stlvtt_escape_app (length t) t t2 (le_n _) H1), app_assoc. reflexivity.
Qed.

(* the classes of adjacent segments differ *)
Fixpoint stlvtt_alt (prev : option str) (m : list (str * str)) : bool :=
  match m with
  | [] => true
  | (c, t) :: rest => (match prev with Some p => negb (str_eqb p c) | None => true end) && stlvtt_alt (Some c) rest
  end.
Definition stlvtt_hdc (m : list (str * str)) : option str := match m with [] => None | (c, _) :: _ => Some c end.

Lemma stlvtt_alt_some c m : stlvtt_alt None m = true ->
  match stlvtt_hdc m with Some c2 => str_eqb c c2 = false | None => True end -> stlvtt_alt (Some c) m = true.
Proof.
  destruct m as [|[c2 t2] rest]; [reflexivity|]. cbn [stlvtt_alt stlvtt_hdc andb]. intros H E. rewrite E, H. reflexivity.
Qed.

Lemma stlvtt_merge_alt : forall l prev, stlvtt_sep_segs prev l = true ->
  stlvtt_alt None (stlvtt_merge l) = true /\ stlvtt_hdc (stlvtt_merge l) = stlvtt_hdc l.
Proof.
  induction l as [|[c t] rest IH]; intros prev H; [split; reflexivity|]. cbn [stlvtt_sep_segs] in H.
  apply andb_true_iff in H. destruct H as [_ H3]. destruct (IH _ H3) as [IA IHd]. cbn [stlvtt_merge].
  destruct c as [|x c'].
  - destruct (stlvtt_merge rest) as [|[c2 t2] rest'] eqn:Em; [split; reflexivity|].
    destruct c2 as [|y c2'].
    + split; [|reflexivity]. cbn [stlvtt_alt andb] in *. exact IA.
    + split; [|reflexivity]. cbn [stlvtt_alt andb] in *. cbn [str_eqb negb andb]. exact IA.
  - split; [|reflexivity]. cbn [stlvtt_alt andb]. apply stlvtt_alt_some; [exact IA|]. rewrite IHd.
    destruct rest as [|[c2 t2] rest2]; [exact I|]. cbn [stlvtt_hdc]. cbn [stlvtt_sep_segs] in H3.
    apply andb_true_iff in H3. destruct H3 as [H3 _]. apply andb_true_iff in H3. destruct H3 as [_ H3].
    destruct c2 as [|y c2']; [reflexivity|]. apply negb_true_iff in H3. exact H3.
Qed.

Lemma stlvtt_seg_run_color s : vr_color (stlvtt_seg_run s) = None.
Proof. unfold stlvtt_seg_run. destruct (fst s); reflexivity. Qed.
Lemma stlvtt_seg_run_text s : vr_text (stlvtt_seg_run s) = snd s.
Proof. unfold stlvtt_seg_run. destruct (fst s); reflexivity. Qed.

Lemma stlvtt_ctag_start c : tag_start (stlvtt_ctag c) = [60;99;46] ++ c ++ [62].
Proof. reflexivity. Qed.

(* different classes: no tag is shared *)
Lemma stlvtt_cp0 a b : str_eqb (fst a) (fst b) = false ->
  common_prefix (run_tags (stlvtt_seg_run a)) (run_tags (stlvtt_seg_run b)) = O.
Proof.
  intros H. unfold stlvtt_seg_run. destruct (fst a) as [|x ca] eqn:Ea; [apply common_prefix_nil_l|].
  destruct (fst b) as [|y cb] eqn:Eb; [apply common_prefix_nil_r|]. unfold run_tags. cbn [vr_tags common_prefix].
  rewrite !stlvtt_ctag_start.
  destruct (str_eqb ([60;99;46] ++ (x :: ca) ++ [62]) ([60;99;46] ++ (y :: cb) ++ [62])) eqn:E; [|reflexivity].
  apply str_eqb_eq in E. apply app_inv_head in E. apply app_inv_tail in E. rewrite E, str_eqb_refl in H. discriminate.
Qed.

Lemma stlvtt_norm_run_bytes prev next s :
  common_prefix (otags prev) (run_tags (stlvtt_seg_run s)) = O ->
  common_prefix (run_tags (stlvtt_seg_run s)) (otags next) = O ->
  vrun_bytes prev next (stlvtt_seg_run s) = stlvtt_seg_bytes s.
Proof.
  intros H1 H2. rewrite (vrun_bytes_eq _ _ _ (stlvtt_seg_run_color s)), H1, H2. cbn [skipn].
  unfold body, ts_bytes, stlvtt_seg_bytes. rewrite stlvtt_seg_run_text. unfold stlvtt_seg_run, run_tags.
  destruct (fst s) as [|x c]; cbn [vr_tags vr_time map concat rev app]; change (0 <? 0)%Z with false; cbv iota.
  - cbn [app]. rewrite ?app_nil_r. reflexivity.
  - rewrite stlvtt_ctag_start. cbn [app]. rewrite app_nil_r. change (tag_end (stlvtt_ctag (x :: c))) with [60;47;99;62].
    rewrite app_nil_r. rewrite <- !app_assoc. reflexivity.
Qed.

Lemma stlvtt_norm_runs_bytes : forall m prev, stlvtt_alt (option_map fst prev) m = true ->
  vruns_bytes (option_map stlvtt_seg_run prev) (map stlvtt_seg_run m) = concat (map stlvtt_seg_bytes m).
Proof.
  induction m as [|[c t] rest IH]; intros prev H; [reflexivity|]. cbn [stlvtt_alt] in H.
  apply andb_true_iff in H. destruct H as [Hp Hr]. cbn [map vruns_bytes concat].
  rewrite <- (IH (Some (c, t)) Hr). cbn [option_map]. f_equal. apply stlvtt_norm_run_bytes.
  - destruct prev as [[pc pt]|]; cbn [option_map otags fst] in *; [|apply common_prefix_nil_l].
    apply stlvtt_cp0. cbn [fst]. apply negb_true_iff in Hp. exact Hp.
  - destruct rest as [|[c2 t2] rest2]; cbn [map otags]; [apply common_prefix_nil_r|].
    apply stlvtt_cp0. cbn [fst]. cbn [stlvtt_alt] in Hr. apply andb_true_iff in Hr. destruct Hr as [Hr _].
    apply negb_true_iff in Hr. exact Hr.
Qed.

Lemma stlvtt_line_bytes l : stlvtt_sep_segs None (map stlvtt_seg l) = true ->
  vline_bytes (stlvtt_line l) = vline_bytes (stlvtt_nline l).
Proof.
  intros H. unfold vline_bytes, stlvtt_line, stlvtt_nline. cbn [vl_voice vl_runs]. f_equal. f_equal.
  rewrite stlvtt_runs_bytes. destruct (stlvtt_merge_alt _ _ H) as [HA _].
  pose proof (stlvtt_norm_runs_bytes _ None HA) as Hn. cbn [option_map] in Hn. rewrite Hn. symmetry. apply (stlvtt_merge_bytes _ None H).
Qed.

Lemma stlvtt_lines_bytes : forall ls, forallb (fun l => stlvtt_sep_segs None (map stlvtt_seg l)) ls = true ->
  concat (map vline_bytes (map stlvtt_line ls)) = concat (map vline_bytes (map stlvtt_nline ls)).
Proof.
  induction ls as [|l ls IH]; intros H; [reflexivity|]. cbn [forallb] in H. apply andb_true_iff in H. destruct H as [H1 H2].
  cbn [map concat]. rewrite (stlvtt_line_bytes l H1), (IH H2). reflexivity.
Qed.

Lemma stlvtt_items_bytes : forall its k,
  forallb (fun it => forallb (fun l => stlvtt_sep_segs None (map stlvtt_seg l)) (ri_lines it)) its = true ->
  vitems_bytes k (map stlvtt_item its) = vitems_bytes k (map stlvtt_nitem its).
Proof.
  induction its as [|it r IH]; intros k H; [reflexivity|]. cbn [forallb] in H. apply andb_true_iff in H. destruct H as [H1 H2].
  cbn [map vitems_bytes]. rewrite (IH (S k) H2). unfold vitem_settings.
  cbn [stlvtt_item stlvtt_nitem vi_comments vi_st vi_en vi_lines vi_set vi_fb vi_region].
  rewrite (stlvtt_lines_bytes _ H1). reflexivity.
Qed.

(* the two documents are written to the same bytes *)
Theorem stlvtt_norm_bytes d : stlvtt_sepb d = true ->
  write_vtt (conv_stl_vtt d) [] [] = write_vtt (stlvtt_norm d) [] [].
Proof.
  intros H. unfold stlvtt_sepb in H. pose proof (stlvtt_items_bytes _ O H) as Hb.
  unfold write_vtt, conv_stl_vtt, stlvtt_norm. cbn [vd_items vd_styles vd_regions vd_tsmap]. rewrite Hb.
  destruct (Stl.rd_items d); reflexivity.
Qed.

(* ================= the plain view of what is read back ================= *)
(* both documents: the same cue shape around their lines *)
Definition stlvtt_gitem (g : list erun -> vline) (it : ritem) : vitem :=
  mkVitem 0 (ri_st it) (ri_en it) [] None (Some (mkVset (ri_align it) (ri_line it) [] [] [])) None (map g (ri_lines it)).

Lemma stlvtt_gitems_plain (g : list erun -> vline) :
  (forall l, vline_text (nline (g l)) = stl_line_text l) ->
  forall its k, map vview (nitems k (map (stlvtt_gitem g) its)) =
                ptrunc 1000000 (map (fun it => (ri_st it, ri_en it, map stl_line_text (ri_lines it))) its).
Proof.
  intros Hg. induction its as [|it r IH]; intros k; [reflexivity|]. cbn [map nitems ptrunc]. rewrite IH. f_equal.
  unfold vview, nitem, stlvtt_gitem. cbn [vi_st vi_en vi_lines]. unfold VttBase.trunc_ms, trunc_to. f_equal.
  rewrite !map_map. apply map_ext. intros l. apply Hg.
Qed.

Lemma stlvtt_line_text l : vline_text (nline (stlvtt_line l)) = stl_line_text l.
Proof.
  unfold vline_text, nline, stlvtt_line, stl_line_text. cbn [vl_runs]. rewrite !map_map. reflexivity.
Qed.

Lemma stlvtt_merge_text : forall m, concat (map snd (stlvtt_merge m)) = concat (map snd m).
Proof.
  induction m as [|[c t] rest IH]; [reflexivity|]. cbn [stlvtt_merge map concat snd]. rewrite <- IH.
  destruct c as [|x c']; [|reflexivity].
  destruct (stlvtt_merge rest) as [|[c2 t2] rest']; [reflexivity|]. destruct c2 as [|y c2']; [|reflexivity].
  cbn [map concat snd]. rewrite app_assoc. reflexivity.
Qed.

Lemma stlvtt_nline_text l : vline_text (nline (stlvtt_nline l)) = stl_line_text l.
Proof.
  unfold vline_text, nline, stlvtt_nline, stl_line_text. cbn [vl_runs]. rewrite !map_map.
  rewrite (map_ext (fun x => vr_text (nrun (stlvtt_seg_run x))) snd).
  - rewrite stlvtt_merge_text, map_map. reflexivity.
  - intros s. unfold nrun. cbn [vr_text]. apply stlvtt_seg_run_text.
Qed.

(* what ReadFromWebVTT returns for the written document, seen as plain cues: the cues of the STL cue list, times to the
   millisecond, line texts EXACTLY those of [stl_to_plain] (run texts put together on both sides) *)
Lemma stl_vtt_plain d : vtt_to_plain (ndoc (conv_stl_vtt d) [] []) = ptrunc 1000000 (stl_to_plain d).
Proof.
  unfold vtt_to_plain, ndoc, conv_stl_vtt, stl_to_plain. cbn [vd_items].
  exact (stlvtt_gitems_plain stlvtt_line stlvtt_line_text (Stl.rd_items d) O).
Qed.
Lemma stl_vtt_plain_norm d : vtt_to_plain (ndoc (stlvtt_norm d) [] []) = ptrunc 1000000 (stl_to_plain d).
Proof.
  unfold vtt_to_plain, ndoc, stlvtt_norm, stl_to_plain. cbn [vd_items].
  exact (stlvtt_gitems_plain stlvtt_nline stlvtt_nline_text (Stl.rd_items d) O).
Qed.

(* ================= the conversion theorems ================= *)
(* as the WebVTT write/read theorem states its domain.  [repr_vdoc (conv_stl_vtt d) [] []] holds only when every line
   has ONE run and no run has a colour (VttLine.pair_ok, VttLine.run_ok); the general case is
   [conversion_stl_vtt_styled_ok] below *)
Theorem conversion_stl_vtt_styled : forall d, repr_vdoc (conv_stl_vtt d) [] [] ->
  exists dst, write_vtt (conv_stl_vtt d) [] [] = Ok dst /\ vtt_dec dst = Ok (ptrunc 1000000 (stl_to_plain d)).
Proof.
  intros d Hr. destruct (write_read_vtt _ _ _ Hr) as (dst & Hw & Hrd). exists dst. split; [exact Hw|].
  unfold vtt_dec, dec_with. rewrite Hrd. f_equal. apply stl_vtt_plain.
Qed.

(* several runs per line, colours: through the document written to the same bytes *)
Theorem conversion_stl_vtt_styled_norm : forall d, stlvtt_sepb d = true -> repr_vdoc (stlvtt_norm d) [] [] ->
  exists dst, write_vtt (conv_stl_vtt d) [] [] = Ok dst /\ vtt_dec dst = Ok (ptrunc 1000000 (stl_to_plain d)).
Proof.
  intros d Hs Hr. destruct (write_read_vtt _ _ _ Hr) as (dst & Hw & Hrd). exists dst. split.
  - rewrite (stlvtt_norm_bytes d Hs). exact Hw.
  - unfold vtt_dec, dec_with. rewrite Hrd. f_equal. apply stl_vtt_plain_norm.
Qed.

(* ---- a decidable sufficient condition on the STL cue list ----
   at least one cue (and no more than an int64 counts); times within 0 .. MaxInt64; align / line values the cue-setting
   parser returns unchanged ([set_ok]); per line of [stlvtt_norm d] what VttDoc asks of a cue text line
   ([text_line_ok]: runs non-empty, without NUL, their tags well formed, adjacent runs separated by a tag; the written
   line valid UTF-8, without surrounding white space or line break, not mistaken for a NOTE / STYLE / Region / timing /
   timestamp-map line); and [stlvtt_sepb] *)
Definition stlvtt_item_okb (it : vitem) : bool :=
  (0 <=? vi_st it)%Z && (vi_st it <=? max_int64)%Z && (0 <=? vi_en it)%Z && (vi_en it <=? max_int64)%Z &&
  set_ok (eff_set it) && forallb text_line_ok (vi_lines it).
Definition stlvtt_okb (d : rdoc) : bool :=
  (match Stl.rd_items d with [] => false | _ => true end) &&
  (Z.of_nat (length (Stl.rd_items d)) <=? max_int64)%Z &&
  forallb (fun it => stlvtt_item_okb (stlvtt_nitem it)) (Stl.rd_items d) &&
  stlvtt_sepb d.
Definition stl_vtt_ok (d : rdoc) : Prop := stlvtt_okb d = true.

Lemma stlvtt_okb_parts d : stlvtt_okb d = true ->
  Stl.rd_items d <> [] /\ (Z.of_nat (length (Stl.rd_items d)) <= max_int64)%Z /\
  forallb (fun it => stlvtt_item_okb (stlvtt_nitem it)) (Stl.rd_items d) = true /\ stlvtt_sepb d = true.
Proof.
  unfold stlvtt_okb. intros H. apply andb_true_iff in H. destruct H as [H H4]. apply andb_true_iff in H. destruct H as [H H3].
  apply andb_true_iff in H. destruct H as [H1 H2]. apply Z.leb_le in H2.
  split; [|split; [exact H2 | split; [exact H3 | exact H4]]]. destruct (Stl.rd_items d); [discriminate H1 | discriminate].
Qed.

Theorem stl_vtt_ok_repr d : stl_vtt_ok d -> repr_vdoc (stlvtt_norm d) [] [].
Proof.
  intros H. destruct (stlvtt_okb_parts d H) as (Hne & Hlen & Hit & _). constructor.
  - unfold stlvtt_norm. cbn [vd_items]. destruct (Stl.rd_items d); [contradiction | discriminate].
  - unfold stlvtt_norm. cbn [vd_items]. rewrite map_length. exact Hlen.
  - constructor.
  - intros k [].
  - unfold stlvtt_norm. cbn [vd_items]. apply Forall_forall. intros v Hv. apply in_map_iff in Hv. destruct Hv as (it & <- & Hin).
    rewrite forallb_forall in Hit. specialize (Hit it Hin). unfold stlvtt_item_okb in Hit.
    apply andb_true_iff in Hit. destruct Hit as [Hit H6]. apply andb_true_iff in Hit. destruct Hit as [Hit H5].
    apply andb_true_iff in Hit. destruct Hit as [Hit H4]. apply andb_true_iff in Hit. destruct Hit as [Hit H3].
    apply andb_true_iff in Hit. destruct Hit as [H1 H2]. apply Z.leb_le in H1, H2, H3, H4.
    unfold item_okd. split; [lia|]. split; [lia|]. split; [exact H5|]. split; [exact I|]. split; [reflexivity | exact H6].
  - split; reflexivity.
  - exact I.
Qed.

Theorem conversion_stl_vtt_styled_ok : forall d, stl_vtt_ok d ->
  exists dst, write_vtt (conv_stl_vtt d) [] [] = Ok dst /\ vtt_dec dst = Ok (ptrunc 1000000 (stl_to_plain d)).
Proof.
  intros d H. apply conversion_stl_vtt_styled_norm; [|exact (stl_vtt_ok_repr d H)].
  destruct (stlvtt_okb_parts d H) as (_ & _ & _ & Hs). exact Hs.
Qed.

(* file to file: an STL file the reader accepts, converted as the library does, read back as WebVTT *)
Corollary conversion_stl_vtt_file : forall ign data d, read_stl ign data = Ok d -> stl_vtt_ok d ->
  exists dst, convert_stl_vtt ign data = Ok dst /\ vtt_dec dst = Ok (ptrunc 1000000 (stl_to_plain d)).
Proof.
  intros ign data d Hr H. destruct (conversion_stl_vtt_styled_ok d H) as (dst & Hw & Hd). exists dst. split; [|exact Hd].
  unfold convert_stl_vtt. rewrite Hr. exact Hw.
Qed.
Corollary conversion_stl_vtt_file_repr : forall ign data d, read_stl ign data = Ok d -> repr_vdoc (conv_stl_vtt d) [] [] ->
  exists dst, convert_stl_vtt ign data = Ok dst /\ vtt_dec dst = Ok (ptrunc 1000000 (stl_to_plain d)).
Proof.
  intros ign data d Hr H. destruct (conversion_stl_vtt_styled d H) as (dst & Hw & Hd). exists dst. split; [|exact Hd].
  unfold convert_stl_vtt. rewrite Hr. exact Hw.
Qed.
(* the reader's failures are the conversion's *)
Lemma convert_stl_vtt_err ign data k : read_stl ign data = Err k -> convert_stl_vtt ign data = Err k.
Proof. intros H. unfold convert_stl_vtt. rewrite H. reflexivity. Qed.

(* ================= examples ================= *)
From Coq Require String Ascii.
Import String.StringSyntax.
Local Open Scope string_scope.

Definition ex_stlvtt_meta (items : list ritem) : rdoc :=
  mkRdoc 25 (b "FRA") (b "240229") (b "1") [] [] 40 23 [] [] (b "240229") 0 [] [] [] [] [] (b "title") 0 (b "french") items.
Definition ex_stlvtt_it (a : sattr_stl) : sattr_stl :=
  mkSattrStl (Some true) (a_un a) (Some true) (a_col a) (a_dh a) (a_ds a) (a_dw a).
Definition ex_stlvtt_col (c : N) : sattr_stl := mkSattrStl None None None (Some c) None None None.

(* the cue observed on the library: 1 s - 2 s, justification right, vertical position 18 of 23; row 1 "hello" then
   "world" in italics and boxed; row 2 "two".  Alignment and line as the reader model derives them. *)
Definition ex_stlvtt_cue1 (a : sattr_stl) : ritem :=
  mkRitem 1000000000 2000000000 (parse_jc 3) 18 23 2 (vtt_align (parse_jc 3)) (vtt_line 18 23)
          [ [ mkErun (b "hello") sattr0_stl (Some 0) (Some 1); mkErun (b "world") (ex_stlvtt_it a) (Some 0) (Some 0) ];
            [ mkErun (b "two") sattr0_stl (Some 0) (Some 0) ] ].
Definition ex_stlvtt_obs : rdoc := ex_stlvtt_meta [ex_stlvtt_cue1 sattr0_stl].

(* the bytes observed: settings from justification / position, run texts side by side, nothing for italics / boxing *)
Example ex_stlvtt_obs_bytes :
  write_vtt (conv_stl_vtt ex_stlvtt_obs) [] [] =
  Ok (b "WEBVTT" ++ [10;10] ++ b "1" ++ [10] ++ b "00:00:01.000 --> 00:00:02.000 align:right line:73%" ++ [10] ++
      b "helloworld" ++ [10] ++ b "two" ++ [10]).
Proof. vm_compute. reflexivity. Qed.
Example ex_stlvtt_obs_ok : stl_vtt_ok ex_stlvtt_obs.
Proof. vm_compute. reflexivity. Qed.

(* styled, two cues: "world" is italic, boxed and red (teletext colour 1); the second cue - left, position 20, times off
   the millisecond grid - has a yellow run with a two-byte character, a green run (no class for #008000) and a plain one *)
Definition ex_stlvtt_cue2 : ritem :=
  mkRitem 3000000123 4000999999 (parse_jc 1) 20 23 1 (vtt_align (parse_jc 1)) (vtt_line 20 23)
          [ [ mkErun (b "caf" ++ [195;169]) (ex_stlvtt_col 3) (Some 0) (Some 1); mkErun (b "vert") (ex_stlvtt_col 2) (Some 0) (Some 1);
              mkErun (b "& fin") sattr0_stl (Some 0) (Some 0) ] ].
Definition ex_stlvtt : rdoc := ex_stlvtt_meta [ex_stlvtt_cue1 (ex_stlvtt_col 1); ex_stlvtt_cue2].

Example ex_stlvtt_bytes :
  write_vtt (conv_stl_vtt ex_stlvtt) [] [] =
  Ok (b "WEBVTT" ++ [10;10] ++
      b "1" ++ [10] ++ b "00:00:01.000 --> 00:00:02.000 align:right line:73%" ++ [10] ++
      b "hello<c.red>world</c>" ++ [10] ++ b "two" ++ [10;10] ++
      b "2" ++ [10] ++ b "00:00:03.000 --> 00:00:04.000 align:left line:82%" ++ [10] ++
      b "<c.yellow>caf" ++ [195;169] ++ b "</c>vert&amp; fin" ++ [10]).
Proof. vm_compute. reflexivity. Qed.

(* outside the literal domain of the write/read theorem (two runs in a line, a colour) ... *)
Example ex_stlvtt_not_repr : ~ repr_vdoc (conv_stl_vtt ex_stlvtt) [] [].
Proof.
  intros [_ _ _ _ Hi _ _]. apply Forall_inv in Hi. destruct Hi as (_ & _ & _ & _ & _ & Hl). vm_compute in Hl. discriminate Hl.
Qed.
(* ... inside the sufficient condition *)
Example ex_stlvtt_ok : stl_vtt_ok ex_stlvtt.
Proof. vm_compute. reflexivity. Qed.

Example ex_stlvtt_conversion :
  exists dst, write_vtt (conv_stl_vtt ex_stlvtt) [] [] = Ok dst /\
              vtt_dec dst = Ok [ (1000000000%Z, 2000000000%Z, [b "helloworld"; b "two"]);
                                 (3000000000%Z, 4000000000%Z, [b "caf" ++ [195;169] ++ b "vert& fin"]) ].
Proof. exact (conversion_stl_vtt_styled_ok ex_stlvtt ex_stlvtt_ok). Qed.

(* the read-back computed: the same plain cues (the theorem's conclusion, checked on the bytes above) *)
Example ex_stlvtt_readback :
  match write_vtt (conv_stl_vtt ex_stlvtt) [] [] with
  | Ok dst => vtt_dec dst = Ok (ptrunc 1000000 (stl_to_plain ex_stlvtt))
  | _ => False
  end.
Proof. vm_compute. reflexivity. Qed.

(* adjacent runs of the same written colour are outside [stl_vtt_ok]: written <c.red>a</c><c.red>b</c>, read back as two
   runs with the same tag stack - the text is still that of the runs put together, as computed here, but no document of
   VttDoc.write_read_vtt is written to those bytes *)
Definition ex_stlvtt_same : rdoc :=
  ex_stlvtt_meta [ mkRitem 0 1000000000 (parse_jc 2) 20 23 1 (vtt_align (parse_jc 2)) (vtt_line 20 23)
                     [ [ mkErun (b "a") (ex_stlvtt_col 1) None None; mkErun (b "b") (ex_stlvtt_it (ex_stlvtt_col 1)) None None ] ] ].
Example ex_stlvtt_same_not_ok : stlvtt_okb ex_stlvtt_same = false.
Proof. vm_compute. reflexivity. Qed.
Example ex_stlvtt_same_readback :
  write_vtt (conv_stl_vtt ex_stlvtt_same) [] [] =
    Ok (b "WEBVTT" ++ [10;10] ++ b "1" ++ [10] ++ b "00:00:00.000 --> 00:00:01.000 line:82%" ++ [10] ++
        b "<c.red>a</c><c.red>b</c>" ++ [10]) /\
  match write_vtt (conv_stl_vtt ex_stlvtt_same) [] [] with
  | Ok dst => vtt_dec dst = Ok (ptrunc 1000000 (stl_to_plain ex_stlvtt_same))
  | _ => False
  end.
Proof. split; vm_compute; reflexivity. Qed.

(* file to file on a real STL file (built by the STL writer model, as in the experiment on the library): one cue 1 s - 2 s,
   justification right, vertical position 18; row 1 "hello" and "world" (italic, boxed), row 2 "two".  The FILE has a space
   between "hello" and the style codes before "world" (WriteToSTL joins the runs of a row with a space) ... *)
Definition ex_stlvtt_witem : witem :=
  mkWitem 1000000000 2000000000 (Some (parse_jc 3)) (Some 18%Z)
          [ [ mkWrun (b "hello") false false false; mkWrun (b "world") true false true ]; [ mkWrun (b "two") false false false ] ].
Definition ex_stlvtt_src : res str := write_stl stl_plain_now None [ex_stlvtt_witem].
Example ex_stlvtt_src_text :
  stl_item_text ex_stlvtt_witem =
  b "hello" ++ [32] ++ [194;132; 194;128] ++ b "world" ++ [194;129; 194;133] ++ [194;138] ++ b "two".
Proof. vm_compute. reflexivity. Qed.
(* ... the reader's runs are "hello", "world" (trimmed), the conversion gives the bytes observed on the library, the cue
   list satisfies [stl_vtt_ok], the WebVTT file reads back with "helloworld" *)
Example ex_stlvtt_file :
  match ex_stlvtt_src with
  | Ok data =>
    convert_stl_vtt false data =
      Ok (b "WEBVTT" ++ [10;10] ++ b "1" ++ [10] ++ b "00:00:01.000 --> 00:00:02.000 align:right line:73%" ++ [10] ++
          b "helloworld" ++ [10] ++ b "two" ++ [10]) /\
    match read_stl false data with
    | Ok d => stlvtt_okb d = true /\
              map (fun it => map (map ru_text) (ri_lines it)) (Stl.rd_items d) = [ [ [b "hello"; b "world"]; [b "two"] ] ] /\
              ptrunc 1000000 (stl_to_plain d) = [ (1000000000%Z, 2000000000%Z, [b "helloworld"; b "two"]) ]
    | _ => False
    end
  | _ => False
  end.
Proof. vm_compute. repeat split; reflexivity. Qed.
