(* Unfragment (C11): order, then merge touching same-text cues into the earlier one. *)
From Coq Require Import List ZArith NArith Bool Lia Permutation Sorted.
From Astisub Require Import Kit.Base Model.Ops Proofs.OrderProofs.
Import ListNotations.
Open Scope Z_scope.

Definition tx (x : item) : str := item_text x.
Definition upd (x y : item) : item := if en x <? en y then set_en x (en y) else x.

Lemma upd_st x y : st (upd x y) = st x.  Proof. unfold upd. destruct (en x <? en y); reflexivity. Qed.
Lemma upd_tx x y : tx (upd x y) = tx x.  Proof. unfold upd. destruct (en x <? en y); reflexivity. Qed.
Lemma upd_uid x y : uid (upd x y) = uid x. Proof. unfold upd. destruct (en x <? en y); reflexivity. Qed.
Lemma upd_en x y : en (upd x y) = Z.max (en x) (en y).
Proof. unfold upd. destruct (en x <? en y) eqn:E; cbn; [apply Z.ltb_lt in E | apply Z.ltb_ge in E]; lia. Qed.
Lemma upd_payload x y : i_lines (upd x y) = i_lines x /\ i_reg (upd x y) = i_reg x /\ i_sty (upd x y) = i_sty x /\ i_inl (upd x y) = i_inl x.
Proof. unfold upd. destruct (en x <? en y); repeat split. Qed.

Lemma absorb_unfold x y ys :
  absorb x (y :: ys) =
    if str_eqb (tx x) (tx y) && (st y <=? en x) then absorb (upd x y) ys
    else if en x <? st y then (x, y :: ys)
    else let (x', ys') := absorb x ys in (x', y :: ys').
Proof. reflexivity. Qed.

(* text k is on screen at instant t *)
Definition covers (k : str) (t : Z) (l : list item) := exists c, In c l /\ tx c = k /\ st c <= t < en c.

Lemma covers_perm k t l l' : Permutation l l' -> covers k t l <-> covers k t l'.
Proof.
  intros P. unfold covers. split; intros (c & Hin & H); exists c; (split; [|exact H]).
  - eapply Permutation_in; eassumption.
  - eapply Permutation_in; [apply Permutation_sym|]; eassumption.
Qed.

(* facts about the inner loop on a start-sorted tail whose starts are >= st x *)
Lemma absorb_facts : forall rest x x' rest',
  sorted rest -> Forall (fun y => st x <= st y) rest -> st x <= en x ->
  absorb x rest = (x', rest') ->
  st x' = st x /\ tx x' = tx x /\ uid x' = uid x /\ en x <= en x' /\
  (i_lines x' = i_lines x /\ i_reg x' = i_reg x /\ i_sty x' = i_sty x /\ i_inl x' = i_inl x) /\
  sorted rest' /\ Forall (fun y => st x <= st y) rest' /\ (length rest' <= length rest)%nat /\
  (forall y, In y rest' -> In y rest) /\
  (forall y, In y rest' -> tx y = tx x -> en x' < st y) /\
  (forall k t, covers k t (x :: rest) <-> covers k t (x' :: rest')) /\
  (en x' = en x \/ exists y, In y rest /\ tx y = tx x /\ en x' = en y).
Proof.
  induction rest as [|y ys IH]; intros x x' rest' Hs Hge Hx H.
  - cbn in H. inversion H; subst. repeat split; auto; try lia; try (intros; contradiction); try tauto.
  - rewrite absorb_unfold in H.
    apply sorted_inv in Hs as Hs0. destruct Hs0 as [Hs' Hy].
    pose proof (Forall_inv Hge) as Hyx. cbv beta in Hyx. pose proof (Forall_inv_tail Hge) as Hge'.
    destruct (str_eqb (tx x) (tx y) && (st y <=? en x)) eqn:C.
    + apply andb_true_iff in C. destruct C as [Ct Cs]. apply str_eqb_eq in Ct. apply Z.leb_le in Cs.
      specialize (IH (upd x y) x' rest' Hs').
      rewrite upd_st, upd_tx, upd_uid, upd_en in IH.
      destruct (upd_payload x y) as (P1 & P2 & P3 & P4). rewrite P1, P2, P3, P4 in IH.
      specialize (IH Hge' ltac:(lia) H).
      destruct IH as (A & B & U & D & PL & E & F & G & I & J & K & L).
      split; [exact A|]. split; [exact B|]. split; [exact U|]. split; [lia|]. split; [exact PL|]. split; [exact E|].
      split; [exact F|]. split; [cbn [length]; lia|]. split; [intros z Hz; right; auto|]. split; [exact J|].
      split.
      * intros k t. rewrite <- K. unfold covers. split.
        -- intros (c & Hin & Hk & Ht). destruct Hin as [<-|[<-|Hin]].
           ++ exists (upd x y). rewrite upd_tx, upd_st, upd_en. split; [left; reflexivity|]. split; [assumption|]. lia.
           ++ exists (upd x y). rewrite upd_tx, upd_st, upd_en. split; [left; reflexivity|]. split; [congruence|]. lia.
           ++ exists c. split; [right; assumption|]. auto.
        -- intros (c & Hin & Hk & Ht). destruct Hin as [<-|Hin].
           ++ rewrite upd_tx in Hk. rewrite upd_st, upd_en in Ht. destruct (Z_lt_le_dec t (en x)).
              ** exists x. split; [left; reflexivity|]. split; [assumption|]. lia.
              ** exists y. split; [right; left; reflexivity|]. split; [congruence|]. lia.
           ++ exists c. split; [right; right; assumption|]. auto.
      * destruct L as [L|(z & Hz & Hzt & Hze)].
        -- destruct (Z.max_spec (en x) (en y)) as [[_ M]|[_ M]]; rewrite M in L.
           ++ right. exists y. split; [left; reflexivity|]. split; [congruence | exact L].
           ++ left. exact L.
        -- right. exists z. split; [right; exact Hz|]. split; [exact Hzt | exact Hze].
    + destruct (en x <? st y) eqn:B.
      * inversion H; subst. apply Z.ltb_lt in B.
        split; [reflexivity|]. split; [reflexivity|]. split; [reflexivity|]. split; [lia|]. split; [tauto|].
        split; [constructor; assumption|]. split; [exact Hge|]. split; [lia|]. split; [auto|].
        split; [|split; [tauto | left; reflexivity]].
        intros z Hz _. destruct Hz as [<-|Hz]; [lia|].
        rewrite Forall_forall in Hy. specialize (Hy z Hz). lia.
      * destruct (absorb x ys) as [x1 ys1] eqn:E. inversion H; subst.
        specialize (IH x x' ys1 Hs' Hge' Hx E).
        destruct IH as (A & Bq & U & D & PL & E1 & F & G & I & J & K & L).
        apply Z.ltb_ge in B. apply andb_false_iff in C.
        assert (Htxy : tx y <> tx x).
        { destruct C as [C|C].
          - intros Heq. rewrite Heq, str_eqb_refl in C. discriminate.
          - apply Z.leb_gt in C. lia. }
        split; [exact A|]. split; [exact Bq|]. split; [exact U|]. split; [exact D|]. split; [exact PL|].
        split. { constructor; [assumption|]. rewrite Forall_forall in *. intros z Hz. apply Hy. auto. }
        split. { constructor; assumption. }
        split; [cbn [length]; lia|].
        split. { intros z [<-|Hz]; [left; reflexivity | right; auto]. }
        split. { intros z [<-|Hz] Hk; [congruence | auto]. }
        split.
        -- intros k t. unfold covers in *. split.
           ++ intros (c & Hin & Hk & Ht). destruct Hin as [<-|[<-|Hin]].
              ** destruct (proj1 (K k t)) as (c' & Hin' & ?). { exists x. split; [left; reflexivity|auto]. }
                 exists c'. split; [|assumption]. destruct Hin' as [<-|Hin']; [left; reflexivity | right; right; assumption].
              ** exists y. split; [right; left; reflexivity | auto].
              ** destruct (proj1 (K k t)) as (c' & Hin' & ?). { exists c. split; [right; assumption|auto]. }
                 exists c'. split; [|assumption]. destruct Hin' as [<-|Hin']; [left; reflexivity | right; right; assumption].
           ++ intros (c & Hin & Hk & Ht). destruct Hin as [<-|[<-|Hin]].
              ** destruct (proj2 (K k t)) as (c' & Hin' & ?). { exists x'. split; [left; reflexivity|auto]. }
                 exists c'. split; [|assumption]. destruct Hin' as [<-|Hin']; [left; reflexivity | right; right; assumption].
              ** exists y. split; [right; left; reflexivity | auto].
              ** destruct (proj2 (K k t)) as (c' & Hin' & ?). { exists c. split; [right; assumption|auto]. }
                 exists c'. split; [|assumption]. destruct Hin' as [<-|Hin']; [left; reflexivity | right; right; assumption].
        -- destruct L as [L|(z & Hz & Hzt & Hze)]; [left; exact L|].
           right. exists z. split; [right; exact Hz | split; assumption].
Qed.

Definition wf (l : list item) := Forall (fun y => st y <= en y) l.
(* no two cues with the same text touch or overlap (a listed before b) *)
Definition no_touch (l : list item) := ForallOrdPairs (fun a b => tx a = tx b -> en a < st b) l.
(* every result cue is an input cue (same identity, start, text, content) whose end is its own or
   that of a same-text input cue *)
Definition from (l r : list item) :=
  Forall (fun b => exists y, In y l /\ st b = st y /\ tx b = tx y /\ uid b = uid y /\
                    i_lines b = i_lines y /\ i_reg b = i_reg y /\ i_sty b = i_sty y /\ i_inl b = i_inl y /\
                    en y <= en b /\ exists z, In z l /\ tx z = tx y /\ en b = en z) r.

Lemma sorted_head_le x rest : sorted (x :: rest) -> Forall (fun y => st x <= st y) rest.
Proof. intros H. apply sorted_inv in H. tauto. Qed.

Theorem unfrag_ok : forall fuel l, (length l <= fuel)%nat -> sorted l -> wf l ->
  sorted (unfrag fuel l) /\ wf (unfrag fuel l) /\ from l (unfrag fuel l) /\
  (forall k t, covers k t l <-> covers k t (unfrag fuel l)) /\ no_touch (unfrag fuel l).
Proof.
  induction fuel as [|f IH]; intros l Hlen Hs Hw.
  - destruct l; [|cbn in Hlen; lia]. cbn. repeat split; try constructor; auto; tauto.
  - destruct l as [|x rest].
    + cbn. repeat split; try constructor; auto; tauto.
    + cbn [unfrag]. destruct (absorb x rest) as [x' rest'] eqn:E.
      pose proof (sorted_head_le _ _ Hs) as Hge.
      assert (Hs' : sorted rest) by (apply sorted_inv in Hs; tauto).
      pose proof (Forall_inv Hw) as Hx. cbv beta in Hx. pose proof (Forall_inv_tail Hw) as Hw'.
      destruct (absorb_facts rest x x' rest' Hs' Hge Hx E) as (A & B & U & D & PL & E1 & F & G & I & J & K & L).
      assert (Hw2 : wf rest').
      { unfold wf in *. rewrite Forall_forall in *. intros z Hz. apply Hw'. auto. }
      destruct (IH rest' ltac:(cbn [length] in Hlen; lia) E1 Hw2) as (S1 & W1 & F1 & C1 & N1).
      assert (Hfrom_rest : forall b, In b (unfrag f rest') -> exists y, In y rest' /\ st b = st y /\ tx b = tx y).
      { unfold from in F1. rewrite Forall_forall in F1. intros b Hb. destruct (F1 b Hb) as (y & Hy & S & T & _).
        exists y. auto. }
      split; [|split; [|split; [|split]]].
      * constructor; [exact S1|]. rewrite Forall_forall. intros b Hb.
        destruct (Hfrom_rest b Hb) as (y & Hy & Hst & _). rewrite Forall_forall in F. specialize (F y Hy). lia.
      * constructor; [lia | exact W1].
      * constructor.
        -- exists x. split; [left; reflexivity|]. destruct PL as (P1 & P2 & P3 & P4).
           repeat (split; [first [assumption | lia | congruence]|]).
           destruct L as [L|(z & Hz & Hzt & Hze)].
           ++ exists x. split; [left; reflexivity | split; [reflexivity | exact L]].
           ++ exists z. split; [right; exact Hz | split; assumption].
        -- unfold from in *. rewrite Forall_forall in *. intros b Hb.
           destruct (F1 b Hb) as (y & Hy & Q1 & Q2 & Q3 & Q4 & Q5 & Q6 & Q7 & Q8 & z & Hz & Hzt & Hze).
           exists y. split; [right; auto|]. repeat (split; [assumption|]).
           exists z. split; [right; auto | split; assumption].
      * intros k t. rewrite K. unfold covers. split.
        -- intros (c & [<-|Hin] & Hk & Ht).
           ++ exists x'. split; [left; reflexivity | auto].
           ++ destruct (proj1 (C1 k t)) as (c' & ? & ?). { exists c. auto. } exists c'. split; [right; assumption | assumption].
        -- intros (c & [<-|Hin] & Hk & Ht).
           ++ exists x'. split; [left; reflexivity | auto].
           ++ destruct (proj2 (C1 k t)) as (c' & ? & ?). { exists c. auto. } exists c'. split; [right; assumption | assumption].
      * constructor; [|exact N1]. rewrite Forall_forall. intros b Hb Htx.
        destruct (Hfrom_rest b Hb) as (y & Hy & Hst & Hty).
        specialize (J y Hy ltac:(congruence)). lia.
Qed.

(* ---- statements about [unfragment] itself (any input order) ---- *)
Lemma wf_perm l l' : Permutation l l' -> wf l -> wf l'.
Proof. intros P H. unfold wf in *. eapply Permutation_Forall; eassumption. Qed.

Lemma unfragment_facts l : wf l ->
  sorted (unfragment l) /\ wf (unfragment l) /\ from (order l) (unfragment l) /\
  (forall k t, covers k t l <-> covers k t (unfragment l)) /\ no_touch (unfragment l).
Proof.
  intros Hw. unfold unfragment.
  destruct (unfrag_ok (length (order l)) (order l) (le_n _) (order_sorted l) (wf_perm _ _ (order_perm l) Hw))
    as (S & W & F & C & N).
  repeat split; try assumption.
  - intros H. apply C. apply (covers_perm k t _ _ (order_perm l)). exact H.
  - intros H. apply (covers_perm k t _ _ (order_perm l)). apply C. exact H.
Qed.

(* a list that is already ordered and free of touching same-text cues is left alone *)
Lemma absorb_no_touch x rest :
  sorted (x :: rest) -> Forall (fun y => tx x = tx y -> en x < st y) rest -> absorb x rest = (x, rest).
Proof.
  revert x. induction rest as [|y ys IH]; intros x Hs Hn; [reflexivity|].
  rewrite absorb_unfold. inversion Hn as [|? ? Hy Hys]; subst.
  destruct (str_eqb (tx x) (tx y) && (st y <=? en x)) eqn:C.
  - apply andb_true_iff in C. destruct C as [Ct Cs]. apply str_eqb_eq in Ct. apply Z.leb_le in Cs.
    specialize (Hy Ct). lia.
  - destruct (en x <? st y); [reflexivity|].
    rewrite IH; [reflexivity | | exact Hys].
    apply sorted_inv in Hs. destruct Hs as [Hs Hall]. apply sorted_inv in Hs. destruct Hs as [Hs _].
    constructor; [exact Hs|]. inversion Hall; assumption.
Qed.

Lemma unfrag_no_touch fuel l : sorted l -> no_touch l -> unfrag fuel l = l.
Proof.
  revert l. induction fuel as [|f IH]; intros l Hs Hn; [destruct l; reflexivity|].
  destruct l as [|x rest]; [reflexivity|]. cbn [unfrag].
  inversion Hn as [|? ? Hx Hr]; subst.
  rewrite (absorb_no_touch x rest Hs Hx). f_equal. apply IH; [|exact Hr].
  apply sorted_inv in Hs. tauto.
Qed.

Theorem unfragment_fixpoint l : sorted l -> no_touch l -> unfragment l = l.
Proof. intros Hs Hn. unfold unfragment. rewrite (order_sorted_id l Hs). apply unfrag_no_touch; assumption. Qed.

Theorem unfragment_idempotent l : wf l -> unfragment (unfragment l) = unfragment l.
Proof. intros Hw. destruct (unfragment_facts l Hw) as (S & _ & _ & _ & N). apply unfragment_fixpoint; assumption. Qed.
