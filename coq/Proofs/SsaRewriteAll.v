(* SSA/ASS: read ANY document covered by read_sections_all (sections in any order, preamble, unknown keys, comments and
   several Format lines inside sections, rows of other categories, unknown sections), write what was read, read that, write
   again: the second write equals the first -- under conditions on what the document denotes only. *)
From Coq Require Import List ZArith NArith Bool Lia Permutation.
From Astisub Require Import Kit.Base Kit.Str Kit.Scan Model.Dur Model.Ssa.
From Astisub Require Import Proofs.SsaRows Proofs.SsaInfo Proofs.SsaStyles Proofs.SsaEvents Proofs.SsaDoc Proofs.SsaRead
  Proofs.SsaReadAny Proofs.SsaReadAll Proofs.SsaRewrite.
Import ListNotations.

Theorem rewrite_sections_all b pre secs : info_ok b -> adoc_ok pre secs ->
  comments_of (adoc_entries pre secs) = an_comments b -> (forall f, In (IK f) (adoc_entries pre secs)) ->
  let sts := flat_map asec_styles secs in
  let evs := filter is_dialogue (flat_map asec_events secs) in
  Forall style_repr sts -> ~ In n_star_default (map ay_name sts) -> evs <> [] -> Forall event_image_ok evs ->
  exists d, read_ssa_lines (adoc_lines b pre secs) false = Ok d /\
    forall order, Permutation order (style_keys d) ->
    exists data d', write_ssa d order = Ok data /\ read_ssa data = Ok d' /\
                    (forall order', Permutation order' (style_keys d') -> write_ssa d' order' = Ok data).
Proof.
  intros Hb Hok Hcm Hkeys sts evs Hsr Hstar Hne Hev. exists (rendered_doc b sts evs). split.
  - exact (read_sections_all b pre secs false Hb Hok Hcm Hkeys).
  - intros order P. apply rewrite_reader_image; assumption.
Qed.
