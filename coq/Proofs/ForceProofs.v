(* ForceDuration (C14). *)
From Coq Require Import List ZArith NArith Bool Lia Sorted.
From Astisub Require Import Kit.Base Model.Ops.
Import ListNotations.
Open Scope Z_scope.

(* well-formed timeline: start-ordered, non-decreasing ends, start < end *)
Inductive wf_timeline : list item -> Prop :=
| wft_nil : wf_timeline []
| wft_one x : st x < en x -> wf_timeline [x]
| wft_cons x y r : st x < en x -> st x <= st y -> en x <= en y -> wf_timeline (y :: r) -> wf_timeline (x :: y :: r).

Definition clip (d : Z) (x : item) : item := if d <? en x then set_en x d else x.
Definition kept (d : Z) (l : list item) : list item := map (clip d) (filter (fun x => st x <? d) l).

Lemma wf_tail x r : wf_timeline (x :: r) -> wf_timeline r.
Proof. intros H; inversion H; subst; [constructor | assumption]. Qed.

Lemma wf_head x r : wf_timeline (x :: r) -> st x < en x.
Proof. intros H; inversion H; subst; assumption. Qed.

Lemma wf_starts x r : wf_timeline (x :: r) -> Forall (fun y => st x <= st y /\ en x <= en y) r.
Proof.
  revert x. induction r as [|y r IH]; intros x H; [constructor|].
  inversion H; subst. constructor; [split; assumption|].
  specialize (IH y H6). rewrite Forall_forall in *. intros z Hz. specialize (IH z Hz). lia.
Qed.

(* on a start-ordered list the scan that stops at the first cue starting at/after d keeps exactly
   the cues that start before d *)
Lemma trim_kept d l : wf_timeline l -> trim d l = kept d l.
Proof.
  unfold kept. induction l as [|x r IH]; intros H; cbn [trim filter map]; [reflexivity|].
  destruct (d <=? st x) eqn:E.
  - apply Z.leb_le in E. destruct (st x <? d) eqn:E2; [apply Z.ltb_lt in E2; lia|].
    (* nothing later starts before d *)
    pose proof (wf_starts x r H) as Hs. clear IH.
    induction r as [|y r IHr]; [reflexivity|]. cbn [filter].
    inversion Hs as [|? ? [Hy _] Hr]; subst.
    destruct (st y <? d) eqn:E3; [apply Z.ltb_lt in E3; lia|].
    apply IHr; [|exact Hr].
    inversion H; subst. inversion H6; subst; [constructor; assumption|].
    constructor; try assumption; lia.
  - apply Z.leb_gt in E. destruct (st x <? d) eqn:E2; [|apply Z.ltb_ge in E2; lia].
    cbn [map]. unfold clip at 1. rewrite (IH (wf_tail _ _ H)). reflexivity.
Qed.

Lemma duration_cons x y r : duration (x :: y :: r) = duration (y :: r).
Proof. unfold duration. cbn [last]. reflexivity. Qed.

Lemma duration_last_app l x : duration (l ++ [x]) = en x.
Proof. unfold duration. destruct (l ++ [x]) eqn:E; [destruct l; discriminate|]. rewrite <- E, last_last. reflexivity. Qed.

(* duration of a well-formed timeline is its maximal end *)
Lemma wf_duration_max l : wf_timeline l -> Forall (fun x => en x <= duration l) l.
Proof.
  induction l as [|x r IH]; intros H; [constructor|].
  destruct r as [|y r].
  - constructor; [cbn; lia | constructor].
  - rewrite duration_cons. specialize (IH (wf_tail _ _ H)). constructor; [|exact IH].
    inversion H; subst. inversion IH; subst. lia.
Qed.

(* duration of the kept part *)
Lemma kept_duration_le d l : 0 < d -> wf_timeline l -> duration (kept d l) <= d.
Proof.
  intros Hd H. unfold kept.
  assert (Hall : Forall (fun z => en z <= d) (map (clip d) (filter (fun x => st x <? d) l))).
  { rewrite Forall_forall. intros z Hz. apply in_map_iff in Hz. destruct Hz as (x & <- & _).
    unfold clip. destruct (d <? en x) eqn:E; [cbn; lia | apply Z.ltb_ge in E; exact E]. }
  destruct (map (clip d) (filter (fun x => st x <? d) l)) as [|a m] eqn:E; [cbn; lia|].
  unfold duration. rewrite Forall_forall in Hall. apply Hall. rewrite <- E at 1.
  rewrite E.
  destruct (@exists_last _ (a :: m) ltac:(discriminate)) as (m' & z & ->). rewrite last_last. apply in_or_app. right. left. reflexivity.
Qed.

Definition filler_needed (d : Z) (l : list item) : bool := duration (kept d l) <? d.

(* the full characterisation, for d >= 1 ms on well-formed timelines *)
Theorem force_spec d dummy u l : wf_timeline l -> 0 < d ->
  force_duration d dummy u l =
  if duration l =? d then l
  else (if d <? duration l then kept d l else l) ++
       (if dummy && (duration (if d <? duration l then kept d l else l) <? d) then [dummy_item u d] else []).
Proof.
  intros H Hd. unfold force_duration. destruct (duration l =? d); [reflexivity|].
  destruct (d <? duration l) eqn:E.
  - rewrite (trim_kept d l H). destruct (dummy && _); [reflexivity | rewrite app_nil_r; reflexivity].
  - destruct (dummy && _); [reflexivity | rewrite app_nil_r; reflexivity].
Qed.

(* when d >= duration, every cue starts before d and ends at or before d: kept d l = l *)
Lemma kept_id d l : wf_timeline l -> duration l <= d -> kept d l = l.
Proof.
  intros H Hle. pose proof (wf_duration_max l H) as Hm. unfold kept.
  induction l as [|x r IH]; [reflexivity|].
  assert (Hx : en x <= d) by (inversion Hm; subst; lia).
  pose proof (wf_head _ _ H) as Hlt.
  cbn [filter]. destruct (st x <? d) eqn:E; [|apply Z.ltb_ge in E; lia].
  cbn [map]. unfold clip at 1. destruct (d <? en x) eqn:E2; [apply Z.ltb_lt in E2; lia|].
  f_equal. destruct r as [|y r]; [reflexivity|].
  apply IH; [exact (wf_tail _ _ H) | | ].
  - rewrite duration_cons in Hle. exact Hle.
  - rewrite duration_cons in Hm. inversion Hm; subst; assumption.
Qed.

(* the statement of the property: result = clipped kept cues ++ optional filler *)
Theorem force_characterisation d dummy u l : wf_timeline l -> 0 < d ->
  force_duration d dummy u l =
  kept d l ++ (if dummy && (duration (kept d l) <? d) then [dummy_item u d] else []).
Proof.
  intros H Hd. rewrite (force_spec d dummy u l H Hd).
  destruct (duration l =? d) eqn:E0.
  - apply Z.eqb_eq in E0. rewrite (kept_id d l H) by lia. rewrite E0, Z.ltb_irrefl, andb_false_r, app_nil_r. reflexivity.
  - destruct (d <? duration l) eqn:E; [reflexivity|]. apply Z.ltb_ge in E.
    rewrite (kept_id d l H E). reflexivity.
Qed.

Theorem force_with_filler_duration d u l : wf_timeline l -> 0 < d ->
  duration (force_duration d true u l) = d.
Proof.
  intros H Hd. rewrite (force_characterisation d true u l H Hd). cbn [andb].
  destruct (duration (kept d l) <? d) eqn:E.
  - rewrite duration_last_app. reflexivity.
  - rewrite app_nil_r. apply Z.ltb_ge in E. pose proof (kept_duration_le d l Hd H). lia.
Qed.

Theorem force_no_filler d u l : wf_timeline l -> 0 < d -> force_duration d false u l = kept d l.
Proof. intros H Hd. rewrite (force_characterisation d false u l H Hd). cbn [andb]. apply app_nil_r. Qed.

Theorem force_same_duration d dummy u l : duration l = d -> force_duration d dummy u l = l.
Proof. intros E. unfold force_duration. rewrite E, Z.eqb_refl. reflexivity. Qed.

(* untouched cues are identical: a kept cue that ends at or before d is the very same cue *)
Lemma clip_id d x : en x <= d -> clip d x = x.
Proof. intros H. unfold clip. destruct (d <? en x) eqn:E; [apply Z.ltb_lt in E; lia | reflexivity]. Qed.

Lemma clip_spec d x : clip d x = set_en x (Z.min (en x) d) .
Proof.
  unfold clip. destruct (d <? en x) eqn:E.
  - apply Z.ltb_lt in E. rewrite Z.min_r by lia. reflexivity.
  - apply Z.ltb_ge in E. rewrite Z.min_l by lia. destruct x; reflexivity.
Qed.
