(* Constants of the Go source tied to the literals of Model.Ttml (see Proofs/ConstTie.v). *)
From Coq Require Import List NArith ZArith Bool.
From Astisub Require Import Kit.Base Kit.Str Gen.Consts Proofs.ConstTie Model.Ttml.
Import ListNotations.
Open Scope N_scope.

Module TtmlTie.
Import Model.Ttml.
(* the 23 tts: attribute names, in the order of the struct (= the order in which encoding/xml writes them), are the
   local names of the xml tags of TTMLOutStyleAttributes; the reader's struct carries the same local names *)
Definition out_attr_names : list str := map (fun p => tag_name (snd p)) gc_xmltags_TTMLOutStyleAttributes.
Definition in_attr_names : list str := map (fun p => tag_name (snd p)) gc_xmltags_TTMLInStyleAttributes.
Fixpoint strs_eqb (a b : list str) : bool :=
  match a, b with [] , [] => true | x :: a', y :: b' => str_eqb x y && strs_eqb a' b' | _, _ => false end.
Definition lang_pairs : list (str * str) :=
  flat_map (fun p => match p with (CS a, CS b) => [(a, b)] | _ => [] end) gc_bimap_ttmlLanguageMapping.
Definition ties : list bool :=
  [ strs_eqb (attr_names ++ [[122; 73; 110; 100; 101; 120]]) out_attr_names          (* ... then zIndex, the integer one *)
  ; strs_eqb (attr_names ++ [[122; 73; 110; 100; 101; 120]]) in_attr_names
  ; Nat.eqb (length lang_table) (length gc_bimap_ttmlLanguageMapping)
  ; forallb (fun p => match map_get (fst p) lang_table with Some v => str_eqb v (snd p) | None => false end) lang_pairs
  ; Nat.eqb (length lang_pairs) (length gc_bimap_ttmlLanguageMapping)
  ; eqs (tag_of [88; 77; 76; 78; 97; 109; 101] gc_xmltags_TTMLOut) s_tt           (* XMLName -> tt *)
  ; eqs (tag_name (tag_of [88; 77; 76; 78; 97; 109; 101] gc_xmltags_TTMLOut)) s_tt
  ; eqs (tag_of [66; 101; 103; 105; 110] gc_xmltags_TTMLOutSubtitle) s_begin      (* Begin *)
  ; eqs (tag_of [69; 110; 100] gc_xmltags_TTMLOutSubtitle) s_end                  (* End *)
  ; eqs (tag_of [66; 101; 103; 105; 110] gc_xmltags_TTMLInSubtitle) s_begin
  ; eqs (tag_of [69; 110; 100] gc_xmltags_TTMLInSubtitle) s_end ].
Lemma consts_from_source : all ties = true.
Proof. vm_compute. reflexivity. Qed.
End TtmlTie.
