(* Constants of the Go source tied to the literals of Model.Ssa (see Proofs/ConstTie.v). *)
From Coq Require Import List NArith ZArith Bool.
From Astisub Require Import Kit.Base Kit.Str Gen.Consts Proofs.ConstTie Model.Ssa.
Import ListNotations.
Open Scope N_scope.

Module SsaTie.
Import Model.Ssa.
Definition ties : list bool :=
  [ (* style Format names *)
    eqs (sattr_name (AB BBold)) gc_ssaStyleFormatNameBold; eqs (sattr_name (AB BItalic)) gc_ssaStyleFormatNameItalic
  ; eqs (sattr_name (AB BStrikeout)) gc_ssaStyleFormatNameStrikeout; eqs (sattr_name (AB BUnderline)) gc_ssaStyleFormatNameUnderline
  ; eqs (sattr_name (AC CBack)) gc_ssaStyleFormatNameBackColour; eqs (sattr_name (AC COutline)) gc_ssaStyleFormatNameOutlineColour
  ; eqs (sattr_name (AC CPrimary)) gc_ssaStyleFormatNamePrimaryColour; eqs (sattr_name (AC CSecondary)) gc_ssaStyleFormatNameSecondaryColour
  ; eqs n_tertiary gc_ssaStyleFormatNameTertiaryColour
  ; eqs (sattr_name (AF FAlphaLevel)) gc_ssaStyleFormatNameAlphaLevel; eqs (sattr_name (AF FAngle)) gc_ssaStyleFormatNameAngle
  ; eqs (sattr_name (AF FFontSize)) gc_ssaStyleFormatNameFontSize; eqs (sattr_name (AF FOutline)) gc_ssaStyleFormatNameOutline
  ; eqs (sattr_name (AF FScaleX)) gc_ssaStyleFormatNameScaleX; eqs (sattr_name (AF FScaleY)) gc_ssaStyleFormatNameScaleY
  ; eqs (sattr_name (AF FShadow)) gc_ssaStyleFormatNameShadow; eqs (sattr_name (AF FSpacing)) gc_ssaStyleFormatNameSpacing
  ; eqs (sattr_name (AI IAlignment)) gc_ssaStyleFormatNameAlignment; eqs (sattr_name (AI IBorderStyle)) gc_ssaStyleFormatNameBorderStyle
  ; eqs (sattr_name (AI IEncoding)) gc_ssaStyleFormatNameEncoding; eqs (sattr_name (AI IMarginL)) gc_ssaStyleFormatNameMarginL
  ; eqs (sattr_name (AI IMarginR)) gc_ssaStyleFormatNameMarginR; eqs (sattr_name (AI IMarginV)) gc_ssaStyleFormatNameMarginV
  ; eqs (sattr_name AFontName) gc_ssaStyleFormatNameFontName; eqs (sattr_name AName) gc_ssaStyleFormatNameName
    (* script info keys *)
  ; eqs (ikey_name KCollisions) gc_ssaScriptInfoNameCollisions; eqs (ikey_name KOriginalEditing) gc_ssaScriptInfoNameOriginalEditing
  ; eqs (ikey_name KOriginalScript) gc_ssaScriptInfoNameOriginalScript; eqs (ikey_name KOriginalTiming) gc_ssaScriptInfoNameOriginalTiming
  ; eqs (ikey_name KOriginalTranslation) gc_ssaScriptInfoNameOriginalTranslation; eqs (ikey_name KScriptType) gc_ssaScriptInfoNameScriptType
  ; eqs (ikey_name KScriptUpdatedBy) gc_ssaScriptInfoNameScriptUpdatedBy; eqs (ikey_name KSynchPoint) gc_ssaScriptInfoNameSynchPoint
  ; eqs (ikey_name KTitle) gc_ssaScriptInfoNameTitle; eqs (ikey_name KUpdateDetails) gc_ssaScriptInfoNameUpdateDetails
  ; eqs (ikey_name KWrapStyle) gc_ssaScriptInfoNameWrapStyle
  ; eqs (nkey_name KPlayDepth) gc_ssaScriptInfoNamePlayDepth; eqs (nkey_name KPlayResX) gc_ssaScriptInfoNamePlayResX
  ; eqs (nkey_name KPlayResY) gc_ssaScriptInfoNamePlayResY; eqs n_timer gc_ssaScriptInfoNameTimer
    (* event Format names and categories *)
  ; eqs (eattr_name EEffect) gc_ssaEventFormatNameEffect; eqs (eattr_name EEnd) gc_ssaEventFormatNameEnd
  ; eqs (eattr_name ELayer) gc_ssaEventFormatNameLayer; eqs (eattr_name EMarginL) gc_ssaEventFormatNameMarginL
  ; eqs (eattr_name EMarginR) gc_ssaEventFormatNameMarginR; eqs (eattr_name EMarginV) gc_ssaEventFormatNameMarginV
  ; eqs (eattr_name EMarked) gc_ssaEventFormatNameMarked; eqs (eattr_name EName) gc_ssaEventFormatNameName
  ; eqs (eattr_name EStart) gc_ssaEventFormatNameStart; eqs (eattr_name EStyle) gc_ssaEventFormatNameStyle
  ; eqs (eattr_name EText) gc_ssaEventFormatNameText
  ; eqs n_dialogue gc_ssaEventCategoryDialogue ].
Lemma consts_from_source : all ties = true.
Proof. vm_compute. reflexivity. Qed.
End SsaTie.
