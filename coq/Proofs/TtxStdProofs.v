(* C06: the library's teletext character tables against ETS 300 706 as written by hand in Model/TtxStd.v.  Sweeps over the
   regenerated Gen/TtxTables.v: re-proved on every run. *)
From Coq Require Import List ZArith NArith Bool Lia.
From Astisub Require Import Kit.Base Kit.Str Kit.Utf8 Gen.TtxTables Model.TtxRow Model.Ttx Model.TtxSpec Model.TtxStd Proofs.TtxTables.
Import ListNotations.
Open Scope N_scope.

(* the table the reader ends up with for designation bits 14..11 = key and national option c *)
Definition code_table (key c : N) : list str := match charset_for (key * 1024) c with Ok t => t | _ => [] end.

(* entries where an asserted standard character differs from the code's: (code 0x20.., standard code point, code's bytes) *)
Fixpoint table_diffs (i : N) (t : stable) (code : list str) : list (N * N * str) :=
  match t, code with
  | s :: tr, x :: cr =>
    (match s with Some cp => if str_eqb (utf8_encode_rune cp) x then [] else [(i, cp, x)] | None => [] end)
    ++ table_diffs (i + 1) tr cr
  | _, _ => []
  end.
Definition keys16 : list N := below 16.
Definition opts8 : list N := below 8.
Definition all_diffs : list ((N * N) * list (N * N * str)) :=
  flat_map (fun k => flat_map (fun c =>
    match std_g0 k c with
    | Some t => match table_diffs 32 t (code_table k c) with [] => [] | d => [((k, c), d)] end
    | None => []
    end) opts8) keys16.

(* every designation the standard defines and TtxStd carries (Latin with each national option, Cyrillic 1-3, Greek): the
   code's table has 96 entries and equals the standard's at every asserted position -- no deviation *)
Theorem code_tables_are_standard : all_diffs = [].
Proof. vm_compute. reflexivity. Qed.
Theorem code_tables_length : forallb (fun k => forallb (fun c => Nat.eqb (length (code_table k c)) 96) opts8) keys16 = true.
Proof. vm_compute. reflexivity. Qed.

(* Table 32: the code has an entry exactly for the designations the standard defines, plus the ten reserved combinations
   listed (for which it uses the Latin primary set without national option: nothing the standard forbids); Arabic and Hebrew
   G0 are not implemented: their designations decode with the Latin G0 set *)
Definition has_entry (k c : N) : bool := match ttx_lookup2 k c ttx_charsets with Some _ => true | None => false end.
Definition reserved_with_entry : list (N * N) :=
  filter (fun kc => match std_designation (fst kc) (snd kc) with SReserved => has_entry (fst kc) (snd kc) | _ => false end)
         (flat_map (fun k => map (fun c => (k, c)) opts8) keys16).
Theorem designation_map_is_standard :
  forallb (fun k => forallb (fun c => match std_designation k c with SReserved => true | _ => has_entry k c end) opts8) keys16 = true
  /\ reserved_with_entry = [(0, 7); (1, 5); (1, 7); (2, 7); (3, 0); (3, 1); (3, 2); (3, 3); (3, 4); (3, 6)].
Proof. split; vm_compute; reflexivity. Qed.
Theorem arabic_hebrew_not_implemented :
  code_table 8 7 = code_table 0 7 /\ code_table 10 7 = code_table 0 7 /\ code_table 10 5 = code_table 0 7.
Proof. repeat split; vm_compute; reflexivity. Qed.

(* ---- the fully asserted tables (every Latin designation but the Turkish ones) are the reader's tables ---- *)
Fixpoint tab_eqb (a b : list str) : bool :=
  match a, b with [], [] => true | x :: a', y :: b' => str_eqb x y && tab_eqb a' b' | _, _ => false end.
Lemma tab_eqb_eq a b : tab_eqb a b = true -> a = b.
Proof.
  revert b; induction a as [|x a IH]; intros [|y b] H; cbn in H; try discriminate; [reflexivity|].
  apply andb_true_iff in H. destruct H as [H1 H2]. apply str_eqb_eq in H1. rewrite H1, (IH b H2). reflexivity.
Qed.
Lemma std_text_sweep : forallb (fun k => forallb (fun c =>
    match std_text_table k c with
    | Some t => match charset_for (k * 1024) c with Ok t' => tab_eqb t' t | _ => false end
    | None => true
    end) opts8) keys16 = true.
Proof. vm_compute. reflexivity. Qed.

Lemma std_text_domain k c t : std_text_table k c = Some t -> k < 16 /\ c < 8.
Proof.
  unfold std_text_table, std_g0, std_designation. destruct (N.ltb_spec c 8) as [Hc|Hc]; [|discriminate]. intros H. split; [|exact Hc].
  unfold std_row in H.
  destruct (N.eqb_spec k 0); [lia|]. destruct (N.eqb_spec k 1); [lia|]. destruct (N.eqb_spec k 2); [lia|]. destruct (N.eqb_spec k 3); [lia|].
  destruct (N.eqb_spec k 4); [lia|]. destruct (N.eqb_spec k 6); [lia|]. destruct (N.eqb_spec k 8); [lia|]. destruct (N.eqb_spec k 10); [lia|].
  exfalso. destruct (printed_index c) as [|[|[|[|[|[|[|[|m]]]]]]]]; cbn in H; try discriminate. destruct m; discriminate.
Qed.
Lemma key_of_shifted : forallb (fun k => triplet_key (k * 1024) =? k) keys16 = true.
Proof. vm_compute. reflexivity. Qed.
Lemma charset_for_by_key tr c : triplet_key tr < 16 -> charset_for tr c = charset_for (triplet_key tr * 1024) c.
Proof.
  intros H. pose proof key_of_shifted as K. rewrite forallb_forall in K. specialize (K _ (below_in 16 _ H)). apply N.eqb_eq in K.
  unfold charset_for. fold (triplet_key tr). fold (triplet_key (triplet_key tr * 1024)). rewrite K. reflexivity.
Qed.

(* wherever the hand-written standard table is complete, it IS the table the reader decodes with *)
Theorem std_text_table_is_code : forall tr c t, std_text_table (triplet_key tr) c = Some t -> charset_for tr c = Ok t.
Proof.
  intros tr c t H. destruct (std_text_domain _ _ _ H) as [Hk Hc]. rewrite (charset_for_by_key tr c Hk).
  pose proof std_text_sweep as S. rewrite forallb_forall in S. specialize (S _ (below_in 16 _ Hk)).
  rewrite forallb_forall in S. specialize (S _ (below_in 8 _ Hc)). rewrite H in S.
  destruct (charset_for (triplet_key tr * 1024) c) as [t'| |]; try discriminate. apply tab_eqb_eq in S. rewrite S. reflexivity.
Qed.
(* which designations that is: all Latin ones except the Turkish sub-set (whose 2/3 is unasserted) *)
Example std_text_complete :
  filter (fun kc => match std_text_table (fst kc) (snd kc) with Some _ => true | None => false end)
         (flat_map (fun k => map (fun c => (k, c)) opts8) keys16)
  = [(0,0);(0,1);(0,2);(0,3);(0,4);(0,5);(0,6); (1,0);(1,1);(1,2);(1,3);(1,4);(1,6); (2,0);(2,1);(2,2);(2,4);(2,5);(2,6);
     (3,5);(3,7); (4,2);(4,3);(4,4);(4,6); (8,0);(8,1)].
Proof. vm_compute. reflexivity. Qed.
