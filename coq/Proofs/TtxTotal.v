(* C06 / C08: the teletext reader model never panics, whatever bytes and times are delivered.  The only panic sites
   of the Go code that survive in the model are the nil currentPage in parsePacketData (excluded by the buffer
   invariant "receiving implies a current page"), the character table index in decode (excluded because stored cells
   are seven-bit values and the active table always has 96 entries) and the table-shape panics of updateCharset
   (excluded by the sweeps over the generated tables). *)
From Coq Require Import List ZArith NArith Bool Lia.
From Astisub Require Import Kit.Base Kit.Str Kit.GoMap Gen.TtxTables Model.TtxRow Model.Ttx Model.TtxSpec Proofs.TtxTables.
Import ListNotations.
Open Scope N_scope.

Definition len96 (d : cdec) : Prop := length (cd_c d) = 96%nat.

Lemma update_charset_total d code force : len96 d -> exists d', update_charset d code force = Ok d' /\ len96 d'.
Proof.
  intros H. unfold update_charset. destruct code as [pc|]; [|exists d; split; [reflexivity | exact H]].
  destruct (_ && negb force); [exists d; split; [reflexivity | exact H]|].
  match goal with |- context [charset_for ?t pc] => destruct (charset_for_total t pc) as (c & E & L) end.
  rewrite E. cbn [bind]. eexists. split; [reflexivity|]. exact L.
Qed.
Lemma set_x28_total d i : len96 d -> exists d', set_x28 d i = Ok d' /\ len96 d'.
Proof.
  intros H. unfold set_x28. destruct (match cd_x28 d with Some t => negb (t =? i) | None => true end).
  - apply update_charset_total. exact H.
  - exists d. split; [reflexivity | exact H].
Qed.
Lemma set_m29_total d i : len96 d -> exists d', set_m29 d i = Ok d' /\ len96 d'.
Proof.
  intros H. unfold set_m29. destruct (match cd_m29 d with Some t => negb (t =? i) | None => true end).
  - apply update_charset_total. exact H.
  - exists d. split; [reflexivity | exact H].
Qed.

(* ---- pages hold seven-bit cells ---- *)
Definition cells_ok (row : list N) : Prop := Forall (fun v => v < 128) row.
Definition page_ok (p : tpage) : Prop := forall k row, In (k, row) (pg_data p) -> cells_ok row.
Definition binv (b : pbuf) : Prop :=
  (pb_recv b = true -> pb_cur b <> None) /\ len96 (pb_cd b)
  /\ (forall p, pb_cur b = Some p -> page_ok p) /\ Forall page_ok (pb_done b).

Lemma page_ok_new cs t : page_ok (new_page cs t).
Proof. intros k row H. destruct H. Qed.
Lemma page_ok_end p t : page_ok p -> page_ok (page_with_end p t).
Proof. intros H. exact H. Qed.

Lemma parse_header_inv i mag t b : binv b -> binv (parse_header i mag t b).
Proof.
  intros Hb. unfold parse_header.
  destruct (Nat.ltb (length i) 8); [exact Hb|].
  destruct (ham84 (ttx_byte_at 0 i)) as [units|]; [|exact Hb].
  destruct (ham84 (ttx_byte_at 1 i)) as [tens|]; [|exact Hb].
  destruct ((tens =? 15) && (units =? 15)); [exact Hb|].
  set (sel := if (pb_mag b =? 0) && (pb_page b =? 0)%Z then _ else Some b).
  assert (Hsel : forall b1, sel = Some b1 -> binv b1).
  { subst sel. intros b1. destruct ((pb_mag b =? 0) && (pb_page b =? 0)%Z).
    - destruct (ham84 (ttx_byte_at 5 i)) as [cb|]; [|discriminate].
      destruct (0 <? N.land cb 8); intros E; inversion E; subst; [|exact Hb].
      destruct Hb as (H1 & H2 & H3 & H4). repeat split; assumption.
    - intros E. inversion E; subst. exact Hb. }
  destruct sel as [b1|]; [|exact Hb]. specialize (Hsel b1 eq_refl).
  destruct (ham84 (ttx_byte_at 7 i)) as [cb|]; [|exact Hsel].
  destruct Hsel as (H1 & H2 & H3 & H4).
  match goal with |- binv (if ?c then _ else _) => destruct c end.
  - repeat split; cbn [pb_recv pb_cur pb_cd pb_done]; try assumption. discriminate.
  - match goal with |- binv (if ?c then _ else _) => destruct c end; [repeat split; assumption|].
    repeat split; cbn [pb_recv pb_cur pb_cd pb_done]; try assumption.
    + discriminate.
    + intros p E. inversion E; subst. apply page_ok_new.
    + destruct (pb_cur b1) as [p|] eqn:C; [|exact H4]. apply Forall_app. split; [exact H4|].
      constructor; [|constructor]. apply page_ok_end. apply H3. reflexivity.
Qed.

Lemma cells_ok_map_cell l : cells_ok (map ttx_cell l).
Proof. unfold cells_ok. apply Forall_forall. intros v Hv. apply in_map_iff in Hv. destruct Hv as (x & <- & _). apply cell_range. Qed.

Lemma parse_data_total i pkt b : binv b -> pb_recv b = true -> exists b', parse_data i pkt b = Ok b' /\ binv b'.
Proof.
  intros Hb Hr. unfold parse_data. destruct (Nat.ltb (length i) 40); [exists b; split; [reflexivity | exact Hb]|].
  destruct Hb as (H1 & H2 & H3 & H4). destruct (pb_cur b) as [p|] eqn:C; [|exfalso; apply (H1 Hr); reflexivity].
  eexists. split; [reflexivity|]. repeat split; cbn [pb_recv pb_cur pb_cd pb_done]; try assumption.
  - discriminate.
  - intros p' E. inversion E; subst. intros k row Hin. cbn [pg_data] in Hin. destruct Hin as [Hin|Hin].
    + inversion Hin; subst. apply cells_ok_map_cell.
    + apply (H3 p eq_refl k row Hin).
Qed.

Lemma with_cd_inv b d : binv b -> len96 d -> binv (with_cd b d).
Proof. intros (H1 & H2 & H3 & H4) Hd. repeat split; cbn [with_cd pb_recv pb_cur pb_cd pb_done]; assumption. Qed.

Lemma parse_2829_total i pkt dc b : binv b -> exists b', parse_2829 i pkt dc b = Ok b' /\ binv b'.
Proof.
  intros Hb. unfold parse_2829.
  destruct (negb (dc =? 0) && negb (dc =? 4)); [exists b; split; [reflexivity | exact Hb]|].
  destruct (Nat.ltb (length i) 3); [exists b; split; [reflexivity | exact Hb]|].
  destruct (triplet_dec i) as [tr|]; [|exists b; split; [reflexivity | exact Hb]].
  match goal with |- context [(pkt =? 28) && ?c] => destruct ((pkt =? 28) && c) end; [exists b; split; [reflexivity | exact Hb]|].
  assert (Hd : len96 (pb_cd b)) by (destruct Hb as (_ & H & _); exact H).
  destruct (pkt =? 28).
  - match goal with |- context [set_x28 ?d ?t] => destruct (set_x28_total d t Hd) as (d' & E & L) end.
    rewrite E. cbn [bind]. eexists. split; [reflexivity|]. apply with_cd_inv; assumption.
  - match goal with |- context [set_m29 ?d ?t] => destruct (set_m29_total d t Hd) as (d' & E & L) end.
    rewrite E. cbn [bind]. eexists. split; [reflexivity|]. apply with_cd_inv; assumption.
Qed.

Lemma parse_packet_total i mag pkt t b : binv b -> exists b', parse_packet i mag pkt t b = Ok b' /\ binv b'.
Proof.
  intros Hb. unfold parse_packet.
  destruct (pkt =? 0); [eexists; split; [reflexivity | apply parse_header_inv; exact Hb]|].
  destruct (pb_recv b) eqn:R; cbn [andb].
  - destruct ((mag =? pb_mag b) && (1 <=? pkt) && (pkt <=? 25)); [apply parse_data_total; assumption|].
    destruct (Nat.ltb (length i) 1); [exists b; split; [reflexivity | exact Hb]|].
    destruct (ham84 (ttx_byte_at 0 i)) as [dc|]; [|exists b; split; [reflexivity | exact Hb]].
    destruct ((mag =? pb_mag b) && (pkt =? 26)); [exists b; split; [reflexivity | exact Hb]|].
    destruct ((mag =? pb_mag b) && (pkt =? 28)); [apply parse_2829_total; exact Hb|].
    destruct ((mag =? pb_mag b) && (pkt =? 29)); [apply parse_2829_total; exact Hb|].
    exists b; split; [reflexivity | exact Hb].
  - destruct (Nat.ltb (length i) 1); [exists b; split; [reflexivity | exact Hb]|].
    destruct (ham84 (ttx_byte_at 0 i)) as [dc|]; [|exists b; split; [reflexivity | exact Hb]].
    destruct ((mag =? pb_mag b) && (pkt =? 29)); [apply parse_2829_total; exact Hb|].
    exists b; split; [reflexivity | exact Hb].
Qed.

Lemma parse_unit_total i id t b : binv b -> exists b', parse_unit i id t b = Ok b' /\ binv b'.
Proof.
  intros Hb. unfold parse_unit.
  destruct (negb (id =? 3)); [exists b; split; [reflexivity | exact Hb]|].
  destruct (Nat.ltb (length i) 4); [exists b; split; [reflexivity | exact Hb]|].
  destruct (negb (ttx_byte_at 1 i =? 228)); [exists b; split; [reflexivity | exact Hb]|].
  destruct (ham84 (ttx_byte_at 2 i)) as [h1|]; [|exists b; split; [reflexivity | exact Hb]].
  destruct (ham84 (ttx_byte_at 3 i)) as [h2|]; [|exists b; split; [reflexivity | exact Hb]].
  apply parse_packet_total. exact Hb.
Qed.

Lemma fold_units_total us t : forall b, binv b -> exists b', fold_units us t b = Ok b' /\ binv b'.
Proof.
  induction us as [|[id i] r IH]; intros b Hb; cbn [fold_units]; [exists b; split; [reflexivity | exact Hb]|].
  destruct (parse_unit_total i id t b Hb) as (b1 & E & H1). rewrite E. cbn [bind]. apply IH. exact H1.
Qed.

Lemma process_total d t b : binv b ->
  exists b' ps, ttx_process d t b = Ok (b', ps) /\ binv b' /\ Forall page_ok ps.
Proof.
  intros Hb. unfold ttx_process. destruct d as [|ident rest]; [exists b, []; split; [reflexivity|]; split; [exact Hb | constructor]|].
  destruct ((16 <=? ident) && (ident <=? 31)); [|exists b, []; split; [reflexivity|]; split; [exact Hb | constructor]].
  destruct (fold_units_total (ttx_units rest) t b Hb) as (b1 & E & (H1 & H2 & H3 & H4)). rewrite E. cbn [bind].
  eexists. eexists. split; [reflexivity|]. split; [|exact H4].
  repeat split; cbn [pb_recv pb_cur pb_cd pb_done]; try assumption. constructor.
Qed.

Definition finv (f : tfeed) : Prop := binv (f_buf f) /\ Forall page_ok (f_pages f).

Lemma feed_step_total f d : finv f -> exists f', feed_step f d = Ok f' /\ finv f'.
Proof.
  intros (Hb & Hp). unfold feed_step. destruct (fst d) as [t|]; [|exists f; split; [reflexivity | split; assumption]].
  destruct (process_total (snd d) t (f_buf f) Hb) as (b' & ps & E & H1 & H2). rewrite E. cbn [bind fst snd].
  eexists. split; [reflexivity|]. split; cbn [f_buf f_pages]; [exact H1|]. apply Forall_app. split; assumption.
Qed.
Lemma feed_all_total ds : forall f, finv f -> exists f', feed_all f ds = Ok f' /\ finv f'.
Proof.
  induction ds as [|d r IH]; intros f Hf; cbn [feed_all]; [exists f; split; [reflexivity | exact Hf]|].
  destruct (feed_step_total f d Hf) as (f1 & E & H1). rewrite E. cbn [bind]. apply IH. exact H1.
Qed.

(* ---- rows ---- *)
Lemma cd_decode_total c v : length c = 96%nat -> v < 128 -> exists s, cd_decode c v = Ok s.
Proof.
  intros L Hv. unfold cd_decode. destruct (v <? 32) eqn:E; [exists []; reflexivity|].
  apply N.ltb_ge in E. destruct (nth_error c (N.to_nat (v - 32))) as [s|] eqn:N; [exists s; reflexivity|].
  apply nth_error_None in N. lia.
Qed.

Lemma row_step_total c st v : length c = 96%nat -> v < 128 ->
  exists st', row_step unit unit unit (ttx_cell_dec c) None st v = Ok st'.
Proof.
  intros L Hv. unfold row_step.
  match goal with |- context [if ?c then _ else _] => destruct c end.
  - match goal with |- context [if ?c then _ else _] => destruct c end; eexists; reflexivity.
  - match goal with |- context [if ?c then _ else _] => destruct c end; [|eexists; reflexivity].
    unfold ttx_cell_dec. destruct (cd_decode_total c v L Hv) as (s & E). rewrite E. cbn [bind]. eexists; reflexivity.
Qed.
Lemma row_fold_total c row : length c = 96%nat -> cells_ok row ->
  forall st, exists st', row_fold unit unit unit (ttx_cell_dec c) None st row = Ok st'.
Proof.
  intros L H. induction H as [|v r Hv Hr IH]; intros st; cbn [row_fold]; [exists st; reflexivity|].
  destruct (row_step_total c st v L Hv) as (st1 & E). rewrite E. cbn [bind]. apply IH.
Qed.
Lemma parse_row_total c row : length c = 96%nat -> cells_ok row -> exists runs, ttx_parse_row c row = Ok runs.
Proof.
  intros L H. unfold ttx_parse_row, parse_row. destruct (row_fold_total c row L H (rowst0 unit unit tt tt)) as (st & E).
  rewrite E. cbn [bind]. eexists; reflexivity.
Qed.

Lemma alookup_in {V} k (m : list (N * V)) v : alookup k m = Some v -> In (k, v) m.
Proof.
  induction m as [|[k' w] r IH]; cbn [alookup]; [discriminate|].
  destruct (N.eqb_spec k k') as [->|Hne]; intros H; [inversion H; subst; left; reflexivity | right; apply IH; exact H].
Qed.

Lemma parse_rows_total c data rows : length c = 96%nat -> (forall k row, In (k, row) data -> cells_ok row) ->
  exists ls, parse_rows c data rows = Ok ls.
Proof.
  intros L H. induction rows as [|r rs IH]; cbn [parse_rows]; [exists []; reflexivity|].
  assert (Hrow : cells_ok (match alookup (N.land r 255) data with Some x => x | None => [] end)).
  { destruct (alookup (N.land r 255) data) as [x|] eqn:A; [|constructor]. apply alookup_in in A. apply (H _ _ A). }
  destruct (parse_row_total c _ L Hrow) as (runs & E). rewrite E. cbn [bind].
  destruct IH as (rest & E2). rewrite E2. cbn [bind]. eexists; reflexivity.
Qed.

Lemma page_parse_total d first p : len96 d -> page_ok p -> exists d' o, page_parse d first p = Ok (d', o) /\ len96 d'.
Proof.
  intros Hd Hp. unfold page_parse. destruct (update_charset_total d (Some (pg_cs p)) false Hd) as (d' & E & L).
  rewrite E. cbn [bind]. destruct (pg_data p) eqn:D; [eexists; eexists; split; [reflexivity | exact L]|].
  rewrite <- D. destruct (parse_rows_total (cd_c d') (pg_data p) (nsort (pg_rows p)) L Hp) as (ls & E2).
  rewrite E2. cbn [bind]. eexists; eexists; split; [reflexivity | exact L].
Qed.
Lemma parse_pages_total first ps : Forall page_ok ps -> forall d, len96 d -> exists cs, parse_pages d first ps = Ok cs.
Proof.
  intros H. induction H as [|p r Hp Hr IH]; intros d Hd; cbn [parse_pages]; [exists []; reflexivity|].
  destruct (page_parse_total d first p Hd Hp) as (d' & o & E & L). rewrite E. cbn [bind fst snd].
  destruct (IH d' L) as (rest & E2). rewrite E2. cbn [bind]. eexists; reflexivity.
Qed.

Lemma binv_new page : binv (new_pbuf page).
Proof.
  unfold new_pbuf. repeat split; cbn [pb_recv pb_cur pb_cd pb_done]; try discriminate; try constructor.
Qed.

(* the reader returns a cue list for every delivered list: arbitrary byte values, lengths, times and page option *)
Theorem ttx_feed_total : forall page ds, exists cues, ttx_feed page ds = Ok cues.
Proof.
  intros page ds. unfold ttx_feed.
  assert (H0 : finv (mkFeed (new_pbuf page) None None [])) by (split; [apply binv_new | constructor]).
  destruct (feed_all_total ds _ H0) as (f & E & (Hb & Hp)). rewrite E. cbn [bind].
  destruct Hb as (H1 & H2 & H3 & H4).
  apply parse_pages_total; [|exact H2].
  apply Forall_app. split; [exact Hp|]. destruct (pb_cur (f_buf f)) as [p|] eqn:C; [|constructor].
  constructor; [|constructor]. apply page_ok_end. apply H3. reflexivity.
Qed.
Corollary ttx_feed_no_panic : forall page ds site, ttx_feed page ds <> Panic site.
Proof. intros page ds site H. destruct (ttx_feed_total page ds) as (c & E). rewrite E in H. discriminate. Qed.
