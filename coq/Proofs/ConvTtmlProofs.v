(* C07: styled sources converted into TTML keep cues, order, times (truncated to the millisecond) and the text of every
   line, at byte level: Go-exact writer bytes, XML parser model, tree reader. *)
From Coq Require Import List ZArith NArith Bool Lia.
From Astisub Require Import Kit.Base Kit.Str Kit.Xml Kit.XmlParse2 Kit.SortOrd Model.Dur Model.Srt Model.Vtt Model.Ssa Model.Stl Model.PlainStl
  Model.Conv Model.Ttml Model.TtmlGo Model.Plain Model.PlainSsa Model.PlainTtml Model.ConvTtml.
From Astisub Require Import Proofs.TtmlSpec Proofs.TtmlDocSpec Proofs.TtmlDoc Proofs.TtmlLegal Proofs.Parse2Written
  Proofs.PlainProofs Proofs.PlainTtmlProofs.
Import ListNotations.

(* any representable, XML-legal document value: written with the default indent, parsed, read *)
Lemma to_ttml_read d : repr_doc d = true -> legal_doc d = true ->
  exists b, to_ttml_bytes d = Ok b /\ read_ttml_bytes2 b = Ok (written_value d).
Proof.
  intros Hr Hl. unfold to_ttml_bytes. rewrite (write_ttml_bytes_go_legal d ttml_default_indent Hr Hl).
  destruct (write_read d ttml_default_indent Hr eq_refl) as (t0 & Hw & Hread).
  assert (Hb : write_ttml_bytes ttml_default_indent d = Ok (print_node print_name ttml_default_indent 0 t0))
    by (unfold write_ttml_bytes; rewrite Hw; reflexivity).
  assert (Hi : indent_ok ttml_default_indent = true) by reflexivity.
  destruct (parse2_written d ttml_default_indent _ Hi Hb) as (t1 & Hw1 & Hp2). rewrite Hw in Hw1. inversion Hw1; subst t1.
  exists (print_node print_name ttml_default_indent 0 t0). split; [exact Hb|].
  unfold read_ttml_bytes2. rewrite Hp2. exact Hread.
Qed.

Lemma ttml_to_plain_written_gen d : ttml_to_plain (written_value d) = ptrunc 1000000 (ttml_to_plain d).
Proof.
  unfold ttml_to_plain, written_value, ptrunc. cbn [td_items]. rewrite !map_map. apply map_ext. intros it.
  cbn [written_item ti_st ti_en ti_lines]. reflexivity.
Qed.

Lemma to_ttml_plain d : repr_doc d = true -> legal_doc d = true ->
  exists b, to_ttml_bytes d = Ok b /\ ttml_dec2 b = Ok (ptrunc 1000000 (ttml_to_plain d)).
Proof.
  intros Hr Hl. destruct (to_ttml_read d Hr Hl) as (b & Hw & Hrd). exists b. split; [exact Hw|].
  unfold ttml_dec2, dec_with. rewrite Hrd. f_equal. apply ttml_to_plain_written_gen.
Qed.

(* the plain view of the converted value is the plain view of the source value: no text is lost or altered *)
Lemma plain_srt_ttml l : ttml_to_plain (conv_srt_ttml l) = srt_to_plain l.
Proof.
  unfold ttml_to_plain, conv_srt_ttml, srt_to_plain. cbn [td_items]. rewrite map_map. apply map_ext. intros it.
  unfold sview, st_item. cbn [ti_st ti_en ti_lines]. f_equal. rewrite map_map. apply map_ext. intros ln.
  unfold ttml_line_text, sline_text. rewrite map_map. reflexivity.
Qed.
Lemma plain_vtt_ttml d : ttml_to_plain (conv_vtt_ttml d) = vtt_to_plain d.
Proof.
  unfold ttml_to_plain, conv_vtt_ttml, vtt_to_plain. cbn [td_items]. rewrite map_map. apply map_ext. intros it.
  unfold vview, vt_item. cbn [ti_st ti_en ti_lines]. f_equal. rewrite map_map. apply map_ext. intros ln.
  unfold ttml_line_text, vline_text. rewrite map_map. reflexivity.
Qed.
Lemma plain_ssa_ttml d : ttml_to_plain (conv_ssa_ttml d) = ssa_to_plain d.
Proof.
  unfold ttml_to_plain, conv_ssa_ttml, ssa_to_plain. cbn [td_items]. rewrite map_map. apply map_ext. intros it.
  unfold at_item. cbn [ti_st ti_en ti_lines]. f_equal. rewrite map_map. apply map_ext. intros ln.
  unfold ttml_line_text, ssa_line_text. rewrite map_map. reflexivity.
Qed.

(* SubRip -> TTML: for every cue list the SubRip reader can return whose TTML form is representable (at least one cue,
   times in [0, max_int64], no line break inside a run) and XML-legal: the conversion succeeds and the written
   document reads back with the same cues in the same order, times truncated to the millisecond, and per line
   exactly the same text (run texts put together; no white space is inserted) *)
Theorem srt_to_ttml_styled : forall l, repr_doc (conv_srt_ttml l) = true -> legal_doc (conv_srt_ttml l) = true ->
  exists b, to_ttml_bytes (conv_srt_ttml l) = Ok b /\ ttml_dec2 b = Ok (ptrunc 1000000 (srt_to_plain l)).
Proof. intros l Hr Hl. rewrite <- plain_srt_ttml. apply to_ttml_plain; assumption. Qed.
Theorem vtt_to_ttml_styled : forall d, repr_doc (conv_vtt_ttml d) = true -> legal_doc (conv_vtt_ttml d) = true ->
  exists b, to_ttml_bytes (conv_vtt_ttml d) = Ok b /\ ttml_dec2 b = Ok (ptrunc 1000000 (vtt_to_plain d)).
Proof. intros d Hr Hl. rewrite <- plain_vtt_ttml. apply to_ttml_plain; assumption. Qed.
Theorem ssa_to_ttml_styled : forall d, repr_doc (conv_ssa_ttml d) = true -> legal_doc (conv_ssa_ttml d) = true ->
  exists b, to_ttml_bytes (conv_ssa_ttml d) = Ok b /\ ttml_dec2 b = Ok (ptrunc 1000000 (ssa_to_plain d)).
Proof. intros d Hr Hl. rewrite <- plain_ssa_ttml. apply to_ttml_plain; assumption. Qed.


(* file to file *)
Corollary convert_srt_ttml_styled : forall data l, read_srt data = Ok l ->
  repr_doc (conv_srt_ttml l) = true -> legal_doc (conv_srt_ttml l) = true ->
  exists b, convert_srt_ttml data = Ok b /\ ttml_dec2 b = Ok (ptrunc 1000000 (srt_to_plain l)).
Proof. intros data l H Hr Hl. unfold convert_srt_ttml. rewrite H. apply srt_to_ttml_styled; assumption. Qed.
Corollary convert_vtt_ttml_styled : forall data d, read_vtt data = Ok d ->
  repr_doc (conv_vtt_ttml d) = true -> legal_doc (conv_vtt_ttml d) = true ->
  exists b, convert_vtt_ttml data = Ok b /\ ttml_dec2 b = Ok (ptrunc 1000000 (vtt_to_plain d)).
Proof. intros data d H Hr Hl. unfold convert_vtt_ttml. rewrite H. apply vtt_to_ttml_styled; assumption. Qed.
Corollary convert_ssa_ttml_styled : forall data d, read_ssa data = Ok d ->
  repr_doc (conv_ssa_ttml d) = true -> legal_doc (conv_ssa_ttml d) = true ->
  exists b, convert_ssa_ttml data = Ok b /\ ttml_dec2 b = Ok (ptrunc 1000000 (ssa_to_plain d)).
Proof. intros data d H Hr Hl. unfold convert_ssa_ttml. rewrite H. apply ssa_to_ttml_styled; assumption. Qed.

(* non-trivial instances: a styled SubRip list (two runs, one coloured, bold), a WebVTT document with a region and a
   style block, an SSA document with a title, two styles and a styled event *)
Definition ex_srt_styled : list sitem :=
  [mkSitem 1 1000000000 2500000999
           [[mkSrun [72;105;32]%N (Some (mkSa true false false (Some [114;101;100]%N))) 0%N; mkSrun [121;111;117]%N None 0%N];
            [mkSrun [98;121;101]%N (Some (mkSa false true false None)) 0%N]]].
Example ex_srt_styled_ok : repr_doc (conv_srt_ttml ex_srt_styled) = true /\ legal_doc (conv_srt_ttml ex_srt_styled) = true.
Proof. split; vm_compute; reflexivity. Qed.
Example ex_srt_styled_conv : exists b, to_ttml_bytes (conv_srt_ttml ex_srt_styled) = Ok b /\
  ttml_dec2 b = Ok [(1000000000%Z, 2500000000%Z, [[72;105;32;121;111;117]; [98;121;101]]%N)].
Proof.
  destruct (srt_to_ttml_styled ex_srt_styled (proj1 ex_srt_styled_ok) (proj2 ex_srt_styled_ok)) as (b & H1 & H2).
  exists b. split; [exact H1|]. rewrite H2. reflexivity.
Qed.

(* a WebVTT document with two regions (listed out of key order), the style entry of a STYLE block, a cue in a region *)
Definition ex_vtt_styled : vdoc :=
  mkVdoc [mkVitem 0 1000000000 2000000000 [] (Some [114;49]%N) None None
                  [mkVline [mkVrun [72;105]%N (Some [mkVtag [98]%N [] []]) 0%Z None; mkVrun [33]%N None 0%Z None] [65]%N]]
         [([114;50]%N, mkVregion [114;50]%N None None); ([114;49]%N, mkVregion [114;49]%N None None)]
         [([115]%N, Some [[120]%N])] None.
Example ex_vtt_styled_ok : repr_doc (conv_vtt_ttml ex_vtt_styled) = true /\ legal_doc (conv_vtt_ttml ex_vtt_styled) = true.
Proof. split; vm_compute; reflexivity. Qed.
Example ex_vtt_styled_conv : exists b, to_ttml_bytes (conv_vtt_ttml ex_vtt_styled) = Ok b /\
  ttml_dec2 b = Ok [(1000000000%Z, 2000000000%Z, [[72;105;33]]%N)].
Proof.
  destruct (vtt_to_ttml_styled ex_vtt_styled (proj1 ex_vtt_styled_ok) (proj2 ex_vtt_styled_ok)) as (b & H1 & H2).
  exists b. split; [exact H1|]. rewrite H2. reflexivity.
Qed.
(* an SSA document with a title, two styles, an event using one of them *)
Definition ex_ssa_style (n : str) : astyle :=
  mkAstyle n [] None None None None None None None None None None None None None None None None None None None None None None.
Definition ex_ssa_styled : adoc :=
  mkAdoc (Some (kset KTitle [84;105]%N ainfo0))
         [([98]%N, Some (ex_ssa_style [98]%N)); ([97]%N, Some (ex_ssa_style [97]%N)); ([99]%N, None)]
         [mkAitem 1000000000 2000000000 (Some [97]%N) None [mkAline [] [mkArun [72;105]%N (Some [120]%N); mkArun [33]%N None]]].
Example ex_ssa_styled_ok : repr_doc (conv_ssa_ttml ex_ssa_styled) = true /\ legal_doc (conv_ssa_ttml ex_ssa_styled) = true.
Proof. split; vm_compute; reflexivity. Qed.
Example ex_ssa_styled_conv : exists b, to_ttml_bytes (conv_ssa_ttml ex_ssa_styled) = Ok b /\
  ttml_dec2 b = Ok [(1000000000%Z, 2000000000%Z, [[72;105;33]]%N)].
Proof.
  destruct (ssa_to_ttml_styled ex_ssa_styled (proj1 ex_ssa_styled_ok) (proj2 ex_ssa_styled_ok)) as (b & H1 & H2).
  exists b. split; [exact H1|]. rewrite H2. reflexivity.
Qed.
Print Assumptions srt_to_ttml_styled.
