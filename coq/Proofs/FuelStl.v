(* Fuel audit, Model/Stl.v and Model/StlIO.v: tti_loop, tti_loop_sched, tti_loop_fail (value at O: Err EOther — an
   error, i.e. an ordinary-looking result of a reader; statements of the form "exists k, ... = Err k" hold of it),
   and Kit/Scan.v read_n_fuel (value at O: RnShort, the "incomplete block" result).
   Wrappers: read_stl / read_stl_sched / read_stl_fail call the loops with S (length rest); read_n calls read_n_fuel
   with S (length counts).  Every turn of a TTI loop consumes a whole 128-byte block, every turn of read_n_fuel one
   entry of the schedule.  Proved: independence of the fuel above the measure, fuel-free equations, and — since
   EOther is produced nowhere else in the STL model — that the three readers never return Err EOther at all. *)
From Coq Require Import List ZArith NArith Bool Arith Lia.
From Astisub Require Import Kit.Base Kit.Str Kit.Scan Kit.IOW Model.Dur Model.Stl Model.StlIO Gen.StlTables
  Proofs.ScanProofs Proofs.StlBlocks Proofs.StlReadSpec Proofs.StlIOProofs.
Import ListNotations.

(* ---------------------------------------------------------------- read_n_fuel *)
Lemma read_n_fuel_enough : forall a b n acc data counts, (length counts < a)%nat -> (length counts < b)%nat ->
  read_n_fuel a n acc data counts = read_n_fuel b n acc data counts.
Proof.
  induction a as [|a IH]; intros b n acc data counts Ha Hb; [lia|]. destruct b as [|b]; [lia|].
  cbn [read_n_fuel]. destruct (Nat.leb n (length acc)); [reflexivity|].
  destruct counts as [|k cs]; [reflexivity|]. cbn [length] in Ha, Hb. apply IH; lia.
Qed.
Theorem read_n_fuel_indep fuel n acc data counts : (S (length counts) <= fuel)%nat ->
  read_n_fuel fuel n acc data counts = read_n_fuel (S (length counts)) n acc data counts.
Proof. intros H. apply read_n_fuel_enough; lia. Qed.

(* a delivered block has been taken off the data *)
Lemma read_n_ok_len n data counts p rest cs : (0 < n)%nat -> read_n n data counts = RnOk p rest cs ->
  (length rest + n = length data)%nat.
Proof.
  intros Hn H. destruct (Nat.le_gt_cases n (length data)) as [L|L].
  - destruct (read_n_full n data counts L) as (cs' & R). rewrite R in H. inversion H; subst. rewrite skipn_length. lia.
  - rewrite (read_n_short_any n data counts L) in H. destruct data; discriminate.
Qed.

(* ---------------------------------------------------------------- the TTI loops *)
Lemma tti_loop_enough : forall n m data g tcp acc items, (length data < n)%nat -> (length data < m)%nat ->
  tti_loop n data g tcp acc items = tti_loop m data g tcp acc items.
Proof.
  induction n as [|n IH]; intros m data g tcp acc items Hn Hm; [lia|]. destruct m as [|m]; [lia|].
  rewrite !tti_loop_unfold. destruct (read_n 128 data []) as [p rest cs| |] eqn:R; try reflexivity.
  apply read_n_ok_len in R; [|lia].
  destruct (tti_step g tcp acc items p) as [[acc' items']|k|s]; cbn [bind]; try reflexivity. apply IH; lia.
Qed.
Theorem tti_loop_indep fuel data g tcp acc items : (S (length data) <= fuel)%nat ->
  tti_loop fuel data g tcp acc items = tti_loop (S (length data)) data g tcp acc items.
Proof. intros H. apply tti_loop_enough; lia. Qed.
Theorem tti_loop_sched_indep fuel data counts g tcp acc items : (S (length data) <= fuel)%nat ->
  tti_loop_sched fuel data counts g tcp acc items = tti_loop_sched (S (length data)) data counts g tcp acc items.
Proof. intros H. rewrite !tti_loop_schedule. apply tti_loop_indep. exact H. Qed.

Lemma tti_loop_fail_enough : forall n m data counts g tcp acc items, (length data < n)%nat -> (length data < m)%nat ->
  tti_loop_fail n data counts g tcp acc items = tti_loop_fail m data counts g tcp acc items.
Proof.
  induction n as [|n IH]; intros m data counts g tcp acc items Hn Hm; [lia|]. destruct m as [|m]; [lia|].
  cbn [tti_loop_fail]. destruct (read_n 128 data counts) as [p rest cs| |] eqn:R; try reflexivity.
  apply read_n_ok_len in R; [|lia].
  destruct (tti_step g tcp acc items p) as [[acc' items']|k|s]; cbn [bind]; try reflexivity. apply IH; lia.
Qed.
Theorem tti_loop_fail_indep fuel data counts g tcp acc items : (S (length data) <= fuel)%nat ->
  tti_loop_fail fuel data counts g tcp acc items = tti_loop_fail (S (length data)) data counts g tcp acc items.
Proof. intros H. apply tti_loop_fail_enough; lia. Qed.

(* the loop without fuel and its equation *)
Definition tti_loop_c (data : str) (g : gsi) (tcp : Z) (acc : option N) (items : list ritem) : res (list ritem) :=
  tti_loop (S (length data)) data g tcp acc items.
Theorem tti_loop_c_eq data g tcp acc items :
  tti_loop_c data g tcp acc items =
  match read_n 128 data [] with
  | RnEOF => Ok (rev items)
  | RnShort => Err EIO
  | RnOk p rest _ => do x <- tti_step g tcp acc items p; let '(acc', items') := x in tti_loop_c rest g tcp acc' items'
  end.
Proof.
  unfold tti_loop_c at 1. rewrite tti_loop_unfold. destruct (read_n 128 data []) as [p rest cs| |] eqn:R; try reflexivity.
  apply read_n_ok_len in R; [|lia].
  destruct (tti_step g tcp acc items p) as [[acc' items']|k|s]; cbn [bind]; try reflexivity.
  unfold tti_loop_c. apply tti_loop_enough; lia.
Qed.

(* ---------------------------------------------------------------- the out-of-fuel error is never returned *)
Definition not_fuel {A} (r : res A) : Prop := r <> Err EOther.
Lemma bind_not_fuel {A B} (r : res A) (f : A -> res B) : not_fuel r -> (forall a, not_fuel (f a)) -> not_fuel (bind r f).
Proof. unfold not_fuel. intros Hr Hf. destruct r as [a|k|s]; cbn [bind]; [apply Hf | intros E; apply Hr; inversion E; reflexivity | discriminate]. Qed.

Lemma num_field_not_fuel v : not_fuel (num_field v).
Proof. unfold not_fuel, num_field. destruct (trim_space v); [discriminate|]. destruct (atoi _); discriminate. Qed.
Lemma date_field_not_fuel v : not_fuel (date_field v).
Proof. unfold not_fuel, date_field. destruct (trim_space v); [discriminate|]. destruct (date_valid _); discriminate. Qed.
Lemma tc_field_not_fuel v fps : not_fuel (tc_field v fps).
Proof. unfold not_fuel, tc_field. destruct (trim_space v); [discriminate|]. destruct (Nat.ltb _ _); [discriminate|]. destruct (parse_stl _ _); discriminate. Qed.
Lemma parse_gsi_not_fuel b : not_fuel (parse_gsi b).
Proof.
  unfold parse_gsi. destruct (slookup _ _); [|discriminate].
  repeat (apply bind_not_fuel; [first [apply date_field_not_fuel | apply num_field_not_fuel | apply tc_field_not_fuel] | intros ?]).
  discriminate.
Qed.
Lemma open_row_not_fuel row : forall items text a acc, not_fuel (open_row row items text a acc).
Proof.
  induction row as [|v r IH]; intros items text a acc; cbn [open_row]; [discriminate|].
  destruct (v <=? 31)%N; [discriminate|].
  destruct (sty_code v); [apply IH | destruct (decode1 acc v); apply IH].
Qed.
Lemma rows_open_not_fuel rows : forall acc lines, not_fuel (rows_open rows acc lines).
Proof.
  induction rows as [|row r IH]; intros acc lines; cbn [rows_open]; [discriminate|].
  apply bind_not_fuel; [apply open_row_not_fuel|]. intros [l acc']. apply IH.
Qed.
Lemma tti_step_not_fuel g tcp acc items p : not_fuel (tti_step g tcp acc items p).
Proof.
  unfold tti_step. destruct (t_ebn _ =? 254)%Z; [discriminate|]. destruct (str_eqb _ _).
  - apply bind_not_fuel; [apply rows_open_not_fuel|]. intros [lines acc']. discriminate.
  - destruct (rows_ttx _ acc []). discriminate.
Qed.

Theorem tti_loop_not_fuel : forall fuel data g tcp acc items, (length data < fuel)%nat ->
  not_fuel (tti_loop fuel data g tcp acc items).
Proof.
  induction fuel as [|f IH]; intros data g tcp acc items Hf; [lia|].
  rewrite tti_loop_unfold. destruct (read_n 128 data []) as [p rest cs| |] eqn:R; try discriminate.
  apply read_n_ok_len in R; [|lia].
  apply bind_not_fuel; [apply tti_step_not_fuel|]. intros [acc' items']. apply IH. lia.
Qed.
Theorem tti_loop_fail_not_fuel : forall fuel data counts g tcp acc items, (length data < fuel)%nat ->
  not_fuel (tti_loop_fail fuel data counts g tcp acc items).
Proof.
  induction fuel as [|f IH]; intros data counts g tcp acc items Hf; [lia|].
  cbn [tti_loop_fail]. destruct (read_n 128 data counts) as [p rest cs| |] eqn:R; try discriminate.
  apply read_n_ok_len in R; [|lia].
  apply bind_not_fuel; [apply tti_step_not_fuel|]. intros [acc' items']. apply IH. lia.
Qed.

Theorem read_stl_not_fuel ign data : read_stl ign data <> Err EOther.
Proof.
  change (not_fuel (read_stl ign data)). unfold read_stl. destruct (read_n 1024 data []) as [b rest cs| |]; try discriminate.
  apply bind_not_fuel; [apply parse_gsi_not_fuel|]. intros g. destruct (negb _); [discriminate|].
  apply bind_not_fuel; [apply tti_loop_not_fuel; lia|]. intros items. discriminate.
Qed.
Theorem read_stl_sched_not_fuel ign data counts : read_stl_sched ign data counts <> Err EOther.
Proof. rewrite read_stl_schedule. apply read_stl_not_fuel. Qed.
Theorem read_stl_fail_not_fuel ign data counts : read_stl_fail ign data counts <> Err EOther.
Proof.
  change (not_fuel (read_stl_fail ign data counts)). unfold read_stl_fail.
  destruct (read_n 1024 data counts) as [b rest cs| |]; try discriminate.
  apply bind_not_fuel; [apply parse_gsi_not_fuel|]. intros g. destruct (negb _); [discriminate|].
  apply bind_not_fuel; [apply tti_loop_fail_not_fuel; lia|]. intros items. discriminate.
Qed.

(* the "is an error" theorems of StlIOProofs, with the out-of-fuel error excluded: the error is a genuine one *)
Corollary read_stl_fail_err_genuine ign data counts : exists k, read_stl_fail ign data counts = Err k /\ k <> EOther.
Proof.
  destruct (read_stl_fail_err ign data counts) as (k & R). exists k. split; [exact R|].
  intros ->. exact (read_stl_fail_not_fuel ign data counts R).
Qed.
Corollary read_stl_partial_block_genuine ign data j r :
  length data = (1024 + 128 * j + r)%nat -> (0 < r < 128)%nat -> exists k, read_stl ign data = Err k /\ k <> EOther.
Proof.
  intros L Hr. destruct (read_stl_partial_block ign data j r L Hr) as (k & R). exists k. split; [exact R|].
  intros ->. exact (read_stl_not_fuel ign data R).
Qed.
