(* EBU STL, GSI block: the writer's 1024 bytes read back give the block, for every representable block.

     Theorem gsi_roundtrip g : gsi_repr g -> parse_gsi (gsi_bytes g) = Ok g.

   [gsi_repr] (a record, below) says: the two binary numbers fit their bytes (CCT < 2^16, CPN < 2^24); the frame
   rate is one with a disk format code (25 or 30); every string fits its field and is unchanged by TrimSpace
   ([str_ok]: the reader trims, the writer cuts); a date is absent or a valid yymmdd ([date_ok]); a number is
   non-negative and fits the digits of its field; a timecode is a frame instant h:m:s:f below 100 hours, as the
   reader computes it ([tc_instant]); the user-defined area is empty (the writer blanks it).
   [gsi_reprb] decides it ([gsi_reprb_iff]).  The conditions are those under which each field comes back, with
   one known slack: a two-character number field also carries -9..-1 ("-5" is read back as -5).

   Tools proved here on the way: [trim_space_pad] (a string unchanged by TrimSpace, padded with spaces, trims
   back to itself: no assumption on its bytes), [itoa_length_le] (Itoa of a number below 10^k has at most k
   characters: by the decimal digits of the number, no enumeration), [split_at_nth]/[gsi_sl] (the slice at the
   sum of the preceding widths of a concatenation of fields is the field). *)
From Coq Require Import List ZArith NArith Bool Lia ZifyBool ZifyN ZifyNat.
From Coq Require Decimal DecimalFacts DecimalPos DecimalN.
From Astisub Require Import Kit.Base Kit.Str Kit.Utf8 Model.Dur Model.Stl Gen.StlTables Proofs.DurProofs Proofs.StlBlocks.
Import ListNotations.
Open Scope Z_scope.

(* ================= lists: slices of a concatenation of fields ================= *)
Lemma firstn_length_app {A} (x y : list A) : firstn (length x) (x ++ y) = x.
Proof. induction x as [|a x IH]; [reflexivity|]. cbn [length app firstn]. rewrite IH. reflexivity. Qed.
Lemma skipn_length_app {A} (x y : list A) : skipn (length x) (x ++ y) = y.
Proof. induction x as [|a x IH]; [reflexivity|]. cbn [length app skipn]. exact IH. Qed.
Lemma nth_firstn_lt {A} (d : A) : forall n j l, (j < n)%nat -> nth j (firstn n l) d = nth j l d.
Proof.
  induction n as [|n IH]; intros j l H; [lia|]. destruct l as [|a l]; [destruct j; reflexivity|].
  destruct j as [|j]; [reflexivity|]. cbn [firstn nth]. apply IH. lia.
Qed.
Lemma nth_skipn_add {A} (d : A) : forall n j l, nth j (skipn n l) d = nth (n + j) l d.
Proof.
  induction n as [|n IH]; intros j l; [reflexivity|]. destruct l as [|a l]; [destruct j; reflexivity|].
  cbn [skipn Nat.add nth]. apply IH.
Qed.
Lemma skipn_repeat {A} (a : A) : forall n m, skipn n (repeat a m) = repeat a (m - n).
Proof.
  induction n as [|n IH]; intros m; [rewrite Nat.sub_0_r; reflexivity|]. destruct m as [|m]; [reflexivity|].
  cbn [repeat skipn Nat.sub]. apply IH.
Qed.
Lemma rev_repeat {A} (a : A) n : rev (repeat a n) = repeat a n.
Proof.
  induction n as [|n IH]; [reflexivity|]. cbn [repeat rev]. rewrite IH. symmetry. apply repeat_cons.
Qed.

Fixpoint sum (ns : list nat) : nat := match ns with [] => O | n :: r => (n + sum r)%nat end.
(* [split_at ns b]: consecutive pieces of [b] of lengths [ns] *)
Fixpoint split_at (ns : list nat) (b : str) : list str :=
  match ns with [] => [] | n :: r => firstn n b :: split_at r (skipn n b) end.

Lemma split_at_concat : forall fs : list str, split_at (map (@length N) fs) (concat fs) = fs.
Proof.
  induction fs as [|f fs IH]; [reflexivity|]. cbn [map concat split_at].
  rewrite firstn_length_app, skipn_length_app, IH. reflexivity.
Qed.
Lemma split_at_nth : forall ns i b, (i < length ns)%nat ->
  nth i (split_at ns b) [] = stl_sl (sum (firstn i ns)) (nth i ns O) b.
Proof.
  induction ns as [|n r IH]; intros i b H; cbn [length] in H; [lia|]. destruct i as [|i].
  - reflexivity.
  - cbn [split_at nth firstn sum]. rewrite IH by lia. unfold stl_sl. rewrite skipn_plus. reflexivity.
Qed.
Lemma byte_at_sl off len j b : (j < len)%nat -> nth j (stl_sl off len b) 0%N = stl_byte_at (off + j) b.
Proof. intros H. unfold stl_sl, stl_byte_at. rewrite nth_firstn_lt by exact H. apply nth_skipn_add. Qed.

Lemma byte_at_slb off len j b : Nat.ltb j len = true -> nth j (stl_sl off len b) 0%N = stl_byte_at (off + j) b.
Proof. intros H. apply byte_at_sl. apply Nat.ltb_lt. exact H. Qed.

(* ================= white space: a trimmed string, padded with spaces, trims back ================= *)
Lemma strip_any_Some seqs : forall s r, strip_any seqs s = Some r -> exists q, In q seqs /\ s = q ++ r.
Proof.
  induction seqs as [|q0 seqs IH]; intros s r H; cbn [strip_any] in H; [discriminate|].
  destruct (prefix q0 s) as [rest|] eqn:E.
  - inversion H; subst rest. exists q0. split; [left; reflexivity | apply prefix_Some; exact E].
  - destruct (IH s r H) as (q & Hin & Hq). exists q. split; [right; exact Hin | exact Hq].
Qed.
Lemma space_seqs_nonnil : forall q, In q space_seqs -> q <> [].
Proof. apply Forall_forall. unfold space_seqs. repeat constructor; discriminate. Qed.
Lemma space_seqs_rev_nonnil : forall q, In q (map (@rev N) space_seqs) -> q <> [].
Proof. apply Forall_forall. unfold space_seqs. cbn [map rev app]. repeat constructor; discriminate. Qed.
Lemma strip_any_lt seqs s r : (forall q, In q seqs -> q <> []) -> strip_any seqs s = Some r -> (length r < length s)%nat.
Proof.
  intros Hne H. destruct (strip_any_Some seqs s r H) as (q & Hin & ->). specialize (Hne q Hin).
  rewrite app_length. destruct q as [|a q]; [contradiction|]. cbn [length]. lia.
Qed.
Lemma strip_space1_lt s r : strip_space1 s = Some r -> (length r < length s)%nat.
Proof.
  destruct s as [|c s']; cbn [strip_space1]; [discriminate|]. destruct (is_ascii_space c).
  - intros H. inversion H; subst. cbn [length]. lia.
  - destruct (c <? 128)%N; [discriminate|]. apply strip_any_lt. exact space_seqs_nonnil.
Qed.
Lemma strip_space1_rev_lt s r : strip_space1_rev s = Some r -> (length r < length s)%nat.
Proof.
  destruct s as [|c s']; cbn [strip_space1_rev]; [discriminate|]. destruct (is_ascii_space c).
  - intros H. inversion H; subst. cbn [length]. lia.
  - destruct (c <? 128)%N; [discriminate|]. apply strip_any_lt. exact space_seqs_rev_nonnil.
Qed.
Lemma trim_left_fuel_len f : forall s, (length (trim_left_fuel f s) <= length s)%nat.
Proof.
  induction f as [|f IH]; intros s; cbn [trim_left_fuel]; [lia|]. destruct (strip_space1 s) as [r|] eqn:E; [|lia].
  pose proof (strip_space1_lt s r E) as H1. pose proof (IH r) as H2. lia.
Qed.
Lemma trim_right_fuel_len f : forall s, (length (trim_right_fuel f s) <= length s)%nat.
Proof.
  induction f as [|f IH]; intros s; cbn [trim_right_fuel]; [lia|]. destruct (strip_space1_rev s) as [r|] eqn:E; [|lia].
  pose proof (strip_space1_rev_lt s r E) as H1. pose proof (IH r) as H2. lia.
Qed.
Lemma trim_left_fuel_none f s : strip_space1 s = None -> trim_left_fuel f s = s.
Proof. intros H. destruct f; cbn [trim_left_fuel]; [reflexivity|]. rewrite H. reflexivity. Qed.
Lemma trim_right_fuel_none f s : strip_space1_rev s = None -> trim_right_fuel f s = s.
Proof. intros H. destruct f; cbn [trim_right_fuel]; [reflexivity|]. rewrite H. reflexivity. Qed.
Lemma trim_left_len_eq s : length (trim_left s) = length s -> strip_space1 s = None.
Proof.
  unfold trim_left. destruct s as [|c r]; [reflexivity|]. cbn [length trim_left_fuel].
  destruct (strip_space1 (c :: r)) as [r'|] eqn:E; [|reflexivity]. intros H.
  pose proof (strip_space1_lt _ _ E) as H1. pose proof (trim_left_fuel_len (length r) r') as H2. cbn [length] in H1. lia.
Qed.
Lemma trim_right_fuel_len_eq w : length (trim_right_fuel (length w) w) = length w -> strip_space1_rev w = None.
Proof.
  destruct w as [|c r]; [reflexivity|]. cbn [length trim_right_fuel].
  destruct (strip_space1_rev (c :: r)) as [r'|] eqn:E; [|reflexivity]. intros H.
  pose proof (strip_space1_rev_lt _ _ E) as H1. pose proof (trim_right_fuel_len (length r) r') as H2. cbn [length] in H1. lia.
Qed.
Lemma trim_right_len s : (length (trim_right s) <= length s)%nat.
Proof. unfold trim_right. rewrite rev_length. pose proof (trim_right_fuel_len (length s) (rev s)) as H. rewrite rev_length in H. exact H. Qed.

(* what "unchanged by TrimSpace" means: no white-space character at either end *)
Lemma trim_space_fix s : trim_space s = s -> strip_space1 s = None /\ strip_space1_rev (rev s) = None.
Proof.
  intros H. unfold trim_space in H.
  pose proof (trim_right_len (trim_left s)) as H1. pose proof (trim_left_fuel_len (length s) s) as H2. fold (trim_left s) in H2.
  assert (HL : length (trim_left s) = length s) by (rewrite H in H1; lia).
  pose proof (trim_left_len_eq s HL) as N1. split; [exact N1|].
  unfold trim_left in H. rewrite (trim_left_fuel_none _ _ N1) in H.
  apply trim_right_fuel_len_eq. rewrite rev_length. unfold trim_right in H.
  rewrite <- (rev_length (trim_right_fuel (length s) (rev s))), H. reflexivity.
Qed.
Lemma trim_space_fix_conv s : strip_space1 s = None -> strip_space1_rev (rev s) = None -> trim_space s = s.
Proof.
  intros N1 N2. unfold trim_space, trim_left. rewrite (trim_left_fuel_none _ _ N1). unfold trim_right.
  rewrite (trim_right_fuel_none _ _ N2). apply rev_involutive.
Qed.

Lemma prefix_app_spaces q : Forall (fun x => x <> 32%N) q -> forall s k, prefix q s = None -> prefix q (s ++ repeat 32%N k) = None.
Proof.
  induction 1 as [|a q Ha Hq IH]; intros s k H; cbn [prefix] in H; [discriminate|].
  destruct s as [|b s]; cbn [app].
  - destruct k as [|k]; [reflexivity|]. cbn [repeat prefix]. destruct (a =? 32)%N eqn:E; [apply N.eqb_eq in E; contradiction | reflexivity].
  - cbn [prefix]. destruct (a =? b)%N; [apply IH; exact H | reflexivity].
Qed.
Lemma strip_any_app_spaces seqs : Forall (Forall (fun x => x <> 32%N)) seqs ->
  forall s k, strip_any seqs s = None -> strip_any seqs (s ++ repeat 32%N k) = None.
Proof.
  induction 1 as [|q seqs Hq Hs IH]; intros s k H; cbn [strip_any] in *; [reflexivity|].
  destruct (prefix q s) as [rest|] eqn:E; [discriminate|]. rewrite (prefix_app_spaces q Hq s k E). apply IH. exact H.
Qed.
Lemma space_seqs_no32 : Forall (Forall (fun x => x <> 32%N)) space_seqs.
Proof. unfold space_seqs. repeat constructor; discriminate. Qed.

Lemma trim_left_spaces k : forall f, (k <= f)%nat -> trim_left_fuel f (repeat 32%N k) = [].
Proof.
  induction k as [|k IH]; intros f H.
  - destruct f; reflexivity.
  - destruct f as [|f]; [lia|]. cbn [repeat trim_left_fuel strip_space1].
    change (is_ascii_space 32) with true. cbv iota. apply IH. lia.
Qed.
Lemma trim_right_fuel_spaces k m u : trim_right_fuel (k + m) (repeat 32%N k ++ u) = trim_right_fuel m u.
Proof.
  induction k as [|k IH]; [reflexivity|]. cbn [Nat.add repeat app trim_right_fuel strip_space1_rev].
  change (is_ascii_space 32) with true. cbv iota. exact IH.
Qed.
Lemma trim_space_spaces k : trim_space (repeat 32%N k) = [].
Proof. unfold trim_space, trim_left. rewrite repeat_length, trim_left_spaces by lia. reflexivity. Qed.

Theorem trim_space_pad s k : trim_space s = s -> trim_space (s ++ repeat 32%N k) = s.
Proof.
  intros H. destruct s as [|c r]; [apply trim_space_spaces|].
  destruct (trim_space_fix _ H) as [N1 N2].
  assert (N1' : strip_space1 ((c :: r) ++ repeat 32%N k) = None).
  { cbn [strip_space1 app] in *. destruct (is_ascii_space c); [discriminate|]. destruct (c <? 128)%N; [reflexivity|].
    change (c :: r ++ repeat 32%N k) with ((c :: r) ++ repeat 32%N k). apply strip_any_app_spaces; [exact space_seqs_no32 | exact N1]. }
  unfold trim_space, trim_left. rewrite (trim_left_fuel_none _ _ N1'). unfold trim_right.
  rewrite rev_app_distr, rev_repeat, app_length, repeat_length, Nat.add_comm, trim_right_fuel_spaces.
  rewrite (trim_right_fuel_none _ _ N2). apply rev_involutive.
Qed.

Lemma pad_right_cut_le c n s : (length s <= n)%nat -> pad_right_cut c n s = s ++ repeat c (n - length s).
Proof. intros H. unfold pad_right_cut, pad_right. apply firstn_all2. rewrite app_length, repeat_length. lia. Qed.
Lemma pad_right_cut_exact c n s : length s = n -> pad_right_cut c n s = s.
Proof. intros H. rewrite pad_right_cut_le by lia. rewrite H, Nat.sub_diag. apply app_nil_r. Qed.

Theorem trim_pad n s : (length s <= n)%nat -> trim_space s = s -> trim_space (pad_right_cut stl_sp n s) = s.
Proof. intros HL HT. rewrite (pad_right_cut_le _ _ _ HL). apply trim_space_pad. exact HT. Qed.

(* ================= decimal: at most k digits below 10^k ================= *)
Lemma uint_to_str_length u : length (uint_to_str u) = Decimal.nb_digits u.
Proof. induction u; cbn [uint_to_str length Decimal.nb_digits]; congruence. Qed.

Definition dig (k : N) (d : Decimal.uint) : Decimal.uint :=
  match k with
  | 0 => Decimal.D0 d | 1 => Decimal.D1 d | 2 => Decimal.D2 d | 3 => Decimal.D3 d | 4 => Decimal.D4 d
  | 5 => Decimal.D5 d | 6 => Decimal.D6 d | 7 => Decimal.D7 d | 8 => Decimal.D8 d | _ => Decimal.D9 d
  end%N.
(* [k] decimal digits of [n], least significant first *)
Fixpoint lu_of (k : nat) (n : N) : Decimal.uint :=
  match k with O => Decimal.Nil | S k' => dig (n mod 10)%N (lu_of k' (n / 10)%N) end.

Lemma of_lu_dig k d : (k < 10)%N -> DecimalPos.Unsigned.of_lu (dig k d) = (k + 10 * DecimalPos.Unsigned.of_lu d)%N.
Proof.
  intros H. assert (C : (k = 0 \/ k = 1 \/ k = 2 \/ k = 3 \/ k = 4 \/ k = 5 \/ k = 6 \/ k = 7 \/ k = 8 \/ k = 9)%N) by lia.
  destruct C as [C|[C|[C|[C|[C|[C|[C|[C|[C|C]]]]]]]]]; subst k; reflexivity.
Qed.
Lemma nb_digits_dig k d : Decimal.nb_digits (dig k d) = S (Decimal.nb_digits d).
Proof.
  unfold dig. repeat (match goal with |- context [match ?x with _ => _ end] => destruct x end); reflexivity.
Qed.
Lemma of_lu_lu_of : forall k n, (n < 10 ^ N.of_nat k)%N -> DecimalPos.Unsigned.of_lu (lu_of k n) = n.
Proof.
  induction k as [|k IH]; intros n H.
  - change (10 ^ N.of_nat 0)%N with 1%N in H. assert (n = 0%N) by lia. subst n. reflexivity.
  - cbn [lu_of]. rewrite of_lu_dig by (apply N.mod_lt; lia).
    rewrite Nat2N.inj_succ, N.pow_succ_r' in H.
    rewrite IH by (apply N.div_lt_upper_bound; [lia | exact H]).
    rewrite N.add_comm. symmetry. apply N.div_mod'.
Qed.
Lemma nb_digits_lu_of : forall k n, Decimal.nb_digits (lu_of k n) = k.
Proof. induction k as [|k IH]; intros n; [reflexivity|]. cbn [lu_of]. rewrite nb_digits_dig, IH. reflexivity. Qed.

Theorem itoa_length_le k n : (0 < k)%nat -> (n < 10 ^ N.of_nat k)%N -> (length (itoa n) <= k)%nat.
Proof.
  intros Hk Hn. unfold itoa. rewrite uint_to_str_length.
  assert (E : N.to_uint n = Decimal.unorm (Decimal.rev (lu_of k n))).
  { rewrite <- DecimalN.Unsigned.to_of. f_equal. unfold N.of_uint. rewrite DecimalPos.Unsigned.of_lu_rev.
    symmetry. apply of_lu_lu_of. exact Hn. }
  rewrite E.
  assert (Hr : Decimal.rev (lu_of k n) <> Decimal.Nil).
  { intros Hnil. pose proof (DecimalFacts.nb_digits_rev (lu_of k n)) as R. rewrite Hnil, nb_digits_lu_of in R. cbn in R. lia. }
  pose proof (DecimalFacts.nb_digits_unorm _ Hr) as U. rewrite DecimalFacts.nb_digits_rev, nb_digits_lu_of in U. exact U.
Qed.

(* ================= field decoders ================= *)
Lemma num_field_digits s n : digits s -> s <> [] -> atoi_digits s = Some n -> Z.of_N n <= max_int64 ->
  num_field s = Ok (Z.of_N n).
Proof.
  intros Hd Hne Ha Hr. unfold num_field. rewrite (digits_trim s Hd Hne).
  destruct s as [|c r] eqn:Es; [contradiction|]. rewrite <- Es in *.
  rewrite (atoi_no_sign s Hd Hne), Ha.
  destruct ((Z.of_N n <? - max_int64 - 1) || (max_int64 <? Z.of_N n)) eqn:B; [|reflexivity].
  apply orb_true_iff in B. unfold max_int64 in *. destruct B as [B|B]; apply Z.ltb_lt in B; lia.
Qed.

(* a right-aligned, zero-padded number of k digits *)
Theorem num_field_pad k v : (0 < k <= 18)%nat -> 0 <= v < 10 ^ Z.of_nat k -> num_field (pad_left_cut 48%N k (itoa_z v)) = Ok v.
Proof.
  intros Hk [H0 H1]. rewrite (itoa_z_nonneg v H0).
  assert (HL : (length (itoa (Z.to_N v)) <= k)%nat).
  { apply itoa_length_le; [lia|]. apply N2Z.inj_lt. rewrite N2Z.inj_pow, Z2N.id, nat_N_Z by exact H0. exact H1. }
  unfold pad_left_cut. assert (E : Nat.ltb k (length (itoa (Z.to_N v))) = false) by (apply Nat.ltb_ge; exact HL). rewrite E.
  rewrite <- (Z2N.id v H0) at 2. apply num_field_digits.
  - unfold pad_left. apply digits_app; [apply digits_repeat | apply itoa_digits].
  - unfold pad_left. intros Hnil. apply app_eq_nil in Hnil. destruct Hnil as [_ Hnil]. exact (itoa_nonnil _ Hnil).
  - rewrite atoi_digits_pad_left by apply itoa_nonnil. apply atoi_digits_itoa.
  - rewrite Z2N.id by exact H0. unfold max_int64.
    assert (P : 10 ^ Z.of_nat k <= 10 ^ 18) by (apply Z.pow_le_mono_r; lia).
    change (10 ^ 18) with 1000000000000000000 in P. lia.
Qed.
Lemma num_field_pad2 v : 0 <= v < 100 -> num_field (pad_left_cut 48%N 2 (itoa_z v)) = Ok v.
Proof. intros H. apply num_field_pad; [lia|]. change (10 ^ Z.of_nat 2) with 100. exact H. Qed.
Lemma num_field_pad3 v : 0 <= v < 1000 -> num_field (pad_left_cut 48%N 3 (itoa_z v)) = Ok v.
Proof. intros H. apply num_field_pad; [lia|]. change (10 ^ Z.of_nat 3) with 1000. exact H. Qed.
Lemma num_field_pad5 v : 0 <= v < 100000 -> num_field (pad_left_cut 48%N 5 (itoa_z v)) = Ok v.
Proof. intros H. apply num_field_pad; [lia|]. change (10 ^ Z.of_nat 5) with 100000. exact H. Qed.

(* the one-character numbers, read as string(b[i]) *)
Lemma num_field_one v : 0 <= v < 10 ->
  num_field (utf8_encode_rune (nth 0 (pad_right_cut stl_sp 1 (itoa_z v)) 0%N)) = Ok v.
Proof.
  intros H. assert (C : v = 0 \/ v = 1 \/ v = 2 \/ v = 3 \/ v = 4 \/ v = 5 \/ v = 6 \/ v = 7 \/ v = 8 \/ v = 9) by lia.
  destruct C as [C|[C|[C|[C|[C|[C|[C|[C|[C|C]]]]]]]]]; subst v; vm_compute; reflexivity.
Qed.

Definition date_ok (d : str) : Prop := d = [] \/ date_valid d = true.
Lemma date_field_pad d : date_ok d -> date_field (pad_right_cut stl_sp 6 d) = Ok d.
Proof.
  intros [->|H].
  - vm_compute. reflexivity.
  - pose proof H as Hv. unfold date_valid in H. apply andb_true_iff in H. destruct H as [H _].
    apply andb_true_iff in H. destruct H as [HL HD]. apply Nat.eqb_eq in HL.
    rewrite (pad_right_cut_exact _ _ _ HL). unfold date_field.
    assert (Hne : d <> []) by (intros ->; discriminate HL).
    rewrite (digits_trim d HD Hne). destruct d as [|c r] eqn:Ed; [contradiction|]. rewrite <- Ed in *.
    rewrite Hv. reflexivity.
Qed.

(* frame instants: what the reader computes for HHMMSSFF *)
Definition tc_instant (t fps : Z) : Prop :=
  exists h m s f, 0 <= h < 100 /\ 0 <= m < 60 /\ 0 <= s < 60 /\ 0 <= f < fps /\
    t = h * hour_ns + m * minute_ns + s * second_ns + frames_ns f fps.

Lemma tc_fields h m s f fps : (fps = 25 \/ fps = 30) -> 0 <= h < 100 -> 0 <= m < 60 -> 0 <= s < 60 -> 0 <= f < fps ->
  stl_fields (h * hour_ns + m * minute_ns + s * second_ns + frames_ns f fps) fps = (h, m, s, f).
Proof.
  intros Hfps Hh Hm Hs Hf. pose proof (frames_ns_bounds f fps Hfps Hf) as [B C].
  set (c := frames_ns f fps) in *. rewrite stl_fields_spec; [| unfold hour_ns, minute_ns, second_ns in *; lia | lia].
  unfold f_h, f_m, f_s, hour_ns, minute_ns, second_ns in *.
  set (t := h * 3600000000000 + m * 60000000000 + s * 1000000000 + c).
  assert (E1 : t / 3600000000000 = h) by (unfold t; Z.div_mod_to_equations; lia).
  assert (E2 : t mod 3600000000000 / 60000000000 = m) by (unfold t; Z.div_mod_to_equations; lia).
  assert (E3 : t mod 60000000000 / 1000000000 = s) by (unfold t; Z.div_mod_to_equations; lia).
  assert (E4 : t mod 1000000000 = c) by (unfold t; Z.div_mod_to_equations; lia).
  rewrite E1, E2, E3, E4.
  assert (E5 : c * fps / 1000000000 = f) by (destruct Hfps; subst fps; Z.div_mod_to_equations; lia).
  rewrite E5. reflexivity.
Qed.

Theorem tc_field_pad t fps : (fps = 25 \/ fps = 30) -> tc_instant t fps ->
  tc_field (pad_right_cut stl_sp 8 (format_stl t fps)) fps = Ok t.
Proof.
  intros Hfps (h & m & s & f & Hh & Hm & Hs & Hf & ->).
  assert (Hf' : 0 <= f < 100) by (destruct Hfps; subst fps; lia).
  unfold format_stl. rewrite (tc_fields h m s f fps Hfps Hh Hm Hs Hf).
  pose proof (two_length_100 h Hh) as Lh. pose proof (two_length_100 m ltac:(lia)) as Lm.
  pose proof (two_length_100 s ltac:(lia)) as Ls. pose proof (two_length_100 f Hf') as Lf.
  set (x := two h ++ two m ++ two s ++ two f).
  assert (Lx : length x = 8%nat) by (unfold x; rewrite !app_length, Lh, Lm, Ls, Lf; reflexivity).
  assert (Dx : digits x).
  { unfold x. apply digits_app; [exact (proj1 (DurProofs.two_digits h ltac:(lia)))|].
    apply digits_app; [exact (proj1 (DurProofs.two_digits m ltac:(lia)))|].
    apply digits_app; [exact (proj1 (DurProofs.two_digits s ltac:(lia))) | exact (proj1 (DurProofs.two_digits f ltac:(lia)))]. }
  assert (Nx : x <> []) by (intros E; rewrite E in Lx; discriminate Lx).
  rewrite (pad_right_cut_exact _ _ _ Lx). unfold tc_field. rewrite (digits_trim x Dx Nx).
  destruct x as [|c r] eqn:Ex; [contradiction|]. rewrite <- Ex in *. rewrite Lx.
  change (Nat.ltb 8 8) with false. cbv iota.
  destruct (sub2_parts (two h) (two m) (two s) (two f) Lh Lm Ls Lf) as (S0 & S2 & S4 & S6). fold x in S0, S2, S4, S6.
  unfold parse_stl. rewrite S0, S2, S4, S6. rewrite !atoi_two' by (unfold max_int64; lia). reflexivity.
Qed.

Lemma dfc_field fps : fps = 25 \/ fps = 30 ->
  slookup (pad_right_cut stl_sp 8 (match zlookup fps stl_framerate_inv with Some f => f | None => [] end)) stl_framerate = Some fps.
Proof. intros [->| ->]; vm_compute; reflexivity. Qed.

Lemma cct_bytes n : (n < 65536)%N -> ((n / 256) mod 256 * 256 + n mod 256 = n)%N.
Proof.
  intros H. rewrite (N.mod_small (n / 256) 256) by (apply N.div_lt_upper_bound; lia).
  rewrite N.mul_comm. symmetry. apply N.div_mod'.
Qed.
Lemma cpn_bytes n : (n < 16777216)%N -> ((n / 65536) mod 256 * 65536 + (n / 256) mod 256 * 256 + n mod 256 = n)%N.
Proof.
  intros H. rewrite (N.mod_small (n / 65536) 256) by (apply N.div_lt_upper_bound; lia).
  pose proof (N.div_mod' n 256) as E1. pose proof (N.div_mod' (n / 256) 256) as E2.
  pose proof (N.mod_lt n 256 ltac:(lia)) as B1. pose proof (N.mod_lt (n / 256) 256 ltac:(lia)) as B2.
  assert (E3 : (n / 65536 = n / 256 / 256)%N) by (rewrite N.div_div by lia; reflexivity).
  rewrite E3. lia.
Qed.

(* ================= the block as a list of 30 fields ================= *)
Definition gsi_fields (g : gsi) : list str :=
  [ [(g_cpn g / 65536) mod 256; (g_cpn g / 256) mod 256; g_cpn g mod 256]%N;
    pad_right_cut stl_sp 8 (match zlookup (g_fps g) stl_framerate_inv with Some f => f | None => [] end);
    pad_right_cut stl_sp 1 (g_dsc g);
    [(g_cct g / 256) mod 256; g_cct g mod 256]%N;
    pad_right_cut stl_sp 2 (g_lc g);
    pad_right_cut stl_sp 32 (g_opt g); pad_right_cut stl_sp 32 (g_oet g);
    pad_right_cut stl_sp 32 (g_tpt g); pad_right_cut stl_sp 32 (g_tet g);
    pad_right_cut stl_sp 32 (g_tn g); pad_right_cut stl_sp 32 (g_tcd g);
    pad_right_cut stl_sp 16 (g_slr g);
    pad_right_cut stl_sp 6 (g_cd g); pad_right_cut stl_sp 6 (g_rd g);
    pad_left_cut 48%N 2 (itoa_z (g_rn g));
    pad_left_cut 48%N 5 (itoa_z (g_tnb g)); pad_left_cut 48%N 5 (itoa_z (g_tns g)); pad_left_cut 48%N 3 (itoa_z (g_tng g));
    pad_left_cut 48%N 2 (itoa_z (g_mnc g)); pad_left_cut 48%N 2 (itoa_z (g_mnr g));
    pad_right_cut stl_sp 1 (g_tcs g);
    pad_right_cut stl_sp 8 (format_stl (g_tcp g) (g_fps g)); pad_right_cut stl_sp 8 (format_stl (g_tcf g) (g_fps g));
    pad_right_cut stl_sp 1 (itoa_z (g_tnd g)); pad_right_cut stl_sp 1 (itoa_z (g_dsn g));
    pad_right_cut stl_sp 3 (g_co g);
    pad_right_cut stl_sp 32 (g_pub g); pad_right_cut stl_sp 32 (g_en g); pad_right_cut stl_sp 32 (g_ecd g);
    repeat stl_sp 651 ].
Definition gsi_widths : list nat :=
  [3; 8; 1; 2; 2; 32; 32; 32; 32; 32; 32; 16; 6; 6; 2; 5; 5; 3; 2; 2; 1; 8; 8; 1; 1; 3; 32; 32; 32; 651]%nat.

Lemma gsi_bytes_concat g : gsi_bytes g = concat (gsi_fields g).
Proof. unfold gsi_bytes, gsi_fields. cbn [concat]. rewrite app_nil_r. reflexivity. Qed.
Lemma gsi_fields_widths g : map (@length N) (gsi_fields g) = gsi_widths.
Proof.
  unfold gsi_fields. cbn [map]. rewrite !pad_right_cut_length, !pad_left_cut_length, repeat_length. reflexivity.
Qed.
Lemma gsi_split g : split_at gsi_widths (gsi_bytes g) = gsi_fields g.
Proof. rewrite gsi_bytes_concat, <- (gsi_fields_widths g). apply split_at_concat. Qed.
(* field [i] is the slice at the sum of the widths before it *)
Lemma gsi_sl g i : Nat.ltb i 30 = true ->
  stl_sl (sum (firstn i gsi_widths)) (nth i gsi_widths O) (gsi_bytes g) = nth i (gsi_fields g) [].
Proof.
  intros H. apply Nat.ltb_lt in H. rewrite <- split_at_nth by exact H. rewrite gsi_split. reflexivity.
Qed.

(* ================= representable blocks ================= *)
Definition str_ok (w : nat) (s : str) : Prop := (length s <= w)%nat /\ trim_space s = s.

Record gsi_repr (g : gsi) : Prop := mkGsiRepr {
  r_cct : (g_cct g < 65536)%N;
  r_cpn : (g_cpn g < 16777216)%N;
  r_fps : g_fps g = 25 \/ g_fps g = 30;
  r_dsc : str_ok 1 (g_dsc g);
  r_lc : str_ok 2 (g_lc g);
  r_opt : str_ok 32 (g_opt g);
  r_oet : str_ok 32 (g_oet g);
  r_tpt : str_ok 32 (g_tpt g);
  r_tet : str_ok 32 (g_tet g);
  r_tn : str_ok 32 (g_tn g);
  r_tcd : str_ok 32 (g_tcd g);
  r_slr : str_ok 16 (g_slr g);
  r_cd : date_ok (g_cd g);
  r_rd : date_ok (g_rd g);
  r_rn : 0 <= g_rn g < 100;
  r_tnb : 0 <= g_tnb g < 100000;
  r_tns : 0 <= g_tns g < 100000;
  r_tng : 0 <= g_tng g < 1000;
  r_mnc : 0 <= g_mnc g < 100;
  r_mnr : 0 <= g_mnr g < 100;
  r_tcs : str_ok 1 (g_tcs g);
  r_tcp : tc_instant (g_tcp g) (g_fps g);
  r_tcf : tc_instant (g_tcf g) (g_fps g);
  r_tnd : 0 <= g_tnd g < 10;
  r_dsn : 0 <= g_dsn g < 10;
  r_co : str_ok 3 (g_co g);
  r_pub : str_ok 32 (g_pub g);
  r_en : str_ok 32 (g_en g);
  r_ecd : str_ok 32 (g_ecd g);
  r_uda : g_uda g = []
}.

(* ================= the round trip ================= *)
Theorem gsi_roundtrip g : gsi_repr g -> parse_gsi (gsi_bytes g) = Ok g.
Proof.
  intros R.
  assert (S0 : stl_sl 0 3 (gsi_bytes g) = [(g_cpn g / 65536) mod 256; (g_cpn g / 256) mod 256; g_cpn g mod 256]%N)
    by exact (gsi_sl g 0 eq_refl).
  assert (S1 : stl_sl 3 8 (gsi_bytes g) = pad_right_cut stl_sp 8 (match zlookup (g_fps g) stl_framerate_inv with Some f => f | None => [] end))
    by exact (gsi_sl g 1 eq_refl).
  assert (S2 : stl_sl 11 1 (gsi_bytes g) = pad_right_cut stl_sp 1 (g_dsc g)) by exact (gsi_sl g 2 eq_refl).
  assert (S3 : stl_sl 12 2 (gsi_bytes g) = [(g_cct g / 256) mod 256; g_cct g mod 256]%N) by exact (gsi_sl g 3 eq_refl).
  assert (S4 : stl_sl 14 2 (gsi_bytes g) = pad_right_cut stl_sp 2 (g_lc g)) by exact (gsi_sl g 4 eq_refl).
  assert (S5 : stl_sl 16 32 (gsi_bytes g) = pad_right_cut stl_sp 32 (g_opt g)) by exact (gsi_sl g 5 eq_refl).
  assert (S6 : stl_sl 48 32 (gsi_bytes g) = pad_right_cut stl_sp 32 (g_oet g)) by exact (gsi_sl g 6 eq_refl).
  assert (S7 : stl_sl 80 32 (gsi_bytes g) = pad_right_cut stl_sp 32 (g_tpt g)) by exact (gsi_sl g 7 eq_refl).
  assert (S8 : stl_sl 112 32 (gsi_bytes g) = pad_right_cut stl_sp 32 (g_tet g)) by exact (gsi_sl g 8 eq_refl).
  assert (S9 : stl_sl 144 32 (gsi_bytes g) = pad_right_cut stl_sp 32 (g_tn g)) by exact (gsi_sl g 9 eq_refl).
  assert (S10 : stl_sl 176 32 (gsi_bytes g) = pad_right_cut stl_sp 32 (g_tcd g)) by exact (gsi_sl g 10 eq_refl).
  assert (S11 : stl_sl 208 16 (gsi_bytes g) = pad_right_cut stl_sp 16 (g_slr g)) by exact (gsi_sl g 11 eq_refl).
  assert (S12 : stl_sl 224 6 (gsi_bytes g) = pad_right_cut stl_sp 6 (g_cd g)) by exact (gsi_sl g 12 eq_refl).
  assert (S13 : stl_sl 230 6 (gsi_bytes g) = pad_right_cut stl_sp 6 (g_rd g)) by exact (gsi_sl g 13 eq_refl).
  assert (S14 : stl_sl 236 2 (gsi_bytes g) = pad_left_cut 48%N 2 (itoa_z (g_rn g))) by exact (gsi_sl g 14 eq_refl).
  assert (S15 : stl_sl 238 5 (gsi_bytes g) = pad_left_cut 48%N 5 (itoa_z (g_tnb g))) by exact (gsi_sl g 15 eq_refl).
  assert (S16 : stl_sl 243 5 (gsi_bytes g) = pad_left_cut 48%N 5 (itoa_z (g_tns g))) by exact (gsi_sl g 16 eq_refl).
  assert (S17 : stl_sl 248 3 (gsi_bytes g) = pad_left_cut 48%N 3 (itoa_z (g_tng g))) by exact (gsi_sl g 17 eq_refl).
  assert (S18 : stl_sl 251 2 (gsi_bytes g) = pad_left_cut 48%N 2 (itoa_z (g_mnc g))) by exact (gsi_sl g 18 eq_refl).
  assert (S19 : stl_sl 253 2 (gsi_bytes g) = pad_left_cut 48%N 2 (itoa_z (g_mnr g))) by exact (gsi_sl g 19 eq_refl).
  assert (S20 : stl_sl 255 1 (gsi_bytes g) = pad_right_cut stl_sp 1 (g_tcs g)) by exact (gsi_sl g 20 eq_refl).
  assert (S21 : stl_sl 256 8 (gsi_bytes g) = pad_right_cut stl_sp 8 (format_stl (g_tcp g) (g_fps g))) by exact (gsi_sl g 21 eq_refl).
  assert (S22 : stl_sl 264 8 (gsi_bytes g) = pad_right_cut stl_sp 8 (format_stl (g_tcf g) (g_fps g))) by exact (gsi_sl g 22 eq_refl).
  assert (S23 : stl_sl 272 1 (gsi_bytes g) = pad_right_cut stl_sp 1 (itoa_z (g_tnd g))) by exact (gsi_sl g 23 eq_refl).
  assert (S24 : stl_sl 273 1 (gsi_bytes g) = pad_right_cut stl_sp 1 (itoa_z (g_dsn g))) by exact (gsi_sl g 24 eq_refl).
  assert (S25 : stl_sl 274 3 (gsi_bytes g) = pad_right_cut stl_sp 3 (g_co g)) by exact (gsi_sl g 25 eq_refl).
  assert (S26 : stl_sl 277 32 (gsi_bytes g) = pad_right_cut stl_sp 32 (g_pub g)) by exact (gsi_sl g 26 eq_refl).
  assert (S27 : stl_sl 309 32 (gsi_bytes g) = pad_right_cut stl_sp 32 (g_en g)) by exact (gsi_sl g 27 eq_refl).
  assert (S28 : stl_sl 341 32 (gsi_bytes g) = pad_right_cut stl_sp 32 (g_ecd g)) by exact (gsi_sl g 28 eq_refl).
  assert (S29 : stl_sl 373 651 (gsi_bytes g) = repeat stl_sp 651) by exact (gsi_sl g 29 eq_refl).
  pose proof (gsi_bytes_length g) as Lb.
  remember (gsi_bytes g) as b eqn:Eb. clear Eb.
  (* single bytes *)
  pose proof (byte_at_slb 0 3 0 b eq_refl) as B0. rewrite S0 in B0. cbn [nth Nat.add] in B0.
  pose proof (byte_at_slb 0 3 1 b eq_refl) as B1. rewrite S0 in B1. cbn [nth Nat.add] in B1.
  pose proof (byte_at_slb 0 3 2 b eq_refl) as B2. rewrite S0 in B2. cbn [nth Nat.add] in B2.
  pose proof (byte_at_slb 12 2 0 b eq_refl) as B12. rewrite S3 in B12. cbn [nth Nat.add] in B12.
  pose proof (byte_at_slb 12 2 1 b eq_refl) as B13. rewrite S3 in B13. cbn [nth Nat.add] in B13.
  pose proof (byte_at_slb 272 1 0 b eq_refl) as B272. rewrite S23 in B272. cbn [Nat.add] in B272.
  pose proof (byte_at_slb 273 1 0 b eq_refl) as B273. rewrite S24 in B273. cbn [Nat.add] in B273.
  (* the user-defined area *)
  assert (U : trim_space (skipn 448 b) = []).
  { assert (E : skipn 373 b = repeat stl_sp 651).
    { rewrite <- S29. unfold stl_sl. symmetry. apply firstn_all2. rewrite skipn_length, Lb. reflexivity. }
    change (skipn 448 b) with (skipn (373 + 75) b). rewrite <- skipn_plus, E, skipn_repeat. apply trim_space_spaces. }
  destruct R as [Rcct Rcpn Rfps [Ldsc Tdsc] [Llc Tlc] [Lopt Topt] [Loet Toet] [Ltpt Ttpt] [Ltet Ttet] [Ltn Ttn] [Ltcd Ttcd]
    [Lslr Tslr] Rcd Rrd Rrn Rtnb Rtns Rtng Rmnc Rmnr [Ltcs Ttcs] Rtcp Rtcf Rtnd Rdsn [Lco Tco] [Lpub Tpub] [Len Ten] [Lecd Tecd] Ruda].
  unfold parse_gsi.
  rewrite S1, (dfc_field _ Rfps).
  rewrite S12, (date_field_pad _ Rcd). cbn [bind].
  rewrite S13, (date_field_pad _ Rrd). cbn [bind].
  rewrite S14, (num_field_pad2 _ Rrn). cbn [bind].
  rewrite S15, (num_field_pad5 _ Rtnb). cbn [bind].
  rewrite S16, (num_field_pad5 _ Rtns). cbn [bind].
  rewrite S17, (num_field_pad3 _ Rtng). cbn [bind].
  rewrite S18, (num_field_pad2 _ Rmnc). cbn [bind].
  rewrite S19, (num_field_pad2 _ Rmnr). cbn [bind].
  rewrite S21, (tc_field_pad _ _ Rfps Rtcp). cbn [bind].
  rewrite S22, (tc_field_pad _ _ Rfps Rtcf). cbn [bind].
  rewrite <- B272, (num_field_one _ Rtnd). cbn [bind].
  rewrite <- B273, (num_field_one _ Rdsn). cbn [bind].
  rewrite <- B0, <- B1, <- B2, <- B12, <- B13, (cct_bytes _ Rcct), (cpn_bytes _ Rcpn).
  rewrite S25, S2, S28, S27, S4, S6, S5, S26, S11, S20, S8, S7, S10, S9, U.
  rewrite (trim_pad _ _ Lco Tco), (trim_pad _ _ Ldsc Tdsc), (trim_pad _ _ Lecd Tecd), (trim_pad _ _ Len Ten),
    (trim_pad _ _ Llc Tlc), (trim_pad _ _ Loet Toet), (trim_pad _ _ Lopt Topt), (trim_pad _ _ Lpub Tpub),
    (trim_pad _ _ Lslr Tslr), (trim_pad _ _ Ltcs Ttcs), (trim_pad _ _ Ltet Ttet), (trim_pad _ _ Ltpt Ttpt),
    (trim_pad _ _ Ltcd Ttcd), (trim_pad _ _ Ltn Ttn).
  rewrite <- Ruda. destruct g. reflexivity.
Qed.

(* ================= a decidable form of representability ================= *)
Definition str_okb (w : nat) (s : str) : bool := Nat.leb (length s) w && str_eqb (trim_space s) s.
Definition date_okb (d : str) : bool := match d with [] => true | _ => date_valid d end.
Definition rangeb (lo hi v : Z) : bool := (lo <=? v) && (v <? hi).
Definition tc_instantb (t fps : Z) : bool :=
  let '(h, m, s, f) := stl_fields t fps in
  rangeb 0 100 h && rangeb 0 60 m && rangeb 0 60 s && rangeb 0 fps f
  && (t =? h * hour_ns + m * minute_ns + s * second_ns + frames_ns f fps).
Definition gsi_reprb (g : gsi) : bool :=
  (g_cct g <? 65536)%N && (g_cpn g <? 16777216)%N && ((g_fps g =? 25) || (g_fps g =? 30))
  && str_okb 1 (g_dsc g) && str_okb 2 (g_lc g) && str_okb 32 (g_opt g) && str_okb 32 (g_oet g)
  && str_okb 32 (g_tpt g) && str_okb 32 (g_tet g) && str_okb 32 (g_tn g) && str_okb 32 (g_tcd g)
  && str_okb 16 (g_slr g) && date_okb (g_cd g) && date_okb (g_rd g)
  && rangeb 0 100 (g_rn g) && rangeb 0 100000 (g_tnb g) && rangeb 0 100000 (g_tns g) && rangeb 0 1000 (g_tng g)
  && rangeb 0 100 (g_mnc g) && rangeb 0 100 (g_mnr g) && str_okb 1 (g_tcs g)
  && tc_instantb (g_tcp g) (g_fps g) && tc_instantb (g_tcf g) (g_fps g)
  && rangeb 0 10 (g_tnd g) && rangeb 0 10 (g_dsn g) && str_okb 3 (g_co g)
  && str_okb 32 (g_pub g) && str_okb 32 (g_en g) && str_okb 32 (g_ecd g)
  && match g_uda g with [] => true | _ => false end.

Lemma str_okb_iff w s : str_okb w s = true <-> str_ok w s.
Proof.
  unfold str_okb, str_ok. rewrite andb_true_iff, Nat.leb_le, str_eqb_eq. reflexivity.
Qed.
Lemma date_okb_iff d : date_okb d = true <-> date_ok d.
Proof.
  unfold date_okb, date_ok. destruct d as [|c r]; split; intros H.
  - left. reflexivity.
  - reflexivity.
  - right. exact H.
  - destruct H as [H|H]; [discriminate | exact H].
Qed.
Lemma rangeb_iff lo hi v : rangeb lo hi v = true <-> lo <= v < hi.
Proof. unfold rangeb. rewrite andb_true_iff, Z.leb_le, Z.ltb_lt. reflexivity. Qed.
Lemma tc_instantb_sound t fps : tc_instantb t fps = true -> tc_instant t fps.
Proof.
  unfold tc_instantb. destruct (stl_fields t fps) as [[[h m] s] f]. intros H.
  apply andb_true_iff in H. destruct H as [H He]. apply andb_true_iff in H. destruct H as [H Hf].
  apply andb_true_iff in H. destruct H as [H Hs]. apply andb_true_iff in H. destruct H as [Hh Hm].
  apply rangeb_iff in Hh. apply rangeb_iff in Hm. apply rangeb_iff in Hs. apply rangeb_iff in Hf. apply Z.eqb_eq in He.
  exists h, m, s, f. repeat split; tauto.
Qed.
Lemma tc_instantb_complete t fps : (fps = 25 \/ fps = 30) -> tc_instant t fps -> tc_instantb t fps = true.
Proof.
  intros Hfps (h & m & s & f & Hh & Hm & Hs & Hf & ->). unfold tc_instantb.
  rewrite (tc_fields h m s f fps Hfps Hh Hm Hs Hf).
  apply (proj2 (rangeb_iff _ _ _)) in Hh. apply (proj2 (rangeb_iff _ _ _)) in Hm.
  apply (proj2 (rangeb_iff _ _ _)) in Hs. apply (proj2 (rangeb_iff _ _ _)) in Hf.
  rewrite Hh, Hm, Hs, Hf, Z.eqb_refl. reflexivity.
Qed.

Theorem gsi_reprb_sound g : gsi_reprb g = true -> gsi_repr g.
Proof.
  unfold gsi_reprb. intros H.
  repeat match goal with H : _ && _ = true |- _ => apply andb_true_iff in H; destruct H end.
  constructor;
    first [ apply str_okb_iff; assumption | apply date_okb_iff; assumption | apply rangeb_iff; assumption
          | apply tc_instantb_sound; assumption | apply N.ltb_lt; assumption | idtac ].
  - match goal with H : _ || _ = true |- _ => apply orb_true_iff in H; destruct H as [H|H]; apply Z.eqb_eq in H; [left | right]; exact H end.
  - destruct (g_uda g); [reflexivity | discriminate].
Qed.
Theorem gsi_reprb_complete g : gsi_repr g -> gsi_reprb g = true.
Proof.
  intros [Rcct Rcpn Rfps Rdsc Rlc Ropt Roet Rtpt Rtet Rtn Rtcd Rslr Rcd Rrd Rrn Rtnb Rtns Rtng Rmnc Rmnr Rtcs Rtcp Rtcf
          Rtnd Rdsn Rco Rpub Ren Recd Ruda].
  unfold gsi_reprb.
  apply N.ltb_lt in Rcct. apply N.ltb_lt in Rcpn.
  apply (tc_instantb_complete _ _ Rfps) in Rtcp. apply (tc_instantb_complete _ _ Rfps) in Rtcf.
  assert (Rf : (g_fps g =? 25) || (g_fps g =? 30) = true) by (destruct Rfps as [E|E]; rewrite E; reflexivity).
  repeat match goal with H : str_ok _ _ |- _ => apply str_okb_iff in H end.
  repeat match goal with H : date_ok _ |- _ => apply date_okb_iff in H end.
  repeat match goal with H : _ <= _ < _ |- _ => apply rangeb_iff in H end.
  rewrite Rcct, Rcpn, Rf, Rdsc, Rlc, Ropt, Roet, Rtpt, Rtet, Rtn, Rtcd, Rslr, Rcd, Rrd, Rrn, Rtnb, Rtns, Rtng, Rmnc, Rmnr,
    Rtcs, Rtcp, Rtcf, Rtnd, Rdsn, Rco, Rpub, Ren, Recd, Ruda. reflexivity.
Qed.
Corollary gsi_reprb_iff g : gsi_reprb g = true <-> gsi_repr g.
Proof. split; [apply gsi_reprb_sound | apply gsi_reprb_complete]. Qed.
Corollary gsi_roundtrip_b g : gsi_reprb g = true -> parse_gsi (gsi_bytes g) = Ok g.
Proof. intros H. apply gsi_roundtrip. apply gsi_reprb_sound. exact H. Qed.

(* ================= an instance ================= *)
(* code page 850, Latin table, FRA, created 2024-01-31, revised 2024-02-29, 30 frames per second, programme
   start 09:59:58:07, first cue 10:00:02:15; titles with inner spaces and non-ASCII first/last characters *)
Definition gsi_ex : gsi :=
  mkGsi stl_c_cctLatin stl_c_codePageMultilingual [70;82;65]%N [50;52;48;49;51;49]%N 1 [49]%N
    [101;100;105;116;111;114;64;101;120;97;109;112;108;101;46;111;114;103]%N
    [69;100;105;116;111;114;32;78;97;109;101]%N 30 [48;70]%N 40 23
    [69;112;105;115;111;100;101;32;49;58;32;108;39;195;169;116;195;169]%N
    [195;137;116;195;169;32;105;110;100;105;101;110]%N
    [80;117;98;108;105;115;104;101;114]%N [50;52;48;50;50;57]%N 3 [82;69;70;45;48;48;48;49]%N
    36002500000000 35998233333334 [49]%N 1 1 412 1234
    [69;112;105;115;111;100;101;32;49;58;32;115;117;109;109;101;114]%N
    [73;110;100;105;97;110;32;83;117;109;109;101;114]%N
    [43;51;51;32;49;32;50;51;32;52;53;32;54;55;32;56;57]%N
    [84;114;97;110;115;108;97;116;111;114;32;78;97;109;101]%N [].

Example gsi_repr_example : gsi_repr gsi_ex.
Proof. apply gsi_reprb_sound. vm_compute. reflexivity. Qed.
Example gsi_roundtrip_example : parse_gsi (gsi_bytes gsi_ex) = Ok gsi_ex.
Proof. vm_compute. reflexivity. Qed.
(* the first 16 bytes and the numeric/timecode area (offsets 224..273) of the written block *)
Example gsi_bytes_example :
  firstn 16 (gsi_bytes gsi_ex) = [56;53;48; 83;84;76;51;48;46;48;49; 49; 48;48; 48;70]%N
  /\ stl_sl 224 50 (gsi_bytes gsi_ex) =
     [50;52;48;49;51;49; 50;52;48;50;50;57; 48;51; 48;49;50;51;52; 48;48;52;49;50; 48;48;49; 52;48; 50;51; 49;
      48;57;53;57;53;56;48;55; 49;48;48;48;48;50;49;53; 49; 49]%N.
Proof. split; vm_compute; reflexivity. Qed.
(* the predicate is not vacuous in the other direction either: blocks outside it do not come back *)
Example gsi_not_repr_example :
  let g := mkGsi stl_c_cctLatin stl_c_codePageMultilingual [70;82;65]%N [] 1 [49]%N [] [] 25 [48;70]%N 40 23 [] [32;65]%N [] [] 0 []
                 0 0 [49]%N 1 1 0 0 [] [] [] [] [] in
  gsi_reprb g = false /\ parse_gsi (gsi_bytes g) <> Ok g.
Proof. split; [vm_compute; reflexivity | vm_compute; discriminate]. Qed.
