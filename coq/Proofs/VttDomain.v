(* WebVTT: the side conditions of the C02 theorems keep every cue-text line inside the domain on which the tokenizer
   model is declared faithful to golang.org/x/net/html ([vtt_line_simple], Model/Vtt.v): for the documents of
   [repr_vdoc] (write -> read) and for the renderings accepted by [rendering_okb] / [gcue_ok] (reading half). *)
From Coq Require Import List ZArith NArith Lia Bool Arith.
From Astisub Require Import Kit.Base Kit.Str Kit.Scan Kit.Html Model.Dur Model.Srt Model.Vtt.
From Astisub Require Import Proofs.SrtReadProofs Proofs.VttBase Proofs.VttLine Proofs.VttSimple Proofs.VttDoc Proofs.VttReadTime Proofs.VttReadLine
  Proofs.VttReadDoc Proofs.VttReadDec.
Import ListNotations.
Open Scope N_scope.

Lemma text_line_ok_repr l : text_line_ok l = true -> repr_vline l = true.
Proof. unfold text_line_ok. intros H. rewrite !andb_true_iff in H. tauto. Qed.

Lemma text_lines_simple ls : forallb text_line_ok ls = true -> forallb vtt_line_simple (text_lines ls) = true.
Proof.
  intros H. unfold text_lines. apply forallb_forall. intros x Hx. apply in_map_iff in Hx. destruct Hx as (l & <- & Hl).
  rewrite forallb_forall in H. apply written_line_simple, text_line_ok_repr, H, Hl.
Qed.

(* every text line the writer emits for a representable document *)
Theorem repr_vdoc_text_simple d so ro : repr_vdoc d so ro ->
  Forall (fun it => forallb vtt_line_simple (text_lines (vi_lines it)) = true) (vd_items d).
Proof.
  intros H. pose proof (rd_item _ _ _ H) as HF. apply Forall_forall. intros it Hit. rewrite Forall_forall in HF.
  destruct (HF it Hit) as (_ & _ & _ & _ & _ & Hl). apply text_lines_simple. exact Hl.
Qed.

(* every text line of a rendering: general side conditions ... *)
Theorem rendered_text_simple_gen regs (cues : list (crend * gcue)) : Forall (fun p => gcue_ok regs (snd p)) cues ->
  Forall (fun p => forallb vtt_line_simple (text_lines (gc_lines (snd p))) = true) cues.
Proof.
  intros HF. apply Forall_forall. intros p Hp. rewrite Forall_forall in HF.
  destruct (HF p Hp) as (_ & _ & _ & _ & _ & Hl). apply text_lines_simple. exact Hl.
Qed.
(* ... and the decidable check of C02_read_rendered *)
Theorem rendered_text_simple h g cues eof : rendering_okb h g cues eof = true ->
  Forall (fun p => forallb vtt_line_simple (text_lines (gc_lines (snd p))) = true) cues.
Proof.
  unfold rendering_okb. intros H. rewrite !andb_true_iff in H. destruct H as ((((_ & _) & H3) & _) & _).
  apply (rendered_text_simple_gen (denote_regions g)). revert H3. apply forallb_Forall. intros p Hp.
  apply andb_true_iff in Hp. destruct Hp as [A _]. apply gcue_okb_ok. exact A.
Qed.
