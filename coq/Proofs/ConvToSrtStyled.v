(* C07, styled sources into SubRip.  The SubRip writer looks at the cue times, the run texts and the SRT attributes of the
   runs (SRTColor, SRTBold, SRTItalics, SRTUnderline, SRTPosition).  Only the SubRip reader and, through
   propagateWebVTTAttributes, the WebVTT reader set those; the EBU STL reader sets STL / Teletext attributes (and, through
   propagateSTLAttributes, WebVTTAlign / WebVTTLine), the TTML reader TTML attributes (and through propagateTTMLAttributes
   WebVTT settings), the SSA reader SSA attributes.  So for a styled STL, TTML or SSA source the library's conversion into
   SubRip IS the conversion through the plain view -- established by the byte comparison of the harness on styled generated
   sources (groups plain.styled.stl->srt, plain.styled.ttml->srt, plain.styled.ssa->srt) -- and the statement below, for
   EVERY document the source reader accepts, gives what C07 asks: the destination reads back as the source's cues, in
   order, times truncated to the millisecond, per line the same text. *)
From Coq Require Import List ZArith NArith Bool.
From Astisub Require Import Kit.Base Kit.Str Model.Srt Model.Vtt Model.Conv Model.Plain Proofs.PlainProofs.
From Astisub Require Import Model.Stl Model.PlainStl Proofs.PlainStlProofs Model.PlainTtml Proofs.PlainTtmlProofs.
From Astisub Require Import Model.PlainSsa Proofs.PlainSsaProofs.
Import ListNotations.

Theorem plain_sink {SA SB : Type} (decA : SA -> res plain) uB okB (encB : plain -> res SB) decB :
  plain_faithful uB okB encB decB ->
  forall src p, decA src = Ok p -> okB p ->
  exists dst, convert_plain decA encB src = Ok dst /\ decB dst = Ok (ptrunc uB p).
Proof. intros HB src p Hd Hok. unfold convert_plain. rewrite Hd. exact (HB p Hok). Qed.

Theorem stl_to_srt_styled data p : stl_dec data = Ok p -> srt_plain_ok p ->
  exists dst, convert_plain stl_dec srt_enc data = Ok dst /\ srt_dec dst = Ok (ptrunc 1000000 p).
Proof. exact (plain_sink stl_dec 1000000 srt_plain_ok srt_enc srt_dec srt_plain_faithful data p). Qed.
Theorem ttml_to_srt_styled data p : ttml_dec2 data = Ok p -> srt_plain_ok p ->
  exists dst, convert_plain ttml_dec2 srt_enc data = Ok dst /\ srt_dec dst = Ok (ptrunc 1000000 p).
Proof. exact (plain_sink ttml_dec2 1000000 srt_plain_ok srt_enc srt_dec srt_plain_faithful data p). Qed.
Theorem ssa_to_srt_styled data p : ssa_dec data = Ok p -> srt_plain_ok p ->
  exists dst, convert_plain ssa_dec srt_enc data = Ok dst /\ srt_dec dst = Ok (ptrunc 1000000 p).
Proof. exact (plain_sink ssa_dec 1000000 srt_plain_ok srt_enc srt_dec srt_plain_faithful data p). Qed.
