(* C03: the content of a <p> (groups rendered as XML nodes, br between or inside elements, any indentation)
   is read by the TTML reader model as the tokens it means; lines and runs survive the token view. *)
From Coq Require Import List ZArith NArith Bool Lia ZifyBool ZifyN ZifyNat.
From Astisub Require Import Kit.Base Kit.Str Kit.Float64 Kit.Float64x Kit.Xml Model.Dur Model.Ttml Proofs.TtmlSpec.
Import ListNotations.
Open Scope N_scope.

(* ================= lines_of ================= *)
Lemma lines_of_nonnil ts : lines_of ts <> [].
Proof.
  induction ts as [|[|x] r IH]; cbn [lines_of]; [discriminate | discriminate |].
  destruct (lines_of r); discriminate.
Qed.

(* the simple form: a break separates the lines before it from the lines after it *)
Lemma lines_of_app_brk_app a b : lines_of (a ++ TBrk :: b) = lines_of a ++ lines_of b.
Proof.
  induction a as [|[|x] r IH]; cbn [app lines_of].
  - reflexivity.
  - rewrite IH. reflexivity.
  - rewrite IH. destruct (lines_of r) as [|l ls] eqn:E; [exfalso; exact (lines_of_nonnil r E)|]. reflexivity.
Qed.

Lemma lines_of_app_brk : forall a b, lines_of (a ++ TBrk :: b) =
   removelast (lines_of a) ++ [last (lines_of a) []] ++ lines_of b.
Proof.
  intros a b. rewrite lines_of_app_brk_app. rewrite app_assoc.
  rewrite <- (app_removelast_last [] (lines_of_nonnil a)). reflexivity.
Qed.

Lemma lines_of_map_run l : lines_of (map TRun l) = [l].
Proof. induction l as [|x l IH]; cbn [map lines_of]; [reflexivity|]. rewrite IH. reflexivity. Qed.

Lemma lines_of_runs_brk l b : lines_of (map TRun l ++ TBrk :: b) = l :: lines_of b.
Proof. rewrite lines_of_app_brk_app, lines_of_map_run. reflexivity. Qed.

Theorem lines_of_lines_toks : forall ls : list (list trun), ls <> [] -> lines_of (lines_toks ls) = ls.
Proof.
  induction ls as [|l r IH]; intros Hne; [contradiction|].
  destruct r as [|l' r'].
  - cbn [lines_toks]. apply lines_of_map_run.
  - change (lines_toks (l :: l' :: r')) with (map TRun l ++ TBrk :: lines_toks (l' :: r')).
    rewrite lines_of_runs_brk. rewrite IH by discriminate. reflexivity.
Qed.

(* ================= white space ================= *)
(* every piece of the "\n" split TrimLeft'ed and joined *)
Definition strip_all (s : str) : str := concat (map trim_left_xml (split_byte 10 s)).

Lemma is_ws_space c : is_ws c = true -> is_xml_space c = true.
Proof. unfold is_ws, is_xml_space. lia. Qed.
Lemma trim_left_xml_nil : trim_left_xml [] = []. Proof. reflexivity. Qed.

Lemma trim_left_space c r : is_xml_space c = true -> trim_left_xml (c :: r) = trim_left_xml r.
Proof. intros H. cbn [trim_left_xml]. rewrite H. reflexivity. Qed.

Lemma trim_space_nil : trim_space [] = [].
Proof. reflexivity. Qed.

Lemma strip_text_true s : strip_text true s = strip_all s.
Proof. unfold strip_text, strip_all. destruct (split_byte 10 s); reflexivity. Qed.

Lemma strip_text_nl b r : strip_text b (10 :: r) = strip_all r.
Proof.
  unfold strip_text, strip_all. cbn [split_byte].
  destruct (split_byte 10 r) as [|h t] eqn:E; [exfalso; exact (split_byte_nonnil _ _ E)|].
  rewrite N.eqb_refl. destruct b; reflexivity.
Qed.

Lemma strip_all_nil : strip_all [] = [].
Proof. reflexivity. Qed.

Lemma strip_all_cons_ws x s : is_ws x = true -> strip_all (x :: s) = strip_all s.
Proof.
  intros Hx. unfold strip_all. cbn [split_byte].
  destruct (split_byte 10 s) as [|h t] eqn:E; [exfalso; exact (split_byte_nonnil _ _ E)|].
  destruct (x =? 10) eqn:Ex; cbn [map concat].
  - rewrite trim_left_xml_nil. reflexivity.
  - rewrite (trim_left_space x h (is_ws_space x Hx)). reflexivity.
Qed.

Lemma strip_all_ws q s : forallb is_ws q = true -> strip_all (q ++ s) = strip_all s.
Proof.
  induction q as [|x q IH]; intros H; [reflexivity|].
  cbn [forallb] in H. apply andb_true_iff in H. destruct H as [Hx Hq].
  cbn [app]. rewrite (strip_all_cons_ws x _ Hx). exact (IH Hq).
Qed.

Lemma strip_all_ws_nil q : forallb is_ws q = true -> strip_all q = [].
Proof. intros H. rewrite <- (app_nil_r q). rewrite (strip_all_ws q [] H). reflexivity. Qed.

Lemma no_nl_notin t : no_nl t = true -> ~ In 10 t.
Proof.
  unfold no_nl. intros H Hin. apply negb_true_iff in H.
  assert (E : existsb (N.eqb 10) t = true).
  { apply existsb_exists. exists 10. split; [exact Hin | apply N.eqb_refl]. }
  rewrite E in H. discriminate.
Qed.

Lemma is_indent_cons c r : is_indent (c :: r) = true -> c = 10 /\ forallb is_ws r = true.
Proof.
  cbn [is_indent]. intros H. apply andb_true_iff in H. destruct H as [Hc Hr].
  apply N.eqb_eq in Hc. split; assumption.
Qed.

Lemma is_indent_ws w : is_indent w = true -> forallb is_ws w = true.
Proof.
  destruct w as [|c r]; [reflexivity|]. intros H. apply is_indent_cons in H. destruct H as [Hc Hr].
  subst c. cbn [forallb]. rewrite Hr. reflexivity.
Qed.

Lemma strip_all_text_post t w : no_nl t = true -> is_indent w = true -> strip_all (t ++ w) = trim_left_xml t.
Proof.
  intros Ht Hw. apply no_nl_notin in Ht. destruct w as [|c r].
  - rewrite app_nil_r. unfold strip_all. rewrite (split_byte_none 10 t Ht). cbn [map concat]. apply app_nil_r.
  - apply is_indent_cons in Hw. destruct Hw as [Hc Hr]. subst c.
    unfold strip_all. rewrite (split_byte_app 10 t r Ht). cbn [map concat].
    change (concat (map trim_left_xml (split_byte 10 r))) with (strip_all r).
    rewrite (strip_all_ws_nil r Hr). apply app_nil_r.
Qed.

(* indentation disappears, whatever its position *)
Lemma strip_true_indent w : is_indent w = true -> strip_text true w = [].
Proof. intros H. rewrite strip_text_true. apply strip_all_ws_nil. apply is_indent_ws. exact H. Qed.

Lemma strip_false_indent w : is_indent w = true -> strip_text false w = [].
Proof.
  destruct w as [|c r]; intros H; [reflexivity|]. apply is_indent_cons in H. destruct H as [Hc Hr]. subst c.
  rewrite strip_text_nl. apply strip_all_ws_nil. exact Hr.
Qed.

Lemma piece_ok_parts p : piece_ok p = true ->
  is_indent (p_pre p) = true /\ is_indent (p_post p) = true /\ no_nl (p_text p) = true
  /\ (p_pre p = [] \/ trim_left_xml (p_text p) = p_text p).
Proof.
  unfold piece_ok. intros H. apply andb_true_iff in H. destruct H as [H H4].
  apply andb_true_iff in H. destruct H as [H H3]. apply andb_true_iff in H. destruct H as [H1 H2].
  repeat split; try assumption.
  apply orb_true_iff in H4. destruct H4 as [H4|H4].
  - left. destruct (p_pre p); [reflexivity | discriminate].
  - right. apply str_eqb_eq. exact H4.
Qed.

(* a piece after a tag: only its text stays *)
Lemma piece_strip_false p : piece_ok p = true -> strip_text false (piece_str p) = p_text p.
Proof.
  intros H. apply piece_ok_parts in H. destruct H as (H1 & H2 & H3 & H4). unfold piece_str.
  destruct (p_pre p) as [|c q] eqn:Epre.
  - cbn [app]. pose proof (no_nl_notin _ H3) as Hn. destruct (p_post p) as [|c r] eqn:Epost.
    + rewrite app_nil_r. unfold strip_text. rewrite (split_byte_none 10 _ Hn). cbn [map concat]. apply app_nil_r.
    + apply is_indent_cons in H2. destruct H2 as [Hc Hr]. subst c.
      unfold strip_text. rewrite (split_byte_app 10 _ r Hn).
      change (concat (map trim_left_xml (split_byte 10 r))) with (strip_all r).
      rewrite (strip_all_ws_nil r Hr). apply app_nil_r.
  - destruct H4 as [H4|H4]; [discriminate|].
    apply is_indent_cons in H1. destruct H1 as [Hc Hq]. subst c.
    cbn [app]. rewrite strip_text_nl. rewrite (strip_all_ws q _ Hq).
    rewrite (strip_all_text_post _ _ H3 H2). exact H4.
Qed.

(* a piece that starts the paragraph: the same, when its text does not start with white space *)
Lemma piece_strip_true p : piece_ok p = true -> trim_left_xml (p_text p) = p_text p ->
  strip_text true (piece_str p) = p_text p.
Proof.
  intros H Ht. apply piece_ok_parts in H. destruct H as (H1 & H2 & H3 & _). unfold piece_str.
  rewrite strip_text_true. rewrite (strip_all_ws _ _ (is_indent_ws _ H1)).
  rewrite (strip_all_text_post _ _ H3 H2). exact Ht.
Qed.

(* ================= strip_content of a rendering ================= *)
Lemma strip_content_map kids :
  (forall s r, kids = XText s :: r -> strip_text true s = strip_text false s) ->
  strip_content kids = map strip_node kids.
Proof.
  intros H. destruct kids as [|[s|nm a ks] r]; [reflexivity | | reflexivity].
  cbn [strip_content map strip_node]. rewrite (H s r eq_refl). reflexivity.
Qed.

Lemma indent_strip_eq w : is_indent w = true -> strip_text true w = strip_text false w.
Proof. intros H. rewrite (strip_true_indent w H), (strip_false_indent w H). reflexivity. Qed.

Lemma text_kids_first w rest s r : is_indent w = true -> w <> [] ->
  text_kids w ++ rest = XText s :: r -> strip_text true s = strip_text false s.
Proof.
  intros Hw Hne E. destruct w as [|c w']; [contradiction|]. cbn [text_kids app] in E.
  injection E as E1 E2. subst s. apply indent_strip_eq. exact Hw.
Qed.

Lemma group_ok_GText p : group_ok (GText p) = true ->
  piece_ok p = true /\ trim_left_xml (p_text p) = p_text p /\ blank_xml (p_text p) = false.
Proof.
  cbn [group_ok]. intros H. apply andb_true_iff in H. destruct H as [H H3].
  apply andb_true_iff in H. destruct H as [H1 H2]. apply str_eqb_eq in H2.
  repeat split; try assumption. apply negb_true_iff in H3. exact H3.
Qed.

Lemma group_ok_GSpan w nm al p0 ps : group_ok (GSpan w nm al p0 ps) = true ->
  is_indent w = true /\ is_br (x_local nm) = false /\ piece_ok p0 = true
  /\ forallb (fun bp => piece_ok (snd bp)) ps = true /\ exists ta, tt_read_attrs al = Some ta.
Proof.
  cbn [group_ok]. intros H. apply andb_true_iff in H. destruct H as [H H5].
  apply andb_true_iff in H. destruct H as [H H4]. apply andb_true_iff in H. destruct H as [H H3].
  apply andb_true_iff in H. destruct H as [H1 H2]. apply negb_true_iff in H2.
  repeat split; try assumption.
  destruct (tt_read_attrs al) as [ta|]; [exists ta; reflexivity | discriminate].
Qed.

Lemma render_first gs wl : forallb group_ok gs = true -> is_indent wl = true ->
  forall s r, render_content gs wl = XText s :: r -> strip_text true s = strip_text false s.
Proof.
  intros Hg Hw s r E. unfold render_content in E. destruct gs as [|g gs'].
  - cbn [flat_map app] in E. destruct wl as [|c w]; [discriminate|].
    rewrite <- (app_nil_r (text_kids (c :: w))) in E.
    apply (text_kids_first _ _ _ _ Hw) in E; [exact E | discriminate].
  - cbn [flat_map forallb] in *. apply andb_true_iff in Hg. destruct Hg as [Hg _].
    rewrite <- app_assoc in E.
    destruct g as [w sp|p|w nm al p0 ps]; cbn [group_nodes] in E.
    + cbn [group_ok] in Hg. destruct w as [|c w'].
      * cbn [text_kids app] in E. discriminate.
      * rewrite <- app_assoc in E. apply (text_kids_first _ _ _ _ Hg) in E; [exact E | discriminate].
    + cbn [app] in E. injection E as E1 E2. subst s.
      apply group_ok_GText in Hg. destruct Hg as (H1 & H2 & _).
      rewrite (piece_strip_true p H1 H2), (piece_strip_false p H1). reflexivity.
    + apply group_ok_GSpan in Hg. destruct Hg as (H1 & _). destruct w as [|c w'].
      * cbn [text_kids app] in E. discriminate.
      * rewrite <- app_assoc in E. apply (text_kids_first _ _ _ _ H1) in E; [exact E | discriminate].
Qed.

(* ================= items ================= *)
(* the chardata of an element whose content is p0 <br/> p1 <br/> ... *)
Definition span_text (p0 : piece) (ps : list (str * piece)) : str :=
  p_text p0 ++ flat_map (fun bp => 10 :: p_text (snd bp)) ps.
Definition group_items (g : group) : list initem :=
  match g with
  | GBr _ _ => [mkIn s_br [] no_attrs []]
  | GText p => [mkIn [] [] no_attrs (p_text p)]
  | GSpan _ nm al p0 ps =>
    [mkIn (x_local nm) (attr_str s_style al)
          (match tt_read_attrs al with Some ta => ta | None => no_attrs end) (span_text p0 ps)]
  end.

Lemma items_indent w rest : is_indent w = true -> items_of (map strip_node (text_kids w) ++ rest) = items_of rest.
Proof.
  intros H. destruct w as [|c r]; [reflexivity|].
  cbn [text_kids map strip_node app]. rewrite (strip_false_indent _ H). cbn [items_of].
  change (blank_xml []) with true. destruct (items_of rest); reflexivity.
Qed.

Lemma item_text_kids s : tt_item_text (map strip_node (text_kids s)) = strip_text false s.
Proof.
  destruct s as [|c r]; [reflexivity|]. cbn [text_kids map strip_node]. unfold tt_item_text. cbn [flat_map].
  apply app_nil_r.
Qed.

Lemma item_text_app a b : tt_item_text (a ++ b) = tt_item_text a ++ tt_item_text b.
Proof. unfold tt_item_text. apply flat_map_app. Qed.

Lemma item_text_cons_br sp l : tt_item_text (strip_node (mk_br sp) :: l) = 10 :: tt_item_text l.
Proof. reflexivity. Qed.

Lemma item_text_span p0 ps : piece_ok p0 = true -> forallb (fun bp => piece_ok (snd bp)) ps = true ->
  tt_item_text (map strip_node (span_kids p0 ps)) = span_text p0 ps.
Proof.
  intros H0 Hps. unfold span_kids, span_text.
  rewrite map_app, item_text_app, item_text_kids, (piece_strip_false p0 H0). f_equal.
  induction ps as [|[sp p] ps IH]; [reflexivity|].
  cbn [forallb snd] in Hps. apply andb_true_iff in Hps. destruct Hps as [Hp Hps].
  cbn [flat_map fst snd]. cbn [app map]. rewrite item_text_cons_br.
  rewrite map_app, item_text_app, item_text_kids, (piece_strip_false p Hp), (IH Hps). reflexivity.
Qed.

Lemma piece_ok_no_nl p : piece_ok p = true -> ~ In 10 (p_text p).
Proof. intros H. apply piece_ok_parts in H. destruct H as (_ & _ & H3 & _). apply no_nl_notin. exact H3. Qed.

Lemma split_span t0 (ps : list (str * piece)) : ~ In 10 t0 -> forallb (fun bp => piece_ok (snd bp)) ps = true ->
  split_byte 10 (t0 ++ flat_map (fun bp => 10 :: p_text (snd bp)) ps) = t0 :: map (fun bp => p_text (snd bp)) ps.
Proof.
  revert t0. induction ps as [|[sp p] ps IH]; intros t0 H0 Hps.
  - cbn [flat_map map]. rewrite app_nil_r. apply split_byte_none. exact H0.
  - cbn [forallb snd] in Hps. apply andb_true_iff in Hps. destruct Hps as [Hp Hps].
    cbn [flat_map map snd]. cbn [app]. rewrite (split_byte_app 10 t0 _ H0).
    rewrite (IH (p_text p) (piece_ok_no_nl p Hp) Hps). reflexivity.
Qed.

Lemma items_group g rest l : group_ok g = true -> items_of rest = Some l ->
  items_of (map strip_node (group_nodes g) ++ rest) = Some (group_items g ++ l).
Proof.
  intros Hg Hr. destruct g as [w sp|p|w nm al p0 ps]; cbn [group_nodes group_items].
  - cbn [group_ok] in Hg. rewrite map_app, <- app_assoc, (items_indent _ _ Hg).
    cbn [map app]. change (strip_node (mk_br sp)) with (XElem (mkName sp s_br) [] []).
    cbn [items_of]. change (tt_read_attrs []) with (Some no_attrs). rewrite Hr. reflexivity.
  - apply group_ok_GText in Hg. destruct Hg as (H1 & H2 & H3).
    cbn [map strip_node app]. rewrite (piece_strip_false p H1). cbn [items_of]. rewrite Hr.
    rewrite H3. reflexivity.
  - apply group_ok_GSpan in Hg. destruct Hg as (H1 & H2 & H3 & H4 & ta & H5).
    rewrite map_app, <- app_assoc, (items_indent _ _ H1).
    cbn [map strip_node app]. cbn [items_of]. rewrite H5, Hr, (item_text_span p0 ps H3 H4). reflexivity.
Qed.

Lemma items_render gs wl : forallb group_ok gs = true -> is_indent wl = true ->
  items_of (map strip_node (render_content gs wl)) = Some (flat_map group_items gs).
Proof.
  intros Hg Hw. induction gs as [|g gs IH].
  - unfold render_content. cbn [flat_map app].
    rewrite <- (app_nil_r (map strip_node (text_kids wl))), (items_indent _ _ Hw). reflexivity.
  - cbn [forallb] in Hg. apply andb_true_iff in Hg. destruct Hg as [Hg Hgs].
    unfold render_content. cbn [flat_map]. rewrite <- app_assoc. fold (render_content gs wl).
    rewrite map_app. exact (items_group g _ _ Hg (IH Hgs)).
Qed.

(* ================= tokens ================= *)
Lemma group_items_toks g : group_ok g = true -> flat_map run_toks (group_items g) = group_toks g.
Proof.
  intros Hg. destruct g as [w sp|p|w nm al p0 ps]; cbn [group_items flat_map]; rewrite app_nil_r.
  - reflexivity.
  - apply group_ok_GText in Hg. destruct Hg as (H1 & _).
    unfold run_toks. cbn [in_local in_text in_style in_attrs]. change (is_br []) with false. cbv iota.
    rewrite (split_byte_none 10 _ (piece_ok_no_nl p H1)). reflexivity.
  - apply group_ok_GSpan in Hg. destruct Hg as (H1 & H2 & H3 & H4 & _).
    unfold run_toks. cbn [in_local in_text in_style in_attrs]. rewrite H2. unfold span_text.
    rewrite (split_span _ ps (piece_ok_no_nl p0 H3) H4).
    cbn [group_toks]. cbn [map join_brk]. rewrite !map_map. reflexivity.
Qed.

Lemma flat_items_toks gs : forallb group_ok gs = true ->
  flat_map run_toks (flat_map group_items gs) = flat_map group_toks gs.
Proof.
  induction gs as [|g gs IH]; intros Hg; [reflexivity|].
  cbn [forallb] in Hg. apply andb_true_iff in Hg. destruct Hg as [Hg Hgs].
  cbn [flat_map]. rewrite flat_map_app, (group_items_toks g Hg), (IH Hgs). reflexivity.
Qed.

(* 1: every rendering of the groups (br between or inside elements, any indentation) is read as the tokens it means *)
Theorem content_read : forall gs wl, content_ok gs wl = true ->
  exists its, items_of (strip_content (render_content gs wl)) = Some its /\
              flat_map run_toks its = flat_map group_toks gs.
Proof.
  intros gs wl H. unfold content_ok in H. apply andb_true_iff in H. destruct H as [H Hw].
  apply andb_true_iff in H. destruct H as [Hg _].
  exists (flat_map group_items gs). split.
  - rewrite (strip_content_map _ (render_first gs wl Hg Hw)). exact (items_render gs wl Hg Hw).
  - exact (flat_items_toks gs Hg).
Qed.

(* the lines the reader builds from a rendering are the lines of the tokens the groups mean *)
Corollary content_lines gs wl : content_ok gs wl = true ->
  exists its, items_of (strip_content (render_content gs wl)) = Some its /\
              lines_of (flat_map run_toks its) = lines_of (flat_map group_toks gs).
Proof.
  intros H. destruct (content_read gs wl H) as (its & H1 & H2). exists its. split; [exact H1|]. rewrite H2. reflexivity.
Qed.

Print Assumptions content_read.
Print Assumptions lines_of_lines_toks.
Print Assumptions lines_of_app_brk.
