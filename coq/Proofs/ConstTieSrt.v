(* Constants of the Go source tied to the literals of Model.Srt (see Proofs/ConstTie.v). *)
From Coq Require Import List NArith ZArith Bool.
From Astisub Require Import Kit.Base Kit.Str Gen.Consts Proofs.ConstTie Model.Srt.
Import ListNotations.
Open Scope N_scope.

Module SrtTie.
Import Model.Srt.
Definition ties : list bool :=
  [ eqs arrow gc_srtTimeBoundariesSeparator
  ; all (map (fun p => match p with (CI 0, _) => true | (CI z, CI 0) => Z.eqb z (Z.of_N (nth 0 bom 0)) || Z.eqb z (Z.of_N (nth 1 bom 0)) || Z.eqb z (Z.of_N (nth 2 bom 0)) | _ => false end) gc_lit_BytesBOM)
  ; Nat.eqb (length gc_lit_BytesBOM) 3 ].
Lemma consts_from_source : all ties = true.
Proof. vm_compute. reflexivity. Qed.
End SrtTie.
