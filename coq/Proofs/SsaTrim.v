(* White-space trimming next to an ASCII byte: what the reader's TrimSpace calls do to the lines the SSA writer
   emits.  The multi-byte white-space sequences consist of bytes >= 128, so an ASCII byte shields what is on its
   other side. *)
From Coq Require Import List NArith Bool Lia.
From Astisub Require Import Kit.Base Kit.Str Proofs.VttBase.
Import ListNotations.
Open Scope N_scope.

Lemma prefix_app_barrier q : forall a c rest r, prefix q (a ++ c :: rest) = Some r ->
  (exists r', prefix q a = Some r') \/ In c q.
Proof.
  induction q as [|x q IH]; intros a c rest r H; [left; exists a; reflexivity|].
  destruct a as [|y a]; cbn [app prefix] in *.
  - destruct (x =? c) eqn:E; [|discriminate]. apply N.eqb_eq in E. right. left. exact E.
  - destruct (x =? y); [|discriminate]. destruct (IH a c rest r H) as [(r' & Hr)|Hin]; [left; exists r'; exact Hr | right; right; exact Hin].
Qed.

Lemma strip_any_barrier seqs a c rest :
  Forall (fun q => ~ In c q) seqs -> strip_any seqs a = None -> strip_any seqs (a ++ c :: rest) = None.
Proof.
  induction seqs as [|q seqs IH]; intros HF H; [reflexivity|]. inversion HF as [|? ? Hq Hs]; subst.
  cbn [strip_any] in *. destruct (prefix q a) as [r|] eqn:E; [discriminate|].
  destruct (prefix q (a ++ c :: rest)) as [r|] eqn:E2.
  - destruct (prefix_app_barrier q a c rest r E2) as [(r' & Hr)|Hin]; [congruence | contradiction].
  - apply IH; assumption.
Qed.

Definition high (q : str) : Prop := Forall (fun b => 128 <= b) q.
Lemma space_seqs_high : Forall high space_seqs.
Proof. unfold space_seqs, high. repeat constructor; lia. Qed.
Lemma space_seqs_rev_high : Forall high (map (@rev N) space_seqs).
Proof. unfold space_seqs, high. cbn [map rev app]. repeat constructor; lia. Qed.
Lemma high_not_in c seqs : c < 128 -> Forall high seqs -> Forall (fun q => ~ In c q) seqs.
Proof.
  intros Hc HF. apply Forall_forall. intros q Hq Hin. rewrite Forall_forall in HF. specialize (HF q Hq).
  unfold high in HF. rewrite Forall_forall in HF. specialize (HF c Hin). lia.
Qed.

Lemma strip_space1_rev_barrier a c rest : a <> [] -> c < 128 ->
  strip_space1_rev a = None -> strip_space1_rev (a ++ c :: rest) = None.
Proof.
  intros Hne Hc H. destruct a as [|z t]; [contradiction|]. cbn [app]. unfold strip_space1_rev in *.
  destruct (is_ascii_space z); [discriminate|]. destruct (z <? 128); [reflexivity|].
  change (z :: t ++ c :: rest) with ((z :: t) ++ c :: rest).
  apply strip_any_barrier; [apply high_not_in; [exact Hc | exact space_seqs_rev_high] | exact H].
Qed.
Lemma strip_space1_barrier a c rest : a <> [] -> c < 128 ->
  strip_space1 a = None -> strip_space1 (a ++ c :: rest) = None.
Proof.
  intros Hne Hc H. destruct a as [|z t]; [contradiction|]. cbn [app]. unfold strip_space1 in *.
  destruct (is_ascii_space z); [discriminate|]. destruct (z <? 128); [reflexivity|].
  change (z :: t ++ c :: rest) with ((z :: t) ++ c :: rest).
  apply strip_any_barrier; [apply high_not_in; [exact Hc | exact space_seqs_high] | exact H].
Qed.

(* a string that trimming leaves alone has no strippable end *)
Lemma trim_left_fixed_strip v : v <> [] -> trim_left v = v -> strip_space1 v = None.
Proof.
  intros Hne H. unfold trim_left in H. destruct v as [|c r]; [contradiction|]. cbn [length trim_left_fuel] in H.
  destruct (strip_space1 (c :: r)) as [r'|] eqn:E; [|reflexivity]. exfalso.
  pose proof (strip_space1_len _ _ E) as L1. pose proof (trim_left_fuel_len (length r) r') as L2.
  rewrite H in L2. lia.
Qed.
Lemma trim_right_fixed_strip v : v <> [] -> trim_right v = v -> strip_space1_rev (rev v) = None.
Proof.
  intros Hne H. unfold trim_right in H.
  assert (Hl : length (rev v) = length v) by apply rev_length.
  destruct (rev v) as [|c r] eqn:Er.
  { destruct v; [contradiction | cbn [length] in Hl; discriminate]. }
  rewrite <- Hl in H. cbn [length trim_right_fuel] in H.
  destruct (strip_space1_rev (c :: r)) as [r'|] eqn:E; [|reflexivity]. exfalso.
  pose proof (strip_space1_rev_len _ _ E) as L1. pose proof (trim_right_fuel_len (length r) r') as L2.
  assert (L3 : length (rev (trim_right_fuel (length r) r')) = length v) by (rewrite H; reflexivity).
  rewrite rev_length in L3. cbn [length] in Hl, L1. lia.
Qed.

Lemma trim_left_fuel_id f s : strip_space1 s = None -> trim_left_fuel f s = s.
Proof. intros H. destruct f; cbn [trim_left_fuel]; [reflexivity|]. rewrite H. reflexivity. Qed.
Lemma trim_right_fuel_id f s : strip_space1_rev s = None -> trim_right_fuel f s = s.
Proof. intros H. destruct f; cbn [trim_right_fuel]; [reflexivity|]. rewrite H. reflexivity. Qed.

Lemma trim_space_fixed_parts v : trim_space v = v -> trim_left v = v /\ trim_right v = v.
Proof.
  intros H. unfold trim_space in H.
  assert (L1 : (length (trim_right (trim_left v)) <= length (trim_left v))%nat) by apply trim_right_len.
  assert (L2 : (length (trim_left v) <= length v)%nat) by (unfold trim_left; apply trim_left_fuel_len).
  rewrite H in L1.
  assert (E : trim_left v = v).
  { unfold trim_left in *. destruct v as [|c r]; [reflexivity|]. cbn [length trim_left_fuel] in *.
    destruct (strip_space1 (c :: r)) as [r'|] eqn:Es; [|reflexivity]. exfalso.
    pose proof (strip_space1_len _ _ Es) as L3. pose proof (trim_left_fuel_len (length r) r') as L4. cbn [length] in *. lia. }
  split; [exact E|]. rewrite E in H. exact H.
Qed.

(* an ASCII byte to the left shields a string that trimming leaves alone *)
Lemma trim_right_barrier p c v : c < 128 -> v <> [] -> trim_right v = v -> trim_right (p ++ c :: v) = p ++ c :: v.
Proof.
  intros Hc Hne H.
  assert (E : rev (p ++ c :: v) = rev v ++ c :: rev p) by (rewrite rev_app_distr; cbn [rev]; rewrite <- app_assoc; reflexivity).
  assert (Hr : rev v <> []) by (intros Hr; apply Hne; rewrite <- (rev_involutive v), Hr; reflexivity).
  unfold trim_right. rewrite E. rewrite trim_right_fuel_id; [rewrite <- E; apply rev_involutive|].
  apply strip_space1_rev_barrier; [exact Hr | exact Hc | apply trim_right_fixed_strip; assumption].
Qed.

(* the forms met in the written document *)
Lemma trim_left_sp s : trim_left (32 :: s) = trim_left s.
Proof. unfold trim_left. cbn [length trim_left_fuel strip_space1 is_ascii_space]. reflexivity. Qed.
Lemma trim_space_sp_head s : trim_space (32 :: s) = trim_space s.
Proof. unfold trim_space. rewrite trim_left_sp. reflexivity. Qed.

(* header ++ c :: value, the header starting with a plain byte, the value left alone by trimming *)
Lemma trim_space_shielded h c v : h <> [] -> plain_byte (hd 0 h) = true -> c < 128 -> v <> [] -> trim_space v = v ->
  trim_space (h ++ c :: v) = h ++ c :: v.
Proof.
  intros Hh Hp Hc Hv Ht. unfold trim_space. destruct h as [|x h']; [contradiction|]. cbn [hd] in Hp. cbn [app].
  rewrite (trim_left_plain x _ Hp). change (x :: h' ++ c :: v) with ((x :: h') ++ c :: v).
  apply trim_right_barrier; [exact Hc | exact Hv | apply trim_space_fixed_parts; exact Ht].
Qed.


(* ---- a toolkit: strings whose two ends trimming leaves alone ---- *)
Definition left_fixed (s : str) : Prop := strip_space1 s = None.
Definition right_fixed (s : str) : Prop := strip_space1_rev (rev s) = None.
Lemma fixed_trim s : left_fixed s -> right_fixed s -> trim_space s = s.
Proof.
  intros Hl Hr. unfold trim_space, trim_left. rewrite (trim_left_fuel_id (length s) s Hl).
  unfold trim_right. rewrite (trim_right_fuel_id (length s) (rev s) Hr). apply rev_involutive.
Qed.
Lemma trim_fixed s : s <> [] -> trim_space s = s -> left_fixed s /\ right_fixed s.
Proof.
  intros Hne H. destruct (trim_space_fixed_parts s H) as [Hl Hr].
  split; [apply trim_left_fixed_strip; assumption | apply trim_right_fixed_strip; assumption].
Qed.
Lemma left_fixed_nil : left_fixed []. Proof. reflexivity. Qed.
Lemma right_fixed_nil : right_fixed []. Proof. reflexivity. Qed.
Lemma left_fixed_plain x q : plain_byte x = true -> left_fixed (x :: q).
Proof.
  unfold plain_byte, left_fixed, strip_space1. intros H. apply andb_true_iff in H. destruct H as [H1 H2].
  apply negb_true_iff in H1. rewrite H1, H2. reflexivity.
Qed.
Lemma right_fixed_plain p x : plain_byte x = true -> right_fixed (p ++ [x]).
Proof.
  unfold plain_byte, right_fixed. intros H. rewrite rev_app_distr. cbn [rev app]. unfold strip_space1_rev.
  apply andb_true_iff in H. destruct H as [H1 H2]. apply negb_true_iff in H1. rewrite H1, H2. reflexivity.
Qed.
Lemma left_fixed_barrier v c q : c < 128 -> v <> [] -> left_fixed v -> left_fixed (v ++ c :: q).
Proof. intros Hc Hne H. apply strip_space1_barrier; assumption. Qed.
Lemma right_fixed_barrier p c v : c < 128 -> v <> [] -> right_fixed v -> right_fixed (p ++ c :: v).
Proof.
  intros Hc Hne H. unfold right_fixed.
  assert (E : rev (p ++ c :: v) = rev v ++ c :: rev p) by (rewrite rev_app_distr; cbn [rev]; rewrite <- app_assoc; reflexivity).
  rewrite E. apply strip_space1_rev_barrier; [|exact Hc | exact H].
  intros Hr; apply Hne; rewrite <- (rev_involutive v), Hr; reflexivity.
Qed.

(* cells joined by commas: only the first and the last cell matter *)
Lemma right_fixed_join rest : forall p, rest <> [] -> trim_space (last rest []) = last rest [] ->
  right_fixed (p ++ 44 :: join [44] rest).
Proof.
  induction rest as [|y r IH]; intros p Hne Hl; [contradiction|]. destruct r as [|z r'].
  - cbn [join last] in *. destruct y as [|y0 y'].
    + apply right_fixed_plain. reflexivity.
    + apply (right_fixed_barrier p 44 (y0 :: y')); [reflexivity | discriminate | refine (proj2 (trim_fixed (y0 :: y') _ Hl)); discriminate].
  - change (join [44] (y :: z :: r')) with (y ++ [44] ++ join [44] (z :: r')). cbn [app].
    replace (p ++ 44 :: y ++ 44 :: join [44] (z :: r')) with ((p ++ 44 :: y) ++ 44 :: join [44] (z :: r'))
      by (rewrite <- app_assoc; reflexivity).
    apply IH; [discriminate | exact Hl].
Qed.
Lemma trim_join x rest : x <> [] -> trim_space x = x -> trim_space (last (x :: rest) []) = last (x :: rest) [] ->
  trim_space (join [44] (x :: rest)) = join [44] (x :: rest).
Proof.
  intros Hne Hx Hl. destruct rest as [|y r]; [exact Hx|].
  change (join [44] (x :: y :: r)) with (x ++ [44] ++ join [44] (y :: r)). cbn [app].
  apply fixed_trim.
  - apply (left_fixed_barrier x 44 (join [44] (y :: r))); [reflexivity | exact Hne | exact (proj1 (trim_fixed x Hne Hx))].
  - apply right_fixed_join; [discriminate | exact Hl].
Qed.

(* ---- the byte-order mark: none of its bytes occurs in a white-space sequence ---- *)
Lemma strip_space1_rev_barrier_gen a c rest : a <> [] -> Forall (fun q => ~ In c q) (map (@rev N) space_seqs) ->
  strip_space1_rev a = None -> strip_space1_rev (a ++ c :: rest) = None.
Proof.
  intros Hne Hc H. destruct a as [|z t]; [contradiction|]. cbn [app]. unfold strip_space1_rev in *.
  destruct (is_ascii_space z); [discriminate|]. destruct (z <? 128); [reflexivity|].
  change (z :: t ++ c :: rest) with ((z :: t) ++ c :: rest).
  apply strip_any_barrier; [exact Hc | exact H].
Qed.
Lemma bom_last_not_space : Forall (fun q => ~ In 191 q) (map (@rev N) space_seqs).
Proof.
  unfold space_seqs. cbn [map rev app]. repeat constructor; intros H; repeat (destruct H as [H|H]; [discriminate|]); exact H.
Qed.
Lemma trim_space_bom l : l <> [] -> trim_space l = l -> trim_space ([239; 187; 191] ++ l) = [239; 187; 191] ++ l.
Proof.
  intros Hne Ht. destruct (trim_fixed l Hne Ht) as [_ Hr]. apply fixed_trim; [reflexivity|].
  unfold right_fixed in *. rewrite rev_app_distr. cbn [rev app].
  apply strip_space1_rev_barrier_gen; [|exact bom_last_not_space | exact Hr].
  intros E. apply Hne. rewrite <- (rev_involutive l), E. reflexivity.
Qed.
