(* C03: the round trip through bytes: the writer's bytes, parsed by the XML parser model of Kit/XmlParse.v,
   read by the reader model. *)
From Coq Require Import List ZArith NArith Bool.
From Astisub Require Import Kit.Base Kit.Str Kit.Xml Kit.XmlParse Model.Dur Model.Ttml
  Proofs.TtmlSpec Proofs.TtmlDocSpec Proofs.TtmlDoc Proofs.XmlParseProofs.
Import ListNotations.

Theorem write_read_bytes : forall d ind, repr_doc d = true -> indent_ok ind = true ->
  exists b t, write_ttml_bytes ind d = Ok b /\ xml_parse b = Some t /\ read_ttml t = Ok (written_value d).
Proof.
  intros d ind Hr Hi. destruct (write_read d ind Hr Hi) as (t0 & Hw & Hread).
  assert (Hb : write_ttml_bytes ind d = Ok (print_node print_name ind 0 t0)) by (unfold write_ttml_bytes; rewrite Hw; reflexivity).
  destruct (parse_written d ind _ Hi Hb) as (t1 & Hw1 & Hp). rewrite Hw in Hw1. inversion Hw1; subst t1.
  exists (print_node print_name ind 0 t0), (indent_doc ind t0). auto.
Qed.
