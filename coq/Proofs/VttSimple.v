(* WebVTT proofs, part 4 (supplement): a written cue-text line lies in the domain on which the tokenizer model is
   declared faithful ([vtt_line_simple]): no comment token, no raw-text element, no self-closing tag, attribute values
   without '&' / CR, no '/' inside a start tag, no NUL. *)
From Coq Require Import List ZArith NArith Bool Lia Arith.
From Astisub Require Import Kit.Base Kit.Str Kit.Html Kit.Scan Model.Dur Model.Srt Model.Vtt
  Proofs.DurProofs Proofs.ScanProofs Proofs.SrtEscProofs Proofs.VttBase Proofs.VttLine.
Import ListNotations.
Open Scope N_scope.

(* [okc] (no '&', no CR), [nonul], [tag_html_ok], [tag_nonul] are defined in Proofs/VttLine.v: they are part of [rtag_ok] / [repr_vline] *)
Definition okv (kv : str * str) : Prop := forallb okc (snd kv) = true.

Lemma read_bare_val a : forall rest acc k r, forallb okc a = true -> forallb okc acc = true ->
  read_bare (a ++ 62 :: rest) acc = Some (k, r) -> forallb okc k = true.
Proof.
  induction a as [|c a IH]; intros rest acc k r Ha Hacc H.
  - cbn [app read_bare] in H. rewrite gt_not_ws in H. change (62 =? GT) with true in H. cbv iota in H. injection H as <- _.
    rewrite forallb_forall in *. intros x Hx. apply Hacc. apply in_rev. exact Hx.
  - cbn [forallb] in Ha. apply andb_true_iff in Ha. destruct Ha as [Hc Ha].
    cbn [app read_bare] in H. destruct (is_tag_ws c).
    + injection H as <- _. rewrite forallb_forall in *. intros x Hx. apply Hacc. apply in_rev. exact Hx.
    + destruct (c =? GT).
      * injection H as <- _. rewrite forallb_forall in *. intros x Hx. apply Hacc. apply in_rev. exact Hx.
      * apply (IH rest (c :: acc) k r Ha); [cbn [forallb]; rewrite Hc, Hacc; reflexivity | exact H].
Qed.

Lemma read_val_val a rest v r : forallb annot_char a = true -> forallb okc a = true ->
  read_val (a ++ 62 :: rest) = Some (v, r) -> forallb okc v = true.
Proof.
  intros Hac Ha H. unfold read_val in H.
  destruct (skip_ws_spec a rest) as (a0 & E0 & S0). rewrite E0 in H.
  pose proof (sfx_forallb _ _ _ S0 Hac) as Hac0. pose proof (sfx_forallb _ _ _ S0 Ha) as Ha0.
  destruct a0 as [|c a0'].
  - cbn [app] in H. change (negb (62 =? EQ)) with true in H. cbv iota in H. injection H as <- _. reflexivity.
  - cbn [app] in H. destruct (negb (c =? EQ)); [injection H as <- _; reflexivity|].
    cbn [forallb] in Hac0, Ha0. apply andb_true_iff in Hac0. apply andb_true_iff in Ha0. destruct Hac0 as [_ Hac0']. destruct Ha0 as [_ Ha0'].
    destruct (skip_ws_spec a0' rest) as (a2 & E2 & S2). rewrite E2 in H.
    pose proof (sfx_forallb _ _ _ S2 Hac0') as Hac2. pose proof (sfx_forallb _ _ _ S2 Ha0') as Ha2.
    destruct a2 as [|q a2'].
    + cbn [app] in H. change (62 =? GT) with true in H. cbv iota in H. injection H as <- _. reflexivity.
    + cbn [app] in H. pose proof Hac2 as Hq. cbn [forallb] in Hq. apply andb_true_iff in Hq. destruct Hq as [Hq _].
      destruct (annot_char_facts q Hq) as (_ & Q2 & Q3 & Q4). unfold GT in H. rewrite Q2, Q3, Q4 in H. cbn [orb] in H.
      change (q :: a2' ++ 62 :: rest) with ((q :: a2') ++ 62 :: rest) in H.
      exact (read_bare_val (q :: a2') rest [] v r Ha2 eq_refl H).
Qed.

Lemma read_attrs_vals : forall fuel a rest acc attrs r, forallb annot_char a = true -> forallb okc a = true ->
  Forall okv acc -> read_attrs fuel (a ++ 62 :: rest) acc = Some (attrs, r) -> Forall okv attrs.
Proof.
  induction fuel as [|fuel IH]; intros a rest acc attrs r Hac Ha Hacc H; [discriminate|].
  destruct a as [|c a'].
  - cbn [app read_attrs] in H. change (62 =? GT) with true in H. cbv iota in H. injection H as <- _.
    apply Forall_forall. intros x Hx. rewrite Forall_forall in Hacc. apply Hacc. apply in_rev. exact Hx.
  - pose proof Hac as Hac'. cbn [forallb] in Hac'. apply andb_true_iff in Hac'. destruct Hac' as [Hc _].
    destruct (annot_char_facts c Hc) as (_ & C2 & _ & _).
    cbn [app read_attrs] in H. unfold GT at 1 in H. rewrite C2 in H.
    change (c :: a' ++ 62 :: rest) with ((c :: a') ++ 62 :: rest) in H.
    destruct (read_key_spec (c :: a') rest [] Hac) as (k & a1 & E1 & S1). rewrite E1 in H.
    pose proof (sfx_forallb _ _ _ S1 Hac) as Hac1. pose proof (sfx_forallb _ _ _ S1 Ha) as Ha1.
    destruct (read_val_spec a1 rest Hac1) as (v & a3 & E3 & S3 & _). rewrite E3 in H.
    pose proof (read_val_val a1 rest v _ Hac1 Ha1 E3) as Hv.
    pose proof (sfx_forallb _ _ _ S3 Hac1) as Hac3. pose proof (sfx_forallb _ _ _ S3 Ha1) as Ha3.
    destruct (skip_ws_spec a3 rest) as (a4 & E4 & S4). rewrite E4 in H.
    pose proof (sfx_forallb _ _ _ S4 Hac3) as Hac4. pose proof (sfx_forallb _ _ _ S4 Ha3) as Ha4.
    assert (Hacc' : Forall okv (match k with [] => acc | _ :: _ => (to_lower k, v) :: acc end)).
    { destruct k; [exact Hacc | constructor; [exact Hv | exact Hacc]]. }
    destruct a4 as [|c4 a4']; cbn [app] in H.
    + exact (IH [] rest _ attrs r eq_refl eq_refl Hacc' H).
    + exact (IH (c4 :: a4') rest _ attrs r Hac4 Ha4 Hacc' H).
Qed.

Lemma read_tag_vals nm a rest n attrs r : forallb rn_char nm = true -> annot_ok a = true -> forallb okc a = true ->
  read_tag (nm ++ ann_part a ++ 62 :: rest) = Some (n, attrs, r) -> n = to_lower nm /\ Forall okv attrs.
Proof.
  intros Hn Hok Ha H. destruct (annot_ok_parts a Hok) as (Hac & _ & Hhd). unfold read_tag in H. destruct a as [|c a'].
  - cbn [ann_part app] in H. rewrite (read_name_gt nm rest [] Hn) in H. cbn [rev app skip_ws] in H. rewrite gt_not_ws in H.
    destruct (read_attrs _ (62 :: rest) []) as [[at_ r']|] eqn:E; [|discriminate]. injection H as <- <- <-.
    split; [reflexivity|]. exact (read_attrs_vals _ [] rest [] _ _ eq_refl eq_refl (Forall_nil _) E).
  - cbn [ann_part] in H. change ((32 :: c :: a') ++ 62 :: rest) with (32 :: ((c :: a') ++ 62 :: rest)) in H.
    rewrite (read_name_ws nm 32 _ [] Hn eq_refl) in H. cbn [rev app skip_ws] in H. rewrite Hhd in H.
    change (c :: a' ++ 62 :: rest) with ((c :: a') ++ 62 :: rest) in H.
    destruct (read_attrs _ ((c :: a') ++ 62 :: rest) []) as [[at_ r']|] eqn:E; [|discriminate]. injection H as <- <- <-.
    split; [reflexivity|]. exact (read_attrs_vals _ (c :: a') rest [] _ _ Hac Ha (Forall_nil _) E).
Qed.

(* ================= tokens of a written line ================= *)
Definition tok_good (t : htok) : bool := tok_simple t && match t with HStart _ _ raw => vtt_tag_simple raw | _ => true end.
Definition TokAll (s cur : str) : Prop := forall f, (length s < f)%nat -> forallb tok_good (tokenize_fuel f s cur) = true.

Lemma flush_good cur : forallb tok_good (flush cur) = true.
Proof. unfold flush. destruct cur; reflexivity. Qed.

Lemma TokAll_nil cur : TokAll [] cur.
Proof. intros f Hf. destruct f; [cbn [length] in Hf; lia|]. cbn [tokenize_fuel]. apply flush_good. Qed.

Lemma TokAll_char c s cur : (c =? 60) = false -> TokAll s (c :: cur) -> TokAll (c :: s) cur.
Proof.
  intros Hc H f Hf. destruct f; [lia|]. cbn [tokenize_fuel]. unfold LT. rewrite Hc. cbn [negb]. apply H. cbn [length] in Hf. lia.
Qed.

Lemma TokAll_text x s cur : nolt x = true -> TokAll s (rev x ++ cur) -> TokAll (x ++ s) cur.
Proof.
  revert cur. induction x as [|c x IH]; intros cur Hx H; [exact H|].
  unfold nolt in Hx. cbn [forallb] in Hx. apply andb_true_iff in Hx. destruct Hx as [Hc Hx]. apply negb_true_iff in Hc.
  cbn [app]. apply TokAll_char; [exact Hc|]. apply IH; [exact Hx|]. cbn [rev] in H. rewrite <- app_assoc in H. exact H.
Qed.

Lemma TokAll_lt_digit d s cur : is_digit d = true -> TokAll (d :: s) (60 :: cur) -> TokAll (60 :: d :: s) cur.
Proof.
  intros Hd H f Hf. destruct f; [lia|]. cbn [tokenize_fuel]. change (negb (60 =? LT)) with false. cbv iota.
  apply is_digit_range in Hd.
  assert (E1 : is_letter d = false).
  { unfold is_letter. apply orb_false_iff. split; apply andb_false_iff; left; apply N.leb_gt; lia. }
  rewrite E1. unfold SLASH. rewrite !eqb_false_of_neq by lia. cbn [orb].
  apply H. cbn [length] in *. lia.
Qed.

(* what makes a tag acceptable to the real tokenizer ([tag_html_ok], Proofs/VttLine.v): its element name (with the classes)
   is not a raw-text element, its annotation has no '&' and no CR *)

Lemma no_slash_in (s : str) (p : N -> bool) : (forall c, p c = true -> c <> 47) -> forallb p s = true -> existsb (N.eqb 47) s = false.
Proof.
  intros Hp H. destruct (existsb (N.eqb 47) s) eqn:E; [|reflexivity]. apply existsb_exists in E. destruct E as (x & Hx & Ex).
  apply N.eqb_eq in Ex. subst x. rewrite forallb_forall in H. exfalso. exact (Hp 47 (H 47 Hx) eq_refl).
Qed.

Lemma existsb_app' {A} (f : A -> bool) a b : existsb f (a ++ b) = existsb f a || existsb f b.
Proof. apply existsb_app. Qed.

Lemma TokAll_tag t s cur : tag_ok t = true -> tag_html_ok t = true -> TokAll s [] -> TokAll (tag_start t ++ s) cur.
Proof.
  intros Ht Hh H f Hf. destruct (tag_ok_parts t Ht) as (Hn & Hc & Ha).
  destruct (tag_name_ok_chars _ Hn) as (Hnc & d & r & En & Hd).
  unfold tag_html_ok in Hh. apply andb_true_iff in Hh. destruct Hh as [Hraw Hamp].
  assert (Hlen : (length s < length (tag_start t ++ s))%nat).
  { rewrite app_length. pose proof (tag_start_nonnil t Ht). destruct (tag_start t); [contradiction | cbn [length]; lia]. }
  rewrite tag_start_eq in * by (rewrite En; discriminate).
  destruct f as [|f]; [lia|].
  assert (Hrn : forallb rn_char (d :: (r ++ cls_part (vt_classes t))) = true).
  { change (d :: r ++ cls_part (vt_classes t)) with ((d :: r) ++ cls_part (vt_classes t)). rewrite <- En.
    rewrite forallb_app. rewrite (forallb_impl _ _ _ name_char_rn Hnc).
    rewrite (cls_part_forall rn_char _ eq_refl name_char_rn Hc). reflexivity. }
  destruct (tok_start d (r ++ cls_part (vt_classes t)) (vt_annot t) s cur f Hd Hrn Ha) as (name & attrs & E).
  replace ((60 :: vt_name t ++ cls_part (vt_classes t) ++ ann_part (vt_annot t) ++ [62]) ++ s)
    with (60 :: (d :: r ++ cls_part (vt_classes t)) ++ ann_part (vt_annot t) ++ 62 :: s)
    by (rewrite En; cbn [app]; rewrite <- !app_assoc; reflexivity).
  (* name and attributes, from the tag reader *)
  assert (Hna : name = to_lower (vt_name t ++ cls_part (vt_classes t)) /\ Forall okv attrs).
  { pose proof E as E'. cbn [tokenize_fuel] in E'. change (negb (60 =? LT)) with false in E'. cbv iota in E'.
    change ((d :: r ++ cls_part (vt_classes t)) ++ ann_part (vt_annot t) ++ 62 :: s)
      with (d :: ((r ++ cls_part (vt_classes t)) ++ ann_part (vt_annot t) ++ 62 :: s)) in E' at 1. cbv iota in E'. rewrite Hd in E'.
    change (d :: (r ++ cls_part (vt_classes t)) ++ ann_part (vt_annot t) ++ 62 :: s)
      with ((d :: r ++ cls_part (vt_classes t)) ++ ann_part (vt_annot t) ++ 62 :: s) in E'.
    destruct (read_tag_spec (d :: r ++ cls_part (vt_classes t)) (vt_annot t) s Hrn Ha) as (attrs0 & E0).
    rewrite E0 in E'. apply app_inv_head in E'.
    assert (Et : name = to_lower (d :: r ++ cls_part (vt_classes t)) /\ attrs = attrs0).
    { destruct (match rev _ with _ :: x :: _ => x =? SLASH | _ => false end) in E'; inversion E'; auto. }
    destruct Et as [-> ->]. destruct (read_tag_vals _ _ _ _ _ _ Hrn Ha Hamp E0) as [_ Hv].
    split; [rewrite En; reflexivity | exact Hv]. }
  destruct Hna as [-> Hattrs].
  rewrite E. rewrite forallb_app, flush_good. cbn [forallb andb]. rewrite (H f ltac:(lia)). rewrite andb_true_r.
  unfold tok_good, tok_simple. rewrite Hraw. cbn [andb].
  apply andb_true_iff. split.
  - apply forallb_forall. intros kv Hkv. rewrite Forall_forall in Hattrs. specialize (Hattrs kv Hkv). unfold okv in Hattrs.
    assert (H38 : existsb (N.eqb 38) (snd kv) = false /\ existsb (N.eqb 13) (snd kv) = false).
    { split; (destruct (existsb _ (snd kv)) eqn:Ex; [|reflexivity]); apply existsb_exists in Ex; destruct Ex as (x & Hx & Ex);
        apply N.eqb_eq in Ex; subst x; rewrite forallb_forall in Hattrs; specialize (Hattrs _ Hx); discriminate. }
    destruct H38 as [-> ->]. reflexivity.
  - unfold vtt_tag_simple.
    replace (60 :: (d :: r ++ cls_part (vt_classes t)) ++ ann_part (vt_annot t) ++ [62])
      with ([60] ++ (vt_name t ++ cls_part (vt_classes t)) ++ ann_part (vt_annot t) ++ [62])
      by (rewrite En; cbn [app]; rewrite <- !app_assoc; reflexivity).
    rewrite !existsb_app. cbn [existsb]. change (47 =? 60) with false. change (47 =? 62) with false. cbn [orb].
    destruct (annot_ok_parts _ Ha) as (Hac & _ & _).
    rewrite (no_slash_in (vt_name t) name_char) by (try exact Hnc; intros c Hc0 E0; subst c; discriminate).
    rewrite (no_slash_in (cls_part (vt_classes t)) rn_char)
      by (try exact (cls_part_forall rn_char _ eq_refl name_char_rn Hc); intros c Hc0 E0; subst c; discriminate).
    assert (Hann : existsb (N.eqb 47) (ann_part (vt_annot t)) = false).
    { unfold ann_part. destruct (vt_annot t) as [|c0 a0] eqn:Ea; [reflexivity|].
      change (existsb (N.eqb 47) (32 :: c0 :: a0)) with (existsb (N.eqb 47) (c0 :: a0)).
      apply (no_slash_in _ annot_char); [intros c Hc0 E0; subst c; discriminate | exact Hac]. }
    rewrite Hann. cbn [orb negb andb].
    rewrite En. cbn [app]. rewrite Hd. cbn [andb].
    replace (60 :: d :: (r ++ cls_part (vt_classes t)) ++ ann_part (vt_annot t) ++ [62])
      with ((60 :: d :: (r ++ cls_part (vt_classes t)) ++ ann_part (vt_annot t)) ++ [62])
      by (cbn [app]; rewrite <- !app_assoc; reflexivity).
    rewrite rev_app_distr. reflexivity.
Qed.

Lemma TokAll_endtag t s cur : tag_name_ok (vt_name t) = true -> TokAll s [] -> TokAll (tag_end t ++ s) cur.
Proof.
  intros Hn H f Hf. destruct (tag_name_ok_chars _ Hn) as (Hnc & d & r & En & Hd).
  rewrite tag_end_eq in * by (rewrite En; discriminate).
  destruct f as [|f]; [lia|].
  assert (Hrn : forallb rn_char (d :: r) = true) by (rewrite <- En; exact (forallb_impl _ _ _ name_char_rn Hnc)).
  destruct (tok_end d r s cur f Hd Hrn) as (name & E).
  replace ((60 :: 47 :: vt_name t ++ [62]) ++ s) with (60 :: 47 :: (d :: r) ++ 62 :: s)
    by (rewrite En; cbn [app]; rewrite <- !app_assoc; reflexivity).
  rewrite E. rewrite forallb_app, flush_good. cbn [forallb andb tok_good tok_simple]. apply H.
  rewrite app_length in Hf. cbn [length] in Hf. lia.
Qed.

Lemma TokAll_opens ts : forall s cur, forallb rtag_ok ts = true -> forallb tag_html_ok ts = true ->
  TokAll s (match ts with [] => cur | _ => [] end) -> TokAll (concat (map tag_start ts) ++ s) cur.
Proof.
  induction ts as [|t ts IH]; intros s cur H1 H2 H; [exact H|].
  cbn [forallb] in H1, H2. apply andb_true_iff in H1. apply andb_true_iff in H2. destruct H1 as [Ht H1]. destruct H2 as [Hh H2].
  cbn [map concat]. rewrite <- app_assoc. apply TokAll_tag; [apply rtag_ok_tag_ok; exact Ht | exact Hh|].
  apply IH; [exact H1 | exact H2|]. destruct ts; exact H.
Qed.

Lemma TokAll_closes ts : forall s cur, forallb (fun t => tag_name_ok (vt_name t)) ts = true ->
  TokAll s (match ts with [] => cur | _ => [] end) -> TokAll (concat (map tag_end ts) ++ s) cur.
Proof.
  induction ts as [|t ts IH]; intros s cur H1 H; [exact H|].
  cbn [forallb] in H1. apply andb_true_iff in H1. destruct H1 as [Ht H1].
  cbn [map concat]. rewrite <- app_assoc. apply TokAll_endtag; [exact Ht|].
  apply IH; [exact H1|]. destruct ts; exact H.
Qed.

Lemma TokAll_body r X cur : run_ok r = true -> (forall cur', TokAll X cur') -> TokAll (body r ++ X) cur.
Proof.
  intros Hok H. destruct (run_ok_parts r Hok) as (_ & _ & Ht & _).
  destruct (timed r) eqn:Et.
  - unfold body, ts_bytes. unfold timed in Et. rewrite Et.
    destruct (format_vtt_hd (vr_time r) ltac:(lia)) as (d & F' & EF & Hd).
    pose proof (nolt_format_vtt (vr_time r) ltac:(lia)) as HF. rewrite EF in *.
    replace ((([60] ++ (d :: F') ++ [62]) ++ escape_html (vr_text r)) ++ X)
      with (60 :: d :: (F' ++ 62 :: escape_html (vr_text r)) ++ X) by (cbn [app]; rewrite <- !app_assoc; reflexivity).
    apply TokAll_lt_digit; [exact Hd|].
    change (d :: (F' ++ 62 :: escape_html (vr_text r)) ++ X) with ((d :: F' ++ 62 :: escape_html (vr_text r)) ++ X).
    apply TokAll_text; [|apply H].
    change (d :: F' ++ 62 :: escape_html (vr_text r)) with ((d :: F') ++ [62] ++ escape_html (vr_text r)).
    apply nolt_app; [exact HF|]. apply nolt_app; [reflexivity | apply nolt_escape].
  - rewrite (body_untimed r Et). apply TokAll_text; [apply nolt_escape | apply H].
Qed.

Lemma forallb_skipn {A} (p : A -> bool) n l : forallb p l = true -> forallb p (skipn n l) = true.
Proof. intros H. rewrite <- (firstn_skipn n l), forallb_app in H. apply andb_true_iff in H. tauto. Qed.
Lemma forallb_rev {A} (p : A -> bool) l : forallb p l = true -> forallb p (rev l) = true.
Proof. intros H. rewrite forallb_forall in *. intros x Hx. apply H. apply in_rev. exact Hx. Qed.

Lemma TokAll_runs rs : forall prev cur, chain_ok prev rs = true ->
  forallb (fun r => forallb tag_html_ok (run_tags r)) rs = true -> TokAll (vruns_bytes prev rs) cur.
Proof.
  induction rs as [|r rest IH]; intros prev cur Hc Hh; [apply TokAll_nil|].
  cbn [chain_ok] in Hc. apply andb_true_iff in Hc. destruct Hc as [Hc Hrest]. apply andb_true_iff in Hc. destruct Hc as [Hr _].
  cbn [forallb] in Hh. apply andb_true_iff in Hh. destruct Hh as [Hhr Hhrest].
  destruct (run_ok_parts r Hr) as (Hcol & _ & _ & _ & Hrt).
  rewrite vruns_bytes_cons, (vrun_bytes_eq prev (onext rest) r Hcol). rewrite <- !app_assoc.
  apply TokAll_opens; [apply forallb_skipn; exact Hrt | apply forallb_skipn; exact Hhr|].
  apply TokAll_body; [exact Hr|]. intros cur'.
  apply TokAll_closes.
  - apply forallb_rev, forallb_skipn. exact (forallb_impl' _ _ _ rtag_ok_name Hrt).
  - apply IH; assumption.
Qed.

Definition line_html_ok (l : vline) : bool :=
  forallb okc (vl_voice l) && forallb (fun r => forallb tag_html_ok (run_tags r)) (vl_runs l) &&
  negb (existsb (N.eqb 0) (removelast (vline_bytes l))).

Lemma forallb_andb {A} (p q : A -> bool) l : forallb (fun x => p x && q x) l = forallb p l && forallb q l.
Proof.
  induction l as [|x l IH]; [reflexivity|]. cbn [forallb]. rewrite IH.
  destruct (p x), (q x), (forallb p l), (forallb q l); reflexivity.
Qed.

Theorem written_line_simple_html l : repr_vline l = true -> line_html_ok l = true ->
  vtt_line_simple (removelast (vline_bytes l)) = true.
Proof.
  intros H Hh. unfold repr_vline in H. apply andb_true_iff in H. destruct H as [Hv Hc]. apply voice_ok_annot in Hv.
  unfold line_html_ok in Hh. apply andb_true_iff in Hh. destruct Hh as [Hh H0]. apply andb_true_iff in Hh. destruct Hh as [Hvo Hrs].
  assert (T : forallb tok_good (tokenize (removelast (vline_bytes l))) = true).
  { rewrite vline_bytes_removelast, (voice_part_ok l Hv). unfold tokenize.
    pose proof (TokAll_runs (vl_runs l) None) as R.
    destruct (vl_voice l) as [|c v'] eqn:Ev.
    - cbn [app]. apply (R [] Hc Hrs). lia.
    - set (v := c :: v') in *.
      assert (Ht : tag_ok (mkVtag n_v v []) = true).
      { unfold tag_ok. cbn [vt_name vt_classes vt_annot n_v forallb]. rewrite Hv. reflexivity. }
      assert (Hth : tag_html_ok (mkVtag n_v v []) = true).
      { unfold tag_html_ok. cbn [vt_name vt_classes vt_annot cls_part]. rewrite Hvo. reflexivity. }
      pose proof (TokAll_tag (mkVtag n_v v []) (vruns_bytes None (vl_runs l)) [] Ht Hth (R [] Hc Hrs)) as R2.
      change (tag_start (mkVtag n_v v [])) with ([60; 118; 32] ++ v ++ [62]) in R2.
      replace (([60; 118; 32] ++ v ++ [62]) ++ vruns_bytes None (vl_runs l)) with (([60; 118; 32] ++ v ++ [62]) ++ vruns_bytes None (vl_runs l)) by reflexivity.
      apply R2. lia. }
  unfold tok_good in T. rewrite forallb_andb in T. apply andb_true_iff in T. destruct T as [T1 T2].
  unfold vtt_line_simple, html_simple. rewrite T1, H0, T2. reflexivity.
Qed.

(* ================= [repr_vline] alone implies [line_html_ok] ================= *)
(* no NUL byte in the written line, from the components *)
Definition NoNul (s : str) : Prop := ~ In 0 s.
Lemma nonul_NoNul s : nonul s = true -> NoNul s.
Proof.
  unfold nonul, NoNul. intros H Hin. apply negb_true_iff in H.
  assert (E : existsb (N.eqb 0) s = true) by (apply existsb_exists; exists 0; split; [exact Hin | reflexivity]).
  rewrite E in H. discriminate.
Qed.
Lemma NoNul_nonul s : NoNul s -> nonul s = true.
Proof.
  unfold nonul, NoNul. intros H. apply negb_true_iff. destruct (existsb (N.eqb 0) s) eqn:E; [|reflexivity].
  apply existsb_exists in E. destruct E as (x & Hx & Ex). apply N.eqb_eq in Ex. subst x. contradiction.
Qed.
Lemma NoNul_app a b : NoNul a -> NoNul b -> NoNul (a ++ b).
Proof. unfold NoNul. intros Ha Hb Hin. apply in_app_or in Hin. tauto. Qed.
Lemma NoNul_cons c a : c <> 0 -> NoNul a -> NoNul (c :: a).
Proof. unfold NoNul. intros Hc Ha [E|Hin]; [exact (Hc E) | exact (Ha Hin)]. Qed.
Lemma NoNul_nil : NoNul []. Proof. intros []. Qed.
Lemma NoNul_concat ls : (forall x, In x ls -> NoNul x) -> NoNul (concat ls).
Proof.
  induction ls as [|x ls IH]; intros H; [apply NoNul_nil|]. cbn [concat].
  apply NoNul_app; [apply H; left; reflexivity | apply IH; intros y Hy; apply H; right; exact Hy].
Qed.
Lemma NoNul_escape s : NoNul s -> NoNul (escape_html s).
Proof.
  unfold NoNul. intros H Hin. apply escape_bytes in Hin. destruct Hin as [Hin|Hin]; [contradiction|].
  cbn [In] in Hin. repeat (destruct Hin as [Hin|Hin]; [discriminate|]). exact Hin.
Qed.
Lemma NoNul_format_vtt t : (0 <= t)%Z -> NoNul (format_vtt t).
Proof. intros Ht. apply format_vtt_not_in; [exact Ht | reflexivity]. Qed.
Lemma NoNul_cls_part cs : forallb nonul cs = true -> NoNul (cls_part cs).
Proof.
  intros H. unfold cls_part. destruct cs as [|w ws] eqn:E; [apply NoNul_nil|]. rewrite <- E in *. clear E.
  apply NoNul_cons; [discriminate|]. intros Hin. apply in_join in Hin. destruct Hin as [[Hin|[]]|(w' & Hw' & Hin)]; [discriminate|].
  rewrite forallb_forall in H. exact (nonul_NoNul _ (H w' Hw') Hin).
Qed.
Lemma NoNul_ann_part a : NoNul a -> NoNul (ann_part a).
Proof. intros H. unfold ann_part. destruct a as [|c a']; [apply NoNul_nil | apply NoNul_cons; [discriminate | exact H]]. Qed.
Lemma tag_nonul_parts t : tag_nonul t = true -> NoNul (vt_name t) /\ NoNul (cls_part (vt_classes t)) /\ NoNul (ann_part (vt_annot t)).
Proof.
  unfold tag_nonul. intros H. rewrite !andb_true_iff in H. destruct H as ((H1 & H2) & H3).
  split; [apply nonul_NoNul; exact H1|]. split; [apply NoNul_cls_part; exact H2 | apply NoNul_ann_part, nonul_NoNul; exact H3].
Qed.
Lemma NoNul_tag_start t : rtag_ok t = true -> NoNul (tag_start t).
Proof.
  intros H. destruct (rtag_ok_html t H) as [_ Hn]. destruct (tag_nonul_parts t Hn) as (N1 & N2 & N3).
  destruct (tag_name_ok_chars _ (rtag_ok_name t H)) as (_ & d & r & En & _).
  rewrite tag_start_eq by (rewrite En; discriminate).
  apply NoNul_cons; [discriminate|]. apply NoNul_app; [exact N1|]. apply NoNul_app; [exact N2|]. apply NoNul_app; [exact N3|].
  apply NoNul_cons; [discriminate | apply NoNul_nil].
Qed.
Lemma NoNul_tag_end t : rtag_ok t = true -> NoNul (tag_end t).
Proof.
  intros H. destruct (rtag_ok_html t H) as [_ Hn]. destruct (tag_nonul_parts t Hn) as (N1 & _).
  destruct (tag_name_ok_chars _ (rtag_ok_name t H)) as (_ & d & r & En & _).
  rewrite tag_end_eq by (rewrite En; discriminate).
  apply NoNul_cons; [discriminate|]. apply NoNul_cons; [discriminate|]. apply NoNul_app; [exact N1|].
  apply NoNul_cons; [discriminate | apply NoNul_nil].
Qed.
Lemma run_ok_nonul r : run_ok r = true -> nonul (vr_text r) = true.
Proof. unfold run_ok. intros H. apply andb_true_iff in H. tauto. Qed.
Lemma NoNul_body r : run_ok r = true -> NoNul (body r).
Proof.
  intros H. destruct (run_ok_parts r H) as (_ & _ & Ht & _). unfold body, ts_bytes.
  apply NoNul_app; [|apply NoNul_escape, nonul_NoNul, run_ok_nonul; exact H].
  destruct (0 <? vr_time r)%Z; [|apply NoNul_nil].
  apply NoNul_app; [apply NoNul_cons; [discriminate | apply NoNul_nil]|].
  apply NoNul_app; [apply NoNul_format_vtt; lia | apply NoNul_cons; [discriminate | apply NoNul_nil]].
Qed.
Lemma NoNul_tags (f : vtag -> str) ts : (forall t, rtag_ok t = true -> NoNul (f t)) -> forallb rtag_ok ts = true -> NoNul (concat (map f ts)).
Proof.
  intros Hf H. apply NoNul_concat. intros x Hx. apply in_map_iff in Hx. destruct Hx as (t & <- & Ht).
  rewrite forallb_forall in H. apply Hf, H, Ht.
Qed.
Lemma NoNul_runs rs : forall prev, chain_ok prev rs = true -> NoNul (vruns_bytes prev rs).
Proof.
  induction rs as [|r rest IH]; intros prev Hc; [apply NoNul_nil|].
  cbn [chain_ok] in Hc. apply andb_true_iff in Hc. destruct Hc as [Hc Hrest]. apply andb_true_iff in Hc. destruct Hc as [Hr _].
  destruct (run_ok_parts r Hr) as (Hcol & _ & _ & _ & Hrt).
  rewrite vruns_bytes_cons, (vrun_bytes_eq prev (onext rest) r Hcol).
  apply NoNul_app; [|apply IH; exact Hrest].
  apply NoNul_app; [apply (NoNul_tags tag_start); [exact NoNul_tag_start | apply forallb_skipn; exact Hrt]|].
  apply NoNul_app; [apply NoNul_body; exact Hr|].
  apply (NoNul_tags tag_end); [exact NoNul_tag_end | apply forallb_rev, forallb_skipn; exact Hrt].
Qed.

Lemma chain_ok_html prev rs : chain_ok prev rs = true -> forallb (fun r => forallb tag_html_ok (run_tags r)) rs = true.
Proof.
  intros H. apply chain_ok_all in H. apply forallb_forall. intros r Hr. rewrite Forall_forall in H.
  destruct (run_ok_parts r (H r Hr)) as (_ & _ & _ & _ & Hrt).
  exact (forallb_impl' _ _ _ (fun t Ht => proj1 (rtag_ok_html t Ht)) Hrt).
Qed.

(* the strengthened [repr_vline] contains what [line_html_ok] asks for *)
Lemma repr_line_html_ok l : repr_vline l = true -> line_html_ok l = true.
Proof.
  intros H. unfold repr_vline in H. apply andb_true_iff in H. destruct H as [Hv Hc].
  unfold voice_ok in Hv. rewrite !andb_true_iff in Hv. destruct Hv as ((Hva & Hvo) & Hvn).
  unfold line_html_ok. rewrite Hvo, (chain_ok_html _ _ Hc). cbn [andb].
  change (nonul (removelast (vline_bytes l)) = true). apply NoNul_nonul. rewrite vline_bytes_removelast, (voice_part_ok l Hva).
  apply NoNul_app; [|apply NoNul_runs; exact Hc].
  destruct (vl_voice l) as [|c v']; [apply NoNul_nil|].
  repeat (apply NoNul_cons; [discriminate|]). apply NoNul_app; [apply nonul_NoNul; exact Hvn | apply NoNul_cons; [discriminate | apply NoNul_nil]].
Qed.

(* A WRITTEN LINE LIES IN THE FAITHFUL DOMAIN of the tokenizer model: the representability predicate alone suffices *)
Theorem written_line_simple l : repr_vline l = true -> vtt_line_simple (removelast (vline_bytes l)) = true.
Proof. intros H. apply written_line_simple_html; [exact H | apply repr_line_html_ok; exact H]. Qed.

Example ex_line_simple : vtt_line_simple (removelast (vline_bytes ex_line)) = true.
Proof. apply written_line_simple; vm_compute; reflexivity. Qed.
