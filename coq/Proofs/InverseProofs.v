(* Unfragment inverts Fragment on start-ordered lists without touching same-text cues (C10/C11). *)
From Coq Require Import List ZArith NArith Bool Lia Permutation Sorted.
From Astisub Require Import Kit.Base Model.Ops Proofs.OrderProofs Proofs.FragmentProofs Proofs.UnfragProofs.
Import ListNotations.
Open Scope Z_scope.

Definition proj (x : item) := (st x, en x, i_lines x, i_reg x, i_sty x, i_inl x).
(* the content of a cue: everything but identity and times *)
Definition pl (x : item) := (i_lines x, i_reg x, i_sty x, i_inl x).

Lemma pl_tx x y : pl x = pl y -> tx x = tx y.
Proof. unfold pl, tx, item_text. intros H. inversion H as [[H1 H2 H3 H4]]. rewrite H1. reflexivity. Qed.

Lemma upd_pl x y : pl (upd x y) = pl x.
Proof. unfold pl. destruct (upd_payload x y) as (P1 & P2 & P3 & P4). rewrite P1, P2, P3, P4. reflexivity. Qed.

(* ---- (1) the pieces of one cue form a chain ---- *)
(* [chain a e P qs]: qs are consecutive non-empty cues with content P covering [a, e) *)
Fixpoint chain (a e : Z) (P : list line * option N * option N * bool) (qs : list item) : Prop :=
  match qs with
  | [] => a = e
  | q :: qs' => st q = a /\ st q < en q /\ pl q = P /\ chain (en q) e P qs'
  end.

Lemma chain_ge a e P qs : chain a e P qs -> a <= e /\ Forall (fun q => a <= st q) qs.
Proof.
  revert a. induction qs as [|q qs IH]; intros a H; cbn [chain] in H.
  - split; [lia | constructor].
  - destruct H as (Hs & Hl & _ & Hc). destruct (IH (en q) Hc) as (Hle & Hall).
    split; [lia|]. constructor; [lia|].
    rewrite Forall_forall in *. intros z Hz. specialize (Hall z Hz). lia.
Qed.

Lemma pieces_loop_chain f : 0 < f -> forall fuel x b, st x < b -> st x < en x ->
  chain (st x) (en x) (pl x) (pieces_loop fuel f x b).
Proof.
  intros Hf. induction fuel as [|n IH]; intros x b Hb Hx; cbn [pieces_loop].
  - cbn [chain]. repeat split; [exact Hx].
  - destruct (b <? en x) eqn:E.
    + apply Z.ltb_lt in E. cbn [chain]. cbn [st en set_uid set_en].
      split; [reflexivity|]. split; [exact Hb|]. split; [reflexivity|].
      specialize (IH (set_st x b) (b + f)). cbn [st en set_st] in IH.
      apply IH; lia.
    + cbn [chain]. repeat split; [exact Hx].
Qed.

Lemma pieces_chain f x : 0 < f -> st x < en x -> chain (st x) (en x) (pl x) (pieces f x).
Proof.
  intros Hf Hx. unfold pieces. apply pieces_loop_chain; [exact Hf | | exact Hx].
  apply (next_mult_spec f (st x) Hf).
Qed.

(* ---- (2) inserting a chain into a sorted list: an order-preserving merge ---- *)
Inductive mrg : list item -> list item -> list item -> Prop :=
| mrg_nil L : mrg [] L L
| mrg_l q qs L M : mrg qs L M -> mrg (q :: qs) L (q :: M)
| mrg_r ps z L M : mrg ps L M -> mrg ps (z :: L) (z :: M).

Lemma mrg_nil_inv L M : mrg [] L M -> M = L.
Proof.
  revert L. induction M as [|m M IH]; intros L H; inversion H; subst; try reflexivity.
  f_equal. apply IH. assumption.
Qed.

Lemma mrg_in ps L M : mrg ps L M -> forall q, In q ps -> In q M.
Proof.
  intros H. induction H as [L | q qs L M H IH | ps z L M H IH]; intros q0 Hq.
  - destruct Hq.
  - destruct Hq as [<-|Hq]; [left; reflexivity | right; apply IH; exact Hq].
  - right. apply IH. exact Hq.
Qed.

Lemma mrg_insert q qs L M : mrg qs L M -> Forall (fun q' => st q <= st q') qs -> mrg (q :: qs) L (insert q M).
Proof.
  intros H. induction H as [L | q' qs L M H IH | ps z L M H IH]; intros Hall.
  - induction L as [|z L IHL]; cbn [insert].
    + apply mrg_l, mrg_nil.
    + destruct (st q <=? st z).
      * apply mrg_l, mrg_nil.
      * apply mrg_r. exact IHL.
  - cbn [insert]. pose proof (Forall_inv Hall) as Hq. cbv beta in Hq.
    apply Z.leb_le in Hq. rewrite Hq. apply mrg_l, mrg_l. exact H.
  - cbn [insert]. destruct (st q <=? st z).
    + apply mrg_l, mrg_r. exact H.
    + apply mrg_r. apply IH. exact Hall.
Qed.

Lemma chain_mrg P L : forall qs a e, chain a e P qs -> mrg qs L (fold_right insert L qs).
Proof.
  induction qs as [|q qs IH]; intros a e H; cbn [fold_right].
  - apply mrg_nil.
  - cbn [chain] in H. destruct H as (Hs & Hl & _ & Hc).
    apply mrg_insert; [eapply IH; exact Hc|].
    destruct (chain_ge _ _ _ _ Hc) as (_ & Hall).
    rewrite Forall_forall in *. intros z Hz. specialize (Hall z Hz). lia.
Qed.

Lemma fold_insert_sorted L qs : sorted L -> sorted (fold_right insert L qs).
Proof. intros HL. induction qs as [|q qs IH]; cbn [fold_right]; [exact HL | apply insert_sorted, IH]. Qed.

Lemma fold_insert_in L qs z : In z (fold_right insert L qs) <-> In z qs \/ In z L.
Proof.
  induction qs as [|q qs IH]; cbn [fold_right].
  - split; [intros H; right; exact H | intros [[]|H]; exact H].
  - rewrite insert_in, IH. cbn [In]. split.
    + intros [->|[H|H]]; auto.
    + intros [[<-|H]|H]; auto.
Qed.

Lemma fold_insert_length L qs : length (fold_right insert L qs) = (length qs + length L)%nat.
Proof.
  induction qs as [|q qs IH]; cbn [fold_right]; [reflexivity|].
  rewrite <- (Permutation_length (insert_perm q _)). cbn [length]. rewrite IH. reflexivity.
Qed.

Lemma insert_head p M : Forall (fun y => st p <= st y) M -> insert p M = p :: M.
Proof.
  intros H. destruct M as [|y M]; [reflexivity|]. cbn [insert].
  pose proof (Forall_inv H) as Hy. cbv beta in Hy. apply Z.leb_le in Hy. rewrite Hy. reflexivity.
Qed.

Lemma order_app l1 l2 : order (l1 ++ l2) = fold_right insert (order l2) l1.
Proof. unfold order. apply fold_right_app. Qed.

(* ---- (3) the inner loop swallows exactly the rest of the chain ---- *)
Lemma absorb_stop c : forall L, Forall (fun z => tx z = tx c -> en c < st z) L -> absorb c L = (c, L).
Proof.
  induction L as [|z L IH]; intros H; [reflexivity|].
  rewrite absorb_unfold. pose proof (Forall_inv H) as Hz. cbv beta in Hz. pose proof (Forall_inv_tail H) as HL.
  destruct (str_eqb (tx c) (tx z) && (st z <=? en c)) eqn:C.
  - apply andb_true_iff in C. destruct C as [Ct Cs]. apply str_eqb_eq in Ct. apply Z.leb_le in Cs.
    symmetry in Ct. specialize (Hz Ct). lia.
  - destruct (en c <? st z); [reflexivity|]. rewrite (IH HL). reflexivity.
Qed.

Lemma absorb_chain ps L M : mrg ps L M -> forall c e P,
  sorted M -> chain (en c) e P ps -> pl c = P ->
  Forall (fun z => tx z = tx c -> e < st z) L ->
  exists c', absorb c M = (c', L) /\ st c' = st c /\ en c' = e /\ pl c' = P.
Proof.
  intros H. induction H as [L | q qs L M H IH | ps z L M H IH]; intros c e P HS HC HP HL.
  - cbn [chain] in HC. subst e. exists c. split; [apply absorb_stop; exact HL | auto].
  - cbn [chain] in HC. destruct HC as (Hs & Hl & Hq & Hc).
    assert (Ht : tx c = tx q) by (apply pl_tx; congruence).
    rewrite absorb_unfold.
    assert (C : str_eqb (tx c) (tx q) && (st q <=? en c) = true).
    { apply andb_true_iff. split; [apply str_eqb_eq; exact Ht | apply Z.leb_le; lia]. }
    rewrite C.
    assert (He : en (upd c q) = en q) by (rewrite upd_en; lia).
    destruct (IH (upd c q) e P) as (c' & Ha & A1 & A2 & A3).
    + apply sorted_inv in HS. tauto.
    + rewrite He. exact Hc.
    + rewrite upd_pl. exact HP.
    + rewrite upd_tx. exact HL.
    + exists c'. rewrite upd_st in A1. auto.
  - pose proof (Forall_inv HL) as Hz. cbv beta in Hz. pose proof (Forall_inv_tail HL) as HL'.
    destruct (chain_ge _ _ _ _ HC) as (Hle & Hps).
    apply sorted_inv in HS. destruct HS as [HS' HzM].
    rewrite absorb_unfold.
    destruct (str_eqb (tx c) (tx z) && (st z <=? en c)) eqn:C.
    + apply andb_true_iff in C. destruct C as [Ct Cs]. apply str_eqb_eq in Ct. apply Z.leb_le in Cs.
      symmetry in Ct. specialize (Hz Ct). lia.
    + destruct (en c <? st z) eqn:B.
      * apply Z.ltb_lt in B. destruct ps as [|q qs].
        -- apply mrg_nil_inv in H. subst M. cbn [chain] in HC. exists c. auto.
        -- exfalso. cbn [chain] in HC. destruct HC as (Hs & _).
           assert (Hin : In q M) by (apply (mrg_in _ _ _ H); left; reflexivity).
           rewrite Forall_forall in HzM. specialize (HzM q Hin). lia.
      * destruct (IH c e P HS' HC HP HL') as (c' & Ha & A1 & A2 & A3).
        rewrite Ha. exists c'. auto.
Qed.

(* ---- the list level ---- *)
Lemma proj_of x c : st c = st x -> en c = en x -> pl c = pl x -> proj c = proj x.
Proof. unfold proj, pl. intros H1 H2 H3. inversion H3 as [[A B C D]]. rewrite H1, H2, A, B, C, D. reflexivity. Qed.

Lemma chain_in P e z : forall qs a, chain a e P qs -> In z qs -> a <= st z /\ pl z = P.
Proof.
  induction qs as [|q qs IH]; intros a HC Hz; [destruct Hz|].
  cbn [chain] in HC. destruct HC as (Hs & Hl & Hq & Hc). destruct Hz as [<-|Hz].
  - split; [lia | exact Hq].
  - destruct (IH (en q) Hc Hz) as (A & B). split; [lia | exact B].
Qed.

Lemma pieces_in_facts f x z : 0 < f -> st x < en x -> In z (pieces f x) -> st x <= st z /\ pl z = pl x.
Proof. intros Hf Hx Hz. exact (chain_in _ _ z _ _ (pieces_chain f x Hf Hx) Hz). Qed.

Lemma unfrag_fragment_gen f : 0 < f -> forall l n,
  sorted l -> no_touch l -> Forall (fun x => st x < en x) l ->
  (length (flat_map (pieces f) l) <= n)%nat ->
  map proj (unfrag n (order (flat_map (pieces f) l))) = map proj l.
Proof.
  intros Hf. induction l as [|x r IH]; intros n HS HN HP Hn.
  - cbn [flat_map order fold_right]. destruct n; reflexivity.
  - apply sorted_inv in HS. destruct HS as [HSr Hxr].
    inversion HN as [|? ? Hxn HNr]; subst.
    pose proof (Forall_inv HP) as Hx. cbv beta in Hx. pose proof (Forall_inv_tail HP) as HPr.
    cbn [flat_map] in *. rewrite order_app.
    set (L := order (flat_map (pieces f) r)) in *.
    pose proof (pieces_chain f x Hf Hx) as HC.
    rewrite app_length in Hn.
    destruct (pieces f x) as [|p1 ps] eqn:Ep; [cbn [chain] in HC; lia|].
    cbn [chain] in HC. destruct HC as (Hs1 & Hl1 & Hp1 & Hc).
    cbn [length] in Hn. destruct n as [|k]; [lia|].
    (* facts about the pieces of the later cues *)
    assert (HLin : forall z, In z L -> exists y, In y r /\ st y <= st z /\ pl z = pl y).
    { intros z Hz. apply (Permutation_in _ (Permutation_sym (order_perm _))) in Hz.
      apply in_flat_map in Hz. destruct Hz as (y & Hy & Hz).
      rewrite Forall_forall in HPr. destruct (pieces_in_facts f y z Hf (HPr y Hy) Hz) as (A & B).
      exists y. auto. }
    assert (HLs : sorted L) by apply order_sorted.
    cbn [fold_right].
    destruct (chain_ge _ _ _ _ Hc) as (Hle & Hps).
    rewrite insert_head.
    2:{ rewrite Forall_forall. intros z Hz. apply fold_insert_in in Hz. destruct Hz as [Hz|Hz].
        - rewrite Forall_forall in Hps. specialize (Hps z Hz). lia.
        - destruct (HLin z Hz) as (y & Hy & Hyz & _). rewrite Forall_forall in Hxr. specialize (Hxr y Hy). lia. }
    cbn [unfrag].
    destruct (absorb_chain ps L _ (chain_mrg _ L ps _ _ Hc) p1 (en x) (pl x)) as (c' & Ha & A1 & A2 & A3).
    + apply fold_insert_sorted. exact HLs.
    + exact Hc.
    + exact Hp1.
    + rewrite Forall_forall. intros z Hz Ht. destruct (HLin z Hz) as (y & Hy & Hyz & Hpy).
      rewrite Forall_forall in Hxn. specialize (Hxn y Hy).
      assert (Hxy : tx x = tx y).
      { rewrite <- (pl_tx _ _ Hp1), <- Ht. apply pl_tx. exact Hpy. }
      specialize (Hxn Hxy). lia.
    + rewrite Ha. cbn [map]. f_equal.
      * apply proj_of; [lia | exact A2 | exact A3].
      * apply IH; try assumption. lia.
Qed.

Theorem unfragment_fragment : forall f l, 0 < f -> sorted l -> no_touch l -> Forall (fun x => st x < en x) l ->
  map proj (unfragment (fragment f l)) = map proj l.
Proof.
  intros f l Hf HS HN HP. rewrite (fragment_eq f l Hf). unfold unfragment.
  rewrite order_idem. apply unfrag_fragment_gen; try assumption.
  rewrite order_length. apply le_n.
Qed.

Print Assumptions unfragment_fragment.
