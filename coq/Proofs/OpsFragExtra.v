(* Fragment (C10), additions: positive-length pieces, cuts strictly inside the cue and exactly at the multiples,
   identity of the pieces, and the timeline at list level (coverage counted with multiplicity). *)
From Coq Require Import List ZArith NArith Bool Lia Permutation Sorted.
From Astisub Require Import Kit.Base Model.Ops Proofs.OrderProofs Proofs.FragmentProofs Proofs.UnfragProofs Proofs.InverseProofs.
Import ListNotations.
Open Scope Z_scope.

(* ---- every piece of a cue of positive length has positive length ---- *)
Lemma chain_positive P : forall qs a e, chain a e P qs -> Forall (fun q => st q < en q) qs.
Proof.
  induction qs as [|q qs IH]; intros a e H; [constructor|].
  cbn [chain] in H. destruct H as (_ & Hl & _ & Hc). constructor; [exact Hl | exact (IH _ _ Hc)].
Qed.

Theorem pieces_positive f x : 0 < f -> st x < en x -> Forall (fun p => st p < en p) (pieces f x).
Proof. intros Hf Hx. exact (chain_positive _ _ _ _ (pieces_chain f x Hf Hx)). Qed.

Theorem fragment_positive f l : 0 < f -> Forall (fun x => st x < en x) l -> Forall (fun p => st p < en p) (fragment f l).
Proof.
  intros Hf H. eapply Permutation_Forall; [apply (fragment_perm f l Hf)|].
  rewrite Forall_forall in *. intros p Hp. apply in_flat_map in Hp. destruct Hp as (x & Hx & Hp).
  pose proof (pieces_positive f x Hf (H x Hx)) as Hpos. rewrite Forall_forall in Hpos. auto.
Qed.

(* ---- the cuts: the instants where one piece ends and the next begins ---- *)
Fixpoint cuts (l : list item) : list Z :=
  match l with
  | x :: ((_ :: _) as r) => en x :: cuts r
  | _ => []
  end.

Lemma cuts_cons x y r : cuts (x :: y :: r) = en x :: cuts (y :: r).
Proof. reflexivity. Qed.

Lemma cuts_cons_nonnil x r : r <> [] -> cuts (x :: r) = en x :: cuts r.
Proof. destruct r; [contradiction | reflexivity]. Qed.

(* strictly inside the cue, strictly increasing from the first multiple after the start *)
Lemma pieces_loop_cuts f : 0 < f -> forall fuel x b, st x < b ->
  Forall (fun c => st x < c < en x) (cuts (pieces_loop fuel f x b)).
Proof.
  intros Hf. induction fuel as [|n IH]; intros x b Hb; cbn [pieces_loop]; [constructor|].
  destruct (b <? en x) eqn:E; [|constructor]. apply Z.ltb_lt in E.
  rewrite cuts_cons_nonnil by apply pieces_loop_nonnil. cbn [en set_uid set_en].
  constructor; [lia|].
  specialize (IH (set_st x b) (b + f)). cbn [st en set_st] in IH. specialize (IH ltac:(lia)).
  rewrite Forall_forall in *. intros c Hc. specialize (IH c Hc). lia.
Qed.

Theorem pieces_cuts_inside f x : 0 < f -> Forall (fun c => st x < c < en x) (cuts (pieces f x)).
Proof. intros Hf. unfold pieces. apply pieces_loop_cuts; [exact Hf|]. apply (next_mult_spec f (st x) Hf). Qed.

Lemma pieces_loop_cuts_mult f : 0 < f -> forall fuel x b, is_mult f b -> Forall (is_mult f) (cuts (pieces_loop fuel f x b)).
Proof.
  intros Hf. induction fuel as [|n IH]; intros x b Hm; cbn [pieces_loop]; [constructor|].
  destruct (b <? en x); [|constructor].
  rewrite cuts_cons_nonnil by apply pieces_loop_nonnil. cbn [en set_uid set_en].
  constructor; [exact Hm|]. apply IH. destruct Hm as [k ->]. exists (k + 1). lia.
Qed.

Theorem pieces_cuts_mult f x : 0 < f -> Forall (is_mult f) (cuts (pieces f x)).
Proof. intros Hf. unfold pieces. apply pieces_loop_cuts_mult; [exact Hf|]. apply (next_mult_spec f (st x) Hf). Qed.

(* no multiple inside the cue is skipped *)
Lemma pieces_loop_cuts_complete f : 0 < f -> forall fuel x b,
  is_mult f b -> st x < b -> b - f <= st x -> en x - b < Z.of_nat fuel * f ->
  forall k, st x < k * f < en x -> In (k * f) (cuts (pieces_loop fuel f x b)).
Proof.
  intros Hf. induction fuel as [|n IH]; intros x b Hm Hlt Hge Hfuel k Hk.
  - exfalso. destruct Hm as [j ->]. apply (no_mult_between f j (j * f) Hf eq_refl k). cbn in Hfuel. lia.
  - cbn [pieces_loop]. destruct (b <? en x) eqn:E.
    + apply Z.ltb_lt in E. rewrite cuts_cons_nonnil by apply pieces_loop_nonnil. cbn [en set_uid set_en].
      destruct (Z.eq_dec (k * f) b) as [->|Hne]; [left; reflexivity|]. right.
      assert (Hkb : b < k * f).
      { destruct Hm as [j Hj]. destruct (Z_lt_le_dec (k * f) b) as [L|G]; [|lia].
        exfalso. apply (no_mult_between f j b Hf Hj k). lia. }
      assert (Hm' : is_mult f (b + f)) by (destruct Hm as [j ->]; exists (j + 1); lia).
      specialize (IH (set_st x b) (b + f) Hm'). cbn [st en set_st] in IH.
      apply IH; lia.
    + apply Z.ltb_ge in E. exfalso. destruct Hm as [j Hj].
      apply (no_mult_between f j b Hf Hj k). lia.
Qed.

Theorem pieces_cuts_complete f x : 0 < f -> forall k, st x < k * f < en x -> In (k * f) (cuts (pieces f x)).
Proof.
  intros Hf. unfold pieces. pose proof (next_mult_spec f (st x) Hf) as (Hm & Hlt & Hge).
  apply pieces_loop_cuts_complete; try assumption. apply pieces_fuel. exact Hf.
Qed.

(* the cuts are EXACTLY the multiples of f strictly inside the cue *)
Theorem pieces_cuts_exact f x : 0 < f -> forall c,
  In c (cuts (pieces f x)) <-> (is_mult f c /\ st x < c < en x).
Proof.
  intros Hf c. split.
  - intros H. split.
    + pose proof (pieces_cuts_mult f x Hf) as M. rewrite Forall_forall in M. auto.
    + pose proof (pieces_cuts_inside f x Hf) as M. rewrite Forall_forall in M. auto.
  - intros [[k ->] H]. apply pieces_cuts_complete; assumption.
Qed.

(* ---- identity: every piece but the last is a copy (fresh identity, 0 in the model); the last piece is the
   original object (same identity) with its start moved ---- *)
Lemma pieces_loop_uid f : forall fuel x b,
  map uid (pieces_loop fuel f x b) = repeat 0%N (length (pieces_loop fuel f x b) - 1) ++ [uid x].
Proof.
  induction fuel as [|n IH]; intros x b; cbn [pieces_loop]; [reflexivity|].
  destruct (b <? en x); [|reflexivity].
  cbn [map length]. rewrite IH. cbn [uid set_uid set_st].
  pose proof (pieces_loop_nonnil n f (set_st x b) (b + f)) as Hne.
  destruct (pieces_loop n f (set_st x b) (b + f)) as [|y r]; [contradiction|].
  cbn [length]. replace (S (S (length r)) - 1)%nat with (S (S (length r) - 1)) by lia. reflexivity.
Qed.

Theorem pieces_uid f x : map uid (pieces f x) = repeat 0%N (length (pieces f x) - 1) ++ [uid x].
Proof. unfold pieces. apply pieces_loop_uid. Qed.

Lemma last_nonnil_indep {A} (l : list A) d d' : l <> [] -> last l d = last l d'.
Proof.
  induction l as [|a r IH]; intros H; [contradiction|]. destruct r as [|b r]; [reflexivity|].
  change (last (b :: r) d = last (b :: r) d'). apply IH. discriminate.
Qed.

(* the last piece IS the original cue with only its start moved (to the last cut, or not at all) *)
Lemma pieces_loop_last f : forall fuel x b,
  exists s, last (pieces_loop fuel f x b) x = set_st x s /\ (s = st x \/ In s (cuts (pieces_loop fuel f x b))).
Proof.
  induction fuel as [|n IH]; intros x b; cbn [pieces_loop].
  - exists (st x). split; [destruct x; reflexivity | left; reflexivity].
  - destruct (b <? en x).
    + destruct (IH (set_st x b) (b + f)) as (s & Hl & Hs).
      pose proof (pieces_loop_nonnil n f (set_st x b) (b + f)) as Hne.
      rewrite cuts_cons_nonnil by exact Hne. cbn [en set_uid set_en].
      exists s. split.
      * destruct (pieces_loop n f (set_st x b) (b + f)) as [|y r] eqn:E; [contradiction|].
        change (last (set_uid (set_en x b) 0%N :: y :: r) x) with (last (y :: r) x).
        rewrite (last_nonnil_indep (y :: r) x (set_st x b)) by discriminate.
        rewrite Hl. destruct x; reflexivity.
      * right. destruct Hs as [->|Hs]; [left; reflexivity | right; exact Hs].
    + exists (st x). split; [destruct x; reflexivity | left; reflexivity].
Qed.

Theorem pieces_last f x :
  exists s, last (pieces f x) x = set_st x s /\ (s = st x \/ In s (cuts (pieces f x))).
Proof. unfold pieces. apply pieces_loop_last. Qed.

(* ---- the timeline at list level, with multiplicity ----
   [cover_count q t l]: how many cues of [l] whose content satisfies [q] are on screen at instant [t] *)
Definition on_at (t : Z) (c : item) : bool := (st c <=? t) && (t <? en c).
Definition cover_count (q : item -> bool) (t : Z) (l : list item) : nat :=
  length (filter (fun c => q c && on_at t c) l).
(* [q] looks at the content only (text, voice, style, region), not at times or identity *)
Definition content_only (q : item -> bool) : Prop := forall x y, pl x = pl y -> q x = q y.

Lemma cover_count_app q t l1 l2 : cover_count q t (l1 ++ l2) = (cover_count q t l1 + cover_count q t l2)%nat.
Proof. unfold cover_count. rewrite filter_app, app_length. reflexivity. Qed.

Lemma cover_count_perm q t l l' : Permutation l l' -> cover_count q t l = cover_count q t l'.
Proof.
  intros P. unfold cover_count. induction P as [|x l l' P IH|x y l|l l' l'' P1 IH1 P2 IH2]; cbn [filter].
  - reflexivity.
  - destruct (q x && on_at t x); cbn [length]; rewrite IH; reflexivity.
  - destruct (q x && on_at t x); destruct (q y && on_at t y); reflexivity.
  - congruence.
Qed.

Lemma cover_count_one q t x : cover_count q t [x] = if q x && on_at t x then 1%nat else 0%nat.
Proof. unfold cover_count. cbn [filter]. destruct (q x && on_at t x); reflexivity. Qed.

Lemma cover_cut q t x b : content_only q -> st x < b -> b < en x ->
  (cover_count q t [set_uid (set_en x b) 0%N] + cover_count q t [set_st x b])%nat = cover_count q t [x].
Proof.
  intros Hq Hb E. rewrite !cover_count_one.
  rewrite (Hq (set_uid (set_en x b) 0%N) x eq_refl), (Hq (set_st x b) x eq_refl).
  unfold on_at. cbn [st en set_uid set_en set_st].
  destruct (q x); cbn [andb]; [|reflexivity].
  destruct (st x <=? t) eqn:A; destruct (t <? b) eqn:B; destruct (b <=? t) eqn:C; destruct (t <? en x) eqn:D; cbn [andb];
    try reflexivity; exfalso;
    try (apply Z.leb_le in A); try (apply Z.leb_gt in A); try (apply Z.ltb_lt in B); try (apply Z.ltb_ge in B);
    try (apply Z.leb_le in C); try (apply Z.leb_gt in C); try (apply Z.ltb_lt in D); try (apply Z.ltb_ge in D); lia.
Qed.

Lemma pieces_loop_cover q t f : content_only q -> 0 < f -> forall fuel x b, st x < b ->
  cover_count q t (pieces_loop fuel f x b) = cover_count q t [x].
Proof.
  intros Hq Hf. induction fuel as [|n IH]; intros x b Hb; cbn [pieces_loop]; [reflexivity|].
  destruct (b <? en x) eqn:E; [|reflexivity]. apply Z.ltb_lt in E.
  change (set_uid (set_en x b) 0%N :: pieces_loop n f (set_st x b) (b + f))
    with ([set_uid (set_en x b) 0%N] ++ pieces_loop n f (set_st x b) (b + f)).
  rewrite cover_count_app.
  rewrite (IH (set_st x b) (b + f)) by (cbn [st set_st]; lia).
  apply cover_cut; assumption.
Qed.

(* one cue: at every instant its pieces put its content on screen exactly as often (0 or 1 times) as the cue did *)
Theorem pieces_cover q t f x : content_only q -> 0 < f -> cover_count q t (pieces f x) = cover_count q t [x].
Proof.
  intros Hq Hf. unfold pieces. apply pieces_loop_cover; [exact Hq | exact Hf |].
  apply (next_mult_spec f (st x) Hf).
Qed.

Lemma flat_pieces_cover q t f l : content_only q -> 0 < f ->
  cover_count q t (flat_map (pieces f) l) = cover_count q t l.
Proof.
  intros Hq Hf. induction l as [|x r IH]; [reflexivity|].
  cbn [flat_map]. rewrite cover_count_app, IH, (pieces_cover q t f x Hq Hf).
  change (x :: r) with ([x] ++ r). rewrite cover_count_app. reflexivity.
Qed.

(* the list: at every instant and for every content, the number of cues showing that content is unchanged *)
Theorem fragment_cover_count q t f l : content_only q -> 0 < f ->
  cover_count q t (fragment f l) = cover_count q t l.
Proof.
  intros Hq Hf. rewrite <- (cover_count_perm q t _ _ (fragment_perm f l Hf)). apply flat_pieces_cover; assumption.
Qed.

(* instances of [q]: a given text; a given full content (lines with voices and run styles, region, style) *)
Definition has_text (k : str) (c : item) : bool := str_eqb (tx c) k.
Lemma has_text_content k : content_only (has_text k).
Proof. intros x y H. unfold has_text. rewrite (pl_tx x y H). reflexivity. Qed.

Lemma covers_count k t l : covers k t l <-> (0 < cover_count (has_text k) t l)%nat.
Proof.
  unfold covers, cover_count. split.
  - intros (c & Hin & Hk & Ht).
    assert (Hf : In c (filter (fun c => has_text k c && on_at t c) l)).
    { apply filter_In. split; [exact Hin|]. unfold has_text, on_at. rewrite Hk, str_eqb_refl. cbn [andb].
      apply andb_true_iff. split; [apply Z.leb_le | apply Z.ltb_lt]; lia. }
    destruct (filter (fun c => has_text k c && on_at t c) l); [destruct Hf | cbn [length]; lia].
  - intros H. destruct (filter (fun c => has_text k c && on_at t c) l) as [|c r] eqn:E; [cbn in H; lia|].
    assert (Hf : In c (filter (fun c => has_text k c && on_at t c) l)) by (rewrite E; left; reflexivity).
    apply filter_In in Hf. destruct Hf as [Hin Hb]. apply andb_true_iff in Hb. destruct Hb as [Hk Ht].
    unfold has_text in Hk. apply str_eqb_eq in Hk. unfold on_at in Ht. apply andb_true_iff in Ht. destruct Ht as [A B].
    apply Z.leb_le in A. apply Z.ltb_lt in B. exists c. split; [exact Hin|]. split; [exact Hk | lia].
Qed.

(* the set of texts on screen at every instant is unchanged (the [covers] of Unfragment) *)
Theorem fragment_covers f l : 0 < f -> forall k t, covers k t l <-> covers k t (fragment f l).
Proof.
  intros Hf k t. rewrite !covers_count, (fragment_cover_count _ t f l (has_text_content k) Hf). reflexivity.
Qed.

(* ---- non-vacuity: two texts, overlap and nesting, a cue that contains no multiple, a zero-length cue ---- *)
Definition ex_cue (u : N) (s e : Z) (t : N) : item := mkItem u s e [mkLine [mkRun [t] None false] []] None None false.
Definition ex_frag : list item := [ex_cue 1 0 10 65; ex_cue 2 1 3 66; ex_cue 3 4 5 65; ex_cue 4 6 6 66; ex_cue 5 6 9 65].

Example ex_frag_result :
  map (fun x => (uid x, st x, en x, item_text x)) (fragment 4 ex_frag) =
  [(0%N, 0, 4, [65%N]); (2%N, 1, 3, [66%N]); (0%N, 4, 8, [65%N]); (3%N, 4, 5, [65%N]); (4%N, 6, 6, [66%N]);
   (0%N, 6, 8, [65%N]); (1%N, 8, 10, [65%N]); (5%N, 8, 9, [65%N])].
Proof. reflexivity. Qed.
Example ex_frag_cuts : cuts (pieces 4 (ex_cue 1 0 10 65)) = [4; 8] /\ cuts (pieces 4 (ex_cue 2 1 3 66)) = [] /\
  map uid (pieces 4 (ex_cue 1 0 10 65)) = [0; 0; 1]%N.
Proof. repeat split; reflexivity. Qed.
(* at instant 8 text "A" is shown by cues 1 and 5 (twice), before and after *)
Example ex_frag_cover : cover_count (has_text [65%N]) 8 ex_frag = 2%nat /\ cover_count (has_text [65%N]) 8 (fragment 4 ex_frag) = 2%nat.
Proof. split; reflexivity. Qed.
Example ex_frag_positive : Forall (fun x => st x < en x) [ex_cue 1 0 10 65; ex_cue 2 1 3 66; ex_cue 3 4 5 65; ex_cue 5 6 9 65].
Proof. unfold ex_cue. repeat constructor. Qed.
