(* Fuel audit, Kit/Html.v: read_attrs (value at O: None = "input ends inside the tag") and tokenize_fuel (value at O:
   the pending text flushed).  Both out-of-fuel values look like ordinary results.
   tokenize_fuel already had [SrtProofs.tokenize_fuel_enough]; it is restated here in the audit's shape.
   read_attrs had only [SrtProofs.read_attrs_len] (a property of successful results): its independence of fuel is
   proved here (every iteration of the attribute loop consumes at least one byte), with fuel-free equations. *)
From Coq Require Import List NArith Bool Arith Lia.
From Astisub Require Import Kit.Base Kit.Str Kit.Html Proofs.SrtProofs.
Import ListNotations.
Open Scope N_scope.

(* one turn of the attribute loop consumes input: the key reader may stop at once on '=', but then the value reader
   consumes that '=' *)
Lemma fh_attr_turn c t k s1 v s2 : (c =? GT) = false ->
  read_key (c :: t) [] = Some (k, s1) -> read_val s1 = Some (v, s2) -> (length s2 <= length t)%nat.
Proof.
  intros Hgt Hk Hv. cbn [read_key] in Hk.
  destruct (is_tag_ws c || (c =? SLASH)).
  { inversion Hk; subst. exact (read_val_len _ _ _ Hv). }
  destruct ((c =? EQ) || (c =? GT)) eqn:Ee.
  - inversion Hk; subst. rewrite Hgt, orb_false_r in Ee. apply N.eqb_eq in Ee. subst c.
    unfold read_val in Hv. cbn [skip_ws] in Hv. change (is_tag_ws EQ) with false in Hv. cbv iota in Hv.
    change (negb (EQ =? EQ)) with false in Hv. cbv iota in Hv.
    pose proof (skip_ws_len t) as L. destruct (skip_ws t) as [|q t2]; [discriminate|].
    destruct (q =? GT); [inversion Hv; subst; exact L|].
    destruct ((q =? 39) || (q =? 34)).
    + apply read_until_quote_len in Hv. cbn [length] in *. lia.
    + apply read_bare_len in Hv. lia.
  - apply read_key_len in Hk. apply read_val_len in Hv. lia.
Qed.

Lemma read_attrs_enough : forall n m s acc, (length s < n)%nat -> (length s < m)%nat ->
  read_attrs n s acc = read_attrs m s acc.
Proof.
  induction n as [|n IH]; intros m s acc Hn Hm; [lia|]. destruct m as [|m]; [lia|].
  cbn [read_attrs]. destruct s as [|c t]; [reflexivity|].
  destruct (c =? GT) eqn:Eg; [reflexivity|].
  destruct (read_key (c :: t) []) as [[k s1]|] eqn:Ek; [|reflexivity].
  destruct (read_val s1) as [[v s2]|] eqn:Ev; [|reflexivity].
  pose proof (fh_attr_turn c t k s1 v s2 Eg Ek Ev) as L.
  pose proof (skip_ws_len s2) as L3. destruct (skip_ws s2) as [|c3 t3]; [reflexivity|].
  cbn [length] in *. apply IH; cbn [length]; lia.
Qed.
Theorem read_attrs_indep fuel s acc : (S (length s) <= fuel)%nat ->
  read_attrs fuel s acc = read_attrs (S (length s)) s acc.
Proof. intros H. apply read_attrs_enough; lia. Qed.

(* the loop without fuel: what [read_tag] calls, and its equations *)
Definition read_attrs_c (s : str) (acc : list (str * str)) : option (list (str * str) * str) :=
  read_attrs (S (length s)) s acc.
Theorem read_tag_attrs_c s :
  read_tag s = match read_name s [] with
               | None => None
               | Some (name, s1) =>
                 match skip_ws s1 with
                 | [] => None
                 | s2 => match read_attrs_c s2 [] with
                         | Some (attrs, rest) => Some (to_lower name, attrs, rest)
                         | None => None
                         end
                 end
               end.
Proof. reflexivity. Qed.
Theorem read_attrs_c_nil acc : read_attrs_c [] acc = None. Proof. reflexivity. Qed.
Theorem read_attrs_c_cons c t acc :
  read_attrs_c (c :: t) acc =
  if c =? GT then Some (rev acc, t)
  else match read_key (c :: t) [] with
       | None => None
       | Some (k, s1) =>
         match read_val s1 with
         | None => None
         | Some (v, s2) =>
           match skip_ws s2 with
           | [] => None
           | s3 => read_attrs_c s3 (match k with [] => acc | _ => (to_lower k, v) :: acc end)
           end
         end
       end.
Proof.
  unfold read_attrs_c at 1. cbn [read_attrs]. destruct (c =? GT) eqn:Eg; [reflexivity|].
  destruct (read_key (c :: t) []) as [[k s1]|] eqn:Ek; [|reflexivity].
  destruct (read_val s1) as [[v s2]|] eqn:Ev; [|reflexivity].
  pose proof (fh_attr_turn c t k s1 v s2 Eg Ek Ev) as L.
  pose proof (skip_ws_len s2) as L3. destruct (skip_ws s2) as [|c3 t3]; [reflexivity|].
  unfold read_attrs_c. apply read_attrs_enough; cbn [length] in *; lia.
Qed.

(* ---- tokenize ---- *)
Theorem tokenize_fuel_indep fuel s cur : (S (length s) <= fuel)%nat ->
  tokenize_fuel fuel s cur = tokenize_fuel (S (length s)) s cur.
Proof. intros H. apply tokenize_fuel_enough; lia. Qed.
