(* C03, write/read of a whole document, part A: attributes, integers, maps. *)
From Coq Require Import List ZArith NArith Bool Lia ZifyBool ZifyN ZifyNat Sorted.
From Astisub Require Import Kit.Base Kit.Str Kit.Xml Kit.SortOrd Model.Dur Model.Ttml
  Proofs.DurProofs Proofs.TtmlSpec Proofs.TtmlTime Proofs.TtmlDocSpec.
Import ListNotations.
Open Scope N_scope.

(* ================= string equality, membership ================= *)
Lemma str_eqb_sym a : forall b, str_eqb a b = str_eqb b a.
Proof.
  induction a as [|x a IH]; intros [|y b]; cbn [str_eqb]; try reflexivity.
  rewrite (N.eqb_sym x y), (IH b). reflexivity.
Qed.

Lemma str_eqb_false a b : a <> b -> str_eqb a b = false.
Proof. intros H. destruct (str_eqb a b) eqn:E; [|reflexivity]. apply str_eqb_eq in E. contradiction. Qed.

Definition memb (l : str) (ns : list str) : bool := existsb (str_eqb l) ns.
Fixpoint nodupb (ns : list str) : bool :=
  match ns with [] => true | a :: r => negb (memb a r) && nodupb r end.
(* a local name that is none of the inline style attributes *)
Definition other (l : str) : bool := negb (memb l (s_zIndex :: attr_names)).

Lemma memb_In l ns : In l ns -> memb l ns = true.
Proof. intros H. unfold memb. apply existsb_exists. exists l. split; [exact H | apply str_eqb_refl]. Qed.

Lemma memb_true_In l ns : memb l ns = true -> In l ns.
Proof.
  unfold memb. intros H. apply existsb_exists in H. destruct H as (x & Hx & E).
  apply str_eqb_eq in E. subst x. exact Hx.
Qed.

Lemma attr_names_nodup : nodupb attr_names = true.
Proof. vm_compute. reflexivity. Qed.
Lemma zindex_not_name : memb s_zIndex attr_names = false.
Proof. vm_compute. reflexivity. Qed.
Lemma zindex_self : memb s_zIndex (s_zIndex :: attr_names) = true.
Proof. vm_compute. reflexivity. Qed.

(* ================= attr_vals ================= *)
Lemma attr_vals_app l a b : attr_vals l (a ++ b) = attr_vals l a ++ attr_vals l b.
Proof.
  induction a as [|[n v] a IH]; [reflexivity|]. cbn [app attr_vals]. rewrite IH.
  destruct (str_eqb (x_local n) l); reflexivity.
Qed.

Definition ol (v : option str) : list str := match v with Some v => [v] | None => [] end.
Definition slot_attr (p : str * option str) : list xattr :=
  match snd p with Some v => [(nm ns_tts (fst p), v)] | None => [] end.
Definition slots (ns : list str) (vs : list (option str)) : list xattr := flat_map slot_attr (combine ns vs).
Definition ztail (z : option Z) : list xattr := match z with Some z => [(nm ns_tts s_zIndex, itoa_z z)] | None => [] end.

Lemma out_attrs_eq a : out_attrs a = slots attr_names (ta_s a) ++ ztail (ta_z a).
Proof. reflexivity. Qed.

Lemma slot_attr_vals l n v : attr_vals l (slot_attr (n, v)) = if str_eqb n l then ol v else [].
Proof. unfold slot_attr. cbn [snd fst]. destruct v as [v|]; cbn [attr_vals x_local nm ol]; destruct (str_eqb n l); reflexivity. Qed.

Lemma slots_cons n ns v vs : slots (n :: ns) (v :: vs) = slot_attr (n, v) ++ slots ns vs.
Proof. reflexivity. Qed.

Lemma slots_miss l ns : forall vs, memb l ns = false -> attr_vals l (slots ns vs) = [].
Proof.
  induction ns as [|n ns IH]; intros vs H; [reflexivity|].
  destruct vs as [|v vs]; [reflexivity|].
  unfold memb in H. cbn [existsb] in H. apply orb_false_iff in H. destruct H as [H1 H2].
  rewrite slots_cons, attr_vals_app, slot_attr_vals, (str_eqb_sym n l), H1. cbn [app]. apply IH. exact H2.
Qed.

Lemma slots_hit ns : forall vs, nodupb ns = true -> length vs = length ns ->
  map (fun n => attr_vals n (slots ns vs)) ns = map ol vs.
Proof.
  induction ns as [|n ns IH]; intros vs Hd Hl.
  - destruct vs; [reflexivity | discriminate].
  - destruct vs as [|v vs]; [discriminate|]. cbn [length] in Hl. injection Hl as Hl.
    cbn [nodupb] in Hd. apply andb_true_iff in Hd. destruct Hd as [Hn Hd]. apply negb_true_iff in Hn.
    cbn [map]. f_equal.
    + rewrite slots_cons, attr_vals_app, slot_attr_vals, str_eqb_refl, (slots_miss n ns vs Hn). apply app_nil_r.
    + rewrite <- (IH vs Hd Hl). apply map_ext_in. intros n' Hin.
      rewrite slots_cons, attr_vals_app, slot_attr_vals.
      assert (E : str_eqb n n' = false).
      { destruct (str_eqb n n') eqn:E; [|reflexivity]. apply str_eqb_eq in E. subst n'.
        rewrite (memb_In n ns Hin) in Hn. discriminate. }
      rewrite E. reflexivity.
Qed.

Lemma ztail_vals_z z : attr_vals s_zIndex (ztail z) = match z with Some z => [itoa_z z] | None => [] end.
Proof. destruct z; reflexivity. Qed.

Lemma ztail_vals_miss l z : str_eqb s_zIndex l = false -> attr_vals l (ztail z) = [].
Proof. intros H. destruct z as [z|]; [|reflexivity]. cbn [ztail attr_vals x_local nm]. rewrite H. reflexivity. Qed.

Definition pre_ok (pre : list xattr) : bool := forallb (fun nv => other (x_local (fst nv))) pre.

Lemma pre_vals l pre : pre_ok pre = true -> other l = false -> attr_vals l pre = [].
Proof.
  intros Hp Hl. induction pre as [|[n v] pre IH]; [reflexivity|].
  unfold pre_ok in Hp. cbn [forallb fst] in Hp. apply andb_true_iff in Hp. destruct Hp as [Hn Hp].
  cbn [attr_vals]. destruct (str_eqb (x_local n) l) eqn:E.
  - apply str_eqb_eq in E. rewrite E, Hl in Hn. discriminate.
  - apply IH. exact Hp.
Qed.

(* a name outside the inline attributes is not found among the written inline attributes *)
Lemma out_attrs_other l a : other l = true -> attr_vals l (out_attrs a) = [].
Proof.
  intros H. unfold other in H. apply negb_true_iff in H. unfold memb in H. cbn [existsb] in H.
  apply orb_false_iff in H. destruct H as [H1 H2].
  rewrite out_attrs_eq, attr_vals_app, (slots_miss l attr_names (ta_s a) H2).
  rewrite ztail_vals_miss; [reflexivity|]. rewrite str_eqb_sym. exact H1.
Qed.

Lemma name_not_other n : In n attr_names -> other n = false.
Proof. intros H. unfold other. apply negb_false_iff. apply memb_In. right. exact H. Qed.

Lemma name_not_zindex n : In n attr_names -> str_eqb s_zIndex n = false.
Proof.
  intros H. destruct (str_eqb s_zIndex n) eqn:E; [|reflexivity]. apply str_eqb_eq in E. subst n.
  pose proof zindex_not_name as Hz. rewrite (memb_In _ _ H) in Hz. discriminate.
Qed.

(* ================= integers ================= *)
Lemma parse_int_nonnil v : v <> [] -> parse_int_attr v = atoi (trim_space v).
Proof. destruct v; [contradiction | reflexivity]. Qed.

Lemma parse_itoa_z z : (- max_int64 - 1 <= z <= max_int64)%Z -> parse_int_attr (itoa_z z) = Some z.
Proof.
  intros Hz. destruct z as [|p|p].
  - reflexivity.
  - rewrite itoa_z_nonneg by lia.
    pose proof (itoa_nonnil (Z.to_N (Z.pos p))) as Hne.
    rewrite (parse_int_nonnil _ Hne).
    rewrite (digits_trim _ (itoa_digits _) Hne). rewrite atoi_itoa by lia. reflexivity.
  - unfold itoa_z. rewrite parse_int_nonnil by discriminate.
    pose proof (itoa_nonnil (N.pos p)) as Hne. pose proof (itoa_digits (N.pos p)) as Hd.
    assert (Ht : trim_space (45 :: itoa (N.pos p)) = 45 :: itoa (N.pos p)).
    { apply trim_space_plain; [discriminate | reflexivity |].
      destruct (@exists_last _ (itoa (N.pos p)) Hne) as (s' & z & E). rewrite E.
      change (45 :: s' ++ [z]) with ((45 :: s') ++ [z]). rewrite last_last.
      apply is_digit_plain. apply (digits_in _ z Hd). rewrite E. apply in_or_app. right. left. reflexivity. }
    rewrite Ht. unfold atoi. rewrite atoi_digits_itoa.
    destruct ((- Z.of_N (N.pos p) <? - max_int64 - 1)%Z || (max_int64 <? - Z.of_N (N.pos p))%Z) eqn:B.
    + apply orb_true_iff in B. unfold max_int64 in *. destruct B as [B|B]; apply Z.ltb_lt in B; lia.
    + f_equal.
Qed.

Lemma attrs_ok_parts a : attrs_ok a = true ->
  length (ta_s a) = length attr_names /\
  match ta_z a with Some z => (- max_int64 - 1 <= z <= max_int64)%Z | None => True end.
Proof.
  unfold attrs_ok. intros H. apply andb_true_iff in H. destruct H as [H1 H2]. apply Nat.eqb_eq in H1.
  split; [exact H1|]. destruct (ta_z a) as [z|]; [|exact I]. lia.
Qed.

(* ================= the inline attributes are read back ================= *)
Theorem read_out_attrs pre a : pre_ok pre = true -> attrs_ok a = true ->
  tt_read_attrs (pre ++ out_attrs a) = Some a.
Proof.
  intros Hp Ha. apply attrs_ok_parts in Ha. destruct Ha as [Hl Hz]. destruct a as [vs z]. cbn [ta_s ta_z] in *.
  unfold tt_read_attrs.
  assert (Ez : int_attr s_zIndex (pre ++ out_attrs (mkTA vs z)) = Some z).
  { unfold int_attr. rewrite attr_vals_app, (pre_vals s_zIndex pre Hp) by reflexivity.
    rewrite out_attrs_eq, attr_vals_app, (slots_miss _ _ _ zindex_not_name). cbn [app ta_s ta_z].
    rewrite ztail_vals_z. destruct z as [z|]; [|reflexivity]. cbn [fold_left]. rewrite (parse_itoa_z z Hz). reflexivity. }
  rewrite Ez. f_equal. f_equal.
  transitivity (map (fun x => last (map Some x) None) (map (fun n => attr_vals n (slots attr_names vs)) attr_names)).
  - rewrite map_map. apply map_ext_in. intros n Hin. unfold attr_last.
    rewrite attr_vals_app, (pre_vals n pre Hp (name_not_other n Hin)).
    rewrite out_attrs_eq, attr_vals_app. cbn [ta_s ta_z app].
    rewrite (ztail_vals_miss n z (name_not_zindex n Hin)), app_nil_r. reflexivity.
  - rewrite (slots_hit attr_names vs attr_names_nodup Hl), map_map.
    rewrite <- (map_id vs) at 2. apply map_ext. intros [v|]; reflexivity.
Qed.

(* ================= optional attributes ================= *)
Definition ov (v : option str) : str := match v with Some v => v | None => [] end.
Lemma opt_attr_vals_hit sp l v : attr_vals l (opt_attr sp l v) = match v with Some (c :: r) => [c :: r] | _ => [] end.
Proof. destruct v as [[|c r]|]; try reflexivity. cbn [opt_attr attr_vals x_local nm]. rewrite str_eqb_refl. reflexivity. Qed.
Lemma opt_attr_vals_miss sp l l' v : str_eqb l' l = false -> attr_vals l (opt_attr sp l' v) = [].
Proof. intros H. destruct v as [[|c r]|]; try reflexivity. cbn [opt_attr attr_vals x_local nm]. rewrite H. reflexivity. Qed.
Lemma opt_attr_pre_ok sp l v : other l = true -> pre_ok (opt_attr sp l v) = true.
Proof. intros H. destruct v as [[|c r]|]; try reflexivity. unfold pre_ok. cbn [opt_attr forallb fst x_local nm]. rewrite H. reflexivity. Qed.
Lemma pre_ok_app a b : pre_ok a = true -> pre_ok b = true -> pre_ok (a ++ b) = true.
Proof. unfold pre_ok. intros Ha Hb. rewrite forallb_app. apply andb_true_iff. split; assumption. Qed.

(* a written reference reads back as itself *)
Lemma ref_in_cases {V} (m : list (str * V)) r : ref_in m r = true ->
  r = None \/ exists c k, r = Some (c :: k) /\ map_mem (c :: k) m = true.
Proof.
  destruct r as [[|c k]|]; cbn [ref_in]; intros H; [discriminate | right; exists c, k; split; [reflexivity | exact H] | left; reflexivity].
Qed.

Lemma attr_str_single l attrs v : attr_vals l attrs = [v] -> attr_str l attrs = v.
Proof. intros H. unfold attr_str, attr_last. rewrite H. reflexivity. Qed.
Lemma attr_str_none l attrs : attr_vals l attrs = [] -> attr_str l attrs = [].
Proof. intros H. unfold attr_str, attr_last. rewrite H. reflexivity. Qed.

(* the attribute value of an optional reference: the reference itself *)
Lemma attr_str_ref l attrs (r : option str) :
  attr_vals l attrs = match r with Some (c :: k) => [c :: k] | _ => [] end ->
  (r = None \/ exists c k, r = Some (c :: k)) ->
  attr_str l attrs = ov r /\ opt_ref (attr_str l attrs) = r.
Proof.
  intros H [->|(c & k & ->)].
  - rewrite (attr_str_none _ _ H). split; reflexivity.
  - rewrite (attr_str_single _ _ _ H). split; reflexivity.
Qed.

(* ================= maps ================= *)
Definition slt (a b : str) : Prop := sleb a b = true /\ a <> b.

Lemma slt_trans a b c : slt a b -> slt b c -> slt a c.
Proof.
  intros [H1 N1] [H2 N2]. split; [exact (sleb_trans a b c H1 H2)|].
  intros E. subst c. apply N1. apply sleb_antisym; assumption.
Qed.

Lemma keys_increasing_cons a b r : keys_increasing (a :: b :: r) = true -> slt a b /\ keys_increasing (b :: r) = true.
Proof.
  cbn [keys_increasing]. intros H. apply andb_true_iff in H. destruct H as [H H3].
  apply andb_true_iff in H. destruct H as [H1 H2]. apply negb_true_iff in H2.
  split; [|exact H3]. split; [exact H1|]. intros E. subst b. rewrite str_eqb_refl in H2. discriminate.
Qed.

Lemma keys_increasing_sorted ks : keys_increasing ks = true -> StronglySorted slt ks.
Proof.
  induction ks as [|a r IH]; intros H; [constructor|].
  destruct r as [|b r'].
  - constructor; [constructor | constructor].
  - apply keys_increasing_cons in H. destruct H as [Hab Hr]. specialize (IH Hr).
    constructor; [exact IH|]. constructor; [exact Hab|].
    apply StronglySorted_inv in IH. destruct IH as [_ Hb].
    rewrite Forall_forall in *. intros x Hx. exact (slt_trans a b x Hab (Hb x Hx)).
Qed.

Lemma keys_increasing_nodup ks : keys_increasing ks = true -> NoDup ks.
Proof.
  intros H. apply keys_increasing_sorted in H. induction H as [|a r Hs IH Ha]; constructor; [|exact IH].
  intros Hin. rewrite Forall_forall in Ha. destruct (Ha a Hin) as [_ N]. apply N. reflexivity.
Qed.

(* sorting the keys of an increasing map changes nothing *)
Lemma sort_keys_id {V} (m : list (str * V)) : keys_increasing (map fst m) = true -> sort_keys m = m.
Proof.
  unfold sort_keys. induction m as [|[k v] r IH]; intros H; [reflexivity|].
  cbn [gsort fold_right]. fold (gsort (@key_leb V) r).
  destruct r as [|[k' v'] r'].
  - reflexivity.
  - cbn [map fst] in H. apply keys_increasing_cons in H. destruct H as [[Hkk _] Hr].
    rewrite (IH Hr). cbn [ginsert]. unfold key_leb at 1. cbn [fst]. rewrite Hkk. reflexivity.
Qed.

Lemma map_set_fresh {V} k (v : V) m : ~ In k (map fst m) -> map_set k v m = m ++ [(k, v)].
Proof.
  induction m as [|[k' v'] r IH]; intros H; [reflexivity|].
  cbn [map_set]. cbn [map fst] in H.
  rewrite str_eqb_false by (intros E; apply H; left; symmetry; exact E).
  cbn [app]. f_equal. apply IH. intros Hin. apply H. right. exact Hin.
Qed.

Lemma add_all_app m2 : forall m1, NoDup (map fst (m1 ++ m2)) ->
  forallb (fun kv => str_eqb (fst kv) (ts_id (snd kv))) m2 = true ->
  add_all (map snd m2) m1 = m1 ++ m2.
Proof.
  induction m2 as [|[k s] r IH]; intros m1 Hd Hid.
  - cbn [map add_all fold_left]. unfold add_all. cbn [fold_left]. rewrite app_nil_r. reflexivity.
  - cbn [forallb fst snd] in Hid. apply andb_true_iff in Hid. destruct Hid as [Hk Hid]. apply str_eqb_eq in Hk.
    unfold add_all. cbn [map snd fold_left]. fold (add_all (map snd r) (map_set (ts_id s) s m1)).
    rewrite <- Hk.
    assert (Hfresh : ~ In k (map fst m1)).
    { rewrite map_app in Hd. cbn [map fst] in Hd. apply NoDup_remove_2 in Hd.
      intros Hin. apply Hd. apply in_or_app. left. exact Hin. }
    rewrite (map_set_fresh k s m1 Hfresh).
    rewrite IH; [rewrite <- app_assoc; reflexivity | rewrite <- app_assoc; exact Hd | exact Hid].
Qed.

Theorem add_all_map_ok m : map_ok m = true -> add_all (map snd m) [] = m.
Proof.
  unfold map_ok. intros H. apply andb_true_iff in H. destruct H as [H1 H2].
  apply (add_all_app m []); [cbn [app]; apply keys_increasing_nodup; exact H1 | exact H2].
Qed.

Theorem sort_keys_map_ok m : map_ok m = true -> sort_keys m = m.
Proof. unfold map_ok. intros H. apply andb_true_iff in H. destruct H as [H1 _]. apply sort_keys_id. exact H1. Qed.

(* ================= map_res ================= *)
Lemma map_res_ok {A B} (f : A -> res B) (g : A -> B) l : (forall a, In a l -> f a = Ok (g a)) -> map_res f l = Ok (map g l).
Proof.
  induction l as [|a r IH]; intros H; [reflexivity|].
  cbn [map_res map]. rewrite (H a (or_introl eq_refl)). cbn [bind].
  rewrite IH by (intros x Hx; apply H; right; exact Hx). reflexivity.
Qed.
