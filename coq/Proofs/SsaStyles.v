(* SSA/ASS styles block: the Format line the writer builds names every attribute some style sets; the block is read
   back as the styles that were written. *)
From Coq Require Import List ZArith NArith Bool Lia.
From Astisub Require Import Kit.Base Kit.Str Kit.Scan Model.Dur Model.Ssa.
From Astisub Require Import Proofs.VttBase Proofs.ScanProofs Proofs.EolProofs Proofs.SsaFields Proofs.SsaTrim Proofs.SsaRows Proofs.SsaLines Proofs.SsaInfo.
Import ListNotations.
Open Scope N_scope.

(* ---- the format built by updateFormat ---- *)
Lemma sattr_eqb_eq a b : sattr_eqb a b = true -> a = b.
Proof.
  destruct a as [x|x|x|x| |]; try destruct x; destruct b as [y|y|y|y| |]; try destruct y;
    intros H; try reflexivity; vm_compute in H; discriminate H.
Qed.
Lemma existsb_sattr a f : existsb (sattr_eqb a) f = true -> In a f.
Proof. intros H. apply existsb_exists in H. destruct H as (b & Hb & E). apply sattr_eqb_eq in E. subst. exact Hb. Qed.

Definition upd_step (s : astyle) (f : list sattr) (a : sattr) : list sattr :=
  if sattr_present a s && negb (existsb (sattr_eqb a) f) then f ++ [a] else f.
Lemma upd_fold s l : forall f,
  let r := fold_left (upd_step s) l f in
  (exists ext, r = f ++ ext /\ forall a, In a ext -> In a l) /\
  (forall a, In a l -> sattr_present a s = true -> In a r).
Proof.
  induction l as [|a l IH]; intros f; cbn zeta; cbn [fold_left].
  - split; [exists []; split; [symmetry; apply app_nil_r | intros a []] | intros a []].
  - specialize (IH (upd_step s f a)). cbn zeta in IH. destruct IH as ((ext & Er & Hext) & Hcov).
    assert (Hf' : (upd_step s f a = f ++ [a]) \/ (upd_step s f a = f /\ (sattr_present a s = true -> In a f))).
    { unfold upd_step. destruct (sattr_present a s) eqn:Ep; cbn [andb]; [|right; split; [reflexivity | discriminate]].
      destruct (existsb (sattr_eqb a) f) eqn:E; cbn [negb];
        [right; split; [reflexivity | intros _; apply existsb_sattr; exact E] | left; reflexivity]. }
    split.
    + destruct Hf' as [Hf'|[Hf' _]]; rewrite Hf' in Er |- *.
      * exists (a :: ext). split; [rewrite Er, <- app_assoc; reflexivity|].
        intros b [<-|Hb]; [left; reflexivity | right; apply Hext; exact Hb].
      * exists ext. split; [exact Er|]. intros b Hb. right. apply Hext. exact Hb.
    + intros b [<-|Hb] Hp; [|apply Hcov; assumption]. rewrite Er. apply in_or_app. left.
      clear Er. destruct Hf' as [Hf'|[Hf' Hin]]; rewrite Hf'; [apply in_or_app; right; left; reflexivity | apply Hin; exact Hp].
Qed.
Lemma update_format_spec s f :
  (exists ext, update_format s f = f ++ ext /\ forall a, In a ext -> In a sattrs_update_order) /\
  (forall a, In a sattrs_update_order -> sattr_present a s = true -> In a (update_format s f)).
Proof. exact (upd_fold s sattrs_update_order f). Qed.

Lemma fold_left_cons {A B} (F : A -> B -> A) x l a : fold_left F (x :: l) a = fold_left F l (F a x).
Proof. reflexivity. Qed.
Definition style_fmt (sts : list astyle) : list sattr := fold_left (fun f st => update_format st f) sts [AName].
Lemma style_fmt_fold sts : forall f,
  (exists ext, fold_left (fun f st => update_format st f) sts f = f ++ ext /\ forall a, In a ext -> In a sattrs_update_order) /\
  (forall st a, In st sts -> In a sattrs_update_order -> sattr_present a st = true ->
                In a (fold_left (fun f st => update_format st f) sts f)).
Proof.
  induction sts as [|st sts IH]; intros f.
  - split; [exists []; split; [symmetry; apply app_nil_r | intros a []] | intros st a []].
  - rewrite !fold_left_cons.
    destruct (update_format_spec st f) as ((e1 & E1 & H1) & C1).
    generalize dependent (update_format st f). intros g E1 C1.
    destruct (IH g) as ((e2 & E2 & H2) & C2). split.
    + exists (e1 ++ e2). split; [rewrite E2, E1, <- app_assoc; reflexivity|].
      intros a Ha. apply in_app_or in Ha. destruct Ha; auto.
    + intros st' a [<-|Hin] Ha Hp; [|apply (C2 st' a); assumption].
      rewrite E2. apply in_or_app. left. apply C1; assumption.
Qed.
Lemma name_not_updated : ~ In AName sattrs_update_order.
Proof. vm_compute. intros H. repeat (destruct H as [H|H]; [discriminate|]). exact H. Qed.
Lemma sets_present a st : a <> AName -> sets a st -> In a sattrs_update_order /\ sattr_present a st = true.
Proof.
  intros Hn Hs. unfold sets in Hs. destruct st. destruct a as [x|x|x|x| |]; try destruct x; cbn in *;
    try contradiction;
    (split; [vm_compute; tauto|]);
    match goal with |- match ?o with _ => _ end = true => destruct o; [reflexivity | exfalso; apply Hs; reflexivity] || (destruct o; [exfalso; apply Hs; reflexivity | reflexivity]) end.
Qed.
Lemma style_fmt_covers sts : exists attrs, style_fmt sts = AName :: attrs /\ ~ In AName attrs /\
  forall st a, In st sts -> a <> AName -> sets a st -> In a attrs.
Proof.
  unfold style_fmt. destruct (style_fmt_fold sts [AName]) as ((ext & E & Hext) & Hcov).
  exists ext. split; [exact E|]. split.
  - intros Hin. apply name_not_updated. apply Hext. exact Hin.
  - intros st a Hst Hn Hs. destruct (sets_present a st Hn Hs) as [Hu Hp].
    specialize (Hcov st a Hst Hu Hp). rewrite E in Hcov. destruct Hcov as [Heq|Hin]; [congruence | exact Hin].
Qed.

(* ---- string-keyed association lists ---- *)
Lemma sm_get_map {V} (f : astyle -> V) sts st : NoDup (map ay_name sts) -> In st sts ->
  sm_get (ay_name st) (map (fun x => (ay_name x, f x)) sts) = Some (f st).
Proof.
  induction sts as [|x r IH]; intros Hnd Hin; [destruct Hin|]. cbn [map sm_get]. cbn [map] in Hnd.
  inversion Hnd as [|? ? Hx Hr]; subst. destruct Hin as [<-|Hin]; [rewrite str_eqb_refl; reflexivity|].
  destruct (str_eqb (ay_name st) (ay_name x)) eqn:E; [|apply IH; assumption].
  apply str_eqb_eq in E. exfalso. apply Hx. rewrite <- E. apply in_map. exact Hin.
Qed.
Lemma sm_get_none {V} k (m : list (str * V)) : ~ In k (map fst m) -> sm_get k m = None.
Proof.
  induction m as [|[k' v] r IH]; intros H; [reflexivity|]. cbn [sm_get]. destruct (str_eqb k k') eqn:E.
  - apply str_eqb_eq in E. exfalso. apply H. left. symmetry. exact E.
  - apply IH. intros Hi. apply H. right. exact Hi.
Qed.
Lemma sm_set_fresh {V} k (v : V) m : ~ In k (map fst m) -> sm_set k v m = m ++ [(k, v)].
Proof.
  induction m as [|[k' v'] r IH]; intros H; [reflexivity|]. cbn [sm_set]. destruct (str_eqb k k') eqn:E.
  - apply str_eqb_eq in E. exfalso. apply H. left. symmetry. exact E.
  - cbn [app]. f_equal. apply IH. intros Hi. apply H. right. exact Hi.
Qed.
Lemma sm_mem_in {V} k (m : list (str * V)) : In k (map fst m) -> sm_mem k m = true.
Proof.
  induction m as [|[k' v] r IH]; intros H; [destruct H|]. cbn [sm_mem]. destruct H as [<-|H]; [rewrite str_eqb_refl; reflexivity|].
  rewrite (IH H). apply orb_true_r.
Qed.
Lemma fold_sm_set {V} (f : astyle -> V) sts : forall m, NoDup (map fst m ++ map ay_name sts) ->
  fold_left (fun m st => sm_set (ay_name st) (f st) m) sts m = m ++ map (fun st => (ay_name st, f st)) sts.
Proof.
  induction sts as [|x r IH]; intros m Hnd; cbn [fold_left map]; [symmetry; apply app_nil_r|].
  cbn [map] in Hnd. rewrite sm_set_fresh.
  - rewrite IH; [rewrite <- app_assoc; reflexivity|]. rewrite map_app. cbn [map fst]. rewrite <- app_assoc. exact Hnd.
  - apply NoDup_remove_2 in Hnd. intros Hi. apply Hnd. apply in_or_app. left. exact Hi.
Qed.

(* sort.Strings on a sorted list *)
Fixpoint sortedb (l : list str) : bool :=
  match l with
  | a :: r => match r with b :: _ => str_leb a b && sortedb r | [] => true end
  | [] => true
  end.
Lemma ssort_sorted l : sortedb l = true -> ssort l = l.
Proof.
  induction l as [|a r IH]; intros H; [reflexivity|]. cbn [ssort fold_right]. fold (ssort r).
  cbn [sortedb] in H. destruct r as [|b r'].
  - reflexivity.
  - apply andb_true_iff in H. destruct H as [Hab Hr]. rewrite (IH Hr). cbn [sinsert]. rewrite Hab. reflexivity.
Qed.

(* ---- the block as lines ---- *)
(* a representable style: values in range, a non-empty name, both strings comma-free, on one line and untouched by
   the reader's trimming *)
Definition style_repr (st : astyle) : Prop :=
  style_ok st /\ ay_name st <> [] /\ str_ok (ay_name st) /\ str_ok (ay_fontname st).
(* the styles of a document as an association list sorted by name, each under its own name *)
Definition styles_repr (m : list (str * option astyle)) (sts : list astyle) : Prop :=
  m = map (fun st => (ay_name st, Some st)) sts /\ NoDup (map ay_name sts) /\ sortedb (map ay_name sts) = true /\
  Forall style_repr sts.

Definition styles_lines (v4p : bool) (sts : list astyle) : list str :=
  [[]; if v4p then n_styles_hdr_v4p else n_styles_hdr_v4;
   n_format_pfx ++ join comma_sp (map sattr_name (style_fmt sts))] ++
  map (fun st => n_style_pfx ++ style_string st (style_fmt sts)) sts.

Lemma opt_cells_somes {A} (l : list A) : opt_cells (map Some l) = l.
Proof. induction l as [|x r IH]; [reflexivity|]. cbn [map opt_cells]. rewrite IH. reflexivity. Qed.

Lemma styles_bytes_lines d sts : styles_repr (ad_styles d) sts ->
  styles_bytes d (style_keys d) = render_eol [10] (styles_lines (is_v4plus d) sts).
Proof.
  intros (Em & Hnd & Hsort & _). unfold styles_bytes, style_keys. rewrite Em.
  assert (Ekeys : map fst (map (fun st => (ay_name st, Some st)) sts) = map ay_name sts).
  { rewrite map_map. reflexivity. }
  rewrite Ekeys.
  assert (Efilter : filter (fun k => match sm_get k (map (fun st => (ay_name st, Some st)) sts) with Some (Some _) => true | _ => false end)
                           (map ay_name sts) = map ay_name sts).
  { apply filter_all. apply forallb_forall. intros k Hk. apply in_map_iff in Hk. destruct Hk as (st & <- & Hst).
    rewrite (sm_get_map (fun x => Some x) sts st Hnd Hst). reflexivity. }
  rewrite Efilter, (ssort_sorted _ Hsort).
  assert (Ests : opt_cells (map (fun k => match sm_get k (map (fun st => (ay_name st, Some st)) sts) with Some o => o | None => None end)
                                (map ay_name sts)) = sts).
  { rewrite map_map. transitivity (opt_cells (map Some sts)); [|apply opt_cells_somes]. f_equal. apply map_ext_in. intros st Hst.
    rewrite (sm_get_map (fun x => Some x) sts st Hnd Hst). reflexivity. }
  rewrite Ests. fold (style_fmt sts). rewrite (ssort_sorted _ Hsort).
  rewrite (fold_sm_set (fun st => st) sts []) by exact Hnd. cbn [app].
  unfold styles_lines. rewrite render_app. unfold render_eol at 1. cbn [map concat]. unfold nl.
  assert (Erows : concat (map (fun n => match sm_get n (map (fun st => (ay_name st, st)) sts) with
                                        | Some st => n_style_pfx ++ style_string st (style_fmt sts) ++ [10]
                                        | None => []
                                        end) (map ay_name sts)) =
                  render_eol [10] (map (fun st => n_style_pfx ++ style_string st (style_fmt sts)) sts)).
  { rewrite map_map. unfold render_eol. rewrite map_map. f_equal. apply map_ext_in. intros st Hst.
    rewrite (sm_get_map (fun x => x) sts st Hnd Hst). rewrite <- !app_assoc. reflexivity. }
  rewrite Erows, app_nil_r, <- !app_assoc. reflexivity.
Qed.

(* ---- reading the block ---- *)
Definition n_style : str := [83; 116; 121; 108; 101].
Lemma format_pfx_eq : n_format_pfx = n_format ++ colon_sp. Proof. reflexivity. Qed.
Lemma style_pfx_eq : n_style_pfx = n_style ++ colon_sp. Proof. reflexivity. Qed.
Lemma format_hdr_ok : hdr_ok n_format.
Proof.
  split; [repeat split; try reflexivity; discriminate|]. split; [|reflexivity].
  vm_compute; intros H; repeat (destruct H as [H|H]; [discriminate|]); exact H.
Qed.
Lemma style_hdr_ok : hdr_ok n_style.
Proof.
  split; [repeat split; try reflexivity; discriminate|]. split; [|reflexivity].
  vm_compute; intros H; repeat (destruct H as [H|H]; [discriminate|]); exact H.
Qed.
Lemma sattr_name_clean a : cell_clean (sattr_name a) /\ sattr_name a <> [].
Proof. destruct a as [x|x|x|x| |]; try destruct x; (split; [reflexivity | discriminate]). Qed.

Lemma format_step s names : (rs_sect s = SStyles \/ rs_sect s = SEvents) -> rs_fmt s = [] ->
  names <> [] -> Forall (fun n => cell_clean n /\ n <> []) names ->
  ssa_step s false (n_format_pfx ++ join comma_sp names) =
  Ok (mkRstate (rs_sect s) names (rs_info s) (rs_styles s) (rs_events s)).
Proof.
  intros Hs Hf Hne HF. destruct (format_value_ok names Hne HF) as (Hn & Ht & _).
  rewrite format_pfx_eq, <- app_assoc.
  rewrite (kv_step s n_format _ format_hdr_ok Hn Ht) by (destruct Hs as [-> | ->]; discriminate).
  unfold kv_dispatch. destruct s as [sect fmt info sts evs]. cbn [rs_sect rs_fmt rs_info rs_styles rs_events] in *. subst fmt.
  assert (En : map trim_space (split_byte comma (join comma_sp names)) = names).
  { apply format_line_names; [exact Hne|]. apply Forall_forall. intros n Hn'. rewrite Forall_forall in HF. apply HF. exact Hn'. }
  destruct Hs as [-> | ->]; change (str_eqb n_format n_format) with true; cbv iota; rewrite En; unfold overlay;
    rewrite skipn_nil, app_nil_r; reflexivity.
Qed.

Lemma last_in {A} (x : A) l d : In (last (x :: l) d) (x :: l).
Proof.
  revert x. induction l as [|y r IH]; intros x; [left; reflexivity|]. right. apply IH.
Qed.
Lemma join_nonnil sep x r : x <> [] -> join sep (x :: r) <> [].
Proof. intros Hx. destruct r; cbn [join]; [exact Hx|]. destruct x; [contradiction | discriminate]. Qed.

Lemma cell_of_ok st a : style_repr st -> a <> AName -> str_ok (cell_of st a) /\ ~ In 44 (cell_of st a).
Proof.
  intros (Hok & _ & _ & Hfn) Ha. destruct (written_cell_denotes a st Hok Ha) as [_ Hnc]. split; [|exact Hnc].
  destruct Hok as (Hc & _). unfold cell_of.
  assert (Hclean : forall s, cell_clean s -> str_ok s) by (intros s Hs; split; [apply cell_clean_trim | apply cell_clean_nobrk]; exact Hs).
  destruct a as [x|x|x|x| |]; cbn [style_cell_string].
  - destruct (bget x st); apply Hclean; [apply format_bool_clean | reflexivity].
  - destruct (cget x st) as [c|] eqn:E; apply Hclean; [apply format_color_clean; exact (Hc x c E) | reflexivity].
  - destruct (fget x st); apply Hclean; [apply format_float3_clean | reflexivity].
  - destruct (iget x st); apply Hclean; [apply itoa_z_clean | reflexivity].
  - exact Hfn.
  - contradiction.
Qed.

Lemma style_row_value st attrs : style_repr st -> ~ In AName attrs ->
  let v := style_string st (AName :: attrs) in v <> [] /\ trim_space v = v /\ brkfree v.
Proof.
  intros Hr Hn v. unfold v. rewrite (style_string_cells st attrs Hn).
  destruct Hr as (Hok & Hne & Hname & Hfn).
  assert (Hcells : forall c, In c (ay_name st :: map (cell_of st) attrs) -> str_ok c).
  { intros c [<-|Hc]; [exact Hname|]. apply in_map_iff in Hc. destruct Hc as (a & <- & Ha).
    refine (proj1 (cell_of_ok st a (conj Hok (conj Hne (conj Hname Hfn))) _)). intros ->. contradiction. }
  split; [apply join_nonnil; exact Hne|]. split.
  - apply trim_join; [exact Hne | apply Hname | apply Hcells, last_in].
  - unfold brkfree. apply forallb_forall. intros b Hb. apply in_join in Hb. destruct Hb as [[<-|[]]|(w & Hw & Hb)]; [reflexivity|].
    destruct (Hcells w Hw) as [_ Hbf]. unfold brkfree in Hbf. rewrite forallb_forall in Hbf. apply Hbf. exact Hb.
Qed.

Lemma style_row_step s st attrs : style_repr st -> ~ In AName attrs ->
  (forall a, a <> AName -> sets a st -> In a attrs) ->
  rs_sect s = SStyles -> rs_fmt s = map sattr_name (AName :: attrs) ->
  ssa_step s false (n_style_pfx ++ style_string st (AName :: attrs)) =
  Ok (mkRstate SStyles (rs_fmt s) (rs_info s) (rs_styles s ++ [st]) (rs_events s)).
Proof.
  intros Hr Hn Hcov Hs Hf. destruct (style_row_value st attrs Hr Hn) as (Hne & Ht & _).
  rewrite style_pfx_eq, <- app_assoc.
  rewrite (kv_step s n_style _ style_hdr_ok Hne Ht) by (rewrite Hs; discriminate).
  unfold kv_dispatch. destruct s as [sect fmt info sts evs]. cbn [rs_sect rs_fmt rs_info rs_styles rs_events] in *. subst sect fmt.
  change (str_eqb n_style n_format) with false. cbv iota.
  destruct Hr as (Hok & _).
  rewrite (style_row_roundtrip_full st attrs Hok Hn Hcov). reflexivity.
Qed.

Lemma style_rows_run attrs l : forall s, Forall style_repr l -> ~ In AName attrs ->
  (forall st a, In st l -> a <> AName -> sets a st -> In a attrs) ->
  rs_sect s = SStyles -> rs_fmt s = map sattr_name (AName :: attrs) ->
  ssa_run s false (map (fun st => n_style_pfx ++ style_string st (AName :: attrs)) l) =
  Ok (mkRstate SStyles (rs_fmt s) (rs_info s) (rs_styles s ++ l) (rs_events s)).
Proof.
  induction l as [|st r IH]; intros s HF Hn Hcov Hs Hf.
  - cbn [map ssa_run]. rewrite app_nil_r. destruct s; cbn in *; subst; reflexivity.
  - inversion HF as [|? ? Hst HF']; subst. cbn [map ssa_run].
    rewrite (style_row_step s st attrs Hst Hn (fun a => Hcov st a (or_introl eq_refl)) Hs Hf).
    rewrite IH; [|exact HF' | exact Hn | intros st' a Hin; apply Hcov; right; exact Hin | reflexivity | exact Hf].
    cbn [rs_fmt rs_info rs_styles rs_events]. rewrite <- app_assoc. reflexivity.
Qed.

(* READING THE STYLES BLOCK *)
Theorem styles_block_read s v4p sts : rs_sect s <> SUnknown -> Forall style_repr sts ->
  ssa_run s false (styles_lines v4p sts) =
  Ok (mkRstate SStyles (map sattr_name (style_fmt sts)) (rs_info s) (rs_styles s ++ sts) (rs_events s)).
Proof.
  intros Hs HF. unfold styles_lines. cbn [app ssa_run]. rewrite blank_step, styles_hdr_step.
  destruct (style_fmt_covers sts) as (attrs & Ef & Hn & Hcov). rewrite Ef.
  rewrite format_step; cbn [rs_sect rs_fmt rs_info rs_styles rs_events].
  - rewrite (style_rows_run attrs sts); cbn [rs_sect rs_fmt rs_info rs_styles rs_events]; try reflexivity; assumption.
  - left. reflexivity.
  - reflexivity.
  - discriminate.
  - apply Forall_forall. intros n Hin. apply in_map_iff in Hin. destruct Hin as (a & <- & _). apply sattr_name_clean.
Qed.
