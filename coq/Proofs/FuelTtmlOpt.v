(* Fuel audit, Model/TtmlOpt.v: topt_mark_chain (value at O: the marks so far, an ordinary-looking result).
   Wrapper: topt_mark_all passes S (length ss).  TtmlOptProofs.topt_mark_chain_spec carries the sufficiency hypothesis
   [topt_unmarked ss used < fuel]; here: above that measure the value does not depend on the fuel. *)
From Coq Require Import List ZArith NArith Bool Lia Arith.
From Astisub Require Import Kit.Base Kit.Str Model.Dur Model.Ttml Model.TtmlOpt Proofs.TtmlOptProofs.
Import ListNotations.

Lemma topt_mark_chain_enough ss : forall n m id used, (topt_unmarked ss used < n)%nat -> (topt_unmarked ss used < m)%nat ->
  topt_mark_chain n ss id used = topt_mark_chain m ss id used.
Proof.
  induction n as [|n IH]; intros m id used Hn Hm; [lia|]. destruct m as [|m]; [lia|].
  cbn [topt_mark_chain]. destruct (topt_mem id used) eqn:Hu; [reflexivity|].
  fold (topt_find ss id). destruct (topt_find ss id) as [kv|] eqn:Hf; [|reflexivity].
  destruct (ts_ref (snd kv)) as [p|]; [|reflexivity].
  pose proof (topt_unmarked_decr ss id used (topt_find_have ss id kv Hf) Hu) as D. apply IH; lia.
Qed.
Theorem topt_mark_chain_indep ss fuel id used : (S (length ss) <= fuel)%nat ->
  topt_mark_chain fuel ss id used = topt_mark_chain (S (length ss)) ss id used.
Proof. intros H. pose proof (topt_unmarked_le ss used). apply topt_mark_chain_enough; lia. Qed.

Definition topt_mark_chain_c (ss : list (str * tstyle)) (id : str) (used : list str) : list str :=
  topt_mark_chain (S (length ss)) ss id used.
Theorem topt_mark_all_c ss roots : topt_mark_all ss roots = fold_left (fun used id => topt_mark_chain_c ss id used) roots [].
Proof. reflexivity. Qed.
Theorem topt_mark_chain_c_eq ss id used :
  topt_mark_chain_c ss id used =
  if topt_mem id used then used
  else match topt_find ss id with
       | Some kv => match ts_ref (snd kv) with
                    | Some p => topt_mark_chain_c ss p (id :: used)
                    | None => id :: used
                    end
       | None => id :: used
       end.
Proof.
  unfold topt_mark_chain_c at 1. cbn [topt_mark_chain]. destruct (topt_mem id used) eqn:Hu; [reflexivity|].
  fold (topt_find ss id). destruct (topt_find ss id) as [kv|] eqn:Hf; [|reflexivity].
  destruct (ts_ref (snd kv)) as [p|]; [|reflexivity].
  pose proof (topt_unmarked_decr ss id used (topt_find_have ss id kv Hf) Hu) as D. pose proof (topt_unmarked_le ss used).
  unfold topt_mark_chain_c. apply topt_mark_chain_enough; lia.
Qed.
