(* SSA/ASS is plain-faithful at the centisecond (C07): every acceptable unstyled cue list is written to a document
   that reads back with the same cues, order and line texts, times truncated to 1/100 s.  Derived from the
   document-level write->read theorem of C04 (Proofs/SsaDoc.v). *)
From Coq Require Import List ZArith NArith Bool Lia.
From Astisub Require Import Kit.Base Kit.Str Model.Plain Model.Ssa Model.PlainSsa.
From Astisub Require Import Proofs.PlainProofs Proofs.SsaRows Proofs.SsaDoc Proofs.SsaRepr.
Import ListNotations.

(* what the format needs of an unstyled cue list: at least one cue; times between 0 and the largest Duration; every
   cue has a line; every line text is free of braces (override blocks), of the two-byte sequences \n and \N (line
   breaks), of line terminators, and is left alone by TrimSpace; so is the text of the whole cue (lines joined by \n) *)
Definition ssa_plain_ok (p : plain) : Prop := doc_repr (ssa_of_plain p).
Definition ssa_plain_okb (p : plain) : bool := doc_reprb (ssa_of_plain p).
Lemma ssa_plain_okb_ok p : ssa_plain_okb p = true -> ssa_plain_ok p.
Proof. apply doc_reprb_ok. Qed.

Lemma ssa_to_plain_canon p : ssa_to_plain (canon_doc (ssa_of_plain p)) = ptrunc ssa_unit p.
Proof.
  unfold ssa_to_plain, canon_doc, ptrunc. cbn [ad_items ssa_of_plain]. rewrite !map_map. apply map_ext.
  intros [[s e] ls]. unfold canon_item. cbn [ai_start ai_end ai_lines]. unfold trunc_cs, trunc_to, ssa_unit. f_equal.
  rewrite !map_map. rewrite <- (map_id ls) at 2. apply map_ext. intros t.
  unfold ssa_line_text. cbn [al_runs map ar_text concat]. apply app_nil_r.
Qed.

Theorem ssa_plain_faithful : plain_faithful ssa_unit ssa_plain_ok ssa_enc ssa_dec.
Proof.
  intros p Hr. destruct (write_read (ssa_of_plain p) Hr) as (data & Hw & Hrd).
  exists data. split; [exact Hw|]. unfold ssa_dec, dec_with. rewrite Hrd. f_equal. apply ssa_to_plain_canon.
Qed.

(* pairs with the two text codecs of Proofs/PlainProofs.v, from the generic theorem *)
Corollary plain_srt_to_ssa p : srt_plain_ok p -> ssa_plain_ok (ptrunc 1000000 p) ->
  exists src dst, srt_enc p = Ok src /\ convert_plain srt_dec ssa_enc src = Ok dst /\
                  ssa_dec dst = Ok (ptrunc ssa_unit (ptrunc 1000000 p)).
Proof. apply (plain_pair _ _ _ _ _ _ _ _ srt_plain_faithful ssa_plain_faithful). Qed.
Corollary plain_ssa_to_vtt p : ssa_plain_ok p -> vtt_plain_ok (ptrunc ssa_unit p) ->
  exists src dst, ssa_enc p = Ok src /\ convert_plain ssa_dec vtt_enc src = Ok dst /\
                  vtt_dec dst = Ok (ptrunc 1000000 (ptrunc ssa_unit p)).
Proof. apply (plain_pair _ _ _ _ _ _ _ _ ssa_plain_faithful vtt_plain_faithful). Qed.

(* non-vacuity: the two-cue list of Proofs/PlainProofs.v (times off the centisecond grid, two lines) is acceptable *)
Example ex_plain_ssa_ok : ssa_plain_ok ex_plain.
Proof. apply ssa_plain_okb_ok. vm_compute. reflexivity. Qed.
Example ex_plain_ssa_after_srt : ssa_plain_ok (ptrunc 1000000 ex_plain).
Proof. apply ssa_plain_okb_ok. vm_compute. reflexivity. Qed.
