(* WriteToSRT, stated without the reader: the bytes written for a cue list ARE one particular rendering (in the sense
   of Proofs/SrtReadProofs.v: render_items) of that list -- byte-order mark, cue k numbered k+1 on its index line, one
   blank line between cues and none at the end, ',' and three fraction digits, one space on each side of the arrow,
   no coordinates -- terminated by LF.  What that rendering denotes (denote_item) is the cue renumbered and truncated
   to the millisecond; for representable cue lists the rendering satisfies the hypotheses of read_rendered, so the old
   round trip (read_write_srt) is re-derived from the rendering theorem. *)
From Coq Require Import List ZArith NArith Bool Arith Lia.
From Astisub Require Import Kit.Base Kit.Str Kit.Html Kit.Scan Model.Dur Model.Srt.
From Astisub Require Import Proofs.SrtEscProofs Proofs.SrtProofs Proofs.SrtSimple Proofs.SrtReadProofs Proofs.EolProofs.
Import ListNotations.
Open Scope N_scope.

(* ---- the writer's rendering choices ---- *)
Definition w_rend (k : nat) : rend :=
  mkRend (match k with O => 0 | S _ => 1 end) (Some (idx_str k)) comma 3 [32] [32] [].
Fixpoint w_from (k : nat) (l : list sitem) : list (rend * sitem) :=
  match l with [] => [] | it :: r => (w_rend k, it) :: w_from (S k) r end.
Definition w_rendering (l : list sitem) : list (rend * sitem) := w_from 0 l.

Lemma w_time_line k it : rtime_line (w_rend k) (si_st it) (si_en it) = time_line it.
Proof.
  unfold rtime_line, time_line, w_rend, ts, format_srt, arrow_sp, arrow. cbn [rd_sep rd_digits rd_sp_left rd_sp_right rd_tail].
  rewrite app_nil_r. reflexivity.
Qed.

Lemma w_cue_lines k it :
  cue_lines (w_rend (S k)) (rcue_of it) = [] :: item_lines (S k) it.
Proof.
  unfold cue_lines, item_lines, rcue_of. cbn [rc_st rc_en rc_body]. rewrite w_time_line. reflexivity.
Qed.

Lemma w_rest_lines : forall r k,
  all_cue_lines (map (fun p => (fst p, rcue_of (snd p))) (w_from (S k) r)) = rest_lines (S k) r.
Proof.
  induction r as [|it r IH]; intros k; [reflexivity|].
  cbn [w_from map rest_lines]. unfold all_cue_lines. cbn [map concat fst snd].
  fold (all_cue_lines (map (fun p => (fst p, rcue_of (snd p))) (w_from (S (S k)) r))).
  rewrite IH, w_cue_lines. reflexivity.
Qed.

Lemma w_doc_lines it r : render_items true (w_rendering (it :: r)) 0 = doc_lines it r.
Proof.
  unfold render_items, render, w_rendering. cbn [w_from map fst snd repeat]. rewrite app_nil_r.
  unfold all_cue_lines. cbn [map concat fst snd].
  fold (all_cue_lines (map (fun p => (fst p, rcue_of (snd p))) (w_from 1 r))). rewrite w_rest_lines.
  unfold cue_lines, rcue_of. cbn [rd_blank_before rd_index w_rend repeat app rc_st rc_en rc_body bom_first with_bom].
  change (rtime_line (mkRend 0 (Some (idx_str 0)) comma 3 [32] [32] []) (si_st it) (si_en it))
    with (rtime_line (w_rend 0) (si_st it) (si_en it)).
  rewrite w_time_line. unfold doc_lines. reflexivity.
Qed.

(* THE WRITTEN BYTES ARE THE CANONICAL RENDERING, LF-TERMINATED.  No hypothesis on the cues: the equation is about the
   writer alone. *)
Theorem write_is_rendering l : l <> [] ->
  write_srt l = Ok (render_eol [10] (render_items true (w_rendering l) 0)).
Proof.
  intros Hne. destruct l as [|it r]; [contradiction|]. rewrite write_srt_lines, w_doc_lines. reflexivity.
Qed.

(* ---- what the canonical rendering denotes ---- *)
Lemma w_index_value k : (Z.of_nat (S k) <= max_int64)%Z -> index_ok (idx_str k) /\ index_value (Some (idx_str k)) = Z.of_nat (S k).
Proof.
  intros H. unfold idx_str. destruct (index_value_number (N.of_nat (S k))) as [A B]; [rewrite nat_N_Z; exact H|].
  split; [exact A|]. rewrite B. apply nat_N_Z.
Qed.

Lemma w_denote_item k it : (Z.of_nat (S k) <= max_int64)%Z -> denote_item (w_rend k, it) = new_item k it.
Proof.
  intros H. unfold denote_item, new_item, w_rend. cbn [rd_index rd_digits]. rewrite (proj2 (w_index_value k H)).
  rewrite !trunc_3_ms. reflexivity.
Qed.

Lemma w_denotes_from : forall l k, (Z.of_nat (k + length l) <= max_int64)%Z -> map denote_item (w_from k l) = renum k l.
Proof.
  induction l as [|it r IH]; intros k H; [reflexivity|]. cbn [w_from map renum]. cbn [length] in H.
  rewrite w_denote_item by lia. rewrite IH by (rewrite <- Nat.add_succ_comm in H; exact H). reflexivity.
Qed.

(* the denotation of the written rendering: cue k renumbered k+1, times truncated to the millisecond, lines unchanged *)
Theorem write_denotes l : (Z.of_nat (length l) <= max_int64)%Z -> map denote_item (w_rendering l) = renumber_truncate l.
Proof. intros H. apply w_denotes_from. exact H. Qed.

(* ---- the canonical rendering is one the reader theorem covers ---- *)
Lemma w_rend_ok k : (Z.of_nat (S k) <= max_int64)%Z -> rend_ok (w_rend k) /\ gap_ok (w_rend k).
Proof.
  intros H. split.
  - unfold rend_ok, w_rend. cbn [rd_index rd_sep rd_digits rd_sp_left rd_sp_right rd_tail].
    split; [exact (proj1 (w_index_value k H))|]. split; [left; reflexivity|]. split; [lia|].
    split; [repeat constructor|]. split; [repeat constructor|].
    unfold tail_ok. split; [constructor|]. split; [reflexivity | left; reflexivity].
  - intros E. discriminate E.
Qed.

Lemma w_from_ok : forall l k, Forall repr_item l -> (Z.of_nat (k + length l) <= max_int64)%Z ->
  Forall (fun p => rend_ok (fst p) /\ repr_item (snd p)) (w_from k l) /\ Forall (fun p => gap_ok (fst p)) (w_from k l).
Proof.
  induction l as [|it r IH]; intros k Hl H; [split; constructor|]. cbn [length] in H.
  inversion Hl as [|? ? Hit Hr]; subst. cbn [w_from].
  destruct (w_rend_ok k ltac:(lia)) as [A B].
  destruct (IH (S k) Hr ltac:(rewrite <- Nat.add_succ_comm in H; exact H)) as [C D].
  split; constructor; cbn [fst snd]; auto.
Qed.

Theorem write_rendering_ok l : Forall repr_item l -> (Z.of_nat (length l) <= max_int64)%Z ->
  Forall (fun p => rend_ok (fst p) /\ repr_item (snd p)) (w_rendering l) /\
  Forall (fun p => gap_ok (fst p)) (tl (w_rendering l)).
Proof.
  intros Hl H. destruct (w_from_ok l 0 Hl H) as [A B]. split; [exact A|].
  unfold w_rendering. destruct (w_from 0 l) as [|p q]; [constructor|]. cbn [tl]. exact (Forall_inv_tail B).
Qed.

(* every line of the canonical rendering is free of line breaks, so that the line splitter returns exactly these lines *)
Lemma w_lines_brkfree l : Forall repr_item l -> l <> [] -> Forall brkfree (render_items true (w_rendering l) 0).
Proof.
  intros Hl Hne. destruct l as [|it r]; [contradiction|]. rewrite w_doc_lines.
  inversion Hl as [|? ? Hit Hr]; subst. unfold doc_lines. destruct Hit as (Ht & Hls).
  constructor; [apply nobrk_app; [reflexivity | apply nobrk_idx]|].
  constructor; [apply nobrk_time; exact Ht|]. apply Forall_app. split; [apply nobrk_text_lines; exact Hls | apply nobrk_rest; exact Hr].
Qed.

(* THE ROUND TRIP, RE-DERIVED THROUGH THE RENDERING: written bytes = rendering; reading any tolerated rendering gives
   its denotation (read_rendered); the denotation of the written rendering is the renumbered, truncated list. *)
Theorem write_read_via_rendering l : Forall repr_item l -> l <> [] -> (Z.of_nat (length l) <= max_int64)%Z ->
  exists data, write_srt l = Ok data /\
               data = render_eol [10] (render_items true (w_rendering l) 0) /\
               read_srt data = Ok (map denote_item (w_rendering l)) /\
               map denote_item (w_rendering l) = renumber_truncate l.
Proof.
  intros Hl Hne H. eexists. split; [apply write_is_rendering; exact Hne|]. split; [reflexivity|]. split; [|apply write_denotes; exact H].
  unfold read_srt. rewrite lines_render; [| left; reflexivity | apply w_lines_brkfree; assumption].
  destruct (write_rendering_ok l Hl H) as [A B]. apply read_rendered; assumption.
Qed.

(* ================= a worked instance ================= *)
From Coq Require Strings.String Strings.Ascii.
Fixpoint wb (s : String.string) : list N :=
  match s with String.EmptyString => [] | String.String c r => Ascii.N_of_ascii c :: wb r end.
Import Strings.String.StringSyntax.
Delimit Scope string_scope with string.
Arguments wb s%string.

(* two cues with arbitrary index fields; the second time of the first cue is not a whole millisecond *)
Definition x_l : list sitem :=
  [ mkSitem 7 1500000000 2000400000
      [ [mkSrun (wb "Hi") (Some (mkSa true false false None)) 0]; [mkSrun (wb "a&b") None 0] ];
    mkSitem 0 3000000000 4000000000 [ [mkSrun (wb "x") None 0] ] ].
Example x_rendering_lines : render_items true (w_rendering x_l) 0 =
  [ bom ++ wb "1"; wb "00:00:01,500 --> 00:00:02,000"; wb "<b>Hi</b>"; wb "a&amp;b"; [];
    wb "2"; wb "00:00:03,000 --> 00:00:04,000"; wb "x" ].
Proof. vm_compute. reflexivity. Qed.
Example x_written : write_srt x_l = Ok (render_eol [10] (render_items true (w_rendering x_l) 0)).
Proof. vm_compute. reflexivity. Qed.
Example x_denotes : map denote_item (w_rendering x_l) =
  [ mkSitem 1 1500000000 2000000000 (si_lines (nth 0 x_l (mkSitem 0 0 0 [])));
    mkSitem 2 3000000000 4000000000 (si_lines (nth 1 x_l (mkSitem 0 0 0 []))) ].
Proof. vm_compute. reflexivity. Qed.
