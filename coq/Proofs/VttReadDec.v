(* WebVTT reading half: the side conditions of read_rendered_vtt are decidable (boolean checkers, sound), a worked
   instance that uses every rendering freedom at once, and computed counter-examples showing that the side conditions
   the proof forced are needed. *)
From Coq Require Import List ZArith NArith Lia Bool Arith.
From Astisub Require Import Kit.Base Kit.Str Kit.Scan Kit.Html Model.Dur Model.Srt Model.Vtt.
From Astisub Require Import Proofs.DurProofs Proofs.SrtProofs Proofs.SrtReadProofs Proofs.EolProofs Proofs.VttBase Proofs.VttLine Proofs.VttDoc
  Proofs.VttReadTime Proofs.VttReadLine Proofs.VttReadDoc.
Import ListNotations.
Open Scope N_scope.

Definition blankb (w : str) : bool := wsb w && nobrk w.
Lemma blankb_ok w : blankb w = true -> blank w.
Proof. unfold blankb, blank. intros H. apply andb_true_iff in H. destruct H as [H1 H2]. split; [apply wsb_ok; exact H1 | exact H2]. Qed.
Lemma blanksb_ok bs : forallb blankb bs = true -> Forall blank bs.
Proof. apply forallb_Forall. exact blankb_ok. Qed.
Definition nonnilb {A} (l : list A) : bool := match l with [] => false | _ => true end.
Lemma nonnilb_ok {A} (l : list A) : nonnilb l = true -> l <> [].
Proof. destruct l; [discriminate | discriminate]. Qed.

Definition hform_okb (hf : hform) (t : Z) : bool := match hf with HNone => (f_h t =? 0)%Z | HPad _ => true end.
Lemma hform_okb_ok hf t : hform_okb hf t = true -> hform_ok hf t.
Proof. destruct hf; cbn [hform_okb hform_ok]; [apply Z.eqb_eq | intros _; exact I]. Qed.
Definition sep_ok1b (x : str) : bool := wsb x && nonnilb x && nobrk x.
Definition trend_okb (r : trend) (st en : Z) (sets : list (skey * str)) : bool :=
  hform_okb (tr_h1 r) st && hform_okb (tr_h2 r) en && blankb (tr_sp1 r) && blankb (tr_sp2 r) &&
  Nat.eqb (length (tr_seps r)) (length sets) && forallb sep_ok1b (tr_seps r).
Lemma trend_okb_ok r st en sets : trend_okb r st en sets = true -> trend_ok r st en sets.
Proof.
  unfold trend_okb, trend_ok. intros H. rewrite !andb_true_iff in H. destruct H as (((((H1 & H2) & H3) & H4) & H5) & H6).
  split; [apply hform_okb_ok; exact H1|]. split; [apply hform_okb_ok; exact H2|]. split; [apply blankb_ok; exact H3|].
  split; [apply blankb_ok; exact H4|]. split; [apply Nat.eqb_eq; exact H5|].
  revert H6. apply forallb_Forall. intros x Hx. unfold sep_ok1b in Hx. rewrite !andb_true_iff in Hx. destruct Hx as ((A & B) & C).
  split; [apply wsb_ok; exact A | split; [apply nonnilb_ok; exact B | exact C]].
Qed.
Definition setting_okb (regs : list (str * vregion)) (p : skey * str) : bool :=
  sval_ok (snd p) &&
  match fst p with KRegion => match aget (snd p) regs with Some rg => str_eqb (rg_id rg) (snd p) | None => false end | _ => true end.
Lemma setting_okb_ok regs p : setting_okb regs p = true -> setting_ok regs p.
Proof.
  unfold setting_okb, setting_ok. intros H. rewrite !andb_true_iff in H. destruct H as (H1 & H3).
  split; [exact H1|]. destruct (fst p); try exact I.
  destruct (aget (snd p) regs) as [rg|]; [|discriminate]. exists rg. split; [reflexivity | apply str_eqb_eq; exact H3].
Qed.
Definition time_okb (t : Z) : bool := ((0 <=? t) && (t <=? max_int64))%Z.
Lemma time_okb_ok t : time_okb t = true -> (0 <= t <= max_int64)%Z.
Proof. unfold time_okb. intros H. apply andb_true_iff in H. destruct H as [H1 H2]. apply Z.leb_le in H1, H2. lia. Qed.
Definition gcue_okb (regs : list (str * vregion)) (g : gcue) : bool :=
  time_okb (gc_st g) && time_okb (gc_en g) && forallb (setting_okb regs) (gc_sets g) && comments_ok (gc_comments g) &&
  match gc_id g with Some x => lineok x | None => true end && forallb text_line_ok (gc_lines g).
Lemma gcue_okb_ok regs g : gcue_okb regs g = true -> gcue_ok regs g.
Proof.
  unfold gcue_okb, gcue_ok. intros H. rewrite !andb_true_iff in H. destruct H as (((((H1 & H2) & H3) & H4) & H5) & H6).
  split; [apply time_okb_ok; exact H1|]. split; [apply time_okb_ok; exact H2|].
  split; [revert H3; apply forallb_Forall; apply setting_okb_ok|]. split; [exact H4|]. split; [destruct (gc_id g); [exact H5 | exact I] | exact H6].
Qed.
Definition crend_okb (r : crend) (g : gcue) : bool :=
  forallb blankb (cr_before r) && forallb blankb (cr_note_blanks r) &&
  (match gc_comments g with [] => true | _ => nonnilb (cr_note_blanks r) end) &&
  trend_okb (cr_time r) (gc_st g) (gc_en g) (gc_sets g).
Lemma crend_okb_ok r g : crend_okb r g = true -> crend_ok r g.
Proof.
  unfold crend_okb, crend_ok. intros H. rewrite !andb_true_iff in H. destruct H as (((H1 & H2) & H3) & H4).
  split; [apply blanksb_ok; exact H1|]. split; [apply blanksb_ok; exact H2|]. split; [|apply trend_okb_ok; exact H4].
  intros Hne. destruct (gc_comments g); [contradiction | apply nonnilb_ok; exact H3].
Qed.
Definition trailing_okb (t : str) : bool :=
  match t with [] => true | c :: _ => is_ascii_space c end && utf8_valid (p_webvtt ++ t) && nobrk t.
Lemma trailing_okb_ok t : trailing_okb t = true -> trailing_ok t.
Proof.
  unfold trailing_okb, trailing_ok. intros H. rewrite !andb_true_iff in H. destruct H as ((H1 & H2) & H3).
  split; [|split; assumption]. destruct t as [|c r]; [left; reflexivity | right; exists c, r; split; [reflexivity | exact H1]].
Qed.
Definition hrend_okb (h : hrend) (g : gdoc) : bool :=
  trailing_okb (hr_trailing h) && forallb blankb (hr_blanks0 h) && forallb blankb (hr_style_blanks h) &&
  (match gd_style g with Some _ => nonnilb (hr_style_blanks h) | None => true end) && forallb blankb (hr_region_blanks h).
Lemma hrend_okb_ok h g : hrend_okb h g = true -> hrend_ok h g.
Proof.
  unfold hrend_okb, hrend_ok. intros H. rewrite !andb_true_iff in H. destruct H as ((((H1 & H2) & H3) & H4) & H5).
  split; [apply trailing_okb_ok; exact H1|]. split; [apply blanksb_ok; exact H2|]. split; [apply blanksb_ok; exact H3|].
  split; [|apply blanksb_ok; exact H5]. intros Hne. destruct (gd_style g); [apply nonnilb_ok; exact H4 | contradiction].
Qed.
Fixpoint nodup_strb (l : list str) : bool := match l with [] => true | x :: r => negb (existsb (str_eqb x) r) && nodup_strb r end.
Lemma nodup_strb_ok l : nodup_strb l = true -> NoDup l.
Proof.
  induction l as [|x r IH]; intros H; [constructor|]. cbn [nodup_strb] in H. apply andb_true_iff in H. destruct H as [H1 H2].
  constructor; [|apply IH; exact H2]. intros Hin. apply negb_true_iff in H1.
  assert (E : existsb (str_eqb x) r = true) by (apply existsb_exists; exists x; split; [exact Hin | apply str_eqb_refl]). congruence.
Qed.
Definition gdoc_okb (g : gdoc) : bool :=
  match gd_tsmap g with Some (l, m) => time_okb l && time_okb m | None => true end &&
  match gd_style g with Some ss => forallb lineok ss && last_ends_brace ss | None => true end &&
  forallb region_ok (gd_regions g) && nodup_strb (map rg_id (gd_regions g)).
Lemma gdoc_okb_ok g : gdoc_okb g = true -> gdoc_ok g.
Proof.
  unfold gdoc_okb, gdoc_ok. intros H. rewrite !andb_true_iff in H. destruct H as (((H1 & H2) & H3) & H4).
  split; [destruct (gd_tsmap g) as [[l m]|]; [apply andb_true_iff in H1; destruct H1; split; apply time_okb_ok; assumption | exact I]|].
  split; [destruct (gd_style g); [apply andb_true_iff in H2; exact H2 | exact I]|].
  split; [revert H3; apply forallb_Forall; intros x Hx; exact Hx | apply nodup_strb_ok; exact H4].
Qed.
Definition rendering_okb (h : hrend) (g : gdoc) (cues : list (crend * gcue)) (eof : list str) : bool :=
  hrend_okb h g && gdoc_okb g && forallb (fun p => gcue_okb (denote_regions g) (snd p) && crend_okb (fst p) (snd p)) cues &&
  forallb (fun p => nonnilb (cr_before (fst p))) (tl cues) && forallb blankb eof.

(* READING A RENDERED DOCUMENT, decidable side condition, as lines and as bytes under every line-ending convention *)
Theorem read_rendered_vtt_dec h g cues eof : rendering_okb h g cues eof = true ->
  read_vtt_lines (render_vtt h g cues eof) false = Ok (denote_vtt g cues).
Proof.
  unfold rendering_okb. intros H. rewrite !andb_true_iff in H. destruct H as ((((H1 & H2) & H3) & H4) & H5).
  apply read_rendered_vtt; [apply hrend_okb_ok; exact H1 | apply gdoc_okb_ok; exact H2 | | | apply blanksb_ok; exact H5].
  - revert H3. apply forallb_Forall. intros p Hp. apply andb_true_iff in Hp. destruct Hp as [A B].
    split; [apply gcue_okb_ok; exact A | apply crend_okb_ok; exact B].
  - revert H4. apply forallb_Forall. intros p Hp. apply nonnilb_ok. exact Hp.
Qed.
Theorem read_rendered_vtt_bytes e h g cues eof : eol_ok e -> rendering_okb h g cues eof = true ->
  read_vtt (render_eol e (render_vtt h g cues eof)) = Ok (denote_vtt g cues).
Proof.
  intros He H. unfold read_vtt. rewrite lines_render; [apply read_rendered_vtt_dec; exact H | exact He|].
  unfold rendering_okb in H. rewrite !andb_true_iff in H. destruct H as ((((H1 & H2) & H3) & H4) & H5).
  destruct (read_rendered_vtt h g cues eof) as [_ Hn];
    [apply hrend_okb_ok; exact H1 | apply gdoc_okb_ok; exact H2 | | | apply blanksb_ok; exact H5 |].
  - revert H3. apply forallb_Forall. intros p Hp. apply andb_true_iff in Hp. destruct Hp as [A B].
    split; [apply gcue_okb_ok; exact A | apply crend_okb_ok; exact B].
  - revert H4. apply forallb_Forall. intros p Hp. apply nonnilb_ok. exact Hp.
  - apply Forall_forall. intros l Hl. rewrite forallb_forall in Hn. exact (Hn l Hl).
Qed.

(* ================= a worked instance: every freedom at once ================= *)
From Coq Require Strings.String.
Import Strings.String.StringSyntax.
Delimit Scope string_scope with string.
Arguments b s%string.
Definition x_h : hrend := mkHrend true (b " - some title") [] [b "  "; []] [].
Definition x_g : gdoc := mkGdoc (Some (5000000123%Z, 900000%Z)) (Some [b "::cue {"; b "color: red }"]) [ex_rgA; ex_rgB].
Definition tab : str := [9%N].
(* cue 1: directly after the region lines; NOTE block of two lines ended by a line holding a tab; identifier that is not
   a number; start without hours, end with a four-digit hour field; tab before the arrow, nothing after it; four settings
   in "wrong" order, one key twice, after spaces and tabs *)
Definition x_c1 : crend * gcue :=
  (mkCrend [] [tab] (mkTrend HNone (HPad 3) tab [] [b " "; tab ++ b " "; tab; b "  "]),
   mkGcue [b "a comment"; b "more"] (Some (b "cue-1")) 1000000000%Z 2500000000%Z
          [(KVertical, b "rl"); (KRegion, b "fred"); (KAlign, b "start"); (KAlign, b "end")] [ex_ln1; ex_ln2]).
(* cue 2: after two blank lines (one made of a space); numeric identifier; one-digit hour field and an hour field >= 100 *)
Definition x_c2 : crend * gcue :=
  (mkCrend [[]; b " "] [] (mkTrend (HPad 0) (HPad 0) (b " ") (b " ") []),
   mkGcue [] (Some (b "42")) 3723004000000%Z 442800500000000%Z [] [ex_ln2]).
(* cue 3: no identifier, no text *)
Definition x_c3 : crend * gcue :=
  (mkCrend [[]] [] (mkTrend HNone HNone (b "  ") tab [tab]), mkGcue [] None 5000000000%Z 6000000000%Z [(KSize, b "50%")] []).
Definition x_cues := [x_c1; x_c2; x_c3].
Definition x_eof : list str := [[]; tab].

Example x_rendering_ok : rendering_okb x_h x_g x_cues x_eof = true.
Proof. vm_compute. reflexivity. Qed.
(* what the document looks like (lines), and what it denotes *)
Example x_lines_head : firstn 2 (render_vtt x_h x_g x_cues x_eof) =
  [bom ++ b "WEBVTT - some title"; b "X-TIMESTAMP-MAP=LOCAL:00:00:05.000,MPEGTS:900000"].
Proof. vm_compute. reflexivity. Qed.
Example x_timing_lines :
  (timing_render (cr_time (fst x_c1)) 1000000000 2500000000 (gc_sets (snd x_c1)),
   timing_render (cr_time (fst x_c2)) 3723004000000 442800500000000 [],
   timing_render (cr_time (fst x_c3)) 5000000000 6000000000 (gc_sets (snd x_c3))) =
  (b "00:01.000" ++ tab ++ b "-->0000:00:02.500 vertical:rl" ++ tab ++ b " region:fred" ++ tab ++ b "align:start  align:end",
   b "1:02:03.004 --> 123:00:00.500",
   b "00:05.000  -->" ++ tab ++ b "00:06.000" ++ tab ++ b "size:50%").
Proof. vm_compute. reflexivity. Qed.
Example x_denotes :
  map (fun it => (vi_idx it, vi_st it, vi_en it, vi_comments it, vi_region it, vi_set it, length (vi_lines it))) (vd_items (denote_vtt x_g x_cues)) =
  [(0%Z, 1000000000%Z, 2500000000%Z, [b "a comment"; b "more"], Some (b "fred"), Some (mkVset (b "end") [] [] [] (b "rl")), 2%nat);
   (42%Z, 3723004000000%Z, 442800500000000%Z, [], None, Some vset0, 1%nat);
   (0%Z, 5000000000%Z, 6000000000%Z, [], None, Some (mkVset [] [] [] (b "50%") []), 0%nat)].
Proof. vm_compute. reflexivity. Qed.
Example x_read : forall e, eol_ok e -> read_vtt (render_eol e (render_vtt x_h x_g x_cues x_eof)) = Ok (denote_vtt x_g x_cues).
Proof. intros e He. apply read_rendered_vtt_bytes; [exact He | exact x_rendering_ok]. Qed.

(* ================= the side conditions are needed ================= *)
Definition n_items (r : res vdoc) : nat := match r with Ok d => length (vd_items d) | _ => 0%nat end.
(* a cue with an identifier line needs a blank line after the text of the previous cue: else the identifier is read as
   one more text line of that cue (two cues here, the second without blank lines before it: its identifier "42" becomes
   a line of the first cue -- the timing line still starts a new cue) *)
Definition n_c2_nogap : crend * gcue := (mkCrend [] [] (cr_time (fst x_c2)), snd x_c2).
Example read_rendered_needs_gap :
  map (fun it => (vi_idx it, length (vi_lines it))) (match read_vtt_lines (render_vtt x_h x_g [x_c1; n_c2_nogap] []) false with Ok d => vd_items d | _ => [] end)
    = [(0%Z, 3%nat); (0%Z, 1%nat)] /\
  map (fun it => (vi_idx it, length (vi_lines it))) (vd_items (denote_vtt x_g [x_c1; n_c2_nogap])) = [(0%Z, 2%nat); (42%Z, 1%nat)].
Proof. split; vm_compute; reflexivity. Qed.
(* a NOTE block needs a blank line after it: else the identifier line is one more comment line *)
Definition n_c1_nonoteblank : crend * gcue := (mkCrend [] [] (cr_time (fst x_c2)), mkGcue [b "note"] (Some (b "42")) 1000000000%Z 2000000000%Z [] [ex_ln2]).
Example read_rendered_needs_note_blank :
  map (fun it => (vi_idx it, vi_comments it)) (match read_vtt_lines (render_vtt x_h x_g [n_c1_nonoteblank] []) false with Ok d => vd_items d | _ => [] end)
    = [(0%Z, [b "note"; b "42"])] /\
  map (fun it => (vi_idx it, vi_comments it)) (vd_items (denote_vtt x_g [n_c1_nonoteblank])) = [(42%Z, [b "note"])].
Proof. split; vm_compute; reflexivity. Qed.
(* the hours may be left out only when they are zero *)
Definition n_c_hours : crend * gcue := (mkCrend [] [] (mkTrend HNone HNone [32] [32] []), mkGcue [] None 3723004000000%Z 3724000000000%Z [] []).
Example read_rendered_needs_hours :
  map vi_st (match read_vtt_lines (render_vtt x_h x_g [n_c_hours] []) false with Ok d => vd_items d | _ => [] end) = [123004000000%Z] /\
  map vi_st (vd_items (denote_vtt x_g [n_c_hours])) = [3723004000000%Z].
Proof. split; vm_compute; reflexivity. Qed.
(* a STYLE block whose last line does not end with '}' is not ended by a blank line: what follows is read as style text *)
Definition n_g_style : gdoc := mkGdoc None (Some [b "::cue { color: red"]) [].
Example read_rendered_needs_style_brace :
  n_items (read_vtt_lines (render_vtt x_h n_g_style [x_c2] []) false) = 1%nat /\
  match read_vtt_lines (render_vtt x_h n_g_style [x_c2] []) false with
  | Ok d => map snd (vd_styles d) = [Some [b "::cue { color: red"; b "42"]] /\ map vi_idx (vd_items d) = [0%Z]
  | _ => False
  end.
Proof. split; [vm_compute; reflexivity|]. vm_compute. split; reflexivity. Qed.
(* two region definitions with the same identifier: the later one replaces the earlier one *)
Definition n_g_dupreg : gdoc := mkGdoc None None [ex_rgB; ex_rgB].
Example read_rendered_needs_distinct_regions :
  match read_vtt_lines (render_vtt x_h n_g_dupreg [x_c2] []) false with Ok d => length (vd_regions d) | _ => 0%nat end = 1%nat /\
  length (vd_regions (denote_vtt n_g_dupreg [x_c2])) = 2%nat.
Proof. split; vm_compute; reflexivity. Qed.
(* a region must be defined before the cue that refers to it (the property says so): otherwise the reader reports an error *)
Definition n_g_noreg : gdoc := mkGdoc None None [].
Example read_rendered_needs_region_defined : read_vtt_lines (render_vtt x_h n_g_noreg [x_c1] []) false = Err EUnknownRef.
Proof. vm_compute. reflexivity. Qed.
