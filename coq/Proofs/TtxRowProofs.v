(* C06: the row codec.  For every structured row (junk in front of the box, start box once or more, segments introduced
   by colour/size attributes, end box and trailing junk or none) the row parser returns exactly the runs the row
   denotes: text decoded in the active table, trimmed, one run per non-blank segment, with the attributes in force. *)
From Coq Require Import List ZArith NArith Bool Lia.
From Astisub Require Import Kit.Base Kit.Str Model.TtxRow Model.Ttx Model.TtxSpec.
Import ListNotations.
Open Scope N_scope.

Section RowCodec.
  Variable c : list str.
  Hypothesis c_len : length c = 96%nat.

  Notation step := (row_step unit unit unit (ttx_cell_dec c) None).
  Notation fold := (row_fold unit unit unit (ttx_cell_dec c) None).
  Notation app_item := (append_item unit unit None).
  Notation mkR l li b := (mkRowst l li b tt).

  Ltac cmp v :=
    repeat match goal with
           | |- context [N.eqb v ?k] => destruct (N.eqb_spec v k); try lia
           | |- context [N.ltb v ?k] => destruct (N.ltb_spec v k); try lia
           | |- context [N.leb ?k v] => destruct (N.leb_spec k v); try lia
           | |- context [N.leb v ?k] => destruct (N.leb_spec v k); try lia
           end.

  Lemma fold_app a b st : fold st (a ++ b) = (do st' <- fold st a; fold st' b).
  Proof.
    revert st. induction a as [|v r IH]; intros st; cbn [app row_fold bind]; [reflexivity|].
    destruct (step st v) as [st1| |]; cbn [bind]; [apply IH | reflexivity | reflexivity].
  Qed.

  Lemma is_attr_false v : is_attr v = false -> 8 <= v /\ (v < 12 \/ 15 < v).
  Proof.
    unfold is_attr. intros H. apply orb_false_iff in H. destruct H as [H1 H2]. apply N.ltb_ge in H1.
    apply andb_false_iff in H2. destruct H2 as [H2|H2]; [apply N.leb_gt in H2 | apply N.leb_gt in H2]; lia.
  Qed.
  Lemma is_attr_true v : is_attr v = true -> v < 8 \/ (12 <= v /\ v <= 15).
  Proof.
    unfold is_attr. intros H. apply orb_true_iff in H. destruct H as [H|H]; [apply N.ltb_lt in H; lia|].
    apply andb_true_iff in H. destruct H as [H1 H2]. apply N.leb_le in H1. apply N.leb_le in H2. lia.
  Qed.

  (* outside the box: a cell that is neither a spacing attribute nor a start box changes nothing *)
  Lemma step_outside l li v : is_attr v = false -> v <> 11 -> step (mkR l li false) v = Ok (mkR l li false).
  Proof.
    intros Ha H11. apply is_attr_false in Ha. unfold row_step. cbn [rs_started rs_l rs_li rs_d].
    cmp v; cbn [t_is_some orb andb negb]; reflexivity.
  Qed.
  Lemma fold_outside l li vs : forallb (fun v => negb (is_attr v) && negb (v =? 11)) vs = true ->
    fold (mkR l li false) vs = Ok (mkR l li false).
  Proof.
    induction vs as [|v r IH]; intros H; cbn [row_fold]; [reflexivity|].
    cbn [forallb] in H. apply andb_true_iff in H. destruct H as [Hv Hr]. apply andb_true_iff in Hv. destruct Hv as [H1 H2].
    apply negb_true_iff in H1. apply negb_true_iff in H2. apply N.eqb_neq in H2.
    rewrite (step_outside l li v H1 H2). cbn [bind]. apply IH. exact Hr.
  Qed.

  (* a start box *)
  Lemma step_box l txt s b : step (mkR l (mkTitem txt s) b) 11 = Ok (mkR l (mkTitem txt s) true).
  Proof. unfold row_step. cbn. rewrite app_nil_r. reflexivity. Qed.
  Lemma fold_boxes l txt s k : fold (mkR l (mkTitem txt s) true) (repeat 11 k) = Ok (mkR l (mkTitem txt s) true).
  Proof. induction k as [|k IH]; cbn [repeat row_fold]; [reflexivity|]. rewrite step_box. cbn [bind]. exact IH. Qed.
  (* an end box *)
  Lemma step_endbox l li b : step (mkR l li b) 10 = Ok (mkR l li false).
  Proof. unfold row_step. cbn. reflexivity. Qed.

  (* a text cell inside the box *)
  Lemma is_text_cell_cases v : is_text_cell v = true -> 8 <= v /\ (v < 12 \/ 15 < v) /\ v <> 10 /\ v < 128.
  Proof.
    unfold is_text_cell. intros H. apply andb_true_iff in H. destruct H as [H H3]. apply andb_true_iff in H. destruct H as [H1 H2].
    apply negb_true_iff in H1. apply is_attr_false in H1. apply negb_true_iff in H2. apply N.eqb_neq in H2. apply N.ltb_lt in H3. lia.
  Qed.
  Lemma decode_text v : v < 128 -> ttx_cell_dec c tt v = Ok (cell_text c v, tt).
  Proof.
    intros H2. unfold ttx_cell_dec, cd_decode, cell_text. destruct (N.ltb_spec v 32); [reflexivity|].
    destruct (nth_error c (N.to_nat (v - 32))) as [x|] eqn:E.
    - rewrite (nth_error_nth _ _ _ E). reflexivity.
    - apply nth_error_None in E. lia.
  Qed.
  Lemma step_text l txt s v : is_text_cell v = true ->
    step (mkR l (mkTitem txt s) true) v = Ok (mkR l (mkTitem (txt ++ cell_text c v) s) true).
  Proof.
    intros H. apply is_text_cell_cases in H. destruct H as (H1 & H2 & H3 & H4). pose proof (decode_text v H4) as D.
    unfold row_step. cbn [rs_started rs_l rs_li rs_d ti_text ti_sty].
    cmp v; cbn [t_is_some orb andb negb]; rewrite D; reflexivity.
  Qed.
  Lemma fold_text l s vs : forall txt, forallb is_text_cell vs = true ->
    fold (mkR l (mkTitem txt s) true) vs = Ok (mkR l (mkTitem (txt ++ seg_text c vs) s) true).
  Proof.
    induction vs as [|v r IH]; intros txt H; cbn [row_fold seg_text flat_map]; [rewrite app_nil_r; reflexivity|].
    cbn [forallb] in H. apply andb_true_iff in H. destruct H as [Hv Hr].
    rewrite (step_text l txt s v Hv). cbn [bind]. rewrite (IH _ Hr). rewrite <- app_assoc. reflexivity.
  Qed.

  Lemma tsty_eta (s : tsty unit) : mkTsty (ts_color s) (ts_dh s) (ts_ds s) (ts_dw s) tt = s.
  Proof. destruct s as [a b d e [ ]]. reflexivity. Qed.

  (* a spacing attribute inside the box while no text is pending: only the style changes *)
  Lemma step_attr_empty l s v (b : bool) : is_attr v = true ->
    step (mkR l (mkTitem [] s) b) v = Ok (mkR l (mkTitem [] (apply_code s v)) b).
  Proof.
    intros H. apply is_attr_true in H. unfold row_step, apply_code. cbn [rs_started rs_l rs_li rs_d ti_text ti_sty].
    destruct s as [col dh ds dw [ ]]. cbn [ts_color ts_dh ts_ds ts_dw ts_x].
    destruct H as [H|H].
    - cmp v. cbn [t_is_some orb andb negb fresh_ne opt_eqb t_opt_or].
      destruct col as [k|]; cbn [opt_eqb negb]; [|destruct b; unfold append_item; cbn; reflexivity].
      destruct (N.eqb_spec v k) as [-> | Hne]; cbn [negb].
      + destruct b, dh, ds, dw; cbn [fresh_ne orb t_opt_or]; unfold append_item; cbn; reflexivity.
      + cbn [orb]. destruct b; unfold append_item; cbn; reflexivity.
    - assert (Hv : v = 12 \/ v = 13 \/ v = 14 \/ v = 15) by lia.
      destruct b; destruct Hv as [-> | [-> | [-> | ->]]]; cbn; unfold append_item; cbn;
        destruct col, dh, ds, dw; reflexivity.
  Qed.
  (* in front of the box: attributes set the style, everything else but a start box is ignored *)
  Lemma fold_pre vs : forall s, forallb junk_cell vs = true ->
    fold (mkR [] (mkTitem [] s) false) vs = Ok (mkR [] (mkTitem [] (fold_left apply_code (filter is_attr vs) s)) false).
  Proof.
    induction vs as [|v r IH]; intros s H; cbn [row_fold filter fold_left]; [reflexivity|].
    cbn [forallb] in H. apply andb_true_iff in H. destruct H as [Hv Hr]. unfold junk_cell in Hv. apply negb_true_iff in Hv. apply N.eqb_neq in Hv.
    destruct (is_attr v) eqn:A.
    - rewrite (step_attr_empty [] s v false A). cbn [bind fold_left]. apply IH. exact Hr.
    - rewrite (step_outside [] (mkTitem [] s) v A Hv). cbn [bind]. apply IH. exact Hr.
  Qed.
  Lemma fold_attrs_empty l vs : forall s, forallb is_attr vs = true ->
    fold (mkR l (mkTitem [] s) true) vs = Ok (mkR l (mkTitem [] (fold_left apply_code vs s)) true).
  Proof.
    induction vs as [|v r IH]; intros s H; cbn [row_fold fold_left]; [reflexivity|].
    cbn [forallb] in H. apply andb_true_iff in H. destruct H as [Hv Hr].
    rewrite (step_attr_empty l s v true Hv). cbn [bind]. apply IH. exact Hr.
  Qed.

  (* an attribute that begins a new run: the pending text is flushed *)
  Lemma step_attr_effective l txt s v : is_attr v = true -> code_effective s v = true ->
    step (mkR l (mkTitem txt s) true) v = Ok (mkR (app_item l (mkTitem txt s)) (mkTitem [] (apply_code s v)) true).
  Proof.
    intros H E. apply is_attr_true in H. unfold row_step, apply_code, code_effective in *. cbn [rs_started rs_l rs_li rs_d ti_text ti_sty].
    destruct s as [col dh ds dw [ ]]. cbn [ts_color ts_dh ts_ds ts_dw ts_x] in *.
    destruct H as [H|H].
    - revert E. cmp v. cbn [t_is_some orb andb negb fresh_ne opt_eqb t_opt_or]. intros E.
      unfold t_is_some in E. rewrite orb_false_r. rewrite E. reflexivity.
    - assert (Hv : v = 12 \/ v = 13 \/ v = 14 \/ v = 15) by lia.
      destruct Hv as [-> | [-> | [-> | ->]]]; cbn; destruct col, dh, ds, dw; reflexivity.
  Qed.

  Lemma app_item_run l txt s : app_item l (mkTitem txt s) = l ++ run_of txt s.
  Proof.
    destruct s as [a b d e [ ]]. unfold append_item, run_of. cbn [ti_text ti_sty ts_color ts_dh ts_ds ts_dw ts_x].
    destruct (trim_space txt) as [|x r]; [rewrite app_nil_r; reflexivity | reflexivity].
  Qed.

  (* an attribute that repeats the colour in force (no size attribute in force) changes nothing *)
  Lemma ineffective_cases s v : is_attr v = true -> code_effective s v = false ->
    v < 8 /\ ts_color s = Some v /\ ts_dh s = None /\ ts_ds s = None /\ ts_dw s = None.
  Proof.
    intros Ha He. apply is_attr_true in Ha. unfold code_effective in He.
    repeat (apply orb_false_iff in He; destruct He as [He ?]).
    apply N.leb_gt in He. destruct Ha as [Ha|Ha]; [|lia]. split; [exact Ha|].
    match goal with H : negb (opt_eqb _ _) = false |- _ => apply negb_false_iff in H; rename H into Hc end.
    destruct (ts_color s) as [k|]; [|discriminate]. cbn [opt_eqb] in Hc. apply N.eqb_eq in Hc. subst k.
    destruct (ts_dh s), (ts_ds s), (ts_dw s); try discriminate. repeat split.
  Qed.
  Lemma apply_ineffective s v : is_attr v = true -> code_effective s v = false -> apply_code s v = s.
  Proof.
    intros Ha He. destruct (ineffective_cases s v Ha He) as (Hv & Hc & Hh & Hs & Hw). unfold apply_code.
    destruct (N.ltb_spec v 8); [|lia]. destruct s as [col dh ds dw [ ]]. cbn in *. subst. reflexivity.
  Qed.
  Lemma step_attr_ineffective l txt s v : is_attr v = true -> code_effective s v = false ->
    step (mkR l (mkTitem txt s) true) v = Ok (mkR l (mkTitem txt s) true).
  Proof.
    intros Ha He. destruct (ineffective_cases s v Ha He) as (Hv & Hc & Hh & Hs & Hw).
    unfold row_step. cbn [rs_started rs_l rs_li rs_d ti_text ti_sty]. rewrite Hc, Hh, Hs, Hw.
    cmp v. cbn [t_is_some orb andb negb fresh_ne opt_eqb]. rewrite N.eqb_refl. reflexivity.
  Qed.

  Definition seg_bytes (g : rseg) : list N := sg_codes g ++ sg_cells g.

  (* a group of attributes *)
  Lemma fold_codes l cs : forall txt s, forallb is_attr cs = true ->
    fold (mkR l (mkTitem txt s) true) cs =
    Ok (if existsb (code_effective s) cs
        then mkR (l ++ run_of txt s) (mkTitem [] (fold_left apply_code cs s)) true
        else mkR l (mkTitem txt s) true).
  Proof.
    induction cs as [|v r IH]; intros txt s H; cbn [row_fold existsb fold_left]; [reflexivity|].
    cbn [forallb] in H. apply andb_true_iff in H. destruct H as [Hv Hr].
    destruct (code_effective s v) eqn:E; cbn [orb].
    - rewrite (step_attr_effective l txt s v Hv E). cbn [bind]. rewrite app_item_run. apply fold_attrs_empty. exact Hr.
    - rewrite (step_attr_ineffective l txt s v Hv E). cbn [bind]. rewrite (apply_ineffective s v Hv E). apply IH. exact Hr.
  Qed.

  (* all groups: the pending run and the runs already appended *)
  Lemma fold_segs segs : forall l txt s, segs_ok segs = true ->
    exists l' txt' s', fold (mkR l (mkTitem txt s) true) (flat_map seg_bytes segs) = Ok (mkR l' (mkTitem txt' s') true)
                       /\ l' ++ run_of txt' s' = l ++ seg_runs c s txt segs.
  Proof.
    induction segs as [|g r IH]; intros l txt s Hok.
    - exists l, txt, s. split; reflexivity.
    - unfold segs_ok in Hok. cbn [forallb] in Hok. apply andb_true_iff in Hok. destruct Hok as [Hg Hr].
      apply andb_true_iff in Hg. destruct Hg as [Ha Ht].
      cbn [flat_map seg_runs]. rewrite fold_app. unfold seg_bytes at 1. rewrite fold_app. rewrite (fold_codes l (sg_codes g) txt s Ha). cbn [bind].
      destruct (existsb (code_effective s) (sg_codes g)).
      + rewrite (fold_text _ _ _ [] Ht). cbn [bind app].
        destruct (IH (l ++ run_of txt s) (seg_text c (sg_cells g)) (fold_left apply_code (sg_codes g) s) Hr) as (l' & txt' & s' & E & R).
        exists l', txt', s'. split; [exact E|]. rewrite R. rewrite <- app_assoc. reflexivity.
      + rewrite (fold_text _ _ _ txt Ht). cbn [bind].
        destruct (IH l (txt ++ seg_text c (sg_cells g)) s Hr) as (l' & txt' & s' & E & R).
        exists l', txt', s'. split; [exact E | exact R].
  Qed.

  Theorem parse_row_encoded : forall r, rowspec_ok r = true -> ttx_parse_row c (row_cells r) = Ok (row_runs c r).
  Proof.
    intros r Hok. unfold rowspec_ok in Hok. apply andb_true_iff in Hok. destruct Hok as [Hok Hend].
    apply andb_true_iff in Hok. destruct Hok as [Hpre Hsegs].
    unfold ttx_parse_row, parse_row, row_cells, rowst0, row_runs.
    rewrite fold_app.
    pose proof (fold_pre (rw_pre r) (tsty0 unit tt) Hpre) as Hp. fold (pre_style r) in Hp.
    rewrite Hp. cbn [bind row_fold]. rewrite step_box. cbn [bind]. rewrite fold_app. rewrite fold_boxes. cbn [bind].
    rewrite fold_app.
    destruct (fold_segs (rw_segs r) [] [] (pre_style r) Hsegs) as (l' & txt' & s' & E & R).
    replace (flat_map (fun s => sg_codes s ++ sg_cells s) (rw_segs r)) with (flat_map seg_bytes (rw_segs r)) by reflexivity.
    rewrite E. cbn [bind]. cbn [app] in R.
    destruct (rw_end r) as [j|].
    - cbn [row_fold]. rewrite step_endbox. cbn [bind]. rewrite (fold_outside _ _ _ Hend). cbn [bind rs_l rs_li].
      rewrite app_item_run. rewrite R. reflexivity.
    - cbn [row_fold bind rs_l rs_li]. rewrite app_item_run. rewrite R. reflexivity.
  Qed.
End RowCodec.
