(* C05, rows: open subtitling (display standard "0").  The reader recovers the lines and runs the writer was given:
   [rows_open] over the 112-byte text field written for an item returns, line by line and run by run, the trimmed
   texts and the style attributes of the item. *)
From Coq Require Import List ZArith NArith Bool Lia ZifyBool ZifyN ZifyNat.
From Astisub Require Import Kit.Base Kit.Str Kit.Utf8 Model.Dur Model.Stl Gen.StlTables Proofs.StlCodec.
Import ListNotations.
Open Scope N_scope.

(* ================= white space ================= *)

Lemma prefix_len p : forall s r, prefix p s = Some r -> length s = (length p + length r)%nat.
Proof. intros s r H. apply prefix_Some in H. subst s. apply app_length. Qed.

Lemma strip_any_suffix seqs : forall s r, Forall (fun q => q <> []) seqs -> strip_any seqs s = Some r ->
  exists p, p <> [] /\ s = p ++ r.
Proof.
  induction seqs as [|q seqs IH]; intros s r Hne H; cbn [strip_any] in H; [discriminate|].
  inversion Hne as [|? ? Hq Hs]; subst.
  destruct (prefix q s) as [rest|] eqn:E.
  - inversion H; subst. exists q. split; [exact Hq | apply prefix_Some; exact E].
  - apply IH; assumption.
Qed.

Lemma space_seqs_ne : Forall (fun q : str => q <> []) space_seqs.
Proof. unfold space_seqs. repeat constructor; discriminate. Qed.
Lemma space_seqs_rev_ne : Forall (fun q : str => q <> []) (map (@rev N) space_seqs).
Proof. unfold space_seqs. cbn [map rev app]. repeat constructor; discriminate. Qed.

Lemma strip_space1_suffix s r : strip_space1 s = Some r -> exists p, p <> [] /\ s = p ++ r.
Proof.
  unfold strip_space1. destruct s as [|c t]; [discriminate|].
  destruct (is_ascii_space c).
  - intros H. inversion H; subst. exists [c]. split; [discriminate | reflexivity].
  - destruct (c <? 128); [discriminate|]. apply strip_any_suffix. exact space_seqs_ne.
Qed.
Lemma strip_space1_rev_suffix s r : strip_space1_rev s = Some r -> exists p, p <> [] /\ s = p ++ r.
Proof.
  unfold strip_space1_rev. destruct s as [|c t]; [discriminate|].
  destruct (is_ascii_space c).
  - intros H. inversion H; subst. exists [c]. split; [discriminate | reflexivity].
  - destruct (c <? 128); [discriminate|]. apply strip_any_suffix. exact space_seqs_rev_ne.
Qed.

Lemma trim_left_fuel_suffix f : forall s, exists p, s = p ++ trim_left_fuel f s.
Proof.
  induction f as [|f IH]; intros s; cbn [trim_left_fuel]; [exists []; reflexivity|].
  destruct (strip_space1 s) as [r|] eqn:E; [|exists []; reflexivity].
  destruct (strip_space1_suffix s r E) as (p & _ & Hs). destruct (IH r) as (p2 & Hr).
  exists (p ++ p2). rewrite <- app_assoc, <- Hr. exact Hs.
Qed.
Lemma trim_right_fuel_suffix f : forall s, exists p, s = p ++ trim_right_fuel f s.
Proof.
  induction f as [|f IH]; intros s; cbn [trim_right_fuel]; [exists []; reflexivity|].
  destruct (strip_space1_rev s) as [r|] eqn:E; [|exists []; reflexivity].
  destruct (strip_space1_rev_suffix s r E) as (p & _ & Hs). destruct (IH r) as (p2 & Hr).
  exists (p ++ p2). rewrite <- app_assoc, <- Hr. exact Hs.
Qed.
Lemma trim_left_suffix s : exists p, s = p ++ trim_left s.
Proof. apply trim_left_fuel_suffix. Qed.
Lemma trim_right_prefix s : exists q, s = trim_right s ++ q.
Proof.
  unfold trim_right. destruct (trim_right_fuel_suffix (length s) (rev s)) as (p & H).
  exists (rev p). rewrite <- rev_app_distr, <- H, rev_involutive. reflexivity.
Qed.

(* a string that [trim_space] leaves alone is left alone by both sides *)
Lemma trim_space_fixed s : trim_space s = s -> trim_left s = s /\ trim_right s = s.
Proof.
  unfold trim_space. intros H.
  destruct (trim_left_suffix s) as (p & Hp). destruct (trim_right_prefix (trim_left s)) as (q & Hq).
  rewrite H in Hq.
  assert (Hl : (length s = length p + (length s + length q))%nat).
  { rewrite Hp at 1. rewrite app_length. rewrite Hq at 1. rewrite app_length. reflexivity. }
  assert (p = []) as -> by (destruct p; [reflexivity | cbn [length] in Hl; lia]).
  cbn [app] in Hp. rewrite <- Hp in H |- *. split; [reflexivity | exact H].
Qed.

Lemma trim_left_fixed_strip s : s <> [] -> trim_left s = s -> strip_space1 s = None.
Proof.
  intros Hne H. unfold trim_left in H. destruct s as [|c t]; [contradiction|].
  cbn [length trim_left_fuel] in H. destruct (strip_space1 (c :: t)) as [r|] eqn:E; [|reflexivity].
  exfalso. destruct (strip_space1_suffix _ _ E) as (p & Hp & Hs).
  destruct (trim_left_fuel_suffix (length t) r) as (p2 & Hr). rewrite H in Hr.
  assert (Hl : (length (c :: t) = length p + (length p2 + length (c :: t)))%nat).
  { rewrite Hs at 1. rewrite app_length. rewrite Hr at 1. rewrite app_length. reflexivity. }
  destruct p; [contradiction | cbn [length] in Hl; lia].
Qed.

Lemma prefix_snoc x q : ~ In x q -> forall s rest, prefix q (s ++ [x]) = Some rest -> exists rest', prefix q s = Some rest'.
Proof.
  induction q as [|a q IH]; intros Hx s rest H; [exists s; reflexivity|].
  destruct s as [|b s]; cbn [app prefix] in H |- *.
  - destruct (a =? x) eqn:E; [apply N.eqb_eq in E; subst; exfalso; apply Hx; left; reflexivity|discriminate].
  - destruct (a =? b); [|discriminate]. apply (IH (fun Hc => Hx (or_intror Hc)) s rest H).
Qed.
Lemma strip_any_snoc x seqs : Forall (fun q => ~ In x q) seqs -> forall s, strip_any seqs s = None -> strip_any seqs (s ++ [x]) = None.
Proof.
  induction seqs as [|q seqs IH]; intros Hx s H; [reflexivity|]. inversion Hx as [|? ? Hq Hs]; subst.
  cbn [strip_any] in H |- *. destruct (prefix q s) as [r|] eqn:E; [discriminate|].
  destruct (prefix q (s ++ [x])) as [r|] eqn:E2.
  - destruct (prefix_snoc x q Hq s r E2) as (r' & Hr). rewrite Hr in E. discriminate.
  - apply IH; assumption.
Qed.
Lemma space_seqs_no32 : Forall (fun q : str => ~ In 32 q) space_seqs.
Proof. unfold space_seqs. repeat constructor; cbn [In]; intros H; repeat (destruct H as [H|H]; [discriminate|]); exact H. Qed.

Lemma strip_space1_snoc32 s : s <> [] -> strip_space1 s = None -> strip_space1 (s ++ [32]) = None.
Proof.
  intros Hne. destruct s as [|c t]; [contradiction|]. cbn [app]. unfold strip_space1.
  destruct (is_ascii_space c); [discriminate|]. destruct (c <? 128); [reflexivity|].
  intros H. exact (strip_any_snoc 32 space_seqs space_seqs_no32 (c :: t) H).
Qed.

Lemma trim_left_32 t : trim_left (32 :: t) = trim_left t.
Proof. reflexivity. Qed.
Lemma trim_space_32 t : trim_space (32 :: t) = trim_space t.
Proof. reflexivity. Qed.
Lemma trim_right_snoc32 t : trim_right (t ++ [32]) = trim_right t.
Proof.
  unfold trim_right. rewrite rev_app_distr, app_length. cbn [rev app length].
  replace (length t + 1)%nat with (S (length t)) by lia. reflexivity.
Qed.
Lemma trim_space_snoc32 t : t <> [] -> trim_space t = t -> trim_space (t ++ [32]) = t.
Proof.
  intros Hne H. destruct (trim_space_fixed t H) as [Hl Hr].
  pose proof (strip_space1_snoc32 t Hne (trim_left_fixed_strip t Hne Hl)) as Hs.
  unfold trim_space. assert (E : trim_left (t ++ [32]) = t ++ [32]).
  { unfold trim_left. rewrite app_length. cbn [length]. replace (length t + 1)%nat with (S (length t)) by lia.
    cbn [trim_left_fuel]. rewrite Hs. reflexivity. }
  rewrite E, trim_right_snoc32. exact Hr.
Qed.

(* ================= the encoder on the writer's text ================= *)

(* strings the encoder treats piecewise: concatenations of independent characters *)
Definition good (s : str) : Prop := exists ps, s = concat ps /\ Forall (fun p => enc_ok p = true) ps.

Lemma good_nil : good [].
Proof. exists []. split; [reflexivity | constructor]. Qed.
Lemma good_one p : enc_ok p = true -> good p.
Proof. intros H. exists [p]. split; [cbn [concat]; rewrite app_nil_r; reflexivity | constructor; [exact H | constructor]]. Qed.
Lemma good_app a b : good a -> good b -> good (a ++ b).
Proof.
  intros (pa & Ha & Fa) (pb & Hb & Fb). exists (pa ++ pb). split; [rewrite concat_app, Ha, Hb; reflexivity | apply Forall_app; split; assumption].
Qed.
Lemma enc_app a b : good a -> good b -> encode_text_stl (a ++ b) = encode_text_stl a ++ encode_text_stl b.
Proof.
  intros (pa & Ha & Fa) (pb & Hb & Fb). subst a b. rewrite <- concat_app.
  rewrite !encode_concat_gen by (try apply Forall_app; try split; assumption).
  rewrite map_app, concat_app. reflexivity.
Qed.
Lemma good_rep cs : Forall (fun c => In c stl_repertoire) cs -> good (concat cs).
Proof. intros H. exists cs. split; [reflexivity|]. eapply Forall_impl; [|exact H]. intros c Hc. apply char_ok_enc_ok, rep_char_ok, Hc. Qed.

Lemma good_join sep l : good sep -> Forall good l -> good (join sep l).
Proof.
  intros Hs H. induction H as [|x l Hx Hl IH]; [exact good_nil|].
  destruct l as [|y l]; [exact Hx|]. change (good (x ++ sep ++ join sep (y :: l))). apply good_app; [exact Hx|]. apply good_app; [exact Hs | exact IH].
Qed.
Lemma enc_nil : encode_text_stl [] = [].
Proof. reflexivity. Qed.
Lemma enc_join sep l : good sep -> Forall good l ->
  encode_text_stl (join sep l) = join (encode_text_stl sep) (map encode_text_stl l).
Proof.
  intros Hs H. induction H as [|x l Hx Hl IH]; [exact enc_nil|].
  destruct l as [|y l]; [reflexivity|].
  change (encode_text_stl (x ++ sep ++ join sep (y :: l)) =
          encode_text_stl x ++ encode_text_stl sep ++ join (encode_text_stl sep) (map encode_text_stl (y :: l))).
  rewrite enc_app by (try apply good_app; try apply good_join; assumption).
  rewrite enc_app by (try apply good_join; assumption). rewrite IH. reflexivity.
Qed.

(* the control characters the writer inserts *)
Lemma ctl_ok : enc_ok [194;128] = true /\ enc_ok [194;129] = true /\ enc_ok [194;130] = true /\ enc_ok [194;131] = true
  /\ enc_ok [194;132] = true /\ enc_ok [194;133] = true /\ enc_ok [194;138] = true /\ enc_ok [32] = true.
Proof. vm_compute. repeat split; reflexivity. Qed.
Lemma ctl_enc : encode_text_stl [194;128] = [128] /\ encode_text_stl [194;129] = [129] /\ encode_text_stl [194;130] = [130]
  /\ encode_text_stl [194;131] = [131] /\ encode_text_stl [194;132] = [132] /\ encode_text_stl [194;133] = [133]
  /\ encode_text_stl [194;138] = [138] /\ encode_text_stl [32] = [32].
Proof. vm_compute. repeat split; reflexivity. Qed.

(* what the reader must not mistake a character's bytes for: a control byte, a style code, the row separator *)
Definition plainb (b : N) : bool :=
  negb (b <=? 31) && match sty_code b with None => true | Some _ => false end && negb (b =? 138).
Lemma rep_plain : forallb (fun c => forallb plainb (encode_text_stl c)) stl_repertoire = true.
Proof. vm_compute. reflexivity. Qed.
Lemma table_143 : alookup 143 stl_table = None.
Proof. vm_compute. reflexivity. Qed.
Lemma decode1_32 : decode1 None 32 = ([32], None).
Proof. vm_compute. reflexivity. Qed.

(* ================= the bytes written for an item ================= *)
Definition run_styled (r : wrun) : bool := wr_it r || wr_un r || wr_bx r.
(* text: a non-empty concatenation of repertoire characters, with no white space at its ends *)
Definition run_repr (r : wrun) : Prop :=
  wr_text r <> [] /\ trim_space (wr_text r) = wr_text r /\
  exists cs, wr_text r = concat cs /\ Forall (fun c => In c stl_repertoire) cs.
(* no two adjacent unstyled runs: the writer joins them with a space and the reader sees one run *)
Fixpoint no_adjacent_plain (l : list wrun) : Prop :=
  match l with
  | r1 :: ((r2 :: _) as l') => (run_styled r1 = true \/ run_styled r2 = true) /\ no_adjacent_plain l'
  | _ => True
  end.
Definition line_repr (l : list wrun) : Prop := l <> [] /\ Forall run_repr l /\ no_adjacent_plain l.

Definition wrapb (o c : N) (bs : str) : str := [o] ++ bs ++ [c].
Definition run_bytes (r : wrun) : str :=
  let s0 := encode_text_stl (wr_text r) in
  let s1 := if wr_it r then wrapb 128 129 s0 else s0 in
  let s2 := if wr_un r then wrapb 130 131 s1 else s1 in
  if wr_bx r then wrapb 132 133 s2 else s2.
Definition line_bytes (l : list wrun) : str := join [32] (map run_bytes l).
Definition item_bytes (i : witem) : str := join [138] (map line_bytes (wi_lines i)).

Lemma run_repr_good r : run_repr r -> good (wr_text r).
Proof. intros (_ & _ & cs & E & F). rewrite E. apply good_rep. exact F. Qed.

Lemma wrap_good o c s : enc_ok [194;o] = true -> enc_ok [194;c] = true -> good s -> good (stl_wrap o c s).
Proof. intros Ho Hc Hs. unfold stl_wrap. apply good_app; [apply good_one, Ho|]. apply good_app; [exact Hs | apply good_one, Hc]. Qed.
Lemma wrap_enc o c s : enc_ok [194;o] = true -> enc_ok [194;c] = true -> good s ->
  encode_text_stl (stl_wrap o c s) = encode_text_stl [194;o] ++ encode_text_stl s ++ encode_text_stl [194;c].
Proof.
  intros Ho Hc Hs. unfold stl_wrap.
  pose proof (good_one _ Ho) as Go. pose proof (good_one _ Hc) as Gc.
  rewrite enc_app by (try apply good_app; assumption).
  rewrite enc_app by assumption. reflexivity.
Qed.

Lemma run_enc r : run_repr r -> good (stl_string r) /\ encode_text_stl (stl_string r) = run_bytes r.
Proof.
  intros H. pose proof (run_repr_good r H) as G.
  destruct ctl_ok as (O0 & O1 & O2 & O3 & O4 & O5 & _). destruct ctl_enc as (E0 & E1 & E2 & E3 & E4 & E5 & _).
  unfold stl_string, run_bytes. destruct r as [t it un bx]. cbn [wr_text wr_it wr_un wr_bx] in *.
  destruct it, un, bx;
    repeat match goal with
           | |- good (stl_wrap _ _ _) /\ _ => split
           | |- good (stl_wrap _ _ _) => apply wrap_good; try assumption
           | |- context [encode_text_stl (stl_wrap _ _ _)] => rewrite wrap_enc; try assumption
           end;
    try (split; [exact G | reflexivity]);
    rewrite ?E0, ?E1, ?E2, ?E3, ?E4, ?E5; reflexivity.
Qed.

Lemma line_enc l : Forall run_repr l -> good (join [32] (map stl_string l)) /\
  encode_text_stl (join [32] (map stl_string l)) = line_bytes l.
Proof.
  intros H. destruct ctl_ok as (_ & _ & _ & _ & _ & _ & _ & O). destruct ctl_enc as (_ & _ & _ & _ & _ & _ & _ & E).
  assert (G : Forall good (map stl_string l)).
  { apply Forall_map. eapply Forall_impl; [|exact H]. intros r Hr. apply (run_enc r Hr). }
  split; [apply good_join; [apply good_one, O | exact G]|].
  rewrite enc_join by (try apply good_one; assumption). rewrite E, map_map. unfold line_bytes. f_equal.
  apply map_ext_in. intros r Hr. apply run_enc. rewrite Forall_forall in H. apply H, Hr.
Qed.

Theorem item_enc i : Forall line_repr (wi_lines i) -> encode_text_stl (stl_item_text i) = item_bytes i.
Proof.
  intros H. destruct ctl_ok as (_ & _ & _ & _ & _ & _ & O & _). destruct ctl_enc as (_ & _ & _ & _ & _ & _ & E & _).
  unfold stl_item_text, item_bytes.
  assert (G : Forall good (map (fun l => join [32] (map stl_string l)) (wi_lines i))).
  { apply Forall_map. eapply Forall_impl; [|exact H]. intros l (_ & Hl & _). apply (line_enc l Hl). }
  rewrite enc_join by (try apply good_one; assumption). rewrite E, map_map. f_equal.
  apply map_ext_in. intros l Hl. apply line_enc. rewrite Forall_forall in H. apply (H l Hl).
Qed.

(* ================= the reader on these bytes ================= *)
Definition open_attr (r : wrun) (a : sattr_stl) : sattr_stl :=
  mkSattrStl (if wr_it r then Some true else a_it a) (if wr_un r then Some true else a_un a)
          (if wr_bx r then Some true else a_bx a) (a_col a) (a_dh a) (a_ds a) (a_dw a).
Definition close_attr (r : wrun) (a : sattr_stl) : sattr_stl :=
  mkSattrStl (if wr_it r then Some false else a_it a) (if wr_un r then Some false else a_un a)
          (if wr_bx r then Some false else a_bx a) (a_col a) (a_dh a) (a_ds a) (a_dw a).
(* what the reader returns for a line: trimmed text; each attribute is Some true on a run that has it, Some false
   on a later run of the same line once some earlier run had it (its closing code was seen), None otherwise *)
Fixpoint expected_from (a : sattr_stl) (l : list wrun) : list erun :=
  match l with
  | [] => []
  | r :: l' => mkErun (wr_text r) (open_attr r a) None None :: expected_from (close_attr r a) l'
  end.
Definition expected_line (l : list wrun) : list erun := expected_from sattr0_stl l.

Lemma open_row_sty v c r items text a acc : sty_code v = Some c -> (v <=? 31) = false ->
  open_row (v :: r) items text a acc = open_row r (append_open items text a) [] (sty_update a c) acc.
Proof. intros Hs Hv. cbn [open_row]. rewrite Hv, Hs. reflexivity. Qed.

Lemma plainb_spec b : plainb b = true -> (b <=? 31) = false /\ sty_code b = None /\ b <> 138.
Proof.
  unfold plainb. intros H. apply andb_true_iff in H. destruct H as [H H3]. apply andb_true_iff in H. destruct H as [H1 H2].
  apply negb_true_iff in H1. apply negb_true_iff in H3. apply N.eqb_neq in H3.
  destruct (sty_code b); [discriminate|]. repeat split; assumption.
Qed.

Lemma open_row_plain bs : forall rest items text a acc, forallb plainb bs = true ->
  open_row (bs ++ rest) items text a acc =
  let '(o, acc') := decode_bytes acc bs in open_row rest items (text ++ o) a acc'.
Proof.
  induction bs as [|b bs IH]; intros rest items text a acc H; cbn [app decode_bytes].
  - rewrite app_nil_r. reflexivity.
  - cbn [forallb] in H. apply andb_true_iff in H. destruct H as [Hb Hbs].
    destruct (plainb_spec b Hb) as (H1 & H2 & _). cbn [open_row]. rewrite H1, H2.
    destruct (decode1 acc b) as [o acc1]. rewrite (IH rest items (text ++ o) a acc1 Hbs).
    destruct (decode_bytes acc1 bs) as [o2 acc2]. rewrite app_assoc. reflexivity.
Qed.

Lemma forallb_concat {A} (f : A -> bool) ls : Forall (fun l => forallb f l = true) ls -> forallb f (concat ls) = true.
Proof. intros H. induction H as [|l ls Hl _ IH]; [reflexivity|]. cbn [concat]. rewrite forallb_app, Hl, IH. reflexivity. Qed.

(* the bytes of a run's text: plain, and decoded back to the text *)
Lemma text_bytes r : run_repr r ->
  forallb plainb (encode_text_stl (wr_text r)) = true /\ decode_bytes None (encode_text_stl (wr_text r)) = (wr_text r, None).
Proof.
  intros (_ & _ & cs & E & F). rewrite E. split.
  - rewrite encode_concat by exact F. apply forallb_concat. apply Forall_map. eapply Forall_impl; [|exact F].
    intros c Hc. exact (proj1 (forallb_forall _ _) rep_plain c Hc).
  - apply codec_roundtrip. exact F.
Qed.
Lemma open_row_text r rest items text a : run_repr r ->
  open_row (encode_text_stl (wr_text r) ++ rest) items text a None = open_row rest items (text ++ wr_text r) a None.
Proof. intros H. destruct (text_bytes r H) as [P D]. rewrite open_row_plain by exact P. rewrite D. reflexivity. Qed.

Lemma decode1_143 acc : decode1 acc 143 = ([], acc).
Proof. unfold decode1. rewrite table_143. reflexivity. Qed.
Lemma open_row_pad k : forall items text a acc,
  open_row (repeat 143 k) items text a acc = Ok (rev (append_open items text a), acc).
Proof.
  induction k as [|k IH]; intros items text a acc; cbn [repeat open_row]; [reflexivity|].
  change (143 <=? 31) with false. change (sty_code 143) with (@None (N * bool)). cbn iota.
  rewrite decode1_143, app_nil_r. apply IH.
Qed.
Lemma open_row_32 rest items text a : open_row (32 :: rest) items text a None = open_row rest items (text ++ [32]) a None.
Proof. cbn [open_row]. change (32 <=? 31) with false. change (sty_code 32) with (@None (N * bool)). cbn iota. rewrite decode1_32. reflexivity. Qed.

Lemma append_open_nil items a : append_open items [] a = items.
Proof. reflexivity. Qed.
Lemma append_open_sp items a : append_open items [32] a = items.
Proof. reflexivity. Qed.
Lemma append_open_keep items t' t a : trim_space t' = t -> t <> [] -> append_open items t' a = mkErun t a None None :: items.
Proof. intros H Hne. unfold append_open. rewrite H. destruct t; [contradiction | reflexivity]. Qed.

Lemma open_attr_plain r a : run_styled r = false -> open_attr r a = a /\ close_attr r a = a.
Proof.
  unfold run_styled, open_attr, close_attr. destruct r as [t [|] [|] [|]]; cbn [wr_it wr_un wr_bx orb]; try discriminate.
  intros _. destruct a; split; reflexivity.
Qed.

(* a styled run: its first opening code closes whatever text was pending, its first closing code closes the run *)
Lemma styled_run r rest items pre a : run_repr r -> run_styled r = true ->
  open_row (run_bytes r ++ rest) items pre a None =
  open_row rest (mkErun (wr_text r) (open_attr r a) None None :: append_open items pre a) [] (close_attr r a) None.
Proof.
  intros H Hs. pose proof (open_row_text r) as T. destruct H as (Hne & Htr & Hcs).
  assert (H : run_repr r) by (repeat split; assumption).
  unfold run_bytes, run_styled, open_attr, close_attr in *. destruct r as [t it un bx]. cbn [wr_text wr_it wr_un wr_bx] in *.
  destruct it, un, bx; try discriminate; unfold wrapb; cbn [app]; rewrite <- ?app_assoc; cbn [app];
    repeat (first [ rewrite (open_row_sty 128 (0, true)) by reflexivity
                  | rewrite (open_row_sty 130 (1, true)) by reflexivity
                  | rewrite (open_row_sty 132 (2, true)) by reflexivity ]);
    rewrite (T _ _ _ _ H), ?append_open_nil; cbn [app];
    repeat (first [ rewrite (open_row_sty 129 (0, false)) by reflexivity
                  | rewrite (open_row_sty 131 (1, false)) by reflexivity
                  | rewrite (open_row_sty 133 (2, false)) by reflexivity ]);
    rewrite (append_open_keep _ t t _ Htr Hne), ?append_open_nil; destruct a; reflexivity.
Qed.

Lemma plain_run r rest items pre a : run_repr r -> run_styled r = false ->
  open_row (run_bytes r ++ rest) items pre a None = open_row rest items (pre ++ wr_text r) a None.
Proof.
  intros H Hs. pose proof (open_row_text r rest items pre a H) as T.
  unfold run_bytes, run_styled in *. destruct r as [t [|] [|] [|]]; cbn [wr_text wr_it wr_un wr_bx orb] in *; try discriminate.
  exact T.
Qed.

(* ---- one line ---- *)
Lemma join_cons2 sep (x y : str) l : join sep (x :: y :: l) = x ++ sep ++ join sep (y :: l).
Proof. reflexivity. Qed.

(* [pre]: the text pending when the line's remaining runs start: blank when an unstyled run comes first *)
Lemma line_go k : forall l items pre a, l <> [] -> Forall run_repr l -> no_adjacent_plain l ->
  (match l with r :: _ => run_styled r = false | [] => False end -> pre = [] \/ pre = [32]) ->
  open_row (line_bytes l ++ repeat 143 k) items pre a None
  = Ok (rev (append_open items pre a) ++ expected_from a l, None).
Proof.
  unfold line_bytes. induction l as [|r l IH]; intros items pre a Hne HF Hadj Hpre; [contradiction|].
  inversion HF as [|? ? Hr HF']; subst. cbn [expected_from].
  destruct (run_styled r) eqn:Hs.
  - (* styled *)
    destruct l as [|r2 l2].
    + cbn [map join]. rewrite (styled_run r _ items pre a Hr Hs), open_row_pad, append_open_nil. reflexivity.
    + cbn [map]. rewrite join_cons2, <- !app_assoc. rewrite (styled_run r _ items pre a Hr Hs).
      cbn [app]. rewrite open_row_32. cbn [app].
      change (join [32] (run_bytes r2 :: map run_bytes l2)) with (join [32] (map run_bytes (r2 :: l2))).
      rewrite IH; [| discriminate | exact HF' | exact (proj2 Hadj) | intros _; right; reflexivity].
      rewrite append_open_sp. cbn [rev]. rewrite <- app_assoc. reflexivity.
  - (* unstyled: pre is blank *)
    destruct (open_attr_plain r a Hs) as [Eo Ec]. rewrite Eo, Ec.
    destruct Hr as (Hne_t & Htr & Hcs). assert (Hr : run_repr r) by (repeat split; assumption).
    assert (Hblank : append_open items pre a = items) by (destruct (Hpre eq_refl) as [-> | ->]; reflexivity).
    assert (Hpt : trim_space (pre ++ wr_text r) = trim_space (wr_text r)) by (destruct (Hpre eq_refl) as [-> | ->]; reflexivity).
    destruct l as [|r2 l2].
    + cbn [map join]. rewrite (plain_run r _ items pre a Hr Hs), open_row_pad.
      rewrite (append_open_keep items (pre ++ wr_text r) (wr_text r) a) by (try rewrite Hpt; assumption).
      rewrite Hblank. reflexivity.
    + cbn [map]. rewrite join_cons2, <- !app_assoc. rewrite (plain_run r _ items pre a Hr Hs).
      cbn [app]. rewrite open_row_32.
      change (join [32] (run_bytes r2 :: map run_bytes l2)) with (join [32] (map run_bytes (r2 :: l2))).
      destruct Hadj as [[Hadj | Hadj] Hadj2]; [rewrite Hs in Hadj; discriminate|].
      rewrite IH; [| discriminate | exact HF' | exact Hadj2 | intros Hc; rewrite Hadj in Hc; discriminate].
      assert (Hk : trim_space ((pre ++ wr_text r) ++ [32]) = wr_text r).
      { destruct (Hpre eq_refl) as [-> | ->]; cbn [app]; [|rewrite trim_space_32]; apply trim_space_snoc32; assumption. }
      rewrite (append_open_keep items _ (wr_text r) a Hk Hne_t), Hblank. cbn [rev]. rewrite <- app_assoc. reflexivity.
Qed.

Lemma line_row k l : line_repr l ->
  open_row (line_bytes l ++ repeat 143 k) [] [] sattr0_stl None = Ok (expected_line l, None).
Proof.
  intros (Hne & HF & Hadj). rewrite line_go; [reflexivity | exact Hne | exact HF | exact Hadj | intros _; left; reflexivity].
Qed.
Lemma expected_line_nonnil l : l <> [] -> expected_line l <> [].
Proof. destruct l; [contradiction | discriminate]. Qed.

(* ================= rows ================= *)
(* bytes of a row: not the row separator, not a control byte (the teletext reader acts on those) *)
Definition okb (b : N) : bool := negb (b =? 138) && negb (b <=? 31).
Lemma forallb_impl {A} (f g : A -> bool) l : (forall x, f x = true -> g x = true) -> forallb f l = true -> forallb g l = true.
Proof.
  intros Hfg. induction l as [|x l IH]; cbn [forallb]; [reflexivity|]. intros H. apply andb_true_iff in H. destruct H as [Hx Hl].
  rewrite (Hfg x Hx), (IH Hl). reflexivity.
Qed.
Lemma okb_join sep ls : forallb okb sep = true -> Forall (fun l => forallb okb l = true) ls -> forallb okb (join sep ls) = true.
Proof.
  intros Hs H. induction H as [|l ls Hl Hls IH]; [reflexivity|]. destruct ls as [|l2 ls]; [exact Hl|].
  rewrite join_cons2, !forallb_app, Hl, Hs, IH. reflexivity.
Qed.
Lemma okb_not_in bs : forallb okb bs = true -> ~ In 138 bs.
Proof. intros H Hin. rewrite forallb_forall in H. specialize (H 138 Hin). discriminate. Qed.

Lemma run_bytes_ok r : run_repr r -> forallb okb (run_bytes r) = true.
Proof.
  intros H. destruct (text_bytes r H) as [P _].
  assert (Q : forallb okb (encode_text_stl (wr_text r)) = true).
  { revert P. apply forallb_impl. intros b Hb. destruct (plainb_spec b Hb) as (H1 & _ & Hn). unfold okb.
    apply N.eqb_neq in Hn. rewrite H1, Hn. reflexivity. }
  unfold run_bytes, wrapb. destruct (wr_it r), (wr_un r), (wr_bx r); rewrite ?forallb_app, Q; reflexivity.
Qed.
Lemma line_bytes_okb l : Forall run_repr l -> forallb okb (line_bytes l) = true.
Proof.
  intros H. unfold line_bytes. apply okb_join; [reflexivity|]. apply Forall_map.
  eapply Forall_impl; [|exact H]. exact run_bytes_ok.
Qed.
Lemma line_bytes_ok l : Forall run_repr l -> ~ In 138 (line_bytes l).
Proof. intros H. apply okb_not_in, line_bytes_okb, H. Qed.
Lemma pad_not_in k : ~ In 138 (repeat 143 k).
Proof. intros H. apply repeat_spec in H. discriminate. Qed.

Lemma pad_right_cut_short c n s : (length s <= n)%nat -> pad_right_cut c n s = s ++ repeat c (n - length s).
Proof.
  intros H. unfold pad_right_cut, pad_right. apply firstn_all2. rewrite app_length, repeat_length. lia.
Qed.

Lemma rows_open_step row rows l lines : open_row row [] [] sattr0_stl None = Ok (l, None) -> l <> [] ->
  rows_open (row :: rows) None lines = rows_open rows None (l :: lines).
Proof. intros H Hne. cbn [rows_open]. rewrite H. cbn [bind]. destruct l; [contradiction | reflexivity]. Qed.

Lemma rows_go k : forall ls lines, ls <> [] -> Forall line_repr ls ->
  rows_open (split_byte 138 (join [138] (map line_bytes ls) ++ repeat 143 k)) None lines
  = Ok (rev lines ++ map expected_line ls, None).
Proof.
  induction ls as [|l ls IH]; intros lines Hne HF; [contradiction|].
  inversion HF as [|? ? Hl HF']; subst. pose proof Hl as (Hlne & Hruns & _).
  destruct ls as [|l2 ls].
  - cbn [map join]. rewrite split_byte_none.
    + rewrite (rows_open_step _ [] (expected_line l) lines (line_row k l Hl) (expected_line_nonnil l Hlne)). reflexivity.
    + intros Hin. apply in_app_or in Hin. destruct Hin as [Hin | Hin]; [exact (line_bytes_ok l Hruns Hin) | exact (pad_not_in k Hin)].
  - cbn [map]. rewrite join_cons2, <- !app_assoc. cbn [app]. rewrite (split_byte_app 138 _ _ (line_bytes_ok l Hruns)).
    pose proof (line_row 0 l Hl) as R. cbn [repeat] in R. rewrite app_nil_r in R.
    rewrite (rows_open_step _ _ (expected_line l) lines R (expected_line_nonnil l Hlne)).
    change (join [138] (line_bytes l2 :: map line_bytes ls)) with (join [138] (map line_bytes (l2 :: ls))).
    rewrite IH by (try discriminate; exact HF'). cbn [rev]. rewrite <- app_assoc. reflexivity.
Qed.

(* ================= the round trip ================= *)
Theorem open_rows_roundtrip : forall (i : witem),
  wi_lines i <> [] -> Forall line_repr (wi_lines i) ->
  (length (encode_text_stl (stl_item_text i)) <= 112)%nat ->
  rows_open (split_byte 138 (pad_right_cut 143 112 (encode_text_stl (stl_item_text i)))) None []
  = Ok (map expected_line (wi_lines i), None).
Proof.
  intros i Hne HF Hlen. rewrite (pad_right_cut_short _ _ _ Hlen). rewrite (item_enc i HF). unfold item_bytes.
  rewrite (rows_go _ (wi_lines i) [] Hne HF). reflexivity.
Qed.

(* ---- in terms of effective flags: an attribute is on iff the reader returns "set and true" ---- *)
Definition is_true (o : option bool) : bool := match o with Some true => true | _ => false end.
Definition eff (x : erun) : str * bool * bool * bool :=
  (ru_text x, is_true (a_it (ru_at x)), is_true (a_un (ru_at x)), is_true (a_bx (ru_at x))).
Definition wflags (r : wrun) : str * bool * bool * bool := (wr_text r, wr_it r, wr_un r, wr_bx r).
Definition quiet (a : sattr_stl) : Prop := is_true (a_it a) = false /\ is_true (a_un a) = false /\ is_true (a_bx a) = false.

Lemma is_true_iff o : is_true o = true <-> o = Some true.
Proof. destruct o as [[|]|]; cbn [is_true]; split; intros H; try reflexivity; discriminate. Qed.

Lemma eff_from : forall l a, quiet a -> map eff (expected_from a l) = map wflags l.
Proof.
  induction l as [|r l IH]; intros a (Q1 & Q2 & Q3); [reflexivity|]. cbn [expected_from map]. f_equal.
  - unfold eff, wflags, open_attr. cbn [ru_text ru_at a_it a_un a_bx].
    destruct (wr_it r), (wr_un r), (wr_bx r); rewrite ?Q1, ?Q2, ?Q3; reflexivity.
  - apply IH. unfold quiet, close_attr. cbn [a_it a_un a_bx].
    destruct (wr_it r), (wr_un r), (wr_bx r); repeat split; first [reflexivity | assumption].
Qed.
Lemma eff_line l : map eff (expected_line l) = map wflags l.
Proof. apply eff_from. repeat split. Qed.
Lemma expected_no_spaces : forall l a x, In x (expected_from a l) -> ru_sb x = None /\ ru_sa x = None.
Proof.
  induction l as [|r l IH]; intros a x H; [contradiction|]. cbn [expected_from In] in H.
  destruct H as [<- | H]; [split; reflexivity | exact (IH _ x H)].
Qed.

Corollary open_rows_flags : forall (i : witem),
  wi_lines i <> [] -> Forall line_repr (wi_lines i) ->
  (length (encode_text_stl (stl_item_text i)) <= 112)%nat ->
  exists lines,
    rows_open (split_byte 138 (pad_right_cut 143 112 (encode_text_stl (stl_item_text i)))) None [] = Ok (lines, None)
    /\ map (map eff) lines = map (map wflags) (wi_lines i)
    /\ (forall l x, In l lines -> In x l -> ru_sb x = None /\ ru_sa x = None).
Proof.
  intros i Hne HF Hlen. exists (map expected_line (wi_lines i)). split; [exact (open_rows_roundtrip i Hne HF Hlen)|]. split.
  - rewrite map_map. apply map_ext. exact eff_line.
  - intros l x Hl Hx. apply in_map_iff in Hl. destruct Hl as (wl & <- & _). exact (expected_no_spaces _ _ x Hx).
Qed.

(* ================= a non-trivial item ================= *)
(* line 1: "Café" (unstyled), "x y" (italics and underline), "10 ¤" (unstyled); line 2: "Hi" (boxed), "there" (italics) *)
Definition ex_item : witem :=
  mkWitem 0 1000000000 None None
    [ [ mkWrun [67;97;102;195;169] false false false; mkWrun [120;32;121] true true false; mkWrun [49;48;32;194;164] false false false ];
      [ mkWrun [72;105] false false true; mkWrun [116;104;101;114;101] true false false ] ].

Ltac run_repr_by cs :=
  split; [discriminate | split; [vm_compute; reflexivity |
    exists cs; split; [reflexivity |
      repeat (apply Forall_cons; [apply in_rep_In; vm_compute; reflexivity|]); apply Forall_nil]]].

Example ex_item_hyps :
  wi_lines ex_item <> [] /\ Forall line_repr (wi_lines ex_item) /\ (length (encode_text_stl (stl_item_text ex_item)) <= 112)%nat.
Proof.
  split; [discriminate|]. split.
  - unfold ex_item. cbn [wi_lines]. constructor; [|constructor; [|constructor]].
    + split; [discriminate|]. split.
      * constructor; [run_repr_by [[67];[97];[102];[195;169]]|]. constructor; [run_repr_by [[120];[32];[121]]|].
        constructor; [run_repr_by [[49];[48];[32];[194;164]]|]. constructor.
      * cbn [no_adjacent_plain]. repeat split; [right | left]; reflexivity.
    + split; [discriminate|]. split.
      * constructor; [run_repr_by [[72];[105]]|]. constructor; [run_repr_by [[116];[104];[101];[114];[101]]|]. constructor.
      * cbn [no_adjacent_plain]. repeat split. left. reflexivity.
  - vm_compute. lia.
Qed.

(* the text field written, and what the reader makes of it *)
Example ex_item_bytes : encode_text_stl (stl_item_text ex_item)
  = [67;97;102;194;101; 32; 130;128;120;32;121;129;131; 32; 49;48;32;168; 138; 132;72;105;133; 32; 128;116;104;101;114;101;129].
Proof. vm_compute. reflexivity. Qed.

Example ex_item_roundtrip :
  rows_open (split_byte 138 (pad_right_cut 143 112 (encode_text_stl (stl_item_text ex_item)))) None []
  = Ok ([ [ mkErun [67;97;102;195;169] sattr0_stl None None;
            mkErun [120;32;121] (mkSattrStl (Some true) (Some true) None None None None None) None None;
            mkErun [49;48;32;194;164] (mkSattrStl (Some false) (Some false) None None None None None) None None ];
          [ mkErun [72;105] (mkSattrStl None None (Some true) None None None None) None None;
            mkErun [116;104;101;114;101] (mkSattrStl (Some true) None (Some false) None None None None) None None ] ], None).
Proof. vm_compute. reflexivity. Qed.
(* the same, through the theorem *)
Example ex_item_roundtrip_thm :
  rows_open (split_byte 138 (pad_right_cut 143 112 (encode_text_stl (stl_item_text ex_item)))) None []
  = Ok (map expected_line (wi_lines ex_item), None).
Proof. destruct ex_item_hyps as (H1 & H2 & H3). exact (open_rows_roundtrip ex_item H1 H2 H3). Qed.
