(* The scanner's line limit, composed with the line-based readers (second audit, item N3).

   The fidelity theorems of C01 / C02 / C04 are stated on the UNBOUNDED line splitter ([read_srt data = read_srt_lines
   (lines data) false], Kit/Scan.v).  The library reads through a bufio.Scanner with the default token limit
   (Kit/ScanLim.v [scan_lim], [max_scan_token] = 65536): a line that cannot be buffered makes ReadFromSRT / ReadFromWebVTT /
   ReadFromSSA return an error.  This file has the format-independent part and the SubRip statements:

   [lines_within max ls]      every line at least two bytes shorter than the buffer (C17's bound: enough for LF, CR LF, CR);
   [lines_within_lf max ls]   every line at least one byte shorter: exact for documents whose lines all end in LF
                              (what the three writers produce);
   [line_beyond_lf max ls]    some line of [max] bytes or more: its negation;
   [read_srt_lim], [read_vtt_lim], [read_ssa_lim]   the readers over the limit-aware scanner, for a delivery schedule;
   [read_lim_render]          lines within the bound, any line-end convention, any schedule: the reader on the lines;
   [read_lim_render_lf], [read_lim_render_lf_beyond]   LF-terminated documents: exactly when it is read / refused.

   SubRip: [write_read_srt_within] (C01_write_read with the bound, through the limit-aware reader, every schedule),
   [write_read_srt_exact] (the writer's bytes are read back iff no written line has [max] bytes or more; otherwise an
   error, for every schedule), [read_rendered_srt_within], [read_rendered_raw_srt_within] (every rendering, every line
   end), [srt_lines_within] (the bound on the written lines from a bound on the text lines of the cues: the index line
   has at most 3 + 19 bytes, the timing line at most 39). *)
From Coq Require Import List ZArith NArith Bool Arith Lia.
From Astisub Require Import Kit.Base Kit.Str Kit.Scan Kit.ScanLim Model.Dur Model.Srt Model.Vtt Model.Ssa.
From Astisub Require Import Proofs.ScanProofs Proofs.ScanLimProofs Proofs.ScanLimReaders Proofs.DurProofs Proofs.EolProofs.
From Astisub Require Import Proofs.SrtIOProofs Proofs.VttIOProofs Proofs.SsaIOProofs.
From Astisub Require Import Proofs.SrtProofs Proofs.SrtReadProofs Proofs.SrtWriteRender.
Import ListNotations.

(* ================= the bound ================= *)
Definition lines_within (max : nat) (ls : list str) : Prop := Forall (fun l => (length l + 2 <= max)%nat) ls.
Definition lines_within_lf (max : nat) (ls : list str) : Prop := Forall (fun l => (length l + 1 <= max)%nat) ls.
Definition line_beyond_lf (max : nat) (ls : list str) : Prop := Exists (fun l => (max < length l + 1)%nat) ls.
Definition lines_withinb (max : nat) (ls : list str) : bool := forallb (fun l => Nat.leb (length l + 2) max) ls.
Definition lines_within_lfb (max : nat) (ls : list str) : bool := forallb (fun l => Nat.leb (length l + 1) max) ls.

Lemma lines_withinb_ok max ls : lines_withinb max ls = true <-> lines_within max ls.
Proof.
  unfold lines_withinb, lines_within. rewrite forallb_forall, Forall_forall.
  split; intros H l Hl; specialize (H l Hl); [apply Nat.leb_le in H | apply Nat.leb_le]; exact H.
Qed.
Lemma lines_within_lfb_ok max ls : lines_within_lfb max ls = true <-> lines_within_lf max ls.
Proof.
  unfold lines_within_lfb, lines_within_lf. rewrite forallb_forall, Forall_forall.
  split; intros H l Hl; specialize (H l Hl); [apply Nat.leb_le in H | apply Nat.leb_le]; exact H.
Qed.
Lemma lines_within_lfb_false max ls : lines_within_lfb max ls = false <-> line_beyond_lf max ls.
Proof.
  unfold lines_within_lfb, line_beyond_lf. rewrite Exists_exists. split.
  - intros H. induction ls as [|l r IH]; [discriminate|]. cbn [forallb] in H. apply andb_false_iff in H. destruct H as [H|H].
    + exists l. split; [left; reflexivity|]. apply Nat.leb_gt in H. lia.
    + destruct (IH H) as (x & Hx & Hl). exists x. split; [right; exact Hx | exact Hl].
  - intros (x & Hx & Hl). destruct (forallb _ ls) eqn:E; [|reflexivity]. rewrite forallb_forall in E.
    specialize (E x Hx). apply Nat.leb_le in E. lia.
Qed.
Lemma lines_within_weaken max ls : lines_within max ls -> lines_within_lf max ls.
Proof. apply Forall_impl. intros l H. lia. Qed.
Lemma lines_within_app max a b : lines_within max (a ++ b) <-> lines_within max a /\ lines_within max b.
Proof. apply Forall_app. Qed.
Lemma within_or_beyond max ls : lines_within_lf max ls \/ line_beyond_lf max ls.
Proof.
  destruct (lines_within_lfb max ls) eqn:E; [left; apply lines_within_lfb_ok | right; apply lines_within_lfb_false]; exact E.
Qed.
Lemma within_not_beyond max ls : lines_within_lf max ls -> ~ line_beyond_lf max ls.
Proof.
  intros H E. apply lines_within_lfb_ok in H. apply lines_within_lfb_false in E. congruence.
Qed.

(* ================= the limit-aware readers ================= *)
Definition read_srt_lim (max : nat) (data : str) (counts : list nat) : res (list sitem) :=
  read_srt_lines (fst (scan_lim max data counts)) (snd (scan_lim max data counts)).
Definition read_vtt_lim (max : nat) (data : str) (counts : list nat) : res vdoc :=
  read_vtt_lines (fst (scan_lim max data counts)) (snd (scan_lim max data counts)).
Definition read_ssa_lim (max : nat) (data : str) (counts : list nat) : res adoc :=
  read_ssa_lines (fst (scan_lim max data counts)) (snd (scan_lim max data counts)).

(* C17_readers_within_limit in these words *)
Theorem read_lim_lines max data counts : (0 < max)%nat -> lines_within max (lines data) ->
  read_srt_lim max data counts = read_srt data /\ read_vtt_lim max data counts = read_vtt data /\
  read_ssa_lim max data counts = read_ssa data.
Proof. exact (read_lim_within max data counts). Qed.

(* ================= rendered lines under the limit ================= *)
Lemma render_lf_cons l ls : render_eol [LF] (l :: ls) = l ++ LF :: render_eol [LF] ls.
Proof. rewrite render_cons. reflexivity. Qed.

Lemma render_lf_fits max ls : Forall brkfree ls -> lines_within_lf max ls -> lim_fits max (render_eol [LF] ls).
Proof.
  induction ls as [|l r IH]; intros HB HW; [constructor|].
  inversion HB as [|? ? Hl HB']; subst. inversion HW as [|? ? Wl HW']; subst. rewrite render_lf_cons.
  apply (lf_cons max _ (length l + 1)%nat l (render_eol [LF] r)).
  - exact (need_lf l _ Hl).
  - exact Wl.
  - exact (split_lf l _ Hl).
  - exact (IH HB' HW').
Qed.

Lemma render_lf_overlong max ls : Forall brkfree ls -> line_beyond_lf max ls -> exists j, lim_overlong max (render_eol [LF] ls) j.
Proof.
  induction ls as [|l r IH]; intros HB HE; [inversion HE|].
  inversion HB as [|? ? Hl HB']; subst. rewrite render_lf_cons.
  destruct (Nat.ltb max (length l + 1)) eqn:C.
  - apply Nat.ltb_lt in C. exists 0%nat. exact (lo_here max _ _ (need_lf l _ Hl) C).
  - apply Nat.ltb_ge in C. inversion HE as [? ? Hh | ? ? Ht]; subst; [lia|].
    destruct (IH HB' Ht) as (j & Hj). exists (S j).
    exact (lo_later max _ _ l (render_eol [LF] r) j (need_lf l _ Hl) C (split_lf l _ Hl) Hj).
Qed.

(* every line-end convention, the bound of C17 *)
Theorem scan_lim_render max e ls counts : (0 < max)%nat -> eol_ok e -> Forall brkfree ls -> lines_within max ls ->
  scan_lim max (render_eol e ls) counts = (ls, false).
Proof.
  intros Hmax He HB HW. rewrite scan_lim_short_lines; [| exact Hmax | rewrite (lines_render e ls He HB); exact HW].
  rewrite (lines_render e ls He HB). reflexivity.
Qed.
(* LF-terminated lines: one byte more is allowed ... *)
Theorem scan_lim_render_lf max ls counts : (0 < max)%nat -> Forall brkfree ls -> lines_within_lf max ls ->
  scan_lim max (render_eol [LF] ls) counts = (ls, false).
Proof.
  intros Hmax HB HW. rewrite (scan_lim_fits max _ counts Hmax (render_lf_fits max ls HB HW)).
  rewrite (lines_render [LF] ls (or_introl eq_refl) HB). reflexivity.
Qed.
(* ... and not two: a line of [max] bytes stops the scanner with ErrTooLong under every schedule *)
Theorem scan_lim_render_lf_beyond max ls counts : Forall brkfree ls -> line_beyond_lf max ls ->
  snd (scan_lim max (render_eol [LF] ls) counts) = true.
Proof.
  intros HB HE. destruct (render_lf_overlong max ls HB HE) as (j & Hj). rewrite (scan_lim_overlong max _ counts j Hj). reflexivity.
Qed.

Theorem read_lim_render max e ls counts : (0 < max)%nat -> eol_ok e -> Forall brkfree ls -> lines_within max ls ->
  read_srt_lim max (render_eol e ls) counts = read_srt_lines ls false /\
  read_vtt_lim max (render_eol e ls) counts = read_vtt_lines ls false /\
  read_ssa_lim max (render_eol e ls) counts = read_ssa_lines ls false.
Proof.
  intros Hmax He HB HW. unfold read_srt_lim, read_vtt_lim, read_ssa_lim.
  rewrite (scan_lim_render max e ls counts Hmax He HB HW). cbn [fst snd]. repeat split.
Qed.
Theorem read_lim_render_lf max ls counts : (0 < max)%nat -> Forall brkfree ls -> lines_within_lf max ls ->
  read_srt_lim max (render_eol [LF] ls) counts = read_srt_lines ls false /\
  read_vtt_lim max (render_eol [LF] ls) counts = read_vtt_lines ls false /\
  read_ssa_lim max (render_eol [LF] ls) counts = read_ssa_lines ls false.
Proof.
  intros Hmax HB HW. unfold read_srt_lim, read_vtt_lim, read_ssa_lim.
  rewrite (scan_lim_render_lf max ls counts Hmax HB HW). cbn [fst snd]. repeat split.
Qed.
Theorem read_lim_render_lf_beyond max ls counts : Forall brkfree ls -> line_beyond_lf max ls ->
  (exists k, read_srt_lim max (render_eol [LF] ls) counts = Err k) /\
  (exists k, read_vtt_lim max (render_eol [LF] ls) counts = Err k) /\
  (exists k, read_ssa_lim max (render_eol [LF] ls) counts = Err k).
Proof.
  intros HB HE. unfold read_srt_lim, read_vtt_lim, read_ssa_lim.
  rewrite (scan_lim_render_lf_beyond max ls counts HB HE).
  split; [apply read_srt_fault | split; [apply read_vtt_fault | apply read_ssa_fault]].
Qed.

(* ================= decimal: at most k digits below 10^k (as Proofs/StlGsi.v itoa_length_le; restated here so that the
   SubRip and WebVTT files do not depend on the STL development) ================= *)
Lemma u2s_length u : length (uint_to_str u) = Decimal.nb_digits u.
Proof. induction u; cbn [uint_to_str length Decimal.nb_digits]; congruence. Qed.
Definition ddig (k : N) (d : Decimal.uint) : Decimal.uint :=
  match k with
  | 0 => Decimal.D0 d | 1 => Decimal.D1 d | 2 => Decimal.D2 d | 3 => Decimal.D3 d | 4 => Decimal.D4 d
  | 5 => Decimal.D5 d | 6 => Decimal.D6 d | 7 => Decimal.D7 d | 8 => Decimal.D8 d | _ => Decimal.D9 d
  end%N.
Fixpoint dlu (k : nat) (n : N) : Decimal.uint :=
  match k with O => Decimal.Nil | S k' => ddig (n mod 10)%N (dlu k' (n / 10)%N) end.
Lemma of_lu_ddig k d : (k < 10)%N -> DecimalPos.Unsigned.of_lu (ddig k d) = (k + 10 * DecimalPos.Unsigned.of_lu d)%N.
Proof.
  intros H. assert (C : (k = 0 \/ k = 1 \/ k = 2 \/ k = 3 \/ k = 4 \/ k = 5 \/ k = 6 \/ k = 7 \/ k = 8 \/ k = 9)%N) by lia.
  destruct C as [C|[C|[C|[C|[C|[C|[C|[C|[C|C]]]]]]]]]; subst k; reflexivity.
Qed.
Lemma nb_digits_ddig k d : Decimal.nb_digits (ddig k d) = S (Decimal.nb_digits d).
Proof. unfold ddig. repeat (match goal with |- context [match ?x with _ => _ end] => destruct x end); reflexivity. Qed.
Lemma of_lu_dlu : forall k n, (n < 10 ^ N.of_nat k)%N -> DecimalPos.Unsigned.of_lu (dlu k n) = n.
Proof.
  induction k as [|k IH]; intros n H.
  - change (10 ^ N.of_nat 0)%N with 1%N in H. assert (n = 0%N) by lia. subst n. reflexivity.
  - cbn [dlu]. rewrite of_lu_ddig by (apply N.mod_lt; lia).
    rewrite Nat2N.inj_succ, N.pow_succ_r' in H.
    rewrite IH by (apply N.div_lt_upper_bound; [lia | exact H]).
    rewrite N.add_comm. symmetry. apply N.div_mod'.
Qed.
Lemma nb_digits_dlu : forall k n, Decimal.nb_digits (dlu k n) = k.
Proof. induction k as [|k IH]; intros n; [reflexivity|]. cbn [dlu]. rewrite nb_digits_ddig, IH. reflexivity. Qed.
Theorem itoa_len_le k n : (0 < k)%nat -> (n < 10 ^ N.of_nat k)%N -> (length (itoa n) <= k)%nat.
Proof.
  intros Hk Hn. unfold itoa. rewrite u2s_length.
  assert (E : N.to_uint n = Decimal.unorm (Decimal.rev (dlu k n))).
  { rewrite <- DecimalN.Unsigned.to_of. f_equal. unfold N.of_uint. rewrite DecimalPos.Unsigned.of_lu_rev.
    symmetry. apply of_lu_dlu. exact Hn. }
  rewrite E.
  assert (Hr : Decimal.rev (dlu k n) <> Decimal.Nil).
  { intros Hnil. pose proof (DecimalFacts.nb_digits_rev (dlu k n)) as R. rewrite Hnil, nb_digits_dlu in R. cbn in R. lia. }
  pose proof (DecimalFacts.nb_digits_unorm _ Hr) as U. rewrite DecimalFacts.nb_digits_rev, nb_digits_dlu in U. exact U.
Qed.

(* a cue number that fits an int64 has at most 19 digits *)
Lemma idx_length k : (Z.of_nat (S k) <= max_int64)%Z -> (length (idx_str k) <= 19)%nat.
Proof.
  intros H. unfold idx_str. apply itoa_len_le; [lia|]. unfold max_int64 in H.
  change (10 ^ N.of_nat 19)%N with 10000000000000000000%N. lia.
Qed.

(* a timestamp: hours (at most 7 digits for an int64 of nanoseconds), minutes, seconds, fraction *)
Lemma two_length_le k v : (2 <= k)%nat -> (0 <= v < 10 ^ Z.of_nat k)%Z -> (length (two v) <= k)%nat.
Proof.
  intros Hk Hv. unfold two. rewrite app_length, (itoa_z_nonneg v ltac:(lia)).
  destruct (v <? 10)%Z eqn:E; cbn [length].
  - apply Z.ltb_lt in E. assert (L : (length (itoa (Z.to_N v)) <= 1)%nat) by (apply itoa_len_le; [lia | change (10 ^ N.of_nat 1)%N with 10%N; lia]).
    lia.
  - assert (L : (length (itoa (Z.to_N v)) <= k)%nat).
    { apply itoa_len_le; [lia|]. apply N2Z.inj_lt. rewrite N2Z.inj_pow, Z2N.id, nat_N_Z by lia. apply Hv. }
    lia.
Qed.
Lemma format_duration_length sep k t : (1 <= k <= 3)%nat -> (0 <= t <= max_int64)%Z ->
  (length (format_duration t [sep] k) <= 14 + k)%nat.
Proof.
  intros Hk Ht. destruct (format_grammar sep k t Hk (proj1 Ht)) as (E & _ & _ & _ & Lm & _ & _ & Ls & _ & _ & Lf).
  rewrite E, !app_length, Lm, Ls, Lf. cbn [length].
  assert (Lh : (length (two (f_h t)) <= 7)%nat).
  { apply two_length_le; [lia|]. unfold f_h, hour_ns. unfold max_int64 in Ht. change (10 ^ Z.of_nat 7)%Z with 10000000%Z.
    split; [apply Z.div_pos; lia | apply Z.div_lt_upper_bound; lia]. }
  lia.
Qed.
Lemma time_line_length it : time_ok it -> (length (time_line it) <= 39)%nat.
Proof.
  intros (Hs & He). unfold time_line, format_srt. rewrite !app_length.
  pose proof (format_duration_length Dur.comma 3 (si_st it) ltac:(lia) Hs). pose proof (format_duration_length Dur.comma 3 (si_en it) ltac:(lia) He).
  change (length arrow_sp) with 5%nat. lia.
Qed.

(* ================= SubRip ================= *)
(* the text lines of the cues within the bound (what the caller controls) *)
Definition srt_text_within (max : nat) (l : list sitem) : Prop :=
  Forall (fun it => lines_within max (map line_str (si_lines it))) l.

Lemma rest_lines_within max : forall r k, (41 <= max)%nat -> Forall time_ok r -> (Z.of_nat (k + length r) <= max_int64)%Z ->
  srt_text_within max r -> lines_within max (rest_lines k r).
Proof.
  induction r as [|it r IH]; intros k Hmax Ht Hn Hw; [constructor|]. cbn [length] in Hn.
  inversion Ht as [|? ? Hit Ht']; subst. inversion Hw as [|? ? Wit Hw']; subst.
  cbn [rest_lines]. constructor; [cbn [length]; lia|]. unfold item_lines.
  constructor; [pose proof (idx_length k ltac:(lia)); lia|].
  constructor; [pose proof (time_line_length it Hit); lia|].
  apply lines_within_app. split; [exact Wit|]. apply IH; try assumption. rewrite <- Nat.add_succ_comm in Hn. exact Hn.
Qed.

(* THE WRITTEN LINES ARE WITHIN THE BOUND WHEN THE TEXT LINES ARE: byte-order mark + first index <= 3 + 19, every other
   index line <= 19, every timing line <= 39 bytes *)
Theorem srt_lines_within max l : (41 <= max)%nat -> Forall time_ok l -> (Z.of_nat (length l) <= max_int64)%Z ->
  srt_text_within max l -> lines_within max (render_items true (w_rendering l) 0).
Proof.
  intros Hmax Ht Hn Hw. destruct l as [|it r]; [constructor|]. rewrite w_doc_lines. unfold doc_lines.
  inversion Ht as [|? ? Hit Ht']; subst. inversion Hw as [|? ? Wit Hw']; subst. cbn [length] in Hn.
  constructor.
  { rewrite app_length. change (length bom) with 3%nat. pose proof (idx_length 0 ltac:(lia)). lia. }
  constructor; [pose proof (time_line_length it Hit); lia|].
  apply lines_within_app. split; [exact Wit|]. apply rest_lines_within; first [assumption | lia].
Qed.
Lemma repr_items_time_ok l : Forall repr_item l -> Forall time_ok l.
Proof. apply Forall_impl. intros it (H & _). exact H. Qed.

(* C01_write_read through the limit-aware reader: the hypothesis on the bytes ... *)
Theorem write_read_srt_within max l : (0 < max)%nat -> Forall repr_item l -> l <> [] -> (Z.of_nat (length l) <= max_int64)%Z ->
  forall data, write_srt l = Ok data -> lines_within max (lines data) ->
  forall counts, read_srt_lim max data counts = Ok (renumber_truncate l).
Proof.
  intros Hmax Hl Hne Hn data Hw HW counts. destruct (read_write_srt l Hl Hne Hn) as (data' & Hw' & Hr).
  rewrite Hw in Hw'. inversion Hw'; subst data'. rewrite (proj1 (read_lim_lines max data counts Hmax HW)). exact Hr.
Qed.
(* ... and on the cue list *)
Theorem write_read_srt_text_within max l : (41 <= max)%nat -> Forall repr_item l -> l <> [] -> (Z.of_nat (length l) <= max_int64)%Z ->
  srt_text_within max l ->
  exists data, write_srt l = Ok data /\ forall counts, read_srt_lim max data counts = Ok (renumber_truncate l).
Proof.
  intros Hmax Hl Hne Hn Hw. eexists. split; [apply write_is_rendering; exact Hne|]. intros counts.
  apply (write_read_srt_within max l ltac:(lia) Hl Hne Hn _ (write_is_rendering l Hne)).
  rewrite (lines_render [10%N] _ (or_introl eq_refl) (w_lines_brkfree l Hl Hne)).
  apply srt_lines_within; try assumption. apply repr_items_time_ok. exact Hl.
Qed.

(* THE EXACT STATEMENT FOR THE WRITER'S BYTES (every line ends in LF): read back when no written line has [max] bytes
   or more, refused -- an error, never a shorter cue list -- when one has, for every delivery schedule *)
Theorem write_read_srt_exact max l : (0 < max)%nat -> Forall repr_item l -> l <> [] -> (Z.of_nat (length l) <= max_int64)%Z ->
  exists data, write_srt l = Ok data /\
    (lines_within_lf max (render_items true (w_rendering l) 0) ->
       forall counts, read_srt_lim max data counts = Ok (renumber_truncate l)) /\
    (line_beyond_lf max (render_items true (w_rendering l) 0) ->
       forall counts, exists k, read_srt_lim max data counts = Err k).
Proof.
  intros Hmax Hl Hne Hn. eexists. split; [apply write_is_rendering; exact Hne|].
  pose proof (w_lines_brkfree l Hl Hne) as HB. split.
  - intros HW counts. change [10%N] with [LF]. rewrite (proj1 (read_lim_render_lf max _ counts Hmax HB HW)).
    destruct (write_rendering_ok l Hl Hn) as [A B]. rewrite (read_rendered true _ 0 A B). f_equal. apply write_denotes. exact Hn.
  - intros HE counts. change [10%N] with [LF]. exact (proj1 (read_lim_render_lf_beyond max _ counts HB HE)).
Qed.

(* every tolerated rendering (C01_read_rendered, C01_read_rendered_raw), every line-end convention, every schedule.  The
   rendering's lines are free of line breaks (a hypothesis as in C01_eol: white space around the arrow, an index line, a
   raw text line may hold a carriage return in the middle, which is then a line break, not part of the line) *)
Theorem read_rendered_srt_within max e b l eof : (0 < max)%nat -> eol_ok e ->
  Forall (fun p => rend_ok (fst p) /\ repr_item (snd p)) l -> Forall (fun p => gap_ok (fst p)) (tl l) ->
  Forall brkfree (render_items b l eof) -> lines_within max (render_items b l eof) ->
  forall counts, read_srt_lim max (render_eol e (render_items b l eof)) counts = Ok (map denote_item l).
Proof.
  intros Hmax He Hok Hgap HB HW counts. rewrite (proj1 (read_lim_render max e _ counts Hmax He HB HW)).
  apply read_rendered; assumption.
Qed.
Theorem read_rendered_raw_srt_within max e b cs eof : (0 < max)%nat -> eol_ok e ->
  Forall (fun p => rend_ok (fst p) /\ rcue_ok (snd p)) cs -> Forall (fun p => gap_ok (fst p)) (tl cs) ->
  Forall brkfree (render b cs eof) -> lines_within max (render b cs eof) ->
  forall counts, read_srt_lim max (render_eol e (render b cs eof)) counts = Ok (map denote_cue cs).
Proof.
  intros Hmax He Hok Hgap HB HW counts. rewrite (proj1 (read_lim_render max e _ counts Hmax He HB HW)).
  apply read_rendered_raw; assumption.
Qed.
(* the three line-end conventions under the limit: the reader sees exactly the lines that were rendered (C01_eol) *)
Theorem read_srt_lim_eol max e ls counts : (0 < max)%nat -> eol_ok e -> Forall brkfree ls -> lines_within max ls ->
  read_srt_lim max (render_eol e ls) counts = read_srt_lines ls false.
Proof. intros Hmax He HB HW. exact (proj1 (read_lim_render max e ls counts Hmax He HB HW)). Qed.

(* ================= the bound is needed, and sharp ================= *)
(* one cue, one unstyled text line of n letters a; representable for every n > 0 *)
Definition a_cue (n : N) : list sitem := [mkSitem 0 1000000000 2000000000 [[mkSrun (a_line n) None 0]]].
Definition srt_bytes (l : list sitem) : str := match write_srt l with Ok d => d | _ => [] end.

Lemma escape_repeat_a k : escape_html (repeat 97%N k) = repeat 97%N k.
Proof.
  induction k as [|k IH]; [reflexivity|]. cbn [repeat].
  destruct (SrtEscProofs.escape_step 97%N (repeat 97%N k)) as [(C & _) | [(C & _) | [(t' & C & _) | (_ & _ & E)]]]; try discriminate C.
  rewrite E, IH. reflexivity.
Qed.
Lemma a_line_str n : line_str [mkSrun (a_line n) None 0] = a_line n.
Proof.
  unfold line_str, run_bytes. cbn [map concat sr_sty sr_pos sr_text]. change (0 =? 0)%N with true. cbv iota.
  cbn [app]. rewrite !app_nil_r. apply escape_repeat_a.
Qed.
Lemma a_line_plain n : all_plain (a_line n).
Proof. unfold all_plain, a_line. induction (N.to_nat n) as [|k IH]; constructor; [reflexivity | exact IH]. Qed.
Lemma a_line_not_in c n : c <> 97%N -> ~ In c (a_line n).
Proof. intros Hc Hin. apply repeat_spec in Hin. congruence. Qed.

Lemma a_cue_repr n : (0 < n)%N -> Forall repr_item (a_cue n).
Proof.
  intros Hn. constructor; [|constructor]. split.
  - unfold time_ok, max_int64. cbn [si_st si_en]. lia.
  - cbn [si_lines]. constructor; [|constructor].
    assert (Hne : a_line n <> []) by (apply a_line_nonnil; exact Hn).
    assert (Ht : trim_space (a_line n) = a_line n) by (apply trim_space_all_plain, a_line_plain).
    unfold repr_doc_line. cbv zeta. rewrite a_line_str. split; [|split; [exact Ht | split; [|split]]].
    + unfold repr_line. rewrite a_line_str, Ht. split; [|split; [exact I | exact Hne]].
      constructor; [|constructor]. unfold repr_run. cbn [sr_pos sr_text sr_sty]. unfold a_line at 1. rewrite escape_repeat_a.
      fold (a_line n). rewrite Ht. split; [reflexivity|]. split; [exact Hne|]. split; [exact I|]. apply a_line_not_in. discriminate.
    + unfold arrow. apply contains_none. apply a_line_not_in. discriminate.
    + exact (nobrk_repeat _).
    + apply utf8_valid_ascii, all_plain_ascii, a_line_plain.
Qed.

(* the lines written for it: byte-order mark and index, the timing line, the text line *)
Lemma a_cue_lines n : exists x y, render_items true (w_rendering (a_cue n)) 0 = [x; y; a_line n] /\ length x = 4%nat /\ length y = 29%nat.
Proof.
  unfold a_cue. rewrite w_doc_lines. unfold doc_lines. cbn [si_lines map rest_lines app]. rewrite a_line_str.
  eexists. eexists. split; [reflexivity|]. split; vm_compute; reflexivity.
Qed.

(* FOR EVERY BUFFER SIZE above the timing line and every schedule: a text line one byte shorter than the buffer is read
   back, a text line that fills the buffer is refused -- while the unbounded splitter of C01_write_read returns the cue *)
Theorem srt_line_bound_sharp max n : (30 <= max)%nat -> (0 < n)%N ->
  exists data, write_srt (a_cue n) = Ok data /\ read_srt data = Ok (renumber_truncate (a_cue n)) /\
    ((N.to_nat n + 1 <= max)%nat -> forall counts, read_srt_lim max data counts = Ok (renumber_truncate (a_cue n))) /\
    ((max < N.to_nat n + 1)%nat -> forall counts, exists k, read_srt_lim max data counts = Err k).
Proof.
  intros Hmax Hn. pose proof (a_cue_repr n Hn) as Hr.
  assert (Hne : a_cue n <> []) by discriminate. assert (Hlen : (Z.of_nat (length (a_cue n)) <= max_int64)%Z) by (unfold max_int64; cbn; lia).
  destruct (write_read_srt_exact max (a_cue n) ltac:(lia) Hr Hne Hlen) as (data & Hw & Hin & Hout).
  destruct (read_write_srt (a_cue n) Hr Hne Hlen) as (data' & Hw' & Hrd). rewrite Hw in Hw'. inversion Hw'; subst data'.
  destruct (a_cue_lines n) as (x & y & E & Lx & Ly). rewrite E in Hin, Hout.
  exists data. split; [exact Hw|]. split; [exact Hrd|]. split.
  - intros Hle. apply Hin. repeat constructor; rewrite ?Lx, ?Ly, ?a_line_length; lia.
  - intros Hgt. apply Hout. right. right. left. rewrite a_line_length. exact Hgt.
Qed.

(* the real constant: 65535 letters are read back, 65536 are refused (both for every schedule); the cue with 65536 letters
   satisfies every hypothesis of C01_write_read *)
Theorem srt_real_line_bound :
  Forall repr_item (a_cue 65536) /\
  (exists data, write_srt (a_cue 65535) = Ok data /\
     forall counts, read_srt_lim max_scan_token data counts = Ok (renumber_truncate (a_cue 65535))) /\
  (exists data, write_srt (a_cue 65536) = Ok data /\ read_srt data = Ok (renumber_truncate (a_cue 65536)) /\
     forall counts, exists k, read_srt_lim max_scan_token data counts = Err k).
Proof.
  split; [apply a_cue_repr; reflexivity|]. split.
  - destruct (srt_line_bound_sharp max_scan_token 65535 ltac:(unfold max_scan_token; lia) eq_refl) as (data & Hw & _ & Hin & _).
    exists data. split; [exact Hw|]. apply Hin. unfold max_scan_token. lia.
  - destruct (srt_line_bound_sharp max_scan_token 65536 ltac:(unfold max_scan_token; lia) eq_refl) as (data & Hw & Hrd & _ & Hout).
    exists data. split; [exact Hw|]. split; [exact Hrd|]. apply Hout. unfold max_scan_token. lia.
Qed.

(* small buffer, by computation (max = 48 > the 29 bytes of the timing line + 2): 46 letters are within the bound of
   write_read_srt_within; 47 are read back from the LF-terminated bytes of the writer but not once the same lines end in
   CR LF (the bound of C17 is the bound for all three line ends); 48 are refused, with the error of the scanner *)
Example write_read_needs_line_bound :
  forallb repr_itemb (a_cue 48) = true /\
  read_srt (srt_bytes (a_cue 48)) = Ok (renumber_truncate (a_cue 48)) /\
  read_srt_lim 48 (srt_bytes (a_cue 48)) [] = Err EIO /\
  read_srt_lim 48 (srt_bytes (a_cue 48)) [7%nat; 0%nat; 100%nat] = Err EIO /\
  lines_withinb 48 (lines (srt_bytes (a_cue 46))) = true /\
  read_srt_lim 48 (srt_bytes (a_cue 46)) [7%nat; 0%nat; 100%nat] = Ok (renumber_truncate (a_cue 46)) /\
  lines_withinb 48 (lines (srt_bytes (a_cue 47))) = false /\
  read_srt_lim 48 (srt_bytes (a_cue 47)) [7%nat; 0%nat; 100%nat] = Ok (renumber_truncate (a_cue 47)) /\
  read_srt_lim 48 (render_eol [CR; LF] (lines (srt_bytes (a_cue 47)))) [7%nat; 0%nat; 100%nat] = Err EIO /\
  read_srt (render_eol [CR; LF] (lines (srt_bytes (a_cue 47)))) = Ok (renumber_truncate (a_cue 47)).
Proof. vm_compute. repeat split; reflexivity. Qed.
