(* C03: side conditions of the composite reading theorem that lie outside the property's quantifier are necessary:
   computed counter-examples (each is also replayed on the library: harness corpus entries of the same name). *)
From Coq Require Import List ZArith NArith Bool.
From Astisub Require Import Kit.Base Kit.Str Kit.Xml Model.Dur Model.Ttml Proofs.TtmlSpec Proofs.TtmlRender.
Import ListNotations.
Open Scope N_scope.

Definition mini_r (style_attrs : list (list xattr)) (paras : list rpara) : rendering :=
  mkR (fun n => x_space n) [] [] [] None false false [0; 1; 2]%nat true style_attrs [] paras [] [] [] [] [] [] [].
Definition one_s : texpr := TOffset [49] [] Ms.   (* "1s" *)
Definition two_s : texpr := TOffset [50] [] Ms.   (* "2s" *)
Definition mini_para (gs : list group) : rpara :=
  mkRP one_s two_s [(mkName [] s_begin, [49; 115]); (mkName [] s_end, [50; 115])] gs [].
Definition mini_item (ls : list (list trun)) : gitem := mkG (1000000000, 1)%Z (2000000000, 1)%Z None None no_attrs ls.
Definition txt (t : str) : list (list trun) := [[mkRun t None no_attrs]].

(* sanity: the minimal document passes the check and is read as denoted *)
Definition m_ok : gdoc := mkGD 0 0 [] [] None [] [] [mini_item (txt [120])].
Definition r_ok : rendering := mini_r [] [mini_para [GText (mkPiece [] [120] [])]].
Example mini_ok : render_ok r_ok m_ok = true /\ read_ttml (render_ttml r_ok m_ok) = Ok (denote_ttml r_ok m_ok).
Proof. split; vm_compute; reflexivity. Qed.

(* 1. style identifiers must be pairwise distinct: with a duplicate the later definition replaces the earlier one
      (a Go map), so the document does not denote two styles *)
Definition m_dup : gdoc :=
  mkGD 0 0 [] [] None [mkStyle [97] None no_attrs; mkStyle [97] None no_attrs] [] [mini_item (txt [120])].
Definition r_dup : rendering := mini_r [[(mkName [] s_id, [97])]; [(mkName [] s_id, [97])]] [mini_para [GText (mkPiece [] [120] [])]].
Example distinct_ids_needed : render_ok r_dup m_dup = false /\ read_ttml (render_tree r_dup m_dup) <> Ok (denote_ttml r_dup m_dup).
Proof. split; [vm_compute; reflexivity | intros H; vm_compute in H; discriminate]. Qed.

(* 2. bare character data must not begin with XML white space: the reader cannot tell it from indentation *)
Definition m_blank : gdoc := mkGD 0 0 [] [] None [] [] [mini_item (txt [32; 120])].
Definition r_blank : rendering := mini_r [] [mini_para [GText (mkPiece [] [32; 120] [])]].
Example bare_text_no_leading_blank_needed :
  render_ok r_blank m_blank = false /\ read_ttml (render_tree r_blank m_blank) <> Ok (denote_ttml r_blank m_blank).
Proof. split; [vm_compute; reflexivity | intros H; vm_compute in H; discriminate]. Qed.

(* 3. a cue has at least one line: an empty <p> reads as one empty line *)
Definition m_nolines : gdoc := mkGD 0 0 [] [] None [] [] [mini_item []].
Definition r_nolines : rendering := mini_r [] [mini_para []].
Example one_line_needed :
  render_ok r_nolines m_nolines = false /\ read_ttml (render_tree r_nolines m_nolines) <> Ok (denote_ttml r_nolines m_nolines).
Proof. split; [vm_compute; reflexivity | intros H; vm_compute in H; discriminate]. Qed.

(* 4. references must resolve: a paragraph naming an undefined style is an error, not a cue *)
Definition m_ref : gdoc := mkGD 0 0 [] [] None [] [] [mkG (1000000000, 1)%Z (2000000000, 1)%Z None (Some [122]) no_attrs (txt [120])].
Definition r_ref : rendering :=
  mini_r [] [mkRP one_s two_s [(mkName [] s_begin, [49; 115]); (mkName [] s_end, [50; 115]); (mkName [] s_style, [122])]
                  [GText (mkPiece [] [120] [])] []].
Example closed_references_needed :
  render_ok r_ref m_ref = false /\ read_ttml (render_tree r_ref m_ref) = Err EUnknownRef.
Proof. split; vm_compute; reflexivity. Qed.

(* 5. a frame expression needs a positive frame rate: with frameRate 0 the reader returns the clock part only *)
Definition m_fr0 : gdoc := mkGD 0 0 [] [] None [] [] [mini_item (txt [120])].
Definition r_fr0 : rendering :=
  mini_r [] [mkRP (TOffset [50; 53] [] Mf) two_s [(mkName [] s_begin, [50; 53; 102]); (mkName [] s_end, [50; 115])]
                  [GText (mkPiece [] [120] [])] []].
Example positive_rate_needed :
  render_ok r_fr0 m_fr0 = false /\
  match read_ttml (render_tree r_fr0 m_fr0) with Ok d => map ti_st (td_items d) = [0%Z] | _ => False end.
Proof. split; vm_compute; reflexivity. Qed.

(* 6. the bound on the instant (2^49 ns) cannot simply be dropped: "9007199254.740993s" means the whole number
      9 007 199 254 740 993 000 ns but two binary64 roundings return ...992 000 (the harness compares the library with
      the model on this very string: group ttml.time.malformed) *)
Definition e_big : texpr := TOffset [57;48;48;55;49;57;57;50;53;52] [55;52;48;57;57;51] Ms.
Example instant_bound_needed :
  texpr_okb 0 0 e_big = false /\ ttml_time (texpr_str e_big) 0 0 = Some 9007199254740992000%Z /\
  texpr_exact 0 0 e_big = (9007199254740993000000000, 1000000)%Z.
Proof. repeat split; vm_compute; reflexivity. Qed.
