(* Fuel audit, Model/Ttx.v: ttx_units_fuel (value at O: [] = "no further data unit", an ordinary-looking result).
   Wrapper: ttx_units d = ttx_units_fuel (length d) d.  Every data unit takes two bytes at least (identifier and
   length), so [length d <= fuel] suffices; with exactly [length d] the out-of-fuel branch is only reached on the empty
   remainder, where the in-fuel branch gives [] too. *)
From Coq Require Import List ZArith NArith Bool Arith Lia.
From Astisub Require Import Kit.Base Kit.Str Model.Ttx.
Import ListNotations.
Open Scope N_scope.

Lemma ttx_units_fuel_step f d :
  ttx_units_fuel (Datatypes.S f) d =
  match d with
  | id :: len :: rest =>
    if Nat.ltb (length rest) (N.to_nat len) then []
    else (id, firstn (N.to_nat len) rest) :: ttx_units_fuel f (skipn (N.to_nat len) rest)
  | _ => []
  end.
Proof. reflexivity. Qed.
Lemma ttx_units_fuel_short f d : (length d < 2)%nat -> ttx_units_fuel f d = [].
Proof.
  intros H. destruct f as [|f]; [reflexivity|]. rewrite ttx_units_fuel_step.
  destruct d as [|a [|b r]]; [reflexivity | reflexivity | cbn [length] in H; lia].
Qed.

Lemma ttx_units_fuel_enough : forall n m d, (length d <= n)%nat -> (length d <= m)%nat ->
  ttx_units_fuel n d = ttx_units_fuel m d.
Proof.
  induction n as [|n IH]; intros m d Hn Hm.
  - rewrite (ttx_units_fuel_short m d) by lia. reflexivity.
  - destruct m as [|m]; [rewrite (ttx_units_fuel_short (Datatypes.S n) d) by lia; reflexivity|].
    rewrite !ttx_units_fuel_step. destruct d as [|id [|len rest]]; try reflexivity.
    destruct (Nat.ltb (length rest) (N.to_nat len)); [reflexivity|]. f_equal.
    pose proof (skipn_length (N.to_nat len) rest) as L. cbn [length] in Hn, Hm. apply IH; lia.
Qed.
Theorem ttx_units_fuel_indep fuel d : (length d <= fuel)%nat -> ttx_units_fuel fuel d = ttx_units_fuel (length d) d.
Proof. intros H. apply ttx_units_fuel_enough; lia. Qed.

(* fuel-free equations of the wrapper *)
Theorem ttx_units_short d : (length d < 2)%nat -> ttx_units d = [].
Proof. apply ttx_units_fuel_short. Qed.
Theorem ttx_units_cons id len rest :
  ttx_units (id :: len :: rest) =
  if Nat.ltb (length rest) (N.to_nat len) then []
  else (id, firstn (N.to_nat len) rest) :: ttx_units (skipn (N.to_nat len) rest).
Proof.
  unfold ttx_units. cbn [length]. rewrite ttx_units_fuel_step.
  destruct (Nat.ltb (length rest) (N.to_nat len)); [reflexivity|]. f_equal.
  pose proof (skipn_length (N.to_nat len) rest) as L. apply ttx_units_fuel_enough; lia.
Qed.
