(* WebVTT write -> read: the side conditions of repr_vdoc / repr_vline are needed.  For each condition a document that
   violates only that condition, and the computed fact that reading what the writer wrote does not give back the
   (normalised) document.  [rt d] = read (write d), projected to what differs. *)
From Coq Require Import List ZArith NArith Lia Bool Arith.
From Astisub Require Import Kit.Base Kit.Str Kit.Scan Kit.Html Model.Dur Model.Srt Model.Vtt.
From Astisub Require Import Proofs.VttBase Proofs.VttLine Proofs.VttDoc.
Import ListNotations.
From Coq Require Strings.String.
Import Strings.String.StringSyntax.
Delimit Scope string_scope with string.
Arguments b s%string.
Open Scope N_scope.

Definition rt (d : vdoc) (so ro : list str) : res vdoc :=
  match write_vtt d so ro with Ok data => read_vtt data | Err k => Err k | Panic p => Panic p end.
Definition doc1 (l : vline) : vdoc := mkVdoc [mkVitem 0 1000000000%Z 2000000000%Z [] None None None [l]] [] [] None.
Definition lines_of (r : res vdoc) : list (list vline) := match r with Ok d => map vi_lines (vd_items d) | _ => [] end.
Definition plain_run (t : str) : vrun := mkVrun t None 0%Z None.

(* ---- repr_vline ---- *)
(* voice names: no '>' (it would end the tag: the writer emits its character reference -- library fix of finding F2 of
   notes/C07-ssa-vtt.md; before it the rest of the name landed in the text: voice A, text B>x -- and the reader does not
   decode references inside an annotation, so the NAME still comes back changed; the text is intact) *)
Example needs_voice_no_gt :
  repr_vline (mkVline [plain_run (b "x")] (b "A>B")) = false /\
  lines_of (rt (doc1 (mkVline [plain_run (b "x")] (b "A>B"))) [] []) = [[mkVline [plain_run (b "x")] (b "A&gt;B")]].
Proof. split; vm_compute; reflexivity. Qed.
(* voice names are trimmed by the reader *)
Example needs_voice_trimmed :
  repr_vline (mkVline [plain_run (b "x")] (b "Bob ")) = false /\
  lines_of (rt (doc1 (mkVline [plain_run (b "x")] (b "Bob "))) [] []) = [[mkVline [plain_run (b "x")] (b "Bob")]].
Proof. split; vm_compute; reflexivity. Qed.
(* a run has text: an empty run is not written *)
Example needs_run_text :
  repr_vline (mkVline [plain_run (b "a"); mkVrun [] (Some [mkVtag (b "i") [] []]) 0%Z None] []) = false /\
  lines_of (rt (doc1 (mkVline [plain_run (b "a"); mkVrun [] (Some [mkVtag (b "i") [] []]) 0%Z None] [])) [] []) = [[mkVline [plain_run (b "a")] []]].
Proof. split; vm_compute; reflexivity. Qed.
(* the writer-only colour of a run comes back as a class tag, not as a colour *)
Example needs_no_colour :
  repr_vline (mkVline [mkVrun (b "a") None 0%Z (Some (b "#ff0000"))] []) = false /\
  lines_of (rt (doc1 (mkVline [mkVrun (b "a") None 0%Z (Some (b "#ff0000"))] [])) [] []) = [[mkVline [mkVrun (b "a") (Some [mkVtag (b "c") [] [b "red"]]) 0%Z None] []]].
Proof. split; vm_compute; reflexivity. Qed.
(* two adjacent runs with the same tag stack and no timestamp between them are one run to the reader *)
Example needs_distinct_stacks :
  repr_vline (mkVline [plain_run (b "a"); plain_run (b "b")] []) = false /\
  lines_of (rt (doc1 (mkVline [plain_run (b "a"); plain_run (b "b")] [])) [] []) = [[mkVline [plain_run (b "ab")] []]].
Proof. split; vm_compute; reflexivity. Qed.
(* a run that carries a timestamp has non-blank text: the reader drops blank timed segments *)
Example needs_timed_nonblank :
  repr_vline (mkVline [plain_run (b "a"); mkVrun (b " ") None 1500000000%Z None] []) = false /\
  lines_of (rt (doc1 (mkVline [plain_run (b "a"); mkVrun (b " ") None 1500000000%Z None] [])) [] []) = [[mkVline [plain_run (b "a")] []]].
Proof. split; vm_compute; reflexivity. Qed.
(* tag names: a letter first; "v" is the voice tag *)
Example needs_tag_not_v :
  repr_vline (mkVline [mkVrun (b "a") (Some [mkVtag (b "v") (b "Bob") []]) 0%Z None] []) = false /\
  lines_of (rt (doc1 (mkVline [mkVrun (b "a") (Some [mkVtag (b "v") (b "Bob") []]) 0%Z None] [])) [] []) = [[mkVline [plain_run (b "a")] (b "Bob")]].
Proof. split; vm_compute; reflexivity. Qed.
(* class names hold no dot (the dot separates classes) *)
Example needs_class_no_dot :
  repr_vline (mkVline [mkVrun (b "a") (Some [mkVtag (b "c") [] [b "x.y"]]) 0%Z None] []) = false /\
  lines_of (rt (doc1 (mkVline [mkVrun (b "a") (Some [mkVtag (b "c") [] [b "x.y"]]) 0%Z None] [])) [] []) =
    [[mkVline [mkVrun (b "a") (Some [mkVtag (b "c") [] [b "x"; b "y"]]) 0%Z None] []]].
Proof. split; vm_compute; reflexivity. Qed.

(* ---- repr_vline: the conditions that keep a written line inside the domain on which the tokenizer model is faithful
   to golang.org/x/net/html ([vtt_line_simple]).  Outside that domain the round-trip theorems would be statements about
   the model only; each condition is shown necessary by a line that violates only it and whose written form is outside
   the domain. ---- *)
(* tag names are not raw-text elements of the HTML tokenizer (script, style, title, textarea, xmp, iframe, noembed,
   noframes, noscript, plaintext; compared lower-cased, with the dotted classes: "title.k" is another element).  The
   audit witness: a run tagged <title> followed by an unstyled run *)
Definition ln_raw (n : str) : vline := mkVline [mkVrun (b "x") (Some [mkVtag n [] []]) 0%Z None; plain_run (b "y")] [].
Example needs_no_raw_text_tag :
  repr_vline (ln_raw (b "title")) = false /\
  removelast (vline_bytes (ln_raw (b "title"))) = b "<title>x</title>y" /\
  vtt_line_simple (removelast (vline_bytes (ln_raw (b "title")))) = false.
Proof. split; [|split]; vm_compute; reflexivity. Qed.
(* the same for every raw-text element, in either case; an ordinary name, and a raw-text name carrying a class, are accepted *)
Example needs_no_raw_text_tag_all :
  forallb (fun n => negb (repr_vline (ln_raw n)) && negb (vtt_line_simple (removelast (vline_bytes (ln_raw n))))) (b "TITLE" :: b "Script" :: raw_text_tags) = true /\
  repr_vline (ln_raw (b "b")) = true /\
  repr_vline (mkVline [mkVrun (b "x") (Some [mkVtag (b "title") [] [b "k"]]) 0%Z None; plain_run (b "y")] []) = true.
Proof. split; [|split]; vm_compute; reflexivity. Qed.
(* where the model and the library really part (replayed on the library, notes/C02.md): after <plaintext> the real
   tokenizer reads the rest of the line as one text token -- the library returns ONE run "x</plaintext>y" -- and inside
   <title> ... </title> it does not see the inner tags -- the library returns the runs "x<b>z</b>" and "y" --; the model
   reads two resp. three runs *)
Definition ln_raw_nested : vline :=
  mkVline [mkVrun (b "x") (Some [mkVtag (b "title") [] []]) 0%Z None;
           mkVrun (b "z") (Some [mkVtag (b "title") [] []; mkVtag (b "b") [] []]) 0%Z None; plain_run (b "y")] [].
Example needs_no_raw_text_tag_model_reads :
  repr_vline (ln_raw (b "plaintext")) = false /\
  removelast (vline_bytes (ln_raw (b "plaintext"))) = b "<plaintext>x</plaintext>y" /\
  map vr_text (vl_runs (fst (parse_text_vtt (b "<plaintext>x</plaintext>y") []))) = [b "x"; b "y"] /\
  repr_vline ln_raw_nested = false /\
  removelast (vline_bytes ln_raw_nested) = b "<title>x<b>z</b></title>y" /\
  map vr_text (vl_runs (fst (parse_text_vtt (b "<title>x<b>z</b></title>y") []))) = [b "x"; b "z"; b "y"].
Proof. repeat split; vm_compute; reflexivity. Qed.
(* annotations and voice names hold no '&' and no CR (the HTML tokenizer reads an annotation as attributes, and the real
   one decodes character references and normalises CR inside attribute VALUES, i.e. after an '='; the predicate excludes
   the two bytes from the whole annotation, which is sufficient); no NUL byte anywhere *)
Example needs_annot_no_amp :
  repr_vline (mkVline [plain_run (b "x")] (b "A=B&C")) = false /\
  vtt_line_simple (removelast (vline_bytes (mkVline [plain_run (b "x")] (b "A=B&C")))) = false /\
  repr_vline (mkVline [mkVrun (b "x") (Some [mkVtag (b "lang") (b "k=a&b") []]) 0%Z None] []) = false /\
  vtt_line_simple (removelast (vline_bytes (mkVline [mkVrun (b "x") (Some [mkVtag (b "lang") (b "k=a&b") []]) 0%Z None] []))) = false.
Proof. repeat split; vm_compute; reflexivity. Qed.
Example needs_no_nul :
  repr_vline (mkVline [plain_run [120; 0; 121]] []) = false /\
  vtt_line_simple (removelast (vline_bytes (mkVline [plain_run [120; 0; 121]] []))) = false /\
  repr_vline (mkVline [mkVrun (b "x") (Some [mkVtag [99; 0] [] []]) 0%Z None] []) = false /\
  vtt_line_simple (removelast (vline_bytes (mkVline [mkVrun (b "x") (Some [mkVtag [99; 0] [] []]) 0%Z None] []))) = false.
Proof. repeat split; vm_compute; reflexivity. Qed.

(* ---- repr_vdoc ---- *)
Definition items_of (r : res vdoc) : list vitem := match r with Ok d => vd_items d | _ => [] end.
Definition ln_x : vline := mkVline [plain_run (b "x")] [].
(* a text line must not be blank-looking / look like another kind of line: a line "NOTE ..." is read as a comment *)
Example needs_text_line_other :
  text_line_ok (mkVline [plain_run (b "NOTE this")] []) = false /\
  map (fun it => length (vi_lines it)) (items_of (rt (doc1 (mkVline [plain_run (b "NOTE this")] [])) [] [])) = [0%nat].
Proof. split; vm_compute; reflexivity. Qed.
(* text lines are trimmed by the reader *)
Example needs_text_line_trimmed :
  text_line_ok (mkVline [plain_run (b " x")] []) = false /\
  lines_of (rt (doc1 (mkVline [plain_run (b " x")] [])) [] []) = [[mkVline [plain_run (b "x")] []]].
Proof. split; vm_compute; reflexivity. Qed.
(* setting values hold no colon: the reader keeps what is between the first two colons *)
Definition doc_set (st : vset) : vdoc := mkVdoc [mkVitem 0 1000000000%Z 2000000000%Z [] None (Some st) None [ln_x]] [] [] None.
Example needs_setting_no_colon :
  set_ok (mkVset [] (b "1:2") [] [] []) = false /\
  map vi_set (items_of (rt (doc_set (mkVset [] (b "1:2") [] [] [])) [] [])) = [Some (mkVset [] (b "1") [] [] [])].
Proof. split; vm_compute; reflexivity. Qed.
(* setting values hold no blank: the rest would be read as another setting (here: an error, no colon in it) *)
Example needs_setting_no_blank :
  set_ok (mkVset (b "a b") [] [] [] []) = false /\ rt (doc_set (mkVset (b "a b") [] [] [] [])) [] [] = Err EParse.
Proof. split; vm_compute; reflexivity. Qed.
(* comment lines after the first are not blank (a blank line ends the comment block) *)
Definition doc_com (cs : list str) : vdoc := mkVdoc [mkVitem 0 1000000000%Z 2000000000%Z cs None None None [ln_x]] [] [] None.
Example needs_comment_not_blank :
  comments_ok [b "a"; []; b "b"] = false /\
  map (fun it => (vi_idx it, vi_comments it)) (items_of (rt (doc_com [b "a"; []; b "b"]) [] [])) = [(1%Z, [b "a"])].
Proof. split; vm_compute; reflexivity. Qed.
(* the STYLE block ends with a line ending in a closing brace *)
Definition doc_sty (ss : list str) : vdoc := mkVdoc [mkVitem 0 1000000000%Z 2000000000%Z [] None None None [ln_x]] [] [(b "s", Some ss)] None.
Example needs_style_brace :
  last_ends_brace [b "::cue { color: red"] = false /\
  match rt (doc_sty [b "::cue { color: red"]) [b "s"] [] with
  | Ok d => map snd (vd_styles d) = [Some [b "::cue { color: red"; b "1"]] /\ map vi_idx (vd_items d) = [0%Z]
  | _ => False
  end.
Proof. split; [vm_compute; reflexivity|]. vm_compute. split; reflexivity. Qed.
(* region identifiers and values hold no blank *)
Definition doc_reg (rg : vregion) : vdoc :=
  mkVdoc [mkVitem 0 1000000000%Z 2000000000%Z [] None None None [ln_x]] [(rg_id rg, rg)] [] None.
Example needs_region_value_no_blank :
  region_ok (mkVregion (b "r") (Some (mkVregattr 0 [] (b "up now") [] [])) None) = false /\
  rt (doc_reg (mkVregion (b "r") (Some (mkVregattr 0 [] (b "up now") [] [])) None)) [] [b "r"] = Err EParse.
Proof. split; vm_compute; reflexivity. Qed.
(* a document without cues is not written at all *)
Example needs_items : rt (mkVdoc [] [] [] None) [] [] = Err ENothingToWrite.
Proof. reflexivity. Qed.
(* times are not negative (formatDuration prints garbage for negative durations: C16) *)
Example needs_time_nonneg :
  match rt (mkVdoc [mkVitem 0 (-1000000000)%Z 2000000000%Z [] None None None [ln_x]] [] [] None) [] [] with Ok d => False | _ => True end.
Proof. vm_compute. exact I. Qed.
