(* C03: representability of a document value for the TTML writer, and the value the written document
   denotes (what the reader must return for it). *)
From Coq Require Import List ZArith NArith Bool Lia.
From Astisub Require Import Kit.Base Kit.Str Kit.Xml Kit.SortOrd Model.Dur Model.Ttml Proofs.TtmlSpec.
Import ListNotations.
Open Scope N_scope.

(* inline attributes: all 23 slots present, zIndex an int64 *)
Definition attrs_ok (a : tattrs) : bool :=
  Nat.eqb (length (ta_s a)) (length attr_names)
  && match ta_z a with Some z => (- max_int64 - 1 <=? z)%Z && (z <=? max_int64)%Z | None => true end.
(* a reference is absent or a non-empty identifier defined in [m] *)
Definition ref_in {V} (m : list (str * V)) (r : option str) : bool :=
  match r with None => true | Some [] => false | Some k => map_mem k m end.
Definition run_ok {V} (styles : list (str * V)) (r : trun) : bool :=
  no_nl (tr_txt r) && ref_in styles (tr_style r) && attrs_ok (tr_attrs r).
Definition item_ok {V W} (styles : list (str * V)) (regions : list (str * W)) (it : titem) : bool :=
  (0 <=? ti_st it)%Z && (ti_st it <=? max_int64)%Z && (0 <=? ti_en it)%Z && (ti_en it <=? max_int64)%Z
  && ref_in regions (ti_region it) && ref_in styles (ti_style it) && attrs_ok (ti_attrs it)
  && negb (null (ti_lines it)) && forallb (forallb (run_ok styles)) (ti_lines it).
(* a map as the writer and the reader see it alike: keys strictly increasing (Go string order), each
   value stored under its own identifier *)
Fixpoint keys_increasing (ks : list str) : bool :=
  match ks with
  | a :: ((b :: _) as r) => sleb a b && negb (str_eqb a b) && keys_increasing r
  | _ => true
  end.
Definition map_ok (m : list (str * tstyle)) : bool :=
  keys_increasing (map fst m) && forallb (fun kv => str_eqb (fst kv) (ts_id (snd kv))) m.
Definition header_ok {V} (styles : list (str * V)) (kv : str * tstyle) : bool :=
  ref_in styles (ts_ref (snd kv)) && attrs_ok (ts_attrs (snd kv)).
Definition repr_doc (d : tdoc) : bool :=
  negb (null (td_items d))
  && map_ok (td_styles d) && map_ok (td_regions d)
  && forallb (header_ok (td_styles d)) (td_styles d) && forallb (header_ok (td_styles d)) (td_regions d)
  && forallb (item_ok (td_styles d) (td_regions d)) (td_items d).

(* what the written document denotes: times truncated to the millisecond, the frame rate not written,
   the language only when the library maps it *)
Definition trunc_ms (t : Z) : Z := (t - t mod 1000000)%Z.
Definition written_item (it : titem) : titem :=
  mkItem (trunc_ms (ti_st it)) (trunc_ms (ti_en it)) (ti_region it) (ti_style it) (ti_attrs it) (ti_lines it).
Definition written_lang (l : str) : str := match map_get_inv l lang_table with Some _ => l | None => [] end.
Definition written_meta (m : option tmeta) : tmeta :=
  match m with
  | Some m => mkMeta 0 (tm_title m) (tm_copyright m) (written_lang (tm_lang m))
  | None => mkMeta 0 [] [] []
  end.
Definition written_value (d : tdoc) : tdoc :=
  mkDoc (Some (written_meta (td_meta d))) (td_styles d) (td_regions d) (map written_item (td_items d)).
(* an indent option made of blanks, tabs and line breaks *)
Definition indent_ok (ind : str) : bool := forallb is_ws ind.

(* a non-trivial representable value: two styles sharing a parent, a region, two cues, three lines *)
Definition ex_attrs : tattrs := mkTA (Some [114;101;100] :: map (fun _ => None) (tl attr_names)) (Some 3%Z).
Definition ex_doc : tdoc :=
  mkDoc (Some (mkMeta 25 [84] [67] [102;114;101;110;99;104]))
        [([97], mkStyle [97] (Some [112]) no_attrs); ([98], mkStyle [98] (Some [112]) ex_attrs); ([112], mkStyle [112] None no_attrs)]
        [([114], mkStyle [114] (Some [97]) no_attrs)]
        [mkItem 1001000000 2500000999 (Some [114]) (Some [98]) ex_attrs
                [[mkRun [72;105] (Some [97]) no_attrs; mkRun [32;38;60] None ex_attrs]; []; [mkRun [] None no_attrs]];
         mkItem 3600000000000 3600001000000 None None no_attrs [[mkRun [120] None no_attrs]]].
Example ex_doc_repr : repr_doc ex_doc = true. Proof. vm_compute. reflexivity. Qed.
