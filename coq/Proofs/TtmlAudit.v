(* C03: items of the statement audit: the int64 domain of clock times, what happens outside the binary64 domain,
   and non-vacuity examples for the theorems of Properties/C03.v (each hypothesis list is satisfiable). *)
From Coq Require Import List ZArith NArith Bool Lia.
From Flocq Require Import Core BinarySingleNaN.
From Astisub Require Import Kit.Base Kit.Str Kit.Float64 Kit.Float64x Kit.Xml Model.Dur Model.Ttml
  Proofs.DurProofs Proofs.TtmlSpec Proofs.TtmlTime Proofs.TtmlFloat Proofs.TtmlFloat2 Proofs.TtmlTimeAll
  Proofs.TtmlLines Proofs.TtmlPara Proofs.TtmlRefs Proofs.TtmlRender Proofs.TtmlRenderEx Proofs.TtmlReadRendered.
Import ListNotations.
Open Scope Z_scope.

Ltac side1 := first [reflexivity | discriminate | (vm_compute; reflexivity) | (vm_compute; discriminate) | (vm_compute; lia) | lia].
Ltac side := first [side1 | (split; side1) | (right; right; left; reflexivity) | (left; reflexivity)].

(* ---- (b) clock times and Go's int64 nanoseconds ---- *)
(* time.Duration arithmetic wraps silently; every partial sum of parseDuration is non-negative and at most the
   result, so the result fitting int64 is exactly the condition under which Go computes the model's value *)
Theorem clock_time_int64 hs ms ss fs fr tr : digits hs -> digits ms -> digits ss -> digits fs ->
  hs <> [] -> ms <> [] -> ss <> [] -> (length fs <= 3)%nat ->
  dval hs <= max_int64 -> dval ms <= max_int64 -> dval ss <= max_int64 -> dval fs <= max_int64 ->
  hms_ns hs ms ss + frac_ns fs <= max_int64 ->
  ttml_time (clock_expr hs ms ss fs) fr tr = Some (hms_ns hs ms ss + frac_ns fs) /\
  0 <= hms_ns hs ms ss + frac_ns fs <= max_int64.
Proof.
  intros Dh Dm Ds Df Nh Nm Ns Lf Mh Mm Mss Mf Hb. split; [apply clock_time; assumption|]. split; [|exact Hb].
  unfold hms_ns, frac_ns, hour_ns, minute_ns, second_ns.
  pose proof (dval_nonneg hs). pose proof (dval_nonneg ms). pose proof (dval_nonneg ss). pose proof (dval_nonneg fs).
  assert (0 < 10 ^ (9 - Z.of_nat (length fs))) by (apply Z.pow_pos_nonneg; lia). nia.
Qed.
(* the last millisecond below 2^63 ns is read exactly ("2562047:47:16.854"); one millisecond later the model's value
   exceeds int64 - Go wraps to -9223372036854551616 (replayed by the harness, group ttml.time.malformed) *)
Definition s_2562047 : str := [50;53;54;50;48;52;55]%N.
Example clock_int64_boundary :
  ttml_time (clock_expr s_2562047 [52;55]%N [49;54]%N [56;53;52]%N) 0 0 = Some 9223372036854000000 /\
  9223372036854000000 <= max_int64 /\
  ttml_time (clock_expr s_2562047 [52;55]%N [49;54]%N [56;53;53]%N) 0 0 = Some 9223372036855000000 /\
  max_int64 < 9223372036855000000.
Proof. repeat split; side. Qed.

(* ---- (c) non-finite intermediate values ---- *)
(* [round_Z] maps +Inf, -Inf and NaN to 0; Go's int64(math.Round(x)) for such x (and for |x| >= 2^63) is
   implementation-defined (amd64: -2^63, observed).  These values are outside every domain the theorems and the
   correspondence use: [time_simple] (at most 15 digits) keeps the parsed value below 10^15 and every product below
   3.6 * 10^27, far from overflow; [time_finite] below is the explicit check the driver applies. *)
Example round_Z_nonfinite : round_Z (B754_infinity true) = 0 /\ round_Z (B754_infinity false) = 0 /\ round_Z B754_nan = 0.
Proof. repeat split; reflexivity. Qed.
Definition time_finite (s : str) (fr tr : Z) : bool :=
  match match_offset s with
  | Some (ip, fp, m) =>
    let v := parse_dec ip fp in
    is_finite v &&
    match m with
    | Mt => is_finite (fdiv (fmul v (of_Z second_ns)) (of_Z tr)) || negb (0 <? tr)
    | Mf => is_finite (fmul (fdiv v (of_Z fr)) (of_Z second_ns)) || negb (0 <? fr)
    | _ => is_finite (fmul v (of_Z (timebase m)))
    end
  | None => true
  end.
(* a 400-digit count overflows binary64: the model's parsed value is not finite (Go's ParseFloat returns an error) *)
Example time_finite_witness : time_finite (repeat 57%N 400 ++ [115]%N) 0 0 = false /\ time_finite [49; 46; 53; 115]%N 0 0 = true.
Proof. split; vm_compute; reflexivity. Qed.

(* ---- (d) non-vacuity of the time theorems ---- *)
(* "01:02:03.5" *)
Example ex_time_clock : ttml_time (clock_expr [48;49]%N [48;50]%N [48;51]%N [53]%N) 25 0 = Some 3723500000000.
Proof. rewrite clock_time; side. Qed.
(* "00:00:02:12" at 25 fps: 2.48 s *)
Example ex_time_clock_frames : exists r,
  ttml_time (clock_frames_expr [48;48]%N [48;48]%N [48;50]%N [49;50]%N) 25 0 = Some (hms_ns [48;48]%N [48;48]%N [48;50]%N + r) /\
  denotes_instant r (12 * second_ns) 25.
Proof.
  destruct (clock_frames_denotes [48;48]%N [48;48]%N [48;50]%N [49;50]%N 25 0) as (r & H1 & H2); [side.. | ].
  - exists r. split; [exact H1 | exact H2].
Qed.
(* "1.001s": exactly 1 001 000 000 ns *)
Example ex_time_offset : ttml_time (offset_expr [49]%N [48;48;49]%N Ms) 0 0 = Some 1001000000.
Proof.
  destruct (offset_time_denotes [49]%N [48;48;49]%N Ms 0 0) as (r & H1 & [H2 _]); [side.. | ].
  - rewrite H1. f_equal. rewrite H2; [reflexivity|]. exists 1001000000. vm_compute. reflexivity.
Qed.
(* "12.5f" at 25 fps: half a second *)
Example ex_time_frames : ttml_time (offset_expr [49;50]%N [53]%N Mf) 25 0 = Some 500000000.
Proof.
  destruct (frames_offset_denotes [49;50]%N [53]%N 25 0) as (r & H1 & [H2 _]); [side.. | ].
  - rewrite H1. f_equal. rewrite H2; [reflexivity|]. exists 500000000. vm_compute. reflexivity.
Qed.
(* "3t" at tick rate 3: one second; "1t": a third of a second, within 1 ns *)
Example ex_time_ticks : ttml_time (offset_expr [51]%N [] Mt) 0 3 = Some 1000000000 /\
  exists r, ttml_time (offset_expr [49]%N [] Mt) 0 3 = Some r /\ Z.abs (r * 3 - 1000000000) < 3.
Proof.
  split.
  - destruct (ticks_offset_denotes [51]%N [] 0 3) as (r & H1 & [H2 _]); [side.. | ].
    + rewrite H1. f_equal. rewrite H2; [reflexivity|]. exists 1000000000. vm_compute. reflexivity.
  - destruct (ticks_offset_denotes [49]%N [] 0 3) as (r & H1 & [_ H3]); [side.. | ].
    + exists r. split; [exact H1|]. exact H3.
Qed.
Example ex_time_zero_count : ttml_time (offset_expr [48]%N [48;48]%N Mf) 0 0 = Some 0.
Proof. apply zero_count_time; side || (left; reflexivity). Qed.
Example ex_time_format_roundtrip : ttml_time (format_ttml 1234567890) 0 0 = Some 1234000000.
Proof. rewrite time_format_roundtrip; [reflexivity | unfold max_int64; lia]. Qed.

(* ---- (d) non-vacuity of C03_paragraph, C03_parents, C03_refs: on the worked example of TtmlRenderEx.v ---- *)
Definition ex_root : xnode := render_ttml ex_rendering ex_model.
Definition ex_value : tdoc := denote_ttml ex_rendering ex_model.
Example ex_parents : forall n, In n (style_elems ex_root) ->
  exists s, map_get (elem_id n) (td_styles ex_value) = Some s /\ ts_id s = elem_id n /\ ts_ref s = elem_style n /\
            match elem_style n with Some p => map_mem p (td_styles ex_value) = true | None => True end.
Proof.
  apply (styles_linked ex_root ex_value ex_read_rendered).
  assert (E : map elem_id (style_elems ex_root) = [[97]; [98]; [112]]%N) by (vm_compute; reflexivity).
  rewrite E. repeat constructor; cbn [In]; intros H; repeat (destruct H as [H|H]; [discriminate|]); exact H.
Qed.
(* two styles share the parent "p", which is defined after them *)
Example ex_parents_shared : map (fun kv => (fst kv, ts_ref (snd kv))) (td_styles ex_value) =
  [([97], Some [112]); ([98], Some [112]); ([112], None)]%N.
Proof. vm_compute. reflexivity. Qed.
Example ex_refs : Forall (fun it => opt_in (td_regions ex_value) (ti_region it) /\ opt_in (td_styles ex_value) (ti_style it) /\
                    Forall (Forall (fun r => opt_in (td_styles ex_value) (tr_style r))) (ti_lines it)) (td_items ex_value).
Proof. exact (refs_closed ex_root ex_value ex_read_rendered). Qed.
(* a paragraph: the first one of the worked example *)
Definition ex_p : rpara :=
  match r_paras ex_rendering with p :: _ => p | [] => mkRP (TClock [] [] [] []) (TClock [] [] [] []) [] [] [] end.
Example ex_paragraph : exists b e ta,
  content_ok (rp_groups ex_p) (rp_wl ex_p) = true /\
  dur_attr s_begin (rp_attrs ex_p) = Some (Some b) /\ dur_attr s_end (rp_attrs ex_p) = Some (Some e) /\
  tt_read_attrs (rp_attrs ex_p) = Some ta /\
  ref_known (td_regions ex_value) (attr_str s_region (rp_attrs ex_p)) = true /\
  ref_known (td_styles ex_value) (attr_str s_style (rp_attrs ex_p)) = true /\
  forallb (group_style_ok (td_styles ex_value)) (rp_groups ex_p) = true /\
  read_p (td_styles ex_value) (td_regions ex_value) 25 10000000
         (XElem (mkName el_mark s_p) (rp_attrs ex_p) (render_content (rp_groups ex_p) (rp_wl ex_p))) =
  Ok (mkItem 1500000000 2480000000 (Some [114]%N) (Some [98]%N) ta (lines_of (flat_map group_toks (rp_groups ex_p)))).
Proof. do 3 eexists. repeat split; vm_compute; reflexivity. Qed.

(* ---- second audit (i)4: clock time with frames and Go's int64 ---- *)
(* the frames term is below 2^49 + 1 ns under the theorem's hypotheses, so a clock part of at most max_int64 - 2^49 - 1 keeps
   the sum inside int64 (Go adds the two with wrap-around) *)
Lemma denotes_bounds r num den : 0 < den -> 0 <= num -> num < 2 ^ 49 * den -> denotes_instant r num den -> 0 <= r <= 2 ^ 49.
Proof.
  intros Hd Hn Hb [_ H]. split.
  - destruct (Z_lt_le_dec r 0) as [Hneg|]; [|assumption]. exfalso.
    assert (r * den <= - den) by nia. lia.
  - destruct (Z_le_gt_dec r (2 ^ 49)) as [|Hbig]; [assumption|]. exfalso.
    assert ((2 ^ 49 + 1) * den <= r * den) by nia. lia.
Qed.
Theorem clock_frames_int64 hs ms ss fds fr tr : digits hs -> digits ms -> digits ss -> digits fds ->
  hs <> [] -> ms <> [] -> ss <> [] -> fds <> [] ->
  dval hs <= max_int64 -> dval ms <= max_int64 -> dval ss <= max_int64 ->
  0 <= dval fds < 2 ^ 53 -> 0 < fr < 2 ^ 53 -> dval fds * second_ns < 2 ^ 49 * fr ->
  hms_ns hs ms ss <= max_int64 - 2 ^ 49 ->
  exists r, ttml_time (clock_frames_expr hs ms ss fds) fr tr = Some (hms_ns hs ms ss + r) /\
            denotes_instant r (dval fds * second_ns) fr /\ 0 <= hms_ns hs ms ss + r <= max_int64.
Proof.
  intros Dh Dm Ds Df Nh Nm Ns Nf Mh Mm Mss Hf Hfr Hb Hmax.
  destruct (clock_frames_denotes hs ms ss fds fr tr Dh Dm Ds Df Nh Nm Ns Nf Mh Mm Mss Hf Hfr Hb) as (r & H1 & H2).
  exists r. split; [exact H1|]. split; [exact H2|].
  assert (Hr : 0 <= r <= 2 ^ 49) by (apply (denotes_bounds r (dval fds * second_ns) fr); [lia | unfold second_ns; lia | exact Hb | exact H2]).
  assert (0 <= hms_ns hs ms ss).
  { unfold hms_ns, hour_ns, minute_ns, second_ns. pose proof (dval_nonneg hs). pose proof (dval_nonneg ms). pose proof (dval_nonneg ss). lia. }
  lia.
Qed.
(* boundary: "2562047:47:16:24" at 25 fps means 9223372036960000000 ns, beyond int64 (Go wraps to -9223372036749551616,
   observed); the clock part 9223372036000000000 exceeds max_int64 - 2^49 *)
Example clock_frames_int64_boundary :
  ttml_time (clock_frames_expr s_2562047 [52;55]%N [49;54]%N [50;52]%N) 25 0 = Some 9223372036960000000 /\
  max_int64 < 9223372036960000000 /\ max_int64 - 2 ^ 49 < hms_ns s_2562047 [52;55]%N [49;54]%N.
Proof. repeat split; side. Qed.
Print Assumptions clock_frames_int64.
