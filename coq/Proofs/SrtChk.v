(* srt.go: the checked transcription (Model/SrtC.v) never reaches a panic site, and agrees with the pattern-matching
   transcription (Model/Srt.v) on which the fidelity theorems are stated.  The content of each equation is that the
   guard the Go code tests implies that the access behind it is in range / non-nil. *)
From Coq Require Import List ZArith NArith Bool Arith Lia.
From Astisub Require Import Kit.Base Kit.Str Kit.Html Kit.Scan Kit.Chk Model.Dur Model.Srt Model.SrtC.
Import ListNotations.
Open Scope N_scope.

(* ---- checked accesses in range ---- *)
Lemma index_app_last {A} (P : list A) x T site : index (P ++ x :: T) (length P) site = Ok x.
Proof. unfold index. rewrite nth_error_app2 by lia. rewrite Nat.sub_diag. reflexivity. Qed.
Lemma slice_to_app {A} (P T : list A) site : slice_to (P ++ T) (length P) site = Ok P.
Proof.
  unfold slice_to. rewrite app_length. destruct (Nat.leb (length P) (length P + length T)) eqn:E; [|apply Nat.leb_gt in E; lia].
  rewrite firstn_app, Nat.sub_diag, firstn_all. cbn [firstn]. rewrite app_nil_r. reflexivity.
Qed.
Lemma set_nth_app {A} (P : list A) x y T : set_nth (P ++ x :: T) (length P) y = P ++ y :: T.
Proof. induction P as [|p P IH]; [reflexivity|]. cbn [app length set_nth]. rewrite IH. reflexivity. Qed.
Lemma index_lt {A} (l : list A) i site : (i < length l)%nat -> exists x, index l i site = Ok x /\ nth_error l i = Some x.
Proof.
  intros H. unfold index. destruct (nth_error l i) as [x|] eqn:E; [exists x; split; reflexivity|].
  apply nth_error_None in E. lia.
Qed.

(* ---- srtRemoveTrailingEmptyLines ---- *)
Lemma strip_items_ok P : strip_items_c (length P) P = Ok (rev (strip_runs_rev (rev P))).
Proof.
  induction P as [|r P' IH] using rev_ind; [reflexivity|].
  rewrite app_length. cbn [length]. rewrite Nat.add_1_r. cbn [strip_items_c].
  rewrite index_app_last. cbn [bind]. rewrite rev_app_distr. cbn [rev app strip_runs_rev].
  destruct (sr_text r) as [|c t] eqn:E.
  - rewrite slice_to_app. cbn [bind]. exact IH.
  - cbn [rev]. rewrite rev_involutive. reflexivity.
Qed.

Definition strip_step (l : list srun) (acc : list (list srun)) : list (list srun) :=
  match l with
  | [] => l :: acc
  | _ => match rev (strip_runs_rev (rev l)) with [] => [] | l' => l' :: acc end
  end.
Lemma strip_lines_fold ls : strip_lines ls = fold_right strip_step [] ls.
Proof. induction ls as [|l r IH]; [reflexivity|]. cbn [strip_lines fold_right]. rewrite IH. reflexivity. Qed.

Lemma strip_loop_ok P : forall T L, L = P ++ T -> strip_loop_c (length P) L = Ok (fold_right strip_step T P).
Proof.
  induction P as [|l P' IH] using rev_ind; intros T L ->; [reflexivity|].
  rewrite app_length. cbn [length]. rewrite Nat.add_1_r. cbn [strip_loop_c].
  rewrite <- app_assoc. cbn [app]. rewrite index_app_last. cbn [bind].
  rewrite fold_right_app. cbn [fold_right].
  destruct l as [|r0 l0].
  - cbn [length Nat.ltb Nat.leb strip_step]. apply IH. reflexivity.
  - change (Nat.ltb 0 (length (r0 :: l0))) with true. cbv iota.
    rewrite strip_items_ok. cbn [bind]. rewrite set_nth_app.
    unfold strip_step. destruct (rev (strip_runs_rev (rev (r0 :: l0)))) as [|x l'] eqn:E.
    + cbn [length Nat.eqb]. rewrite slice_to_app. cbn [bind]. apply IH. symmetry. apply app_nil_r.
    + cbn [length Nat.eqb]. apply IH. reflexivity.
Qed.
Lemma strip_lines_ok ls : strip_lines_c ls = Ok (strip_lines ls).
Proof.
  unfold strip_lines_c. destruct ls as [|l r]; [reflexivity|]. change (Nat.ltb 0 (length (l :: r))) with true. cbv iota.
  assert (H : strip_loop_c (length (l :: r)) (l :: r) = Ok (fold_right strip_step [] (l :: r))) by (apply strip_loop_ok; symmetry; apply app_nil_r).
  rewrite H. f_equal; symmetry; apply strip_lines_fold.
Qed.

(* ---- the index line of the next cue ---- *)
Lemma finalize_ok ls : finalize_c ls = Ok (finalize ls).
Proof.
  unfold finalize_c, finalize. destruct ls as [|l0 r0] using rev_ind; [reflexivity|]. clear IHr0.
  rewrite app_length. cbn [length]. rewrite Nat.add_1_r. cbn [Nat.eqb negb].
  replace (S (length r0) - 1)%nat with (length r0) by lia. rewrite index_app_last. cbn [bind].
  rewrite rev_app_distr. cbn [rev app]. destruct (run_texts l0) as [|c t] eqn:E.
  - rewrite strip_lines_ok. reflexivity.
  - rewrite slice_to_pred_app1. cbn [bind]. rewrite strip_lines_ok, rev_involutive. reflexivity.
Qed.

(* ---- the time boundaries line ---- *)
Lemma srt_timing_ok line :
  srt_timing_c line =
  match Str.split arrow line with
  | l :: r :: _ => match fields r with [] => Err EParse | e :: _ => Ok (l, e) end
  | _ => Err EParse
  end.
Proof.
  unfold srt_timing_c. destruct (Str.split arrow line) as [|l [|r rest]]; try reflexivity.
  change (Nat.ltb (length (l :: r :: rest)) 2) with false. cbv iota. unfold index at 1. cbn [nth_error bind].
  destruct (fields r) as [|e es]; reflexivity.
Qed.

Lemma srt_step_ok s first raw : srt_step_c s first raw = srt_step s first raw.
Proof.
  unfold srt_step_c, srt_step. destruct (negb (utf8_valid (trim_space raw))); [reflexivity|].
  destruct (contains arrow _); [|reflexivity].
  rewrite finalize_ok. cbn [bind]. destruct (finalize _) as [fl idx]. rewrite srt_timing_ok.
  destruct (Str.split arrow _) as [|l [|r rest]]; try reflexivity.
  destruct (fields r) as [|e es]; reflexivity.
Qed.
Lemma srt_run_ok ls : forall s first, srt_run_c s first ls = srt_run s first ls.
Proof.
  induction ls as [|l r IH]; intros s first; [reflexivity|]. cbn [srt_run_c srt_run]. rewrite srt_step_ok.
  destruct (srt_step s first l); [apply IH | reflexivity | reflexivity].
Qed.
(* THE CHECKED READER AGREES WITH THE READER OF THE FIDELITY THEOREMS *)
Theorem read_srt_lines_c_ok ls e : read_srt_lines_c ls e = read_srt_lines ls e.
Proof.
  unfold read_srt_lines_c, read_srt_lines. rewrite srt_run_ok. destruct (srt_run _ true ls) as [s|k|p]; try reflexivity.
  destruct e; [reflexivity|]. destruct (r_cur s) as [it|]; [|reflexivity]. rewrite strip_lines_ok. reflexivity.
Qed.
Theorem read_srt_c_ok data : read_srt_c data = read_srt data.
Proof. apply read_srt_lines_c_ok. Qed.

(* ---- the writer ---- *)
Lemma run_bytes_ok r : run_bytes_c r = Ok (run_bytes r).
Proof.
  unfold run_bytes_c, run_bytes. destruct (sr_sty r) as [a|]; cbn [is_some deref bind]; [|reflexivity].
  destruct (sa_col a) as [c|]; cbn [is_some deref bind]; reflexivity.
Qed.
Lemma runs_bytes_ok l : runs_bytes_c l = Ok (concat (map run_bytes l)).
Proof. induction l as [|r t IH]; [reflexivity|]. cbn [runs_bytes_c map concat]. rewrite run_bytes_ok, IH. reflexivity. Qed.
Lemma lines_bytes_ok ls : lines_bytes_c ls = Ok (concat (map line_bytes ls)).
Proof.
  induction ls as [|l t IH]; [reflexivity|]. cbn [lines_bytes_c map concat]. unfold line_bytes_c, line_bytes.
  rewrite runs_bytes_ok, IH. reflexivity.
Qed.
Lemma items_bytes_ok l : forall k, items_bytes_c k l = Ok (items_bytes k l).
Proof. induction l as [|it r IH]; intros k; [reflexivity|]. cbn [items_bytes_c items_bytes]. rewrite lines_bytes_ok, IH. reflexivity. Qed.
Lemma items_bytes_nonnil k it r : items_bytes k (it :: r) <> [].
Proof.
  cbn [items_bytes]. intros E. apply app_eq_nil in E. destruct E as [E _]. exact (itoa_nonnil _ E).
Qed.
(* THE CHECKED WRITER AGREES WITH THE WRITER OF THE FIDELITY THEOREMS *)
Theorem write_srt_c_ok l : write_srt_c l = write_srt l.
Proof.
  unfold write_srt_c, write_srt. destruct l as [|it r]; [reflexivity|]. cbn [length Nat.eqb].
  rewrite items_bytes_ok. cbn [bind].
  assert (Hn : bom ++ items_bytes 0 (it :: r) <> []).
  { intros E. apply app_eq_nil in E. destruct E as [_ E]. exact (items_bytes_nonnil 0 it r E). }
  rewrite (slice_to_pred_removelast _ 265 Hn). f_equal; apply (removelast_app bom (items_bytes_nonnil 0 it r)).
Qed.

(* ---- totality, now with content: no panic site of srt.go is reachable ---- *)
Theorem read_srt_lines_c_no_panic ls e p : read_srt_lines_c ls e <> Panic p.
Proof.
  rewrite read_srt_lines_c_ok. unfold read_srt_lines.
  assert (H : forall ls s f q, srt_run s f ls <> Panic q).
  { clear. induction ls as [|l r IH]; intros s f q; [discriminate|]. cbn [srt_run].
    destruct (srt_step s f l) as [s'|k|q'] eqn:E; [apply IH | discriminate|].
    exfalso. rewrite <- srt_step_ok in E. revert E. unfold srt_step_c.
    destruct (negb (utf8_valid (trim_space l))); [discriminate|]. destruct (contains arrow _).
    - rewrite finalize_ok. cbn [bind]. destruct (finalize _) as [fl idx]. rewrite srt_timing_ok.
      destruct (Str.split arrow _) as [|a [|b rest]]; try discriminate. destruct (fields b); [discriminate|]. cbn [bind].
      destruct (parse_srt a); [|discriminate]. destruct (parse_srt _); discriminate.
    - destruct (parse_text_srt _ _) as [rs a']. destruct rs; [discriminate|]. destruct (r_cur s); discriminate. }
  destruct (srt_run _ true ls) as [s|k|q] eqn:E; [destruct e; discriminate | discriminate | exfalso; exact (H _ _ _ _ E)].
Qed.
Theorem write_srt_c_no_panic l p : write_srt_c l <> Panic p.
Proof. rewrite write_srt_c_ok. unfold write_srt. destruct l; discriminate. Qed.

(* ---- nil elements inside Items: skipped (nonNilItems) ---- *)
Theorem write_srt_items_c_no_panic (l : list (option sitem)) p : write_srt_items_c l <> Panic p.
Proof. apply write_srt_c_no_panic. Qed.
Theorem nil_items_skipped (l : list sitem) (a b : list (option sitem)) :
  write_srt_items_c (map Some l) = write_srt_c l /\
  write_srt_items_c (a ++ None :: b) = write_srt_items_c (a ++ b).
Proof.
  unfold write_srt_items_c. split; [rewrite somes_map_Some; reflexivity|]. rewrite !somes_app. reflexivity.
Qed.
