(* srt.go: the checked transcription (Model/SrtC.v) never reaches a panic site, and agrees with the pattern-matching
   transcription (Model/Srt.v) on which the fidelity theorems are stated.  The content of each equation is that the
   guard the Go code tests implies that the access behind it is in range / non-nil. *)
From Coq Require Import List ZArith NArith Bool Arith Lia.
From Astisub Require Import Kit.Base Kit.Str Kit.Html Kit.Scan Kit.Chk Model.Dur Model.Srt Model.SrtC.
Import ListNotations.
Open Scope N_scope.

(* ---- checked accesses in range ---- *)
Lemma index_app_last {A} (P : list A) x T site : index (P ++ x :: T) (length P) site = Ok x.
Proof. unfold index. rewrite nth_error_app2 by lia. rewrite Nat.sub_diag. reflexivity. Qed.
Lemma slice_to_app {A} (P T : list A) site : slice_to (P ++ T) (length P) site = Ok P.
Proof.
  unfold slice_to. rewrite app_length. destruct (Nat.leb (length P) (length P + length T)) eqn:E; [|apply Nat.leb_gt in E; lia].
  rewrite firstn_app, Nat.sub_diag, firstn_all. cbn [firstn]. rewrite app_nil_r. reflexivity.
Qed.
Lemma set_nth_app {A} (P : list A) x y T : set_nth (P ++ x :: T) (length P) y = P ++ y :: T.
Proof. induction P as [|p P IH]; [reflexivity|]. cbn [app length set_nth]. rewrite IH. reflexivity. Qed.
Lemma index_lt {A} (l : list A) i site : (i < length l)%nat -> exists x, index l i site = Ok x /\ nth_error l i = Some x.
Proof.
  intros H. unfold index. destruct (nth_error l i) as [x|] eqn:E; [exists x; split; reflexivity|].
  apply nth_error_None in E. lia.
Qed.

(* ---- srtRemoveTrailingEmptyLines ---- *)
Lemma strip_items_ok P : strip_items_c (length P) P = Ok (rev (strip_runs_rev (rev P))).
Proof.
  induction P as [|r P' IH] using rev_ind; [reflexivity|].
  rewrite app_length. cbn [length]. rewrite Nat.add_1_r. cbn [strip_items_c].
  rewrite index_app_last. cbn [bind]. rewrite rev_app_distr. cbn [rev app strip_runs_rev].
  destruct (sr_text r) as [|c t] eqn:E.
  - rewrite slice_to_app. cbn [bind]. exact IH.
  - cbn [rev]. rewrite rev_involutive. reflexivity.
Qed.

Definition strip_step (l : list srun) (acc : list (list srun)) : list (list srun) :=
  match l with
  | [] => l :: acc
  | _ => match rev (strip_runs_rev (rev l)) with [] => [] | l' => l' :: acc end
  end.
Lemma strip_lines_fold ls : strip_lines ls = fold_right strip_step [] ls.
Proof. induction ls as [|l r IH]; [reflexivity|]. cbn [strip_lines fold_right]. rewrite IH. reflexivity. Qed.

Lemma strip_loop_ok P : forall T L, L = P ++ T -> strip_loop_c (length P) L = Ok (fold_right strip_step T P).
Proof.
  induction P as [|l P' IH] using rev_ind; intros T L ->; [reflexivity|].
  rewrite app_length. cbn [length]. rewrite Nat.add_1_r. cbn [strip_loop_c].
  rewrite <- app_assoc. cbn [app]. rewrite index_app_last. cbn [bind].
  rewrite fold_right_app. cbn [fold_right].
  destruct l as [|r0 l0].
  - cbn [length Nat.ltb Nat.leb strip_step]. apply IH. reflexivity.
  - change (Nat.ltb 0 (length (r0 :: l0))) with true. cbv iota.
    rewrite strip_items_ok. cbn [bind]. rewrite set_nth_app.
    unfold strip_step. destruct (rev (strip_runs_rev (rev (r0 :: l0)))) as [|x l'] eqn:E.
    + cbn [length Nat.eqb]. rewrite slice_to_app. cbn [bind]. apply IH. symmetry. apply app_nil_r.
    + cbn [length Nat.eqb]. apply IH. reflexivity.
Qed.
Lemma strip_lines_ok ls : strip_lines_c ls = Ok (strip_lines ls).
Proof.
  unfold strip_lines_c. destruct ls as [|l r]; [reflexivity|]. change (Nat.ltb 0 (length (l :: r))) with true. cbv iota.
  assert (H : strip_loop_c (length (l :: r)) (l :: r) = Ok (fold_right strip_step [] (l :: r))) by (apply strip_loop_ok; symmetry; apply app_nil_r).
  rewrite H. f_equal; symmetry; apply strip_lines_fold.
Qed.

(* ---- the index line of the next cue ---- *)
Lemma finalize_ok ls : finalize_c ls = Ok (finalize ls).
Proof.
  unfold finalize_c, finalize. destruct ls as [|l0 r0] using rev_ind; [reflexivity|]. clear IHr0.
  rewrite app_length. cbn [length]. rewrite Nat.add_1_r. cbn [Nat.eqb negb].
  replace (S (length r0) - 1)%nat with (length r0) by lia. rewrite index_app_last. cbn [bind].
  rewrite rev_app_distr. cbn [rev app]. destruct (run_texts l0) as [|c t] eqn:E.
  - rewrite strip_lines_ok. reflexivity.
  - rewrite slice_to_pred_app1. cbn [bind]. rewrite strip_lines_ok, rev_involutive. reflexivity.
Qed.

(* ---- the time boundaries line ---- *)
Lemma srt_timing_ok line :
  srt_timing_c line =
  match Str.split arrow line with
  | l :: r :: _ => match fields r with [] => Err EParse | e :: _ => Ok (l, e) end
  | _ => Err EParse
  end.
Proof.
  unfold srt_timing_c. destruct (Str.split arrow line) as [|l [|r rest]]; try reflexivity.
  change (Nat.ltb (length (l :: r :: rest)) 2) with false. cbv iota. unfold index at 1. cbn [nth_error bind].
  destruct (fields r) as [|e es]; reflexivity.
Qed.

Lemma srt_step_ok s first raw : srt_step_c s first raw = srt_step s first raw.
Proof.
  unfold srt_step_c, srt_step. destruct (negb (utf8_valid (trim_space raw))); [reflexivity|].
  destruct (contains arrow _); [|reflexivity].
  rewrite finalize_ok. cbn [bind]. destruct (finalize _) as [fl idx]. rewrite srt_timing_ok.
  destruct (Str.split arrow _) as [|l [|r rest]]; try reflexivity.
  destruct (fields r) as [|e es]; reflexivity.
Qed.
Lemma srt_run_ok ls : forall s first, srt_run_c s first ls = srt_run s first ls.
Proof.
  induction ls as [|l r IH]; intros s first; [reflexivity|]. cbn [srt_run_c srt_run]. rewrite srt_step_ok.
  destruct (srt_step s first l); [apply IH | reflexivity | reflexivity].
Qed.
(* THE CHECKED READER AGREES WITH THE READER OF THE FIDELITY THEOREMS *)
Theorem read_srt_lines_c_ok ls e : read_srt_lines_c ls e = read_srt_lines ls e.
Proof.
  unfold read_srt_lines_c, read_srt_lines. rewrite srt_run_ok. destruct (srt_run _ true ls) as [s|k|p]; try reflexivity.
  destruct e; [reflexivity|]. destruct (r_cur s) as [it|]; [|reflexivity]. rewrite strip_lines_ok. reflexivity.
Qed.
Theorem read_srt_c_ok data : read_srt_c data = read_srt data.
Proof. apply read_srt_lines_c_ok. Qed.

(* ---- the writer ---- *)
Lemma run_bytes_ok r : run_bytes_c r = Ok (run_bytes r).
Proof.
  unfold run_bytes_c, run_bytes. destruct (sr_sty r) as [a|]; cbn [is_some deref bind]; [|reflexivity].
  destruct (sa_col a) as [c|]; cbn [is_some deref bind]; reflexivity.
Qed.
Lemma runs_bytes_ok l : runs_bytes_c l = Ok (concat (map run_bytes l)).
Proof. induction l as [|r t IH]; [reflexivity|]. cbn [runs_bytes_c map concat]. rewrite run_bytes_ok, IH. reflexivity. Qed.
Lemma lines_bytes_ok ls : lines_bytes_c ls = Ok (concat (map line_bytes ls)).
Proof.
  induction ls as [|l t IH]; [reflexivity|]. cbn [lines_bytes_c map concat]. unfold line_bytes_c, line_bytes.
  rewrite runs_bytes_ok, IH. reflexivity.
Qed.
Lemma items_bytes_ok l : forall k, items_bytes_c k l = Ok (items_bytes k l).
Proof. induction l as [|it r IH]; intros k; [reflexivity|]. cbn [items_bytes_c items_bytes]. rewrite lines_bytes_ok, IH. reflexivity. Qed.
Lemma items_bytes_nonnil k it r : items_bytes k (it :: r) <> [].
Proof.
  cbn [items_bytes]. intros E. apply app_eq_nil in E. destruct E as [E _]. exact (itoa_nonnil _ E).
Qed.
(* THE CHECKED WRITER AGREES WITH THE WRITER OF THE FIDELITY THEOREMS *)
Theorem write_srt_c_ok l : write_srt_c l = write_srt l.
Proof.
  unfold write_srt_c, write_srt. destruct l as [|it r]; [reflexivity|]. cbn [length Nat.eqb].
  rewrite items_bytes_ok. cbn [bind].
  assert (Hn : bom ++ items_bytes 0 (it :: r) <> []).
  { intros E. apply app_eq_nil in E. destruct E as [_ E]. exact (items_bytes_nonnil 0 it r E). }
  rewrite (slice_to_pred_removelast _ 265 Hn). f_equal; apply (removelast_app bom (items_bytes_nonnil 0 it r)).
Qed.

(* ---- totality, now with content: no panic site of srt.go is reachable ---- *)
Theorem read_srt_lines_c_no_panic ls e p : read_srt_lines_c ls e <> Panic p.
Proof.
  rewrite read_srt_lines_c_ok. unfold read_srt_lines.
  assert (H : forall ls s f q, srt_run s f ls <> Panic q).
  { clear. induction ls as [|l r IH]; intros s f q; [discriminate|]. cbn [srt_run].
    destruct (srt_step s f l) as [s'|k|q'] eqn:E; [apply IH | discriminate|].
    exfalso. rewrite <- srt_step_ok in E. revert E. unfold srt_step_c.
    destruct (negb (utf8_valid (trim_space l))); [discriminate|]. destruct (contains arrow _).
    - rewrite finalize_ok. cbn [bind]. destruct (finalize _) as [fl idx]. rewrite srt_timing_ok.
      destruct (Str.split arrow _) as [|a [|b rest]]; try discriminate. destruct (fields b); [discriminate|]. cbn [bind].
      destruct (parse_srt a); [|discriminate]. destruct (parse_srt _); discriminate.
    - destruct (parse_text_srt _ _) as [rs a']. destruct rs; [discriminate|]. destruct (r_cur s); discriminate. }
  destruct (srt_run _ true ls) as [s|k|q] eqn:E; [destruct e; discriminate | discriminate | exfalso; exact (H _ _ _ _ E)].
Qed.
Theorem write_srt_c_no_panic l p : write_srt_c l <> Panic p.
Proof. rewrite write_srt_c_ok. unfold write_srt. destruct l; discriminate. Qed.

(* ---- nil elements inside Items: skipped (nonNilItems) ---- *)
Theorem write_srt_items_c_no_panic (l : list (option sitem)) p : write_srt_items_c l <> Panic p.
Proof. apply write_srt_c_no_panic. Qed.
Theorem nil_items_skipped (l : list sitem) (a b : list (option sitem)) :
  write_srt_items_c (map Some l) = write_srt_c l /\
  write_srt_items_c (a ++ None :: b) = write_srt_items_c (a ++ b).
Proof.
  unfold write_srt_items_c. split; [rewrite somes_map_Some; reflexivity|]. rewrite !somes_app. reflexivity.
Qed.

(* ---- second audit, N6: the guards are load-bearing ----
   Each function below is the checked function of Model/SrtC.v with ONE guard removed and nothing else changed.  On the
   input shown it returns Panic at the site the guard stands in front of, while the guarded function returns Ok / Err on
   the same input: the no-panic theorems above use the guards.  (Go side: the index / slice expressions on these
   operand lengths do panic, checked with a throw-away program, notes/C01.md N6.) *)
(* emptiness test before [len-1] and [:len-1]: "if len(s.Lines) != 0" removed (srt.go:67) *)
Definition finalize_c_noguard (ls : list (list srun)) : res (list (list srun) * str) :=
  do lastl <- index ls (length ls - 1) 68;
  match run_texts lastl with
  | [] => do st <- strip_lines_c ls; Ok (st, [])
  | idx => do ls' <- slice_to_pred ls 70; do st <- strip_lines_c ls'; Ok (st, idx)
  end.
(* the same with the read of the last line removed too, so that only s.Lines = s.Lines[:len(s.Lines)-1] is left: site 70
   by itself fires on the empty list (with the nat predecessor it returned Ok []) *)
Definition finalize_c_noguard_slice (ls : list (list srun)) : res (list (list srun) * str) :=
  do ls' <- slice_to_pred ls 70; do st <- strip_lines_c ls'; Ok (st, []).
(* length test before index: "if len(s1) < 2" removed (srt.go:87) *)
Definition srt_timing_c_noguard_split (line : str) : res (str * str) :=
  let s1 := Str.split arrow line in
  do r <- index s1 1 92;
  let s2 := fields r in
  if Nat.eqb (length s2) 0 then Err EParse else
  do l <- index s1 0 99;
  do e <- index s2 0 103;
  Ok (l, e).
(* length test before index: "if len(s2) == 0" removed (srt.go:94; the guard the repair of the library added) *)
Definition srt_timing_c_noguard_fields (line : str) : res (str * str) :=
  let s1 := Str.split arrow line in
  if Nat.ltb (length s1) 2 then Err EParse else
  do r <- index s1 1 92;
  let s2 := fields r in
  do l <- index s1 0 99;
  do e <- index s2 0 103;
  Ok (l, e).
(* nil test before dereference: "li.InlineStyle != nil &&" removed in front of *li.InlineStyle.SRTColor (srt.go:286) *)
Definition run_bytes_c_noguard_nil (r : srun) : res str :=
  let has := is_some (sr_sty r) in
  do color <- (do a <- deref (sr_sty r) 286;
               if is_some (sa_col a) then deref (sa_col a) 287 else Ok []);
  do b <- (if has then do a <- deref (sr_sty r) 291; Ok (sa_b a) else Ok false);
  do i <- (if has then do a <- deref (sr_sty r) 292; Ok (sa_i a) else Ok false);
  do u <- (if has then do a <- deref (sr_sty r) 293; Ok (sa_u a) else Ok false);
  Ok ((match color with [] => [] | _ => s_font_open ++ color ++ [34; 62] end) ++
      (if b then tag_open 98 else []) ++ (if i then tag_open 105 else []) ++ (if u then tag_open 117 else []) ++
      (if sr_pos r =? 0 then [] else [123;92;97;110] ++ itoa (sr_pos r) ++ [125]) ++
      escape_html (sr_text r) ++
      (if u then tag_close 117 else []) ++ (if i then tag_close 105 else []) ++ (if b then tag_close 98 else []) ++
      (match color with [] => [] | _ => s_font_close end)).
(* "if len(s.Items) == 0 { return ErrNoSubtitlesToWrite }" removed (srt.go:237): NOT a panic guard -- c starts with the
   three bytes of the BOM, so c[:len(c)-1] is in range: the unguarded writer emits a truncated BOM (the seeded change
   finds that by its bytes).  Site 265 itself is live: without the BOM as well, c is empty and c[:len(c)-1] panics. *)
Definition write_srt_c_noguard_empty (l : list sitem) : res str :=
  do body <- items_bytes_c 0 l;
  let c := bom ++ body in
  slice_to_pred c 265.
Definition write_srt_c_noguard_empty_nobom (l : list sitem) : res str :=
  do body <- items_bytes_c 0 l;
  slice_to_pred body 265.

(* loop bound: "j >= 0" removed from "for j := len(Items)-1; j >= 0; j--" (srt.go:134): the argument is j + 1 for the Go
   int j, so O is j = -1, where the bound stopped the loop; without it the body runs with Items[-1] *)
Fixpoint strip_items_c_noguard (j : nat) (items : list srun) : res (list srun) :=
  match j with
  | O => do k <- idx_pred O 135; do r <- index items k 135; Ok items
  | S k =>
    do r <- index items k 135;
    match sr_text r with
    | [] => do items' <- slice_to items k 136; strip_items_c_noguard k items'
    | _ => Ok items
    end
  end.

Definition ex_timing_no_end : str := [48;48;58;48;48;58;48;49;44;48;48;48;32;45;45;62].   (* 00:00:01,000 --> *)
Definition ex_plain_run : srun := mkSrun [97] None 0.
Lemma srt_guards_load_bearing :
  (finalize_c_noguard [] = Panic 68 /\ finalize_c_noguard_slice [] = Panic 70 /\ finalize_c [] = Ok ([], [])) /\
  (srt_timing_c_noguard_split [97] = Panic 92 /\ srt_timing_c [97] = Err EParse) /\
  (srt_timing_c_noguard_fields ex_timing_no_end = Panic 103 /\ srt_timing_c ex_timing_no_end = Err EParse) /\
  (run_bytes_c_noguard_nil ex_plain_run = Panic 286 /\ run_bytes_c ex_plain_run = Ok [97]) /\
  (strip_items_c_noguard 1 [mkSrun [] None 0] = Panic 135 /\ strip_items_c 1 [mkSrun [] None 0] = Ok []) /\
  (write_srt_c_noguard_empty [] = Ok [239; 187] /\ write_srt_c_noguard_empty_nobom [] = Panic 265 /\
   write_srt_c [] = Err ENothingToWrite).
Proof. vm_compute. repeat split. Qed.
