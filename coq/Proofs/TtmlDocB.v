(* C03, write/read of a whole document, part B: headers and paragraphs. *)
From Coq Require Import List ZArith NArith Bool Lia ZifyBool ZifyN ZifyNat.
From Astisub Require Import Kit.Base Kit.Str Kit.Xml Kit.SortOrd Model.Dur Model.Ttml
  Proofs.DurProofs Proofs.TtmlSpec Proofs.TtmlTime Proofs.TtmlLines Proofs.TtmlDocSpec Proofs.TtmlDocA.
Import ListNotations.
Open Scope N_scope.

(* ================= headers ================= *)
Lemma other_id : other s_id = true. Proof. vm_compute. reflexivity. Qed.
Lemma other_style : other s_style = true. Proof. vm_compute. reflexivity. Qed.
Lemma other_region : other s_region = true. Proof. vm_compute. reflexivity. Qed.
Lemma other_begin : other s_begin = true. Proof. vm_compute. reflexivity. Qed.
Lemma other_end : other s_end = true. Proof. vm_compute. reflexivity. Qed.

Definition header_attrs (s : tstyle) : list xattr :=
  opt_attr ns_xml s_id (Some (ts_id s)) ++ opt_attr [] s_style (ts_ref s) ++ out_attrs (ts_attrs s).

Theorem read_header_written {V} (styles : list (str * V)) el kv : header_ok styles kv = true ->
  read_header (out_header el (snd kv)) = Ok (snd kv).
Proof.
  unfold header_ok. intros H. apply andb_true_iff in H. destruct H as [Hr Ha].
  destruct kv as [k [id rf ta]]. cbn [snd ts_ref ts_attrs] in *.
  unfold read_header, out_header. cbn [elem_attrs ts_id ts_ref ts_attrs].
  set (pre := opt_attr ns_xml s_id (Some id) ++ opt_attr [] s_style rf).
  assert (Hpre : pre_ok pre = true).
  { apply pre_ok_app; apply opt_attr_pre_ok; [exact other_id | exact other_style]. }
  rewrite (app_assoc (opt_attr ns_xml s_id (Some id))). fold pre.
  rewrite (read_out_attrs pre ta Hpre Ha).
  assert (Eid : attr_str s_id (pre ++ out_attrs ta) = id).
  { assert (Ev : attr_vals s_id (pre ++ out_attrs ta) = match id with c :: r => [c :: r] | [] => [] end).
    { unfold pre. rewrite !attr_vals_app, (out_attrs_other _ _ other_id), opt_attr_vals_hit.
      rewrite opt_attr_vals_miss by reflexivity. rewrite !app_nil_r. reflexivity. }
    destruct id as [|c r]; [apply attr_str_none | apply attr_str_single]; exact Ev. }
  assert (Est : opt_ref (attr_str s_style (pre ++ out_attrs ta)) = rf).
  { apply (attr_str_ref s_style (pre ++ out_attrs ta) rf).
    - unfold pre. rewrite !attr_vals_app, (out_attrs_other _ _ other_style), opt_attr_vals_hit.
      rewrite opt_attr_vals_miss by reflexivity. rewrite app_nil_r. reflexivity.
    - destruct (ref_in_cases _ _ Hr) as [E|(c & k' & E & _)]; [left; exact E | right; exists c, k'; exact E]. }
  rewrite Eid, Est. reflexivity.
Qed.

(* ================= the content of a paragraph as groups ================= *)
Definition run_attrs (r : trun) : list xattr := opt_attr [] s_style (tr_style r) ++ out_attrs (tr_attrs r).
Definition grun (w : str) (r : trun) : group :=
  GSpan w (nm ns_ttml s_span) (run_attrs r) (mkPiece [] (tr_txt r) []) [].
Fixpoint glines (w : str) (ls : list (list trun)) : list group :=
  match ls with
  | [] => []
  | l :: r => match r with
              | [] => map (grun w) l
              | _ => map (grun w) l ++ GBr w ns_ttml :: glines w r
              end
  end.
Fixpoint olines (ls : list (list trun)) : list xnode :=
  match ls with
  | [] => []
  | l :: r => match r with
              | [] => map out_run l
              | _ => map out_run l ++ out_br :: olines r
              end
  end.
(* a child with its indentation in front *)
Definition ins (w : str) (k : xnode) : list xnode := text_kids w ++ [k].

Lemma out_lines_cons_nonnil l r : flat_map (fun l => map out_run l ++ [out_br]) (l :: r) <> [].
Proof. cbn [flat_map]. intros E. apply app_eq_nil in E. destruct E as [E _]. apply app_eq_nil in E. destruct E as [_ E]. discriminate. Qed.

Lemma out_lines_olines ls : out_lines ls = olines ls.
Proof.
  unfold out_lines. induction ls as [|l r IH]; [reflexivity|].
  destruct r as [|l' r'].
  - cbn [flat_map olines]. rewrite app_nil_r. apply removelast_last.
  - change (olines (l :: l' :: r')) with (map out_run l ++ out_br :: olines (l' :: r')).
    rewrite <- IH.
    change (flat_map (fun l0 => map out_run l0 ++ [out_br]) (l :: l' :: r'))
      with ((map out_run l ++ [out_br]) ++ flat_map (fun l0 => map out_run l0 ++ [out_br]) (l' :: r')).
    pose proof (out_lines_cons_nonnil l' r') as Hne.
    rewrite <- app_assoc. rewrite removelast_app by (cbn [app]; discriminate).
    f_equal. cbn [app].
    destruct (flat_map (fun l0 => map out_run l0 ++ [out_br]) (l' :: r')) as [|x y] eqn:E; [contradiction|].
    reflexivity.
Qed.

Lemma nodes_grun w r : group_nodes (grun w r) = ins w (out_run r).
Proof.
  unfold grun, ins, out_run, run_attrs. cbn [group_nodes]. unfold span_kids, piece_str.
  cbn [p_pre p_text p_post flat_map app]. rewrite !app_nil_r. reflexivity.
Qed.
Lemma nodes_gbr w : group_nodes (GBr w ns_ttml) = ins w out_br.
Proof. reflexivity. Qed.

Lemma nodes_glines w ls : flat_map group_nodes (glines w ls) = flat_map (ins w) (olines ls).
Proof.
  assert (Hm : forall l, flat_map group_nodes (map (grun w) l) = flat_map (ins w) (map out_run l)).
  { induction l as [|x l IHl]; [reflexivity|]. cbn [map flat_map]. rewrite nodes_grun, IHl. reflexivity. }
  induction ls as [|l r IH]; [reflexivity|].
  destruct r as [|l' r'].
  - cbn [glines olines]. apply Hm.
  - change (glines w (l :: l' :: r')) with (map (grun w) l ++ GBr w ns_ttml :: glines w (l' :: r')).
    change (olines (l :: l' :: r')) with (map out_run l ++ out_br :: olines (l' :: r')).
    rewrite !flat_map_app. cbn [flat_map]. rewrite Hm, nodes_gbr, IH. reflexivity.
Qed.

Lemma ins_nil l : flat_map (ins []) l = l.
Proof. induction l as [|x l IH]; [reflexivity|]. cbn [flat_map ins text_kids app]. rewrite IH. reflexivity. Qed.

(* a property of the groups of the lines *)
Lemma glines_forall (P : group -> bool) w ls : P (GBr w ns_ttml) = true ->
  forallb (forallb (fun r => P (grun w r))) ls = true -> forallb P (glines w ls) = true.
Proof.
  intros Hb.
  assert (Hm : forall l, forallb (fun r => P (grun w r)) l = true -> forallb P (map (grun w) l) = true).
  { induction l as [|x l IHl]; intros H; [reflexivity|]. cbn [forallb map] in *.
    apply andb_true_iff in H. destruct H as [H1 H2]. rewrite H1, (IHl H2). reflexivity. }
  induction ls as [|l r IH]; intros H; [reflexivity|].
  cbn [forallb] in H. apply andb_true_iff in H. destruct H as [Hl Hr].
  destruct r as [|l' r'].
  - cbn [glines]. apply Hm. exact Hl.
  - change (glines w (l :: l' :: r')) with (map (grun w) l ++ GBr w ns_ttml :: glines w (l' :: r')).
    rewrite forallb_app. cbn [forallb]. rewrite (Hm l Hl), Hb, (IH Hr). reflexivity.
Qed.

Lemma forallb_impl {A} (P Q : A -> bool) l : (forall x, P x = true -> Q x = true) -> forallb P l = true -> forallb Q l = true.
Proof.
  intros H. induction l as [|x l IH]; intros Hp; [reflexivity|]. cbn [forallb] in *.
  apply andb_true_iff in Hp. destruct Hp as [H1 H2]. rewrite (H x H1), (IH H2). reflexivity.
Qed.

Lemma glines_forall_runs {V} (styles : list (str * V)) (P : group -> bool) w ls : P (GBr w ns_ttml) = true ->
  (forall r, run_ok styles r = true -> P (grun w r) = true) ->
  forallb (forallb (run_ok styles)) ls = true -> forallb P (glines w ls) = true.
Proof.
  intros Hb Hr H. apply glines_forall; [exact Hb|].
  revert H. apply forallb_impl. intros l. apply forallb_impl. exact Hr.
Qed.

Lemma run_ok_parts {V} (styles : list (str * V)) r : run_ok styles r = true ->
  no_nl (tr_txt r) = true /\ ref_in styles (tr_style r) = true /\ attrs_ok (tr_attrs r) = true.
Proof.
  unfold run_ok. intros H. apply andb_true_iff in H. destruct H as [H H3]. apply andb_true_iff in H. destruct H as [H1 H2].
  repeat split; assumption.
Qed.

Lemma run_attrs_read {V} (styles : list (str * V)) r : run_ok styles r = true ->
  tt_read_attrs (run_attrs r) = Some (tr_attrs r)
  /\ attr_str s_style (run_attrs r) = ov (tr_style r)
  /\ opt_ref (attr_str s_style (run_attrs r)) = tr_style r.
Proof.
  intros H. apply run_ok_parts in H. destruct H as (_ & Hr & Ha). unfold run_attrs. split.
  - apply read_out_attrs; [apply opt_attr_pre_ok; exact other_style | exact Ha].
  - apply (attr_str_ref s_style _ (tr_style r)).
    + rewrite attr_vals_app, (out_attrs_other _ _ other_style), opt_attr_vals_hit. apply app_nil_r.
    + destruct (ref_in_cases _ _ Hr) as [E|(c & k' & E & _)]; [left; exact E | right; exists c, k'; exact E].
Qed.

Lemma span_not_br : is_br s_span = false. Proof. vm_compute. reflexivity. Qed.

Lemma group_ok_grun {V} (styles : list (str * V)) w r : is_indent w = true -> run_ok styles r = true ->
  group_ok (grun w r) = true.
Proof.
  intros Hw H. destruct (run_attrs_read styles r H) as (Ha & _). apply run_ok_parts in H. destruct H as (Hn & _ & _).
  unfold grun. cbn [group_ok x_local nm forallb]. rewrite Hw, span_not_br, Ha.
  unfold piece_ok. cbn [p_pre p_post p_text is_indent null]. rewrite Hn. reflexivity.
Qed.

Lemma adjacency_no_text gs wl : forallb (fun g => negb (is_gtext g)) gs = true -> adjacency_ok gs wl = true.
Proof.
  induction gs as [|g gs IH]; intros H; [reflexivity|]. cbn [forallb] in H. apply andb_true_iff in H. destruct H as [H1 H2].
  cbn [adjacency_ok]. apply negb_true_iff in H1. rewrite H1, (IH H2). reflexivity.
Qed.

Lemma glines_groups_ok {V} (styles : list (str * V)) w ls : is_indent w = true ->
  forallb (forallb (run_ok styles)) ls = true -> forallb group_ok (glines w ls) = true.
Proof.
  intros Hw H. apply (glines_forall_runs styles); [exact Hw | | exact H].
  intros r Hr. exact (group_ok_grun styles w r Hw Hr).
Qed.

Lemma toks_grun {V} (styles : list (str * V)) w r : run_ok styles r = true -> group_toks (grun w r) = [TRun r].
Proof.
  intros H. destruct (run_attrs_read styles r H) as (Ha & _ & Hs).
  unfold grun. cbn [group_toks map snd join_brk p_text flat_map]. rewrite Ha, Hs. destruct r; reflexivity.
Qed.

Lemma toks_glines {V} (styles : list (str * V)) w ls : forallb (forallb (run_ok styles)) ls = true ->
  flat_map group_toks (glines w ls) = lines_toks ls.
Proof.
  assert (Hm : forall l, forallb (run_ok styles) l = true -> flat_map group_toks (map (grun w) l) = map TRun l).
  { induction l as [|x l IHl]; intros H; [reflexivity|]. cbn [forallb] in H. apply andb_true_iff in H. destruct H as [H1 H2].
    cbn [map flat_map]. rewrite (toks_grun styles w x H1), (IHl H2). reflexivity. }
  induction ls as [|l r IH]; intros H; [reflexivity|].
  cbn [forallb] in H. apply andb_true_iff in H. destruct H as [Hl Hr].
  destruct r as [|l' r'].
  - cbn [glines lines_toks]. exact (Hm l Hl).
  - change (glines w (l :: l' :: r')) with (map (grun w) l ++ GBr w ns_ttml :: glines w (l' :: r')).
    change (lines_toks (l :: l' :: r')) with (map TRun l ++ TBrk :: lines_toks (l' :: r')).
    rewrite flat_map_app. cbn [flat_map group_toks]. rewrite (Hm l Hl), (IH Hr). reflexivity.
Qed.

Lemma br_is_br : is_br s_br = true. Proof. vm_compute. reflexivity. Qed.

Lemma items_style_glines (styles : list (str * tstyle)) w ls : forallb (forallb (run_ok styles)) ls = true ->
  forallb (item_style_ok styles) (flat_map group_items (glines w ls)) = true.
Proof.
  intros H.
  assert (Hg : forallb (fun g => forallb (item_style_ok styles) (group_items g)) (glines w ls) = true).
  { apply (glines_forall_runs styles); [ | | exact H].
    - cbn [group_items forallb]. unfold item_style_ok. cbn [in_local]. rewrite br_is_br. reflexivity.
    - intros r Hr. destruct (run_attrs_read styles r Hr) as (_ & Hs & _).
      apply run_ok_parts in Hr. destruct Hr as (_ & Hr & _).
      unfold grun. cbn [group_items forallb]. unfold item_style_ok. cbn [in_local in_style x_local nm].
      rewrite Hs. destruct (ref_in_cases _ _ Hr) as [E|(c & k' & E & Hm)]; rewrite E; cbn [ov null].
      + rewrite orb_true_r. reflexivity.
      + rewrite Hm, orb_true_r. reflexivity. }
  induction (glines w ls) as [|g gs IH]; [reflexivity|].
  cbn [forallb flat_map] in *. apply andb_true_iff in Hg. destruct Hg as [H1 H2].
  rewrite forallb_app, H1, (IH H2). reflexivity.
Qed.

(* ================= a written paragraph is read back ================= *)
Definition p_pre (it : titem) : list xattr :=
  [(nm [] s_begin, format_ttml (ti_st it)); (nm [] s_end, format_ttml (ti_en it))]
  ++ opt_attr [] s_region (ti_region it) ++ opt_attr [] s_style (ti_style it).
Definition p_attrs (it : titem) : list xattr :=
  [(nm [] s_begin, format_ttml (ti_st it)); (nm [] s_end, format_ttml (ti_en it))]
  ++ opt_attr [] s_region (ti_region it) ++ opt_attr [] s_style (ti_style it) ++ out_attrs (ti_attrs it).

Lemma p_attrs_eq it : p_attrs it = p_pre it ++ out_attrs (ti_attrs it).
Proof. unfold p_attrs, p_pre. rewrite <- !app_assoc. reflexivity. Qed.

Lemma out_p_eq it : out_p it = XElem (nm ns_ttml s_p) (p_attrs it) (out_lines (ti_lines it)).
Proof. reflexivity. Qed.

Lemma p_pre_ok it : pre_ok (p_pre it) = true.
Proof.
  unfold p_pre. apply pre_ok_app; [reflexivity|].
  apply pre_ok_app; apply opt_attr_pre_ok; [exact other_region | exact other_style].
Qed.

Lemma p_pre_begin it : attr_vals s_begin (p_pre it) = [format_ttml (ti_st it)].
Proof. unfold p_pre. destruct (ti_region it) as [[|c r]|]; destruct (ti_style it) as [[|c' r']|]; reflexivity. Qed.
Lemma p_pre_end it : attr_vals s_end (p_pre it) = [format_ttml (ti_en it)].
Proof. unfold p_pre. destruct (ti_region it) as [[|c r]|]; destruct (ti_style it) as [[|c' r']|]; reflexivity. Qed.
Lemma p_pre_region it : attr_vals s_region (p_pre it) = match ti_region it with Some (c :: k) => [c :: k] | _ => [] end.
Proof. unfold p_pre. destruct (ti_region it) as [[|c r]|]; destruct (ti_style it) as [[|c' r']|]; reflexivity. Qed.
Lemma p_pre_style it : attr_vals s_style (p_pre it) = match ti_style it with Some (c :: k) => [c :: k] | _ => [] end.
Proof. unfold p_pre. destruct (ti_region it) as [[|c r]|]; destruct (ti_style it) as [[|c' r']|]; reflexivity. Qed.

Lemma p_vals l it : other l = true -> attr_vals l (p_attrs it) = attr_vals l (p_pre it).
Proof. intros H. rewrite p_attrs_eq, attr_vals_app, (out_attrs_other _ _ H). apply app_nil_r. Qed.

Lemma item_ok_parts {V W} (styles : list (str * V)) (regions : list (str * W)) it : item_ok styles regions it = true ->
  (0 <= ti_st it <= max_int64)%Z /\ (0 <= ti_en it <= max_int64)%Z
  /\ ref_in regions (ti_region it) = true /\ ref_in styles (ti_style it) = true /\ attrs_ok (ti_attrs it) = true
  /\ ti_lines it <> [] /\ forallb (forallb (run_ok styles)) (ti_lines it) = true.
Proof.
  unfold item_ok. intros H.
  apply andb_true_iff in H. destruct H as [H H9]. apply andb_true_iff in H. destruct H as [H H8].
  apply andb_true_iff in H. destruct H as [H H7]. apply andb_true_iff in H. destruct H as [H H6].
  apply andb_true_iff in H. destruct H as [H H5]. apply andb_true_iff in H. destruct H as [H H4].
  apply andb_true_iff in H. destruct H as [H H3]. apply andb_true_iff in H. destruct H as [H1 H2].
  repeat split; try assumption; try lia.
  intros E. rewrite E in H8. discriminate.
Qed.

Lemma ref_null_mem {V} (m : list (str * V)) r : ref_in m r = true -> null (ov r) || map_mem (ov r) m = true.
Proof.
  intros H. destruct (ref_in_cases _ _ H) as [E|(c & k & E & Hm)]; rewrite E; cbn [ov null]; [reflexivity|].
  rewrite Hm. reflexivity.
Qed.

Theorem read_p_written (styles regions : list (str * tstyle)) it w wl :
  item_ok styles regions it = true -> is_indent w = true -> is_indent wl = true ->
  read_p styles regions 0 0 (XElem (nm ns_ttml s_p) (p_attrs it) (render_content (glines w (ti_lines it)) wl))
  = Ok (written_item it).
Proof.
  intros Hok Hw Hwl. apply item_ok_parts in Hok. destruct Hok as (Hst & Hen & Hrg & Hsy & Hat & Hne & Hruns).
  unfold read_p. cbn [elem_attrs elem_kids].
  assert (Eb : dur_attr s_begin (p_attrs it) = Some (Some (mkDur (trunc_ms (ti_st it)) 0 0))).
  { unfold dur_attr. rewrite (p_vals _ it other_begin), p_pre_begin. cbn [fold_left].
    rewrite (unmarshal_format _ Hst). reflexivity. }
  assert (Ee : dur_attr s_end (p_attrs it) = Some (Some (mkDur (trunc_ms (ti_en it)) 0 0))).
  { unfold dur_attr. rewrite (p_vals _ it other_end), p_pre_end. cbn [fold_left].
    rewrite (unmarshal_format _ Hen). reflexivity. }
  assert (Ea : tt_read_attrs (p_attrs it) = Some (ti_attrs it)).
  { rewrite p_attrs_eq. apply read_out_attrs; [apply p_pre_ok | exact Hat]. }
  rewrite Eb, Ee, Ea.
  destruct (attr_str_ref s_region (p_attrs it) (ti_region it)) as [Er1 Er2].
  { rewrite (p_vals _ it other_region). apply p_pre_region. }
  { destruct (ref_in_cases _ _ Hrg) as [E|(c & k' & E & _)]; [left; exact E | right; exists c, k'; exact E]. }
  destruct (attr_str_ref s_style (p_attrs it) (ti_style it)) as [Es1 Es2].
  { rewrite (p_vals _ it other_style). apply p_pre_style. }
  { destruct (ref_in_cases _ _ Hsy) as [E|(c & k' & E & _)]; [left; exact E | right; exists c, k'; exact E]. }
  rewrite Er2, Es2, Er1, Es1, (ref_null_mem _ _ Hrg), (ref_null_mem _ _ Hsy). cbn [negb].
  pose proof (glines_groups_ok styles w (ti_lines it) Hw Hruns) as Hg.
  rewrite (strip_content_map _ (render_first _ wl Hg Hwl)), (items_render _ wl Hg Hwl).
  rewrite (items_style_glines styles w _ Hruns).
  rewrite (flat_items_toks _ Hg), (toks_glines styles w _ Hruns), (lines_of_lines_toks _ Hne).
  rewrite !duration_plain. reflexivity.
Qed.
