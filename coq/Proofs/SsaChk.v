(* ssa.go: the checked transcription (Model/SsaC.v) never reaches a panic site, and agrees with the pattern-matching
   transcription (Model/Ssa.v) on which the fidelity theorems of C04 are stated.  The content of each equation is that
   the guard the Go code tests implies that the access behind it is in range / non-nil -- e.g. line[1:len(line)-1]
   after HasPrefix "[" and HasSuffix "]", items[len(format)-1] after len(format) != 0 and len(items) >= len(format),
   the store into the format map after a section header has made it, the pending lineItem after len(matches) > 0. *)
From Coq Require Import Strings.String.
From Coq Require Import List ZArith NArith Bool Arith Lia Permutation.
From Astisub Require Import Kit.Base Kit.Str Kit.Scan Kit.Chk Model.Dur Model.DurC Model.Ssa Model.SsaC.
From Astisub Require Import Proofs.DurChk Proofs.SrtChk Proofs.SsaLines Proofs.SsaIgnore Proofs.SsaOrder.
Import ListNotations.
Open Scope N_scope.

(* ---- checked accesses in range ---- *)
Lemma slice_from_app {A} (P T : list A) site : slice_from (P ++ T) (length P) site = Ok T.
Proof.
  unfold slice_from. rewrite app_length. destruct (Nat.leb (length P) (length P + length T)) eqn:E; [|apply Nat.leb_gt in E; lia].
  rewrite skipn_app, Nat.sub_diag, skipn_all. reflexivity.
Qed.
Lemma nth_error_app_here {A} (P : list A) x T : nth_error (P ++ x :: T) (length P) = Some x.
Proof. rewrite nth_error_app2 by lia. rewrite Nat.sub_diag. reflexivity. Qed.

(* ---- the options: a callback is called behind its nil test ---- *)
Lemma on_unknown_c_ok o : on_unknown_c o = Ok tt.
Proof. unfold on_unknown_c. destruct (so_unknown o) as [[]|]; reflexivity. Qed.
Lemma on_invalid_c_ok o : on_invalid_c o = Ok tt.
Proof. unfold on_invalid_c. destruct (so_invalid o) as [[]|]; reflexivity. Qed.

(* ---- colours: i[2:] behind HasPrefix(i, "&H") ---- *)
Lemma parse_color_c_ok item : parse_color_c item = parse_color item.
Proof.
  unfold parse_color_c, parse_color. destruct item as [|c r]; [reflexivity|]. cbn [length Nat.eqb].
  unfold has_prefix. destruct (prefix amp_h (c :: r)) as [t|] eqn:E; [|reflexivity].
  apply prefix_Some in E. rewrite E. change 2%nat with (length amp_h). rewrite slice_from_app. reflexivity.
Qed.

(* ---- style rows ---- *)
Lemma style_cell_c_ok attr item s : style_cell_c attr item s = style_cell attr item s.
Proof.
  unfold style_cell_c, style_cell. destruct (sattr_of_name attr) as [[x|x|x|x| |]|]; try reflexivity.
  rewrite parse_color_c_ok. destruct (parse_color item); reflexivity.
Qed.
Lemma style_loop_c_ok items : forall P F s, (length items <= length F)%nat ->
  style_loop_c (P ++ F) (length P) items s = style_cells F items s.
Proof.
  induction items as [|item r IH]; intros P F s Hl; [destruct F; reflexivity|].
  destruct F as [|a fr]; [cbn [length] in Hl; lia|]. cbn [style_loop_c style_cells].
  rewrite nth_error_app_here, style_cell_c_ok. destruct (style_cell a item s) as [s'|k|p]; cbn [bind]; try reflexivity.
  replace (P ++ a :: fr) with ((P ++ [a]) ++ fr) by (rewrite <- app_assoc; reflexivity).
  replace (S (length P)) with (length (P ++ [a])) by (rewrite app_length; cbn [length]; lia).
  apply IH. cbn [length] in Hl. lia.
Qed.
Theorem style_from_string_c_ok content fmt : style_from_string_c content fmt = style_from_string content fmt.
Proof.
  unfold style_from_string_c, style_from_string.
  destruct (Nat.ltb (length (split_byte comma content)) (length fmt)) eqn:E1.
  { apply Nat.ltb_lt in E1. destruct (Nat.eqb _ _) eqn:E; [apply Nat.eqb_eq in E; lia | reflexivity]. }
  destruct (Nat.ltb (length fmt) (length (split_byte comma content))) eqn:E2.
  { apply Nat.ltb_lt in E2. destruct (Nat.eqb _ _) eqn:E; [apply Nat.eqb_eq in E; lia | reflexivity]. }
  apply Nat.ltb_ge in E1. apply Nat.ltb_ge in E2.
  destruct (Nat.eqb _ _) eqn:E; [|apply Nat.eqb_neq in E; lia].
  apply (style_loop_c_ok (split_byte comma content) [] fmt astyle0). lia.
Qed.

(* ---- event rows ---- *)
Lemma parse_time_c_ok item : parse_time_c item = Ok (parse_time item).
Proof. unfold parse_time_c, parse_time, parse_ssa. rewrite parse_duration_c_ok. reflexivity. Qed.
Lemma event_cell_c_ok attr item e : event_cell_c attr item e = event_cell attr item e.
Proof.
  unfold event_cell_c, event_cell. destruct e as [cat eff en lay mk ml mr mv nm st sty tx].
  destruct (eattr_of_name attr) as [[]|]; try reflexivity;
    rewrite parse_time_c_ok; cbn [bind]; destruct (parse_time item); reflexivity.
Qed.
Lemma event_loop_c_ok items : forall P F e, (length items <= length F)%nat ->
  event_loop_c (P ++ F) (length P) items e = event_cells F items e.
Proof.
  induction items as [|item r IH]; intros P F e Hl; [destruct F; reflexivity|].
  destruct F as [|a fr]; [cbn [length] in Hl; lia|]. cbn [event_loop_c event_cells].
  rewrite nth_error_app_here, event_cell_c_ok. destruct (event_cell a item e) as [e'|k|p]; cbn [bind]; try reflexivity.
  replace (P ++ a :: fr) with ((P ++ [a]) ++ fr) by (rewrite <- app_assoc; reflexivity).
  replace (S (length P)) with (length (P ++ [a])) by (rewrite app_length; cbn [length]; lia).
  apply IH. cbn [length] in Hl. lia.
Qed.
(* the guards of items[len(format)-1]: len(format) != 0 (in the caller) and len(items) >= len(format) *)
Theorem event_from_string_c_ok header content fmt : fmt <> [] ->
  event_from_string_c header content fmt = event_from_string header content fmt.
Proof.
  intros Hne. unfold event_from_string_c, event_from_string.
  destruct (Nat.ltb (length (split_byte comma content)) (length fmt)) eqn:E1; [reflexivity|]. apply Nat.ltb_ge in E1.
  destruct fmt as [|f0 fr]; [contradiction|]. set (items := split_byte comma content) in *.
  set (k := length fr). change (length (f0 :: fr)) with (S k) in *. cbn [idx_pred bind].
  destruct (nth_error items k) as [x|] eqn:En; [|apply nth_error_None in En; lia].
  destruct (nth_error_split items k En) as (A & B & Ei & Ek). rewrite Ei, <- Ek.
  rewrite slice_from_app. cbn [bind]. rewrite index_app_last. cbn [bind]. rewrite set_nth_app.
  replace (A ++ join [comma] (x :: B) :: B) with ((A ++ [join [comma] (x :: B)]) ++ B) by (rewrite <- app_assoc; reflexivity).
  replace (S (length A)) with (length (A ++ [join [comma] (x :: B)])) by (rewrite app_length; cbn [length]; lia).
  rewrite slice_to_app. cbn [bind].
  unfold fold_last. replace (length (A ++ [join [comma] (x :: B)]) - 1)%nat with (length A) by (rewrite app_length; cbn [length]; lia).
  replace ((A ++ [join [comma] (x :: B)]) ++ B) with (A ++ join [comma] (x :: B) :: B) by (rewrite <- app_assoc; reflexivity).
  rewrite firstn_app, Nat.sub_diag, firstn_all. cbn [firstn]. rewrite app_nil_r.
  rewrite skipn_app, Nat.sub_diag, skipn_all. cbn [skipn app].
  apply (event_loop_c_ok (A ++ [join [comma] (x :: B)]) [] (f0 :: fr) (aevent0 header)).
  rewrite app_length. cbn [length]. fold k. lia.
Qed.
(* without the caller's guard the index is -1 *)
Theorem event_from_string_c_empty_format header content : event_from_string_c header content [] = Panic 977.
Proof. reflexivity. Qed.

(* ---- event text: the pending lineItem is not nil after the loop over a non-empty list of matches ---- *)
Lemma eff_loop_some bs : forall pre prev e acc, exists e' prev' acc',
  eff_loop_c bs pre prev (Some e) acc = Ok (Some e', prev', acc') /\
  acc' ++ [mkArun prev' (Some e')] = acc ++ mkArun prev (Some e) :: map (fun p : str * str => mkArun (snd p) (Some (fst p))) bs.
Proof.
  induction bs as [|[blk t] r IH]; intros pre prev e acc.
  - exists e, prev, acc. split; reflexivity.
  - cbn [eff_loop_c is_some deref bind].
    destruct (IH pre t blk (acc ++ [mkArun prev (Some e)])) as (e' & prev' & acc' & E & H).
    exists e', prev', acc'. split; [exact E|]. rewrite H, <- app_assoc. reflexivity.
Qed.
Lemma line_runs_c_ok s : line_runs_c s = Ok (line_runs s).
Proof.
  unfold line_runs_c, line_runs. destruct (segments s) as [pre bs]. destruct bs as [|[blk t] r]; [reflexivity|].
  change (Nat.ltb 0 (length ((blk, t) :: r))) with true. cbv iota. cbn [eff_loop_c is_some].
  set (acc0 := if Nat.ltb 0 (length pre) then Ok ([] ++ [mkArun pre None]) else Ok []).
  assert (Ea : acc0 = Ok (match pre with [] => [] | _ => [mkArun pre None] end)) by (destruct pre; reflexivity).
  rewrite Ea. cbn [bind].
  destruct (eff_loop_some r pre t blk (match pre with [] => [] | _ => [mkArun pre None] end)) as (e' & prev' & acc' & E & H).
  rewrite E. cbn [bind deref]. rewrite H. reflexivity.
Qed.
Lemma lines_loop_c_ok name ss : lines_loop_c name ss = Ok (map (fun s => mkAline name (line_runs (trim_space s))) ss).
Proof. induction ss as [|s r IH]; [reflexivity|]. cbn [lines_loop_c map]. rewrite line_runs_c_ok, IH. reflexivity. Qed.
Theorem text_lines_c_ok name text : text_lines_c name text = Ok (text_lines name text).
Proof. apply lines_loop_c_ok. Qed.
Theorem event_item_c_ok e styles : event_item_c e styles = Ok (event_item e styles).
Proof. unfold event_item_c, event_item. rewrite text_lines_c_ok. reflexivity. Qed.
Lemma items_loop_c_ok evs m : items_loop_c evs m = Ok (map (fun e => event_item e m) (filter is_dialogue evs)).
Proof.
  induction evs as [|e r IH]; [reflexivity|]. cbn [items_loop_c filter]. destruct (is_dialogue e); [|exact IH].
  rewrite event_item_c_ok, IH. reflexivity.
Qed.
Lemma finish_c_ok cs : finish_c cs = Ok (finish (c_erase cs)).
Proof. unfold finish_c, finish. rewrite items_loop_c_ok. reflexivity. Qed.

(* ---- section headers: line[1 : len(line)-1] behind HasPrefix(line, "[") && HasSuffix(line, "]") ---- *)
Lemma match_rb {A} (x : N) (m : str) (f : str -> A) (g : A) :
  x <> 93 -> match x :: m with 93 :: y => f y | _ => g end = g.
Proof.
  intros H. destruct x as [|p]; [reflexivity|].
  do 7 (destruct p as [p|p|]; try reflexivity). contradiction.
Qed.
Lemma header_guard line :
  (has_prefix [91] line && has_suffix [93] line = true ->
     exists inner, bracketed line = Some inner /\ slice_range line 1 (length line - 1) 162 = Ok inner) /\
  (has_prefix [91] line && has_suffix [93] line = false -> bracketed line = None).
Proof.
  destruct line as [|c r]; [split; [discriminate | reflexivity]|].
  destruct (N.eq_dec c 91) as [->|Hc].
  - change (has_prefix [91] (91 :: r)) with true. cbn [andb]. unfold has_suffix. cbn [rev app].
    change (bracketed (91 :: r)) with (match rev r with 93 :: m => Some (rev m) | _ => None end).
    destruct (rev r) as [|x m] eqn:Er; [split; [discriminate | reflexivity]|].
    cbn [app]. unfold has_prefix. cbn [prefix]. destruct (93 =? x) eqn:Ex.
    + apply N.eqb_eq in Ex. subst x. split; [|discriminate]. intros _. exists (rev m). split; [reflexivity|].
      assert (Hr : r = rev m ++ [93]) by (rewrite <- (rev_involutive r), Er; reflexivity). subst r.
      unfold slice_range. change (91 :: rev m ++ [93]) with ((91 :: rev m) ++ [93]).
      replace (length ((91%N :: rev m) ++ [93%N]) - 1)%nat with (length (91%N :: rev m)) by (rewrite app_length; cbn [length]; lia).
      rewrite slice_to_app. cbn [bind]. reflexivity.
    + apply N.eqb_neq in Ex. split; [discriminate|]. intros _. apply match_rb. intros ->. apply Ex. reflexivity.
  - split.
    + unfold has_prefix. cbn [prefix]. destruct (91 =? c) eqn:E; [apply N.eqb_eq in E; subst c; contradiction | discriminate].
    + intros _. apply bracketed_other. exact Hc.
Qed.

(* ---- the state: the format map has been made whenever the section is one that stores into it ---- *)
Definition c_inv (cs : acstate) : Prop := (c_sect cs = SEvents \/ c_sect cs = SStyles) -> c_fmt cs <> None.
(* the checked step is related to the step of Model/Ssa.v: same class, same state up to the representation of the
   format map, never a panic; the invariant is kept *)
Definition rel (r : res acstate) (r0 : res rstate) : Prop :=
  match r, r0 with
  | Ok cs, Ok s => c_erase cs = s /\ c_inv cs
  | Err k, Err k' => k = k'
  | _, _ => False
  end.
Lemma rel_same cs : c_inv cs -> rel (Ok cs) (Ok (c_erase cs)).
Proof. intros H. split; [reflexivity | exact H]. Qed.

Lemma ssa_dispatch_c_ok cs h c : c_inv cs -> rel (ssa_dispatch_c cs h c) (kv_dispatch (c_erase cs) h c).
Proof.
  intros Hinv. destruct cs as [sect fmt info sts evs]. unfold c_inv in Hinv. cbn [c_sect c_fmt] in Hinv.
  unfold ssa_dispatch_c, kv_dispatch, c_erase. cbn [c_sect c_fmt c_info c_styles c_events].
  destruct sect; try (apply (rel_same (mkAcstate _ fmt info sts evs)); exact Hinv).
  - (* events *)
    destruct fmt as [l|]; [|exfalso; apply Hinv; [left; reflexivity | reflexivity]]. cbn [fmt_read].
    destruct (str_eqb h n_format).
    + unfold format_store_c. destruct (map trim_space (split_byte comma c)) as [|c0 cr] eqn:Ec.
      * cbn [bind]. split; [reflexivity | intros _; discriminate].
      * cbn [deref bind]. split; [reflexivity | intros _; discriminate].
    + destruct l as [|f0 fr]; [reflexivity|]. cbn [length Nat.eqb].
      rewrite event_from_string_c_ok by discriminate.
      destruct (event_from_string h c (f0 :: fr)) as [e|k|p] eqn:E; cbn [bind].
      * split; [reflexivity | intros _; discriminate].
      * reflexivity.
      * exact (event_from_string_no_panic h c (f0 :: fr) p ltac:(discriminate) E).
  - (* script info *)
    destruct (info_parse info h c) as [info'|k|p] eqn:E; cbn [bind].
    + split; [reflexivity | intros [H|H]; discriminate].
    + reflexivity.
    + exact (info_parse_no_panic _ _ _ _ E).
  - (* styles *)
    destruct fmt as [l|]; [|exfalso; apply Hinv; [right; reflexivity | reflexivity]]. cbn [fmt_read].
    destruct (str_eqb h n_format).
    + unfold format_store_c. destruct (map trim_space (split_byte comma c)) as [|c0 cr] eqn:Ec.
      * cbn [bind]. split; [reflexivity | intros _; discriminate].
      * cbn [deref bind]. split; [reflexivity | intros _; discriminate].
    + destruct l as [|f0 fr]; [reflexivity|]. cbn [length Nat.eqb].
      rewrite style_from_string_c_ok.
      destruct (style_from_string c (f0 :: fr)) as [st|k|p] eqn:E; cbn [bind].
      * split; [reflexivity | intros _; discriminate].
      * reflexivity.
      * exact (style_from_string_no_panic _ _ _ E).
Qed.

(* split[0], split[1:] behind len(split) < 2 || split[0] == "" *)
Lemma ssa_kv_h_ok cs line : c_inv cs -> rel (ssa_kv_h (Ok tt) cs line) (ssa_line_kv (c_erase cs) line).
Proof.
  intros Hinv. unfold ssa_kv_h, ssa_line_kv. destruct (split_byte 58 line) as [|h [|r0 rr]].
  - cbn [length Nat.ltb Nat.leb bind]. apply rel_same. exact Hinv.
  - cbn [length Nat.ltb Nat.leb bind]. apply rel_same. exact Hinv.
  - change (Nat.ltb (length (h :: r0 :: rr)) 2) with false. cbv iota. unfold index at 1. cbn [nth_error bind].
    destruct h as [|hc ht].
    + cbn [length Nat.eqb bind]. apply rel_same. exact Hinv.
    + cbn [length Nat.eqb]. cbv iota. unfold index, slice_from. cbn [nth_error bind length Nat.leb skipn].
      apply ssa_dispatch_c_ok. exact Hinv.
Qed.

(* line[0], line[1:] behind len(line) > 0 *)
Lemma ssa_line_h_ok cs line : line <> [] -> c_inv cs ->
  rel (ssa_line_h (Ok tt) (Ok tt) cs line) (ssa_line (c_erase cs) line).
Proof.
  intros Hne Hinv. rewrite ssa_line_cases. destruct (header_guard line) as [Ht Hf]. unfold ssa_line_h.
  destruct (has_prefix [91] line && has_suffix [93] line) eqn:E.
  - destruct (Ht eq_refl) as (inner & Hb & Hs). rewrite Hb. unfold ssa_header_h. rewrite Hs. cbn [bind].
    unfold hdr_result. destruct cs as [sect fmt info sts evs].
    destruct (section_of inner); cbn [bind];
      (split; [reflexivity | unfold c_inv; cbn [c_sect c_fmt]; intros [H|H]; discriminate]).
  - rewrite (Hf eq_refl). change (is_unknown (rs_sect (c_erase cs))) with (sect_unknown (c_sect cs)).
    destruct (sect_unknown (c_sect cs)); [apply rel_same; exact Hinv|].
    destruct line as [|c r]; [contradiction|].
    change (Nat.ltb 0 (length (c :: r))) with true. cbv iota. unfold index. cbn [nth_error bind].
    destruct (c =? 59).
    + unfold slice_from. cbn [length Nat.leb skipn bind]. split; [reflexivity|]. exact Hinv.
    + apply ssa_kv_h_ok. exact Hinv.
Qed.
Lemma ssa_step_h_ok cs first raw : c_inv cs ->
  rel (ssa_step_h (Ok tt) (Ok tt) cs first raw) (ssa_step (c_erase cs) first raw).
Proof.
  intros Hinv. unfold ssa_step_h, ssa_step.
  destruct (if first then trim_prefix bom3 (trim_space raw) else trim_space raw) as [|c r] eqn:El.
  - cbn [length Nat.eqb]. apply rel_same. exact Hinv.
  - cbn [length Nat.eqb]. apply ssa_line_h_ok; [discriminate | exact Hinv].
Qed.
Lemma ssa_run_h_ok ls : forall cs first, c_inv cs ->
  rel (ssa_run_h (Ok tt) (Ok tt) cs first ls) (ssa_run (c_erase cs) first ls).
Proof.
  induction ls as [|l r IH]; intros cs first Hinv; [apply rel_same; exact Hinv|]. cbn [ssa_run_h ssa_run].
  pose proof (ssa_step_h_ok cs first l Hinv) as Hs. unfold rel in Hs.
  destruct (ssa_step_h (Ok tt) (Ok tt) cs first l) as [cs'|k|p]; destruct (ssa_step (c_erase cs) first l) as [s'|k'|p'];
    try contradiction.
  - destruct Hs as [<- Hinv']. apply IH. exact Hinv'.
  - exact Hs.
Qed.
Lemma read_ssa_lines_h_ok ls e : read_ssa_lines_h (Ok tt) (Ok tt) ls e = read_ssa_lines ls e.
Proof.
  unfold read_ssa_lines_h, read_ssa_lines.
  assert (H0 : c_inv acstate0) by (intros [H|H]; discriminate).
  pose proof (ssa_run_h_ok ls acstate0 true H0) as Hr. unfold rel in Hr. change (c_erase acstate0) with rstate0 in Hr.
  destruct (ssa_run_h (Ok tt) (Ok tt) acstate0 true ls) as [cs|k|p]; destruct (ssa_run rstate0 true ls) as [s|k'|p'];
    try contradiction.
  - destruct Hr as [<- _]. destruct e; [reflexivity | apply finish_c_ok].
  - rewrite Hr. reflexivity.
Qed.
(* THE CHECKED READER AGREES WITH THE READER OF THE FIDELITY THEOREMS, whatever the options *)
Theorem read_ssa_lines_c_ok o ls e : read_ssa_lines_c o ls e = read_ssa_lines ls e.
Proof. unfold read_ssa_lines_c. rewrite on_unknown_c_ok, on_invalid_c_ok. apply read_ssa_lines_h_ok. Qed.
Theorem read_ssa_c_ok o data : read_ssa_c o data = read_ssa data.
Proof. apply read_ssa_lines_c_ok. Qed.

(* ---------------------------------------------------------------- the writer *)
Lemma script_info_c_ok m : script_info_c m = Ok (match m with Some x => x | None => ainfo0 end).
Proof. destruct m; reflexivity. Qed.
Lemma info_num_line_c_ok k b site : info_num_line_c k b site = Ok (info_num_line k b).
Proof. unfold info_num_line_c, info_num_line. destruct (nget k b); reflexivity. Qed.
Theorem info_bytes_c_ok b : info_bytes_c b = Ok (info_bytes b).
Proof.
  unfold info_bytes_c, info_bytes. rewrite !info_num_line_c_ok. cbn [bind].
  destruct (an_timer b); reflexivity.
Qed.

(* ssaStyle.string: every pointer is dereferenced behind its nil test *)
Lemma style_cell_string_c_ok a s : style_cell_string_c a s = Ok (style_cell_string a s).
Proof.
  destruct a as [x|x|x|x| |]; cbn [style_cell_string_c style_cell_string]; try reflexivity.
  - destruct (bget x s); reflexivity.
  - destruct (cget x s); reflexivity.
  - destruct (fget x s); reflexivity.
  - destruct (iget x s); reflexivity.
Qed.
Lemma style_cells_string_c_ok fmt s :
  style_cells_string_c fmt s = Ok (opt_cells (map (fun a => style_cell_string a s) fmt)).
Proof.
  induction fmt as [|a r IH]; [reflexivity|]. cbn [style_cells_string_c map opt_cells].
  rewrite style_cell_string_c_ok, IH. cbn [bind]. destruct (style_cell_string a s); reflexivity.
Qed.
Theorem style_string_c_ok s fmt : style_string_c s fmt = Ok (style_string s fmt).
Proof. unfold style_string_c, style_string. rewrite style_cells_string_c_ok. reflexivity. Qed.

(* *s behind "style != nil": the identifiers that are ranged over are those whose element is not nil *)
Lemma styles_loop_c_ok d ids :
  (forall id, In id ids -> exists st, sm_get id (ad_styles d) = Some (Some st)) ->
  styles_loop_c d ids = Ok (opt_cells (map (fun k => match sm_get k (ad_styles d) with Some o => o | None => None end) ids)).
Proof.
  induction ids as [|id r IH]; intros H; [reflexivity|]. cbn [styles_loop_c map opt_cells].
  destruct (H id (or_introl eq_refl)) as (st & E). rewrite E. cbn [deref bind].
  rewrite IH by (intros x Hx; apply H; right; exact Hx). reflexivity.
Qed.
(* styles[n] behind the store styles[ss.name] = ss of the first loop *)
Lemma sm_get_set_eq {V} k (v : V) m : sm_get k (sm_set k v m) = Some v.
Proof.
  induction m as [|[k' v'] r IH]; cbn [sm_set sm_get]; [rewrite str_eqb_refl; reflexivity|].
  destruct (str_eqb k k') eqn:E; cbn [sm_get]; [rewrite str_eqb_refl; reflexivity | rewrite E; exact IH].
Qed.
Lemma sm_get_set_mono {V} n k (v : V) m : is_some (sm_get n m) = true -> is_some (sm_get n (sm_set k v m)) = true.
Proof.
  induction m as [|[k' v'] r IH]; cbn [sm_set sm_get]; [discriminate|]. intros H.
  destruct (str_eqb k k') eqn:E; cbn [sm_get].
  - apply str_eqb_eq in E. subst k'. destruct (str_eqb n k); [reflexivity | exact H].
  - destruct (str_eqb n k'); [reflexivity | apply IH; exact H].
Qed.
Lemma tbl_has sts : forall (m : list (str * astyle)) n,
  is_some (sm_get n m) = true \/ In n (map ay_name sts) ->
  is_some (sm_get n (fold_left (fun m st => sm_set (ay_name st) st m) sts m)) = true.
Proof.
  induction sts as [|st r IH]; intros m n H; cbn [fold_left].
  - destruct H as [H|[]]. exact H.
  - apply IH. cbn [map In] in H. destruct H as [H|[H|H]].
    + left. apply sm_get_set_mono. exact H.
    + left. subst n. rewrite sm_get_set_eq. reflexivity.
    + right. exact H.
Qed.
Lemma style_rows_c_ok tbl fmt names :
  (forall n, In n names -> is_some (sm_get n tbl) = true) ->
  style_rows_c tbl fmt names =
  Ok (concat (map (fun n => match sm_get n tbl with Some st => n_style_pfx ++ style_string st fmt ++ nl | None => [] end) names)).
Proof.
  induction names as [|n r IH]; intros H; [reflexivity|]. cbn [style_rows_c map concat].
  pose proof (H n (or_introl eq_refl)) as Hn. destruct (sm_get n tbl) as [st|]; [|discriminate]. cbn [deref bind].
  rewrite style_string_c_ok. cbn [bind]. rewrite IH by (intros x Hx; apply H; right; exact Hx). cbn [bind].
  rewrite <- !app_assoc. reflexivity.
Qed.
Lemma styles_bytes_c_ok d order : styles_bytes_c d order (is_v4plus d) = Ok (styles_bytes d order).
Proof.
  unfold styles_bytes_c, styles_bytes.
  set (ids := ssort (filter (fun k => match sm_get k (ad_styles d) with Some (Some _) => true | _ => false end) order)).
  assert (Hids : forall id, In id ids -> exists st, sm_get id (ad_styles d) = Some (Some st)).
  { intros id Hin. apply (Permutation_in _ (Permutation_sym (ssort_perm _))) in Hin. apply filter_In in Hin.
    destruct Hin as [_ Hp]. destruct (sm_get id (ad_styles d)) as [[st|]|]; try discriminate. exists st. reflexivity. }
  rewrite (styles_loop_c_ok d ids Hids). cbn [bind].
  set (sts := opt_cells (map (fun k => match sm_get k (ad_styles d) with Some o => o | None => None end) ids)).
  rewrite style_rows_c_ok; [reflexivity|].
  intros n Hin. apply (Permutation_in _ (Permutation_sym (ssort_perm _))) in Hin. apply tbl_has. right. exact Hin.
Qed.

(* newSSAEventFromItem *)
Lemma run_string_c_ok r : run_string_c r = Ok (run_string r).
Proof. unfold run_string_c, run_string. destruct (ar_eff r); reflexivity. Qed.
Lemma runs_string_c_ok rs : runs_string_c rs = Ok (concat (map run_string rs)).
Proof. induction rs as [|r t IH]; [reflexivity|]. cbn [runs_string_c map concat]. rewrite run_string_c_ok, IH. reflexivity. Qed.
Lemma lines_string_c_ok ls : lines_string_c ls = Ok (map line_string ls).
Proof.
  induction ls as [|l t IH]; [reflexivity|]. cbn [lines_string_c map]. rewrite runs_string_c_ok, IH. reflexivity.
Qed.
Theorem event_of_item_c_ok i : event_of_item_c i = Ok (event_of_item i).
Proof.
  unfold event_of_item_c, event_of_item, item_text_ssa. rewrite lines_string_c_ok.
  destruct (ai_style i); destruct (ai_inl i); reflexivity.
Qed.
(* ssaEvent.string *)
Lemma event_cell_string_c_ok a e : event_cell_string_c a e = Ok (event_cell_string a e).
Proof.
  destruct a; cbn [event_cell_string_c event_cell_string]; try reflexivity; unfold int_cell_c, oz.
  - destruct (av_layer e); reflexivity.
  - destruct (av_ml e); reflexivity.
  - destruct (av_mr e); reflexivity.
  - destruct (av_mv e); reflexivity.
  - destruct (av_marked e) as [[]|]; reflexivity.
Qed.
Lemma event_cells_string_c_ok fmt e : event_cells_string_c fmt e = Ok (map (fun a => event_cell_string a e) fmt).
Proof.
  induction fmt as [|a r IH]; [reflexivity|]. cbn [event_cells_string_c map]. rewrite event_cell_string_c_ok, IH. reflexivity.
Qed.
Theorem event_string_c_ok e fmt : event_string_c e fmt = Ok (event_string e fmt).
Proof. unfold event_string_c, event_string. rewrite event_cells_string_c_ok. reflexivity. Qed.
Lemma event_rows_c_ok items fmt :
  event_rows_c items fmt = Ok (concat (map (fun i => n_dialogue_pfx ++ event_string (event_of_item i) fmt ++ nl) items)).
Proof.
  induction items as [|i r IH]; [reflexivity|]. cbn [event_rows_c map concat].
  rewrite event_of_item_c_ok. cbn [bind]. rewrite event_string_c_ok. cbn [bind]. rewrite IH. cbn [bind].
  rewrite <- !app_assoc. reflexivity.
Qed.
Lemma events_bytes_c_ok d : events_bytes_c d (is_v4plus d) = Ok (events_bytes d).
Proof. unfold events_bytes_c, events_bytes. rewrite event_rows_c_ok. reflexivity. Qed.

Theorem write_ssa_chunks_c_ok d order : write_ssa_chunks_c d order = write_ssa_chunks d order.
Proof.
  unfold write_ssa_chunks_c, write_ssa_chunks. destruct (ad_items d) as [|it r] eqn:Ei; [reflexivity|]. cbn [length Nat.eqb].
  rewrite script_info_c_ok. cbn [bind]. rewrite info_bytes_c_ok. cbn [bind].
  assert (Ev : (if is_some (ad_meta d) then do m <- deref (ad_meta d) 1211; Ok (str_eqb (an_scripttype m) n_v4plus) else Ok false) =
               Ok (is_v4plus d)) by (unfold is_v4plus; destruct (ad_meta d); reflexivity).
  rewrite Ev. cbn [bind]. rewrite events_bytes_c_ok.
  destruct (ad_styles d) as [|kv sr] eqn:Es; [reflexivity|].
  change (Nat.ltb 0 (length (kv :: sr))) with true. cbv iota. rewrite styles_bytes_c_ok. reflexivity.
Qed.
(* THE CHECKED WRITER AGREES WITH THE WRITER OF THE FIDELITY THEOREMS *)
Theorem write_ssa_c_ok d order : write_ssa_c d order = write_ssa d order.
Proof. unfold write_ssa_c, write_ssa. rewrite write_ssa_chunks_c_ok. destruct (write_ssa_chunks d order); reflexivity. Qed.

(* ---------------------------------------------------------------- totality, now with content: no panic site of ssa.go is reachable *)
Theorem read_ssa_lines_c_no_panic o ls e p : read_ssa_lines_c o ls e <> Panic p.
Proof. rewrite read_ssa_lines_c_ok. apply read_no_panic. Qed.
Theorem read_ssa_c_no_panic o data p : read_ssa_c o data <> Panic p.
Proof. apply read_ssa_lines_c_no_panic. Qed.
Theorem write_ssa_c_no_panic d order p : write_ssa_c d order <> Panic p.
Proof. rewrite write_ssa_c_ok. apply write_no_panic. Qed.
Theorem style_from_string_c_no_panic content fmt p : style_from_string_c content fmt <> Panic p.
Proof. rewrite style_from_string_c_ok. apply style_from_string_no_panic. Qed.
Theorem event_from_string_c_no_panic header content fmt p : fmt <> [] -> event_from_string_c header content fmt <> Panic p.
Proof. intros H. rewrite event_from_string_c_ok by exact H. apply event_from_string_no_panic. exact H. Qed.

(* ---- nil elements inside Items: skipped (nonNilItems), which is the guard of *i ---- *)
Theorem write_ssa_items_c_no_panic items d order p : write_ssa_items_c items d order <> Panic p.
Proof. apply write_ssa_c_no_panic. Qed.
Theorem ssa_nil_items_skipped (l : list aitem) (a b : list (option aitem)) d order :
  write_ssa_items_c (map Some l) d order = write_ssa_c (mkAdoc (ad_meta d) (ad_styles d) l) order /\
  write_ssa_items_c (a ++ None :: b) d order = write_ssa_items_c (a ++ b) d order.
Proof.
  unfold write_ssa_items_c. split; [rewrite somes_map_Some; reflexivity|]. rewrite !somes_app. reflexivity.
Qed.

(* ---- the guards are what keeps the sites unreachable: the same steps without their guard do panic ---- *)
Definition opts_nil : ssa_opts := mkSsaOpts None None.
(* a nil OnInvalidLine called without the test of L197, on the line "no colon here" in the script info section *)
Example unguarded_invalid_callback_panics :
  ssa_kv_h (deref (so_invalid opts_nil) 198) (mkAcstate SInfo None ainfo0 [] []) (s2l "no colon here"%string) = Panic 198 /\
  ssa_kv_h (on_invalid_c opts_nil) (mkAcstate SInfo None ainfo0 [] []) (s2l "no colon here"%string) = Ok (mkAcstate SInfo None ainfo0 [] []).
Proof. split; vm_compute; reflexivity. Qed.
Example unguarded_invalid_callback_panics_doc :
  read_ssa_lines_h (on_unknown_c opts_nil) (deref (so_invalid opts_nil) 198) [s2l "[Script Info]"%string; s2l "no colon here"%string] false = Panic 198 /\
  read_ssa_lines_h (deref (so_unknown opts_nil) 176) (on_invalid_c opts_nil) [s2l "[Fonts]"%string] false = Panic 176 /\
  exists d, read_ssa_lines_c opts_nil [s2l "[Script Info]"%string; s2l "no colon here"%string; s2l "[Fonts]"%string] false = Ok d.
Proof. split; [vm_compute; reflexivity|]. split; [vm_compute; reflexivity|]. eexists. vm_compute. reflexivity. Qed.
(* a Format line stored before any section header has made the map; a row decoded against an empty format *)
Example unguarded_sites_panic :
  format_store_c None [s2l "Text"%string] = Panic 216 /\
  event_from_string_c (s2l "Dialogue"%string) (s2l "x"%string) [] = Panic 977 /\
  slice_range [91] 1 (length [91] - 1) 162 = Panic 162 /\
  line_runs_c [] = Ok [mkArun [] None] /\ deref (@None str) 1112 = Panic 1112.
Proof. repeat split. Qed.
