(* SSA/ASS reader, line by line: what one step of the reader does with each kind of line the writer emits
   (section headers, comments, "key: value" lines, Format lines, rows, blank lines). *)
From Coq Require Import List ZArith NArith Bool Lia.
From Astisub Require Import Kit.Base Kit.Str Kit.Scan Model.Dur Model.Ssa.
From Astisub Require Import Proofs.VttBase Proofs.SsaFields Proofs.SsaTrim Proofs.SsaRows.
Import ListNotations.
Open Scope N_scope.

(* ---- the literal patterns of [ssa_line] as tests ---- *)
Lemma bracketed_other c r : c <> 91 -> bracketed (c :: r) = None.
Proof.
  intros H. unfold bracketed. destruct c as [|p]; [reflexivity|].
  do 7 (destruct p as [p|p|]; try reflexivity). contradiction.
Qed.
Lemma match_semicolon {A} (c : N) (r : str) (f : str -> A) (g : A) :
  c <> 59 -> match c :: r with 59 :: x => f x | _ => g end = g.
Proof.
  intros H. destruct c as [|p]; [reflexivity|].
  do 6 (destruct p as [p|p|]; try reflexivity). contradiction.
Qed.

(* the "key: value" dispatch of the reader, after the line has been cut at its first colon *)
Definition kv_dispatch (s : rstate) (header content : str) : res rstate :=
  let '(mkRstate sect fmt info sts evs) := s in
  match sect with
  | SInfo => match info_parse info header content with
             | Ok info' => Ok (mkRstate sect fmt info' sts evs)
             | Err k => Err k
             | Panic p => Panic p
             end
  | SEvents | SStyles =>
    if str_eqb header n_format then
      Ok (mkRstate sect (overlay (map trim_space (split_byte comma content)) fmt) info sts evs)
    else
      match fmt with
      | [] => Err EParse
      | _ =>
        match sect with
        | SEvents => match event_from_string header content fmt with
                     | Ok e => Ok (mkRstate sect fmt info sts (evs ++ [e]))
                     | Err k => Err k
                     | Panic p => Panic p
                     end
        | _ => match style_from_string content fmt with
               | Ok st => Ok (mkRstate sect fmt info (sts ++ [st]) evs)
               | Err k => Err k
               | Panic p => Panic p
               end
        end
      end
  | _ => Ok s
  end.

(* a key the writer emits: starts with a plain byte other than '[' and ';', has no colon, is left alone by trimming *)
Definition hdr_ok (name : str) : Prop :=
  match name with c :: _ => plain_byte c = true /\ c <> 91 /\ c <> 59 | [] => False end /\
  ~ In 58 name /\ trim_space name = name.

(* [ssa_line] on a line that is neither a section header nor a comment *)
Definition ssa_line_kv (s : rstate) (line : str) : res rstate :=
  match split_byte 58 line with
  | h :: ((_ :: _) as rest) =>
    match h with
    | [] => Ok s
    | _ => kv_dispatch s (trim_space h) (trim_space (join [58] rest))
    end
  | _ => Ok s
  end.
Lemma ssa_line_plain s c r : c <> 91 -> c <> 59 -> rs_sect s <> SUnknown -> ssa_line s (c :: r) = ssa_line_kv s (c :: r).
Proof.
  intros H91 H59 Hs. unfold ssa_line, ssa_line_kv, kv_dispatch. destruct s as [sect fmt info sts evs]. cbn [rs_sect] in Hs.
  rewrite (bracketed_other c r H91).
  destruct sect; try contradiction;
    (destruct c as [|p]; [reflexivity|]; do 6 (destruct p as [p|p|]; try reflexivity); contradiction).
Qed.

Lemma kv_step s name v : hdr_ok name -> v <> [] -> trim_space v = v -> rs_sect s <> SUnknown ->
  ssa_step s false (name ++ colon_sp ++ v) = kv_dispatch s name v.
Proof.
  intros (Hhd & Hnc & Htn) Hv Htv Hsect. unfold ssa_step, colon_sp.
  destruct name as [|c nm]; [contradiction|]. destruct Hhd as (Hp & H91 & H59).
  assert (Et : trim_space ((c :: nm) ++ [58; 32] ++ v) = (c :: nm) ++ [58; 32] ++ v).
  { replace ((c :: nm) ++ [58; 32] ++ v) with (((c :: nm) ++ [58]) ++ 32 :: v) by (rewrite <- app_assoc; reflexivity).
    apply trim_space_shielded; [destruct nm; discriminate | exact Hp | reflexivity | exact Hv | exact Htv]. }
  rewrite Et. cbn [app]. rewrite (ssa_line_plain s c _ H91 H59 Hsect). unfold ssa_line_kv.
  change (c :: nm ++ 58 :: 32 :: v) with ((c :: nm) ++ 58 :: 32 :: v).
  rewrite (split_byte_app 58 (c :: nm) (32 :: v) Hnc).
  pose proof (split_byte_nonnil 58 (32 :: v)) as Hnn.
  pose proof (join_split_byte 58 (32 :: v)) as Hj.
  destruct (split_byte 58 (32 :: v)) as [|r0 rr]; [contradiction|].
  rewrite Hj, Htn, trim_space_sp_head, Htv. reflexivity.
Qed.

Lemma comment_step s c : trim_space c = c -> rs_sect s <> SUnknown ->
  ssa_step s false (59 :: 32 :: c) =
  Ok (mkRstate (rs_sect s) (rs_fmt s) (add_comment c (rs_info s)) (rs_styles s) (rs_events s)).
Proof.
  intros Htc Hsect. unfold ssa_step. destruct s as [sect fmt info sts evs]. cbn [rs_sect rs_fmt rs_info rs_styles rs_events] in *.
  destruct c as [|c0 c'].
  - change (trim_space [59; 32]) with [59]. unfold ssa_line. cbn [bracketed]. destruct sect; try reflexivity. contradiction.
  - assert (Et : trim_space (59 :: 32 :: c0 :: c') = 59 :: 32 :: c0 :: c').
    { change (59 :: 32 :: c0 :: c') with ([59] ++ 32 :: c0 :: c').
      apply trim_space_shielded; [discriminate | reflexivity | reflexivity | discriminate | exact Htc]. }
    rewrite Et. unfold ssa_line. cbn [bracketed]. rewrite trim_space_sp_head, Htc.
    destruct sect; try reflexivity. contradiction.
Qed.

Lemma blank_step s first : ssa_step s first [] = Ok s.
Proof. destruct first; reflexivity. Qed.

(* the section headers the writer emits *)
Lemma info_hdr_step s first :
  ssa_step s first n_script_info_hdr = Ok (mkRstate SInfo (rs_fmt s) (rs_info s) (rs_styles s) (rs_events s)).
Proof. destruct s, first; reflexivity. Qed.
Lemma styles_hdr_step s (v4p : bool) :
  ssa_step s false (if v4p then n_styles_hdr_v4p else n_styles_hdr_v4) =
  Ok (mkRstate SStyles [] (rs_info s) (rs_styles s) (rs_events s)).
Proof. destruct s, v4p; reflexivity. Qed.
Lemma events_hdr_step s :
  ssa_step s false n_events_hdr = Ok (mkRstate SEvents [] (rs_info s) (rs_styles s) (rs_events s)).
Proof. destruct s; reflexivity. Qed.

(* ---- Format lines ---- *)
Lemma join_comma_sp n rest : join comma_sp (n :: rest) = join [44] (n :: map (cons 32) rest).
Proof.
  revert n. induction rest as [|m r IH]; intros n; [reflexivity|].
  change (join comma_sp (n :: m :: r)) with (n ++ [44; 32] ++ join comma_sp (m :: r)).
  rewrite IH. cbn [map].
  change (join [44] (n :: (32 :: m) :: map (cons 32) r)) with (n ++ [44] ++ join [44] ((32 :: m) :: map (cons 32) r)).
  replace (join [44] ((32 :: m) :: map (cons 32) r)) with (32 :: join [44] (m :: map (cons 32) r))
    by (destruct (map (cons 32) r); reflexivity).
  reflexivity.
Qed.
Lemma format_line_names names : names <> [] -> Forall cell_clean names ->
  map trim_space (split_byte 44 (join comma_sp names)) = names.
Proof.
  intros Hne HF. destruct names as [|n rest]; [contradiction|]. rewrite join_comma_sp.
  inversion HF as [|? ? Hn Hrest]; subst.
  rewrite split_byte_join.
  - cbn [map]. rewrite (cell_clean_trim n Hn). f_equal.
    induction rest as [|m r IH]; [reflexivity|]. inversion Hrest as [|? ? Hm Hr]; subst. cbn [map].
    rewrite trim_space_sp_head, (cell_clean_trim m Hm). f_equal. apply IH; [discriminate | constructor; assumption | exact Hr].
  - discriminate.
  - constructor; [apply cell_clean_nocomma; exact Hn|]. apply Forall_forall. intros w Hw. apply in_map_iff in Hw.
    destruct Hw as (m & <- & Hm). rewrite Forall_forall in Hrest. specialize (Hrest m Hm).
    intros [Hc|Hc]; [discriminate | exact (cell_clean_nocomma m Hrest Hc)].
Qed.

Lemma join_last_split sep l : l <> [] -> exists P, join sep l = P ++ last l [].
Proof.
  induction l as [|x r IH]; intros Hne; [contradiction|]. destruct r as [|y r'].
  - exists []. reflexivity.
  - destruct IH as (P & HP); [discriminate|]. exists (x ++ sep ++ P).
    change (join sep (x :: y :: r')) with (x ++ sep ++ join sep (y :: r')). rewrite HP, <- !app_assoc. reflexivity.
Qed.
Lemma cell_clean_hd_plain n : cell_clean n -> n <> [] -> plain_byte (hd 0 n) = true.
Proof.
  intros H Hne. destruct n as [|c r]; [contradiction|]. cbn [hd]. unfold cell_clean in H. cbn [forallb] in H.
  apply andb_true_iff in H. destruct H as [H _]. unfold cellb in H. apply andb_true_iff in H. destruct H as [H _].
  apply andb_true_iff in H. tauto.
Qed.
Lemma cell_clean_right_fixed P n : cell_clean n -> n <> [] -> right_fixed (P ++ n).
Proof.
  intros H Hne. destruct (@exists_last _ n Hne) as (q & x & ->). rewrite app_assoc. apply right_fixed_plain.
  unfold cell_clean in H. rewrite forallb_app in H. apply andb_true_iff in H. destruct H as [_ H]. cbn [forallb] in H.
  apply andb_true_iff in H. destruct H as [H _]. unfold cellb in H. apply andb_true_iff in H. destruct H as [H _].
  apply andb_true_iff in H. tauto.
Qed.
(* a Format value: names joined by ", " -- non-empty, left alone by trimming, without line break *)
Lemma format_value_ok names : names <> [] -> Forall (fun n => cell_clean n /\ n <> []) names ->
  join comma_sp names <> [] /\ trim_space (join comma_sp names) = join comma_sp names /\
  forallb (fun c => negb (is_brk c)) (join comma_sp names) = true.
Proof.
  intros Hne HF. destruct names as [|n rest]; [contradiction|].
  inversion HF as [|? ? [Hn Hnn] Hrest]; subst.
  assert (Hhd : exists c t, join comma_sp (n :: rest) = c :: t /\ plain_byte c = true).
  { destruct n as [|c n']; [contradiction|]. pose proof (cell_clean_hd_plain (c :: n') Hn Hnn) as Hp. cbn [hd] in Hp.
    destruct rest as [|m r].
    - exists c, n'. split; [reflexivity | exact Hp].
    - exists c, (n' ++ comma_sp ++ join comma_sp (m :: r)). split; [reflexivity | exact Hp]. }
  destruct Hhd as (c & t & Ej & Hc).
  split; [rewrite Ej; discriminate|]. split.
  - apply fixed_trim.
    + rewrite Ej. apply left_fixed_plain. exact Hc.
    + destruct (join_last_split comma_sp (n :: rest)) as (P & HP); [discriminate|]. rewrite HP.
      assert (Hl : cell_clean (last (n :: rest) []) /\ last (n :: rest) [] <> []).
      { rewrite Forall_forall in HF. apply HF. clear. revert n. induction rest as [|m r IH]; intros n; [left; reflexivity|].
        right. apply IH. }
      apply cell_clean_right_fixed; tauto.
  - apply forallb_forall. intros b Hb. apply in_join in Hb. destruct Hb as [Hb|(w & Hw & Hb)].
    + destruct Hb as [<-|[<-|[]]]; reflexivity.
    + rewrite Forall_forall in HF. destruct (HF w Hw) as [Hcw _]. pose proof (cell_clean_nobrk w Hcw) as Hnb.
      rewrite forallb_forall in Hnb. apply Hnb. exact Hb.
Qed.
