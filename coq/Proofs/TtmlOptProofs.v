(* Optimize on the TTML document value (Model/TtmlOpt.v): a style / a region is kept iff it is reachable;
   the optimized value is still representable for the writer and reads back with the same cues.
   Port of Proofs/OptimizeProofs.v to string identifiers, connected with Proofs/TtmlDocSpec.v and
   Proofs/TtmlBytes.v. *)
From Coq Require Import List ZArith NArith Bool Lia Arith Sorted.
From Astisub Require Import Kit.Base Kit.Str Kit.Xml Kit.XmlParse Kit.SortOrd Model.Dur Model.Ttml Model.TtmlOpt
  Proofs.TtmlSpec Proofs.TtmlDocSpec Proofs.TtmlBytes.
Import ListNotations.

Definition topt_find (ss : list (str * tstyle)) (id : str) : option (str * tstyle) :=
  find (fun kv => str_eqb (ts_id (snd kv)) id) ss.
Definition topt_parent_of (ss : list (str * tstyle)) (c p : str) : Prop :=
  exists kv, topt_find ss c = Some kv /\ ts_ref (snd kv) = Some p.
(* reachability from the root identifiers through style inheritance *)
Inductive topt_reach (ss : list (str * tstyle)) (roots : list str) : str -> Prop :=
| topt_reach_root id : In id roots -> topt_reach ss roots id
| topt_reach_parent c p : topt_reach ss roots c -> topt_parent_of ss c p -> topt_reach ss roots p.
Definition topt_reach_style (d : tdoc) (id : str) : Prop := topt_reach (td_styles d) (topt_roots d) id.

(* ---- membership ---- *)
Lemma topt_mem_In k l : topt_mem k l = true <-> In k l.
Proof.
  unfold topt_mem. rewrite existsb_exists. split.
  - intros (x & Hx & E). apply str_eqb_eq in E. subst. exact Hx.
  - intros H. exists k. split; [exact H | apply str_eqb_refl].
Qed.

Lemma topt_mem_cons h id used : topt_mem h (id :: used) = str_eqb h id || topt_mem h used.
Proof. reflexivity. Qed.

Lemma in_topt_list o k : In k (topt_list o) <-> o = Some k.
Proof.
  destruct o as [x|]; cbn [topt_list In]; split.
  - intros [->|[]]. reflexivity.
  - intros E. inversion E. left. reflexivity.
  - intros [].
  - discriminate.
Qed.

(* ---- the marking ---- *)
Section TMarking.
  Variable ss : list (str * tstyle).

  Definition topt_have : list str := map (fun kv => ts_id (snd kv)) ss.
  Definition topt_unmarked (used : list str) : nat :=
    length (filter (fun h => negb (topt_mem h used)) topt_have).

  Lemma topt_find_have id kv : topt_find ss id = Some kv -> In id topt_have.
  Proof.
    unfold topt_find, topt_have. intros H. apply find_some in H. destruct H as [Hin E]. apply str_eqb_eq in E.
    subst. apply (in_map (fun kv => ts_id (snd kv))). exact Hin.
  Qed.

  Lemma topt_unmarked_cons_le id used (l : list str) :
    (length (filter (fun h => negb (topt_mem h (id :: used))) l)
     <= length (filter (fun h => negb (topt_mem h used)) l))%nat.
  Proof.
    induction l as [|a l IHl]; [reflexivity|]. cbn [filter]. rewrite topt_mem_cons.
    destruct (str_eqb a id); cbn [orb negb].
    - destruct (negb (topt_mem a used)); cbn [length]; lia.
    - destruct (negb (topt_mem a used)); cbn [length]; lia.
  Qed.

  Lemma topt_unmarked_decr_list id used (l : list str) :
    In id l -> topt_mem id used = false ->
    (length (filter (fun h => negb (topt_mem h (id :: used))) l)
     < length (filter (fun h => negb (topt_mem h used)) l))%nat.
  Proof.
    induction l as [|h r IH]; intros Hin Hn; [destruct Hin|].
    cbn [filter]. rewrite topt_mem_cons. pose proof (topt_unmarked_cons_le id used r) as Hle.
    destruct Hin as [->|Hin].
    - rewrite Hn, str_eqb_refl. cbn [orb negb length]. lia.
    - specialize (IH Hin Hn). destruct (str_eqb h id) eqn:E.
      + apply str_eqb_eq in E. subst h. rewrite Hn. cbn [orb negb length]. lia.
      + cbn [orb]. destruct (negb (topt_mem h used)); cbn [length]; lia.
  Qed.

  Lemma topt_unmarked_decr id used :
    In id topt_have -> topt_mem id used = false -> (topt_unmarked (id :: used) < topt_unmarked used)%nat.
  Proof. unfold topt_unmarked. apply topt_unmarked_decr_list. Qed.

  Lemma topt_unmarked_le used : (topt_unmarked used <= length ss)%nat.
  Proof.
    unfold topt_unmarked, topt_have. etransitivity; [apply filter_length_le|]. rewrite map_length. reflexivity.
  Qed.

  (* the walk up one parent chain *)
  Lemma topt_mark_chain_spec : forall fuel id used,
    (topt_unmarked used < fuel)%nat ->
    (forall c p, In c used -> topt_parent_of ss c p -> In p used \/ p = id) ->
    let res := topt_mark_chain fuel ss id used in
    (forall c p, In c res -> topt_parent_of ss c p -> In p res) /\
    In id res /\ incl used res /\
    (forall z, In z res -> In z used \/ topt_reach ss [id] z).
  Proof.
    induction fuel as [|k IH]; intros id used Hfuel Hpre; [lia|].
    cbn [topt_mark_chain]. destruct (topt_mem id used) eqn:Hm.
    - apply topt_mem_In in Hm. cbn zeta. repeat split.
      + intros c p Hc Hp. destruct (Hpre c p Hc Hp) as [H| ->]; assumption.
      + exact Hm.
      + apply incl_refl.
      + intros z Hz. left. exact Hz.
    - fold (topt_find ss id). destruct (topt_find ss id) as [kv|] eqn:Hf.
      + destruct (ts_ref (snd kv)) as [q|] eqn:Hq.
        * assert (Hfuel' : (topt_unmarked (id :: used) < k)%nat).
          { pose proof (topt_unmarked_decr id used (topt_find_have id kv Hf) Hm). lia. }
          assert (Hpre' : forall c p, In c (id :: used) -> topt_parent_of ss c p -> In p (id :: used) \/ p = q).
          { intros c p [<-|Hc] Hp.
            - destruct Hp as (kv' & E1 & E2). rewrite Hf in E1. inversion E1; subst kv'. rewrite Hq in E2.
              inversion E2. right. reflexivity.
            - destruct (Hpre c p Hc Hp) as [H| ->]; left; [right; exact H | left; reflexivity]. }
          specialize (IH q (id :: used) Hfuel' Hpre'). cbn zeta in IH. destruct IH as (C & Iq & Inc & R).
          cbn zeta. repeat split.
          -- exact C.
          -- apply Inc. left. reflexivity.
          -- intros z Hz. apply Inc. right. exact Hz.
          -- intros z Hz. destruct (R z Hz) as [[<-|Hu]|Hr].
             ++ right. apply topt_reach_root. left. reflexivity.
             ++ left. exact Hu.
             ++ right. clear - Hr Hf Hq. induction Hr as [z Hz|c p Hc IHc Hp].
                ** destruct Hz as [<-|[]].
                   apply (topt_reach_parent ss [id] id q); [apply topt_reach_root; left; reflexivity|].
                   exists kv. split; assumption.
                ** apply (topt_reach_parent ss [id] c p); assumption.
        * cbn zeta. repeat split.
          -- intros c p [<-|Hc] Hp.
             ++ destruct Hp as (kv' & E1 & E2). rewrite Hf in E1. inversion E1; subst kv'. rewrite Hq in E2.
                discriminate.
             ++ destruct (Hpre c p Hc Hp) as [H| ->]; [right; exact H | left; reflexivity].
          -- left. reflexivity.
          -- intros z Hz. right. exact Hz.
          -- intros z [<-|Hz]; [right; apply topt_reach_root; left; reflexivity | left; exact Hz].
      + cbn zeta. repeat split.
        * intros c p [<-|Hc] Hp.
          -- destruct Hp as (kv' & E1 & _). rewrite Hf in E1. discriminate.
          -- destruct (Hpre c p Hc Hp) as [H| ->]; [right; exact H | left; reflexivity].
        * left. reflexivity.
        * intros z Hz. right. exact Hz.
        * intros z [<-|Hz]; [right; apply topt_reach_root; left; reflexivity | left; exact Hz].
  Qed.

  Lemma topt_reach_mono roots roots' id : incl roots roots' -> topt_reach ss roots id -> topt_reach ss roots' id.
  Proof.
    intros Hi H. induction H as [z Hz|c p Hc IH Hp];
      [apply topt_reach_root; auto | eapply topt_reach_parent; eassumption].
  Qed.

  Lemma topt_mark_fold_spec : forall roots used done,
    (forall c p, In c used -> topt_parent_of ss c p -> In p used) ->
    (forall z, In z used -> topt_reach ss done z) ->
    incl done used ->
    let res := fold_left (fun used id => topt_mark_chain (S (length ss)) ss id used) roots used in
    (forall c p, In c res -> topt_parent_of ss c p -> In p res) /\
    (forall z, In z res -> topt_reach ss (done ++ roots) z) /\
    incl (done ++ roots) res.
  Proof.
    induction roots as [|r rs IH]; intros used done Hc Hr Hd; cbn [fold_left].
    - cbn zeta. rewrite app_nil_r. repeat split; assumption.
    - pose proof (topt_mark_chain_spec (S (length ss)) r used ltac:(pose proof (topt_unmarked_le used); lia)
                    (fun c p Hc' Hp => or_introl (Hc c p Hc' Hp))) as M.
      cbn zeta in M. destruct M as (C & Ir & Inc & R).
      specialize (IH (topt_mark_chain (S (length ss)) ss r used) (done ++ [r]) C).
      assert (Hr' : forall z, In z (topt_mark_chain (S (length ss)) ss r used) -> topt_reach ss (done ++ [r]) z).
      { intros z Hz. destruct (R z Hz) as [Hu|Hz'].
        - eapply topt_reach_mono; [|apply Hr; exact Hu]. intros a Ha. apply in_or_app. left. exact Ha.
        - eapply topt_reach_mono; [|exact Hz']. intros a Ha. apply in_or_app. right. exact Ha. }
      assert (Hd' : incl (done ++ [r]) (topt_mark_chain (S (length ss)) ss r used)).
      { intros a Ha. apply in_app_or in Ha. destruct Ha as [Ha|[<-|[]]]; [apply Inc, Hd, Ha | exact Ir]. }
      specialize (IH Hr' Hd'). cbn zeta in IH. rewrite <- app_assoc in IH. exact IH.
  Qed.

  (* the marking computes exactly the reachable identifiers *)
  Theorem topt_mark_all_reach_sec roots id : In id (topt_mark_all ss roots) <-> topt_reach ss roots id.
  Proof.
    unfold topt_mark_all.
    pose proof (topt_mark_fold_spec roots [] [] ltac:(intros c p []) ltac:(intros z []) ltac:(intros a [])) as M.
    cbn zeta in M. cbn [app] in M. destruct M as (C & R & I). split.
    - apply R.
    - intros H. induction H as [z Hz|c p Hc IH Hp]; [apply I; exact Hz | eapply C; eassumption].
  Qed.
End TMarking.

Theorem topt_mark_all_reach : forall ss roots id, In id (topt_mark_all ss roots) <-> topt_reach ss roots id.
Proof. exact topt_mark_all_reach_sec. Qed.

(* ---- Optimize: what is kept ---- *)
Lemma ttml_optimize_empty d : td_items d = [] -> ttml_optimize d = d.
Proof. intros E. unfold ttml_optimize. rewrite E. reflexivity. Qed.

Lemma ttml_optimize_nonempty d : td_items d <> [] ->
  ttml_optimize d =
  mkDoc (td_meta d)
        (filter (fun kv => topt_mem (ts_id (snd kv)) (topt_mark_all (td_styles d) (topt_roots d))) (td_styles d))
        (filter (fun kv => topt_mem (ts_id (snd kv)) (topt_used_regions (td_items d))) (td_regions d))
        (td_items d).
Proof. intros Hne. unfold ttml_optimize. destruct (td_items d) as [|x r] eqn:E; [contradiction|]. reflexivity. Qed.

Theorem ttml_optimize_styles_exact : forall d kv, td_items d <> [] ->
  In kv (td_styles (ttml_optimize d)) <-> In kv (td_styles d) /\ topt_reach_style d (ts_id (snd kv)).
Proof.
  intros d kv Hne. rewrite (ttml_optimize_nonempty d Hne). cbn [td_styles]. unfold topt_reach_style.
  rewrite filter_In, topt_mem_In, topt_mark_all_reach. reflexivity.
Qed.

Theorem ttml_optimize_regions_exact : forall d kv, td_items d <> [] ->
  In kv (td_regions (ttml_optimize d)) <->
  In kv (td_regions d) /\ In (ts_id (snd kv)) (topt_used_regions (td_items d)).
Proof.
  intros d kv Hne. rewrite (ttml_optimize_nonempty d Hne). cbn [td_regions].
  rewrite filter_In, topt_mem_In. reflexivity.
Qed.

Theorem ttml_optimize_items : forall d, td_items (ttml_optimize d) = td_items d.
Proof. intros d. unfold ttml_optimize. destruct (td_items d) eqn:E; [exact E | reflexivity]. Qed.

Theorem ttml_optimize_meta : forall d, td_meta (ttml_optimize d) = td_meta d.
Proof. intros d. unfold ttml_optimize. destruct (td_items d) eqn:E; reflexivity. Qed.

(* ---- idempotence ---- *)
Lemma topt_find_filter {A} (p q : A -> bool) l x :
  find p l = Some x -> q x = true -> find p (filter q l) = Some x.
Proof.
  induction l as [|a r IH]; intros H Hq; [discriminate|]. cbn [find] in H. cbn [filter].
  destruct (p a) eqn:Ep.
  - inversion H; subst. rewrite Hq. cbn [find]. rewrite Ep. reflexivity.
  - destruct (q a); [cbn [find]; rewrite Ep|]; apply IH; assumption.
Qed.

Lemma topt_region_styles_filter ur rs :
  topt_region_styles ur (filter (fun kv => topt_mem (ts_id (snd kv)) ur) rs) = topt_region_styles ur rs.
Proof.
  unfold topt_region_styles. induction rs as [|a r IH]; [reflexivity|]. cbn [filter flat_map].
  destruct (topt_mem (ts_id (snd a)) ur) eqn:E; cbn [flat_map]; rewrite ?E, IH; reflexivity.
Qed.

Theorem ttml_optimize_idempotent : forall d, ttml_optimize (ttml_optimize d) = ttml_optimize d.
Proof.
  intros d. destruct (td_items d) as [|x0 r0] eqn:E0.
  { rewrite (ttml_optimize_empty d E0). apply ttml_optimize_empty. exact E0. }
  assert (Hne : td_items d <> []) by (rewrite E0; discriminate).
  assert (Hne' : td_items (ttml_optimize d) <> []) by (rewrite ttml_optimize_items; exact Hne).
  rewrite (ttml_optimize_nonempty (ttml_optimize d) Hne').
  unfold topt_roots. rewrite (ttml_optimize_nonempty d Hne). cbn [td_meta td_styles td_regions td_items].
  rewrite topt_region_styles_filter.
  fold (topt_roots d).
  set (ur := topt_used_regions (td_items d)).
  set (roots := topt_roots d).
  set (ss := td_styles d).
  set (us := topt_mark_all ss roots).
  set (ss' := filter (fun kv => topt_mem (ts_id (snd kv)) us) ss).
  f_equal.
  - apply filter_all. apply forallb_forall. intros kv Hkv.
    apply topt_mem_In. apply topt_mark_all_reach.
    assert (Hr : topt_reach ss roots (ts_id (snd kv))).
    { unfold ss' in Hkv. apply filter_In in Hkv. destruct Hkv as [_ H2]. apply topt_mem_In in H2.
      apply topt_mark_all_reach in H2. exact H2. }
    (* reachability in ss transfers to ss' *)
    induction Hr as [z Hz|c p Hc IH Hp]; [apply topt_reach_root; exact Hz|].
    eapply topt_reach_parent; [apply IH|].
    destruct Hp as (kv' & F & P). exists kv'. split; [|exact P].
    unfold topt_find, ss'. apply topt_find_filter; [exact F|].
    apply topt_mem_In. apply topt_mark_all_reach. apply find_some in F. destruct F as [_ F].
    apply str_eqb_eq in F. rewrite F. exact Hc.
  - apply filter_idem.
Qed.

(* ---- canonical maps: sorted keys survive filtering ---- *)
Definition slt (a b : str) : Prop := sleb a b = true /\ a <> b.

Lemma slt_trans a b c : slt a b -> slt b c -> slt a c.
Proof.
  intros [H1 N1] [H2 N2]. split; [eapply sleb_trans; eassumption|].
  intros E. subst c. apply N1. apply sleb_antisym; assumption.
Qed.

Lemma keys_increasing_sorted ks : keys_increasing ks = true <-> StronglySorted slt ks.
Proof.
  induction ks as [|a r IH]; [split; [constructor | reflexivity]|].
  destruct r as [|b r'].
  - split; [intros _; repeat constructor | reflexivity].
  - change (keys_increasing (a :: b :: r'))
      with (sleb a b && negb (str_eqb a b) && keys_increasing (b :: r')).
    rewrite !andb_true_iff, negb_true_iff. split.
    + intros [[H1 H2] H3]. apply IH in H3.
      assert (Hab : slt a b).
      { split; [exact H1|]. intros E. apply str_eqb_eq in E. rewrite E in H2. discriminate. }
      constructor; [exact H3|]. constructor; [exact Hab|].
      apply StronglySorted_inv in H3. destruct H3 as [_ Hb].
      rewrite Forall_forall in *. intros z Hz. eapply slt_trans; [exact Hab | apply Hb; exact Hz].
    + intros H. apply StronglySorted_inv in H. destruct H as [Hs Hf].
      apply Forall_inv in Hf. destruct Hf as [H1 H2]. repeat split.
      * exact H1.
      * destruct (str_eqb a b) eqn:E; [|reflexivity]. apply str_eqb_eq in E. contradiction.
      * apply IH. exact Hs.
Qed.

Lemma sorted_map_filter {A B} (R : B -> B -> Prop) (g : A -> B) (f : A -> bool) l :
  StronglySorted R (map g l) -> StronglySorted R (map g (filter f l)).
Proof.
  induction l as [|a r IH]; intros H; [constructor|]. cbn [map] in H.
  apply StronglySorted_inv in H. destruct H as [Hs Hf]. cbn [filter].
  destruct (f a); [|apply IH; exact Hs]. cbn [map]. constructor; [apply IH; exact Hs|].
  rewrite Forall_forall in *. intros z Hz. apply Hf. apply in_map_iff in Hz. destruct Hz as (x & Hx & Hin).
  apply filter_In in Hin. rewrite <- Hx. apply in_map. tauto.
Qed.

Lemma sorted_nodup ks : StronglySorted slt ks -> NoDup ks.
Proof.
  induction ks as [|a r IH]; intros H; [constructor|]. apply StronglySorted_inv in H. destruct H as [Hs Hf].
  constructor; [|apply IH; exact Hs]. intros Hin. rewrite Forall_forall in Hf. destruct (Hf a Hin) as [_ Hn].
  apply Hn. reflexivity.
Qed.

Lemma forallb_filter {A} (p f : A -> bool) l : forallb p l = true -> forallb p (filter f l) = true.
Proof.
  intros H. rewrite forallb_forall in *. intros x Hx. apply filter_In in Hx. apply H. tauto.
Qed.

Lemma map_ok_filter f m : map_ok m = true -> map_ok (filter f m) = true.
Proof.
  unfold map_ok. rewrite !andb_true_iff. intros [H1 H2]. split.
  - apply keys_increasing_sorted. apply sorted_map_filter. apply keys_increasing_sorted. exact H1.
  - apply forallb_filter. exact H2.
Qed.

Lemma map_ok_key m kv : map_ok m = true -> In kv m -> fst kv = ts_id (snd kv).
Proof.
  unfold map_ok. rewrite andb_true_iff. intros [_ H] Hin. rewrite forallb_forall in H.
  apply str_eqb_eq. apply H. exact Hin.
Qed.

Lemma map_ok_nodup_ids m : map_ok m = true -> NoDup (map (fun kv => ts_id (snd kv)) m).
Proof.
  intros H. assert (E : map (fun kv => ts_id (snd kv)) m = map fst m).
  { apply map_ext_in. intros kv Hin. symmetry. apply (map_ok_key m kv H Hin). }
  rewrite E. apply sorted_nodup. apply keys_increasing_sorted.
  unfold map_ok in H. apply andb_true_iff in H. tauto.
Qed.

Lemma topt_find_unique (ss : list (str * tstyle)) kv :
  NoDup (map (fun kv => ts_id (snd kv)) ss) -> In kv ss -> topt_find ss (ts_id (snd kv)) = Some kv.
Proof.
  unfold topt_find. induction ss as [|a r IH]; intros Hnd Hin; [destruct Hin|].
  cbn [map] in Hnd. inversion Hnd as [|? ? Hna Hr]; subst. cbn [find].
  destruct Hin as [->|Hin]; [rewrite str_eqb_refl; reflexivity|].
  destruct (str_eqb (ts_id (snd a)) (ts_id (snd kv))) eqn:E; [|apply IH; assumption].
  apply str_eqb_eq in E. exfalso. apply Hna. rewrite E. apply (in_map (fun kv => ts_id (snd kv))). exact Hin.
Qed.

(* under [map_ok], looking a style up by its identifier returns the entry itself *)
Lemma topt_find_in m kv : map_ok m = true -> In kv m -> topt_find m (ts_id (snd kv)) = Some kv.
Proof. intros H Hin. apply topt_find_unique; [apply map_ok_nodup_ids; exact H | exact Hin]. Qed.

(* ---- lookups by key ---- *)
Lemma map_get_in {V} k (m : list (str * V)) v : map_get k m = Some v -> In (k, v) m.
Proof.
  induction m as [|[k' v'] r IH]; cbn [map_get]; [discriminate|].
  destruct (str_eqb k k') eqn:E.
  - intros H. inversion H; subst. apply str_eqb_eq in E. subst. left. reflexivity.
  - intros H. right. apply IH. exact H.
Qed.

Lemma map_mem_in {V} k (m : list (str * V)) : map_mem k m = true -> exists v, In (k, v) m.
Proof.
  unfold map_mem. destruct (map_get k m) as [v|] eqn:E; [|discriminate]. intros _. exists v.
  apply map_get_in. exact E.
Qed.

Lemma in_map_mem {V} k v (m : list (str * V)) : In (k, v) m -> map_mem k m = true.
Proof.
  unfold map_mem. induction m as [|[k' v'] r IH]; intros Hin; [destruct Hin|]. cbn [map_get].
  destruct (str_eqb k k') eqn:E; [reflexivity|].
  destruct Hin as [H|H]; [|apply IH; exact H].
  inversion H; subst. rewrite str_eqb_refl in E. discriminate.
Qed.

(* a reference that resolves in [m] resolves in [m'] when its entry is kept *)
Lemma ref_in_mono {V W} (m : list (str * V)) (m' : list (str * W)) r :
  ref_in m r = true -> (forall k v, r = Some k -> In (k, v) m -> exists w, In (k, w) m') -> ref_in m' r = true.
Proof.
  destruct r as [k|]; [|reflexivity]. destruct k as [|c k]; cbn [ref_in]; [discriminate|].
  intros H Hk. apply map_mem_in in H. destruct H as [v Hv]. destruct (Hk (c :: k) v eq_refl Hv) as [w Hw].
  eapply in_map_mem. exact Hw.
Qed.

Lemma header_ok_mono (S S' : list (str * tstyle)) kv :
  header_ok S kv = true ->
  (forall p v, ts_ref (snd kv) = Some p -> In (p, v) S -> In (p, v) S') ->
  header_ok S' kv = true.
Proof.
  unfold header_ok. rewrite !andb_true_iff. intros [H1 H2] Hk. split; [|exact H2].
  eapply ref_in_mono; [exact H1|]. intros k v E Hin. exists v. apply Hk; assumption.
Qed.

Lemma run_ok_mono (S S' : list (str * tstyle)) r :
  run_ok S r = true ->
  (forall k v, tr_style r = Some k -> In (k, v) S -> In (k, v) S') ->
  run_ok S' r = true.
Proof.
  unfold run_ok. rewrite !andb_true_iff. intros [[H1 H2] H3] Hk. repeat split; [exact H1| |exact H3].
  eapply ref_in_mono; [exact H2|]. intros k v E Hin. exists v. apply Hk; assumption.
Qed.

Lemma item_ok_mono (S S' R R' : list (str * tstyle)) it :
  item_ok S R it = true ->
  (forall k v, ti_region it = Some k -> In (k, v) R -> In (k, v) R') ->
  (forall k v, In k (topt_item_styles it) -> In (k, v) S -> In (k, v) S') ->
  item_ok S' R' it = true.
Proof.
  unfold item_ok. rewrite !andb_true_iff.
  intros ((((((((H1 & H2) & H3) & H4) & H5) & H6) & H7) & H8) & H9) HR HS.
  repeat split; try assumption.
  - eapply ref_in_mono; [exact H5|]. intros k v E Hin. exists v. apply HR; assumption.
  - eapply ref_in_mono; [exact H6|]. intros k v E Hin. exists v. apply HS; [|exact Hin].
    unfold topt_item_styles. apply in_or_app. left. apply in_topt_list. exact E.
  - rewrite forallb_forall in *. intros l Hl. specialize (H9 l Hl). rewrite forallb_forall in *.
    intros r Hr. eapply run_ok_mono; [apply H9; exact Hr|].
    intros k v E Hin. apply HS; [|exact Hin].
    unfold topt_item_styles. apply in_or_app. right. apply in_flat_map. exists l. split; [exact Hl|].
    apply in_flat_map. exists r. split; [exact Hr|]. apply in_topt_list. exact E.
Qed.

Lemma in_topt_used_regions l id : In id (topt_used_regions l) <-> exists x, In x l /\ ti_region x = Some id.
Proof.
  unfold topt_used_regions. rewrite in_flat_map. split; intros (x & Hx & H); exists x; (split; [exact Hx|]).
  - apply in_topt_list. exact H.
  - apply in_topt_list. exact H.
Qed.

(* the optimized value is still representable: every reference left still resolves, maps stay canonical *)
Theorem ttml_optimize_repr : forall d, repr_doc d = true -> repr_doc (ttml_optimize d) = true.
Proof.
  intros d H. unfold repr_doc in H. rewrite !andb_true_iff in H.
  destruct H as (((((Hn & HmS) & HmR) & HhS) & HhR) & Hit).
  assert (Hne : td_items d <> []).
  { intros E. rewrite E in Hn. discriminate. }
  (* a defined, reachable style is kept; a defined, used region is kept *)
  assert (KS : forall k v, In (k, v) (td_styles d) -> topt_reach_style d k ->
                           In (k, v) (td_styles (ttml_optimize d))).
  { intros k v Hin Hr. apply (ttml_optimize_styles_exact d (k, v) Hne). split; [exact Hin|].
    pose proof (map_ok_key _ _ HmS Hin) as E. cbn [fst snd] in *. rewrite <- E. exact Hr. }
  assert (KR : forall k v, In (k, v) (td_regions d) -> In k (topt_used_regions (td_items d)) ->
                           In (k, v) (td_regions (ttml_optimize d))).
  { intros k v Hin Hr. apply (ttml_optimize_regions_exact d (k, v) Hne). split; [exact Hin|].
    pose proof (map_ok_key _ _ HmR Hin) as E. cbn [fst snd] in *. rewrite <- E. exact Hr. }
  assert (ES : td_styles (ttml_optimize d) =
               filter (fun kv => topt_mem (ts_id (snd kv)) (topt_mark_all (td_styles d) (topt_roots d))) (td_styles d))
    by (rewrite (ttml_optimize_nonempty d Hne); reflexivity).
  assert (ER : td_regions (ttml_optimize d) =
               filter (fun kv => topt_mem (ts_id (snd kv)) (topt_used_regions (td_items d))) (td_regions d))
    by (rewrite (ttml_optimize_nonempty d Hne); reflexivity).
  unfold repr_doc. rewrite !andb_true_iff. rewrite ttml_optimize_items. repeat split.
  - exact Hn.
  - rewrite ES. apply map_ok_filter. exact HmS.
  - rewrite ER. apply map_ok_filter. exact HmR.
  - apply forallb_forall. intros kv Hkv. apply (ttml_optimize_styles_exact d kv Hne) in Hkv.
    destruct Hkv as [Hin Hr]. rewrite forallb_forall in HhS.
    eapply header_ok_mono; [apply HhS; exact Hin|].
    intros p v E Hp. apply KS; [exact Hp|]. eapply topt_reach_parent; [exact Hr|].
    exists kv. split; [apply topt_find_in; assumption | exact E].
  - apply forallb_forall. intros kv Hkv. apply (ttml_optimize_regions_exact d kv Hne) in Hkv.
    destruct Hkv as [Hin Hr]. rewrite forallb_forall in HhR.
    eapply header_ok_mono; [apply HhR; exact Hin|].
    intros p v E Hp. apply KS; [exact Hp|]. apply topt_reach_root. unfold topt_roots. apply in_or_app. right.
    unfold topt_region_styles. apply in_flat_map. exists kv. split; [exact Hin|].
    apply topt_mem_In in Hr. rewrite Hr. apply in_topt_list. exact E.
  - apply forallb_forall. intros it Hi. rewrite forallb_forall in Hit.
    eapply item_ok_mono; [apply Hit; exact Hi| |].
    + intros k v E Hin. apply KR; [exact Hin|]. apply in_topt_used_regions. exists it. auto.
    + intros k v Hk Hin. apply KS; [exact Hin|]. apply topt_reach_root. unfold topt_roots. apply in_or_app. left.
      apply in_flat_map. exists it. auto.
Qed.

(* the property's statement for TTML: the optimized list can still be written, and reads back with the same cues *)
Theorem ttml_optimize_cues : forall d ind, repr_doc d = true -> indent_ok ind = true ->
  exists b t b' t',
    write_ttml_bytes ind d = Ok b /\ xml_parse b = Some t /\ read_ttml t = Ok (written_value d) /\
    write_ttml_bytes ind (ttml_optimize d) = Ok b' /\ xml_parse b' = Some t' /\
    read_ttml t' = Ok (written_value (ttml_optimize d)) /\
    td_items (written_value (ttml_optimize d)) = td_items (written_value d) /\
    td_meta (written_value (ttml_optimize d)) = td_meta (written_value d).
Proof.
  intros d ind Hr Hi.
  destruct (write_read_bytes d ind Hr Hi) as (b & t & H1 & H2 & H3).
  destruct (write_read_bytes (ttml_optimize d) ind (ttml_optimize_repr d Hr) Hi) as (b' & t' & H1' & H2' & H3').
  exists b, t, b', t'. repeat split; try assumption.
  - unfold written_value. cbn [td_items]. rewrite ttml_optimize_items. reflexivity.
  - unfold written_value. cbn [td_meta]. rewrite ttml_optimize_meta. reflexivity.
Qed.

(* ---- an example: an unused chain u -> v, a used chain a -> b -> c, a region r (used) whose style g is
   otherwise unused, an unused region s (its style u is not kept) ---- *)
Local Open Scope N_scope.
Definition topt_ex_doc : tdoc :=
  mkDoc (Some (mkMeta 25 [84] [67] [101;110]))
        [([97], mkStyle [97] (Some [98]) no_attrs); ([98], mkStyle [98] (Some [99]) no_attrs);
         ([99], mkStyle [99] None no_attrs); ([103], mkStyle [103] None no_attrs);
         ([117], mkStyle [117] (Some [118]) no_attrs); ([118], mkStyle [118] None no_attrs)]
        [([114], mkStyle [114] (Some [103]) no_attrs); ([115], mkStyle [115] (Some [117]) no_attrs)]
        [mkItem 1000000000 2000000000 (Some [114]) (Some [97]) no_attrs [[mkRun [72;105] None no_attrs]]].

Example topt_ex_doc_optimize :
  repr_doc topt_ex_doc = true /\
  map fst (td_styles (ttml_optimize topt_ex_doc)) = [[97]; [98]; [99]; [103]] /\
  map fst (td_regions (ttml_optimize topt_ex_doc)) = [[114]] /\
  repr_doc (ttml_optimize topt_ex_doc) = true /\
  ttml_optimize (ttml_optimize topt_ex_doc) = ttml_optimize topt_ex_doc.
Proof. vm_compute. repeat split. Qed.

Print Assumptions ttml_optimize_styles_exact.
Print Assumptions ttml_optimize_repr.
Print Assumptions ttml_optimize_cues.
