(* The byte-level XML parser of Kit/XmlParse.v inverts the printer of Kit/Xml.v on everything the TTML
   writer model emits: [parse_written].  Route: entity decoding inverts EscapeText ([unesc_esc]); a start
   tag printed with [print_name] is read back ([start_tag_printed]); by induction on well-formed trees
   ([wf]: the shape of every subtree the writer builds below the root) the content parser returns the tree
   with the encoder's indentation text nodes ([parse_node]); the root element, whose own xmlns attributes
   set up the name-space environment, is done by hand ([parse_root]); the written tree is well formed. *)
From Coq Require Import List ZArith NArith Bool Lia ZifyBool ZifyN ZifyNat.
From Coq Require String Ascii.
From Astisub Require Import Kit.Base Kit.Str Kit.Xml Kit.XmlParse Kit.SortOrd Model.Dur Model.Ttml
  Proofs.TtmlSpec Proofs.TtmlDocSpec Proofs.TtmlDoc.
Import ListNotations.
Open Scope N_scope.

(* ================= entity decoding ================= *)
Lemma unesc_skip q e r : unesc_aux q (length e) (e ++ r) = unesc_aux q 0 r.
Proof.
  induction e as [|c e IH]; [reflexivity|]. cbn [length app unesc_aux]. exact IH.
Qed.

Definition cons_res (c : N) (o : option (str * str)) : option (str * str) :=
  match o with Some (t, r) => Some (c :: t, r) | None => None end.

Lemma unesc_plain q c tail : is_stop q c = false -> (c =? 38) = false ->
  unesc_aux q 0 (c :: tail) = cons_res c (unesc_aux q 0 tail).
Proof. intros Hs Ha. cbn [unesc_aux]. rewrite Hs, Ha. reflexivity. Qed.

Lemma unesc_esc_byte q c tail : unesc_aux q 0 (esc_byte c ++ tail) = cons_res c (unesc_aux q 0 tail).
Proof.
  unfold esc_byte.
  destruct (c =? 34) eqn:E34; [apply N.eqb_eq in E34; subst c; destruct q; reflexivity|].
  destruct (c =? 39) eqn:E39; [apply N.eqb_eq in E39; subst c; destruct q; reflexivity|].
  destruct (c =? 38) eqn:E38; [apply N.eqb_eq in E38; subst c; destruct q; reflexivity|].
  destruct (c =? 60) eqn:E60; [apply N.eqb_eq in E60; subst c; destruct q; reflexivity|].
  destruct (c =? 62) eqn:E62; [apply N.eqb_eq in E62; subst c; destruct q; reflexivity|].
  destruct (c =? 9) eqn:E9; [apply N.eqb_eq in E9; subst c; destruct q; reflexivity|].
  destruct (c =? 10) eqn:E10; [apply N.eqb_eq in E10; subst c; destruct q; reflexivity|].
  destruct (c =? 13) eqn:E13; [apply N.eqb_eq in E13; subst c; destruct q; reflexivity|].
  cbn [app]. apply unesc_plain; [|exact E38].
  unfold is_stop. rewrite E60, E34. destruct q; reflexivity.
Qed.

(* escaping is inverted by the entity decoder, for every byte string; the reader stops at the '<' that
   follows (and, inside an attribute value, at the closing quote) *)
Theorem unesc_esc : forall q s rest,
  (match rest with c :: _ => c = 60 \/ (q = true /\ c = 34) | [] => True end) ->
  unesc q (esc_text s ++ rest) = Some (s, rest).
Proof.
  intros q s rest Hr. unfold unesc. induction s as [|c s IH].
  - cbn [esc_text flat_map app]. destruct rest as [|c r]; [reflexivity|]. cbn [unesc_aux].
    assert (Hs : is_stop q c = true).
    { unfold is_stop. destruct Hr as [->|[-> ->]]; reflexivity. }
    rewrite Hs. reflexivity.
  - unfold esc_text. cbn [flat_map]. rewrite <- app_assoc. rewrite unesc_esc_byte.
    unfold esc_text in IH. rewrite IH. reflexivity.
Qed.
(* the two uses *)
Corollary unesc_esc_value s rest : (match rest with c :: _ => c = 60 \/ c = 34 | [] => True end) ->
  unesc true (esc_text s ++ rest) = Some (s, rest).
Proof. intros H. apply unesc_esc. destruct rest as [|c r]; [exact I|]. destruct H as [H|H]; [left; exact H | right; split; [reflexivity | exact H]]. Qed.
Corollary unesc_esc_text s rest : (match rest with c :: _ => c = 60 | [] => True end) ->
  unesc false (esc_text s ++ rest) = Some (s, rest).
Proof. intros H. apply unesc_esc. destruct rest as [|c r]; [exact I|]. left. exact H. Qed.

(* raw bytes (the indentation) *)
Definition raw_byte (c : N) : bool := negb (c =? 60) && negb (c =? 34) && negb (c =? 38).
Lemma unesc_raw q w rest : forallb raw_byte w = true -> hd 0 rest = 60 ->
  unesc q (w ++ rest) = Some (w, rest).
Proof.
  intros Hw Hr. unfold unesc. induction w as [|c w IH].
  - cbn [app]. destruct rest as [|c r]; [cbn [hd] in Hr; discriminate|]. cbn [hd] in Hr. subst c. reflexivity.
  - cbn [forallb] in Hw. apply andb_true_iff in Hw. destruct Hw as [Hc Hw]. unfold raw_byte in Hc.
    apply andb_true_iff in Hc. destruct Hc as [Hc H38]. apply andb_true_iff in Hc. destruct Hc as [H60 H34].
    apply negb_true_iff in H38. apply negb_true_iff in H60. apply negb_true_iff in H34.
    cbn [app]. rewrite unesc_plain; [rewrite (IH Hw); reflexivity| |exact H38].
    unfold is_stop. rewrite H60, H34. destruct q; reflexivity.
Qed.

(* ================= names ================= *)
Lemma span_app p a r : forallb p a = true -> (match r with c :: _ => p c = false | [] => True end) ->
  span p (a ++ r) = (a, r).
Proof.
  intros Ha Hr. induction a as [|c a IH].
  - cbn [app]. destruct r as [|c r]; [reflexivity|]. cbn [span]. rewrite Hr. reflexivity.
  - cbn [forallb] in Ha. apply andb_true_iff in Ha. destruct Ha as [Hc Ha].
    cbn [app span]. rewrite Hc, (IH Ha). reflexivity.
Qed.

Lemma qsplit_plain l : forallb not_colon l = true -> l <> [] -> qsplit l = Some ([], l).
Proof.
  intros Hl Hne. unfold qsplit. rewrite <- (app_nil_r l) at 1. rewrite (span_app not_colon l [] Hl I).
  destruct l as [|c l]; [contradiction | reflexivity].
Qed.
Lemma qsplit_pref p l : forallb not_colon p = true -> p <> [] -> l <> [] -> qsplit (p ++ 58 :: l) = Some (p, l).
Proof.
  intros Hp Hpn Hln. unfold qsplit. rewrite (span_app not_colon p (58 :: l) Hp eq_refl).
  destruct p as [|c p]; [contradiction|]. destruct l as [|c' l]; [contradiction | reflexivity].
Qed.

(* a local name: non-empty, no delimiter, no colon *)
Definition lbyte (c : N) : bool := name_byte c && not_colon c.
Definition local_ok (l : str) : bool := negb (xp_null l) && forallb lbyte l.
(* the prefix and the local name [print_name] writes *)
Definition psplit (n : xname) : str * str :=
  (if str_eqb (x_space n) ns_ttm then s_ttm
   else if str_eqb (x_space n) ns_tts then s_tts
   else if str_eqb (x_space n) ns_xml then xp_xml
   else if str_eqb (x_space n) s_xmlns then s_xmlns
   else [], x_local n).

Lemma local_ok_parts l : local_ok l = true -> l <> [] /\ forallb name_byte l = true /\ forallb not_colon l = true.
Proof.
  unfold local_ok. intros H. apply andb_true_iff in H. destruct H as [Hn Hf]. split.
  - intros ->. discriminate.
  - clear Hn. induction l as [|c l IH]; [split; reflexivity|].
    cbn [forallb] in *. apply andb_true_iff in Hf. destruct Hf as [Hc Hf]. unfold lbyte in Hc.
    apply andb_true_iff in Hc. destruct Hc as [H1 H2]. destruct (IH Hf) as [I1 I2]. rewrite H1, H2, I1, I2. split; reflexivity.
Qed.

Lemma print_name_split n : local_ok (x_local n) = true ->
  qsplit (print_name n) = Some (psplit n) /\ forallb name_byte (print_name n) = true /\ print_name n <> [].
Proof.
  intros H. destruct (local_ok_parts _ H) as (Hne & Hnb & Hnc). unfold print_name, psplit.
  assert (Hp : forall p, forallb not_colon p = true -> forallb name_byte p = true -> p <> [] ->
            qsplit ((p ++ [58]) ++ x_local n) = Some (p, x_local n)
            /\ forallb name_byte ((p ++ [58]) ++ x_local n) = true /\ (p ++ [58]) ++ x_local n <> []).
  { intros p Hp1 Hp2 Hp3. rewrite <- app_assoc. cbn [app]. split; [apply qsplit_pref; assumption|]. split.
    - rewrite forallb_app. cbn [forallb]. rewrite Hp2, Hnb. reflexivity.
    - destruct p; [contradiction | discriminate]. }
  destruct (str_eqb (x_space n) ns_ttm); [apply Hp; [reflexivity | reflexivity | discriminate]|].
  destruct (str_eqb (x_space n) ns_tts); [apply Hp; [reflexivity | reflexivity | discriminate]|].
  destruct (str_eqb (x_space n) ns_xml); [apply (Hp xp_xml); [reflexivity | reflexivity | discriminate]|].
  destruct (str_eqb (x_space n) s_xmlns); [apply Hp; [reflexivity | reflexivity | discriminate]|].
  cbn [app]. split; [apply qsplit_plain; assumption|]. split; assumption.
Qed.

(* ================= start tags ================= *)
Definition aloc_ok (a : xattr) : bool := local_ok (x_local (fst a)).
Definition raw_attrs (al : list xattr) : list (str * str) := map (fun a => (print_name (fst a), snd a)) al.
Definition split_attrs (al : list xattr) : list (str * str * str) := map (fun a => (psplit (fst a), snd a)) al.

Lemma read_attrs_printed al : forall f rest, forallb aloc_ok al = true -> (length al < f)%nat ->
  read_attrs f (flat_map (print_attr print_name) al ++ 62 :: rest) = Some (raw_attrs al, rest).
Proof.
  induction al as [|a al IH]; intros f rest Hok Hf.
  - destruct f as [|f]; [lia|]. reflexivity.
  - destruct f as [|f]; [cbn [length] in Hf; lia|].
    cbn [forallb] in Hok. apply andb_true_iff in Hok. destruct Hok as [Ha Hok].
    destruct (print_name_split (fst a) Ha) as (_ & Hnb & Hne).
    cbn [flat_map]. unfold print_attr at 1. rewrite <- !app_assoc. cbn [app read_attrs].
    change (32 =? 62) with false. change (32 =? 32) with true. cbn match.
    rewrite (span_app name_byte (print_name (fst a)) _ Hnb) by reflexivity.
    destruct (print_name (fst a)) as [|c0 r0] eqn:En; [contradiction|]. cbv beta iota. cbn [xp_null].
    cbn [prefix]. rewrite !N.eqb_refl.
    rewrite unesc_esc_value by (right; reflexivity).
    cbn [prefix]. rewrite !N.eqb_refl.
    rewrite (IH f rest Hok) by (cbn [length] in Hf; lia).
    cbn [raw_attrs map]. rewrite En. reflexivity.
Qed.

Lemma qsplit_all_printed al : forallb aloc_ok al = true -> qsplit_all (raw_attrs al) = Some (split_attrs al).
Proof.
  induction al as [|a al IH]; intros Hok; [reflexivity|].
  cbn [forallb] in Hok. apply andb_true_iff in Hok. destruct Hok as [Ha Hok].
  destruct (print_name_split (fst a) Ha) as (Hq & _ & _).
  cbn [raw_attrs split_attrs map qsplit_all]. rewrite Hq. fold (raw_attrs al). rewrite (IH Hok).
  destruct (psplit (fst a)) as [p l]. reflexivity.
Qed.

Lemma print_attrs_length al : (length al <= length (flat_map (print_attr print_name) al))%nat.
Proof.
  induction al as [|a al IH]; [apply le_n|]. cbn [flat_map]. rewrite app_length. unfold print_attr at 1.
  cbn [app length]. lia.
Qed.

Definition res_attrs (env : nsenv) (al : list xattr) : list xattr :=
  map (fun a => (translate env false (fst (fst a)) (snd (fst a)), snd a)) (split_attrs al).

Lemma start_tag_printed f env name al rest :
  local_ok (x_local name) = true -> forallb aloc_ok al = true -> (length al < f)%nat ->
  start_tag f env (print_name name ++ flat_map (print_attr print_name) al ++ 62 :: rest) =
  Some (mkStag (print_name name)
               (translate (ext_env env (split_attrs al)) true (fst (psplit name)) (snd (psplit name)))
               (res_attrs (ext_env env (split_attrs al)) al)
               (ext_env env (split_attrs al)) rest).
Proof.
  intros Hn Hal Hf. destruct (print_name_split name Hn) as (Hq & Hnb & Hne). unfold start_tag.
  assert (Hs : match flat_map (print_attr print_name) al ++ 62 :: rest with c :: _ => name_byte c = false | [] => True end).
  { destruct al as [|a al]; [reflexivity|]. reflexivity. }
  rewrite (span_app name_byte _ _ Hnb Hs).
  rewrite read_attrs_printed; [|exact Hal|exact Hf].
  rewrite Hq, (qsplit_all_printed al Hal). destruct (psplit name) as [p l]. reflexivity.
Qed.

(* ================= the content parser, step by step ================= *)
Definition cons_node (n : xnode) (o : option (list xnode * str)) : option (list xnode * str) :=
  match o with Some (sibs, r) => Some (n :: sibs, r) | None => None end.
Definition app_nodes (l : list xnode) (o : option (list xnode * str)) : option (list xnode * str) :=
  match o with Some (sibs, r) => Some (l ++ sibs, r) | None => None end.

Lemma pk_end f env r : parse_kids (S f) env (60 :: 47 :: r) = Some ([], 60 :: 47 :: r).
Proof. reflexivity. Qed.

Lemma pk_text f env c s t r : (c =? 60) = false -> unesc false (c :: s) = Some (t, r) ->
  parse_kids (S f) env (c :: s) = cons_node (XText t) (parse_kids f env r).
Proof. intros Hc Hu. cbn [parse_kids]. rewrite Hc, Hu. reflexivity. Qed.

Definition end_tag (name : xname) : str := [60; 47] ++ print_name name ++ [62].

Lemma pk_elem f env name al content tks rest :
  local_ok (x_local name) = true -> forallb aloc_ok al = true -> (length al < f)%nat ->
  translate (ext_env env (split_attrs al)) true (fst (psplit name)) (snd (psplit name)) = name ->
  res_attrs (ext_env env (split_attrs al)) al = al ->
  parse_kids f (ext_env env (split_attrs al)) (content ++ end_tag name ++ rest) = Some (tks, end_tag name ++ rest) ->
  parse_kids (S f) env ([60] ++ print_name name ++ flat_map (print_attr print_name) al ++ [62] ++ content ++ end_tag name ++ rest)
  = cons_node (XElem name al tks) (parse_kids f env rest).
Proof.
  intros Hn Hal Hf Ht Ha Hk. destruct (print_name_split name Hn) as (_ & Hnb & Hne).
  cbn [app parse_kids]. change (60 =? 60) with true. cbv iota.
  pose proof (start_tag_printed f env name al (content ++ end_tag name ++ rest) Hn Hal Hf) as Hst.
  remember (print_name name ++ flat_map (print_attr print_name) al ++ 62 :: content ++ end_tag name ++ rest) as s1 eqn:Es1.
  destruct s1 as [|c2 s1'].
  { destruct (print_name name); [contradiction | discriminate]. }
  assert (Hc2 : (c2 =? 47) = false).
  { destruct (print_name name) as [|c0 r0]; [contradiction|]. cbn [app] in Es1. injection Es1 as -> _.
    cbn [forallb] in Hnb. apply andb_true_iff in Hnb. destruct Hnb as [Hnb _]. unfold name_byte in Hnb. lia. }
  rewrite Hc2, Hst. cbn [st_env st_rest st_raw st_name st_attrs]. rewrite Ht, Ha, Hk.
  fold (end_tag name). rewrite prefix_app. reflexivity.
Qed.

(* ================= the tree the parser returns ================= *)
Definition itext (ind : str) (d : nat) : list xnode :=
  match ind with [] => [] | _ => [XText (10 :: concat (repeat ind d))] end.
Fixpoint itree (ind : str) (d : nat) (n : xnode) : xnode :=
  match n with
  | XText s => XText s
  | XElem name al ks =>
    if existsb is_elem ks
    then XElem name al (flat_map (fun k => itext ind (S d) ++ [itree ind (S d) k]) ks ++ itext ind d)
    else XElem name al ks
  end.

Lemma flat_map_ext_Forall {A B} (f g : A -> list B) l : Forall (fun x => f x = g x) l -> flat_map f l = flat_map g l.
Proof. induction 1 as [|x l Hx Hl IH]; [reflexivity|]. cbn [flat_map]. rewrite Hx, IH. reflexivity. Qed.
Lemma flat_map_single {A} (l : list A) : flat_map (fun x => [x]) l = l.
Proof. induction l as [|x l IH]; [reflexivity|]. cbn [flat_map app]. rewrite IH. reflexivity. Qed.

Lemma itree_nil n : forall d, itree [] d n = n.
Proof.
  induction n as [s|name al ks IH] using xnode_ind'; intros d; [reflexivity|].
  cbn [itree itext]. destruct (existsb is_elem ks); [|reflexivity]. rewrite app_nil_r. f_equal.
  rewrite <- (flat_map_single ks) at 2. apply flat_map_ext_Forall.
  eapply Forall_impl; [|exact IH]. intros k Hk. cbn [app]. rewrite Hk. reflexivity.
Qed.
Lemma itree_indent c i n : forall d, itree (c :: i) d n = indent_tree (c :: i) d n.
Proof.
  induction n as [s|name al ks IH] using xnode_ind'; intros d; [reflexivity|].
  cbn [itree indent_tree itext]. destruct (existsb is_elem ks); [|reflexivity]. f_equal. f_equal.
  apply flat_map_ext_Forall. eapply Forall_impl; [|exact IH]. intros k Hk. cbn [app]. rewrite Hk. reflexivity.
Qed.
Lemma itree_doc ind n : itree ind 0 n = indent_doc ind n.
Proof. destruct ind as [|c i]; [apply itree_nil | apply itree_indent]. Qed.

(* ================= indentation between tags ================= *)
Lemma ws_raw ind k : indent_ok ind = true -> forallb raw_byte (10 :: concat (repeat ind k)) = true.
Proof.
  intros H. cbn [forallb]. change (raw_byte 10) with true. cbn [andb].
  induction k as [|k IH]; [reflexivity|]. cbn [repeat concat]. rewrite forallb_app, IH, andb_true_r.
  unfold indent_ok in H. clear IH. induction ind as [|c ind IH]; [reflexivity|].
  cbn [forallb] in *. apply andb_true_iff in H. destruct H as [Hc H]. rewrite (IH H), andb_true_r.
  unfold is_ws in Hc. unfold raw_byte. lia.
Qed.

Lemma pk_indent F env ind d s : indent_ok ind = true -> hd 0 s = 60 -> (length (indent_str ind d ++ s) < F)%nat ->
  exists F', (length s < F')%nat /\ parse_kids F env (indent_str ind d ++ s) = app_nodes (itext ind d) (parse_kids F' env s).
Proof.
  intros Hi Hs HF. destruct ind as [|c i].
  - exists F. cbn [indent_str app] in *. split; [exact HF|]. cbn [itext]. unfold app_nodes.
    destruct (parse_kids F env s) as [[sibs r]|]; reflexivity.
  - unfold indent_str, itext. unfold indent_str in HF. destruct F as [|f]; [lia|]. exists f. split.
    + rewrite app_length in HF. cbn [length] in HF. cbn [length]. lia.
    + cbn [app]. rewrite (pk_text f env 10 (concat (repeat (c :: i) d) ++ s) (10 :: concat (repeat (c :: i) d)) s eq_refl).
      * unfold cons_node, app_nodes. destruct (parse_kids f env s) as [[sibs r]|]; reflexivity.
      * change (10 :: concat (repeat (c :: i) d) ++ s) with ((10 :: concat (repeat (c :: i) d)) ++ s).
        apply unesc_raw; [apply ws_raw; exact Hi | exact Hs].
Qed.

(* ================= well-formed subtrees ================= *)
(* what the writer builds below the root: element names in the TTML or the metadata name space; attributes
   unqualified (not xmlns), tts: or xml:; children all elements, or one non-empty text *)
Definition ename_okb (n : xname) : bool :=
  (str_eqb (x_space n) ns_ttml || str_eqb (x_space n) ns_ttm)
  && local_ok (x_local n) && negb (str_eqb (x_local n) s_xmlns).
Definition aname_okb (n : xname) : bool :=
  ((xp_null (x_space n) && negb (str_eqb (x_local n) s_xmlns)) || str_eqb (x_space n) ns_tts || str_eqb (x_space n) ns_xml)
  && local_ok (x_local n).
Definition attr_okb (a : xattr) : bool := aname_okb (fst a).
Definition kids_shape (ks : list xnode) : bool :=
  forallb is_elem ks || match ks with [XText _] => true | _ => false end.
Fixpoint wf (n : xnode) : bool :=
  match n with
  | XText s => negb (xp_null s)
  | XElem name al ks => ename_okb name && forallb attr_okb al && kids_shape ks && forallb wf ks
  end.

Definition env_ok (env : nsenv) : Prop :=
  ns_lookup [] env = Some ns_ttml /\ ns_lookup s_ttm env = Some ns_ttm /\ ns_lookup s_tts env = Some ns_tts.

Lemma ename_translate env n : env_ok env -> ename_okb n = true ->
  local_ok (x_local n) = true /\ translate env true (fst (psplit n)) (snd (psplit n)) = n.
Proof.
  intros (Hd & Hm & _) H. destruct n as [sp l]. unfold ename_okb in H. cbn [x_space x_local] in *.
  apply andb_true_iff in H. destruct H as [H Hx]. apply andb_true_iff in H. destruct H as [Hs Hl].
  apply negb_true_iff in Hx. split; [exact Hl|].
  apply orb_true_iff in Hs. destruct Hs as [Hs|Hs]; apply str_eqb_eq in Hs; subst sp.
  - change (psplit {| x_space := ns_ttml; x_local := l |}) with (@nil N, l). cbn [fst snd].
    unfold translate. change (str_eqb [] xp_xmlns) with false. change (str_eqb [] xp_xml) with false.
    change (str_eqb l xp_xmlns) with (str_eqb l s_xmlns). rewrite Hx, Hd. reflexivity.
  - change (psplit {| x_space := ns_ttm; x_local := l |}) with (s_ttm, l). cbn [fst snd].
    unfold translate. change (str_eqb s_ttm xp_xmlns) with false. change (str_eqb s_ttm xp_xml) with false.
    change (xp_null s_ttm) with false. rewrite Hm. reflexivity.
Qed.

Lemma aname_cases n : aname_okb n = true ->
  local_ok (x_local n) = true /\
  ((psplit n = ([], x_local n) /\ x_space n = [] /\ str_eqb (x_local n) s_xmlns = false)
   \/ (psplit n = (s_tts, x_local n) /\ x_space n = ns_tts)
   \/ (psplit n = (xp_xml, x_local n) /\ x_space n = ns_xml)).
Proof.
  intros H. destruct n as [sp l]. unfold aname_okb in H. cbn [x_space x_local] in *.
  apply andb_true_iff in H. destruct H as [Hs Hl]. split; [exact Hl|].
  apply orb_true_iff in Hs. destruct Hs as [Hs|Hs]; [apply orb_true_iff in Hs; destruct Hs as [Hs|Hs]|].
  - apply andb_true_iff in Hs. destruct Hs as [Hs Hx]. apply negb_true_iff in Hx.
    destruct sp; [|discriminate]. left. repeat split. exact Hx.
  - apply str_eqb_eq in Hs. subst sp. right. left. split; reflexivity.
  - apply str_eqb_eq in Hs. subst sp. right. right. split; reflexivity.
Qed.

Lemma attrs_translate env al : env_ok env -> forallb attr_okb al = true ->
  forallb aloc_ok al = true /\ ext_env env (split_attrs al) = env /\ res_attrs env al = al.
Proof.
  intros (_ & _ & Hs) H. induction al as [|a al IH]; [repeat split|].
  cbn [forallb] in H. apply andb_true_iff in H. destruct H as [Ha H]. destruct (IH H) as (I1 & I2 & I3).
  unfold attr_okb in Ha. destruct (aname_cases _ Ha) as (Hl & Hc). destruct a as [[sp l] v]. cbn [fst x_local x_space] in *.
  cbn [forallb]. unfold aloc_ok at 1. cbn [fst x_local]. rewrite Hl, I1.
  unfold res_attrs in *. cbn [split_attrs map fst snd ext_env]. fold (split_attrs al).
  destruct Hc as [(Hp & -> & Hx)|[(Hp & ->)|(Hp & ->)]]; rewrite Hp; cbn [fst snd].
  - change (str_eqb [] xp_xmlns) with false. cbn [xp_null andb]. change (str_eqb l xp_xmlns) with (str_eqb l s_xmlns).
    rewrite Hx, I2, I3. repeat split.
  - change (str_eqb s_tts xp_xmlns) with false. change (xp_null s_tts) with false. cbn [andb]. rewrite I2, I3.
    unfold translate. change (str_eqb s_tts xp_xmlns) with false. change (xp_null s_tts) with false.
    change (str_eqb s_tts xp_xml) with false. cbn [andb]. rewrite Hs. repeat split.
  - change (str_eqb xp_xml xp_xmlns) with false. change (xp_null xp_xml) with false. cbn [andb]. rewrite I2, I3.
    repeat split.
Qed.

(* ================= the tree lemma ================= *)
Definition content (ind : str) (d : nat) (ks : list xnode) : str :=
  if existsb is_elem ks
  then flat_map (fun k => indent_str ind (S d) ++ print_node print_name ind (S d) k) ks ++ indent_str ind d
  else flat_map (print_node print_name ind (S d)) ks.
Definition ikids (ind : str) (d : nat) (ks : list xnode) : list xnode :=
  if existsb is_elem ks then flat_map (fun k => itext ind (S d) ++ [itree ind (S d) k]) ks ++ itext ind d else ks.

Lemma print_elem_eq ind d name al ks rest :
  print_node print_name ind d (XElem name al ks) ++ rest
  = [60] ++ print_name name ++ flat_map (print_attr print_name) al ++ [62] ++ content ind d ks ++ end_tag name ++ rest.
Proof. cbn [print_node]. unfold content, end_tag. rewrite <- !app_assoc. reflexivity. Qed.
Lemma itree_elem ind d name al ks : itree ind d (XElem name al ks) = XElem name al (ikids ind d ks).
Proof. cbn [itree]. unfold ikids. destruct (existsb is_elem ks); reflexivity. Qed.
Lemma print_elem_longer ind d k rest : is_elem k = true -> (length rest < length (print_node print_name ind d k ++ rest))%nat.
Proof.
  destruct k as [s|name al ks]; [discriminate|]. intros _. rewrite print_elem_eq. cbn [app].
  repeat (rewrite app_length || cbn [length]). lia.
Qed.
Lemma print_elem_hd ind d k rest : is_elem k = true -> hd 0 (print_node print_name ind d k ++ rest) = 60.
Proof. destruct k as [s|name al ks]; [discriminate|]. reflexivity. Qed.
Lemma end_tag_eq name rest : end_tag name ++ rest = 60 :: 47 :: print_name name ++ [62] ++ rest.
Proof. unfold end_tag. rewrite <- !app_assoc. reflexivity. Qed.

Lemma esc_text_hd c s : exists c' r', esc_text (c :: s) = c' :: r' /\ (c' =? 60) = false.
Proof.
  unfold esc_text. cbn [flat_map]. unfold esc_byte.
  destruct (c =? 34) eqn:E34; [cbn [app]; eexists; eexists; split; reflexivity|].
  destruct (c =? 39) eqn:E39; [cbn [app]; eexists; eexists; split; reflexivity|].
  destruct (c =? 38) eqn:E38; [cbn [app]; eexists; eexists; split; reflexivity|].
  destruct (c =? 60) eqn:E60; [cbn [app]; eexists; eexists; split; reflexivity|].
  destruct (c =? 62) eqn:E62; [cbn [app]; eexists; eexists; split; reflexivity|].
  destruct (c =? 9) eqn:E9; [cbn [app]; eexists; eexists; split; reflexivity|].
  destruct (c =? 10) eqn:E10; [cbn [app]; eexists; eexists; split; reflexivity|].
  destruct (c =? 13) eqn:E13; [cbn [app]; eexists; eexists; split; reflexivity|].
  cbn [app]. eexists; eexists; split; [reflexivity | exact E60].
Qed.

Definition parses (n : xnode) : Prop :=
  wf n = true -> is_elem n = true -> forall ind d f env rest, indent_ok ind = true -> env_ok env ->
  (length (print_node print_name ind d n ++ rest) <= f)%nat ->
  parse_kids (S f) env (print_node print_name ind d n ++ rest) = cons_node (itree ind d n) (parse_kids f env rest).

Lemma pk_elems ind D d env tail : indent_ok ind = true -> env_ok env -> (exists r, tail = 60 :: 47 :: r) ->
  forall ks, Forall parses ks -> forallb wf ks = true -> forallb is_elem ks = true ->
  forall F, (length (flat_map (fun k => indent_str ind D ++ print_node print_name ind D k) ks ++ indent_str ind d ++ tail) < F)%nat ->
  parse_kids F env (flat_map (fun k => indent_str ind D ++ print_node print_name ind D k) ks ++ indent_str ind d ++ tail)
  = Some (flat_map (fun k => itext ind D ++ [itree ind D k]) ks ++ itext ind d, tail).
Proof.
  intros Hi He (r & ->). induction ks as [|k ks IH]; intros HP Hwf Hel F HF.
  - cbn [flat_map app] in *.
    destruct (pk_indent F env ind d (60 :: 47 :: r) Hi eq_refl HF) as (F' & HF' & E). rewrite E.
    destruct F' as [|f']; [lia|]. rewrite pk_end. cbn [app_nodes]. rewrite app_nil_r. reflexivity.
  - inversion HP as [|? ? Pk Pks]; subst.
    cbn [forallb] in Hwf, Hel. apply andb_true_iff in Hwf. destruct Hwf as [Wk Wks].
    apply andb_true_iff in Hel. destruct Hel as [Ek Eks].
    cbn [flat_map] in HF |- *. repeat rewrite <- app_assoc in HF. repeat rewrite <- app_assoc.
    set (rest' := flat_map (fun k0 => indent_str ind D ++ print_node print_name ind D k0) ks ++ indent_str ind d ++ 60 :: 47 :: r) in *.
    destruct (pk_indent F env ind D (print_node print_name ind D k ++ rest') Hi (print_elem_hd ind D k rest' Ek) HF) as (F' & HF' & E).
    rewrite E. destruct F' as [|f']; [lia|].
    rewrite (Pk Wk Ek ind D f' env rest' Hi He) by lia.
    pose proof (print_elem_longer ind D k rest' Ek) as Hlen.
    rewrite (IH Pks Wks Eks f') by lia.
    cbn [cons_node app_nodes]. reflexivity.
Qed.

Lemma parse_node n : parses n.
Proof.
  induction n as [s|name al ks IH] using xnode_ind'; intros Hwf Hel ind d f env rest Hi He Hf; [discriminate|].
  cbn [wf] in Hwf. apply andb_true_iff in Hwf. destruct Hwf as [Hwf Hks]. apply andb_true_iff in Hwf. destruct Hwf as [Hwf Hsh].
  apply andb_true_iff in Hwf. destruct Hwf as [Hn Ha].
  destruct (ename_translate env name He Hn) as (Hl & Ht). destruct (attrs_translate env al He Ha) as (A1 & A2 & A3).
  rewrite print_elem_eq in *. rewrite itree_elem.
  assert (Hlen : (length (content ind d ks ++ end_tag name ++ rest) < f)%nat).
  { cbn [app] in Hf. repeat (rewrite app_length in Hf || cbn [length] in Hf). rewrite !app_length. lia. }
  assert (Hal : (length al < f)%nat).
  { pose proof (print_attrs_length al) as Hp. cbn [app] in Hf. repeat (rewrite app_length in Hf || cbn [length] in Hf). lia. }
  apply pk_elem; try assumption; rewrite A2; try assumption.
  unfold content, ikids, kids_shape in *. apply orb_true_iff in Hsh. destruct Hsh as [Hsh|Hsh].
  - destruct ks as [|k ks'].
    + cbn [existsb flat_map app]. rewrite end_tag_eq. destruct f as [|f]; [lia|]. apply pk_end.
    + assert (Ex : existsb is_elem (k :: ks') = true).
      { cbn [forallb] in Hsh. apply andb_true_iff in Hsh. destruct Hsh as [Hk _]. cbn [existsb]. rewrite Hk. reflexivity. }
      rewrite Ex in *. rewrite <- app_assoc in *.
      apply pk_elems; try assumption. rewrite end_tag_eq. eexists. reflexivity.
  - destruct ks as [|[s|? ? ?] [|? ?]]; try discriminate.
    cbn [existsb is_elem orb flat_map print_node] in *. rewrite app_nil_r in *.
    cbn [forallb wf] in Hks. destruct s as [|c s]; [discriminate|].
    destruct (esc_text_hd c s) as (c' & r' & Ee & Hc').
    destruct f as [|f]; [lia|].
    assert (Hu : unesc false (esc_text (c :: s) ++ end_tag name ++ rest) = Some (c :: s, end_tag name ++ rest)).
    { apply unesc_esc_text. rewrite end_tag_eq. reflexivity. }
    rewrite Ee in *. cbn [app] in *. rewrite (pk_text f env c' _ _ _ Hc' Hu).
    rewrite end_tag_eq in *. destruct f as [|f]; [cbn [length] in Hlen; lia|]. rewrite pk_end. reflexivity.
Qed.

(* ================= the root element ================= *)
(* its xmlns attributes establish the environment in which its own name and its content are resolved *)
Definition root_env : nsenv := [(s_tts, ns_tts); (s_ttm, ns_ttm); ([], ns_ttml)].
Lemma root_env_ok : env_ok root_env.
Proof. repeat split. Qed.

Lemma parse_root lang ks ind : indent_ok ind = true -> forallb wf ks = true -> forallb is_elem ks = true -> ks <> [] ->
  xml_parse (print_node print_name ind 0 (XElem (nm ns_ttml s_tt) (root_attrs lang) ks))
  = Some (itree ind 0 (XElem (nm ns_ttml s_tt) (root_attrs lang) ks)).
Proof.
  intros Hi Hwf Hel Hne.
  set (root := XElem (nm ns_ttml s_tt) (root_attrs lang) ks).
  assert (H : forall f, (length (print_node print_name ind 0 root ++ []) <= f)%nat ->
                        parse_kids (S f) [] (print_node print_name ind 0 root ++ []) = Some ([itree ind 0 root], [])).
  { intros f Hf. unfold root in *. rewrite print_elem_eq in *. rewrite itree_elem.
    assert (Hlen : (length (content ind 0 ks ++ end_tag (nm ns_ttml s_tt) ++ []) < f)%nat).
    { cbn [app] in Hf. repeat (rewrite app_length in Hf || cbn [length] in Hf). rewrite !app_length. cbn [length]. lia. }
    assert (Hal : (length (root_attrs lang) < f)%nat).
    { pose proof (print_attrs_length (root_attrs lang)) as Hp. cbn [app] in Hf. repeat (rewrite app_length in Hf || cbn [length] in Hf). lia. }
    assert (Eenv : ext_env [] (split_attrs (root_attrs lang)) = root_env) by (destruct lang as [[|c r]|]; reflexivity).
    rewrite (pk_elem f [] (nm ns_ttml s_tt) (root_attrs lang) (content ind 0 ks) (ikids ind 0 ks) []).
    - destruct f as [|f]; [lia|]. reflexivity.
    - reflexivity.
    - destruct lang as [[|c r]|]; reflexivity.
    - exact Hal.
    - rewrite Eenv. reflexivity.
    - rewrite Eenv. destruct lang as [[|c r]|]; reflexivity.
    - rewrite Eenv. unfold content, ikids in *.
      assert (Ex : existsb is_elem ks = true).
      { destruct ks as [|k ks']; [contradiction|]. cbn [forallb] in Hel. apply andb_true_iff in Hel. destruct Hel as [Hk _].
        cbn [existsb]. rewrite Hk. reflexivity. }
      rewrite Ex in *. rewrite <- app_assoc in *.
      apply pk_elems; try assumption.
      + exact root_env_ok.
      + rewrite end_tag_eq. eexists. reflexivity.
      + apply Forall_forall. intros k _. apply parse_node. }
  unfold xml_parse. rewrite app_nil_r in H. rewrite (H _ (le_n _)). unfold root. rewrite itree_elem. reflexivity.
Qed.

(* ================= the written tree is well formed ================= *)
Definition good (n : xnode) : bool := wf n && is_elem n.
Lemma good_split ks : forallb good ks = true -> forallb wf ks = true /\ forallb is_elem ks = true.
Proof.
  induction ks as [|k ks IH]; intros H; [split; reflexivity|]. cbn [forallb] in *.
  apply andb_true_iff in H. destruct H as [Hk H]. unfold good in Hk. apply andb_true_iff in Hk. destruct Hk as [H1 H2].
  destruct (IH H) as [I1 I2]. rewrite H1, H2, I1, I2. split; reflexivity.
Qed.
Lemma good_elems name al ks : ename_okb name = true -> forallb attr_okb al = true -> forallb good ks = true ->
  good (XElem name al ks) = true.
Proof.
  intros H1 H2 H3. destruct (good_split ks H3) as [H4 H5]. unfold good. cbn [wf is_elem]. rewrite H1, H2, H4.
  unfold kids_shape. rewrite H5. reflexivity.
Qed.
Lemma good_text name al c t : ename_okb name = true -> forallb attr_okb al = true -> good (XElem name al [XText (c :: t)]) = true.
Proof. intros H1 H2. unfold good. cbn [wf is_elem forallb]. rewrite H1, H2. reflexivity. Qed.

Lemma forallb_flat_map {A B} (P : B -> bool) (f : A -> list B) l :
  (forall x, forallb P (f x) = true) -> forallb P (flat_map f l) = true.
Proof. intros H. induction l as [|x l IH]; [reflexivity|]. cbn [flat_map]. rewrite forallb_app, H, IH. reflexivity. Qed.
Lemma forallb_map_all {A B} (P : B -> bool) (f : A -> B) l : (forall x, P (f x) = true) -> forallb P (map f l) = true.
Proof. intros H. induction l as [|x l IH]; [reflexivity|]. cbn [map forallb]. rewrite H, IH. reflexivity. Qed.
Lemma forallb_removelast {A} (P : A -> bool) l : forallb P l = true -> forallb P (removelast l) = true.
Proof.
  induction l as [|x l IH]; intros H; [reflexivity|]. cbn [forallb] in H. apply andb_true_iff in H. destruct H as [Hx H].
  cbn [removelast]. destruct l as [|y l]; [reflexivity|]. cbn [forallb]. rewrite Hx. exact (IH H).
Qed.

Lemma opt_attr_okb sp l v : aname_okb (nm sp l) = true -> forallb attr_okb (opt_attr sp l v) = true.
Proof. intros H. destruct v as [[|c r]|]; try reflexivity. cbn [opt_attr forallb]. unfold attr_okb. cbn [fst]. rewrite H. reflexivity. Qed.
Lemma out_attrs_okb a : forallb attr_okb (out_attrs a) = true.
Proof.
  unfold out_attrs. rewrite forallb_app. apply andb_true_iff. split.
  - assert (Hn : forallb (fun n => aname_okb (nm ns_tts n)) attr_names = true) by (vm_compute; reflexivity).
    generalize dependent (ta_s a). generalize dependent attr_names. clear a.
    induction l as [|n names IH]; intros Hn vs; [reflexivity|]. destruct vs as [|v vs]; [reflexivity|].
    cbn [forallb] in Hn. apply andb_true_iff in Hn. destruct Hn as [Hn1 Hn2].
    cbn [combine flat_map]. rewrite forallb_app, (IH Hn2 vs), andb_true_r. cbn [snd fst].
    destruct v as [v|]; [|reflexivity]. cbn [forallb]. unfold attr_okb. cbn [fst]. rewrite Hn1. reflexivity.
  - destruct (ta_z a); reflexivity.
Qed.

Lemma out_header_good el s : ename_okb (nm ns_ttml el) = true -> good (out_header el s) = true.
Proof.
  intros He. unfold out_header. apply good_elems; [exact He | | reflexivity].
  rewrite !forallb_app, !opt_attr_okb, out_attrs_okb by reflexivity. reflexivity.
Qed.
Lemma out_run_good r : good (out_run r) = true.
Proof.
  unfold out_run.
  assert (Ha : forallb attr_okb (opt_attr [] s_style (tr_style r) ++ out_attrs (tr_attrs r)) = true).
  { rewrite forallb_app, opt_attr_okb, out_attrs_okb by reflexivity. reflexivity. }
  destruct (tr_txt r) as [|c t]; cbn [text_kids]; [apply good_elems | apply good_text]; try exact Ha; reflexivity.
Qed.
Lemma out_lines_good ls : forallb good (out_lines ls) = true.
Proof.
  unfold out_lines. apply forallb_removelast. apply forallb_flat_map. intros l. rewrite forallb_app.
  rewrite (forallb_map_all good out_run l out_run_good). reflexivity.
Qed.
Lemma out_p_good it : good (out_p it) = true.
Proof.
  unfold out_p. apply good_elems; [reflexivity | | apply out_lines_good].
  rewrite !forallb_app, !opt_attr_okb, out_attrs_okb by reflexivity. reflexivity.
Qed.
Lemma md_of_good m : forallb good (md_of m) = true.
Proof.
  destruct m as [[fr t c l]|]; [|reflexivity]. unfold md_of. cbn [tm_copyright tm_title].
  destruct c as [|c0 c]; destruct t as [|t0 t]; reflexivity.
Qed.
Lemma headers_good el m : ename_okb (nm ns_ttml el) = true -> forallb good (headers el m) = true.
Proof. intros He. unfold headers. apply forallb_map_all. intros kv. apply out_header_good. exact He. Qed.

Lemma skel_good d :
  forallb good (skel (md_of (td_meta d)) (headers s_style (sort_keys (td_styles d))) (headers s_region (sort_keys (td_regions d)))
                     (map out_p (td_items d))) = true.
Proof.
  unfold skel. cbn [forallb]. rewrite !andb_true_r. apply andb_true_iff. split.
  - apply good_elems; [reflexivity | reflexivity|]. rewrite forallb_app, md_of_good. cbn [forallb andb].
    rewrite !good_elems; try reflexivity; apply headers_good; reflexivity.
  - apply good_elems; [reflexivity | reflexivity|]. cbn [forallb]. rewrite andb_true_r.
    apply good_elems; [reflexivity | reflexivity|]. apply forallb_map_all. exact out_p_good.
Qed.

(* ================= the theorem ================= *)
Theorem parse_written : forall d ind b, indent_ok ind = true -> write_ttml_bytes ind d = Ok b ->
  exists t, write_ttml d = Ok t /\ xml_parse b = Some (indent_doc ind t).
Proof.
  intros d ind b Hi Hw. unfold write_ttml_bytes in Hw.
  destruct (td_items d) as [|i0 its] eqn:Ei.
  { unfold write_ttml in Hw. rewrite Ei in Hw. discriminate. }
  assert (Hne : td_items d <> []) by (rewrite Ei; discriminate).
  rewrite (write_ttml_eq d Hne) in Hw. cbn [bind] in Hw.
  assert (Eb : b = print_node print_name ind 0 (written_tree d)) by congruence. subst b. clear Hw.
  exists (written_tree d). split; [apply write_ttml_eq; exact Hne|].
  rewrite <- itree_doc. unfold written_tree.
  destruct (good_split _ (skel_good d)) as [Hwf Hel].
  apply parse_root; try assumption. unfold skel. discriminate.
Qed.

(* the same for any tree of the well-formed class under the writer's root element *)
Theorem parse_wf_root : forall lang ks ind, indent_ok ind = true -> forallb wf ks = true -> forallb is_elem ks = true -> ks <> [] ->
  xml_parse (print_node print_name ind 0 (XElem (nm ns_ttml s_tt) (root_attrs lang) ks))
  = Some (indent_doc ind (XElem (nm ns_ttml s_tt) (root_attrs lang) ks)).
Proof. intros lang ks ind Hi Hwf Hel Hne. rewrite <- itree_doc. apply parse_root; assumption. Qed.
Theorem written_tree_wf : forall d, forallb wf (elem_kids (written_tree d)) = true /\ forallb is_elem (elem_kids (written_tree d)) = true.
Proof. intros d. exact (good_split _ (skel_good d)). Qed.

(* ================= sanity ================= *)
Definition parses_back (ind : str) (d : tdoc) : Prop :=
  match write_ttml_bytes ind d, write_ttml d with
  | Ok b, Ok t => xml_parse b = Some (indent_doc ind t)
  | _, _ => False
  end.
Example parse_ex_doc : parses_back [32; 32] ex_doc.
Proof. vm_compute. reflexivity. Qed.
Example parse_ex_doc_flat : parses_back [] ex_doc.
Proof. vm_compute. reflexivity. Qed.
Example parse_ex_doc_tab : parses_back [9] ex_doc.
Proof. vm_compute. reflexivity. Qed.

Fixpoint bs (s : String.string) : str :=
  match s with String.EmptyString => [] | String.String c r => Ascii.N_of_ascii c :: bs r end.
Local Open Scope string_scope.
Import String.StringSyntax.
(* name-space attributes are processed before the names of the same start tag; inner bindings shadow *)
Example parse_ns :
  xml_parse (bs "<a p:x=""1"" xmlns=""u"" xmlns:p=""v""><p:b y=""&lt;&#34;""><c xmlns=""w""></c>t&amp;&#xA;</p:b></a>")
  = Some (XElem (mkName (bs "u") (bs "a"))
                [(mkName (bs "v") (bs "x"), bs "1"); (mkName [] (bs "xmlns"), bs "u"); (mkName (bs "xmlns") (bs "p"), bs "v")]
                [XElem (mkName (bs "v") (bs "b")) [(mkName [] (bs "y"), [60; 34])]
                       [XElem (mkName (bs "w") (bs "c")) [(mkName [] (bs "xmlns"), bs "w")] []; XText [116; 38; 10]]]).
Proof. vm_compute. reflexivity. Qed.
Example parse_unbound : xml_parse (bs "<q:a xml:lang=""en""></q:a>")
  = Some (XElem (mkName (bs "q") (bs "a")) [(mkName ns_xml (bs "lang"), bs "en")] []).
Proof. vm_compute. reflexivity. Qed.
(* malformed input is rejected *)
Example bad_empty : xml_parse [] = None. Proof. reflexivity. Qed.
Example bad_unclosed : xml_parse (bs "<a><b></b>") = None. Proof. vm_compute. reflexivity. Qed.
Example bad_mismatch : xml_parse (bs "<a></b>") = None. Proof. vm_compute. reflexivity. Qed.
Example bad_crossed : xml_parse (bs "<a><b></a></b>") = None. Proof. vm_compute. reflexivity. Qed.
Example bad_entity : xml_parse (bs "<a>&nbsp;</a>") = None. Proof. vm_compute. reflexivity. Qed.
Example bad_amp : xml_parse (bs "<a>x & y</a>") = None. Proof. vm_compute. reflexivity. Qed.
Example bad_trailing : xml_parse (bs "<a></a>x") = None. Proof. vm_compute. reflexivity. Qed.
Example bad_leading : xml_parse (bs " <a></a>") = None. Proof. vm_compute. reflexivity. Qed.
Example bad_two_roots : xml_parse (bs "<a></a><b></b>") = None. Proof. vm_compute. reflexivity. Qed.
Example bad_unquoted : xml_parse (bs "<a b=c></a>") = None. Proof. vm_compute. reflexivity. Qed.
Example bad_open_value : xml_parse (bs "<a b=""c></a>") = None. Proof. vm_compute. reflexivity. Qed.
Example bad_lt_in_value : xml_parse (bs "<a b=""<""></a>") = None. Proof. vm_compute. reflexivity. Qed.
Example bad_self_closing : xml_parse (bs "<a/>") = None. Proof. vm_compute. reflexivity. Qed.
Example bad_no_name : xml_parse (bs "<></>") = None. Proof. vm_compute. reflexivity. Qed.
Example bad_end_only : xml_parse (bs "</a>") = None. Proof. vm_compute. reflexivity. Qed.
Example bad_text_only : xml_parse (bs "abc") = None. Proof. vm_compute. reflexivity. Qed.
Example bad_empty_prefix : xml_parse (bs "<:a></:a>") = None. Proof. vm_compute. reflexivity. Qed.
Local Close Scope string_scope.

Print Assumptions unesc_esc.
Print Assumptions parse_written.
