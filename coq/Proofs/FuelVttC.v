(* Fuel audit, Model/VttC.v: settings_loop_c (the index loop over the cue settings; value at O: Ok (s, reg), the settings
   gathered so far -- an ordinary-looking result).  Wrapper: step_cue_c calls it with fuel = length right from index 1.
   The loop needs (length right - i) turns; every larger fuel gives the same result, and that result is the fuel-free
   structural function cue_settings on the remaining words (VttChk.settings_loop_ok). *)
From Coq Require Import List NArith Bool Arith Lia.
From Astisub Require Import Kit.Base Kit.Str Kit.Chk Model.Vtt Model.VttC Proofs.VttChk.
Import ListNotations.

Theorem settings_loop_c_indep fuel i right regs s reg : (length right - i <= fuel)%nat ->
  settings_loop_c fuel i right regs s reg = settings_loop_c (length right - i) i right regs s reg.
Proof. intros H. rewrite (settings_loop_ok fuel i right regs s reg H), (settings_loop_ok _ i right regs s reg (le_n _)). reflexivity. Qed.
(* the fuel the wrapper passes is enough *)
Theorem settings_loop_c_wrapper right regs s reg :
  settings_loop_c (length right) 1 right regs s reg = cue_settings (skipn 1 right) regs s reg.
Proof. apply settings_loop_ok. lia. Qed.
