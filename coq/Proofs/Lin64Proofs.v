(* ApplyLinearCorrection with int64 arithmetic (Model/Ops64.v lin64) equals the model of Model/Lin.v inside the domain of
   C15 (anchors and boundaries within a day, slope in [1/2, 2]): no subtraction wraps, both float64 -> int64 conversions
   are of finite values far inside int64, and the final sum does not wrap. *)
From Coq Require Import ZArith Reals Lia Lra Psatz Bool List.
From Flocq Require Import Core BinarySingleNaN.
From Astisub Require Import Kit.Base Kit.Int64 Kit.Float64 Model.Ops Model.Lin Model.Ops64 Proofs.FracFloatProofs Proofs.LinProofs.
Import ListNotations.
Open Scope R_scope.

Lemma wrap_id_R z : in_i64 z -> wrap_i64 z = z.
Proof. unfold in_i64, i64_min, i64_max, wrap_i64. intros H. rewrite Z.mod_small by lia. lia. Qed.

Lemma Ztrunc_abs_le : forall (x : R) (k : Z), Rabs x <= IZR k -> (Z.abs (Ztrunc x) <= k)%Z.
Proof.
  intros x k H. pose proof (Ztrunc_err x) as E. apply Rabs_def2 in E. apply Rabs_le_inv in H.
  assert (A : (Z.abs (Ztrunc x) < k + 1)%Z).
  { apply lt_IZR. rewrite abs_IZR, plus_IZR. apply Rabs_def1; lra. }
  lia.
Qed.

Lemma f2i64_small : forall (x : f64) (k : Z), is_finite x = true -> Rabs (B2R x) <= IZR k -> (k <= 4611686018427387904)%Z ->
  f2i64 x = to_Z x /\ (Z.abs (to_Z x) <= k)%Z.
Proof.
  intros x k Fx Hk Hk2. unfold f2i64. rewrite Fx. rewrite to_Z_correct.
  pose proof (Ztrunc_abs_le (B2R x) k Hk) as A.
  assert (E : in_i64b (Ztrunc (B2R x)) = true).
  { unfold in_i64b, i64_min, i64_max. apply andb_true_iff. split; apply Z.leb_le; lia. }
  rewrite E. split; [reflexivity | exact A].
Qed.

Theorem lin64_eq : forall a1 d1 a2 d2 t : Z,
  in_day a1 -> in_day d1 -> in_day a2 -> in_day d2 -> in_day t -> slope_ok a1 d1 a2 d2 ->
  lin64 a1 d1 a2 d2 t = lin a1 d1 a2 d2 t /\ in_i64 (lin a1 d1 a2 d2 t).
Proof.
  intros a1 d1 a2 d2 t Ha1 Hd1 Ha2 Hd2 Ht Hs.
  assert (Ea : lin_a64 a1 d1 a2 d2 = lin_a a1 d1 a2 d2).
  { unfold lin_a64, lin_a, sub_i64. unfold in_day, day in *.
    rewrite !wrap_id_R by (unfold in_i64, i64_min, i64_max; lia). reflexivity. }
  destruct (lin_a_correct a1 d1 a2 d2 Ha1 Hd1 Ha2 Hd2 Hs) as [Fa [Ba Ea']].
  pose proof (slope_bounds _ _ _ _ Hs) as Sb.
  destruct (mul_err (lin_a a1 d1 a2 d2) (slope a1 d1 a2 d2) t Fa Ba Sb Ea' Ht) as [Fpt [_ [Bpt _]]].
  destruct (mul_err (lin_a a1 d1 a2 d2) (slope a1 d1 a2 d2) a1 Fa Ba Sb Ea' Ha1) as [Fp1 [_ [Bp1 Ep1]]].
  (* the product for t *)
  destruct (f2i64_small (fmul (lin_a a1 d1 a2 d2) (of_Z t)) 281474976710656 Fpt) as [E1 B1].
  { rewrite Rabs_pos_eq; lra. } { lia. }
  (* the intercept *)
  destruct (of_Z_day d1 Hd1) as [Hd11 Hd12]. pose proof (IZR_day d1 Hd1) as Bd.
  destruct (fsub_correct (of_Z d1) (fmul (lin_a a1 d1 a2 d2) (of_Z a1)) Hd12 Fp1) as [Hb1 Fb].
  { rewrite Hd11. pose proof bpow100_big. apply Rabs_le. lra. }
  pose proof (lin_b_float a1 d1 a2 d2 Ha1 Hd1 Ha2 Hd2 Hs) as Eb. cbv zeta in Eb.
  pose proof (IZR_day a1 Ha1) as Ba1.
  destruct (f2i64_small (fsub (of_Z d1) (fmul (lin_a a1 d1 a2 d2) (of_Z a1))) 562949953421312 Fb) as [E2 B2].
  { apply Rabs_le_inv in Eb. apply Rabs_le. nra. } { lia. }
  unfold lin64, lin_b64, lin, lin_b. rewrite Ea, E1, E2. unfold add_i64.
  assert (Hin : in_i64 (to_Z (fmul (lin_a a1 d1 a2 d2) (of_Z t)) + to_Z (fsub (of_Z d1) (fmul (lin_a a1 d1 a2 d2) (of_Z a1))))).
  { unfold in_i64, i64_min, i64_max. lia. }
  rewrite (wrap_id_R _ Hin). split; [reflexivity | exact Hin].
Qed.

Theorem linear_correction64_eq : forall a1 d1 a2 d2 l,
  in_day a1 -> in_day d1 -> in_day a2 -> in_day d2 -> slope_ok a1 d1 a2 d2 ->
  Forall (fun x => in_day (st x) /\ in_day (en x)) l ->
  linear_correction64 a1 d1 a2 d2 l = linear_correction a1 d1 a2 d2 l.
Proof.
  intros a1 d1 a2 d2 l Ha1 Hd1 Ha2 Hd2 Hs H. unfold linear_correction64, linear_correction.
  apply map_ext_in. intros x Hx. rewrite Forall_forall in H. destruct (H x Hx) as [A B].
  rewrite (proj1 (lin64_eq a1 d1 a2 d2 (st x) Ha1 Hd1 Ha2 Hd2 A Hs)), (proj1 (lin64_eq a1 d1 a2 d2 (en x) Ha1 Hd1 Ha2 Hd2 B Hs)).
  reflexivity.
Qed.

(* outside the domain: anchors 2^62 apart in the wrong direction make desired2 - desired1 wrap *)
Example lin64_wraps :
  lin64 0 (- 4611686018427387904) 4611686018427387904 4611686018427387905 1000 <> lin 0 (- 4611686018427387904) 4611686018427387904 4611686018427387905 1000.
Proof. vm_compute. discriminate. Qed.
