(* C03: specification-level objects for the TTML theorems (nothing here looks at the library's algorithm):
   the renderings of time expressions with the exact instants they mean, and the renderings of a
   paragraph's lines and runs as XML content (br between or inside elements, indentation). *)
From Coq Require Import List ZArith NArith Bool Lia.
From Astisub Require Import Kit.Base Kit.Str Kit.Float64 Kit.Float64x Kit.Xml Model.Dur Model.Ttml Proofs.DurProofs.
Import ListNotations.
Open Scope N_scope.

(* ================= time expressions ================= *)
Definition unit_str (m : metric) : str :=
  match m with Mh => [104] | Mm => [109] | Ms => [115] | Mms => [109; 115] | Mf => [102] | Mt => [116] end.
(* offset time: digits [. digits] metric *)
Definition offset_expr (ip fp : str) (m : metric) : str :=
  ip ++ match fp with [] => [] | _ => dot :: fp end ++ unit_str m.
(* clock time: hours:minutes:seconds[.fraction] over digit strings *)
Definition clock_expr (hs ms ss fs : str) : str :=
  hs ++ [colon] ++ ms ++ [colon] ++ ss ++ match fs with [] => [] | _ => dot :: fs end.
(* clock time with frames *)
Definition clock_frames_expr (hs ms ss fds : str) : str :=
  hs ++ [colon] ++ ms ++ [colon] ++ ss ++ [colon] ++ fds.
(* value of a digit string *)
Definition dval (s : str) : Z := match atoi_digits s with Some n => Z.of_N n | None => 0%Z end.
Definition hms_ns (hs ms ss : str) : Z := (dval hs * hour_ns + dval ms * minute_ns + dval ss * second_ns)%Z.
(* the frames / ticks terms of TTMLInDuration.duration *)
Definition frames_term (f fr : Z) : Z := round_Z (fmul (fdiv (of_Z f) (of_Z fr)) (of_Z second_ns)).
Definition ticks_term (t tr : Z) : Z := round_Z (fdiv (fmul (of_Z t) (of_Z second_ns)) (of_Z tr)).
(* the same terms for an offset expressed in frames / ticks, whose count may carry a fraction: v is the parsed value *)
Definition frames_val_term (v : f64) (fr : Z) : Z := round_Z (fmul (fdiv v (of_Z fr)) (of_Z second_ns)).
Definition ticks_val_term (v : f64) (tr : Z) : Z := round_Z (fdiv (fmul v (of_Z second_ns)) (of_Z tr)).
Definition offset_term (ip fp : str) (m : metric) : Z := round_Z (fmul (parse_dec ip fp) (of_Z (timebase m))).

(* "r is the instant num/den ns": exactly when that is a whole number of ns, else a neighbouring ns *)
Definition denotes_instant (r num den : Z) : Prop :=
  ((den | num)%Z -> r = (num / den)%Z) /\ (Z.abs (r * den - num) < den)%Z.

(* ================= paragraph content ================= *)
Definition is_ws (c : byte) : bool := (c =? 32) || (c =? 9) || (c =? 10).
(* indentation: nothing, or a line break followed by blanks, tabs and line breaks *)
Definition is_indent (w : str) : bool := match w with [] => true | c :: r => (c =? 10) && forallb is_ws r end.
Definition no_nl (t : str) : bool := negb (existsb (N.eqb 10) t).

(* a text with optional indentation before and after it *)
Record piece := mkPiece { p_pre : str; p_text : str; p_post : str }.
Definition piece_ok (p : piece) : bool :=
  is_indent (p_pre p) && is_indent (p_post p) && no_nl (p_text p)
  && (null (p_pre p) || str_eqb (trim_left_xml (p_text p)) (p_text p)).
Definition piece_str (p : piece) : str := p_pre p ++ p_text p ++ p_post p.
Definition mk_br (sp : str) : xnode := XElem (mkName sp s_br) [] [].

Inductive group :=
| GBr (w : str) (sp : str)                                   (* indentation, then <br/> between elements *)
| GText (p : piece)                                          (* bare character data *)
| GSpan (w : str) (nm : xname) (al : list xattr) (p0 : piece) (ps : list (str * piece)).
    (* indentation, then an element whose content is p0 <br/> p1 <br/> ... (each br with its name space) *)

Definition span_kids (p0 : piece) (ps : list (str * piece)) : list xnode :=
  text_kids (piece_str p0) ++ flat_map (fun bp => mk_br (fst bp) :: text_kids (piece_str (snd bp))) ps.
Definition group_nodes (g : group) : list xnode :=
  match g with
  | GBr w sp => text_kids w ++ [mk_br sp]
  | GText p => [XText (piece_str p)]
  | GSpan w nm al p0 ps => text_kids w ++ [XElem nm al (span_kids p0 ps)]
  end.
(* the content of a <p>: the groups, then the indentation before the end tag *)
Definition render_content (gs : list group) (wl : str) : list xnode := flat_map group_nodes gs ++ text_kids wl.

Definition is_gtext (g : group) : bool := match g with GText _ => true | _ => false end.
Definition group_pre (g : group) : str := match g with GBr w _ => w | GText _ => [] | GSpan w _ _ _ _ => w end.
Definition group_ok (g : group) : bool :=
  match g with
  | GBr w _ => is_indent w
  | GText p => piece_ok p && str_eqb (trim_left_xml (p_text p)) (p_text p) && negb (blank_xml (p_text p))
  | GSpan w nm al p0 ps =>
    is_indent w && negb (is_br (x_local nm)) && piece_ok p0 && forallb (fun bp => piece_ok (snd bp)) ps
    && match tt_read_attrs al with Some _ => true | None => false end
  end.
(* two character data nodes are never adjacent: what follows a bare text carries no indentation of its own
   (the text's own p_post is the indentation), and is not another bare text *)
Fixpoint adjacency_ok (gs : list group) (wl : str) : bool :=
  match gs with
  | [] => true
  | g :: r =>
    (if is_gtext g then match r with [] => null wl | g' :: _ => negb (is_gtext g') && null (group_pre g') end else true)
    && adjacency_ok r wl
  end.
Definition content_ok (gs : list group) (wl : str) : bool :=
  forallb group_ok gs && adjacency_ok gs wl && is_indent wl.

(* what the groups mean: runs and line breaks *)
Definition join_brk (l : list ttok) : list ttok :=
  match l with [] => [] | t0 :: ts => t0 :: flat_map (fun t => [TBrk; t]) ts end.
Definition group_toks (g : group) : list ttok :=
  match g with
  | GBr _ _ => [TBrk]
  | GText p => [TRun (mkRun (p_text p) None no_attrs)]
  | GSpan _ _ al p0 ps =>
    let ta := match tt_read_attrs al with Some ta => ta | None => no_attrs end in
    join_brk (map (fun p => TRun (mkRun (p_text p) (opt_ref (attr_str s_style al)) ta)) (p0 :: map snd ps))
  end.

(* lines as tokens: runs of a line, a break between lines *)
Fixpoint lines_toks (ls : list (list trun)) : list ttok :=
  match ls with
  | [] => []
  | [l] => map TRun l
  | l :: r => map TRun l ++ TBrk :: lines_toks r
  end.
