(* SSA/ASS events block: written Dialogue rows are read back; the items they denote. *)
From Coq Require Import List ZArith NArith Bool Lia.
From Astisub Require Import Kit.Base Kit.Str Kit.Scan Model.Dur Model.Ssa.
From Astisub Require Import Proofs.VttBase Proofs.ScanProofs Proofs.EolProofs Proofs.SsaFields Proofs.SsaText Proofs.SsaTrim Proofs.SsaRows Proofs.SsaLines Proofs.SsaInfo Proofs.SsaStyles.
Import ListNotations.
Open Scope N_scope.

(* what the reader makes of the row the writer emits for the event [e] under the ten-column format *)
Definition event_canon (v4p : bool) (e : aevent) : aevent :=
  mkAevent n_dialogue (av_effect e) (trunc_cs (av_end e))
           (if v4p then Some (oz (av_layer e)) else None)
           (if v4p then None else Some (match av_marked e with Some true => true | _ => false end))
           (Some (oz (av_ml e))) (Some (oz (av_mr e))) (Some (oz (av_mv e))) (av_name e)
           (trunc_cs (av_start e)) (if str_eqb (av_style e) n_star_default then n_default else av_style e)
           (trim_space (av_text e)).

Lemma event_row_canon v4p e : event_ok e ->
  event_from_string n_dialogue (event_string e (event_format v4p)) (map eattr_name (event_format v4p)) = Ok (event_canon v4p e).
Proof.
  intros Hok.
  pose (init := [if v4p then ELayer else EMarked; EStart; EEnd; EStyle; EName; EMarginL; EMarginR; EMarginV; EEffect]).
  assert (Hfmt : event_format v4p = init ++ [EText]) by reflexivity.
  assert (Hnt : ~ In EText init) by (unfold init; destruct v4p; cbn; intuition discriminate).
  destruct (event_row_roundtrip n_dialogue e init EText Hok Hnt) as (r & Er & Hc & Hin & Hout).
  cbn zeta in *. rewrite <- Hfmt in *. rewrite Er. f_equal. apply aevent_ext; [exact Hc|].
  intros a. destruct (in_dec eattr_eq_dec a (event_format v4p)) as [Hi|Hni].
  - rewrite (Hin a Hi). destruct v4p, a; try reflexivity; exfalso; cbn in Hi; intuition discriminate.
  - rewrite (Hout a Hni). destruct v4p, a; try reflexivity; exfalso; apply Hni; cbn; tauto.
Qed.

(* ---- the block as lines ---- *)
Definition events_lines (v4p : bool) (items : list aitem) : list str :=
  [[]; n_events_hdr; n_format_pfx ++ join comma_sp (map eattr_name (event_format v4p))] ++
  map (fun i => n_dialogue_pfx ++ event_string (event_of_item i) (event_format v4p)) items.
Lemma events_bytes_lines d : events_bytes d = render_eol [10] (events_lines (is_v4plus d) (ad_items d)).
Proof.
  unfold events_bytes, events_lines. rewrite render_app. unfold render_eol at 1. cbn [map concat]. unfold nl.
  assert (Erows : concat (map (fun i => n_dialogue_pfx ++ event_string (event_of_item i) (event_format (is_v4plus d)) ++ [10]) (ad_items d)) =
                  render_eol [10] (map (fun i => n_dialogue_pfx ++ event_string (event_of_item i) (event_format (is_v4plus d))) (ad_items d))).
  { unfold render_eol. rewrite map_map. f_equal; try (apply map_ext; intros i; rewrite <- !app_assoc; reflexivity). }
  rewrite Erows, app_nil_r, <- !app_assoc. reflexivity.
Qed.

Lemma dialogue_pfx_eq : n_dialogue_pfx = n_dialogue ++ colon_sp. Proof. reflexivity. Qed.
Lemma dialogue_hdr_ok : hdr_ok n_dialogue.
Proof.
  split; [repeat split; try reflexivity; discriminate|]. split; [|reflexivity].
  vm_compute; intros H; repeat (destruct H as [H|H]; [discriminate|]); exact H.
Qed.
Lemma eattr_name_clean a : cell_clean (eattr_name a) /\ eattr_name a <> [].
Proof. destruct a; (split; [reflexivity | discriminate]). Qed.

(* a middle cell: any string without comma and line break *)
Definition mid_ok (s : str) : Prop := ~ In 44 s /\ brkfree s.
(* the event the writer derives from an item must have: times and numbers in range, comma-free middle cells, a text
   that the reader's trimming leaves alone, everything on one line *)
Definition event_repr (e : aevent) : Prop :=
  event_ok e /\ brkfree (av_effect e) /\ brkfree (av_name e) /\ brkfree (av_style e) /\
  trim_space (av_text e) = av_text e /\ brkfree (av_text e).

Lemma event_row_value v4p e : event_repr e ->
  let v := event_string e (event_format v4p) in v <> [] /\ trim_space v = v /\ brkfree v.
Proof.
  intros (Hok & Hbe & Hbn & Hbs & Htt & Hbt) v. unfold v, event_string, event_format, comma. cbn [map].
  pose proof Hok as (Hs & He & _ & _ & _ & _ & _ & Hnm & _).
  assert (Hfirst : event_cell_string (if v4p then ELayer else EMarked) e <> [] /\ cell_clean (event_cell_string (if v4p then ELayer else EMarked) e)).
  { destruct v4p; cbn [event_cell_string]; [split; [apply itoa_z_nonnil | apply itoa_z_clean]|].
    destruct (av_marked e) as [ [|]|]; split; try discriminate; reflexivity. }
  destruct Hfirst as [Hfn Hfc].
  split; [apply join_nonnil; exact Hfn|]. split.
  - apply trim_join; [exact Hfn | apply cell_clean_trim; exact Hfc | cbn [last event_cell_string]; exact Htt].
  - unfold brkfree. apply forallb_forall. intros b Hb. apply in_join in Hb. destruct Hb as [[<-|[]]|(w & Hw & Hb)]; [reflexivity|].
    assert (Hw' : brkfree w).
    { cbn [In] in Hw. repeat (destruct Hw as [<-|Hw]); try contradiction; cbn [event_cell_string]; try rewrite (name_cell_id _ Hnm);
        try (apply cell_clean_nobrk, itoa_z_clean); try (apply cell_clean_nobrk, format_ssa_clean; lia); try assumption.
      apply cell_clean_nobrk. exact Hfc. }
    unfold brkfree in Hw'. rewrite forallb_forall in Hw'. apply Hw'. exact Hb.
Qed.

Lemma event_row_step s v4p e : event_repr e -> rs_sect s = SEvents -> rs_fmt s = map eattr_name (event_format v4p) ->
  ssa_step s false (n_dialogue_pfx ++ event_string e (event_format v4p)) =
  Ok (mkRstate SEvents (rs_fmt s) (rs_info s) (rs_styles s) (rs_events s ++ [event_canon v4p e])).
Proof.
  intros Hr Hs Hf. destruct (event_row_value v4p e Hr) as (Hne & Ht & _).
  rewrite dialogue_pfx_eq, <- app_assoc.
  rewrite (kv_step s n_dialogue _ dialogue_hdr_ok Hne Ht) by (rewrite Hs; discriminate).
  unfold kv_dispatch. destruct s as [sect fmt info sts evs]. cbn [rs_sect rs_fmt rs_info rs_styles rs_events] in *. subst sect fmt.
  change (str_eqb n_dialogue n_format) with false. cbv iota.
  destruct Hr as (Hok & _). rewrite (event_row_canon v4p e Hok).
  destruct v4p; reflexivity.
Qed.

Lemma event_rows_run v4p l : forall s, Forall (fun i => event_repr (event_of_item i)) l ->
  rs_sect s = SEvents -> rs_fmt s = map eattr_name (event_format v4p) ->
  ssa_run s false (map (fun i => n_dialogue_pfx ++ event_string (event_of_item i) (event_format v4p)) l) =
  Ok (mkRstate SEvents (rs_fmt s) (rs_info s) (rs_styles s) (rs_events s ++ map (fun i => event_canon v4p (event_of_item i)) l)).
Proof.
  induction l as [|i r IH]; intros s HF Hs Hf.
  - cbn [map ssa_run]. rewrite app_nil_r. destruct s; cbn in *; subst; reflexivity.
  - inversion HF as [|? ? Hi HF']; subst. cbn [map ssa_run].
    rewrite (event_row_step s v4p _ Hi Hs Hf).
    rewrite IH; [|exact HF' | reflexivity | exact Hf].
    cbn [rs_fmt rs_info rs_styles rs_events]. rewrite <- app_assoc. reflexivity.
Qed.

(* READING THE EVENTS BLOCK *)
Theorem events_block_read s v4p items : rs_sect s <> SUnknown -> Forall (fun i => event_repr (event_of_item i)) items ->
  ssa_run s false (events_lines v4p items) =
  Ok (mkRstate SEvents (map eattr_name (event_format v4p)) (rs_info s) (rs_styles s)
               (rs_events s ++ map (fun i => event_canon v4p (event_of_item i)) items)).
Proof.
  intros Hs HF. unfold events_lines. cbn [app ssa_run]. rewrite blank_step, events_hdr_step.
  rewrite format_step; cbn [rs_sect rs_fmt rs_info rs_styles rs_events].
  - rewrite (event_rows_run v4p items); cbn [rs_sect rs_fmt rs_info rs_styles rs_events]; try reflexivity; assumption.
  - right. reflexivity.
  - reflexivity.
  - destruct v4p; discriminate.
  - apply Forall_forall. intros n Hin. apply in_map_iff in Hin. destruct Hin as (a & <- & _). apply eattr_name_clean.
Qed.
