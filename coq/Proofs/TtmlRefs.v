(* C03: what the reader does not look at (namespace prefixes, attribute order), and what it resolves
   (style parents for any forest - or graph - of styles, language codes). *)
From Coq Require Import List ZArith NArith Bool Lia Permutation.
From Astisub Require Import Kit.Base Kit.Str Kit.Float64 Kit.Float64x Kit.Xml Model.Dur Model.Ttml.
Import ListNotations.
Open Scope N_scope.

(* ================= namespace prefixes ================= *)
(* any re-assignment of the name spaces of element and attribute names (what a change of prefixes,
   default namespace or bindings does to the token tree) *)
Definition rename (f : xname -> str) (n : xname) : xname := mkName (f n) (x_local n).
Fixpoint respace (f : xname -> str) (n : xnode) : xnode :=
  match n with
  | XText s => XText s
  | XElem nm al ks => XElem (rename f nm) (map (fun a => (rename f (fst a), snd a)) al) (map (respace f) ks)
  end.

Section Respace.
  Variable f : xname -> str.
  Let ra (al : list xattr) : list xattr := map (fun a => (rename f (fst a), snd a)) al.

  Lemma attr_vals_respace l al : attr_vals l (ra al) = attr_vals l al.
  Proof. unfold ra. induction al as [|[n v] r IH]; [reflexivity|]. cbn [map attr_vals fst snd rename x_local]. rewrite IH. reflexivity. Qed.
  Lemma attr_last_respace l al : attr_last l (ra al) = attr_last l al.
  Proof. unfold attr_last. rewrite attr_vals_respace. reflexivity. Qed.
  Lemma attr_str_respace l al : attr_str l (ra al) = attr_str l al.
  Proof. unfold attr_str. rewrite attr_last_respace. reflexivity. Qed.
  Lemma int_attr_respace l al : int_attr l (ra al) = int_attr l al.
  Proof. unfold int_attr. rewrite attr_vals_respace. reflexivity. Qed.
  Lemma dur_attr_respace l al : dur_attr l (ra al) = dur_attr l al.
  Proof. unfold dur_attr. rewrite attr_vals_respace. reflexivity. Qed.
  Lemma read_attrs_respace al : tt_read_attrs (ra al) = tt_read_attrs al.
  Proof.
    unfold tt_read_attrs. rewrite int_attr_respace.
    destruct (int_attr s_zIndex al); [|reflexivity]. f_equal. f_equal. apply map_ext. intros n. apply attr_last_respace.
  Qed.

  Lemma elem_attrs_respace n : elem_attrs (respace f n) = ra (elem_attrs n).
  Proof. destruct n; reflexivity. Qed.
  Lemma elem_kids_respace n : elem_kids (respace f n) = map (respace f) (elem_kids n).
  Proof. destruct n; reflexivity. Qed.
  Lemma is_elem_named_respace l n : is_elem_named l (respace f n) = is_elem_named l n.
  Proof. destruct n; reflexivity. Qed.
  Lemma kids_named_respace l ks : kids_named l (map (respace f) ks) = map (respace f) (kids_named l ks).
  Proof.
    unfold kids_named. induction ks as [|k r IH]; [reflexivity|]. cbn [map filter]. rewrite is_elem_named_respace, IH.
    destruct (is_elem_named l k); reflexivity.
  Qed.
  Lemma flat_map_kids_respace (g : list xnode -> list xnode) l :
    (forall ks, g (map (respace f) ks) = map (respace f) (g ks)) ->
    flat_map (fun n => g (elem_kids n)) (map (respace f) l) = map (respace f) (flat_map (fun n => g (elem_kids n)) l).
  Proof.
    intros Hg. induction l as [|n r IH]; [reflexivity|]. cbn [map flat_map]. rewrite IH, elem_kids_respace, Hg, map_app. reflexivity.
  Qed.
  Lemma path_elems_respace p : forall ks, path_elems p (map (respace f) ks) = map (respace f) (path_elems p ks).
  Proof.
    induction p as [|l p IH]; intros ks; [reflexivity|].
    destruct p as [|l2 p].
    - cbn [path_elems]. apply kids_named_respace.
    - change (path_elems (l :: l2 :: p) (map (respace f) ks))
        with (flat_map (fun n => path_elems (l2 :: p) (elem_kids n)) (kids_named l (map (respace f) ks))).
      change (path_elems (l :: l2 :: p) ks) with (flat_map (fun n => path_elems (l2 :: p) (elem_kids n)) (kids_named l ks)).
      rewrite kids_named_respace. apply (flat_map_kids_respace (path_elems (l2 :: p))). exact IH.
  Qed.
  Lemma direct_text_respace ks : direct_text (map (respace f) ks) = direct_text ks.
  Proof. unfold direct_text. induction ks as [|k r IH]; [reflexivity|]. cbn [map flat_map]. rewrite IH. destruct k; reflexivity. Qed.
  Lemma last_text_respace l : last_text (map (respace f) l) = last_text l.
  Proof.
    unfold last_text. rewrite <- map_rev. destruct (rev l) as [|n r]; [reflexivity|]. cbn [map].
    rewrite elem_kids_respace. apply direct_text_respace.
  Qed.
  Lemma flat_kids_respace l : flat_map elem_kids (map (respace f) l) = map (respace f) (flat_map elem_kids l).
  Proof. induction l as [|n r IH]; [reflexivity|]. cbn [map flat_map]. rewrite IH, elem_kids_respace, map_app. reflexivity. Qed.

  Lemma strip_node_respace n : strip_node (respace f n) = respace f (strip_node n).
  Proof.
    induction n as [s|nm al ks IH] using xnode_ind'; [reflexivity|].
    cbn [respace strip_node]. f_equal. rewrite !map_map. apply map_ext_in. intros k Hk.
    rewrite Forall_forall in IH. apply IH. exact Hk.
  Qed.
  Lemma strip_content_respace ks : strip_content (map (respace f) ks) = map (respace f) (strip_content ks).
  Proof.
    assert (Hm : forall l, map strip_node (map (respace f) l) = map (respace f) (map strip_node l)).
    { intros l. rewrite !map_map. apply map_ext. intros k. apply strip_node_respace. }
    destruct ks as [|[s|nm al kk] r]; [reflexivity | |].
    - cbn [map respace strip_content]. rewrite Hm. reflexivity.
    - change (strip_content (map (respace f) (XElem nm al kk :: r))) with (map strip_node (map (respace f) (XElem nm al kk :: r))).
      rewrite Hm. reflexivity.
  Qed.
  Lemma item_text_respace ks : tt_item_text (map (respace f) ks) = tt_item_text ks.
  Proof. unfold tt_item_text. induction ks as [|k r IH]; [reflexivity|]. cbn [map flat_map]. rewrite IH. destruct k; reflexivity. Qed.
  Lemma items_of_respace ks : items_of (map (respace f) ks) = items_of ks.
  Proof.
    induction ks as [|k r IH]; [reflexivity|]. destruct k as [s|nm al kk]; cbn [map respace items_of]; rewrite IH; [reflexivity|].
    fold (ra al). rewrite read_attrs_respace, attr_str_respace, item_text_respace. reflexivity.
  Qed.
  Lemma read_p_respace st rg fr tr p : read_p st rg fr tr (respace f p) = read_p st rg fr tr p.
  Proof.
    unfold read_p. rewrite elem_attrs_respace, elem_kids_respace. fold (ra (elem_attrs p)).
    rewrite !dur_attr_respace, read_attrs_respace, !attr_str_respace, strip_content_respace, items_of_respace. reflexivity.
  Qed.
  Lemma read_header_respace n : read_header (respace f n) = read_header n.
  Proof. unfold read_header. rewrite elem_attrs_respace. fold (ra (elem_attrs n)). rewrite read_attrs_respace, !attr_str_respace. reflexivity. Qed.
  Lemma map_res_respace {B} (g : xnode -> res B) l : (forall n, g (respace f n) = g n) -> map_res g (map (respace f) l) = map_res g l.
  Proof. intros Hg. induction l as [|n r IH]; [reflexivity|]. cbn [map map_res]. rewrite Hg, IH. reflexivity. Qed.

  (* the reader's result does not depend on name spaces: prefixes, default namespace, bindings *)
  Theorem read_ttml_respace t : read_ttml (respace f t) = read_ttml t.
  Proof.
    destruct t as [s|nm al ks]; [reflexivity|]. cbn [respace read_ttml rename x_local]. fold (ra al).
    rewrite !int_attr_respace, attr_str_respace, !path_elems_respace.
    rewrite flat_kids_respace, !path_elems_respace, !last_text_respace.
    rewrite !(map_res_respace read_header) by apply read_header_respace.
    destruct (negb (str_eqb (x_local nm) s_tt)); [reflexivity|].
    destruct (int_attr s_frameRate al); [|reflexivity]. destruct (int_attr s_tickRate al); [|reflexivity].
    destruct (map_res read_header (path_elems [s_head; s_layout; s_region] ks)); cbn [bind]; try reflexivity.
    destruct (map_res read_header (path_elems [s_head; s_styling; s_style] ks)); cbn [bind]; try reflexivity.
    destruct (negb _); [reflexivity|]. destruct (negb _); [reflexivity|].
    rewrite map_res_respace by (intros n; apply read_p_respace). reflexivity.
  Qed.
End Respace.

(* ================= attribute order ================= *)
Definition attr_local (a : xattr) : str := x_local (fst a).
Lemma attr_vals_in l al v : In v (attr_vals l al) <-> exists n, In (n, v) al /\ x_local n = l.
Proof.
  induction al as [|[n w] r IH]; cbn [attr_vals]; [split; [contradiction | intros (n & [] & _)]|].
  destruct (str_eqb (x_local n) l) eqn:E.
  - apply str_eqb_eq in E. cbn [In]. rewrite IH. split.
    + intros [<-|(n' & Hin & Hl)]; [exists n; split; [left; reflexivity | exact E] | exists n'; split; [right; exact Hin | exact Hl]].
    + intros (n' & [Heq|Hin] & Hl); [inversion Heq; left; reflexivity | right; exists n'; split; assumption].
  - rewrite IH. split.
    + intros (n' & Hin & Hl). exists n'. split; [right; exact Hin | exact Hl].
    + intros (n' & [Heq|Hin] & Hl); [|exists n'; split; assumption].
      inversion Heq; subst. rewrite str_eqb_refl in E. discriminate.
Qed.
Lemma attr_vals_length_nodup l al : NoDup (map attr_local al) -> (length (attr_vals l al) <= 1)%nat.
Proof.
  induction al as [|[n w] r IH]; intros Hnd; cbn [attr_vals]; [cbn; lia|].
  cbn [map] in Hnd. inversion Hnd as [|? ? Hnot Hr]; subst.
  destruct (str_eqb (x_local n) l) eqn:E; [|apply IH; exact Hr].
  apply str_eqb_eq in E. cbn [length].
  destruct (attr_vals l r) as [|v vs] eqn:Ev; [cbn; lia|]. exfalso. apply Hnot.
  assert (Hin : In v (attr_vals l r)) by (rewrite Ev; left; reflexivity).
  apply attr_vals_in in Hin. destruct Hin as (n' & Hin & Hl). unfold attr_local at 1. cbn [fst].
  rewrite E, <- Hl. change (x_local n') with (attr_local (n', v)). apply in_map. exact Hin.
Qed.
(* with distinct local names the order of an element's attributes is irrelevant to every accessor *)
Theorem attr_vals_perm l al al' : Permutation al al' -> NoDup (map attr_local al) -> attr_vals l al' = attr_vals l al.
Proof.
  intros Hp Hnd.
  assert (Hnd' : NoDup (map attr_local al')) by (eapply Permutation_NoDup; [apply Permutation_map; exact Hp | exact Hnd]).
  pose proof (attr_vals_length_nodup l al Hnd) as L1. pose proof (attr_vals_length_nodup l al' Hnd') as L2.
  assert (Hiff : forall v, In v (attr_vals l al) <-> In v (attr_vals l al')).
  { intros v. rewrite !attr_vals_in. split; intros (n & Hin & Hl); exists n; (split; [|exact Hl]).
    - eapply Permutation_in; [exact Hp | exact Hin].
    - eapply Permutation_in; [apply Permutation_sym; exact Hp | exact Hin]. }
  destruct (attr_vals l al) as [|v [|v2 r]], (attr_vals l al') as [|w [|w2 r']]; cbn [length] in *; try lia; try reflexivity.
  - exfalso. apply (proj2 (Hiff w)). left. reflexivity.
  - exfalso. apply (proj1 (Hiff v)). left. reflexivity.
  - destruct (proj1 (Hiff v) (or_introl eq_refl)) as [<-|[]]. reflexivity.
Qed.
Corollary read_attrs_perm al al' : Permutation al al' -> NoDup (map attr_local al) -> tt_read_attrs al' = tt_read_attrs al.
Proof.
  intros Hp Hnd. unfold tt_read_attrs, int_attr, attr_last. rewrite (attr_vals_perm s_zIndex al al' Hp Hnd).
  destruct (fold_left _ _ _); [|reflexivity]. f_equal. f_equal. apply map_ext. intros n. rewrite (attr_vals_perm n al al' Hp Hnd). reflexivity.
Qed.
Corollary attr_str_perm l al al' : Permutation al al' -> NoDup (map attr_local al) -> attr_str l al' = attr_str l al.
Proof. intros Hp Hnd. unfold attr_str, attr_last. rewrite (attr_vals_perm l al al' Hp Hnd). reflexivity. Qed.
Corollary dur_attr_perm l al al' : Permutation al al' -> NoDup (map attr_local al) -> dur_attr l al' = dur_attr l al.
Proof. intros Hp Hnd. unfold dur_attr. rewrite (attr_vals_perm l al al' Hp Hnd). reflexivity. Qed.
Corollary int_attr_perm l al al' : Permutation al al' -> NoDup (map attr_local al) -> int_attr l al' = int_attr l al.
Proof. intros Hp Hnd. unfold int_attr. rewrite (attr_vals_perm l al al' Hp Hnd). reflexivity. Qed.

Theorem attr_order_irrelevant : forall al al', Permutation al al' -> NoDup (map attr_local al) ->
  tt_read_attrs al' = tt_read_attrs al /\
  (forall l, attr_str l al' = attr_str l al /\ dur_attr l al' = dur_attr l al /\ int_attr l al' = int_attr l al).
Proof.
  intros al al' Hp Hn. split; [exact (read_attrs_perm al al' Hp Hn)|].
  intros l. repeat split; [exact (attr_str_perm l al al' Hp Hn) | exact (dur_attr_perm l al al' Hp Hn) | exact (int_attr_perm l al al' Hp Hn)].
Qed.

(* ================= style parents ================= *)
Lemma map_get_set_same {V} k (v : V) m : map_get k (map_set k v m) = Some v.
Proof.
  induction m as [|[k' v'] r IH]; cbn [map_set map_get]; [rewrite str_eqb_refl; reflexivity|].
  destruct (str_eqb k k') eqn:E; cbn [map_get]; [rewrite str_eqb_refl; reflexivity|]. rewrite E. exact IH.
Qed.
Lemma map_get_set_other {V} k k2 (v : V) m : k2 <> k -> map_get k2 (map_set k v m) = map_get k2 m.
Proof.
  intros Hne. induction m as [|[k' v'] r IH]; cbn [map_set map_get].
  - destruct (str_eqb k2 k) eqn:E; [apply str_eqb_eq in E; contradiction | reflexivity].
  - destruct (str_eqb k k') eqn:E; cbn [map_get].
    + apply str_eqb_eq in E. subst k'. destruct (str_eqb k2 k) eqn:E2; [apply str_eqb_eq in E2; contradiction | reflexivity].
    + rewrite IH. reflexivity.
Qed.
Lemma find_app' {A} (p : A -> bool) l1 l2 : find p (l1 ++ l2) = match find p l1 with Some x => Some x | None => find p l2 end.
Proof. induction l1 as [|a r IH]; [reflexivity|]. cbn [app find]. destruct (p a); [reflexivity | exact IH]. Qed.
(* the style table after loading: an identifier maps to the last style that carries it *)
Lemma add_all_get l : forall m id,
  map_get id (add_all l m) =
  match find (fun s => str_eqb id (ts_id s)) (rev l) with Some s => Some s | None => map_get id m end.
Proof.
  unfold add_all. induction l as [|s r IH]; intros m id; [reflexivity|].
  cbn [fold_left rev]. rewrite IH, find_app'.
  destruct (find (fun s0 => str_eqb id (ts_id s0)) (rev r)); [reflexivity|].
  cbn [find]. destruct (str_eqb id (ts_id s)) eqn:E.
  - apply str_eqb_eq in E. subst id. apply map_get_set_same.
  - apply map_get_set_other. intros H. subst id. rewrite str_eqb_refl in E. discriminate.
Qed.
Lemma find_unique (l : list tstyle) s : NoDup (map ts_id l) -> In s l ->
  find (fun s0 => str_eqb (ts_id s) (ts_id s0)) l = Some s.
Proof.
  induction l as [|a r IH]; intros Hnd Hin; [contradiction|]. cbn [map] in Hnd. inversion Hnd as [|? ? Hnot Hr]; subst.
  cbn [find]. destruct Hin as [->|Hin]; [rewrite str_eqb_refl; reflexivity|].
  destruct (str_eqb (ts_id s) (ts_id a)) eqn:E; [|apply IH; assumption].
  apply str_eqb_eq in E. exfalso. apply Hnot. rewrite <- E. apply in_map. exact Hin.
Qed.
Lemma map_res_ok_in {A B} (g : A -> res B) l bs : map_res g l = Ok bs -> forall b, In b bs -> exists a, In a l /\ g a = Ok b.
Proof.
  revert bs. induction l as [|a r IH]; intros bs H b Hb; cbn [map_res] in H; [inversion H; subst; contradiction|].
  destruct (g a) as [b0|k|s] eqn:Ea; cbn [bind] in H; try discriminate.
  destruct (map_res g r) as [bs0|k|s] eqn:Er; cbn [bind] in H; try discriminate. inversion H; subst.
  destruct Hb as [<-|Hb]; [exists a; split; [left; reflexivity | exact Ea]|].
  destruct (IH bs0 eq_refl b Hb) as (a' & Hin & Hg). exists a'. split; [right; exact Hin | exact Hg].
Qed.
Lemma map_res_ok_map {A B} (g : A -> res B) l bs : map_res g l = Ok bs -> forall a, In a l -> exists b, In b bs /\ g a = Ok b.
Proof.
  revert bs. induction l as [|a0 r IH]; intros bs H a Ha; [contradiction|]. cbn [map_res] in H.
  destruct (g a0) as [b0|k|s] eqn:Ea; cbn [bind] in H; try discriminate.
  destruct (map_res g r) as [bs0|k|s] eqn:Er; cbn [bind] in H; try discriminate. inversion H; subst.
  destruct Ha as [<-|Ha]; [exists b0; split; [left; reflexivity | exact Ea]|].
  destruct (IH bs0 eq_refl a Ha) as (b & Hin & Hg). exists b. split; [right; exact Hin | exact Hg].
Qed.
Lemma map_res_ok_ids {A B} (g : A -> res B) (ia : A -> str) (ib : B -> str) l bs :
  (forall a b, g a = Ok b -> ib b = ia a) -> map_res g l = Ok bs -> map ib bs = map ia l.
Proof.
  intros Hid. revert bs. induction l as [|a r IH]; intros bs H; cbn [map_res] in H; [inversion H; reflexivity|].
  destruct (g a) as [b0|k|s] eqn:Ea; cbn [bind] in H; try discriminate.
  destruct (map_res g r) as [bs0|k|s] eqn:Er; cbn [bind] in H; try discriminate. inversion H; subst.
  cbn [map]. rewrite (Hid a b0 Ea), (IH bs0 eq_refl). reflexivity.
Qed.

Definition style_elems (root : xnode) : list xnode := path_elems [s_head; s_styling; s_style] (elem_kids root).
Definition elem_id (n : xnode) : str := attr_str s_id (elem_attrs n).
Definition elem_style (n : xnode) : option str := opt_ref (attr_str s_style (elem_attrs n)).

Lemma read_ttml_styles root d : read_ttml root = Ok d ->
  exists sts, map_res read_header (style_elems root) = Ok sts /\ td_styles d = add_all sts [] /\
              forallb (ref_ok (add_all sts [])) sts = true.
Proof.
  destruct root as [s|nm al ks]; [discriminate|]. unfold style_elems. cbn [read_ttml elem_kids].
  destruct (negb _); [discriminate|].
  destruct (int_attr s_frameRate al); [|discriminate]. destruct (int_attr s_tickRate al); [|discriminate].
  destruct (map_res read_header (path_elems [s_head; s_layout; s_region] ks)); cbn [bind]; try discriminate.
  destruct (map_res read_header (path_elems [s_head; s_styling; s_style] ks)) as [sts|k|s]; cbn [bind]; try discriminate.
  destruct (forallb (ref_ok (add_all sts [])) sts) eqn:E1; cbn [negb]; [|discriminate].
  destruct (negb _); [discriminate|].
  match goal with |- context [map_res ?g ?l] => destruct (map_res g l) end; cbn [bind]; try discriminate.
  intros H. inversion H; subst. exists sts. cbn [td_styles]. auto.
Qed.

(* every style element is linked to the parent its style attribute names - whatever the shape of the
   parent relation (several styles sharing a parent, parents defined after their children, chains) -
   and that parent is a style of the document; stated for documents whose style identifiers are distinct *)
Theorem styles_linked root d : read_ttml root = Ok d -> NoDup (map elem_id (style_elems root)) ->
  forall n, In n (style_elems root) ->
  exists s, map_get (elem_id n) (td_styles d) = Some s /\ ts_id s = elem_id n /\ ts_ref s = elem_style n /\
            match elem_style n with Some p => map_mem p (td_styles d) = true | None => True end.
Proof.
  intros Hr Hnd n Hn. destruct (read_ttml_styles root d Hr) as (sts & Hm & Hs & Hok).
  assert (Hhdr : forall a b, read_header a = Ok b -> ts_id b = elem_id a /\ ts_ref b = elem_style a).
  { intros a b H. unfold read_header in H. destruct (tt_read_attrs (elem_attrs a)); [|discriminate]. inversion H; subst. split; reflexivity. }
  destruct (map_res_ok_map _ _ _ Hm n Hn) as (s & Hin & Hg). destruct (Hhdr n s Hg) as [Hid Href].
  assert (Hids : map ts_id sts = map elem_id (style_elems root)).
  { apply (map_res_ok_ids read_header elem_id ts_id _ _ (fun a b H => proj1 (Hhdr a b H)) Hm). }
  exists s. rewrite Hs, add_all_get. rewrite <- Hid.
  rewrite find_unique; [| rewrite map_rev, Hids; apply NoDup_rev; exact Hnd | apply in_rev in Hin; exact Hin].
  split; [reflexivity|]. split; [reflexivity|]. split; [exact Href|].
  rewrite forallb_forall in Hok. specialize (Hok s Hin). unfold ref_ok in Hok. rewrite Href in Hok.
  destruct (elem_style n); [exact Hok | exact I].
Qed.

(* ================= language ================= *)
(* the five languages are recognised by their code, with any subtag after it *)
Theorem lang_of_table : forall code name rest, In (code, name) lang_table -> lang_of (code ++ rest) = name.
Proof.
  intros code name rest Hin. unfold lang_table in Hin.
  repeat (destruct Hin as [Heq|Hin]; [inversion Heq; subst; reflexivity|]). contradiction.
Qed.
Theorem lang_inverse : forall code name, In (code, name) lang_table -> map_get_inv name lang_table = Some code.
Proof.
  intros code name Hin. unfold lang_table in Hin.
  repeat (destruct Hin as [Heq|Hin]; [inversion Heq; subst; reflexivity|]). contradiction.
Qed.

(* ================= references of cues and runs ================= *)
Definition opt_in {V} (m : list (str * V)) (r : option str) : Prop :=
  match r with Some k => map_mem k m = true | None => True end.

Lemma opt_ref_in {V} (m : list (str * V)) k : null k || map_mem k m = true -> opt_in m (opt_ref k).
Proof. destruct k as [|c r]; [intros _; exact I|]. cbn [null orb opt_ref opt_in]. auto. Qed.

Lemma lines_of_run_in ts : forall l r, In l (lines_of ts) -> In r l -> In (TRun r) ts.
Proof.
  induction ts as [|t ts IH]; intros l r Hl Hr; cbn [lines_of] in Hl.
  - destruct Hl as [<-|[]]. contradiction.
  - destruct t as [|x].
    + destruct Hl as [<-|Hl]; [contradiction|]. right. exact (IH l r Hl Hr).
    + destruct (lines_of ts) as [|l0 ls] eqn:E.
      * destruct Hl as [<-|[]]. destruct Hr as [<-|[]]. left. reflexivity.
      * destruct Hl as [<-|Hl].
        -- destruct Hr as [<-|Hr]; [left; reflexivity|]. right. apply (IH l0 r); [left; reflexivity | exact Hr].
        -- right. apply (IH l r); [right; exact Hl | exact Hr].
Qed.

Lemma run_toks_style {V} (styles : list (str * V)) it r : item_style_ok styles it = true -> In (TRun r) (run_toks it) ->
  opt_in styles (tr_style r).
Proof.
  unfold item_style_ok, run_toks. intros Hok Hin. destruct (is_br (in_local it)); [destruct Hin as [H|[]]; discriminate|].
  cbn [orb] in Hok.
  assert (Hall : forall t, In t (map (fun t => TRun (mkRun t (opt_ref (in_style it)) (in_attrs it))) (split_byte 10 (in_text it))) ->
                 forall r', t = TRun r' -> opt_in styles (tr_style r')).
  { intros t Ht r' ->. apply in_map_iff in Ht. destruct Ht as (x & Hx & _). inversion Hx; subst. cbn [tr_style]. apply opt_ref_in. exact Hok. }
  destruct (map _ (split_byte 10 (in_text it))) as [|t0 ts] eqn:E; [contradiction|].
  destruct Hin as [Heq|Hin]; [apply (Hall t0); [left; reflexivity | exact Heq]|].
  apply in_flat_map in Hin. destruct Hin as (t & Ht & Hin). destruct Hin as [H|[H|[]]]; [discriminate|].
  apply (Hall t); [right; exact Ht | exact H].
Qed.

Lemma read_p_refs st rg fr tr p it : read_p st rg fr tr p = Ok it ->
  opt_in rg (ti_region it) /\ opt_in st (ti_style it) /\
  Forall (Forall (fun r => opt_in st (tr_style r))) (ti_lines it).
Proof.
  unfold read_p. destruct (dur_attr s_begin _) as [[b|]|]; try discriminate.
  destruct (dur_attr s_end _) as [[e|]|]; try discriminate. destruct (tt_read_attrs _) as [ta|]; try discriminate.
  destruct (null (attr_str s_region (elem_attrs p)) || map_mem (attr_str s_region (elem_attrs p)) rg) eqn:E1; cbn [negb]; [|discriminate].
  destruct (null (attr_str s_style (elem_attrs p)) || map_mem (attr_str s_style (elem_attrs p)) st) eqn:E2; cbn [negb]; [|discriminate].
  destruct (items_of _) as [its|]; [|discriminate]. destruct (forallb (item_style_ok st) its) eqn:E3; [|discriminate].
  intros H. inversion H; subst. cbn [ti_region ti_style ti_lines].
  split; [apply opt_ref_in; exact E1|]. split; [apply opt_ref_in; exact E2|].
  rewrite Forall_forall. intros l Hl. rewrite Forall_forall. intros r Hr.
  pose proof (lines_of_run_in _ l r Hl Hr) as Hin. apply in_flat_map in Hin. destruct Hin as (x & Hx & Hin).
  rewrite forallb_forall in E3. exact (run_toks_style st x r (E3 x Hx) Hin).
Qed.

(* every reference the reader returns - a cue's region and style, a run's style - names an entry of the
   document's tables (unresolved references are errors) *)
Theorem refs_closed root d : read_ttml root = Ok d ->
  Forall (fun it => opt_in (td_regions d) (ti_region it) /\ opt_in (td_styles d) (ti_style it) /\
                    Forall (Forall (fun r => opt_in (td_styles d) (tr_style r))) (ti_lines it)) (td_items d).
Proof.
  destruct root as [s|nm al ks]; [discriminate|]. cbn [read_ttml].
  destruct (negb _); [discriminate|].
  destruct (int_attr s_frameRate al); [|discriminate]. destruct (int_attr s_tickRate al); [|discriminate].
  destruct (map_res read_header (path_elems [s_head; s_layout; s_region] ks)) as [rgs|k|s]; cbn [bind]; try discriminate.
  destruct (map_res read_header (path_elems [s_head; s_styling; s_style] ks)) as [sts|k|s]; cbn [bind]; try discriminate.
  destruct (negb _); [discriminate|]. destruct (negb _); [discriminate|].
  match goal with |- context [map_res ?g ?l] => destruct (map_res g l) as [items|k|s] eqn:E end; cbn [bind]; try discriminate.
  intros H. inversion H; subst. cbn [td_regions td_styles td_items].
  rewrite Forall_forall. intros it Hit. destruct (map_res_ok_in _ _ _ E it Hit) as (p & _ & Hp).
  exact (read_p_refs _ _ _ _ p it Hp).
Qed.
