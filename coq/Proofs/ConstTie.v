(* The literals of the hand-written models tied to the NAMED constants of the Go source.

   Gen/Consts.v is regenerated from /repo's current source on every run (tools/genconsts).  Every statement below is a
   closed boolean computed by the kernel: the model's literal IS the package-level constant, the xml struct tag or the
   bidirectional-map entry of the source.  A constant edited in the Go source (a column name, a separator, an attribute
   tag, a language code) therefore breaks one of these lemmas - and with it the property file that states it - before any
   input is generated.

   Deliberately NOT tied here: string literals inside function bodies and the patterns handed to regexp.MustCompile
   (Gen/Consts.v lists them under the prefixes gc_strs and gc_re).  A behaviour-preserving rewrite moves or splits such literals and
   replaces a regexp by an equivalent scan; a tie on them would turn every such rewrite into a broken obligation.  Changes
   there are noticed by the source-drift fingerprints (bin/check), which widen the search instead of giving a verdict.

   What this does not show: that the constant is USED by the code where the model uses it (the correspondence check's
   part).  One file per format, so that a change in one format's constants touches that format's property only. *)
From Coq Require Import List NArith ZArith Bool.
From Astisub Require Import Kit.Base Kit.Str Gen.Consts.
Import ListNotations.
Open Scope N_scope.

Definition eqs (a b : str) : bool := str_eqb a b.
Definition mem (a : str) (l : list str) : bool := existsb (str_eqb a) l.
Definition all (l : list bool) : bool := forallb (fun b => b) l.

(* the local name of an xml struct tag: between the first ':' or space (a namespace prefix or URL) and the first ',' *)
Fixpoint upto (c : N) (s : str) : str := match s with [] => [] | x :: r => if x =? c then [] else x :: upto c r end.
Fixpoint after (c : N) (s : str) : option str :=
  match s with [] => None | x :: r => if x =? c then Some r else after c r end.
Definition tag_name (t : str) : str :=
  let t := upto 44 t in
  match after 32 t with Some r => r | None => match after 58 t with Some r => r | None => t end end.
Definition tag_of (field : str) (tags : list (str * str)) : str :=
  match find (fun p => str_eqb (fst p) field) tags with Some p => tag_name (snd p) | None => [] end.

