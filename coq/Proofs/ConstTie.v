(* The literals of the hand-written models tied to the constants of the Go source.

   Gen/Consts.v is regenerated from /repo's current source on every run (tools/genconsts: package-level constants,
   regexp patterns, bidirectional-map entries, xml struct tags, and per function the set of string literals in its
   body).  Every statement below is a closed boolean computed by the kernel: the model's literal IS the Go constant
   ([eqs]), or occurs among the string literals of the Go function the model transcribes ([mem]).  A constant edited in
   the Go source (a column name, a block keyword, an attribute tag, a language code, an escape sequence) therefore breaks
   one of these lemmas - and with it the property file that states it - even before any input is generated.

   What this does NOT show: that the constant is USED by the code where the model uses it (that is the correspondence
   check's part), nor anything about literals of one or two characters whose membership in a function body is weak
   evidence (they are listed for completeness). *)
From Coq Require Import List NArith ZArith Bool.
From Astisub Require Import Kit.Base Kit.Str Gen.Consts.
From Astisub Require Model.Srt Model.Vtt Model.Ssa Model.Ttml.
Import ListNotations.
Open Scope N_scope.

Definition eqs (a b : str) : bool := str_eqb a b.
Definition mem (a : str) (l : list str) : bool := existsb (str_eqb a) l.
Definition all (l : list bool) : bool := forallb (fun b => b) l.

(* the local name of an xml struct tag: between the first ':' or space (a namespace prefix or URL) and the first ',' *)
Fixpoint upto (c : N) (s : str) : str := match s with [] => [] | x :: r => if x =? c then [] else x :: upto c r end.
Fixpoint after (c : N) (s : str) : option str :=
  match s with [] => None | x :: r => if x =? c then Some r else after c r end.
Definition tag_name (t : str) : str :=
  let t := upto 44 t in
  match after 32 t with Some r => r | None => match after 58 t with Some r => r | None => t end end.
Definition tag_of (field : str) (tags : list (str * str)) : str :=
  match find (fun p => str_eqb (fst p) field) tags with Some p => tag_name (snd p) | None => [] end.

(* ------------------------------------------------------------------ regular expressions
   The models' matchers were transcribed by hand from these five patterns (regexp itself is a named contract, DESIGN.md);
   the ties state that the patterns of the source are still exactly the ones transcribed. *)
(* Model/Ssa.v split_effects - \{[^\{]+\} *)
Definition re_ssa_effect : str := [92; 123; 91; 94; 92; 123; 93; 43; 92; 125].
(* Model/Ttml.v ttml_time (clock time with frames) - ^[^:]*:[^:]*:[^:]*(\:[\d]+)$ *)
Definition re_ttml_clock_frames : str := [94; 91; 94; 58; 93; 42; 58; 91; 94; 58; 93; 42; 58; 91; 94; 58; 93; 42; 40; 92; 58; 91; 92; 100; 93; 43; 41; 36].
(* Model/Ttml.v ttml_time (offset time) - ^(\d+(\.\d+)?)(h|m|s|ms|f|t)$ *)
Definition re_ttml_offset : str := [94; 40; 92; 100; 43; 40; 92; 46; 92; 100; 43; 41; 63; 41; 40; 104; 124; 109; 124; 115; 124; 109; 115; 124; 102; 124; 116; 41; 36].
(* Model/Vtt.v inline timestamps - <((?:\d{2,}:)?\d{2}:\d{2}\.\d{3})> *)
Definition re_vtt_inline_ts : str := [60; 40; 40; 63; 58; 92; 100; 123; 50; 44; 125; 58; 41; 63; 92; 100; 123; 50; 125; 58; 92; 100; 123; 50; 125; 92; 46; 92; 100; 123; 51; 125; 41; 62].
(* Model/Vtt.v tag tokens - (</*\s*([^\.\s]+)(\.[^\s/]* )*\s*([^/]* )\s*/*>) *)
Definition re_vtt_tag : str := [40; 60; 47; 42; 92; 115; 42; 40; 91; 94; 92; 46; 92; 115; 93; 43; 41; 40; 92; 46; 91; 94; 92; 115; 47; 93; 42; 41; 42; 92; 115; 42; 40; 91; 94; 47; 93; 42; 41; 92; 115; 42; 47; 42; 62; 41].

(* ------------------------------------------------------------------ SubRip *)
Module SrtTie.
Import Model.Srt.
Definition ties : list bool :=
  [ eqs arrow gc_srtTimeBoundariesSeparator
  ; mem n_b gc_strs_parseTextSrt; mem n_i gc_strs_parseTextSrt; mem n_u gc_strs_parseTextSrt
  ; mem n_font gc_strs_parseTextSrt; mem n_color gc_strs_parseTextSrt
  ; mem s_font_open gc_strs_LineItem_srtBytes; mem s_font_close gc_strs_LineItem_srtBytes
  ; mem [60; 98; 62] gc_strs_LineItem_srtBytes; mem [60; 47; 98; 62] gc_strs_LineItem_srtBytes
  ; mem [60; 105; 62] gc_strs_LineItem_srtBytes; mem [60; 47; 105; 62] gc_strs_LineItem_srtBytes
  ; mem [60; 117; 62] gc_strs_LineItem_srtBytes; mem [60; 47; 117; 62] gc_strs_LineItem_srtBytes
  ; all (map (fun p => match p with (CI 0, _) => true | (CI z, CI 0) => Z.eqb z (Z.of_N (nth 0 bom 0)) || Z.eqb z (Z.of_N (nth 1 bom 0)) || Z.eqb z (Z.of_N (nth 2 bom 0)) | _ => false end) gc_lit_BytesBOM)
  ; Nat.eqb (length gc_lit_BytesBOM) 3 ].
Lemma consts_from_source : all ties = true.
Proof. vm_compute. reflexivity. Qed.
End SrtTie.

(* ------------------------------------------------------------------ WebVTT *)
Module VttTie.
Import Model.Vtt.
Definition wr := gc_strs_Subtitles_WriteToWebVTT.
Definition rd := gc_strs_ReadFromWebVTT.
Definition ties : list bool :=
  [ mem p_note rd; mem p_style rd; mem p_region rd; mem p_note wr
  ; eqs p_tsmap gc_webvttTimestampMapHeader
  ; eqs default_style_id gc_webvttDefaultStyleID
  ; eqs [45; 45; 62] gc_webvttTimeBoundariesSeparator
  ; mem p_webvtt rd; mem p_webvtt wr
  ; mem k_id rd; mem k_lines rd; mem k_anchor rd; mem k_scroll rd; mem k_vanchor rd; mem k_width rd
  ; mem k_align rd; mem k_line rd; mem k_position rd; mem k_regionk rd; mem k_size rd; mem k_vertical rd
  ; mem (k_lines ++ [61]) wr; mem (k_anchor ++ [61]) wr; mem (k_scroll ++ [61]) wr; mem (k_vanchor ++ [61]) wr
  ; mem (k_width ++ [61]) wr
  ; mem (k_align ++ [58]) wr; mem (k_line ++ [58]) wr; mem (k_position ++ [58]) wr; mem (k_regionk ++ [58]) wr
  ; mem (k_size ++ [58]) wr; mem (k_vertical ++ [58]) wr
  ; mem k_local gc_strs_parseWebVTTTimestampMap; mem k_mpegts gc_strs_parseWebVTTTimestampMap
  ; eqs re_vtt_inline_ts gc_re_webVTTRegexpInlineTimestamp; eqs re_vtt_tag gc_re_webVTTRegexpTag ].
Lemma consts_from_source : all ties = true.
Proof. vm_compute. reflexivity. Qed.
End VttTie.

(* ------------------------------------------------------------------ SSA / ASS *)
Module SsaTie.
Import Model.Ssa.
Definition rd := gc_strs_ReadFromSSAWithOptions.
Definition wr := gc_strs_Subtitles_WriteToSSA.
Definition ties : list bool :=
  [ (* style Format names *)
    eqs (sattr_name (AB BBold)) gc_ssaStyleFormatNameBold; eqs (sattr_name (AB BItalic)) gc_ssaStyleFormatNameItalic
  ; eqs (sattr_name (AB BStrikeout)) gc_ssaStyleFormatNameStrikeout; eqs (sattr_name (AB BUnderline)) gc_ssaStyleFormatNameUnderline
  ; eqs (sattr_name (AC CBack)) gc_ssaStyleFormatNameBackColour; eqs (sattr_name (AC COutline)) gc_ssaStyleFormatNameOutlineColour
  ; eqs (sattr_name (AC CPrimary)) gc_ssaStyleFormatNamePrimaryColour; eqs (sattr_name (AC CSecondary)) gc_ssaStyleFormatNameSecondaryColour
  ; eqs n_tertiary gc_ssaStyleFormatNameTertiaryColour
  ; eqs (sattr_name (AF FAlphaLevel)) gc_ssaStyleFormatNameAlphaLevel; eqs (sattr_name (AF FAngle)) gc_ssaStyleFormatNameAngle
  ; eqs (sattr_name (AF FFontSize)) gc_ssaStyleFormatNameFontSize; eqs (sattr_name (AF FOutline)) gc_ssaStyleFormatNameOutline
  ; eqs (sattr_name (AF FScaleX)) gc_ssaStyleFormatNameScaleX; eqs (sattr_name (AF FScaleY)) gc_ssaStyleFormatNameScaleY
  ; eqs (sattr_name (AF FShadow)) gc_ssaStyleFormatNameShadow; eqs (sattr_name (AF FSpacing)) gc_ssaStyleFormatNameSpacing
  ; eqs (sattr_name (AI IAlignment)) gc_ssaStyleFormatNameAlignment; eqs (sattr_name (AI IBorderStyle)) gc_ssaStyleFormatNameBorderStyle
  ; eqs (sattr_name (AI IEncoding)) gc_ssaStyleFormatNameEncoding; eqs (sattr_name (AI IMarginL)) gc_ssaStyleFormatNameMarginL
  ; eqs (sattr_name (AI IMarginR)) gc_ssaStyleFormatNameMarginR; eqs (sattr_name (AI IMarginV)) gc_ssaStyleFormatNameMarginV
  ; eqs (sattr_name AFontName) gc_ssaStyleFormatNameFontName; eqs (sattr_name AName) gc_ssaStyleFormatNameName
    (* script info keys *)
  ; eqs (ikey_name KCollisions) gc_ssaScriptInfoNameCollisions; eqs (ikey_name KOriginalEditing) gc_ssaScriptInfoNameOriginalEditing
  ; eqs (ikey_name KOriginalScript) gc_ssaScriptInfoNameOriginalScript; eqs (ikey_name KOriginalTiming) gc_ssaScriptInfoNameOriginalTiming
  ; eqs (ikey_name KOriginalTranslation) gc_ssaScriptInfoNameOriginalTranslation; eqs (ikey_name KScriptType) gc_ssaScriptInfoNameScriptType
  ; eqs (ikey_name KScriptUpdatedBy) gc_ssaScriptInfoNameScriptUpdatedBy; eqs (ikey_name KSynchPoint) gc_ssaScriptInfoNameSynchPoint
  ; eqs (ikey_name KTitle) gc_ssaScriptInfoNameTitle; eqs (ikey_name KUpdateDetails) gc_ssaScriptInfoNameUpdateDetails
  ; eqs (ikey_name KWrapStyle) gc_ssaScriptInfoNameWrapStyle
  ; eqs (nkey_name KPlayDepth) gc_ssaScriptInfoNamePlayDepth; eqs (nkey_name KPlayResX) gc_ssaScriptInfoNamePlayResX
  ; eqs (nkey_name KPlayResY) gc_ssaScriptInfoNamePlayResY; eqs n_timer gc_ssaScriptInfoNameTimer
    (* event Format names and categories *)
  ; eqs (eattr_name EEffect) gc_ssaEventFormatNameEffect; eqs (eattr_name EEnd) gc_ssaEventFormatNameEnd
  ; eqs (eattr_name ELayer) gc_ssaEventFormatNameLayer; eqs (eattr_name EMarginL) gc_ssaEventFormatNameMarginL
  ; eqs (eattr_name EMarginR) gc_ssaEventFormatNameMarginR; eqs (eattr_name EMarginV) gc_ssaEventFormatNameMarginV
  ; eqs (eattr_name EMarked) gc_ssaEventFormatNameMarked; eqs (eattr_name EName) gc_ssaEventFormatNameName
  ; eqs (eattr_name EStart) gc_ssaEventFormatNameStart; eqs (eattr_name EStyle) gc_ssaEventFormatNameStyle
  ; eqs (eattr_name EText) gc_ssaEventFormatNameText
  ; eqs n_dialogue gc_ssaEventCategoryDialogue
    (* section names of the reader's switch, the Format key *)
  ; mem n_events rd; mem n_script_info rd; mem n_v4_styles rd; mem n_v4p_styles rd; mem n_v4_stylesp rd; mem n_format rd
    (* event cells *)
  ; mem n_star_default gc_strs_newSSAEventFromString; mem n_default gc_strs_newSSAEventFromString
  ; mem n_marked1 gc_strs_newSSAEventFromString; mem n_marked1 gc_strs_ssaEvent_string; mem n_marked0 gc_strs_ssaEvent_string
    (* writer *)
  ; mem n_v4plus wr; mem (10 :: n_styles_hdr_v4 ++ [10]) wr; mem (10 :: n_styles_hdr_v4p ++ [10]) wr
  ; mem (10 :: n_events_hdr ++ [10]) wr; mem n_format_pfx wr; mem n_style_pfx wr
  ; mem n_script_info_hdr gc_strs_ssaScriptInfo_bytes
  ; eqs re_ssa_effect gc_re_ssaRegexpEffect ].
Lemma consts_from_source : all ties = true.
Proof. vm_compute. reflexivity. Qed.
End SsaTie.

(* ------------------------------------------------------------------ TTML *)
Module TtmlTie.
Import Model.Ttml.
(* the 23 tts: attribute names, in the order of the struct (= the order in which encoding/xml writes them), are the
   local names of the xml tags of TTMLOutStyleAttributes; the reader's struct carries the same local names *)
Definition out_attr_names : list str := map (fun p => tag_name (snd p)) gc_xmltags_TTMLOutStyleAttributes.
Definition in_attr_names : list str := map (fun p => tag_name (snd p)) gc_xmltags_TTMLInStyleAttributes.
Fixpoint strs_eqb (a b : list str) : bool :=
  match a, b with [] , [] => true | x :: a', y :: b' => str_eqb x y && strs_eqb a' b' | _, _ => false end.
Definition lang_pairs : list (str * str) :=
  flat_map (fun p => match p with (CS a, CS b) => [(a, b)] | _ => [] end) gc_bimap_ttmlLanguageMapping.
Definition ties : list bool :=
  [ strs_eqb (attr_names ++ [[122; 73; 110; 100; 101; 120]]) out_attr_names          (* ... then zIndex, the integer one *)
  ; strs_eqb (attr_names ++ [[122; 73; 110; 100; 101; 120]]) in_attr_names
  ; Nat.eqb (length lang_table) (length gc_bimap_ttmlLanguageMapping)
  ; forallb (fun p => match map_get (fst p) lang_table with Some v => str_eqb v (snd p) | None => false end) lang_pairs
  ; Nat.eqb (length lang_pairs) (length gc_bimap_ttmlLanguageMapping)
  ; mem ns_ttm gc_strs_Subtitles_WriteToTTML; mem ns_tts gc_strs_Subtitles_WriteToTTML
  ; mem s_br gc_strs_Subtitles_WriteToTTML; mem s_span gc_strs_Subtitles_WriteToTTML
  ; mem s_br gc_strs_ReadFromTTML
  ; eqs (tag_of [88; 77; 76; 78; 97; 109; 101] gc_xmltags_TTMLOut) s_tt           (* XMLName -> tt *)
  ; eqs (tag_name (tag_of [88; 77; 76; 78; 97; 109; 101] gc_xmltags_TTMLOut)) s_tt
  ; eqs (tag_of [66; 101; 103; 105; 110] gc_xmltags_TTMLOutSubtitle) s_begin      (* Begin *)
  ; eqs (tag_of [69; 110; 100] gc_xmltags_TTMLOutSubtitle) s_end                  (* End *)
  ; eqs (tag_of [66; 101; 103; 105; 110] gc_xmltags_TTMLInSubtitle) s_begin
  ; eqs (tag_of [69; 110; 100] gc_xmltags_TTMLInSubtitle) s_end
  ; eqs re_ttml_clock_frames gc_re_ttmlRegexpClockTimeFrames; eqs re_ttml_offset gc_re_ttmlRegexpOffsetTime ].
Lemma consts_from_source : all ties = true.
Proof. vm_compute. reflexivity. Qed.
End TtmlTie.

