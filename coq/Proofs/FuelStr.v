(* Fuel audit, Kit/Str.v: cut_fuel, split_fuel, trim_left_fuel, trim_right_fuel, fields_fuel.
   Each of these returns a normal-looking value when its fuel runs out.  For each one:
     *_enough  : two fuels above the measure give the same value (so the out-of-fuel branch is never what the
                 wrapper's value rests on);
     *_indep   : the shape asked for by the audit, [measure <= fuel -> f fuel x = f (measure) x];
     fuel-free unfolding equations of the wrapper, which determine it uniquely (every recursive call is on a
     strictly shorter string), and the characterising statements that are cheap.
   Finding recorded here: [split_fuel] with an EMPTY separator does reach its out-of-fuel branch
   ([split_empty_sep_reaches_fuel]); the model restricts itself to non-empty separators and every call site in
   coq/Model passes a non-empty constant. *)
From Coq Require Import List ZArith NArith Bool Arith Lia.
From Astisub Require Import Kit.Base Kit.Str.
Import ListNotations.
Open Scope N_scope.

(* ---------------------------------------------------------------- prefix *)
Lemma fs_prefix_len p s r : prefix p s = Some r -> (length s = length p + length r)%nat.
Proof. intros H. apply prefix_Some in H. subst s. apply app_length. Qed.

Lemma fs_prefix_complete p s r : s = p ++ r -> prefix p s = Some r.
Proof. intros ->. apply prefix_app. Qed.

(* ---------------------------------------------------------------- cut *)
(* the same function by structural recursion on the string: no fuel *)
Fixpoint cut_rec (sep s : str) : option (str * str) :=
  match prefix sep s with
  | Some r => Some ([], r)
  | None => match s with
            | [] => None
            | c :: t => match cut_rec sep t with Some (a, b) => Some (c :: a, b) | None => None end
            end
  end.

Lemma cut_fuel_rec sep : forall fuel s, (length s < fuel)%nat -> cut_fuel fuel sep s = cut_rec sep s.
Proof.
  induction fuel as [|f IH]; intros s Hf; [lia|].
  destruct s as [|c t]; cbn [cut_fuel cut_rec]; [reflexivity|].
  destruct (prefix sep (c :: t)); [reflexivity|]. rewrite IH by (cbn [length] in Hf; lia). reflexivity.
Qed.

Lemma cut_fuel_enough sep n m s : (length s < n)%nat -> (length s < m)%nat -> cut_fuel n sep s = cut_fuel m sep s.
Proof. intros Hn Hm. rewrite !cut_fuel_rec by assumption. reflexivity. Qed.

Theorem cut_fuel_indep sep fuel s : (S (length s) <= fuel)%nat -> cut_fuel fuel sep s = cut_fuel (S (length s)) sep s.
Proof. intros H. apply cut_fuel_enough; lia. Qed.

Theorem cut_is_rec sep s : cut sep s = cut_rec sep s.
Proof. unfold cut. apply cut_fuel_rec. lia. Qed.

(* meaning: [Some (a, b)] exactly at the first occurrence of [sep]; [None] exactly when there is none *)
Lemma cut_rec_sound sep : forall s a b, cut_rec sep s = Some (a, b) -> s = a ++ sep ++ b.
Proof.
  induction s as [|c t IH]; intros a b H; cbn [cut_rec] in H.
  - destruct (prefix sep []) as [r|] eqn:E; [|discriminate]. inversion H; subst. apply prefix_Some in E. exact E.
  - destruct (prefix sep (c :: t)) as [r|] eqn:E.
    + inversion H; subst. apply prefix_Some in E. exact E.
    + destruct (cut_rec sep t) as [[a' b']|] eqn:E2; [|discriminate]. inversion H; subst.
      cbn [app]. f_equal. apply IH. reflexivity.
Qed.

Lemma cut_rec_first sep : forall s a b, cut_rec sep s = Some (a, b) ->
  forall a' b', s = a' ++ sep ++ b' -> (length a <= length a')%nat.
Proof.
  induction s as [|c t IH]; intros a b H a' b' Hs; cbn [cut_rec] in H.
  - destruct (prefix sep []) as [r|]; [|discriminate]. inversion H; subst. cbn [length]. lia.
  - destruct (prefix sep (c :: t)) as [r|] eqn:E.
    + inversion H; subst. cbn [length]. lia.
    + destruct (cut_rec sep t) as [[a1 b1]|] eqn:E2; [|discriminate]. inversion H; subst.
      destruct a' as [|c' a'].
      * cbn [app] in Hs. rewrite (fs_prefix_complete sep (c :: t) b' Hs) in E. discriminate.
      * cbn [app] in Hs. inversion Hs; subst. cbn [length]. apply le_n_S. apply (IH a1 b eq_refl a' b'). reflexivity.
Qed.

Lemma cut_rec_complete sep : forall s a' b', s = a' ++ sep ++ b' -> cut_rec sep s <> None.
Proof.
  induction s as [|c t IH]; intros a' b' Hs; cbn [cut_rec].
  - destruct a'; [|discriminate]. cbn [app] in Hs. rewrite (fs_prefix_complete sep [] b' Hs). discriminate.
  - destruct (prefix sep (c :: t)) as [r|] eqn:E; [discriminate|].
    destruct a' as [|c' a'].
    + cbn [app] in Hs. rewrite (fs_prefix_complete sep (c :: t) b' Hs) in E. discriminate.
    + cbn [app] in Hs. inversion Hs; subst. specialize (IH a' b' eq_refl).
      destruct (cut_rec sep (a' ++ sep ++ b')) as [[a b]|]; [discriminate | contradiction].
Qed.

Theorem cut_sound sep s a b : cut sep s = Some (a, b) -> s = a ++ sep ++ b.
Proof. rewrite cut_is_rec. apply cut_rec_sound. Qed.
Theorem cut_first sep s a b : cut sep s = Some (a, b) -> forall a' b', s = a' ++ sep ++ b' -> (length a <= length a')%nat.
Proof. rewrite cut_is_rec. apply cut_rec_first. Qed.
Theorem cut_none_iff sep s : cut sep s = None <-> (forall a b, s <> a ++ sep ++ b).
Proof.
  rewrite cut_is_rec. split.
  - intros H a b Hs. exact (cut_rec_complete sep s a b Hs H).
  - intros H. destruct (cut_rec sep s) as [[a b]|] eqn:E; [|reflexivity].
    exfalso. exact (H a b (cut_rec_sound sep s a b E)).
Qed.
(* the part after the separator is strictly shorter when the separator is not empty *)
Lemma cut_shrinks sep s a b : sep <> [] -> cut sep s = Some (a, b) -> (length b < length s)%nat.
Proof.
  intros Hne H. apply cut_sound in H. subst s. rewrite !app_length.
  destruct sep; [contradiction|]. cbn [length]. lia.
Qed.

(* ---------------------------------------------------------------- split *)
Lemma split_fuel_enough sep : sep <> [] -> forall n m s, (length s < n)%nat -> (length s < m)%nat ->
  split_fuel n sep s = split_fuel m sep s.
Proof.
  intros Hne. induction n as [|n IH]; intros m s Hn Hm; [lia|]. destruct m as [|m]; [lia|].
  cbn [split_fuel]. destruct (cut sep s) as [[a b]|] eqn:E; [|reflexivity].
  pose proof (cut_shrinks sep s a b Hne E) as L. f_equal. apply IH; lia.
Qed.
Theorem split_fuel_indep sep fuel s : sep <> [] -> (S (length s) <= fuel)%nat ->
  split_fuel fuel sep s = split_fuel (S (length s)) sep s.
Proof. intros Hne H. apply split_fuel_enough; [exact Hne | lia | lia]. Qed.

(* fuel-free equation; with [cut_shrinks] it determines [split] *)
Theorem split_unfold sep s : sep <> [] ->
  Str.split sep s = match cut sep s with Some (a, b) => a :: Str.split sep b | None => [s] end.
Proof.
  intros Hne. unfold Str.split at 1. cbn [split_fuel]. destruct (cut sep s) as [[a b]|] eqn:E; [|reflexivity].
  f_equal. pose proof (cut_shrinks sep s a b Hne E) as L. unfold Str.split. apply split_fuel_enough; [exact Hne | lia | lia].
Qed.

Lemma fs_strong_len (P : str -> Prop) : (forall s, (forall t, (length t < length s)%nat -> P t) -> P s) -> forall s, P s.
Proof.
  intros H s. assert (G : forall n t, (length t < n)%nat -> P t).
  { induction n as [|n IH]; intros t Ht; [lia|]. apply H. intros u Hu. apply IH. lia. }
  apply (G (S (length s))). lia.
Qed.

Theorem split_nonnil sep s : Str.split sep s <> [].
Proof. unfold Str.split. cbn [split_fuel]. destruct (cut sep s) as [[a b]|]; discriminate. Qed.
Lemma fs_join_cons sep a l : l <> [] -> join sep (a :: l) = a ++ sep ++ join sep l.
Proof. destruct l; [contradiction | reflexivity]. Qed.
(* joining the pieces gives the string back; no piece but possibly the last contains the separator *)
Theorem join_split sep s : sep <> [] -> join sep (Str.split sep s) = s.
Proof.
  intros Hne. induction s as [s IH] using fs_strong_len. rewrite split_unfold by exact Hne.
  destruct (cut sep s) as [[a b]|] eqn:E; [|reflexivity].
  pose proof (cut_shrinks sep s a b Hne E) as L. pose proof (cut_sound sep s a b E) as Hs.
  rewrite fs_join_cons by apply split_nonnil. rewrite (IH b L). symmetry. exact Hs.
Qed.
Theorem split_pieces_no_sep sep s : sep <> [] -> Forall (fun p => cut sep p = None) (removelast (Str.split sep s)).
Proof.
  intros Hne. induction s as [s IH] using fs_strong_len. rewrite split_unfold by exact Hne.
  destruct (cut sep s) as [[a b]|] eqn:E; [|constructor].
  pose proof (cut_shrinks sep s a b Hne E) as L. specialize (IH b L).
  pose proof (split_nonnil sep b) as Hnn. destruct (Str.split sep b) as [|p ps] eqn:Es; [contradiction|].
  cbn [removelast]. constructor; [|exact IH].
  apply cut_none_iff. intros a1 b1 Ha. pose proof (cut_sound sep s a b E) as Hs.
  pose proof (cut_first sep s a b E a1 (b1 ++ sep ++ b)) as F.
  assert (Hs2 : s = a1 ++ sep ++ b1 ++ sep ++ b) by (rewrite Hs, Ha, <- !app_assoc; reflexivity).
  specialize (F Hs2). rewrite Ha, !app_length in F. destruct sep; [contradiction|]. cbn [length] in F. lia.
Qed.

(* FINDING (model scope, not a defect of the library): with the empty separator every [cut] succeeds without
   consuming anything, the loop runs until the fuel is gone and the out-of-fuel value [s] is appended.
   strings.Split(s, "") explodes s into its UTF-8 sequences instead.  No call site uses an empty separator. *)
Example split_empty_sep_reaches_fuel : Str.split [] [1; 2] = [[]; []; []; [1; 2]].
Proof. vm_compute. reflexivity. Qed.

(* ---------------------------------------------------------------- white space *)
Lemma strip_any_len seqs : Forall (fun q => q <> []) seqs -> forall s r, strip_any seqs s = Some r -> (length r < length s)%nat.
Proof.
  induction seqs as [|q qs IH]; intros Hq s r H; cbn [strip_any] in H; [discriminate|].
  inversion Hq as [|? ? Hq1 Hq2]; subst.
  destruct (prefix q s) as [rest|] eqn:E.
  - inversion H; subst. apply fs_prefix_len in E. destruct q; [contradiction|]. cbn [length] in E. lia.
  - exact (IH Hq2 s r H).
Qed.
Lemma space_seqs_nonempty : Forall (fun q : str => q <> []) space_seqs.
Proof. unfold space_seqs. repeat constructor; discriminate. Qed.
Lemma space_seqs_rev_nonempty : Forall (fun q : str => q <> []) (map (@rev byte) space_seqs).
Proof. unfold space_seqs. cbn [map rev app]. repeat constructor; discriminate. Qed.

Lemma strip_space1_len s r : strip_space1 s = Some r -> (length r < length s)%nat.
Proof.
  destruct s as [|c t]; cbn [strip_space1]; [discriminate|].
  destruct (is_ascii_space c); [intros H; inversion H; subst; cbn [length]; lia|].
  destruct (c <? 128); [discriminate|]. apply strip_any_len. exact space_seqs_nonempty.
Qed.
Lemma strip_space1_rev_len s r : strip_space1_rev s = Some r -> (length r < length s)%nat.
Proof.
  destruct s as [|c t]; cbn [strip_space1_rev]; [discriminate|].
  destruct (is_ascii_space c); [intros H; inversion H; subst; cbn [length]; lia|].
  destruct (c <? 128); [discriminate|]. apply strip_any_len. exact space_seqs_rev_nonempty.
Qed.

(* one white-space character: an ASCII one or one of the listed multi-byte sequences *)
Definition space_char (q : str) : Prop := (exists c, q = [c] /\ is_ascii_space c = true) \/ In q space_seqs.
Lemma strip_any_sound seqs : forall s r, strip_any seqs s = Some r -> exists q, In q seqs /\ s = q ++ r.
Proof.
  induction seqs as [|q qs IH]; intros s r H; cbn [strip_any] in H; [discriminate|].
  destruct (prefix q s) as [rest|] eqn:E.
  - inversion H; subst. exists q. split; [left; reflexivity | apply prefix_Some; exact E].
  - destruct (IH s r H) as (q' & Hin & Hs). exists q'. split; [right; exact Hin | exact Hs].
Qed.
Lemma strip_space1_sound s r : strip_space1 s = Some r -> exists q, space_char q /\ s = q ++ r.
Proof.
  destruct s as [|c t]; cbn [strip_space1]; [discriminate|].
  destruct (is_ascii_space c) eqn:Ec.
  - intros H; inversion H; subst. exists [c]. split; [left; exists c; split; [reflexivity | exact Ec] | reflexivity].
  - destruct (c <? 128); [discriminate|]. intros H. destruct (strip_any_sound _ _ _ H) as (q & Hin & Hs).
    exists q. split; [right; exact Hin | exact Hs].
Qed.
(* a run of white-space characters *)
Inductive space_run : str -> Prop :=
| sr_nil : space_run []
| sr_cons q w : space_char q -> space_run w -> space_run (q ++ w).

(* ---------------------------------------------------------------- trim_left *)
Lemma trim_left_fuel_enough : forall n m s, (length s <= n)%nat -> (length s <= m)%nat ->
  trim_left_fuel n s = trim_left_fuel m s.
Proof.
  induction n as [|n IH]; intros m s Hn Hm.
  - destruct s; [|cbn [length] in Hn; lia]. destruct m; reflexivity.
  - destruct m as [|m].
    + destruct s; [reflexivity | cbn [length] in Hm; lia].
    + cbn [trim_left_fuel]. destruct (strip_space1 s) as [r|] eqn:E; [|reflexivity].
      apply strip_space1_len in E. apply IH; lia.
Qed.
Theorem trim_left_fuel_indep fuel s : (length s <= fuel)%nat -> trim_left_fuel fuel s = trim_left_fuel (length s) s.
Proof. intros H. apply trim_left_fuel_enough; lia. Qed.

(* fuel-free equation; with [strip_space1_len] it determines [trim_left] *)
Theorem trim_left_unfold s : trim_left s = match strip_space1 s with Some r => trim_left r | None => s end.
Proof.
  unfold trim_left. destruct (strip_space1 s) as [r|] eqn:E.
  - pose proof (strip_space1_len s r E) as L. destruct (length s) as [|k] eqn:Ek; [lia|].
    cbn [trim_left_fuel]. rewrite E. apply trim_left_fuel_enough; lia.
  - destruct (length s); cbn [trim_left_fuel]; [reflexivity | rewrite E; reflexivity].
Qed.
(* meaning: what is removed is a run of white-space characters, and what is left does not start with one *)
Theorem trim_left_spec s : exists w, space_run w /\ s = w ++ trim_left s /\ strip_space1 (trim_left s) = None.
Proof.
  induction s as [s IH] using fs_strong_len. rewrite trim_left_unfold.
  destruct (strip_space1 s) as [r|] eqn:E.
  - destruct (IH r (strip_space1_len s r E)) as (w & Hw & Hr & Hn).
    destruct (strip_space1_sound s r E) as (q & Hq & Hs).
    exists (q ++ w). split; [constructor; assumption|]. split; [|exact Hn].
    rewrite <- app_assoc, <- Hr. exact Hs.
  - exists []. split; [constructor|]. split; [reflexivity | exact E].
Qed.

(* ---------------------------------------------------------------- trim_right *)
Lemma trim_right_fuel_enough : forall n m s, (length s <= n)%nat -> (length s <= m)%nat ->
  trim_right_fuel n s = trim_right_fuel m s.
Proof.
  induction n as [|n IH]; intros m s Hn Hm.
  - destruct s; [|cbn [length] in Hn; lia]. destruct m; reflexivity.
  - destruct m as [|m].
    + destruct s; [reflexivity | cbn [length] in Hm; lia].
    + cbn [trim_right_fuel]. destruct (strip_space1_rev s) as [r|] eqn:E; [|reflexivity].
      apply strip_space1_rev_len in E. apply IH; lia.
Qed.
Theorem trim_right_fuel_indep fuel s : (length s <= fuel)%nat -> trim_right_fuel fuel s = trim_right_fuel (length s) s.
Proof. intros H. apply trim_right_fuel_enough; lia. Qed.
(* the wrapper passes [length s] for the reversed string: the same number *)
Theorem trim_right_wrapper_fuel s : trim_right s = rev (trim_right_fuel (length (rev s)) (rev s)).
Proof. unfold trim_right. rewrite rev_length. reflexivity. Qed.

Theorem trim_right_unfold s :
  trim_right s = match strip_space1_rev (rev s) with Some r => trim_right (rev r) | None => s end.
Proof.
  unfold trim_right. rewrite <- (rev_length s). destruct (strip_space1_rev (rev s)) as [r|] eqn:E.
  - pose proof (strip_space1_rev_len _ r E) as L. destruct (length (rev s)) as [|k] eqn:Ek; [lia|].
    cbn [trim_right_fuel]. rewrite E. rewrite rev_involutive. f_equal. apply trim_right_fuel_enough; rewrite ?rev_length; lia.
  - destruct (length (rev s)); cbn [trim_right_fuel]; [apply rev_involutive | rewrite E; apply rev_involutive].
Qed.
Lemma strip_space1_rev_sound s r : strip_space1_rev s = Some r -> exists q, space_char q /\ s = rev q ++ r.
Proof.
  destruct s as [|c t]; cbn [strip_space1_rev]; [discriminate|].
  destruct (is_ascii_space c) eqn:Ec.
  - intros H; inversion H; subst. exists [c]. split; [left; exists c; split; [reflexivity | exact Ec] | reflexivity].
  - destruct (c <? 128); [discriminate|]. intros H. destruct (strip_any_sound _ _ _ H) as (q & Hin & Hs).
    apply in_map_iff in Hin. destruct Hin as (q0 & Hq0 & Hin). subst q.
    exists q0. split; [right; exact Hin | exact Hs].
Qed.
Inductive space_run_r : str -> Prop :=
| srr_nil : space_run_r []
| srr_snoc q w : space_char q -> space_run_r w -> space_run_r (w ++ q).
Theorem trim_right_spec s :
  exists w, space_run_r w /\ s = trim_right s ++ w /\ strip_space1_rev (rev (trim_right s)) = None.
Proof.
  assert (G : forall n s, (length s < n)%nat ->
              exists w, space_run_r w /\ s = trim_right s ++ w /\ strip_space1_rev (rev (trim_right s)) = None).
  { induction n as [|n IH]; intros t Ht; [lia|]. rewrite trim_right_unfold.
    destruct (strip_space1_rev (rev t)) as [r|] eqn:E.
    - pose proof (strip_space1_rev_len _ r E) as L. rewrite rev_length in L.
      destruct (IH (rev r)) as (w & Hw & Hr & Hn); [rewrite rev_length; lia|].
      destruct (strip_space1_rev_sound _ r E) as (q & Hq & Hs).
      exists (w ++ q). split; [constructor; assumption|]. split; [|exact Hn].
      rewrite app_assoc, <- Hr. rewrite <- (rev_involutive t), Hs, rev_app_distr, rev_involutive. reflexivity.
    - exists []. split; [constructor|]. split; [symmetry; apply app_nil_r | exact E]. }
  apply (G (S (length s))). lia.
Qed.

(* ---------------------------------------------------------------- fields *)
Definition fs_flush (cur : str) : list str := match cur with [] => [] | _ => [rev cur] end.

Lemma fields_fuel_enough : forall n m cur s, (length s < n)%nat -> (length s < m)%nat ->
  fields_fuel n cur s = fields_fuel m cur s.
Proof.
  induction n as [|n IH]; intros m cur s Hn Hm; [lia|]. destruct m as [|m]; [lia|].
  cbn [fields_fuel]. destruct s as [|c r]; [reflexivity|].
  destruct (strip_space1 (c :: r)) as [rest|] eqn:E.
  - apply strip_space1_len in E. cbn [length] in *. rewrite (IH m [] rest) by lia. reflexivity.
  - cbn [length] in *. apply IH; lia.
Qed.
Theorem fields_fuel_indep fuel cur s : (S (length s) <= fuel)%nat ->
  fields_fuel fuel cur s = fields_fuel (S (length s)) cur s.
Proof. intros H. apply fields_fuel_enough; lia. Qed.

(* the loop with its accumulator, fuel-free: [fields s = fields_acc [] s] *)
Definition fields_acc (cur s : str) : list str := fields_fuel (S (length s)) cur s.
Theorem fields_is_acc s : fields s = fields_acc [] s. Proof. reflexivity. Qed.
Theorem fields_acc_nil cur : fields_acc cur [] = fs_flush cur.
Proof. unfold fields_acc. cbn [length fields_fuel]. destruct cur; reflexivity. Qed.
Theorem fields_acc_space cur s rest : strip_space1 s = Some rest -> fields_acc cur s = fs_flush cur ++ fields_acc [] rest.
Proof.
  intros E. pose proof (strip_space1_len s rest E) as L. unfold fields_acc at 1. cbn [fields_fuel].
  destruct s as [|c r]; [cbn [strip_space1] in E; discriminate|]. rewrite E.
  unfold fields_acc. rewrite (fields_fuel_enough (length (c :: r)) (S (length rest)) [] rest) by lia.
  destruct cur; reflexivity.
Qed.
Theorem fields_acc_byte cur c r : strip_space1 (c :: r) = None -> fields_acc cur (c :: r) = fields_acc (c :: cur) r.
Proof. intros E. unfold fields_acc at 1. cbn [fields_fuel]. rewrite E. reflexivity. Qed.

(* meaning, part 1: a string is its fields interleaved with runs of white space.
   [fields_layout cur s l]: reading [s] after the pending field bytes [rev cur] yields the fields [l] *)
Inductive fields_layout : str -> str -> list str -> Prop :=
| fl_end cur : fields_layout cur [] (fs_flush cur)
| fl_space cur q rest l : space_char q -> strip_space1 (q ++ rest) = Some rest ->
    fields_layout [] rest l -> fields_layout cur (q ++ rest) (fs_flush cur ++ l)
| fl_byte cur c r l : strip_space1 (c :: r) = None -> fields_layout (c :: cur) r l -> fields_layout cur (c :: r) l.

Theorem fields_acc_layout : forall s cur, fields_layout cur s (fields_acc cur s).
Proof.
  induction s as [s IH] using fs_strong_len. intros cur. destruct s as [|c r].
  - rewrite fields_acc_nil. constructor.
  - destruct (strip_space1 (c :: r)) as [rest|] eqn:E.
    + rewrite (fields_acc_space cur _ rest E). destruct (strip_space1_sound _ _ E) as (q & Hq & Hs).
      rewrite Hs. apply fl_space; [exact Hq | rewrite <- Hs; exact E |].
      apply IH. apply strip_space1_len. exact E.
    + rewrite (fields_acc_byte cur c r E). apply fl_byte; [exact E|]. apply IH. cbn [length]. lia.
Qed.
(* the layout relation is functional: it IS the function, with no fuel in sight *)
Theorem fields_layout_fun : forall cur s l, fields_layout cur s l -> l = fields_acc cur s.
Proof.
  intros cur s l H. induction H as [cur | cur q rest l Hq E H IH | cur c r l E H IH].
  - symmetry. apply fields_acc_nil.
  - rewrite (fields_acc_space cur _ rest E). rewrite IH. reflexivity.
  - rewrite (fields_acc_byte cur c r E). exact IH.
Qed.
Corollary fields_layout_iff s l : fields_layout [] s l <-> fields s = l.
Proof.
  rewrite fields_is_acc. split.
  - intros H. symmetry. apply fields_layout_fun. exact H.
  - intros <-. apply fields_acc_layout.
Qed.

(* meaning, part 2: no field is empty, and no white-space character starts inside a field *)
Lemma fields_layout_nonempty cur s l : fields_layout cur s l -> Forall (fun f => f <> []) l.
Proof.
  intros H. induction H as [cur | cur q rest l Hq E H IH | cur c r l E H IH].
  - destruct cur as [|c cur]; cbn [fs_flush]; constructor; [|constructor].
    cbn [rev]. intros Hc. apply app_eq_nil in Hc. destruct Hc as [_ Hc]. discriminate.
  - apply Forall_app. split; [|exact IH].
    destruct cur as [|c cur]; cbn [fs_flush]; constructor; [|constructor].
    cbn [rev]. intros Hc. apply app_eq_nil in Hc. destruct Hc as [_ Hc]. discriminate.
  - exact IH.
Qed.
Theorem fields_nonempty s : Forall (fun f => f <> []) (fields s).
Proof. apply (fields_layout_nonempty [] s). apply fields_layout_iff. reflexivity. Qed.

(* a string has no field exactly when trimming it on the left leaves nothing *)
Theorem fields_trim_left_nil s : trim_left s = [] <-> fields s = [].
Proof.
  rewrite fields_is_acc. induction s as [s IH] using fs_strong_len. rewrite trim_left_unfold.
  destruct (strip_space1 s) as [r|] eqn:E.
  - rewrite (fields_acc_space [] s r E). cbn [fs_flush app]. apply IH. apply strip_space1_len. exact E.
  - destruct s as [|c t]; [rewrite fields_acc_nil; cbn [fs_flush]; tauto|].
    rewrite (fields_acc_byte [] c t E). split; [discriminate|]. intros H. exfalso.
    pose proof (fields_acc_layout t [c]) as L. rewrite H in L.
    assert (G : forall cur s l, fields_layout cur s l -> cur <> [] -> l <> []).
    { clear. intros cur s l H. induction H as [cur | cur q rest l Hq E H IH | cur c r l E H IH]; intros Hc.
      - destruct cur; [contradiction | discriminate].
      - destruct cur; [contradiction | discriminate].
      - apply IH. discriminate. }
    exact (G _ _ _ L ltac:(discriminate) eq_refl).
Qed.

(* ---------------------------------------------------------------- ASCII input: structural specifications *)
(* On 7-bit input the three functions are the textbook ones, defined by structural recursion with no fuel. *)
Definition ascii7 (s : str) : bool := forallb (fun c => c <? 128) s.
Fixpoint drop_spaces (s : str) : str :=
  match s with c :: r => if is_ascii_space c then drop_spaces r else s | [] => [] end.
(* maximal runs of bytes that are not white space; [cur] = the run being collected, reversed *)
Fixpoint nonspace_runs (cur s : str) : list str :=
  match s with
  | [] => fs_flush cur
  | c :: r => if is_ascii_space c then fs_flush cur ++ nonspace_runs [] r else nonspace_runs (c :: cur) r
  end.

Lemma strip_space1_ascii c r : (c <? 128) = true -> strip_space1 (c :: r) = if is_ascii_space c then Some r else None.
Proof. intros H. cbn [strip_space1]. rewrite H. reflexivity. Qed.

Theorem trim_left_ascii s : ascii7 s = true -> trim_left s = drop_spaces s.
Proof.
  induction s as [|c r IH]; intros H; [reflexivity|]. cbn [ascii7 forallb] in H. apply andb_true_iff in H. destruct H as [Hc Hr].
  rewrite trim_left_unfold, (strip_space1_ascii c r Hc). cbn [drop_spaces].
  destruct (is_ascii_space c); [exact (IH Hr) | reflexivity].
Qed.
Theorem fields_ascii s : ascii7 s = true -> fields s = nonspace_runs [] s.
Proof.
  rewrite fields_is_acc. generalize (@nil byte) as cur. induction s as [|c r IH]; intros cur H.
  - apply fields_acc_nil.
  - cbn [ascii7 forallb] in H. apply andb_true_iff in H. destruct H as [Hc Hr]. cbn [nonspace_runs].
    pose proof (strip_space1_ascii c r Hc) as E. destruct (is_ascii_space c).
    + rewrite (fields_acc_space cur _ r E). f_equal. exact (IH [] Hr).
    + rewrite (fields_acc_byte cur c r E). exact (IH (c :: cur) Hr).
Qed.
