(* SSA/ASS: the second write is a fixpoint ALSO on the reader's image.
   C04_rewrite (Proofs/SsaDoc.v rewrite_same) starts from a document whose styles map is listed in sorted order
   (doc_repr); the reader lists the styles in document order.  Here:
   - rewrite_image: for every document that is representable up to the order in which its styles map is listed
     (image_repr), and every order in which the runtime may range over that map: write, read, write again -> the same bytes;
   - styles_map_named: what the reader's styles map is, for ANY list of style rows (a repeated name overwrites in place);
   - rewrite_rendered: for every rendered document (C04_read_rendered, any rendering) whose denotation is representable:
     read it, write what was read, read that, write again -> the second write equals the first. *)
From Coq Require Import Strings.String Strings.Ascii.
From Coq Require Import List ZArith NArith Bool Lia Permutation.
From Astisub Require Import Kit.Base Kit.Str Kit.Scan Model.Dur Model.Ssa.
From Astisub Require Import Proofs.EolProofs Proofs.SsaFields Proofs.SsaText Proofs.SsaRows Proofs.SsaInfo Proofs.SsaStyles
  Proofs.SsaEvents Proofs.SsaDoc Proofs.SsaOrder Proofs.SsaRepr Proofs.SsaRead Proofs.SsaTrim Proofs.SsaInfoOrder Proofs.SsaWriteRender.
Import ListNotations.
Open Scope N_scope.

(* ================= association lists with distinct keys ================= *)
Definition named_styles (sts : list astyle) : list (str * option astyle) := map (fun st => (ay_name st, Some st)) sts.
Lemma named_keys sts : map fst (named_styles sts) = map ay_name sts.
Proof. unfold named_styles. rewrite map_map. reflexivity. Qed.
Lemma named_vals sts : opt_cells (map snd (named_styles sts)) = sts.
Proof. unfold named_styles. rewrite map_map. cbn [snd]. apply opt_cells_somes. Qed.

Lemma sm_get_perm {V} k (m m' : list (str * V)) : Permutation m m' -> NoDup (map fst m) -> sm_get k m = sm_get k m'.
Proof.
  intros P. induction P as [|[k1 v1] l l' P IH|[k1 v1] [k2 v2] l|l l' l'' P1 IH1 P2 IH2]; intros Hnd.
  - reflexivity.
  - cbn [sm_get]. cbn [map fst] in Hnd. inversion Hnd; subst. rewrite IH by assumption. reflexivity.
  - cbn [sm_get]. cbn [map fst] in Hnd. inversion Hnd as [|? ? Hx Hr]; subst.
    destruct (str_eqb k k2) eqn:E2, (str_eqb k k1) eqn:E1; try reflexivity.
    apply str_eqb_eq in E1, E2. subst. exfalso. apply Hx. left. reflexivity.
  - rewrite IH1 by exact Hnd. apply IH2. apply (Permutation_NoDup (Permutation_map fst P1)). exact Hnd.
Qed.

Lemma sm_get_named_some sts k o : sm_get k (named_styles sts) = Some o -> exists st, o = Some st /\ In st sts /\ ay_name st = k.
Proof.
  induction sts as [|x r IH]; intros H; [discriminate|]. cbn [named_styles map sm_get] in H. fold (named_styles r) in H.
  destruct (str_eqb k (ay_name x)) eqn:E.
  - apply str_eqb_eq in E. injection H as <-. exists x. split; [reflexivity|]. split; [left; reflexivity | symmetry; exact E].
  - destruct (IH H) as (st & A & B & C). exists st. split; [exact A|]. split; [right; exact B | exact C].
Qed.

(* the values found under a list of keys that enumerates the names *)
Definition styles_under (sts : list astyle) (ks : list str) : list astyle :=
  opt_cells (map (fun k => match sm_get k (named_styles sts) with Some o => o | None => None end) ks).
Lemma under_names sts : NoDup (map ay_name sts) -> forall ks, (forall k, In k ks -> In k (map ay_name sts)) ->
  map ay_name (styles_under sts ks) = ks.
Proof.
  intros Hnd. induction ks as [|k r IH]; intros Hin; [reflexivity|]. unfold styles_under. cbn [map].
  destruct (proj1 (in_map_iff _ _ _) (Hin k (or_introl eq_refl))) as (st & <- & Hst).
  unfold named_styles at 1. rewrite (sm_get_map (fun x => Some x) sts st Hnd Hst). cbn [opt_cells map]. f_equal.
  apply IH. intros k Hk. apply Hin. right. exact Hk.
Qed.
Lemma under_in sts ks st : In st (styles_under sts ks) -> In st sts.
Proof.
  unfold styles_under. induction ks as [|k r IH]; intros H; [destruct H|]. cbn [map opt_cells] in H.
  destruct (sm_get k (named_styles sts)) as [o|] eqn:E; [|exact (IH H)].
  destruct (sm_get_named_some sts k o E) as (st' & -> & Hin & _). cbn [opt_cells] in H.
  destruct H as [<-|H]; [exact Hin | exact (IH H)].
Qed.
Lemma under_perm sts ks : NoDup (map ay_name sts) -> Permutation ks (map ay_name sts) -> Permutation (styles_under sts ks) sts.
Proof.
  intros Hnd P.
  assert (Hn : map ay_name (styles_under sts ks) = ks).
  { apply under_names; [exact Hnd|]. intros k Hk. exact (Permutation_in k P Hk). }
  apply NoDup_Permutation.
  - apply (NoDup_map_inv ay_name). rewrite Hn. apply (Permutation_NoDup (Permutation_sym P)). exact Hnd.
  - apply (NoDup_map_inv ay_name). exact Hnd.
  - intros st. split; [apply under_in|]. intros Hst.
    assert (Hk : In (ay_name st) ks) by (apply (Permutation_in _ (Permutation_sym P)); apply in_map; exact Hst).
    unfold styles_under. clear Hn P. induction ks as [|k r IH]; [destruct Hk|]. cbn [map opt_cells].
    destruct Hk as [->|Hk].
    + unfold named_styles at 1. rewrite (sm_get_map (fun x => Some x) sts st Hnd Hst). left. reflexivity.
    + destruct (sm_get k (named_styles sts)) as [[x|]|]; [right | |]; apply IH; exact Hk.
Qed.

(* ================= the styles in sorted order ================= *)
Definition sort_sts (sts : list astyle) : list astyle := styles_under sts (ssort (map ay_name sts)).
Lemma sort_sts_names sts : NoDup (map ay_name sts) -> map ay_name (sort_sts sts) = ssort (map ay_name sts).
Proof.
  intros Hnd. apply under_names; [exact Hnd|]. intros k Hk. exact (Permutation_in k (Permutation_sym (ssort_perm _)) Hk).
Qed.
Lemma sort_sts_perm sts : NoDup (map ay_name sts) -> Permutation (sort_sts sts) sts.
Proof. intros Hnd. apply under_perm; [exact Hnd | apply Permutation_sym; apply ssort_perm]. Qed.

Lemma ssorted_sortedb l : ssorted l -> sortedb l = true.
Proof.
  induction l as [|a r IH]; intros H; [reflexivity|]. inversion H as [|? ? Hr Ha]; subst. cbn [sortedb].
  destruct r as [|b r']; [reflexivity|]. rewrite (IH Hr). inversion Ha; subst. rewrite H2. reflexivity.
Qed.
Lemma ssort_idem l : ssort (ssort l) = ssort l.
Proof. symmetry. apply ssort_order_independent. apply ssort_perm. Qed.

Definition sorted_doc (d : adoc) (sts : list astyle) : adoc := mkAdoc (ad_meta d) (named_styles (sort_sts sts)) (ad_items d).

(* the styles block depends on the map only through look-ups *)
Lemma styles_bytes_ext d d' order order' :
  is_v4plus d = is_v4plus d' ->
  ssort (filter (fun k => match sm_get k (ad_styles d) with Some (Some _) => true | _ => false end) order) =
  ssort (filter (fun k => match sm_get k (ad_styles d') with Some (Some _) => true | _ => false end) order') ->
  (forall k, sm_get k (ad_styles d) = sm_get k (ad_styles d')) ->
  styles_bytes d order = styles_bytes d' order'.
Proof.
  intros Hv Hids Hget. unfold styles_bytes. rewrite Hv, Hids.
  assert (E : forall ids, map (fun k => match sm_get k (ad_styles d) with Some o => o | None => None end) ids =
                          map (fun k => match sm_get k (ad_styles d') with Some o => o | None => None end) ids).
  { intros ids. apply map_ext. intros k. rewrite Hget. reflexivity. }
  rewrite E. reflexivity.
Qed.

Lemma filter_named_all sts : NoDup (map ay_name sts) ->
  filter (fun k => match sm_get k (named_styles sts) with Some (Some _) => true | _ => false end) (map ay_name sts) = map ay_name sts.
Proof.
  intros Hnd. apply filter_all. apply forallb_forall. intros k Hk. apply in_map_iff in Hk. destruct Hk as (st & <- & Hst).
  unfold named_styles. rewrite (sm_get_map (fun x => Some x) sts st Hnd Hst). reflexivity.
Qed.

Lemma write_sorted d sts order : ad_styles d = named_styles sts -> NoDup (map ay_name sts) -> Permutation order (style_keys d) ->
  write_ssa d order = write_ssa (sorted_doc d sts) (style_keys (sorted_doc d sts)).
Proof.
  intros Em Hnd P. rewrite (write_order_independent d _ _ P).
  pose proof (sort_sts_names sts Hnd) as Hn. pose proof (sort_sts_perm sts Hnd) as Hp.
  assert (Hnd' : NoDup (map ay_name (sort_sts sts))) by (rewrite Hn; apply (Permutation_NoDup (ssort_perm _)); exact Hnd).
  assert (Est : styles_bytes d (style_keys d) = styles_bytes (sorted_doc d sts) (style_keys (sorted_doc d sts))).
  { apply styles_bytes_ext.
    - reflexivity.
    - unfold style_keys, sorted_doc. cbn [ad_styles]. rewrite Em, !named_keys.
      rewrite (filter_named_all sts Hnd), (filter_named_all _ Hnd'), Hn, ssort_idem. reflexivity.
    - intros k. unfold sorted_doc. cbn [ad_styles]. rewrite Em. apply sm_get_perm.
      + unfold named_styles. apply Permutation_map. apply Permutation_sym. exact Hp.
      + rewrite named_keys. exact Hnd. }
  unfold write_ssa, write_ssa_chunks. rewrite Est.
  change (ad_items (sorted_doc d sts)) with (ad_items d). change (ad_meta (sorted_doc d sts)) with (ad_meta d).
  change (ad_styles (sorted_doc d sts)) with (named_styles (sort_sts sts)). rewrite Em.
  generalize (styles_bytes (sorted_doc d sts) (style_keys (sorted_doc d sts))). intros SB.
  destruct (ad_items d) as [|i r]; [reflexivity|].
  destruct sts as [|s0 sr]; [reflexivity|].
  destruct (sort_sts (s0 :: sr)) as [|x xr] eqn:E; [|reflexivity].
  exfalso. apply Permutation_nil in Hp. discriminate Hp.
Qed.

(* ================= representable up to the order of the styles map ================= *)
Definition image_repr (d : adoc) : Prop :=
  exists sts, ad_styles d = named_styles sts /\ NoDup (map ay_name sts) /\ Forall style_repr sts /\
              info_ok (canon_info d) /\ ad_items d <> [] /\ Forall (item_repr (map ay_name sts)) (ad_items d).

Lemma item_repr_names N N' i : (forall n, In n N -> In n N') -> item_repr N i -> item_repr N' i.
Proof.
  intros HN (A & B & C). split; [exact A|]. split; [|exact C].
  destruct (ai_style i) as [n|]; [|exact I]. destruct B as (B1 & B2 & B3). repeat split; [exact B1 | exact B2 | apply HN; exact B3].
Qed.

Lemma sorted_doc_repr d sts : ad_styles d = named_styles sts -> NoDup (map ay_name sts) -> Forall style_repr sts ->
  info_ok (canon_info d) -> ad_items d <> [] -> Forall (item_repr (map ay_name sts)) (ad_items d) ->
  doc_repr (sorted_doc d sts).
Proof.
  intros Em Hnd Hsr Hinfo Hne Hitems.
  pose proof (sort_sts_names sts Hnd) as Hn. pose proof (sort_sts_perm sts Hnd) as Hp.
  assert (Eds : doc_styles (sorted_doc d sts) = sort_sts sts) by (unfold doc_styles, sorted_doc; cbn [ad_styles]; apply named_vals).
  unfold doc_repr. rewrite Eds. split; [|split; [exact Hinfo|]; split; [exact Hne|]].
  - unfold styles_repr, sorted_doc. cbn [ad_styles]. split; [reflexivity|]. rewrite Hn. split; [|split].
    + apply (Permutation_NoDup (ssort_perm _)). exact Hnd.
    + apply ssorted_sortedb. apply ssort_ssorted.
    + apply Forall_forall. intros st Hst. rewrite Forall_forall in Hsr. apply Hsr. exact (Permutation_in st Hp Hst).
  - unfold sorted_doc. cbn [ad_items]. revert Hitems. apply Forall_impl. intros i. apply item_repr_names.
    intros n Hin. rewrite Hn. exact (Permutation_in n (ssort_perm _) Hin).
Qed.

(* WRITE, READ, WRITE AGAIN: for every document representable up to the listing order of its styles map, and every
   iteration order of that map at the first and at the second write *)
Theorem rewrite_image d order : image_repr d -> Permutation order (style_keys d) ->
  exists data d', write_ssa d order = Ok data /\ read_ssa data = Ok d' /\
                  (forall order', Permutation order' (style_keys d') -> write_ssa d' order' = Ok data).
Proof.
  intros (sts & Em & Hnd & Hsr & Hinfo & Hne & Hitems) P.
  pose proof (sorted_doc_repr d sts Em Hnd Hsr Hinfo Hne Hitems) as Hr.
  destruct (rewrite_same (sorted_doc d sts) Hr) as (data & d' & Hw & Hrd & Hw2). exists data, d'.
  split; [rewrite (write_sorted d sts order Em Hnd P); exact Hw|]. split; [exact Hrd|].
  intros order' P'. rewrite (write_order_independent d' _ _ P'). exact Hw2.
Qed.

(* ================= the reader's styles map, for any list of style rows ================= *)
Lemma sm_set_keys {V} k (v : V) m x : In x (map fst (sm_set k v m)) -> x = k \/ In x (map fst m).
Proof.
  induction m as [|[k' v'] r IH]; cbn [sm_set map fst In]; [intros [<-|[]]; left; reflexivity|].
  destruct (str_eqb k k') eqn:E; cbn [map fst In].
  - apply str_eqb_eq in E. subst k'. intros [<-|H]; [left; reflexivity | right; right; exact H].
  - intros [<-|H]; [right; left; reflexivity|]. destruct (IH H) as [->|H']; [left; reflexivity | right; right; exact H'].
Qed.
Definition map_inv (all : list astyle) (m : list (str * option astyle)) : Prop :=
  NoDup (map fst m) /\ Forall (fun p => exists st, p = (ay_name st, Some st) /\ In st all) m.
Lemma sm_set_inv all st m : In st all -> map_inv all m -> map_inv all (sm_set (ay_name st) (Some st) m).
Proof.
  intros Hst. induction m as [|[k' v'] r IH]; intros (Hnd & HF).
  - cbn [sm_set]. split; [repeat constructor; intros [] | constructor; [exists st; split; [reflexivity | exact Hst] | constructor]].
  - cbn [map fst] in Hnd. inversion Hnd as [|? ? Hk Hr]; subst. inversion HF as [|? ? Hp HF']; subst.
    cbn [sm_set]. destruct (str_eqb (ay_name st) k') eqn:E.
    + apply str_eqb_eq in E. subst k'. split; [cbn [map fst]; constructor; assumption|].
      constructor; [exists st; split; [reflexivity | exact Hst] | exact HF'].
    + destruct (IH (conj Hr HF')) as (Hnd2 & HF2). split.
      * cbn [map fst]. constructor; [|exact Hnd2]. intros Hin. destruct (sm_set_keys _ _ _ _ Hin) as [->|Hin'].
        -- rewrite str_eqb_refl in E. discriminate.
        -- exact (Hk Hin').
      * constructor; [exact Hp | exact HF2].
Qed.
Lemma styles_map_inv all sts : (forall st, In st sts -> In st all) -> forall m, map_inv all m ->
  map_inv all (fold_left (fun m st => sm_set (ay_name st) (Some st) m) sts m).
Proof.
  induction sts as [|x r IH]; intros Hall m Hm; [exact Hm|]. cbn [fold_left]. apply IH.
  - intros st Hst. apply Hall. right. exact Hst.
  - apply sm_set_inv; [apply Hall; left; reflexivity | exact Hm].
Qed.
Definition styles_list (sts : list astyle) : list astyle := opt_cells (map snd (styles_map sts)).
(* THE READER'S STYLES MAP: one entry per distinct name, each styles_under its own name, each one of the rows *)
Theorem styles_map_named sts :
  styles_map sts = named_styles (styles_list sts) /\ NoDup (map ay_name (styles_list sts)) /\
  (forall st, In st (styles_list sts) -> In st sts).
Proof.
  unfold styles_list. destruct (styles_map_inv sts sts (fun st H => H) [] (conj (NoDup_nil _) (Forall_nil _))) as (Hnd & HF).
  fold (styles_map sts) in Hnd, HF. revert Hnd HF. generalize (styles_map sts). intros m Hnd HF.
  assert (E : m = named_styles (opt_cells (map snd m))).
  { clear Hnd. induction HF as [|p r (st & -> & _) HF IH]; [reflexivity|]. cbn [map snd opt_cells named_styles]. fold (named_styles (opt_cells (map snd r))).
    rewrite <- IH. reflexivity. }
  split; [exact E|]. split.
  - rewrite <- named_keys, <- E. exact Hnd.
  - intros st Hst. clear Hnd E. induction HF as [|p r (st' & -> & Hin) HF IH]; [destruct Hst|].
    cbn [map snd opt_cells] in Hst. destruct Hst as [<-|Hst]; [exact Hin | exact (IH Hst)].
Qed.

(* ================= rendered documents ================= *)
(* what a rendered document denotes (the value C04_read_rendered gives) *)
Definition rendered_doc (b : ainfo) (sts : list astyle) (evs : list aevent) : adoc :=
  mkAdoc (Some b) (styles_map sts) (map (fun ev => event_item ev (styles_map sts)) evs).

Lemma rendered_doc_image b sts evs : info_ok b -> Forall style_repr sts -> evs <> [] ->
  Forall (fun ev => item_repr (map fst (styles_map sts)) (event_item ev (styles_map sts))) evs ->
  image_repr (rendered_doc b sts evs).
Proof.
  intros Hb Hsr Hne Hitems. destruct (styles_map_named sts) as (Em & Hnd & Hin).
  exists (styles_list sts). unfold rendered_doc. cbn [ad_styles ad_items ad_meta canon_info].
  split; [exact Em|]. split; [exact Hnd|]. split.
  - apply Forall_forall. intros st Hst. rewrite Forall_forall in Hsr. apply Hsr. apply Hin. exact Hst.
  - split; [exact Hb|]. split; [destruct evs; [contradiction | discriminate]|].
    apply Forall_forall. intros i Hi. apply in_map_iff in Hi. destruct Hi as (ev & <- & Hev).
    rewrite Forall_forall in Hitems. specialize (Hitems ev Hev).
    pose proof (f_equal (map fst) Em) as Ek. rewrite named_keys in Ek. rewrite Ek in Hitems. exact Hitems.
Qed.

(* READ A RENDERED DOCUMENT, WRITE, READ, WRITE AGAIN: the second write equals the first.  Hypotheses: those of
   read_rendered (any rendering), at least one Dialogue row, and the denoted styles and items representable. *)
Theorem rewrite_rendered hi b keys styles he fe erows scols ecols :
  section_hdr true hi SInfo -> info_ok b -> (forall f, In f keys) ->
  match styles with
  | Some (hs, fs, srows) => section_hdr false hs SStyles /\ format_value fs scols /\ scols <> [] /\
                            Forall (fun p : list str * astyle => style_row scols (fst p) (snd p)) srows
  | None => True
  end ->
  section_hdr false he SEvents -> format_value fe ecols -> ecols <> [] ->
  Forall (fun p : (list str * str) * aevent => event_row ecols (fst (fst p)) (snd (fst p)) (snd p)) erows ->
  let sts := match styles with Some (_, _, srows) => map snd srows | None => [] end in
  let m := styles_map sts in
  erows <> [] -> Forall style_repr sts ->
  Forall (fun ev => item_repr (map fst m) (event_item ev m)) (map snd erows) ->
  exists d, read_ssa_lines (rendered_lines hi b keys styles he fe erows) false = Ok d /\
    forall order, Permutation order (style_keys d) ->
    exists data d', write_ssa d order = Ok data /\ read_ssa data = Ok d' /\
                    (forall order', Permutation order' (style_keys d') -> write_ssa d' order' = Ok data).
Proof.
  intros Hhi Hb Hkeys Hst Hhe Hfe Hec Hrows sts m Hne Hsr Hitems.
  exists (rendered_doc b sts (map snd erows)). split.
  - exact (read_rendered hi b keys styles he fe erows scols ecols false Hhi Hb Hkeys Hst Hhe Hfe Hec Hrows).
  - intros order P. apply rewrite_image; [|exact P].
    apply rendered_doc_image; [exact Hb | exact Hsr | destruct erows; [contradiction | discriminate] | exact Hitems].
Qed.

(* ================= a sufficient condition on the events themselves ================= *)
(* star-prefix removal keeps a suffix *)
Lemma prefix_suffix p : forall s r, prefix p s = Some r -> s = p ++ r.
Proof.
  induction p as [|a p IH]; intros s r H; [cbn [prefix] in H; injection H as <-; reflexivity|].
  destruct s as [|b s]; [discriminate|]. cbn [prefix] in H. destruct (a =? b) eqn:E; [|discriminate].
  apply N.eqb_eq in E. subst b. cbn [app]. f_equal. apply IH. exact H.
Qed.
Lemma trim_prefix_in p s x : In x (trim_prefix p s) -> In x s.
Proof.
  unfold trim_prefix. destruct (prefix p s) as [r|] eqn:E; [|exact (fun H => H)].
  intros H. rewrite (prefix_suffix p s r E). apply in_or_app. right. exact H.
Qed.
Lemma brkfree_In s : brkfree s <-> (forall x, In x s -> is_brk x = false).
Proof.
  unfold brkfree. rewrite forallb_forall. split; intros H x Hx; specialize (H x Hx).
  - apply negb_true_iff. exact H.
  - rewrite H. reflexivity.
Qed.
Lemma trim_prefix_brkfree p s : brkfree s -> brkfree (trim_prefix p s).
Proof. rewrite !brkfree_In. intros H x Hx. apply H. exact (trim_prefix_in p s x Hx). Qed.
Lemma sm_mem_key {V} k (m : list (str * V)) : sm_mem k m = true -> In k (map fst m).
Proof.
  induction m as [|[k' v] r IH]; intros H; [discriminate|]. cbn [sm_mem] in H. apply orb_true_iff in H.
  destruct H as [H|H]; [left; symmetry; apply str_eqb_eq; exact H | right; exact (IH H)].
Qed.

(* the text the writer joins with \n: trimmed and free of line breaks when every line is *)
Lemma join_cons2 sep x y (r : list str) : join sep (x :: y :: r) = x ++ sep ++ join sep (y :: r).
Proof. reflexivity. Qed.
Lemma right_fixed_join_bsl rest : forall p, rest <> [] -> Forall (fun x => trim_space x = x) rest ->
  right_fixed (p ++ 110 :: join bsl_n rest).
Proof.
  induction rest as [|y r IH]; intros p Hne HF; [contradiction|]. inversion HF as [|? ? Hy Hr]; subst.
  destruct r as [|z r'].
  - cbn [join]. destruct y as [|y0 y'].
    + apply right_fixed_plain. reflexivity.
    + apply (right_fixed_barrier p 110 (y0 :: y')); [reflexivity | discriminate | refine (proj2 (trim_fixed (y0 :: y') _ Hy)); discriminate].
  - rewrite join_cons2. unfold bsl_n at 1. cbn [app].
    replace (p ++ 110 :: y ++ 92 :: 110 :: join bsl_n (z :: r')) with ((p ++ 110 :: y ++ [92]) ++ 110 :: join bsl_n (z :: r'))
      by (rewrite <- !app_assoc; cbn [app]; rewrite <- app_assoc; reflexivity).
    apply IH; [discriminate | exact Hr].
Qed.
Lemma trim_join_bsl xs : Forall (fun x => trim_space x = x) xs -> trim_space (join bsl_n xs) = join bsl_n xs.
Proof.
  intros HF. destruct xs as [|x [|y r]]; [reflexivity | exact (Forall_inv HF)|].
  inversion HF as [|? ? Hx Hr]; subst. rewrite join_cons2. unfold bsl_n at 1 3. cbn [app]. apply fixed_trim.
  - destruct x as [|x0 x'].
    + cbn [app]. apply left_fixed_plain. reflexivity.
    + apply (left_fixed_barrier (x0 :: x') 92); [reflexivity | discriminate | refine (proj1 (trim_fixed (x0 :: x') _ Hx)); discriminate].
  - replace (x ++ 92 :: 110 :: join bsl_n (y :: r)) with ((x ++ [92]) ++ 110 :: join bsl_n (y :: r)) by (rewrite <- app_assoc; reflexivity).
    apply right_fixed_join_bsl; [discriminate | exact Hr].
Qed.
Lemma brkfree_app_inv a b : brkfree (a ++ b) -> brkfree a /\ brkfree b.
Proof. unfold brkfree. rewrite forallb_app. intros H. apply andb_true_iff in H. exact H. Qed.
Lemma join_seps_brkfree : forall xs seps, brkfree (join_seps seps xs) -> Forall brkfree xs.
Proof.
  induction xs as [|x [|y r] IH]; intros seps H; [constructor | constructor; [exact H | constructor]|].
  change (join_seps seps (x :: y :: r)) with (x ++ [92; if hd false seps then 78 else 110] ++ join_seps (tl seps) (y :: r)) in H.
  apply brkfree_app_inv in H. destruct H as [Hx H]. apply brkfree_app_inv in H. destruct H as [_ H].
  constructor; [exact Hx | exact (IH (tl seps) H)].
Qed.
Lemma join_bsl_brkfree xs : Forall brkfree xs -> brkfree (join bsl_n xs).
Proof.
  induction xs as [|x [|y r] IH]; intros H; [reflexivity | exact (Forall_inv H)|]. inversion H as [|? ? Hx Hr]; subst.
  rewrite join_cons2. apply brkfree_app; [exact Hx|]. apply brkfree_app; [reflexivity | exact (IH Hr)].
Qed.

(* an event of a rendered document whose item is representable: values in range and free of commas / line breaks
   (event_repr), a text that is some rendering (\N or \n at each break) of representable lines, and no style of the
   document bearing the empty name or the reserved spelling *Default *)
Definition event_image_ok (ev : aevent) : Prop :=
  event_repr ev /\ exists ls seps, ls <> [] /\ Forall line_ok ls /\ av_text ev = join_seps seps (map line_string ls).
Theorem event_item_repr ev m : event_image_ok ev -> ~ In [] (map fst m) -> ~ In n_star_default (map fst m) ->
  item_repr (map fst m) (event_item ev m).
Proof.
  intros (Her & ls & seps & Hne & Hl & Ht) Hnil Hstar.
  rewrite (event_item_denotes ev m ls seps Hne Hl Ht).
  destruct Her as ((Hs & He & Hla & Hml & Hmr & Hmv & Hce & Hcn & Hcs) & Hbe & Hbn & Hbs & Htt & Hbt).
  set (sty := match av_style ev with
              | [] => None
              | n => if sm_mem n m then Some n else if sm_mem (trim_prefix star n) m then Some (trim_prefix star n) else None
              end).
  assert (Hsty : match sty with Some n => In n (map fst m) /\ ~ In 44 n /\ brkfree n | None => True end).
  { unfold sty. destruct (av_style ev) as [|c r] eqn:E; [exact I|]. destruct (sm_mem (c :: r) m) eqn:E1.
    - split; [apply sm_mem_key; exact E1 | split; assumption].
    - destruct (sm_mem (trim_prefix star (c :: r)) m) eqn:E2; [|exact I].
      split; [apply sm_mem_key; exact E2|]. split; [intros Hin; apply Hcs; exact (trim_prefix_in _ _ _ Hin) | apply trim_prefix_brkfree; exact Hbs]. }
  assert (Hlines : Forall line_ok (map (fun l => mkAline (av_name ev) (al_runs l)) ls)).
  { apply Forall_forall. intros l Hin. apply in_map_iff in Hin. destruct Hin as (l0 & <- & Hl0).
    rewrite Forall_forall in Hl. exact (Hl l0 Hl0). }
  assert (Hxs : Forall (fun x => trim_space x = x) (map line_string ls)).
  { apply Forall_forall. intros x Hx. apply in_map_iff in Hx. destruct Hx as (l0 & <- & Hl0).
    rewrite Forall_forall in Hl. destruct (Hl l0 Hl0) as (_ & _ & H3). exact H3. }
  assert (Hbx : Forall brkfree (map line_string ls)) by (apply (join_seps_brkfree _ seps); rewrite <- Ht; exact Hbt).
  unfold item_repr. cbn [ai_style ai_lines]. split; [|split; [|split; [destruct ls; [contradiction | discriminate] | exact Hlines]]].
  - unfold event_repr, event_ok, event_of_item.
    cbn [ai_inl ai_start ai_end ai_style ai_lines ae_effect ae_layer ae_ml ae_mr ae_mv ae_marked
         av_start av_end av_style av_effect av_layer av_ml av_mr av_mv av_marked av_name av_text].
    rewrite (item_name_const _ _ Hne), item_text_runs. unfold item_text_ssa.
    assert (Hs44 : ~ In 44 (match sty with Some n => n | None => [] end))
      by (destruct sty as [n|]; [exact (proj1 (proj2 Hsty)) | intros []]).
    assert (Hsb : brkfree (match sty with Some n => n | None => [] end))
      by (destruct sty as [n|]; [exact (proj2 (proj2 Hsty)) | reflexivity]).
    split.
    + split; [exact Hs|]. split; [exact He|]. split; [exact Hla|]. split; [exact Hml|]. split; [exact Hmr|].
      split; [exact Hmv|]. split; [exact Hce|]. split; [exact Hcn | exact Hs44].
    + split; [exact Hbe|]. split; [exact Hbn|]. split; [exact Hsb|].
      split; [apply trim_join_bsl; exact Hxs | apply join_bsl_brkfree; exact Hbx].
  - destruct sty as [n|]; [|exact I]. destruct Hsty as (Hin & _).
    split; [intros ->; exact (Hnil Hin)|]. split; [intros ->; exact (Hstar Hin) | exact Hin].
Qed.

(* the keys of the reader's styles map are the names of the rows *)
Lemma styles_map_keys sts k : In k (map fst (styles_map sts)) -> In k (map ay_name sts).
Proof.
  destruct (styles_map_named sts) as (Em & _ & Hin). rewrite Em, named_keys. intros H.
  apply in_map_iff in H. destruct H as (st & <- & Hst). apply in_map. apply Hin. exact Hst.
Qed.

(* READ A RENDERED DOCUMENT, WRITE, READ, WRITE AGAIN, with the side conditions on what the rendering denotes only:
   styles representable and none named_styles *Default, events in range and comma / break free with a text made of
   representable lines *)
Theorem rewrite_rendered_events hi b keys styles he fe erows scols ecols :
  section_hdr true hi SInfo -> info_ok b -> (forall f, In f keys) ->
  match styles with
  | Some (hs, fs, srows) => section_hdr false hs SStyles /\ format_value fs scols /\ scols <> [] /\
                            Forall (fun p : list str * astyle => style_row scols (fst p) (snd p)) srows
  | None => True
  end ->
  section_hdr false he SEvents -> format_value fe ecols -> ecols <> [] ->
  Forall (fun p : (list str * str) * aevent => event_row ecols (fst (fst p)) (snd (fst p)) (snd p)) erows ->
  let sts := match styles with Some (_, _, srows) => map snd srows | None => [] end in
  erows <> [] -> Forall style_repr sts -> ~ In n_star_default (map ay_name sts) ->
  Forall event_image_ok (map snd erows) ->
  exists d, read_ssa_lines (rendered_lines hi b keys styles he fe erows) false = Ok d /\
    forall order, Permutation order (style_keys d) ->
    exists data d', write_ssa d order = Ok data /\ read_ssa data = Ok d' /\
                    (forall order', Permutation order' (style_keys d') -> write_ssa d' order' = Ok data).
Proof.
  intros Hhi Hb Hkeys Hst Hhe Hfe Hec Hrows sts Hne Hsr Hstar Hev.
  apply (rewrite_rendered hi b keys styles he fe erows scols ecols Hhi Hb Hkeys Hst Hhe Hfe Hec Hrows Hne Hsr).
  fold sts. revert Hev. apply Forall_impl. intros ev Hok. apply event_item_repr; [exact Hok | |].
  - intros Hin. apply styles_map_keys in Hin. apply in_map_iff in Hin. destruct Hin as (st & E & Hst').
    rewrite Forall_forall in Hsr. destruct (Hsr st Hst') as (_ & Hn & _). exact (Hn E).
  - intros Hin. apply Hstar. apply styles_map_keys. exact Hin.
Qed.

(* ================= the side condition on the reserved spelling is needed ================= *)
(* a style literally named_styles *Default, referenced as **Default: the reader finds it after removing one star; the writer
   writes the reference *Default, which the reader takes for Default -- no such style -- so the second write has an empty
   Style cell: the second write differs from the first *)
Definition ssa_wr (r : res adoc) : res str := match r with Ok d => write_ssa d (style_keys d) | Err k => Err k | Panic p => Panic p end.
Definition ssa_rd (r : res str) : res adoc := match r with Ok x => read_ssa x | Err k => Err k | Panic p => Panic p end.
Definition ssa_differ (a b : res str) : bool := match a, b with Ok x, Ok y => negb (str_eqb x y) | _, _ => false end.
Open Scope string_scope.
Definition sd_doc : list str :=
  [s2l "[Script Info]"; s2l "[V4 Styles]"; s2l "Format: Name"; s2l "Style: *Default";
   s2l "[Events]"; s2l "Format: Start, End, Style, Text"; s2l "Dialogue: 0:00:01.00,0:00:02.00,**Default,x"].
Definition ok_doc : list str :=
  [s2l "[Script Info]"; s2l "[V4 Styles]"; s2l "Format: Name"; s2l "Style: Main";
   s2l "[Events]"; s2l "Format: Start, End, Style, Text"; s2l "Dialogue: 0:00:01.00,0:00:02.00,*Main,x"].
Close Scope string_scope.
Example rewrite_needs_no_star_default_style :
  ssa_differ (ssa_wr (read_ssa_lines sd_doc false)) (ssa_wr (ssa_rd (ssa_wr (read_ssa_lines sd_doc false)))) = true /\
  ssa_differ (ssa_wr (read_ssa_lines ok_doc false)) (ssa_wr (ssa_rd (ssa_wr (read_ssa_lines ok_doc false)))) = false /\
  (exists x, ssa_wr (read_ssa_lines ok_doc false) = Ok x).
Proof. split; [vm_compute; reflexivity|]. split; [vm_compute; reflexivity|]. eexists. vm_compute. reflexivity. Qed.

(* ================= the order argument of write_ssa ================= *)
(* [order] stands for the order in which the Go runtime ranges over the styles map: every key exactly once.  Theorems
   stated for all lists [order] hold in particular for those; where the statement names the bytes, the hypothesis is
   that [order] enumerates the keys.  A list that does not (here: the empty one) gives other bytes -- no execution of
   WriteToSSA corresponds to it. *)
Definition order_ok (d : adoc) (order : list str) : Prop := Permutation order (style_keys d).
Theorem write_is_rendering_any_order d order : doc_repr d -> order_ok d order ->
  write_ssa d order =
    Ok (render_eol [10] (spaced_lines n_script_info_hdr (canon_info d) all_fkeys (w_styles d) n_events_hdr (w_fe d) (w_erows d))).
Proof. intros Hr P. rewrite (write_order_independent d _ _ P). exact (proj1 (write_is_rendering_full d Hr)). Qed.
Theorem write_denotes_any_order d order : doc_repr d -> order_ok d order ->
  exists data, write_ssa d order = Ok data /\ read_ssa data = Ok (w_denotation d).
Proof. intros Hr P. rewrite (write_order_independent d _ _ P). exact (write_denotes d Hr). Qed.
Example order_must_enumerate_the_keys :
  ssa_differ (write_ssa ex_doc []) (write_ssa ex_doc (style_keys ex_doc)) = true.
Proof. vm_compute. reflexivity. Qed.

(* ================= the same for every value the reader returns ================= *)
(* Every reading theorem (read_rendered, read_sections, ...) returns a value of the shape rendered_doc b sts evs; the
   fixpoint property needs nothing else about where it came from. *)
Theorem rewrite_reader_image b sts evs order : info_ok b -> Forall style_repr sts -> ~ In n_star_default (map ay_name sts) ->
  evs <> [] -> Forall event_image_ok evs -> Permutation order (style_keys (rendered_doc b sts evs)) ->
  exists data d', write_ssa (rendered_doc b sts evs) order = Ok data /\ read_ssa data = Ok d' /\
                  (forall order', Permutation order' (style_keys d') -> write_ssa d' order' = Ok data).
Proof.
  intros Hb Hsr Hstar Hne Hev P. apply rewrite_image; [|exact P]. apply rendered_doc_image; [exact Hb | exact Hsr | exact Hne|].
  revert Hev. apply Forall_impl. intros ev Hok. apply event_item_repr; [exact Hok | |].
  - intros Hin. apply styles_map_keys in Hin. apply in_map_iff in Hin. destruct Hin as (st & E & Hst').
    rewrite Forall_forall in Hsr. destruct (Hsr st Hst') as (_ & Hn & _). exact (Hn E).
  - intros Hin. apply Hstar. apply styles_map_keys. exact Hin.
Qed.
