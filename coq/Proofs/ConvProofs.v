(* Conversion SubRip <-> WebVTT over the models: the destination read back holds the same cues in the same order,
   times truncated to the millisecond, the same text per line.  Composition of the two write/read theorems with the
   conversion of Model/Conv.v. *)
From Coq Require Import List ZArith NArith Bool Lia.
From Astisub Require Import Kit.Base Kit.Str Kit.Scan Model.Dur Model.Srt Model.Vtt Model.Conv.
From Astisub Require Import Proofs.SrtProofs Proofs.VttBase Proofs.VttLine Proofs.VttDoc.
Import ListNotations.

Definition tms (t : Z) : Z := (t - t mod 1000000)%Z.
Lemma tms_srt t : SrtProofs.trunc_ms t = tms t. Proof. reflexivity. Qed.
Lemma tms_vtt t : VttBase.trunc_ms t = tms t. Proof. reflexivity. Qed.
Lemma tms_idem t : tms (tms t) = tms t.
Proof.
  unfold tms. assert (H : ((t - t mod 1000000) mod 1000000 = 0)%Z).
  { rewrite Zminus_mod_idemp_r. rewrite Z.sub_diag. reflexivity. }
  rewrite H. lia.
Qed.

(* the view of a cue after the trip: times to the millisecond, the text of each line *)
Definition sview_ms (it : sitem) : Z * Z * list str := (tms (si_st it), tms (si_en it), map sline_text (si_lines it)).
Definition vview_ms (it : vitem) : Z * Z * list str := (tms (vi_st it), tms (vi_en it), map vline_text (vi_lines it)).

Lemma text_sv_line l : vline_text (nline (sv_line l)) = sline_text l.
Proof.
  unfold vline_text, nline, sv_line, sline_text. cbn [vl_runs]. rewrite !map_map. f_equal.
Qed.
Lemma text_vs_line l : sline_text (vs_line l) = vline_text l.
Proof. unfold sline_text, vs_line, vline_text. rewrite map_map. reflexivity. Qed.

Lemma view_sv_items : forall l k, map vview (nitems k (map sv_item l)) = map sview_ms l.
Proof.
  induction l as [|it r IH]; intros k; [reflexivity|]. cbn [map nitems]. rewrite IH. f_equal.
  unfold vview, nitem, sv_item, sview_ms. cbn [vi_st vi_en vi_lines]. unfold VttBase.trunc_ms, tms. f_equal.
  rewrite !map_map. apply map_ext. intros x. apply text_sv_line.
Qed.

Lemma sview_ms_renum : forall l k, map sview_ms (renum k l) = map sview_ms l.
Proof.
  induction l as [|it r IH]; intros k; [reflexivity|]. cbn [renum map]. rewrite IH. f_equal.
  unfold sview_ms, new_item. cbn [si_st si_en si_lines]. change (SrtProofs.trunc_ms (si_st it)) with (tms (si_st it)). change (SrtProofs.trunc_ms (si_en it)) with (tms (si_en it)). rewrite !tms_idem. reflexivity.
Qed.

Lemma view_vs_items : forall l k, map sview (renum k (map vs_item l)) = map vview_ms l.
Proof.
  induction l as [|it r IH]; intros k; [reflexivity|]. cbn [map renum]. rewrite IH. f_equal.
  unfold sview, new_item, vs_item, vview_ms. cbn [si_st si_en si_lines]. unfold SrtProofs.trunc_ms, tms. f_equal.
  rewrite !map_map. apply map_ext. intros x. apply text_vs_line.
Qed.

(* SubRip file -> WebVTT file -> read back *)
Theorem srt_to_vtt : forall l : list sitem,
  Forall repr_item l -> l <> [] -> (Z.of_nat (length l) <= max_int64)%Z ->
  repr_vdoc (conv_sv (renumber_truncate l)) [] [] ->
  exists srt vtt d', write_srt l = Ok srt /\ convert_srt_vtt srt = Ok vtt /\ read_vtt vtt = Ok d' /\
                     map vview (vd_items d') = map sview_ms l.
Proof.
  intros l Hl Hne Hlen Hv. destruct (read_write_srt l Hl Hne Hlen) as (srt & Hw & Hr).
  destruct (write_read_vtt _ _ _ Hv) as (vtt & Hwv & Hrv).
  exists srt, vtt, (ndoc (conv_sv (renumber_truncate l)) [] []). split; [exact Hw|]. split.
  - unfold convert_srt_vtt. rewrite Hr. exact Hwv.
  - split; [exact Hrv|]. unfold ndoc, conv_sv. cbn [vd_items]. rewrite view_sv_items. apply sview_ms_renum.
Qed.

(* WebVTT file -> SubRip file -> read back *)
Theorem vtt_to_srt : forall d so ro,
  repr_vdoc d so ro ->
  Forall repr_item (conv_vs (ndoc d so ro)) ->
  exists vtt srt l', write_vtt d so ro = Ok vtt /\ convert_vtt_srt vtt = Ok srt /\ read_srt srt = Ok l' /\
                     map sview l' = map vview_ms (vd_items (ndoc d so ro)) /\
                     length l' = length (vd_items d).
Proof.
  intros d so ro Hd Hs. destruct (write_read_vtt d so ro Hd) as (vtt & Hw & Hr).
  set (l1 := conv_vs (ndoc d so ro)) in *.
  assert (Hlen1 : length l1 = length (vd_items d)).
  { unfold l1, conv_vs, ndoc. cbn [vd_items]. rewrite map_length. clear. generalize 0%nat. induction (vd_items d) as [|x r IH]; intros k; [reflexivity|]. cbn [nitems length]. rewrite IH. reflexivity. }
  assert (Hne : l1 <> []).
  { intros E. rewrite E in Hlen1. cbn in Hlen1. destruct Hd as [Hne' _ _ _ _ _ _]. destruct (vd_items d); [contradiction | discriminate]. }
  assert (Hcount : (Z.of_nat (length l1) <= max_int64)%Z).
  { rewrite Hlen1. destruct Hd as [_ Hc _ _ _ _ _]. exact Hc. }
  destruct (read_write_srt l1 Hs Hne Hcount) as (srt & Hws & Hrs).
  exists vtt, srt, (renumber_truncate l1). split; [exact Hw|]. split.
  - unfold convert_vtt_srt. rewrite Hr. exact Hws.
  - split; [exact Hrs|]. split.
    + unfold renumber_truncate, l1, conv_vs. apply view_vs_items.
    + rewrite <- Hlen1. unfold renumber_truncate. clear. generalize 0%nat. induction l1 as [|x r IH]; intros k; [reflexivity|]. cbn [renum length]. rewrite IH. reflexivity.
Qed.

(* non-vacuity: three cues (styled multi-run line with '&', '<', no-break space; a digits-only line; times off the
   millisecond grid) satisfy the hypotheses of [srt_to_vtt] *)
Definition ex_conv : list sitem :=
  [ mkSitem 7 1234567890 2500000000
      [ [ mkSrun [72;105;32;38;32;60;98;62] None 0; mkSrun [97;194;160;98] (Some (mkSa true false true None)) 0; mkSrun [33] None 0 ];
        [ mkSrun [105;116] (Some (mkSa false true false None)) 0 ] ];
    mkSitem 0 3600000000000 3661001999999 [ [ mkSrun [52;50] None 0 ] ];
    mkSitem 0 5 1000000 [ [ mkSrun [120] None 0 ] ] ]%N%Z.

Example ex_conv_srt : Forall repr_item ex_conv.
Proof. apply repr_itemsb_ok. vm_compute. reflexivity. Qed.

Example ex_conv_repr : repr_vdoc (conv_sv (renumber_truncate ex_conv)) [] [].
Proof.
  constructor.
  - discriminate.
  - vm_compute. discriminate.
  - constructor.
  - intros k [].
  - repeat constructor; try (vm_compute; reflexivity); try (vm_compute; discriminate); try exact I.
  - split; vm_compute; reflexivity.
  - exact I.
Qed.

Example ex_conv_roundtrip :
  exists srt vtt d', write_srt ex_conv = Ok srt /\ convert_srt_vtt srt = Ok vtt /\ read_vtt vtt = Ok d' /\
                     map vview (vd_items d') = map sview_ms ex_conv.
Proof. apply srt_to_vtt; [exact ex_conv_srt | discriminate | vm_compute; discriminate | exact ex_conv_repr]. Qed.
