(* The binary64 terms of the TTML time expressions (offset times, frames, ticks) denote the exact
   instants: each is two correctly rounded operations on exactly represented inputs followed by
   math.Round, and the accumulated error stays below 1/4 ns as long as the instant is below 2^49 ns. *)
From Coq Require Import List ZArith NArith Reals Lia Lra Psatz Bool.
From Flocq Require Import Core BinarySingleNaN Relative.
From Astisub Require Import Kit.Base Kit.Str Kit.Float64 Kit.Float64x Model.Dur Model.Ttml
  Proofs.FracFloatProofs Proofs.LinProofs Proofs.TtmlSpec.
Import ListNotations.
Open Scope R_scope.

(* ---------------------------------------------------------------- *)
(* math.Round followed by the conversion to an integer                *)

(* nearest integer, halves away from zero *)
Definition Znearest_away (r : R) : Z :=
  if Rle_dec 0 r then Zfloor (r + / 2) else Zceil (r - / 2).

Lemma Znearest_away_imp : forall (k : Z) (r : R),
  Rabs (r - IZR k) < / 2 -> Znearest_away r = k.
Proof.
  intros k r H. apply Rabs_def2 in H. destruct H as [H1 H2]. unfold Znearest_away.
  destruct (Rle_dec 0 r) as [Hr|Hr].
  - apply Zfloor_imp. rewrite plus_IZR. lra.
  - apply Zceil_imp. rewrite minus_IZR. lra.
Qed.

Lemma Znearest_away_half : forall r : R, Rabs (IZR (Znearest_away r) - r) <= / 2.
Proof.
  intros r. unfold Znearest_away. destruct (Rle_dec 0 r) as [Hr|Hr].
  - pose proof (Zfloor_lb (r + / 2)) as L. pose proof (Zfloor_ub (r + / 2)) as U.
    apply Rabs_le. lra.
  - pose proof (Zceil_ub (r - / 2)) as U. pose proof (Zceil_lb (r - / 2)) as L.
    apply Rabs_le. lra.
Qed.

Lemma Znearest_away_pos : forall v : R, 0 <= v -> Znearest_away v = Zfloor (v + / 2).
Proof.
  intros v Hv. unfold Znearest_away. destruct (Rle_dec 0 v) as [H|H]; [reflexivity | contradiction].
Qed.

Lemma Znearest_away_opp : forall v : R, 0 < v -> Znearest_away (- v) = (- Znearest_away v)%Z.
Proof.
  intros v Hv. rewrite (Znearest_away_pos v) by lra. unfold Znearest_away.
  destruct (Rle_dec 0 (- v)) as [H|H]; [lra|].
  unfold Zceil. replace (- (- v - / 2)) with (v + / 2) by ring. reflexivity.
Qed.

Lemma round_mag_correct : forall (m : positive) (e : Z),
  round_mag m e = Zfloor (F2R (Float radix2 (Zpos m) e) + / 2).
Proof.
  intros m e. symmetry. unfold round_mag, F2R. cbn [Fnum Fexp].
  destruct (Z.leb_spec 0 e) as [He|He].
  - apply Zfloor_imp.
    rewrite <- (IZR_Zpower radix2) by exact He. rewrite <- mult_IZR.
    change (Zpower radix2 e) with (2 ^ e)%Z. rewrite plus_IZR. lra.
  - set (d := (2 ^ (- e))%Z).
    assert (Hd : (0 < d)%Z) by (apply Z.pow_pos_nonneg; lia).
    assert (HD : 0 < IZR d) by (apply IZR_lt; exact Hd).
    assert (Hb : bpow radix2 e = / IZR d).
    { unfold d. change (2 ^ (- e))%Z with (Zpower radix2 (- e)).
      rewrite (IZR_Zpower radix2) by lia. rewrite <- bpow_opp. f_equal. lia. }
    rewrite Hb.
    pose proof (Z.div_mod (Zpos m) d ltac:(lia)) as E.
    pose proof (Z.mod_pos_bound (Zpos m) d Hd) as B.
    set (q := (Zpos m / d)%Z) in *. set (r := (Zpos m mod d)%Z) in *.
    assert (Em : IZR (Zpos m) = IZR d * IZR q + IZR r).
    { rewrite <- mult_IZR, <- plus_IZR. f_equal. exact E. }
    assert (Hx : IZR (Zpos m) * / IZR d = IZR q + IZR r / IZR d).
    { rewrite Em. field. lra. }
    rewrite Hx.
    assert (B0 : 0 <= IZR r / IZR d).
    { apply Rmult_le_pos; [apply IZR_le; lia | left; apply Rinv_0_lt_compat; exact HD]. }
    assert (B1 : IZR r / IZR d < 1).
    { apply Rmult_lt_reg_r with (IZR d); [exact HD|].
      unfold Rdiv. rewrite Rmult_assoc, Rinv_l by lra.
      assert (IZR r < IZR d) by (apply IZR_lt; lia). lra. }
    destruct (Z.leb_spec d (2 * r)) as [Hh|Hh].
    + assert (B2 : / 2 <= IZR r / IZR d).
      { apply Rmult_le_reg_r with (IZR d); [exact HD|].
        unfold Rdiv. rewrite Rmult_assoc, Rinv_l by lra.
        assert (IZR d <= 2 * IZR r) by (rewrite <- mult_IZR; apply IZR_le; exact Hh). lra. }
      apply Zfloor_imp. rewrite !plus_IZR. lra.
    + assert (B2 : IZR r / IZR d < / 2).
      { apply Rmult_lt_reg_r with (IZR d); [exact HD|].
        unfold Rdiv. rewrite Rmult_assoc, Rinv_l by lra.
        assert (2 * IZR r < IZR d) by (rewrite <- mult_IZR; apply IZR_lt; exact Hh). lra. }
      apply Zfloor_imp. rewrite plus_IZR. lra.
Qed.

(* 1 *)
Lemma round_Z_correct : forall x : f64, is_finite x = true ->
  round_Z x = Znearest_away (B2R x).
Proof.
  intros x Fx. destruct x as [s | s | | s m e H]; try discriminate Fx.
  - cbn [round_Z B2R]. symmetry. apply (Znearest_away_imp 0).
    replace (0 - 0) with 0 by ring. rewrite Rabs_R0. lra.
  - cbn [round_Z B2R]. rewrite round_mag_correct.
    assert (Hv : 0 < F2R (Float radix2 (Zpos m) e)) by (apply F2R_gt_0; reflexivity).
    destruct s.
    + change (cond_Zopp true (Zpos m)) with (- Zpos m)%Z.
      rewrite F2R_Zopp, Znearest_away_opp by exact Hv.
      rewrite Znearest_away_pos by lra. reflexivity.
    + change (cond_Zopp false (Zpos m)) with (Zpos m).
      rewrite Znearest_away_pos by lra. reflexivity.
Qed.

(* ---------------------------------------------------------------- *)
(* toolkit: rounding error, exact inputs                              *)

Lemma bpow100_val : bpow radix2 100 = 1267650600228229401496703205376.
Proof. reflexivity. Qed.

(* |RN x - x| <= 2^-53 |x| + 2^-64, no condition on the magnitude *)
Lemma RN_err : forall x : R,
  Rabs (RN x - x) <= / 9007199254740992 * Rabs x + / 18446744073709551616.
Proof.
  intros x.
  destruct (error_N_FLT radix2 (3 - emax - prec) prec Hprec (fun n => negb (Z.even n)) x)
    as (eps & eta & He & Ht & _ & Hr).
  rewrite Hr. replace (x * (1 + eps) + eta - x) with (x * eps + eta) by ring.
  assert (He' : / 2 * bpow radix2 (- prec + 1) = / 9007199254740992).
  { unfold prec. change (bpow radix2 (- (53) + 1)) with (/ 4503599627370496). lra. }
  assert (Ht' : / 2 * bpow radix2 (3 - emax - prec) <= / 18446744073709551616).
  { assert (Hl : bpow radix2 (3 - emax - prec) <= bpow radix2 (-63)).
    { apply bpow_le. unfold emax, prec. lia. }
    change (bpow radix2 (-63)) with (/ 9223372036854775808) in Hl. lra. }
  rewrite He' in He.
  eapply Rle_trans; [apply Rabs_triang|]. rewrite Rabs_mult.
  pose proof (Rabs_pos x) as Px.
  assert (Rabs x * Rabs eps <= Rabs x * / 9007199254740992)
    by (apply Rmult_le_compat_l; assumption).
  lra.
Qed.

(* float64(z) is exact as soon as z is a binary64 number *)
Lemma of_Z_fmt : forall z : Z, fmt (IZR z) -> Rabs (IZR z) <= bpow radix2 100 ->
  B2R (of_Z z) = IZR z /\ is_finite (of_Z z) = true.
Proof.
  intros z Hf Hz. unfold of_Z.
  generalize (binary_normalize_correct prec emax Hprec Hmax mode_NE z 0 false).
  norm_fexp. rewrite F2R_0exp. rewrite (no_overflow _ Hz).
  rewrite round_generic by (auto with typeclass_instances).
  intros [H1 [H2 _]]. split; assumption.
Qed.

(* 10^k, k <= 22, is a binary64 number: 5^k * 2^k with 5^22 < 2^53 *)
Lemma fmt_pow10 : forall e : Z, (0 <= e <= 22)%Z -> fmt (IZR (10 ^ e)).
Proof.
  intros e He.
  replace (IZR (10 ^ e)) with (F2R (Float radix2 (5 ^ e) e)).
  - apply fmt_F2R; [|lia]. rewrite Z.abs_eq by (apply Z.pow_nonneg; lia).
    apply Z.le_lt_trans with (5 ^ 22)%Z; [apply Z.pow_le_mono_r; lia | reflexivity].
  - unfold F2R. cbn [Fnum Fexp]. rewrite <- (IZR_Zpower radix2) by lia. rewrite <- mult_IZR.
    change (Zpower radix2 e) with (2 ^ e)%Z. rewrite <- Z.pow_mul_l. reflexivity.
Qed.

Lemma of_Z_pow10 : forall e : Z, (0 <= e <= 22)%Z ->
  B2R (of_Z (10 ^ e)) = IZR (10 ^ e) /\ is_finite (of_Z (10 ^ e)) = true /\ 1 <= IZR (10 ^ e).
Proof.
  intros e He.
  assert (B : (1 <= 10 ^ e <= 10 ^ 22)%Z).
  { split; [|apply Z.pow_le_mono_r; lia].
    change 1%Z with (10 ^ 0)%Z at 1. apply Z.pow_le_mono_r; lia. }
  assert (B1 : 1 <= IZR (10 ^ e)) by (apply IZR_le; lia).
  assert (B2 : IZR (10 ^ e) <= 10000000000000000000000).
  { change 10000000000000000000000 with (IZR (10 ^ 22)). apply IZR_le. lia. }
  destruct (of_Z_fmt (10 ^ e)) as [H1 H2].
  - apply fmt_pow10, He.
  - rewrite bpow100_val. rewrite Rabs_pos_eq; lra.
  - repeat split; assumption.
Qed.

(* ---------------------------------------------------------------- *)
(* two roundings: (x / y) * z  and  (x * z) / y                       *)

Lemma divmul_err : forall x y z : f64,
  is_finite x = true -> is_finite z = true ->
  0 <= B2R x <= 9007199254740992 -> 1 <= B2R y -> 0 <= B2R z <= 9007199254740992 ->
  B2R x * B2R z <= 562949953421312 * B2R y ->
  let p := fmul (fdiv x y) z in
  is_finite p = true /\ Rabs (B2R p - B2R x * B2R z / B2R y) <= / 4.
Proof.
  intros x y z Fx Fz Bx By Bz HE p.
  set (X := B2R x) in *. set (Y := B2R y) in *. set (Z := B2R z) in *.
  pose proof bpow100_val as Hbig.
  assert (Yi : 0 < / Y <= 1).
  { split; [apply Rinv_0_lt_compat; lra|]. rewrite <- Rinv_1. apply Rinv_le_contravar; lra. }
  assert (YY : Y * / Y = 1) by (apply Rinv_r; lra).
  set (a := X / Y).
  assert (Ba : 0 <= a <= 9007199254740992).
  { unfold a, Rdiv. split; [apply Rmult_le_pos; lra|]. nra. }
  assert (Ea : 0 <= a * Z <= 562949953421312).
  { split; [apply Rmult_le_pos; lra|].
    pose proof (Rmult_le_compat_r (/ Y) _ _ (Rlt_le _ _ (proj1 Yi)) HE) as H.
    unfold a, Rdiv. nra. }
  destruct (fdiv_correct x y Fx) as [Hq Fq].
  - fold Y. lra.
  - fold X Y a. rewrite Rabs_pos_eq; lra.
  - set (q := fdiv x y) in *. fold X Y a in Hq.
    pose proof (RN_err a) as E1. rewrite <- Hq in E1. rewrite (Rabs_pos_eq a) in E1 by lra.
    set (Q := B2R q) in *. apply Rabs_le_inv in E1.
    set (E := a * Z) in *.
    assert (Eb : - (/ 16 + / 2048) <= Q * Z - E <= / 16 + / 2048).
    { pose proof (Rmult_le_compat_r Z _ _ (proj1 Bz) (proj1 E1)) as L.
      pose proof (Rmult_le_compat_r Z _ _ (proj1 Bz) (proj2 E1)) as U.
      unfold E in *. nra. }
    set (b := Q * Z) in *.
    destruct (fmul_correct q z Fq Fz) as [Hp Fp].
    + fold Q Z b. rewrite Hbig. apply Rabs_le. lra.
    + fold p in Hp, Fp. fold Q Z b in Hp. split; [exact Fp|].
      replace (X * Z / Y) with E by (unfold E, a; field; lra).
      pose proof (RN_err b) as E2. rewrite <- Hp in E2.
      assert (Bb : Rabs b <= 562949953421313) by (apply Rabs_le; lra).
      set (W := Rabs b) in *. apply Rabs_le_inv in E2. apply Rabs_le. lra.
Qed.

Lemma muldiv_err : forall x y z : f64,
  is_finite x = true -> is_finite z = true ->
  0 <= B2R x <= 9007199254740992 -> 1 <= B2R y -> 0 <= B2R z <= 1073741824 ->
  B2R x * B2R z <= 562949953421312 * B2R y ->
  let p := fdiv (fmul x z) y in
  is_finite p = true /\ Rabs (B2R p - B2R x * B2R z / B2R y) <= / 4.
Proof.
  intros x y z Fx Fz Bx By Bz HE p.
  set (X := B2R x) in *. set (Y := B2R y) in *. set (Z := B2R z) in *.
  pose proof bpow100_val as Hbig.
  assert (Yi : 0 < / Y <= 1).
  { split; [apply Rinv_0_lt_compat; lra|]. rewrite <- Rinv_1. apply Rinv_le_contravar; lra. }
  assert (YY : Y * / Y = 1) by (apply Rinv_r; lra).
  set (P := X * Z) in *.
  assert (BP : 0 <= P <= 9671406556917033397649408).
  { unfold P. split; [apply Rmult_le_pos; lra|]. nra. }
  set (E := P / Y).
  assert (BE : 0 <= E <= 562949953421312).
  { unfold E, Rdiv. split; [apply Rmult_le_pos; lra|].
    pose proof (Rmult_le_compat_r (/ Y) _ _ (Rlt_le _ _ (proj1 Yi)) HE) as H. nra. }
  destruct (fmul_correct x z Fx Fz) as [Hq Fq].
  - fold X Z P. rewrite Hbig. rewrite Rabs_pos_eq; lra.
  - set (q := fmul x z) in *. fold X Z P in Hq.
    pose proof (RN_err P) as E1. rewrite <- Hq in E1. rewrite (Rabs_pos_eq P) in E1 by lra.
    set (Q := B2R q) in *. apply Rabs_le_inv in E1.
    assert (Eb : - (/ 16 + / 2048) <= Q / Y - E <= / 16 + / 2048).
    { pose proof (Rmult_le_compat_r (/ Y) _ _ (Rlt_le _ _ (proj1 Yi)) (proj1 E1)) as L.
      pose proof (Rmult_le_compat_r (/ Y) _ _ (Rlt_le _ _ (proj1 Yi)) (proj2 E1)) as U.
      unfold E, Rdiv in *. nra. }
    set (b := Q / Y) in *.
    destruct (fdiv_correct q y Fq) as [Hp Fp].
    + fold Y. lra.
    + fold Q Y b. rewrite Hbig. apply Rabs_le. lra.
    + fold p in Hp, Fp. fold Q Y b in Hp. split; [exact Fp|].
      pose proof (RN_err b) as E2. rewrite <- Hp in E2.
      assert (Bb : Rabs b <= 562949953421313) by (apply Rabs_le; lra).
      set (W := Rabs b) in *. apply Rabs_le_inv in E2. apply Rabs_le. lra.
Qed.

(* from the error bound to the instant *)
Lemma denotes_of_err : forall (p : f64) (num den : Z), (0 < den)%Z -> is_finite p = true ->
  Rabs (B2R p - IZR num / IZR den) <= / 4 -> denotes_instant (round_Z p) num den.
Proof.
  intros p num den Hden Fp Hp.
  assert (HD : 0 < IZR den) by (apply IZR_lt; exact Hden).
  rewrite (round_Z_correct p Fp). split.
  - intros [k Hk]. subst num. rewrite Z.div_mul by lia.
    apply Znearest_away_imp.
    replace (IZR (k * den) / IZR den) with (IZR k) in Hp by (rewrite mult_IZR; field; lra).
    lra.
  - pose proof (Znearest_away_half (B2R p)) as Hr.
    set (r := Znearest_away (B2R p)) in *.
    apply lt_IZR. rewrite abs_IZR, minus_IZR, mult_IZR.
    replace (IZR r * IZR den - IZR num) with ((IZR r - IZR num / IZR den) * IZR den)
      by (field; lra).
    rewrite Rabs_mult, (Rabs_pos_eq (IZR den)) by lra.
    assert (Hs : Rabs (IZR r - IZR num / IZR den) <= 3 / 4).
    { apply Rabs_le_inv in Hr. apply Rabs_le_inv in Hp. apply Rabs_le. lra. }
    pose proof (Rabs_pos (IZR r - IZR num / IZR den)) as Hpos.
    nra.
Qed.

Lemma IZR_lt53 : forall z : Z, (0 <= z < 2 ^ 53)%Z -> 0 <= IZR z <= 9007199254740992.
Proof.
  intros z Hz. change (2 ^ 53)%Z with 9007199254740992%Z in Hz.
  split; apply IZR_le; lia.
Qed.

Lemma IZR_bound49 : forall a b c : Z, (a * b < 2 ^ 49 * c)%Z ->
  IZR a * IZR b <= 562949953421312 * IZR c.
Proof.
  intros a b c H. change (2 ^ 49)%Z with 562949953421312%Z in H.
  rewrite <- 2!mult_IZR. apply IZR_le. lia.
Qed.

(* ---------------------------------------------------------------- *)
(* the theorems                                                       *)

Lemma timebase_bound : forall m, (m = Mh \/ m = Mm \/ m = Ms \/ m = Mms) ->
  (0 < timebase m < 2 ^ 53)%Z.
Proof.
  intros m [-> | [-> | [-> | ->]]]; cbn [timebase];
    unfold hour_ns, minute_ns, second_ns, ms_ns; lia.
Qed.

(* 2 *)
Theorem offset_term_correct : forall ip fp m,
  (m = Mh \/ m = Mm \/ m = Ms \/ m = Mms) ->
  let n := dec_mant ip fp in let den := (10 ^ Z.of_nat (length fp))%Z in
  (0 <= n < 2 ^ 53)%Z -> (length fp <= 22)%nat -> (n * timebase m < 2 ^ 49 * den)%Z ->
  denotes_instant (offset_term ip fp m) (n * timebase m) den.
Proof.
  intros ip fp m Hm n den Hn Hfp Hb.
  pose proof (timebase_bound m Hm) as Htb. set (tb := timebase m) in *.
  assert (Hk : (0 <= Z.of_nat (length fp) <= 22)%Z) by lia.
  destruct (of_Z_pow10 _ Hk) as [Hd1 [Hd2 Hd3]]. fold den in Hd1, Hd2, Hd3.
  destruct (of_Z_correct n) as [Hn1 Hn2]; [lia|].
  destruct (of_Z_correct tb) as [Ht1 Ht2]; [lia|].
  assert (Hden : (0 < den)%Z) by (apply lt_IZR; lra).
  unfold offset_term, parse_dec. fold n den tb.
  destruct (divmul_err (of_Z n) (of_Z den) (of_Z tb)) as [Fp Ep].
  - exact Hn2.
  - exact Ht2.
  - rewrite Hn1. apply IZR_lt53. lia.
  - rewrite Hd1. exact Hd3.
  - rewrite Ht1. apply IZR_lt53. lia.
  - rewrite Hn1, Hd1, Ht1. apply IZR_bound49. exact Hb.
  - rewrite Hn1, Hd1, Ht1 in Ep. apply denotes_of_err; [exact Hden | exact Fp |].
    rewrite mult_IZR. exact Ep.
Qed.

Lemma second_ns_bound : (0 < second_ns < 2 ^ 53)%Z.
Proof. unfold second_ns. lia. Qed.

(* 3 *)
Theorem frames_term_correct : forall f fr, (0 < f < 2 ^ 53)%Z -> (0 < fr < 2 ^ 53)%Z ->
  (f * second_ns < 2 ^ 49 * fr)%Z -> denotes_instant (frames_term f fr) (f * second_ns) fr.
Proof.
  intros f fr Hf Hfr Hb. pose proof second_ns_bound as Hs.
  destruct (of_Z_correct f) as [Hf1 Hf2]; [lia|].
  destruct (of_Z_correct fr) as [Hr1 Hr2]; [lia|].
  destruct (of_Z_correct second_ns) as [Hs1 Hs2]; [lia|].
  unfold frames_term.
  destruct (divmul_err (of_Z f) (of_Z fr) (of_Z second_ns)) as [Fp Ep].
  - exact Hf2.
  - exact Hs2.
  - rewrite Hf1. apply IZR_lt53. lia.
  - rewrite Hr1. apply IZR_le. lia.
  - rewrite Hs1. apply IZR_lt53. lia.
  - rewrite Hf1, Hr1, Hs1. apply IZR_bound49. exact Hb.
  - rewrite Hf1, Hr1, Hs1 in Ep. apply denotes_of_err; [lia | exact Fp |].
    rewrite mult_IZR. exact Ep.
Qed.

(* 4 *)
Theorem ticks_term_correct : forall t tr, (0 < t < 2 ^ 53)%Z -> (0 < tr < 2 ^ 53)%Z ->
  (t * second_ns < 2 ^ 49 * tr)%Z -> denotes_instant (ticks_term t tr) (t * second_ns) tr.
Proof.
  intros t tr Ht Htr Hb. pose proof second_ns_bound as Hs.
  destruct (of_Z_correct t) as [Ht1 Ht2]; [lia|].
  destruct (of_Z_correct tr) as [Hr1 Hr2]; [lia|].
  destruct (of_Z_correct second_ns) as [Hs1 Hs2]; [lia|].
  unfold ticks_term.
  destruct (muldiv_err (of_Z t) (of_Z tr) (of_Z second_ns)) as [Fp Ep].
  - exact Ht2.
  - exact Hs2.
  - rewrite Ht1. apply IZR_lt53. lia.
  - rewrite Hr1. apply IZR_le. lia.
  - rewrite Hs1. unfold second_ns. lra.
  - rewrite Ht1, Hr1, Hs1. apply IZR_bound49. exact Hb.
  - rewrite Ht1, Hr1, Hs1 in Ep. apply denotes_of_err; [lia | exact Fp |].
    rewrite mult_IZR. exact Ep.
Qed.

(* 5 *)
Theorem count_exact : forall ip, (0 <= dec_mant ip [] < 2 ^ 53)%Z ->
  to_Z (parse_dec ip []) = dec_mant ip [].
Proof.
  intros ip Hn. unfold parse_dec. set (n := dec_mant ip []) in *.
  assert (E : forall A : Type, (10 ^ Z.of_nat (@length A []))%Z = 1%Z) by reflexivity.
  rewrite E.
  destruct (of_Z_correct n) as [Hn1 Hn2]; [lia|].
  destruct (of_Z_correct 1) as [Ho1 Ho2]; [lia|].
  pose proof (IZR_lt53 n Hn) as Bn.
  destruct (fdiv_correct (of_Z n) (of_Z 1)) as [Hq _].
  - exact Hn2.
  - rewrite Ho1. lra.
  - rewrite Hn1, Ho1. rewrite bpow100_val. replace (IZR n / 1) with (IZR n) by field.
    rewrite Rabs_pos_eq; lra.
  - rewrite to_Z_correct, Hq, Hn1, Ho1. replace (IZR n / 1) with (IZR n) by field.
    rewrite round_generic; [apply Ztrunc_IZR | auto with typeclass_instances |].
    apply fmt_IZR. lia.
Qed.

Print Assumptions round_Z_correct.
Print Assumptions offset_term_correct.
Print Assumptions frames_term_correct.
Print Assumptions ticks_term_correct.
Print Assumptions count_exact.
