(* C06: data-unit and packet codec, and what one data unit does to the page buffer, by class of unit. *)
From Coq Require Import List ZArith NArith Bool Lia.
From Astisub Require Import Kit.Base Kit.Str Kit.GoMap Gen.TtxTables Model.TtxRow Model.Ttx Model.TtxSpec Proofs.TtxTables.
Import ListNotations.
Open Scope N_scope.

(* ---- splitting a PES payload into data units ---- *)
Lemma units_fuel_trail g fuel : trail_ok g = true -> ttx_units_fuel fuel g = [].
Proof.
  intros H. destruct fuel as [|f]; [reflexivity|]. cbn [ttx_units_fuel]. destruct g as [|a [|len rest]]; try reflexivity.
  cbn [trail_ok] in H. rewrite H. reflexivity.
Qed.
Lemma units_fuel_enc us g : trail_ok g = true -> forall fuel, (length (concat (map enc_unit us) ++ g) <= fuel)%nat ->
  ttx_units_fuel fuel (concat (map enc_unit us) ++ g) = us.
Proof.
  intros Hg. induction us as [|[id d] r IH]; intros fuel Hf.
  - cbn [map concat app]. apply units_fuel_trail. exact Hg.
  - cbn [map concat enc_unit fst snd app] in *. destruct fuel as [|f]; [cbn [length] in Hf; lia|].
    cbn [ttx_units_fuel]. rewrite Nat2N.id. rewrite <- app_assoc.
    assert (Hlen : Nat.ltb (length (d ++ concat (map enc_unit r) ++ g)) (length d) = false).
    { apply Nat.ltb_ge. rewrite app_length. lia. }
    rewrite Hlen. rewrite firstn_app, Nat.sub_diag, firstn_all. cbn [firstn]. rewrite app_nil_r.
    rewrite skipn_app, Nat.sub_diag, skipn_all. cbn [skipn app]. f_equal.
    apply IH. cbn [length] in Hf. rewrite <- app_assoc, app_length in Hf. lia.
Qed.
(* the complete units come back, a truncated last unit is dropped *)
Theorem units_enc_trail us g : trail_ok g = true -> ttx_units (concat (map enc_unit us) ++ g) = us.
Proof. intros Hg. unfold ttx_units. apply units_fuel_enc; [exact Hg | apply Nat.le_refl]. Qed.
Theorem units_enc us : ttx_units (concat (map enc_unit us)) = us.
Proof. rewrite <- (app_nil_r (concat (map enc_unit us))). apply units_enc_trail. reflexivity. Qed.

(* ---- packet address codec ---- *)
Lemma ham84_dec_enc_spec n : n < 16 -> ham84_dec (ham84_enc n) = Some n.
Proof. intros H. rewrite <- ham84_is_spec. apply ham84_dec_enc. exact H. Qed.

Definition addr_ok (mag pkt : N) : bool := (1 <=? mag) && (mag <=? 8) && (pkt <? 32).
Lemma addr_sweep : forallb (fun mag => forallb (fun pkt =>
    negb (addr_ok mag pkt) ||
    (let h := N.land mag 7 + 8 * pkt in
     let h1 := N.land h 15 in let h2 := N.shiftr h 4 in
     (h1 <? 16) && (h2 <? 16) &&
     (let h' := N.land (N.lor (N.shiftl h2 4) h1) 255 in
      ((let m := N.land h' 7 in if m =? 0 then 8 else m) =? mag) && (N.shiftr h' 3 =? pkt)))) (below 32)) (below 9) = true.
Proof. vm_compute. reflexivity. Qed.

(* decoding the address of an encoded packet gives back magazine, packet number and payload *)
Theorem unit_addr_enc : forall fl mag pkt payload, addr_ok mag pkt = true ->
  unit_addr (3, enc_packet fl mag pkt payload) = Some (mag, pkt, payload).
Proof.
  intros fl mag pkt payload Hok.
  assert (Hr : mag < 9 /\ pkt < 32).
  { unfold addr_ok in Hok. apply andb_true_iff in Hok. destruct Hok as [H1 H2]. apply andb_true_iff in H1. destruct H1 as [_ H1].
    apply N.leb_le in H1. apply N.ltb_lt in H2. lia. }
  destruct Hr as [Hm Hp].
  pose proof addr_sweep as S. rewrite forallb_forall in S. specialize (S mag (below_in 9 mag Hm)).
  rewrite forallb_forall in S. specialize (S pkt (below_in 32 pkt Hp)). rewrite Hok in S. cbn [negb orb] in S.
  cbv zeta in S. apply andb_true_iff in S. destruct S as [S S2]. apply andb_true_iff in S. destruct S as [Sa Sb].
  apply N.ltb_lt in Sa. apply N.ltb_lt in Sb. apply andb_true_iff in S2. destruct S2 as [Sm Sp].
  apply N.eqb_eq in Sm. apply N.eqb_eq in Sp.
  unfold unit_addr, enc_packet. cbn [fst snd length nth skipn Nat.ltb Nat.leb negb N.eqb Pos.eqb].
  rewrite (ham84_dec_enc_spec _ Sa), (ham84_dec_enc_spec _ Sb). rewrite Sm, Sp. reflexivity.
Qed.

(* parseDataUnit is parsePacket at the decoded address *)
Lemma nth_byte_at i s : ttx_byte_at i s = nth i s 0. Proof. reflexivity. Qed.
Lemma parse_unit_addr i id t b :
  parse_unit i id t b = match unit_addr (id, i) with Some (mag, pkt, p) => parse_packet p mag pkt t b | None => Ok b end.
Proof.
  unfold parse_unit, unit_addr. cbn [fst snd]. rewrite !nth_byte_at. rewrite !ham84_is_spec.
  destruct (negb (id =? 3)); [reflexivity|]. destruct (Nat.ltb (length i) 4); [reflexivity|].
  destruct (negb (nth 1 i 0 =? 228)); [reflexivity|].
  destruct (ham84_dec (nth 2 i 0)); [|reflexivity]. destruct (ham84_dec (nth 3 i 0)); reflexivity.
Qed.

(* ---- header codec ---- *)
Theorem hdr_full_enc : forall h, hdr_ok h = true -> negb ((h_tens h =? 15) && (h_units h =? 15)) = true ->
  hdr_full (enc_header h) = Some (h_pn h, h_serial h, h_cs h) /\ hdr_c6 (enc_header h) = Some (h_subtitle h).
Proof.
  intros h Hok Hff. unfold hdr_ok in Hok. repeat (apply andb_true_iff in Hok; destruct Hok as [Hok ?]).
  repeat match goal with H : (_ <? 16) = true |- _ => apply N.ltb_lt in H end.
  unfold hdr_full, hdr_digits, hdr_c6, enc_header. cbn [app length nth Nat.ltb Nat.leb].
  assert (L : Nat.ltb (S (S (S (S (S (S (S (S (length (h_rest h)))))))))) 8 = false) by (apply Nat.ltb_ge; lia).
  try rewrite L. rewrite !ham84_dec_enc_spec by assumption.
  apply negb_true_iff in Hff. rewrite Hff. split; reflexivity.
Qed.

(* ---- one unit against a buffer on which a page is selected ---- *)
Definition selected (mag0 : N) (pn0 : Z) (b : pbuf) : Prop := pb_mag b = mag0 /\ pb_page b = pn0 /\ mag0 <> 0.

Lemma parse_header_view p mag t b mag0 pn0 : selected mag0 pn0 b ->
  parse_header p mag t b =
  match hdr_full p with
  | None => b
  | Some (pn, serial, cs) =>
    let other := negb (pn =? pn0)%Z in
    if pb_recv b && ((serial && other) || (negb serial && other && (mag =? mag0)))
    then mkPbuf (pb_cd b) (pb_cur b) (pb_done b) (pb_mag b) (pb_page b) false
    else if other || negb (mag =? mag0) then b
    else mkPbuf (pb_cd b) (Some (new_page cs t))
                (match pb_cur b with Some q => pb_done b ++ [page_with_end q t] | None => pb_done b end)
                (pb_mag b) (pb_page b) true
  end.
Proof.
  intros (Hm & Hp & H0). unfold parse_header, hdr_full, hdr_digits. rewrite !nth_byte_at, !ham84_is_spec.
  destruct (Nat.ltb (length p) 8); [reflexivity|].
  destruct (ham84_dec (nth 0 p 0)) as [u|]; [|reflexivity]. destruct (ham84_dec (nth 1 p 0)) as [tn|]; [|reflexivity].
  destruct ((tn =? 15) && (u =? 15)); [reflexivity|].
  assert (Hsel : (pb_mag b =? 0) && (pb_page b =? 0)%Z = false).
  { rewrite Hm. destruct (N.eqb_spec mag0 0); [contradiction | reflexivity]. }
  rewrite Hsel. destruct (ham84_dec (nth 7 p 0)) as [cb|]; [|reflexivity].
  cbv zeta. rewrite Hm, Hp. reflexivity.
Qed.

(* the model's triplet decoding (bits.Reverse8 table) is the specification's (bit reversal written out) *)
Lemma land255_lt x : N.land x 255 < 256.
Proof. change 255 with (N.ones 8). rewrite N.land_ones. apply N.mod_lt. discriminate. Qed.
Lemma triplet_dec_spec i : triplet_dec i = triplet_of i.
Proof. unfold triplet_dec, triplet_of. rewrite !nth_byte_at. rewrite !rev8_is_spec by apply land255_lt. reflexivity. Qed.

Lemma benign_step mag0 pn0 u t b : selected mag0 pn0 b -> benign mag0 pn0 u = true ->
  parse_unit (snd u) (fst u) t b = Ok b.
Proof.
  intros Hs Hb. destruct u as [id i]. cbn [fst snd]. rewrite parse_unit_addr. unfold benign in Hb.
  destruct (unit_addr (id, i)) as [[[mag pkt] p]|]; [|reflexivity].
  destruct Hs as (Hm & Hp & H0). unfold parse_packet.
  destruct (N.eqb_spec pkt 0) as [E0|N0].
  - rewrite (parse_header_view p mag t b mag0 pn0 (conj Hm (conj Hp H0))).
    destruct (hdr_full p) as [[[pn serial] cs]|]; [|reflexivity].
    apply andb_true_iff in Hb. destruct Hb as [Hmag Hps]. apply negb_true_iff in Hmag. rewrite Hmag.
    cbv zeta. destruct (pb_recv b), serial, (pn =? pn0)%Z; cbn in Hps |- *; try reflexivity; discriminate.
  - rewrite Hm. destruct (pkt <=? 25) eqn:L25.
    + apply N.leb_le in L25. apply orb_true_iff in Hb.
      destruct (pb_recv b && (mag =? mag0) && (1 <=? pkt)) eqn:C; cbn [andb].
      * apply andb_true_iff in C. destruct C as [C _]. apply andb_true_iff in C. destruct C as [_ C].
        destruct Hb as [Hb|Hb]; [rewrite C in Hb; discriminate|]. unfold parse_data. rewrite Hb. reflexivity.
      * destruct (Nat.ltb (length p) 1); [reflexivity|]. destruct (ham84 (ttx_byte_at 0 p)); [|reflexivity].
        destruct (N.eqb_spec pkt 26); [lia|]. destruct (N.eqb_spec pkt 28); [lia|]. destruct (N.eqb_spec pkt 29); [lia|].
        rewrite !andb_false_r. reflexivity.
    + rewrite andb_false_r.
      destruct (Nat.ltb (length p) 1) eqn:L1; [reflexivity|]. rewrite nth_byte_at, ham84_is_spec.
      destruct (ham84_dec (nth 0 p 0)) as [dc|] eqn:D; [|reflexivity].
      destruct (N.eqb_spec pkt 26) as [-> | N26]; [destruct (pb_recv b), (mag =? mag0); cbn [andb N.eqb Pos.eqb]; reflexivity|].
      rewrite !andb_false_r.
      assert (Inert : (pkt =? 28) || (pkt =? 29) = true -> (mag =? mag0) = true -> parse_2829 (tl p) pkt dc b = Ok b).
      { intros Hk Hmm. rewrite Hk in Hb. rewrite Hmm in Hb. cbn [negb orb] in Hb. unfold triplet_inert in Hb.
        rewrite L1, D in Hb. cbn [orb] in Hb. unfold parse_2829.
        destruct (negb (dc =? 0) && negb (dc =? 4)); [reflexivity|]. cbn [orb] in Hb.
        destruct (Nat.ltb (length (tl p)) 3); [reflexivity|]. cbn [orb] in Hb.
        rewrite triplet_dec_spec. destruct (triplet_of (tl p)) as [tr|]; [|reflexivity]. rewrite Hb. reflexivity. }
      destruct (N.eqb_spec pkt 28) as [-> | N28].
      * specialize (Inert eq_refl). destruct (pb_recv b), (mag =? mag0); cbn [andb N.eqb Pos.eqb]; try reflexivity; apply Inert; reflexivity.
      * rewrite !andb_false_r. destruct (N.eqb_spec pkt 29) as [-> | N29].
        -- specialize (Inert eq_refl). destruct (mag =? mag0); cbn [andb]; [apply Inert; reflexivity | reflexivity].
        -- rewrite andb_false_r. reflexivity.
Qed.
